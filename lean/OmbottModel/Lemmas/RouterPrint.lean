import OmbottModel.Lemmas.RouterParse
/-!
Rule syntax flavours: abstract rules, their printed forms, and `parseRule (print r) = r`
(`parse_print`).
-/
namespace Ombott.Router
open Py

/-! ### abstract rules and the flavours a wildcard can be written in -/

inductive Delim | angle | brace
  deriving DecidableEq, Repr

def Delim.opn : Delim → Char
  | .angle => '<'
  | .brace => '{'

def Delim.cls : Delim → Char
  | .angle => '>'
  | .brace => '}'

/-- how a wildcard is written -/
inductive Flavour
  | colon                       -- `:name`               plain, named, before `/` or at the end
  | colonEnd                    -- `:`                   plain, anonymous, at the end
  | bare (d : Delim)            -- `<name>`              plain, named
  | colonFilter (d : Delim)     -- `<name:f>` / `<:f>`   filter without argument
  | dotFilter (d : Delim)       -- `<name.f>`            filter without argument, named
  | dotParen (d : Delim)        -- `<name.f(args)>` / `<f(args)>`
  | colonParen (d : Delim)      -- `<name:f(args)>` / `<:f(args)>`
  | bottleArgs (d : Delim)      -- `<name:f:args>` / `<:f:args>`
  deriving DecidableEq, Repr

/-- one segment of an abstract rule -/
inductive ASeg
  | lit (t : Str)
  | wild (fl : Flavour) (name : Option Str) (filter : Option Str) (args : Option Str)
  deriving Repr

/-- identifiers: `[a-zA-Z_]\w*` -/
def IsIdent (nm : Str) : Prop := ∃ c r, nm = c :: r ∧ isNameStart c = true ∧ ∀ x ∈ r, isWord x = true

/-- printed form of a wildcard -/
def printWild (fl : Flavour) (name : Option Str) (filter : Option Str) (args : Option Str) : Str :=
  let nm := name.getD []
  let f := filter.getD []
  let a := args.getD []
  match fl with
  | .colon => ':' :: nm
  | .colonEnd => [':']
  | .bare d => d.opn :: nm ++ [d.cls]
  | .colonFilter d => d.opn :: nm ++ ':' :: f ++ [d.cls]
  | .dotFilter d => d.opn :: nm ++ '.' :: f ++ [d.cls]
  | .dotParen d =>
    match name with
    | some n => d.opn :: n ++ '.' :: f ++ '(' :: a ++ ')' :: [d.cls]
    | none => d.opn :: f ++ '(' :: a ++ ')' :: [d.cls]
  | .colonParen d => d.opn :: nm ++ ':' :: f ++ '(' :: a ++ ')' :: [d.cls]
  | .bottleArgs d => d.opn :: nm ++ ':' :: f ++ ':' :: a ++ [d.cls]

def printSeg : ASeg → Str
  | .lit t => t
  | .wild fl name filter args => printWild fl name filter args

def printSegs (segs : List ASeg) : Str := (segs.map printSeg).flatten

/-- the rule text -/
def printRule (segs : List ASeg) : Str := '/' :: printSegs segs

/-- the flavour can express the wildcard -/
def WildOK (fl : Flavour) (name filter args : Option Str) : Prop :=
  (∀ n, name = some n → IsIdent n) ∧ (∀ f, filter = some f → IsIdent f ∧ f ≠ "path".toList) ∧
  match fl with
  | .colon => name.isSome ∧ filter = none ∧ args = none
  | .colonEnd => name = none ∧ filter = none ∧ args = none
  | .bare _ => name.isSome ∧ filter = none ∧ args = none
  | .colonFilter _ => filter.isSome ∧ args = none
  | .dotFilter _ => name.isSome ∧ filter.isSome ∧ args = none
  | .dotParen _ | .colonParen _ =>
    filter.isSome ∧ ∃ a, args = some a ∧ ∀ c ∈ a, c ≠ '(' ∧ c ≠ ')' ∧ c ≠ '\\'
  | .bottleArgs d => filter.isSome ∧ ∃ a, args = some a ∧ a ≠ [] ∧ d.cls ∉ a

/-- well-formed abstract rule: literal runs are maximal, non-empty and free of parameter tokens;
`:name` stands before a `/` or at the end, `:` at the end -/
def SegsOK : List ASeg → Prop
  | [] => True
  | .lit t :: rest =>
    t ≠ [] ∧ (∀ c ∈ t, isParamTok c = false) ∧
    (match rest with | .lit _ :: _ => False | _ => True) ∧ SegsOK rest
  | .wild fl name filter args :: rest =>
    WildOK fl name filter args ∧
    (match fl with
     | .colon => (match rest with | [] => True | .lit t :: _ => t.head? = some '/' | _ => False)
     | .colonEnd => rest = []
     | _ => True) ∧ SegsOK rest

/-- the item the parser is expected to yield for a segment -/
def partOf : ASeg → Part
  | .lit t => { part := some t }
  | .wild _ name filter args => { param := name, filter := filter, args := args }

/-! ### helper facts -/

theorem takeWhile_append_stop {p : Char → Bool} (l rest : Str) (hl : ∀ c ∈ l, p c = true)
    (hr : ∀ c, rest.head? = some c → p c = false) : (l ++ rest).takeWhile p = l := by
  induction l with
  | nil =>
    cases rest with
    | nil => rfl
    | cons c r => simp [List.takeWhile_cons, hr c rfl]
  | cons x xs ih =>
    simp only [List.cons_append, List.takeWhile_cons, hl x (by simp), if_true]
    rw [ih (fun c hc => hl c (by simp [hc]))]

theorem dropWhile_append_stop {p : Char → Bool} (l rest : Str) (hl : ∀ c ∈ l, p c = true)
    (hr : ∀ c, rest.head? = some c → p c = false) : (l ++ rest).dropWhile p = rest := by
  induction l with
  | nil =>
    cases rest with
    | nil => rfl
    | cons c r => simp [List.dropWhile_cons, hr c rfl]
  | cons x xs ih =>
    simp only [List.cons_append, List.dropWhile_cons, hl x (by simp), if_true]
    exact ih (fun c hc => hl c (by simp [hc]))

theorem pyName_ident {nm : Str} (h : IsIdent nm) (rest : Str)
    (hr : ∀ c, rest.head? = some c → isWord c = false) : pyName (nm ++ rest) = some (nm, rest) := by
  obtain ⟨c, r, rfl, hc, hw⟩ := h
  simp only [List.cons_append, pyName, hc, if_true]
  rw [takeWhile_append_stop r rest hw hr, dropWhile_append_stop r rest hw hr]

theorem IsIdent.ne_nil {nm : Str} (h : IsIdent nm) : nm ≠ [] := by
  obtain ⟨c, r, rfl, _, _⟩ := h; simp

theorem IsIdent.head_ne_colon {nm : Str} (h : IsIdent nm) (rest : Str) :
    ((nm ++ rest).head? == some ':') = false := by
  obtain ⟨c, r, rfl, hc, _⟩ := h
  have : c ≠ ':' := by intro e; subst e; simp [isNameStart, isAsciiAlpha] at hc
  simpa using this

theorem scanParen_cons (c : Char) (r : Str) (lvl : Nat) (acc : Str) (h : c ≠ '\\') :
    scanParen (c :: r) lvl acc =
      if c == ')' then
        match lvl with
        | 0 => some (acc.reverse, r)
        | l + 1 => scanParen r l (c :: acc)
      else if c == '(' then scanParen r (lvl + 1) (c :: acc)
      else scanParen r lvl (c :: acc) := by
  rw [scanParen.eq_def]
  split
  · rename_i heq; cases heq
  · rename_i heq; simp only [List.cons.injEq] at heq; exact absurd heq.1 h
  · rename_i heq; simp only [List.cons.injEq] at heq; exact absurd heq.1 h
  · rename_i heq
    simp only [List.cons.injEq] at heq
    obtain ⟨rfl, rfl⟩ := heq
    rfl

theorem scanParen_simple (a rest acc : Str) (ha : ∀ c ∈ a, c ≠ '(' ∧ c ≠ ')' ∧ c ≠ '\\') :
    scanParen (a ++ ')' :: rest) 0 acc = some (acc.reverse ++ a, rest) := by
  induction a generalizing acc with
  | nil => simp [scanParen_cons]
  | cons x xs ih =>
    obtain ⟨h1, h2, h3⟩ := ha x (by simp)
    have e1 : (x == ')') = false := by simpa using h2
    have e2 : (x == '(') = false := by simpa using h1
    rw [List.cons_append, scanParen_cons x _ 0 acc h3]
    simp only [e1, e2, Bool.false_eq_true, if_false]
    rw [ih _ (fun c hc => ha c (by simp [hc]))]
    simp

theorem closeOf_opn (d : Delim) : closeOf d.opn = some d.cls := by cases d <;> decide
theorem opn_ne_colon (d : Delim) : (d.opn == ':') = false := by cases d <;> decide
theorem isParamTok_opn (d : Delim) : isParamTok d.opn = true := by cases d <;> decide
theorem isWord_cls (d : Delim) : isWord d.cls = false := by cases d <;> decide
theorem cls_ne (d : Delim) : (d.cls == '.') = false ∧ (d.cls == ':') = false ∧ (d.cls == '(') = false ∧
    (d.cls == '[') = false := by cases d <;> decide

/-! ### one wildcard, every flavour -/

theorem isWord_misc : isWord '/' = false ∧ isWord ':' = false ∧ isWord '.' = false ∧ isWord '(' = false := by
  decide

theorem head_word_false (c : Char) (rest : Str) (h : isWord c = false) :
    ∀ x, (c :: rest).head? = some x → isWord x = false := by
  intro x hx; simp only [List.head?_cons, Option.some.injEq] at hx; subst hx; exact h

/-- after the wildcard's name(s): the filter tail and the closing delimiter, no filter -/
theorem parseClose_nofilter (d : Delim) (param : Option Str) (rest : Str) :
    parseClose d.cls param none (d.cls :: rest) = .ok ({ param := param }, rest) := by
  simp [parseClose, expectClose, Except.map]

theorem parseClose_noargs (d : Delim) (param : Option Str) (f rest : Str) :
    parseClose d.cls param (some f) (d.cls :: rest) = .ok ({ param := param, filter := some f }, rest) := by
  simp [parseClose, parseFilterTail, expectClose, Except.map]

theorem parseClose_paren (d : Delim) (param : Option Str) (f a rest : Str)
    (ha : ∀ c ∈ a, c ≠ '(' ∧ c ≠ ')' ∧ c ≠ '\\') :
    parseClose d.cls param (some f) ('(' :: a ++ ')' :: d.cls :: rest) =
      .ok ({ param := param, filter := some f, args := some a }, rest) := by
  obtain ⟨_, _, h3, h4⟩ := cls_ne d
  have e1 : ('(' == d.cls) = false := by
    rw [Bool.eq_false_iff] at h3 ⊢
    intro h; apply h3; simp only [beq_iff_eq] at h ⊢; exact h.symm
  have e4 : (d.cls == '[') = false := h4
  simp only [parseClose, parseFilterTail, e1, Bool.false_eq_true, if_false, beq_self_eq_true, if_true,
    List.cons_append]
  rw [scanParen_simple a (d.cls :: rest) [] ha]
  simp [expectClose, Except.map, e4]

theorem parseClose_bottle (d : Delim) (param : Option Str) (f a rest : Str) (hne : a ≠ [])
    (ha : d.cls ∉ a) :
    parseClose d.cls param (some f) (':' :: a ++ d.cls :: rest) =
      .ok ({ param := param, filter := some f, args := some a }, rest) := by
  obtain ⟨_, h2, _, _⟩ := cls_ne d
  have e1 : (':' == d.cls) = false := by
    rw [Bool.eq_false_iff] at h2 ⊢
    intro h; apply h2; simp only [beq_iff_eq] at h ⊢; exact h.symm
  have e2 : (':' == '(') = false := by decide
  have htw : (a ++ d.cls :: rest).takeWhile (· != d.cls) = a :=
    takeWhile_append_stop a _ (fun c hc => by
      have : c ≠ d.cls := fun e => ha (e ▸ hc)
      simpa using this) (fun c hc => by
      simp only [List.head?_cons, Option.some.injEq] at hc; subst hc; simp)
  have hdw : (a ++ d.cls :: rest).dropWhile (· != d.cls) = d.cls :: rest :=
    dropWhile_append_stop a _ (fun c hc => by
      have : c ≠ d.cls := fun e => ha (e ▸ hc)
      simpa using this) (fun c hc => by
      simp only [List.head?_cons, Option.some.injEq] at hc; subst hc; simp)
  have hemp : a.isEmpty = false := by cases a <;> simp_all
  simp only [parseClose, parseFilterTail, e1, e2, Bool.false_eq_true, if_false, beq_self_eq_true,
    if_true, List.cons_append, htw, hdw, hemp]
  simp [expectClose, Except.map]

theorem parseParam_open (d : Delim) (body : Str) :
    parseParam (d.opn :: body) =
      match pyName (if body.head? == some ':' then body.drop 1 else body) with
      | none => .error .routeSyntaxError
      | some (name, r1) =>
        match parseAfterName d.cls (body.head? == some ':') name r1 with
        | .error e => .error e
        | .ok (param, filter, r2) => parseClose d.cls param filter r2 := by
  simp only [parseParam, opn_ne_colon, Bool.false_eq_true, if_false, closeOf_opn]
  cases pyName (if (body.head? == some ':') = true then body.drop 1 else body) with
  | none => rfl
  | some x =>
    obtain ⟨name, r1⟩ := x
    simp only
    cases parseAfterName d.cls (body.head? == some ':') name r1 with
    | error e => rfl
    | ok y => obtain ⟨a, b, c⟩ := y; rfl

theorem ne_of_beq_false {a b : Char} (h : (a == b) = false) : (b == a) = false := by
  rw [Bool.eq_false_iff] at h ⊢
  intro h'; apply h; simp only [beq_iff_eq] at h' ⊢; exact h'.symm

/-- the item and the remaining text for a wildcard written in any flavour that can express it -/
theorem parseParam_printWild (fl : Flavour) (name filter args : Option Str) (rest : Str)
    (hok : WildOK fl name filter args)
    (hfollow : match fl with
      | .colon => rest = [] ∨ rest.head? = some '/'
      | .colonEnd => rest = []
      | _ => True) :
    parseParam (printWild fl name filter args ++ rest) =
      .ok ({ param := name, filter := filter, args := args }, rest) := by
  obtain ⟨hname, hfilter, hfl⟩ := hok
  obtain ⟨w1, w2, w3, w4⟩ := isWord_misc
  cases fl with
  | colon =>
    obtain ⟨hn, rfl, rfl⟩ := hfl
    obtain ⟨n, rfl⟩ := Option.isSome_iff_exists.mp hn
    have hid := hname n rfl
    have hne : (n ++ rest).isEmpty = false := by
      cases n with
      | nil => exact absurd rfl hid.ne_nil
      | cons c r => rfl
    have hpy : pyName (n ++ rest) = some (n, rest) := by
      apply pyName_ident hid
      rcases hfollow with rfl | h
      · intro c hc; cases hc
      · intro c hc; rw [h] at hc; cases hc; exact w1
    simp only [printWild, Option.getD_some, List.cons_append, parseParam, beq_self_eq_true, if_true,
      hne, Bool.false_eq_true, if_false, hpy]
    rcases hfollow with rfl | h
    · simp
    · simp [h]
  | colonEnd =>
    obtain ⟨rfl, rfl, rfl⟩ := hfl
    subst hfollow
    simp [printWild, parseParam]
  | bare d =>
    obtain ⟨hn, rfl, rfl⟩ := hfl
    obtain ⟨n, rfl⟩ := Option.isSome_iff_exists.mp hn
    have hid := hname n rfl
    simp only [printWild, Option.getD_some, List.cons_append, List.append_assoc]
    rw [parseParam_open, hid.head_ne_colon]
    simp only [Bool.false_eq_true, if_false]
    rw [pyName_ident hid _ (head_word_false _ _ (isWord_cls d))]
    simp only [List.nil_append, List.singleton_append, parseAfterName, beq_self_eq_true, if_true]
    exact parseClose_nofilter d (some n) rest
  | colonFilter d =>
    obtain ⟨hf, rfl⟩ := hfl
    obtain ⟨f, rfl⟩ := Option.isSome_iff_exists.mp hf
    have hfid := (hfilter f rfl).1
    obtain ⟨c1, c2, c3, c4⟩ := cls_ne d
    cases name with
    | none =>
      simp only [printWild, Option.getD_none, Option.getD_some, List.nil_append, List.cons_append,
        List.append_assoc]
      rw [parseParam_open]
      simp only [List.head?_cons, beq_self_eq_true, if_true, List.drop_succ_cons, List.drop_zero]
      rw [pyName_ident hfid _ (head_word_false _ _ (isWord_cls d))]
      simp only [List.nil_append, List.singleton_append, parseAfterName, beq_self_eq_true, if_true]
      exact parseClose_noargs d none f rest
    | some n =>
      have hid := hname n rfl
      simp only [printWild, Option.getD_some, List.cons_append, List.append_assoc]
      rw [parseParam_open, hid.head_ne_colon]
      simp only [Bool.false_eq_true, if_false]
      rw [pyName_ident hid _ (head_word_false _ _ w2)]
      simp only [parseAfterName, ne_of_beq_false c2, Bool.false_eq_true, if_false, beq_self_eq_true, if_true]
      have e : (':' == '.') = false := by decide
      simp only [e, Bool.false_eq_true, if_false]
      rw [pyName_ident hfid _ (head_word_false _ _ (isWord_cls d))]
      simp only [List.nil_append, List.singleton_append]
      exact parseClose_noargs d (some n) f rest
  | dotFilter d =>
    obtain ⟨hn, hf, rfl⟩ := hfl
    obtain ⟨n, rfl⟩ := Option.isSome_iff_exists.mp hn
    obtain ⟨f, rfl⟩ := Option.isSome_iff_exists.mp hf
    have hid := hname n rfl
    have hfid := (hfilter f rfl).1
    obtain ⟨c1, c2, c3, c4⟩ := cls_ne d
    simp only [printWild, Option.getD_some, List.cons_append, List.append_assoc]
    rw [parseParam_open, hid.head_ne_colon]
    simp only [Bool.false_eq_true, if_false]
    rw [pyName_ident hid _ (head_word_false _ _ w3)]
    simp only [parseAfterName, ne_of_beq_false c1, Bool.false_eq_true, if_false, beq_self_eq_true, if_true]
    rw [pyName_ident hfid _ (head_word_false _ _ (isWord_cls d))]
    simp only [List.nil_append, List.singleton_append]
    exact parseClose_noargs d (some n) f rest
  | dotParen d =>
    obtain ⟨hf, a, rfl, ha⟩ := hfl
    obtain ⟨f, rfl⟩ := Option.isSome_iff_exists.mp hf
    have hfid := (hfilter f rfl).1
    obtain ⟨c1, c2, c3, c4⟩ := cls_ne d
    have e1 : ('(' == '.') = false := by decide
    have e2 : ('(' == ':') = false := by decide
    cases name with
    | none =>
      simp only [printWild, Option.getD_some, List.cons_append, List.append_assoc]
      rw [parseParam_open, hfid.head_ne_colon]
      simp only [Bool.false_eq_true, if_false]
      rw [pyName_ident hfid _ (head_word_false _ _ w4)]
      simp only [parseAfterName, ne_of_beq_false c3, e1, e2, Bool.false_eq_true, if_false,
        beq_self_eq_true, if_true]
      have := parseClose_paren d none f a rest ha
      simpa using this
    | some n =>
      have hid := hname n rfl
      simp only [printWild, Option.getD_some, List.cons_append, List.append_assoc]
      rw [parseParam_open, hid.head_ne_colon]
      simp only [Bool.false_eq_true, if_false]
      rw [pyName_ident hid _ (head_word_false _ _ w3)]
      simp only [parseAfterName, ne_of_beq_false c1, Bool.false_eq_true, if_false, beq_self_eq_true, if_true]
      rw [pyName_ident hfid _ (head_word_false _ _ w4)]
      have := parseClose_paren d (some n) f a rest ha
      simpa using this
  | colonParen d =>
    obtain ⟨hf, a, rfl, ha⟩ := hfl
    obtain ⟨f, rfl⟩ := Option.isSome_iff_exists.mp hf
    have hfid := (hfilter f rfl).1
    obtain ⟨c1, c2, c3, c4⟩ := cls_ne d
    have e1 : ('(' == '.') = false := by decide
    have e2 : ('(' == ':') = false := by decide
    have e3 : (':' == '.') = false := by decide
    cases name with
    | none =>
      simp only [printWild, Option.getD_none, Option.getD_some, List.nil_append, List.cons_append,
        List.append_assoc]
      rw [parseParam_open]
      simp only [List.head?_cons, beq_self_eq_true, if_true, List.drop_succ_cons, List.drop_zero]
      rw [pyName_ident hfid _ (head_word_false _ _ w4)]
      simp only [parseAfterName, ne_of_beq_false c3, e1, e2, Bool.false_eq_true, if_false,
        beq_self_eq_true, if_true]
      have := parseClose_paren d none f a rest ha
      simpa using this
    | some n =>
      have hid := hname n rfl
      simp only [printWild, Option.getD_some, List.cons_append, List.append_assoc]
      rw [parseParam_open, hid.head_ne_colon]
      simp only [Bool.false_eq_true, if_false]
      rw [pyName_ident hid _ (head_word_false _ _ w2)]
      simp only [parseAfterName, ne_of_beq_false c2, e3, Bool.false_eq_true, if_false, beq_self_eq_true,
        if_true]
      rw [pyName_ident hfid _ (head_word_false _ _ w4)]
      have := parseClose_paren d (some n) f a rest ha
      simpa using this
  | bottleArgs d =>
    obtain ⟨hf, a, rfl, hne, ha⟩ := hfl
    obtain ⟨f, rfl⟩ := Option.isSome_iff_exists.mp hf
    have hfid := (hfilter f rfl).1
    obtain ⟨c1, c2, c3, c4⟩ := cls_ne d
    have e3 : (':' == '.') = false := by decide
    cases name with
    | none =>
      simp only [printWild, Option.getD_none, Option.getD_some, List.nil_append, List.cons_append,
        List.append_assoc]
      rw [parseParam_open]
      simp only [List.head?_cons, beq_self_eq_true, if_true, List.drop_succ_cons, List.drop_zero]
      rw [pyName_ident hfid _ (head_word_false _ _ w2)]
      simp only [parseAfterName, ne_of_beq_false c2, e3, Bool.false_eq_true, if_false,
        beq_self_eq_true, if_true]
      have := parseClose_bottle d none f a rest hne ha
      simpa using this
    | some n =>
      have hid := hname n rfl
      simp only [printWild, Option.getD_some, List.cons_append, List.append_assoc]
      rw [parseParam_open, hid.head_ne_colon]
      simp only [Bool.false_eq_true, if_false]
      rw [pyName_ident hid _ (head_word_false _ _ w2)]
      simp only [parseAfterName, ne_of_beq_false c2, e3, Bool.false_eq_true, if_false, beq_self_eq_true,
        if_true]
      rw [pyName_ident hfid _ (head_word_false _ _ w2)]
      have := parseClose_bottle d (some n) f a rest hne ha
      simpa using this

/-! ### whole rules -/

theorem printWild_head (fl : Flavour) (name filter args : Option Str) :
    ∃ c r, printWild fl name filter args = c :: r ∧ isParamTok c = true := by
  have hc : isParamTok ':' = true := by decide
  cases fl with
  | colon => exact ⟨':', _, rfl, hc⟩
  | colonEnd => exact ⟨':', _, rfl, hc⟩
  | bare d => exact ⟨d.opn, _, rfl, isParamTok_opn d⟩
  | colonFilter d => exact ⟨d.opn, _, rfl, isParamTok_opn d⟩
  | dotFilter d => exact ⟨d.opn, _, rfl, isParamTok_opn d⟩
  | dotParen d => cases name <;> exact ⟨d.opn, _, rfl, isParamTok_opn d⟩
  | colonParen d => exact ⟨d.opn, _, rfl, isParamTok_opn d⟩
  | bottleArgs d => exact ⟨d.opn, _, rfl, isParamTok_opn d⟩

theorem printSegs_cons (x : ASeg) (xs : List ASeg) : printSegs (x :: xs) = printSeg x ++ printSegs xs := by
  simp [printSegs]

/-- after a literal run comes the end of the rule or a parameter token -/
theorem head_after_lit {rest : List ASeg}
    (h : match rest with | .lit _ :: _ => False | _ => True) :
    ∀ c, (printSegs rest).head? = some c → (!isParamTok c) = false := by
  intro c hc
  cases rest with
  | nil => simp [printSegs] at hc
  | cons x xs =>
    cases x with
    | lit t => exact h.elim
    | wild fl name filter args =>
      obtain ⟨c0, r, hp, hpt⟩ := printWild_head fl name filter args
      rw [printSegs_cons, printSeg, hp] at hc
      simp only [List.cons_append, List.head?_cons, Option.some.injEq] at hc
      subst hc; simp [hpt]

theorem iterParse_print (segs : List ASeg) (h : SegsOK segs) (fuel : Nat) (hf : segs.length < fuel) :
    iterParse fuel (printSegs segs) = (segs.map partOf, none) := by
  induction segs generalizing fuel with
  | nil =>
    cases fuel with
    | zero => exact absurd hf (by simp)
    | succ n => simp [printSegs, iterParse]
  | cons x xs ih =>
    cases fuel with
    | zero => exact absurd hf (by simp)
    | succ n =>
      have hn : xs.length < n := by simpa using hf
      cases x with
      | lit t =>
        unfold SegsOK at h
        obtain ⟨hne, htok, hnext, hrest⟩ := h
        have ih' := ih hrest n hn
        cases t with
        | nil => exact absurd rfl hne
        | cons c t' =>
          have hc : isParamTok c = false := htok c (by simp)
          have hall : ∀ x ∈ c :: t', (!isParamTok x) = true := by
            intro x hx; simp [htok x hx]
          rw [printSegs_cons, printSeg]
          have htw := takeWhile_append_stop (p := fun c => !isParamTok c) (c :: t') (printSegs xs) hall
            (head_after_lit hnext)
          have hdw := dropWhile_append_stop (p := fun c => !isParamTok c) (c :: t') (printSegs xs) hall
            (head_after_lit hnext)
          simp only [List.cons_append] at htw hdw ⊢
          unfold iterParse
          simp only [hc, Bool.false_eq_true, if_false, htw, hdw, ih', List.map_cons, partOf]
      | wild fl name filter args =>
        unfold SegsOK at h
        obtain ⟨hw, hfollow, hrest⟩ := h
        have ih' := ih hrest n hn
        obtain ⟨c0, r0, hp, hpt⟩ := printWild_head fl name filter args
        have hpp := parseParam_printWild fl name filter args (printSegs xs) hw (by
          cases fl with
          | colon =>
            simp only at hfollow ⊢
            cases xs with
            | nil => left; simp [printSegs]
            | cons y ys =>
              cases y with
              | lit t =>
                simp only at hfollow
                right
                rw [printSegs_cons, printSeg]
                cases t with
                | nil => simp at hfollow
                | cons a b => simpa using hfollow
              | wild _ _ _ _ => exact hfollow.elim
          | colonEnd => simp only at hfollow ⊢; subst hfollow; simp [printSegs]
          | bare d => trivial
          | colonFilter d => trivial
          | dotFilter d => trivial
          | dotParen d => trivial
          | colonParen d => trivial
          | bottleArgs d => trivial)
        have hnotpath : ((({ param := name, filter := filter, args := args } : Part).filter) ==
            some "path".toList) = false := by
          cases filter with
          | none => rfl
          | some f =>
            have := (hw.2.1 f rfl).2
            simpa using this
        rw [printSegs_cons, printSeg]
        rw [hp] at hpp ⊢
        simp only [List.cons_append] at hpp ⊢
        unfold iterParse
        simp only [hpt, if_true, hpp, hnotpath, Bool.false_eq_true, if_false, ih', List.map_cons, partOf]

theorem printSegs_length (segs : List ASeg) (h : SegsOK segs) : segs.length ≤ (printSegs segs).length := by
  induction segs with
  | nil => simp
  | cons x xs ih =>
    rw [printSegs_cons, List.length_append, List.length_cons]
    cases x with
    | lit t =>
      unfold SegsOK at h
      have := ih h.2.2.2
      have hl : 0 < t.length := List.length_pos_iff.mpr h.1
      simp only [printSeg]; omega
    | wild fl name filter args =>
      unfold SegsOK at h
      have := ih h.2.2
      obtain ⟨c0, r0, hp, _⟩ := printWild_head fl name filter args
      simp only [printSeg, hp, List.length_cons]; omega

/-- **Every flavour parses to the same items.**  The rule text printed from an abstract rule, in
whatever admissible mix of syntax flavours, is parsed into exactly the abstract rule's items
(text, parameter name, filter name, filter argument), from which `Route.parse_rule` builds pattern,
names and filters without looking at the flavour. -/
theorem parseRule_printRule (cenv : CompileEnv) (segs : List ASeg) (h : SegsOK segs) :
    parseRule cenv (printRule segs) = parseParts cenv (segs.map partOf) 0 := by
  unfold parseRule printRule
  have e : ('/' != '/') = false := by decide
  simp only [e, Bool.false_eq_true, if_false]
  rw [iterParse_print segs h _ (Nat.lt_succ_of_le (printSegs_length segs h))]
  simp only
  cases parseParts cenv (segs.map partOf) 0 <;> rfl

/-! ### the parsed rule of an abstract rule -/

/-- pattern (filters inline), parameter names and output pattern of an abstract rule -/
def absParsed : List ASeg → Nat → Parsed
  | [], _ => ⟨[], [], []⟩
  | .lit t :: rest, anon =>
    ⟨t.map Sym.lit ++ (absParsed rest anon).syms, (absParsed rest anon).params,
     t.map Sym.lit ++ (absParsed rest anon).symsOut⟩
  | .wild _ name filter args :: rest, anon =>
    let anon' := if name.isSome then anon else anon + 1
    ⟨.tok (filter.map fun f => fkey f args) :: (absParsed rest anon').syms,
     name.getD (Gen.anonPrefix.toList ++ natStr anon) :: (absParsed rest anon').params,
     .tok (filter.map fun f => fkey f args) :: (absParsed rest anon').symsOut⟩

/-- every filter of the rule can be built: known name, regular expression compiles -/
def FiltersBuild (cenv : CompileEnv) : List ASeg → Prop
  | [] => True
  | .lit _ :: rest => FiltersBuild cenv rest
  | .wild _ _ filter args :: rest =>
    (∀ f, filter = some f → cenv (fkey f args) = none ∧ (Gen.filterNames.any (·.toList == f)) = true) ∧
    FiltersBuild cenv rest

theorem parseParts_abs (cenv : CompileEnv) (segs : List ASeg) (h : SegsOK segs)
    (hb : FiltersBuild cenv segs) (anon : Nat) :
    parseParts cenv (segs.map partOf) anon = .ok (absParsed segs anon) := by
  induction segs generalizing anon with
  | nil => rfl
  | cons x xs ih =>
    cases x with
    | lit t =>
      unfold SegsOK at h
      unfold FiltersBuild at hb
      simp only [List.map_cons, partOf, parseParts, ih h.2.2.2 hb anon, absParsed]
      rfl
    | wild fl name filter args =>
      unfold SegsOK at h
      unfold FiltersBuild at hb
      obtain ⟨hw, _, hrest⟩ := h
      obtain ⟨hf, hbr⟩ := hb
      have hmf : makeFilter cenv filter args = .ok (filter.map fun f => fkey f args) := by
        cases filter with
        | none => rfl
        | some f =>
          obtain ⟨h1, h2⟩ := hf f rfl
          have hne : f.isEmpty = false := by
            have := (hw.2.1 f rfl).1.ne_nil
            cases f <;> simp_all
          simp only [makeFilter, hne, Bool.false_eq_true, if_false, h1, h2, if_true, Option.map_some]
          rfl
      cases name with
      | none =>
        simp only [List.map_cons, partOf, parseParts, hmf, bind, Except.bind, ih hrest hbr (anon + 1),
          absParsed, Option.isSome_none, Bool.false_eq_true, if_false, Option.getD_none]
        simp [pure, Except.pure]
      | some n =>
        have hne : n.isEmpty = false := by
          have := (hw.1 n rfl).ne_nil
          cases n <;> simp_all
        simp only [List.map_cons, partOf, parseParts, hne, Bool.false_eq_true, if_false, hmf, bind,
          Except.bind, ih hrest hbr anon, absParsed, Option.isSome_some, if_true, Option.getD_some]
        simp [pure, Except.pure]

end Ombott.Router
