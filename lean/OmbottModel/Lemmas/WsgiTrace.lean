import OmbottModel.Model.WsgiSpec
/-! Event-trace lemmas for `_handle` (hooks, routing) of `Model/Wsgi.lean`. -/
namespace Ombott.Wsgi
open Py

theorem runEffs_fails (l : List Eff) (st : RState) : (runEffs l st).2 = effsFail l := by
  induction l generalizing st with
  | nil => rfl
  | cons e es ih =>
    unfold runEffs effsFail
    simp only [List.any_cons]
    cases h : runEff st e with
    | none =>
      have : effFails e = true := by
        cases e <;> simp [runEff, effFails] at h ⊢ <;> simp_all
      simp [this]
    | some st' =>
      have : effFails e = false := by
        cases e <;> simp [runEff, effFails] at h ⊢
        · rcases h with ⟨a, b, ha, _⟩; simp [ha]
        · exact h.1
        · exact h.1
      simp only [this, Bool.false_or]
      exact ih st'

theorem hookList_before (hooks : List Hook) : hookList "before_request" hooks = enumFrom 0 hooks := by
  unfold hookList
  have : ((Gen.wsgiHookReversed.find? (·.1 == "before_request")).map (·.2)).getD false = false := by decide
  rw [this]; rfl

theorem hookList_after (hooks : List Hook) :
    hookList "after_request" hooks = (enumFrom 0 hooks).reverse := by
  unfold hookList
  have : ((Gen.wsgiHookReversed.find? (·.1 == "after_request")).map (·.2)).getD false = true := by decide
  rw [this]; rfl

/-- the before-hooks that run, and whether routing is reached -/
theorem runBefore_trace (l : List (Nat × Hook)) (st : RState) :
    (runBefore l st).2.1 = (ranUntilFail l).map Event.before ∧
    ((runBefore l st).2.2 = none ↔ l.all (fun p => !p.2.fails) = true) := by
  induction l generalizing st with
  | nil => simp [runBefore, ranUntilFail]
  | cons p ps ih =>
    obtain ⟨i, h⟩ := p
    unfold runBefore ranUntilFail
    have hf := runEffs_fails h.effs st
    rcases hr : runEffs h.effs st with ⟨st', b⟩
    rw [hr] at hf
    simp only at hf
    subst hf
    cases he : effsFail h.effs with
    | true => simp [Hook.fails, he]
    | false =>
      simp only
      cases hres : h.res with
      | raisesResp o => simp [Hook.fails, he, hres]
      | raises => simp [Hook.fails, he, hres]
      | ok =>
        have := ih st'
        simp only [Hook.fails, he, hres, Bool.false_or, List.all_cons, Bool.not_false, Bool.true_and]
        simp only [Bool.false_eq_true, if_false, List.map_cons]
        exact ⟨by rw [this.1], this.2⟩

/-- the after-hooks that run -/
theorem runAfter_trace (l : List (Nat × Hook)) (st : RState) (fl : Flow) :
    (runAfter l st fl).2.1 = (ranUntilFail l).map Event.after := by
  induction l generalizing st with
  | nil => simp [runAfter, ranUntilFail]
  | cons p ps ih =>
    obtain ⟨j, h⟩ := p
    unfold runAfter ranUntilFail
    have hf := runEffs_fails h.effs st
    rcases hr : runEffs h.effs st with ⟨st', b⟩
    rw [hr] at hf
    simp only at hf
    subst hf
    cases he : effsFail h.effs with
    | true => simp [Hook.fails, he]
    | false =>
      simp only
      cases hres : h.res with
      | raisesResp o => simp [Hook.fails, he, hres]
      | raises => simp [Hook.fails, he, hres]
      | ok =>
        simp only [Hook.fails, he, hres, Bool.false_or]
        simp only [Bool.false_eq_true, if_false, List.map_cons]
        rw [ih st']

theorem runRoute_trace (route : Route) (st : RState) :
    (runRoute route st).2.1 = .routed :: (if route.isFound then [.handler] else []) := by
  unfold runRoute
  cases route with
  | notFound => rfl
  | notAllowed a => rfl
  | found h =>
    simp only [Route.isFound, if_true]
    rcases runEffs h.effs st with ⟨st', b⟩
    cases b <;> simp only
    cases h.res <;> rfl

theorem settle_trace (fl : Flow) : (settle fl).1 = [] ∨ (settle fl).1 = [.stderr] := by
  cases fl <;> simp [settle]

theorem ranUntilFail_noFail (l : List (Nat × Hook)) (h : l.all (fun p => !p.2.fails) = true) :
    ranUntilFail l = l.map (·.1) := by
  induction l with
  | nil => rfl
  | cons p ps ih =>
    obtain ⟨i, hk⟩ := p
    simp only [List.all_cons, Bool.and_eq_true, Bool.not_eq_eq_eq_not, Bool.not_true] at h
    unfold ranUntilFail
    simp only [h.1, Bool.false_eq_true, if_false, List.map_cons]
    rw [ih h.2]

theorem enumFrom_map_fst {α} (l : List α) (i : Nat) :
    (enumFrom i l).map (·.1) = List.range' i l.length := by
  induction l generalizing i with
  | nil => rfl
  | cons a r ih => simp only [enumFrom, List.map_cons, List.length_cons, List.range'_succ, ih]

theorem enumFrom_all {α} (p : α → Bool) (l : List α) (i : Nat) :
    (enumFrom i l).all (fun q => p q.2) = l.all p := by
  induction l generalizing i with
  | nil => rfl
  | cons a r ih => simp only [enumFrom, List.all_cons, ih]

/-- the complete event trace of `_handle` for a decodable path -/
theorem handle_trace (app : App) (s : Slots) (r : Req) (hp : r.pathOK = true) :
    ∃ tail, (tail = [] ∨ tail = [Event.stderr]) ∧
    (handle app s r).2.1 =
      (ranUntilFail (enumFrom 0 app.before)).map Event.before ++
      (if (enumFrom 0 app.before).all (fun p => !p.2.fails) then
        Event.routed :: (if r.route.isFound then [Event.handler] else []) else []) ++
      (ranUntilFail (enumFrom 0 app.after).reverse).map Event.after ++ tail := by
  unfold handle
  rw [reinit_eq]
  unfold handleFrom
  simp only [hp, Bool.not_true, Bool.false_eq_true, if_false, hookList_before, hookList_after]
  have hb := runBefore_trace (enumFrom 0 app.before) RState.init
  rcases hrb : runBefore (enumFrom 0 app.before) RState.init with ⟨st1, ev1, fl1⟩
  rw [hrb] at hb
  simp only at hb
  obtain ⟨hb1, hb2⟩ := hb
  cases fl1 with
  | some fl =>
    have hall : (enumFrom 0 app.before).all (fun p => !p.2.fails) = false := by
      cases h : (enumFrom 0 app.before).all (fun p => !p.2.fails) with
      | false => rfl
      | true => have := hb2.mpr h; cases this
    simp only [hall, Bool.false_eq_true, if_false]
    have ha := runAfter_trace (enumFrom 0 app.after).reverse st1 fl
    rcases hra : runAfter (enumFrom 0 app.after).reverse st1 fl with ⟨st3, ev3, fl3⟩
    rw [hra] at ha
    simp only at ha
    refine ⟨(settle fl3).1, settle_trace fl3, ?_⟩
    simp [hb1, ha]
  | none =>
    have hall := hb2.mp rfl
    simp only [hall, if_true]
    have hr := runRoute_trace r.route st1
    rcases hrr : runRoute r.route st1 with ⟨st2, ev2, fl2⟩
    rw [hrr] at hr
    simp only at hr
    have ha := runAfter_trace (enumFrom 0 app.after).reverse st2 fl2
    rcases hra : runAfter (enumFrom 0 app.after).reverse st2 fl2 with ⟨st3, ev3, fl3⟩
    rw [hra] at ha
    simp only at ha
    refine ⟨(settle fl3).1, settle_trace fl3, ?_⟩
    simp [hb1, hr, ha]

/-- `_handle` never calls `start_response` and closes nothing -/
theorem handle_events_plain (app : App) (s : Slots) (r : Req) :
    ∀ e ∈ (handle app s r).2.1, e.isStart = false ∧ e.closeId = none := by
  cases hp : r.pathOK with
  | false =>
    unfold handle
    rw [reinit_eq]
    unfold handleFrom
    simp [hp]
  | true =>
    obtain ⟨tail, ht, heq⟩ := handle_trace app s r hp
    rw [heq]
    intro e he
    simp only [List.mem_append, List.mem_map] at he
    rcases he with ((⟨i, _, rfl⟩ | he) | ⟨j, _, rfl⟩) | he
    · exact ⟨rfl, rfl⟩
    · split at he
      · simp only [List.mem_cons] at he
        rcases he with rfl | he
        · exact ⟨rfl, rfl⟩
        · split at he
          · simp only [List.mem_cons, List.not_mem_nil, or_false] at he
            subst he; exact ⟨rfl, rfl⟩
          · cases he
      · cases he
    · exact ⟨rfl, rfl⟩
    · rcases ht with rfl | rfl
      · cases he
      · simp only [List.mem_cons, List.not_mem_nil, or_false] at he
        subst he; exact ⟨rfl, rfl⟩

theorem critStart_isStart : critStart.isStart = true := rfl

theorem closeEvents_append_none (c : Option Nat) (b : Bool) :
    (if b = true then closeEvents c else []) ++ closeEvents (if b = true then none else c) = closeEvents c := by
  cases b <;> cases c <;> rfl

/-- the handler object whose `close` the iterable returned by `_cast` forwards to -/
def castCloser : CastRes → Option Nat
  | .body _ k _ => k
  | _ => none

/-- the events of the call: those of `_handle`, then at most one `close`, then (catch-all only)
the write to `wsgi.errors`, then the one `start_response`; the handler object closed during the
call or left to the server's `close()` is the one `_cast` attached -/
theorem wsgi_events_shape (app : App) (s : Slots) (r : Req) :
    ∃ c errs st, (errs = [] ∨ errs = [Event.stderr]) ∧ st.isStart = true ∧
      (wsgi app s r).events = (handle app s r).2.1 ++ closeEvents c ++ errs ++ [st] ∧
      closeEvents c ++ closeEvents (wsgi app s r).closer =
        closeEvents (castCloser (cast app r.fileWrapper (handle app s r).1 (handle app s r).2.2).2) := by
  unfold wsgi
  rcases hh : handle app s r with ⟨s1, ev1, out⟩
  rcases hc : cast app r.fileWrapper s1 out with ⟨s2, cr⟩
  cases cr with
  | body items closer fwCL =>
    simp only [hc]
    cases hl : headerlist s2.resp with
    | some l =>
      simp only
      cases hs : (isBodyless s2.resp.code || r.isHead) with
      | true =>
        refine ⟨closer, [], .startResponse s2.resp.line l false, Or.inl rfl, rfl, ?_, ?_⟩
        · simp only [if_true, List.append_nil]
        · simp only [if_true, closeEvents, List.append_nil, castCloser]
      | false =>
        refine ⟨none, [], .startResponse s2.resp.line l false, Or.inl rfl, rfl, ?_, ?_⟩
        · simp only [Bool.false_eq_true, if_false, closeEvents, List.append_nil]
        · simp only [Bool.false_eq_true, if_false, closeEvents, List.nil_append, castCloser]
    | none =>
      simp only
      refine ⟨closer, [.stderr], critStart, Or.inr rfl, rfl, ?_, ?_⟩
      · simp only [catchAll, List.append_assoc]
        have := closeEvents_append_none closer (isBodyless s2.resp.code || r.isHead)
        rw [← List.append_assoc (if (isBodyless s2.resp.code || r.isHead) = true then closeEvents closer else []), this]
        rfl
      · simp only [catchAll, closeEvents, List.append_nil, castCloser]
  | raised =>
    simp only [hc]
    exact ⟨none, [.stderr], critStart, Or.inr rfl, rfl, by simp only [catchAll, List.append_assoc]; rfl, rfl⟩
  | diverged =>
    simp only [hc]
    exact ⟨none, [.stderr], critStart, Or.inr rfl, rfl, by simp only [catchAll, List.append_assoc]; rfl, rfl⟩

end Ombott.Wsgi
