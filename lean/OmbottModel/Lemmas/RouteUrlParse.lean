import OmbottModel.Lemmas.RouteUrlDom
import OmbottModel.Lemmas.RouterParse
/-!
From the rule text to the domain of the C19 theorems: what `Route.parse_rule` returns for a rule
inside the model's domain (`inDomain`: no marker character in the text, no repeated wildcard name)
satisfies `urlDomain`.  The literal characters of the output pattern are literal characters of the
pattern, which are characters of the rule text (`parseRule_lits_in_rule` of `Lemmas/RouterParse.lean`).
-/
namespace Ombott.RouteUrl
open Py Ombott.Router

theorem tokFilters_lits (t : Str) (q : List Sym) : tokFilters (t.map Sym.lit ++ q) = tokFilters q := by
  induction t with
  | nil => rfl
  | cons c t ih => simpa [tokFilters] using ih

theorem tokCount_lits (t : Str) (q : List Sym) : tokCount (t.map Sym.lit ++ q) = tokCount q := by
  induction t with
  | nil => rfl
  | cons c t ih => simpa [tokCount] using ih

/-- shape of what the loop of `parse_rule` builds -/
theorem parseParts_shape (cenv : CompileEnv) (parts : List Part) (anon : Nat) (p : Parsed)
    (h : parseParts cenv parts anon = .ok p) :
    tokFilters p.symsOut = tokFilters p.syms ∧ p.params.length = tokCount p.symsOut ∧
      ∀ c, Sym.lit c ∈ p.symsOut → Sym.lit c ∈ p.syms := by
  induction parts generalizing anon p with
  | nil =>
    simp [parseParts, pure, Except.pure] at h; subst h
    exact ⟨rfl, rfl, by intro c hc; cases hc⟩
  | cons x xs ih =>
    unfold parseParts at h
    cases hx : x.part with
    | some txt =>
      simp only [hx] at h
      cases hr : parseParts cenv xs anon with
      | error e => simp [hr, bind, Except.bind] at h
      | ok rest =>
        simp only [hr, bind, Except.bind, pure, Except.pure, Except.ok.injEq] at h
        subst h
        obtain ⟨h1, h2, h3⟩ := ih _ _ hr
        refine ⟨by simp [tokFilters_lits, h1], by simp [tokCount_lits, h2], ?_⟩
        intro c hc
        simp only [List.mem_append, List.mem_map] at hc
        simp only [List.mem_append, List.mem_map]
        rcases hc with hc | hc
        · exact Or.inl hc
        · exact Or.inr (h3 c hc)
    | none =>
      simp only [hx] at h
      cases hf : makeFilter cenv x.filter x.args with
      | error e => simp [hf, bind, Except.bind] at h
      | ok f =>
        simp only [hf, bind, Except.bind] at h
        split at h
        · cases h
        · rename_i rest hr
          simp only [pure, Except.pure, Except.ok.injEq] at h
          subst h
          obtain ⟨h1, h2, h3⟩ := ih _ _ hr
          refine ⟨by simp [tokFilters, tokFilters_lits, h1], by simp [tokCount, h2], ?_⟩
          intro c hc
          simp only [List.mem_cons, reduceCtorEq, false_or] at hc
          simp only [List.mem_cons, reduceCtorEq, false_or, List.mem_append]
          exact Or.inr (h3 c hc)

theorem eraseDups_length_le (n : Nat) : ∀ (l : List Str), l.length ≤ n → l.eraseDups.length ≤ l.length := by
  induction n with
  | zero => intro l hl; have : l = [] := List.length_eq_zero_iff.mp (by omega); subst this; simp
  | succ n ih =>
    intro l hl
    cases l with
    | nil => simp
    | cons a as =>
      rw [List.eraseDups_cons]
      have h1 := List.length_filter_le (fun b => !b == a) as
      have h2 := ih (as.filter fun b => !b == a) (by simp at hl; omega)
      simp only [List.length_cons]
      omega

/-- `len(set(params)) == len(params)` as the model writes it (`eraseDups`) means no repeats -/
theorem nodup_of_eraseDups (n : Nat) : ∀ (l : List Str), l.length ≤ n → l.eraseDups.length = l.length → l.Nodup := by
  induction n with
  | zero => intro l hl _; have : l = [] := List.length_eq_zero_iff.mp (by omega); subst this; exact List.nodup_nil
  | succ n ih =>
    intro l hl he
    cases l with
    | nil => exact List.nodup_nil
    | cons a as =>
      rw [List.eraseDups_cons] at he
      simp only [List.length_cons, Nat.add_right_cancel_iff] at he
      have h1 := List.length_filter_le (fun b => !b == a) as
      have h2 := eraseDups_length_le _ (as.filter fun b => !b == a) (Nat.le_refl _)
      have hfl : (as.filter fun b => !b == a).length = as.length := by omega
      have hall := List.length_filter_eq_length_iff.mp hfl
      have hfe : (as.filter fun b => !b == a) = as := List.filter_eq_self.mpr hall
      rw [hfe] at he
      refine List.nodup_cons.mpr ⟨?_, ih as (by simp at hl; omega) he⟩
      intro hmem
      have := hall a hmem
      simp at this

theorem nodupB_of_nodup : ∀ {l : List Str}, l.Nodup → nodupB l = true
  | [], _ => rfl
  | a :: l, h => by
    have h' := List.nodup_cons.mp h
    simp [nodupB, h'.1, nodupB_of_nodup h'.2]

/-- **a parsed rule inside the model's domain lies in the domain of the C19 theorems** -/
theorem parseRule_urlDomain (cenv : CompileEnv) (rule : Str) (p : Parsed)
    (h : parseRule cenv rule = .ok p) (hd : inDomain rule p = true) :
    urlDomain { rule := rule, syms := p.syms, params := p.params, symsOut := p.symsOut } = true := by
  simp only [inDomain, Bool.and_eq_true, Bool.not_eq_true', beq_iff_eq] at hd
  obtain ⟨hnom, hdup⟩ := hd
  have hlits := parseRule_lits_in_rule h
  unfold parseRule at h
  cases rule with
  | nil => simp [throw, throwThe, MonadExceptOf.throw] at h
  | cons c r =>
    simp only at h
    split at h
    · simp [throw, throwThe, MonadExceptOf.throw] at h
    · split at h
      · simp [throw, throwThe, MonadExceptOf.throw] at h
      · rename_i p' hp _
        simp only [pure, Except.pure, Except.ok.injEq] at h
        subst h
        obtain ⟨h1, h2, h3⟩ := parseParts_shape _ _ _ _ hp
        have hlit : noMarkerLitB p'.symsOut = true := by
          unfold noMarkerLitB
          rw [List.all_eq_true]
          intro s hs
          cases s with
          | tok f => rfl
          | lit d =>
            have hdr : d ∈ c :: r := hlits d (h3 d hs)
            have hne : d ≠ Gen.paramToken := by
              intro he; subst he
              have : (c :: r).contains Gen.paramToken = true := by
                simpa [List.contains_eq_mem] using hdr
              rw [this] at hnom; cases hnom
            simpa [marker_eq_paramToken] using hne
        have hnd : nodupB p'.params = true := nodupB_of_nodup (nodup_of_eraseDups _ _ (Nat.le_refl _) hdup)
        simp [urlDomain, hlit, hnd, h1, h2]
      · simp [throw, throwThe, MonadExceptOf.throw] at h

end Ombott.RouteUrl
