import OmbottModel.Lemmas.RouteUrlDom
/-!
From the rule text to the domain of the C19 theorems: what `Route.parse_rule` returns for a rule
inside the model's domain (`inDomain`: no marker character in the text, no repeated wildcard name)
satisfies `urlDomain`.  The literal characters of the output pattern are characters of the rule
text (every piece the parser hands on is a suffix of what it was given).
-/
namespace Ombott.RouteUrl
open Py Ombott.Router

theorem pyName_suffix {s nm r : Str} (h : pyName s = some (nm, r)) : r <:+ s := by
  cases s with
  | nil => simp [pyName] at h
  | cons c t =>
    simp only [pyName] at h
    split at h
    · simp only [Option.some.injEq, Prod.mk.injEq] at h
      rw [← h.2]
      exact (List.dropWhile_suffix _).trans (List.suffix_cons _ _)
    · cases h

theorem scanParen_suffix : ∀ (s : Str) (lvl : Nat) (acc : Str) {inside rest : Str},
    scanParen s lvl acc = some (inside, rest) → rest <:+ s := by
  intro s lvl acc
  fun_induction scanParen s lvl acc <;> intro inside rest h
  case case1 => cases h
  case case2 => cases h
  case case3 ih => exact (ih h).trans ((List.suffix_cons _ _).trans (List.suffix_cons _ _))
  case case4 => cases h; exact List.suffix_cons _ _
  case case5 ih => exact (ih h).trans (List.suffix_cons _ _)
  case case6 ih => exact (ih h).trans (List.suffix_cons _ _)
  case case7 ih => exact (ih h).trans (List.suffix_cons _ _)

theorem scanSelTail_suffix : ∀ (s acc : Str) {sel rest : Str},
    scanSelTail s acc = some (sel, rest) → rest <:+ s := by
  intro s acc
  fun_induction scanSelTail s acc <;> intro sel rest h
  case case1 => cases h
  case case2 => cases h; exact List.suffix_cons _ _
  case case3 => cases h
  case case4 ih => exact (ih h).trans (List.suffix_cons _ _)

theorem scanSel_suffix {s sel rest : Str} (h : scanSel s = some (sel, rest)) : rest <:+ s := by
  unfold scanSel at h
  split at h
  · split at h
    · cases h
    · exact (scanSelTail_suffix _ _ h).trans ((List.suffix_cons _ _).trans (List.suffix_cons _ _))
  · cases h

theorem expectClose_suffix {d : Char} {s r : Str} (h : expectClose d s = .ok r) : r <:+ s := by
  unfold expectClose at h
  split at h
  · split at h
    · cases h; exact List.suffix_cons _ _
    · cases h
  · cases h

theorem parseFilterTail_suffix {d : Char} {s : Str} {a sel : Option Str} {r : Str}
    (h : parseFilterTail d s = .ok (a, sel, r)) : r <:+ s := by
  unfold parseFilterTail at h
  split at h
  · cases h
  · rename_i c r0
    split at h
    · simp only [pure, Except.pure, Except.ok.injEq, Prod.mk.injEq] at h
      rw [← h.2.2]; exact List.suffix_refl _
    · split at h
      · split at h
        · cases h
        · rename_i args r' hsp
          have h1 : r' <:+ c :: r0 := (scanParen_suffix _ _ _ hsp).trans (List.suffix_cons _ _)
          split at h
          · split at h
            · rename_i sel' r'' hss
              simp only [pure, Except.pure, Except.ok.injEq, Prod.mk.injEq] at h
              rw [← h.2.2]; exact (scanSel_suffix hss).trans h1
            · cases h
          · simp only [pure, Except.pure, Except.ok.injEq, Prod.mk.injEq] at h
            rw [← h.2.2]; exact h1
      · split at h
        · simp only [pure, Except.pure, Except.ok.injEq, Prod.mk.injEq] at h
          rw [← h.2.2]; exact (List.dropWhile_suffix _).trans (List.suffix_cons _ _)
        · cases h

theorem parseParam_spec {s : Str} {p : Part} {rest : Str} (h : parseParam s = .ok (p, rest)) :
    rest <:+ s ∧ p.part = none := by
  unfold parseParam at h
  split at h
  · cases h
  · rename_i r
    split at h
    · simp only [pure, Except.pure, Except.ok.injEq, Prod.mk.injEq] at h
      rw [← h.2, ← h.1]; exact ⟨List.nil_suffix, rfl⟩
    · split at h
      · rename_i nm r' hpn
        split at h
        · simp only [pure, Except.pure, Except.ok.injEq, Prod.mk.injEq] at h
          rw [← h.2, ← h.1]; exact ⟨(pyName_suffix hpn).trans (List.suffix_cons _ _), rfl⟩
        · cases h
      · cases h
  · rename_i first r _
    split at h
    · cases h
    · rename_i dclose _
      simp only at h
      split at h
      · cases h
      · rename_i name r1 hpn
        have hr1 : r1 <:+ first :: r := by
          refine (pyName_suffix hpn).trans ?_
          split
          · exact (List.drop_suffix _ _).trans (List.suffix_cons _ _)
          · exact List.suffix_cons _ _
        simp only [bind, Except.bind] at h
        split at h
        · cases h
        · rename_i v hmid
          have hv : v.2.2 <:+ r1 := by
            split at hmid
            · cases hmid
            · rename_i c r1'
              split at hmid
              · simp only [pure, Except.pure, Except.ok.injEq] at hmid
                rw [← hmid]; exact List.suffix_refl _
              · split at hmid
                · split at hmid
                  · rename_i f r2 hp2
                    simp only [pure, Except.pure, Except.ok.injEq] at hmid
                    rw [← hmid]; exact (pyName_suffix hp2).trans (List.suffix_cons _ _)
                  · cases hmid
                · split at hmid
                  · split at hmid
                    · simp only [pure, Except.pure, Except.ok.injEq] at hmid
                      rw [← hmid]; exact List.suffix_refl _
                    · split at hmid
                      · rename_i f r2 hp2
                        simp only [pure, Except.pure, Except.ok.injEq] at hmid
                        rw [← hmid]; exact (pyName_suffix hp2).trans (List.suffix_cons _ _)
                      · cases hmid
                  · split at hmid
                    · simp only [pure, Except.pure, Except.ok.injEq] at hmid
                      rw [← hmid]; exact List.suffix_refl _
                    · cases hmid
          have hv' := hv.trans hr1
          split at h
          · split at h
            · cases h
            · rename_i r3 he
              simp only [pure, Except.pure, Except.ok.injEq, Prod.mk.injEq] at h
              rw [← h.2, ← h.1]; exact ⟨(expectClose_suffix he).trans hv', rfl⟩
          · split at h
            · cases h
            · rename_i w hw
              split at h
              · cases h
              · rename_i r4 he
                simp only [pure, Except.pure, Except.ok.injEq, Prod.mk.injEq] at h
                rw [← h.2, ← h.1]
                exact ⟨((expectClose_suffix he).trans (parseFilterTail_suffix (a := w.1) (sel := w.2.1) (r := w.2.2) hw)).trans hv', rfl⟩


theorem suffix_mem {s t : Str} (h : s <:+ t) : ∀ c ∈ s, c ∈ t := fun _ hc => h.subset hc

/-- the literal pieces `iter_parse` yields are made of characters of the text it was given -/
theorem iterParse_parts (fuel : Nat) : ∀ (s : Str), ∀ x ∈ (iterParse fuel s).1, ∀ txt, x.part = some txt →
    ∀ c ∈ txt, c ∈ s := by
  induction fuel with
  | zero => intro s x hx; simp [iterParse] at hx
  | succ fuel ih =>
    intro s x hx txt ht c hc
    cases s with
    | nil => simp [iterParse] at hx
    | cons d t =>
      simp only [iterParse] at hx
      split at hx
      · split at hx
        · simp at hx
        · rename_i p rest hpp
          obtain ⟨hsuf, hnone⟩ := parseParam_spec hpp
          simp only [List.mem_cons] at hx
          rcases hx with hx | hx
          · subst hx
            split at ht <;> simp [hnone] at ht
          · exact suffix_mem hsuf c (ih rest x hx txt ht c hc)
      · simp only [List.mem_cons] at hx
        rcases hx with hx | hx
        · subst hx
          simp only [Option.some.injEq] at ht
          subst ht
          exact (List.takeWhile_prefix _).subset hc
        · exact suffix_mem (List.dropWhile_suffix _) c (ih _ x hx txt ht c hc)

theorem tokFilters_lits (t : Str) (q : List Sym) : tokFilters (t.map Sym.lit ++ q) = tokFilters q := by
  induction t with
  | nil => rfl
  | cons c t ih => simpa [tokFilters] using ih

theorem tokCount_lits (t : Str) (q : List Sym) : tokCount (t.map Sym.lit ++ q) = tokCount q := by
  induction t with
  | nil => rfl
  | cons c t ih => simpa [tokCount] using ih

/-- shape of what the loop of `parse_rule` builds -/
theorem parseParts_shape (cenv : CompileEnv) (parts : List Part) (anon : Nat) (p : Parsed)
    (h : parseParts cenv parts anon = .ok p) :
    tokFilters p.symsOut = tokFilters p.syms ∧ p.params.length = tokCount p.symsOut ∧
      ∀ c, Sym.lit c ∈ p.symsOut → ∃ x ∈ parts, ∃ txt, x.part = some txt ∧ c ∈ txt := by
  induction parts generalizing anon p with
  | nil =>
    simp [parseParts, pure, Except.pure] at h; subst h
    exact ⟨rfl, rfl, by intro c hc; cases hc⟩
  | cons x xs ih =>
    unfold parseParts at h
    cases hx : x.part with
    | some txt =>
      simp only [hx] at h
      cases hr : parseParts cenv xs anon with
      | error e => simp [hr, bind, Except.bind] at h
      | ok rest =>
        simp only [hr, bind, Except.bind, pure, Except.pure, Except.ok.injEq] at h
        subst h
        obtain ⟨h1, h2, h3⟩ := ih _ _ hr
        refine ⟨by simp [tokFilters_lits, h1], by simp [tokCount_lits, h2], ?_⟩
        intro c hc
        simp only [List.mem_append, List.mem_map] at hc
        rcases hc with ⟨d, hd, hdc⟩ | hc
        · cases hdc
          exact ⟨x, by simp, txt, hx, hd⟩
        · obtain ⟨y, hy, t, ht, hct⟩ := h3 c hc
          exact ⟨y, by simp [hy], t, ht, hct⟩
    | none =>
      simp only [hx] at h
      cases hf : makeFilter cenv x.filter x.args with
      | error e => simp [hf, bind, Except.bind] at h
      | ok f =>
        simp only [hf, bind, Except.bind] at h
        split at h
        · cases h
        · rename_i rest hr
          simp only [pure, Except.pure, Except.ok.injEq] at h
          subst h
          obtain ⟨h1, h2, h3⟩ := ih _ _ hr
          refine ⟨by simp [tokFilters, tokFilters_lits, h1], by simp [tokCount, h2], ?_⟩
          intro c hc
          simp only [List.mem_cons, reduceCtorEq, false_or] at hc
          obtain ⟨y, hy, t, ht, hct⟩ := h3 c hc
          exact ⟨y, by simp [hy], t, ht, hct⟩

theorem eraseDups_length_le (n : Nat) : ∀ (l : List Str), l.length ≤ n → l.eraseDups.length ≤ l.length := by
  induction n with
  | zero => intro l hl; have : l = [] := List.length_eq_zero_iff.mp (by omega); subst this; simp
  | succ n ih =>
    intro l hl
    cases l with
    | nil => simp
    | cons a as =>
      rw [List.eraseDups_cons]
      have h1 := List.length_filter_le (fun b => !b == a) as
      have h2 := ih (as.filter fun b => !b == a) (by simp at hl; omega)
      simp only [List.length_cons]
      omega

/-- `len(set(params)) == len(params)` as the model writes it (`eraseDups`) means no repeats -/
theorem nodup_of_eraseDups (n : Nat) : ∀ (l : List Str), l.length ≤ n → l.eraseDups.length = l.length → l.Nodup := by
  induction n with
  | zero => intro l hl _; have : l = [] := List.length_eq_zero_iff.mp (by omega); subst this; exact List.nodup_nil
  | succ n ih =>
    intro l hl he
    cases l with
    | nil => exact List.nodup_nil
    | cons a as =>
      rw [List.eraseDups_cons] at he
      simp only [List.length_cons, Nat.add_right_cancel_iff] at he
      have h1 := List.length_filter_le (fun b => !b == a) as
      have h2 := eraseDups_length_le _ (as.filter fun b => !b == a) (Nat.le_refl _)
      have hfl : (as.filter fun b => !b == a).length = as.length := by omega
      have hall := List.length_filter_eq_length_iff.mp hfl
      have hfe : (as.filter fun b => !b == a) = as := List.filter_eq_self.mpr hall
      rw [hfe] at he
      refine List.nodup_cons.mpr ⟨?_, ih as (by simp at hl; omega) he⟩
      intro hmem
      have := hall a hmem
      simp at this

theorem nodupB_of_nodup : ∀ {l : List Str}, l.Nodup → nodupB l = true
  | [], _ => rfl
  | a :: l, h => by
    have h' := List.nodup_cons.mp h
    simp [nodupB, h'.1, nodupB_of_nodup h'.2]

/-- **a parsed rule inside the model's domain lies in the domain of the C19 theorems** -/
theorem parseRule_urlDomain (cenv : CompileEnv) (rule : Str) (p : Parsed)
    (h : parseRule cenv rule = .ok p) (hd : inDomain rule p = true) :
    urlDomain { rule := rule, syms := p.syms, params := p.params, symsOut := p.symsOut } = true := by
  simp only [inDomain, Bool.and_eq_true, Bool.not_eq_true', beq_iff_eq] at hd
  obtain ⟨hnom, hdup⟩ := hd
  unfold parseRule at h
  cases rule with
  | nil => simp [throw, throwThe, MonadExceptOf.throw] at h
  | cons c r =>
    simp only at h
    split at h
    · simp [throw, throwThe, MonadExceptOf.throw] at h
    · split at h
      · simp [throw, throwThe, MonadExceptOf.throw] at h
      · rename_i p' hp _
        simp only [pure, Except.pure, Except.ok.injEq] at h
        subst h
        obtain ⟨h1, h2, h3⟩ := parseParts_shape _ _ _ _ hp
        have hlit : noMarkerLitB p'.symsOut = true := by
          unfold noMarkerLitB
          rw [List.all_eq_true]
          intro s hs
          cases s with
          | tok f => rfl
          | lit d =>
            obtain ⟨x, hx, txt, ht, hdt⟩ := h3 d hs
            have hdr : d ∈ r := iterParse_parts _ r x hx txt ht d hdt
            have hne : d ≠ Gen.paramToken := by
              intro he; subst he
              have : (c :: r).contains Gen.paramToken = true := by
                simp [List.contains_eq_mem, hdr]
              rw [this] at hnom; cases hnom
            simpa [marker_eq_paramToken] using hne
        have hnd : nodupB p'.params = true := nodupB_of_nodup (nodup_of_eraseDups _ _ (Nat.le_refl _) hdup)
        simp [urlDomain, hlit, hnd, h1, h2]
      · simp [throw, throwThe, MonadExceptOf.throw] at h

end Ombott.RouteUrl
