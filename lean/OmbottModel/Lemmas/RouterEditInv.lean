import OmbottModel.Lemmas.RouterEditTree
import OmbottModel.Lemmas.RouterHist
import OmbottModel.Lemmas.RouterResolve
/-!
C11, helper lemmas (4): the invariant of a router under editing (`EInv`): the tree holds
exactly the routes of the `routes` index (`Inv` of C01), every name points at a route of the
index, and tree and `hooks` index hold the same hook pairs — outside the patterns at or below a
removed `prefix*` (`T`, the unspecified ones).  Every editing call keeps it.
-/
namespace Ombott.Router
open Py

/-! ### `_match` with filters finds every rule the tree holds -/

mutual
theorem findN_complete (n : Node) (h : WFN n) (e : Rule) (he : e ∈ denN n) :
    ∃ m, findN true n e.pat = .ok m ∧ m.data = some e.data ∧ m.params = e.keys := by
  match n with
  | .mk k d pk f hk lits tok =>
    unfold WFN at h
    simp only [denN, List.mem_append] at he
    rcases he with (he | he) | he
    · cases d with
      | none => simp [ownRule] at he
      | some d0 =>
        simp only [ownRule, List.mem_singleton] at he
        subst he
        exact ⟨.mk k (some d0) pk f hk lits tok, by simp [findN], rfl, rfl⟩
    · obtain ⟨_, _, c, q, _, hq⟩ := mem_denL_shape h.1 he
      obtain ⟨m, hm, hx⟩ := findL_complete lits h.1 e c q hq he
      exact ⟨m, by rw [hq]; simpa [findN] using hm, hx⟩
    · obtain ⟨g, q, hq⟩ := mem_denT_shape he
      obtain ⟨m, hm, hx⟩ := findT_complete tok h.2 e g q hq he
      exact ⟨m, by rw [hq]; simpa [findN] using hm, hx⟩
theorem findT_complete (t : Option Node) (h : WFT t) (e : Rule) (g : Option Fid) (q : List Sym)
    (hq : e.pat = .tok g :: q) (he : e ∈ denT t) :
    ∃ m, findT true t g q = .ok m ∧ m.data = some e.data ∧ m.params = e.keys := by
  match t with
  | none => simp [denT] at he
  | some t0 =>
    unfold WFT at h
    simp only [denT, List.mem_map] at he
    obtain ⟨x, hx, rfl⟩ := he
    simp only [Rule.under_pat, List.singleton_append, List.cons.injEq, Sym.tok.injEq] at hq
    obtain ⟨hg, rfl⟩ := hq
    obtain ⟨m, hm, hd⟩ := findN_complete t0 h x hx
    exact ⟨m, by simp [findT, hg, hm], hd⟩
theorem findL_complete (ks : List Node) (h : WFL ks) (e : Rule) (c : Char) (q : List Sym)
    (hq : e.pat = .lit c :: q) (he : e ∈ denL ks) :
    ∃ m, findL true ks c q = .ok m ∧ m.data = some e.data ∧ m.params = e.keys := by
  match ks with
  | [] => simp [denL] at he
  | k :: ks =>
    have h' := h
    unfold WFL at h'
    obtain ⟨hne, hk, hks, hdist⟩ := h'
    simp only [denL, List.mem_append, List.mem_map] at he
    rcases he with ⟨x, hx, rfl⟩ | he
    · simp only [Rule.under_pat] at hq
      have hhead : k.key.head? = some c := by
        cases hkk : k.key with
        | nil => exact absurd hkk hne
        | cons c2 cs =>
          rw [hkk] at hq
          simp only [litSyms, List.map_cons, List.cons_append, List.cons.injEq, Sym.lit.injEq] at hq
          simp [hq.1]
      obtain ⟨m, hm, hd⟩ := findN_complete k hk x hx
      refine ⟨m, ?_, hd⟩
      simp only [findL, hhead, beq_self_eq_true, if_true]
      rw [← hq, stripKey_append]
      simpa [Option.elim] using hm
    · obtain ⟨k2, hk2, c2, q2, hc2, hq2⟩ := mem_denL_shape hks he
      rw [hq2] at hq
      simp only [List.cons.injEq, Sym.lit.injEq] at hq
      obtain ⟨rfl, rfl⟩ := hq
      have hnh : (k.key.head? == some c2) = false := by
        have := hdist k2 hk2
        rw [hc2] at this
        simpa using fun h => this h.symm
      obtain ⟨m, hm, hd⟩ := findL_complete ks hks e c2 q2 hq2 he
      exact ⟨m, by simp only [findL, hnh, Bool.false_eq_true, if_false]; exact hm, hd⟩
end

/-- `RadiRouter._match(pattern, filters)` answers the route of the rule with exactly this pattern -/
theorem matchPat_iff {R : Router} (h : WFN R.tree) (p : List Sym) (id : Nat) :
    R.matchPat p = some id ↔ ∃ keys, (⟨p, id, keys⟩ : Rule) ∈ denote R.tree := by
  unfold Router.matchPat denote
  constructor
  · intro hm
    cases hf : findN true R.tree p with
    | error e => rw [hf] at hm; cases hm
    | ok n => rw [hf] at hm; exact ⟨n.params, findN_den R.tree p n id hf hm⟩
  · rintro ⟨keys, he⟩
    obtain ⟨m, hm, hd, _⟩ := findN_complete R.tree h _ he
    simp only at hm hd
    rw [hm]; exact hd

/-! ### the invariant -/

/-- the pattern does not end with `*` (the marker `remove` strips before looking the pattern up) -/
def NoStar (p : List Sym) : Prop := p.getLast? ≠ some (.lit '*')

/-- `T`: the pattern strings whose hook pair is unspecified (at or below a removed `prefix*`) -/
structure EInv (R : Router) (T : Str → Prop) : Prop where
  inv : Inv R
  nostar : ∀ e ∈ denote R.tree, NoStar e.pat
  /-- no name outlives its route -/
  named : ∀ nm id, (nm, id) ∈ R.named → ∃ r, R.obj? id = some r ∧ (patStr r.syms, id) ∈ R.routes
  nnodup : (R.named.map (·.1)).Nodup
  hnotok : ∀ enc, ∀ e ∈ hdenN enc R.tree, NoLitTok e.pat
  /-- every hook pair in the tree is the one the `hooks` index lists -/
  htree : ∀ enc, ∀ e ∈ hdenN enc R.tree, ¬ T (patStr e.pat) →
    ∃ hp, (patStr e.pat, hp) ∈ R.hookIdx ∧ e.data = enc hp
  /-- every pair of the `hooks` index is in the tree -/
  hidx : ∀ enc ps hp, (ps, hp) ∈ R.hookIdx → ¬ T ps →
    ∃ q, patStr q = ps ∧ (⟨q, enc hp, []⟩ : Rule) ∈ hdenN enc R.tree
  hnodup : (R.hookIdx.map (·.1)).Nodup

theorem einv_init : EInv {} (fun _ => False) := by
  refine ⟨inv_init, ?_, ?_, List.nodup_nil, ?_, ?_, ?_, ?_⟩
  · intro e he
    have : denote ({} : Router).tree = [] := by
      show denN Node.root = []
      simp [Node.root, denN, denL, denT, ownRule]
    rw [this] at he; cases he
  · intro nm id h; cases h
  · intro enc e he
    simp [hdenN, Node.root, gN, gL, gT, ownH] at he
  · intro enc e he
    simp [hdenN, Node.root, gN, gL, gT, ownH] at he
  · intro enc ps hp h; cases h
  · exact List.nodup_nil

theorem rules_congr {R R' : Router} (hr : R'.routes = R.routes) (ho : R'.objs = R.objs) :
    R'.rules = R.rules := by
  unfold Router.rules Router.obj?
  rw [hr, ho]

theorem Inv.of_eq {R R' : Router} (h : Inv R) (hwf : WFN R'.tree)
    (hden : ∀ e, e ∈ denote R'.tree ↔ e ∈ denote R.tree)
    (hr : R'.routes = R.routes) (ho : R'.objs = R.objs) : Inv R' := by
  refine ⟨hwf, ?_, ?_, by rw [hr]; exact h.nodup, fun e he => h.notok e ((hden e).mp he)⟩
  · intro e; rw [hden e, rules_congr hr ho]; exact h.den e
  · intro ps id hmem
    rw [hr] at hmem
    obtain ⟨r, hr', hps⟩ := h.keys ps id hmem
    exact ⟨r, by unfold Router.obj? at hr' ⊢; rw [ho]; exact hr', hps⟩

/-! ### registration (`add`, `remove_method`) -/

theorem EInv.setObj {R : Router} {T : Str → Prop} (h : EInv R T) (id : Nat) (r r' : Route)
    (hr : R.obj? id = some r) (hs : r'.syms = r.syms) (hp : r'.params = r.params) :
    EInv (R.setObj id r') T := by
  refine ⟨h.inv.setObj id r r' hr hs hp, h.nostar, ?_, h.nnodup, h.hnotok, h.htree, h.hidx, h.hnodup⟩
  intro nm j hmem
  obtain ⟨r0, hr0, hin⟩ := h.named nm j hmem
  rw [obj?_setObj]
  split
  · rename_i hj; subst hj
    rw [hr] at hr0; cases hr0
    exact ⟨r', by simp [hr], by rw [hs]; exact hin⟩
  · exact ⟨r0, hr0, hin⟩

theorem EInv.registerName {R : Router} {T : Str → Prop} (h : EInv R T) (a : AddArgs) (id : Nat)
    (hid : ∃ r, R.obj? id = some r ∧ (patStr r.syms, id) ∈ R.routes) :
    EInv (R.registerName a id).1 T := by
  have key : ∀ nm, EInv ({ R with named := dictSet R.named nm id } : Router) T := by
    intro nm
    refine ⟨h.inv.of_eq h.inv.wf (fun _ => Iff.rfl) rfl rfl, h.nostar, ?_, dictSet_keys_nodup _ _ _ h.nnodup,
      h.hnotok, h.htree, h.hidx, h.hnodup⟩
    intro nm' j hmem
    rcases (mem_dictSet _ _ _ _ _).mp hmem with ⟨_, rfl⟩ | ⟨_, hmem⟩
    · exact hid
    · exact h.named nm' j hmem
  unfold Router.registerName
  cases a.name with
  | none => exact h
  | some nm =>
    simp only
    split
    · exact h
    · cases dictGet R.named nm with
      | none => exact key nm
      | some reg =>
        simp only
        split
        · exact h
        · exact key nm

theorem EInv.register {R : Router} {T : Str → Prop} (h : EInv R T) (a : AddArgs) (p : Parsed) (id : Nat)
    (hid : ∃ r, R.obj? id = some r ∧ (patStr r.syms, id) ∈ R.routes) :
    EInv (R.register a p id).1 T := by
  obtain ⟨r, hr, hin⟩ := hid
  unfold Router.register
  simp only [hr]
  have hstep : ∀ r', r'.syms = r.syms → r'.params = r.params →
      EInv ((R.setObj id r').registerName a id).1 T := by
    intro r' hs hp
    refine (h.setObj id r r' hr hs hp).registerName a id ⟨r', ?_, ?_⟩
    · rw [obj?_setObj]; simp [hr]
    · rw [hs]; exact hin
  split
  · exact hstep _ (Route.setMethods_syms r _ _ _).1 (Route.setMethods_syms r _ _ _).2
  · cases ha : r.addMethod a.methods a.handler p.params with
    | error e => exact h
    | ok r' => exact hstep r' (Route.addMethod_syms ha).1 (Route.addMethod_syms ha).2

theorem EInv.removeMethod {R : Router} {T : Str → Prop} (h : EInv R T) (id : Nat) (ms : List Str) :
    EInv (R.removeMethod id ms) T := by
  unfold Router.removeMethod
  cases hr : R.obj? id with
  | none => exact h
  | some r => exact h.setObj id r _ hr rfl rfl

theorem EInv.findOrInsert {R : Router} {T : Str → Prop} (h : EInv R T) (rule : Str) (p : Parsed)
    (hp : NoLitTok p.syms) (hs : NoStar p.syms) :
    EInv (R.findOrInsert rule p).1 T ∧
      ∀ id, (R.findOrInsert rule p).2 = .ok id →
        ∃ r, (R.findOrInsert rule p).1.obj? id = some r ∧ (patStr r.syms, id) ∈ (R.findOrInsert rule p).1.routes := by
  have hinv' := h.inv.findOrInsert rule p hp
  unfold Router.findOrInsert at hinv' ⊢
  cases hm : R.matchPat p.syms with
  | some id0 =>
    simp only
    refine ⟨h, ?_⟩
    intro id hid
    simp only [Except.ok.injEq] at hid
    subst hid
    obtain ⟨keys, he⟩ := (matchPat_iff h.inv.wf p.syms id0).mp hm
    obtain ⟨ps, id, r, hmem, hr, heq⟩ := (mem_rules R _).mp ((h.inv.den _).mp he)
    simp only [Rule.mk.injEq] at heq
    obtain ⟨_, rfl, _⟩ := heq
    obtain ⟨r0, hr0, hps⟩ := h.inv.keys ps id0 hmem
    rw [hr] at hr0; cases hr0
    exact ⟨r, hr, hps ▸ hmem⟩
  | none =>
    rw [hm] at hinv'
    simp only at hinv' ⊢
    cases hi : treeAdd R.tree p.syms R.objs.length p.params with
    | error e => exact ⟨h, by intro id hid; simp at hid⟩
    | ok t =>
      rw [hi] at hinv'
      simp only at hinv' ⊢
      have hden := insert_denote' R.tree t p.syms R.objs.length p.params false h.inv.wf hi
      have hhk := fun enc => treeAdd_hooks enc R.tree t p.syms R.objs.length p.params false h.inv.wf hi
      -- the key of the new route is new
      have hfresh : ∀ ps id, (ps, id) ∈ R.routes → ps ≠ patStr p.syms := by
        intro ps id hmem hEq
        obtain ⟨r, hr, hps⟩ := h.inv.keys ps id hmem
        have he : (⟨r.syms, id, r.params⟩ : Rule) ∈ denote R.tree :=
          (h.inv.den _).mpr ((mem_rules R _).mpr ⟨ps, id, r, hmem, hr, rfl⟩)
        by_cases hsy : r.syms = p.syms
        · have : R.matchPat p.syms = some id := (matchPat_iff h.inv.wf p.syms id).mpr ⟨r.params, hsy ▸ he⟩
          rw [hm] at this; cases this
        · have he' : (⟨r.syms, id, r.params⟩ : Rule) ∈ denote t := (hden _).mpr (Or.inr ⟨he, hsy⟩)
          have hn' : (⟨p.syms, R.objs.length, p.params⟩ : Rule) ∈ denote t := (hden _).mpr (Or.inl rfl)
          have := denN_patStrInj t hinv'.wf _ he' _ hn' (h.inv.notok _ he) hp (by rw [← hps]; exact hEq)
          simp only [Rule.mk.injEq] at this
          exact hsy this.1
      have hnewobj : (R.objs ++ [({ rule := rule, syms := p.syms, params := p.params, symsOut := p.symsOut } : Route)])[R.objs.length]? =
          some { rule := rule, syms := p.syms, params := p.params, symsOut := p.symsOut } := by simp
      refine ⟨⟨hinv', ?_, ?_, h.nnodup, ?_, ?_, ?_, h.hnodup⟩, ?_⟩
      · intro e he
        rcases (hden e).mp he with rfl | ⟨he, _⟩
        · exact hs
        · exact h.nostar e he
      · intro nm id hmem
        obtain ⟨r, hr, hin⟩ := h.named nm id hmem
        refine ⟨r, obj?_append_lt R _ id r hr, ?_⟩
        exact (mem_dictSet _ _ _ _ _).mpr (Or.inr ⟨hfresh _ _ hin, hin⟩)
      · intro enc e he; exact h.hnotok enc e ((hhk enc e).mp he)
      · intro enc e he hT; exact h.htree enc e ((hhk enc e).mp he) hT
      · intro enc ps hp' hmem hT
        obtain ⟨q, hq, he⟩ := h.hidx enc ps hp' hmem hT
        exact ⟨q, hq, (hhk enc _).mpr he⟩
      · intro id hid
        simp only [Except.ok.injEq] at hid
        subst hid
        exact ⟨_, hnewobj, (mem_dictSet _ _ _ _ _).mpr (Or.inl ⟨rfl, rfl⟩)⟩

theorem EInv.addParsed {R : Router} {T : Str → Prop} (h : EInv R T) (a : AddArgs) (p : Parsed)
    (hp : NoLitTok p.syms) (hs : NoStar p.syms) : EInv (R.addParsed a p).1 T := by
  unfold Router.addParsed
  split
  · exact h
  · obtain ⟨h1, h2⟩ := h.findOrInsert a.rule p hp hs
    cases hf : R.findOrInsert a.rule p with
    | mk R' out =>
      rw [hf] at h1 h2
      cases out with
      | error e => exact h1
      | ok id => exact h1.register a p id (h2 id rfl)

theorem EInv.add {R : Router} {T : Str → Prop} (h : EInv R T) (upper : Str → Str) (cenv : CompileEnv)
    (a : AddArgs) (hok : ∀ p, parseRule cenv a.rule = .ok p → NoLitTok p.syms ∧ NoStar p.syms) :
    EInv (R.add upper cenv a).1 T := by
  unfold Router.add
  simp only
  cases hp : parseRule cenv a.rule with
  | error e => exact h
  | ok p => exact h.addParsed _ p (hok p hp).1 (hok p hp).2

/-! ### removal of routes -/

theorem nodup_filter_keys {β} (d : List (Str × β)) (f : Str × β → Bool) (h : (d.map (·.1)).Nodup) :
    ((d.filter f).map (·.1)).Nodup :=
  List.Nodup.sublist (List.Sublist.map _ List.filter_sublist) h

/-- routes leave tree and index together (`keep` on pattern strings), names of routes that left
are dropped, hook pairs stay outside the (grown) unspecified set -/
theorem EInv.drop {R : Router} {T : Str → Prop} (h : EInv R T) (T' : Str → Prop)
    (hTT : ∀ ps, T ps → T' ps) (keep : Str → Bool) (R' : Router)
    (hroutes : R'.routes = R.routes.filter (fun x => keep x.1)) (hobjs : R'.objs = R.objs)
    (hhook : R'.hookIdx = R.hookIdx)
    (hwf : WFN R'.tree)
    (hden : ∀ e, e ∈ denote R'.tree ↔ e ∈ denote R.tree ∧ keep (patStr e.pat) = true)
    (hhA : ∀ enc e, e ∈ hdenN enc R'.tree → e ∈ hdenN enc R.tree)
    (hhB : ∀ enc e, e ∈ hdenN enc R.tree → ¬ T' (patStr e.pat) → e ∈ hdenN enc R'.tree)
    (hnamed : ∀ nm id, (nm, id) ∈ R'.named →
      (nm, id) ∈ R.named ∧ ∀ r, R.obj? id = some r → keep (patStr r.syms) = true)
    (hnn : (R'.named.map (·.1)).Nodup) :
    EInv R' T' := by
  have hobj : ∀ j, R'.obj? j = R.obj? j := fun j => by unfold Router.obj?; rw [hobjs]
  refine ⟨⟨hwf, ?_, ?_, by rw [hroutes]; exact nodup_filter_keys _ _ h.inv.nodup,
      fun e he => h.inv.notok e ((hden e).mp he).1⟩,
    fun e he => h.nostar e ((hden e).mp he).1, ?_, hnn, fun enc e he => h.hnotok enc e (hhA enc e he), ?_, ?_,
    by rw [hhook]; exact h.hnodup⟩
  · intro e
    rw [hden e, h.inv.den e, mem_rules, mem_rules]
    constructor
    · rintro ⟨⟨ps, id, r, hmem, hr, rfl⟩, hk⟩
      obtain ⟨r0, hr0, hps⟩ := h.inv.keys ps id hmem
      rw [hr] at hr0; cases hr0
      exact ⟨ps, id, r, by rw [hroutes]; exact List.mem_filter.mpr ⟨hmem, by rw [hps]; exact hk⟩,
        by rw [hobj]; exact hr, rfl⟩
    · rintro ⟨ps, id, r, hmem, hr, rfl⟩
      rw [hroutes] at hmem
      obtain ⟨hmem, hk⟩ := List.mem_filter.mp hmem
      obtain ⟨r0, hr0, hps⟩ := h.inv.keys ps id hmem
      rw [hobj] at hr
      rw [hr] at hr0; cases hr0
      exact ⟨⟨ps, id, r, hmem, hr, rfl⟩, by simp only at hk ⊢; rw [← hps]; exact hk⟩
  · intro ps id hmem
    rw [hroutes] at hmem
    obtain ⟨r, hr, hps⟩ := h.inv.keys ps id (List.mem_filter.mp hmem).1
    exact ⟨r, by rw [hobj]; exact hr, hps⟩
  · intro nm id hmem
    obtain ⟨hin, hk⟩ := hnamed nm id hmem
    obtain ⟨r, hr, hroute⟩ := h.named nm id hin
    exact ⟨r, by rw [hobj]; exact hr, by rw [hroutes]; exact List.mem_filter.mpr ⟨hroute, hk r hr⟩⟩
  · intro enc e he hT
    rw [hhook]
    exact h.htree enc e (hhA enc e he) (fun hT0 => hT (hTT _ hT0))
  · intro enc ps hp hmem hT
    rw [hhook] at hmem
    obtain ⟨q, hq, he⟩ := h.hidx enc ps hp hmem (fun hT0 => hT (hTT _ hT0))
    exact ⟨q, hq, hhB enc _ he (by simpa [hq] using hT)⟩

theorem mem_removeNamed (R : Router) (pats : List Str) (nm : Str) (id : Nat) :
    (nm, id) ∈ (R.removeNamed pats).named ↔
      (nm, id) ∈ R.named ∧ ∀ r, R.obj? id = some r → r.pattern ∉ pats := by
  unfold Router.removeNamed
  simp only [List.mem_filter]
  constructor
  · rintro ⟨hin, hk⟩
    refine ⟨hin, fun r hr => ?_⟩
    simp only [hr] at hk
    simpa using hk
  · rintro ⟨hin, hk⟩
    refine ⟨hin, ?_⟩
    cases hr : R.obj? id with
    | none => rfl
    | some r => simpa using hk r hr

theorem NoLitTok.dropLast {p : List Sym} (h : NoLitTok p) : NoLitTok p.dropLast :=
  fun c hc => h c (List.dropLast_subset p hc)

theorem starSplit_notok {pat : List Sym} (h : NoLitTok pat) : NoLitTok (starSplit pat).1 := by
  unfold starSplit
  split
  · exact h.dropLast
  · exact h

theorem starSplit_nostar {pat : List Sym} (h : NoStar pat) : starSplit pat = (pat, false) := by
  unfold starSplit
  unfold NoStar at h
  simp [h]

/-- the unspecified hook patterns after `remove(pat)` -/
def taintRemove (pat : List Sym) (T : Str → Prop) : Str → Prop :=
  fun ps => T ps ∨ ((starSplit pat).2 = true ∧ patStr (starSplit pat).1 <+: ps)

/-- which pattern strings stay in `routes` when `remove(pat)` is called -/
def keepOf (pat : List Sym) : Str → Bool :=
  fun ps => if (starSplit pat).2 then !(patStr (starSplit pat).1).isPrefixOf ps else ps != patStr (starSplit pat).1

/-- the tree part of a route removal: what `RadiDict.remove(pattern)` does to routes and hooks,
in the terms of `EInv.drop` -/
theorem treeRemove_routes {R : Router} {T : Str → Prop} (h : EInv R T) (pat : List Sym)
    (hp : NoLitTok pat) (t' : Node) (hr : treeRemove R.tree pat false = .ok t') :
    WFN t' ∧
    (∀ e, e ∈ denote t' ↔ e ∈ denote R.tree ∧ keepOf pat (patStr e.pat) = true) ∧
    (∀ enc e, e ∈ hdenN enc t' → e ∈ hdenN enc R.tree) ∧
    (∀ enc e, e ∈ hdenN enc R.tree → ¬ taintRemove pat T (patStr e.pat) → e ∈ hdenN enc t') := by
  have hp' := starSplit_notok hp
  obtain ⟨hw, hrR⟩ := treeRemove_spec ownR_ok ownR_clear R.tree h.inv.wf pat false t' hr
  rw [gN_ownR, gN_ownR] at hrR
  refine ⟨hw, ?_, ?_, ?_⟩
  · intro e
    unfold keepOf
    cases hstar : (starSplit pat).2 with
    | true =>
      rw [hstar] at hrR
      simp only [remMode, if_true, eraseOf] at hrR
      simp only [if_true, Bool.not_eq_true', ← Bool.not_eq_true, List.isPrefixOf_iff_prefix]
      constructor
      · intro he
        obtain ⟨h1, h2⟩ := hrR.1 e he
        exact ⟨h1, fun hpre => h2 rfl (shape_prefix_of_patStr hp' (h.inv.notok e h1) hpre)⟩
      · rintro ⟨he, hk⟩
        exact hrR.2 e he hk
    | false =>
      rw [hstar] at hrR
      simp only [remMode, Bool.false_eq_true, if_false, eraseOf] at hrR
      simp only [Bool.false_eq_true, if_false, bne_iff_ne, ne_eq]
      constructor
      · intro he
        obtain ⟨h1, h2⟩ := hrR.1 e he
        exact ⟨h1, fun heq => h2 rfl (shape_eq_of_patStr (h.inv.notok e h1) hp' heq)⟩
      · rintro ⟨he, hk⟩
        exact hrR.2 e he (fun hkl => hk hkl.2)
  · intro enc e he
    obtain ⟨_, hrH⟩ := treeRemove_spec (ownH_ok enc) (ownH_clear enc) R.tree h.inv.wf pat false t' hr
    exact (hrH.1 e he).1
  · intro enc e he hT
    obtain ⟨_, hrH⟩ := treeRemove_spec (ownH_ok enc) (ownH_clear enc) R.tree h.inv.wf pat false t' hr
    refine hrH.2 e he ?_
    cases hstar : (starSplit pat).2 with
    | true =>
      simp only [remMode, if_true, Killed]
      exact fun hk => hT (Or.inr ⟨hstar, hk⟩)
    | false =>
      simp only [remMode, Bool.false_eq_true, if_false, eraseOf, Killed]
      exact fun hk => by cases hk.1

theorem filter_pair_congr {β} (d : List (Str × β)) (f : Str → Bool) :
    (d.filter fun (k, _) => f k) = d.filter (fun x => f x.1) := by
  congr 1

/-- `RadiRouter.remove(rule)` after parsing keeps the invariant; a `prefix*` removal makes the
hook patterns at or below the prefix unspecified -/
theorem EInv.removePattern {R : Router} {T : Str → Prop} (h : EInv R T) (pat : List Sym)
    (hp : NoLitTok pat) : EInv (R.removePattern pat).1 (taintRemove pat T) := by
  have hT0 : EInv R (taintRemove pat T) :=
    ⟨h.inv, h.nostar, h.named, h.nnodup, h.hnotok, fun enc e he hT => h.htree enc e he (fun h0 => hT (Or.inl h0)),
      fun enc ps hp' hm hT => h.hidx enc ps hp' hm (fun h0 => hT (Or.inl h0)), h.hnodup⟩
  unfold Router.removePattern
  cases hr : treeRemove R.tree pat false with
  | error e => exact hT0
  | ok t =>
    obtain ⟨hw, hden, hhA, hhB⟩ := treeRemove_routes h pat hp t hr
    simp only
    rcases hsp : starSplit pat with ⟨p, star⟩
    have hkeep : keepOf pat = fun ps => if star then !(patStr p).isPrefixOf ps else ps != patStr p := by
      unfold keepOf; rw [hsp]
    cases star with
    | true =>
      simp only [if_true]
      refine h.drop (taintRemove pat T) (fun _ => Or.inl) (keepOf pat) _ ?_ rfl rfl hw hden hhA hhB ?_
        (nodup_filter_keys _ _ h.nnodup)
      · show List.filter _ R.routes = _
        rw [hkeep]; simp only [if_true]
      · intro nm id hmem
        obtain ⟨hin, hk⟩ := (mem_removeNamed _ _ nm id).mp hmem
        refine ⟨hin, fun r hr' => ?_⟩
        have hk' := hk r hr'
        obtain ⟨r0, hr0, hroute⟩ := h.named nm id hin
        rw [hr'] at hr0; cases hr0
        rw [hkeep]
        simp only [if_true, Bool.not_eq_true']
        cases hpre : (patStr p).isPrefixOf (patStr r.syms) with
        | false => rfl
        | true =>
          exfalso
          apply hk'
          refine List.mem_map.mpr ⟨(patStr r.syms, id), ?_, rfl⟩
          show _ ∈ List.filter _ R.routes
          exact List.mem_filter.mpr ⟨hroute, hpre⟩
    | false =>
      simp only [Bool.false_eq_true, if_false]
      refine h.drop (taintRemove pat T) (fun _ => Or.inl) (keepOf pat) _ ?_ rfl rfl hw hden hhA hhB ?_
        (nodup_filter_keys _ _ h.nnodup)
      · show dictPop R.routes (patStr p) = _
        rw [hkeep]; simp only [Bool.false_eq_true, if_false]; rfl
      · intro nm id hmem
        obtain ⟨hin, hk⟩ := (mem_removeNamed _ _ nm id).mp hmem
        refine ⟨hin, fun r hr' => ?_⟩
        have hk' := hk r hr'
        rw [hkeep]
        simpa [Route.pattern] using hk'

theorem EInv.mono {R : Router} {T T' : Str → Prop} (h : EInv R T) (hT : ∀ ps, T ps → T' ps) :
    EInv R T' :=
  ⟨h.inv, h.nostar, h.named, h.nnodup, h.hnotok, fun enc e he hT' => h.htree enc e he (fun h0 => hT' (hT _ h0)),
    fun enc ps hp' hm hT' => h.hidx enc ps hp' hm (fun h0 => hT' (hT _ h0)), h.hnodup⟩

theorem EInv.removeRule {R : Router} {T : Str → Prop} (h : EInv R T) (cenv : CompileEnv) (rule : Str)
    (hok : ∀ p, parseRule cenv rule = .ok p → NoLitTok p.syms) :
    EInv (R.removeRule cenv rule).1
      (match parseRule cenv rule with | .ok p => taintRemove p.syms T | .error _ => T) := by
  unfold Router.removeRule
  cases hp : parseRule cenv rule with
  | error e => exact h
  | ok p => exact h.removePattern p.syms (hok p hp)

theorem mem_dictPop {β} (d : List (Str × β)) (k : Str) (x : Str × β) :
    x ∈ dictPop d k ↔ x ∈ d ∧ x.1 ≠ k := by
  unfold dictPop; simp [List.mem_filter]

/-- `RadiRouter.remove(name=…)` keeps the invariant -/
theorem EInv.removeName {R : Router} {T : Str → Prop} (h : EInv R T) (name : Str) :
    EInv (R.removeName name).1 T := by
  unfold Router.removeName
  cases hg : dictGet R.named name with
  | none => exact h
  | some id =>
    simp only
    have h1 : EInv ({ R with named := dictPop R.named name } : Router) T :=
      ⟨h.inv.of_eq h.inv.wf (fun _ => Iff.rfl) rfl rfl, h.nostar,
        fun nm j hm => h.named nm j ((mem_dictPop _ _ _).mp hm).1, nodup_filter_keys _ _ h.nnodup,
        h.hnotok, h.htree, h.hidx, h.hnodup⟩
    obtain ⟨r, hr, hroute⟩ := h.named name id (dictGet_mem hg)
    have hr1 : ({ R with named := dictPop R.named name } : Router).obj? id = some r := hr
    simp only [hr1]
    have he : (⟨r.syms, id, r.params⟩ : Rule) ∈ denote R.tree :=
      (h.inv.den _).mpr ((mem_rules R _).mpr ⟨_, id, r, hroute, hr, rfl⟩)
    have hnt : NoLitTok r.syms := h.inv.notok _ he
    have hns : NoStar r.syms := h.nostar _ he
    cases htr : treeRemove R.tree r.syms false with
    | error e => exact h1
    | ok t =>
      simp only
      have hany : (R.routes.any (·.1 == r.pattern)) = true := by
        rw [List.any_eq_true]; exact ⟨_, hroute, by simp [Route.pattern]⟩
      simp only [hany, if_true]
      obtain ⟨hw, hden, hhA, hhB⟩ := treeRemove_routes h1 r.syms hnt t htr
      have hkeep : keepOf r.syms = fun ps => ps != patStr r.syms := by
        unfold keepOf; rw [starSplit_nostar hns]; rfl
      have hT : ∀ ps, taintRemove r.syms T ps → T ps := by
        intro ps hps
        unfold taintRemove at hps
        rw [starSplit_nostar hns] at hps
        rcases hps with hps | ⟨hf, _⟩
        · exact hps
        · cases hf
      refine EInv.mono ?_ hT
      refine h1.drop (taintRemove r.syms T) (fun _ => Or.inl) (keepOf r.syms) _ ?_ rfl rfl hw hden hhA hhB ?_
        (nodup_filter_keys _ _ h1.nnodup)
      · show dictPop R.routes r.pattern = _
        rw [hkeep]; rfl
      · intro nm j hmem
        obtain ⟨hin, hk⟩ := (mem_removeNamed _ _ nm j).mp hmem
        refine ⟨hin, fun r' hr' => ?_⟩
        have hk' := hk r' hr'
        rw [hkeep]
        simpa [Route.pattern] using hk'

/-! ### hooks -/

theorem NoLitTok.of_shape {a b : List Sym} (h : shape a = shape b) (hb : NoLitTok b) : NoLitTok a := by
  induction a generalizing b with
  | nil => intro c hc; cases hc
  | cons x xs ih =>
    cases b with
    | nil => simp at h
    | cons y ys =>
      simp only [shape_cons, List.cons.injEq] at h
      intro c hc
      rcases List.mem_cons.mp hc with hc | hc
      · subst hc
        cases y with
        | lit c' =>
          simp only [shapeSym, Sym.lit.injEq] at h
          exact h.1 ▸ hb c' (by simp)
        | tok g => simp [shapeSym] at h
      · exact ih h.2 hb.cons_tail c hc

theorem patStr_ne_of_shape_ne {a b : List Sym} (ha : NoLitTok a) (hb : NoLitTok b)
    (h : shape a ≠ shape b) : patStr a ≠ patStr b :=
  fun hEq => h (shape_eq_of_patStr ha hb hEq)

/-- `add_hook` on a pattern whose node already carries a pair: the pair is updated in place -/
theorem EInv.hookUpdate {R : Router} {T : Str → Prop} (h : EInv R T) (p : Parsed) (hp : NoLitTok p.syms)
    (hp0 hp' : HookPair) (hh : hookAtShape R.tree p.syms = some hp0) (t : Node)
    (hu : updN (Node.setHooks hp') R.tree p.syms = some t) :
    EInv ({ R with tree := t,
                   hookIdx := if R.hookIdx.any (·.1 == patStr p.syms) then dictSet R.hookIdx (patStr p.syms) hp'
                              else R.hookIdx } : Router) T := by
  have hspec := fun enc => updN_spec enc hp' R.tree h.inv.wf p.syms t hu
  obtain ⟨hw, _, _, hden, _⟩ := hspec (fun _ => 0)
  -- the index lists the pattern (when it is specified)
  have hkey : ¬ T (patStr p.syms) → (R.hookIdx.any (·.1 == patStr p.syms)) = true := by
    intro hT
    obtain ⟨e0, he0, hs0, _⟩ := (findN_hooks (fun _ => 0) R.tree h.inv.wf p.syms).2 hp0 hh
    have hps : patStr e0.pat = patStr p.syms := patStr_eq_of_shape hs0
    obtain ⟨hpx, hmem, _⟩ := h.htree _ e0 he0 (by rw [hps]; exact hT)
    rw [List.any_eq_true]
    exact ⟨_, hmem, by simp [hps]⟩
  have hidx' : ∀ ps hpx, (ps, hpx) ∈ (if (R.hookIdx.any (·.1 == patStr p.syms)) = true
        then dictSet R.hookIdx (patStr p.syms) hp' else R.hookIdx) →
      (ps = patStr p.syms ∧ hpx = hp') ∨ (ps ≠ patStr p.syms ∧ (ps, hpx) ∈ R.hookIdx) := by
    intro ps hpx hmem
    split at hmem
    · exact (mem_dictSet _ _ _ _ _).mp hmem
    · rename_i hany
      refine Or.inr ⟨?_, hmem⟩
      intro hEq
      apply hany
      rw [List.any_eq_true]
      exact ⟨_, hmem, by simp [hEq]⟩
  refine ⟨h.inv.of_eq hw (fun e => by show e ∈ denN t ↔ _; rw [hden]; rfl) rfl rfl,
    fun e he => h.nostar e (by show e ∈ denN R.tree; rw [← hden]; exact he), h.named, h.nnodup, ?_, ?_, ?_, ?_⟩
  · intro enc e he
    rcases (hspec enc).2.2.2.2.1 e he with ⟨ho, _⟩ | ⟨hs, _⟩
    · exact h.hnotok enc e ho
    · exact NoLitTok.of_shape hs hp
  · intro enc e he hT
    rcases (hspec enc).2.2.2.2.1 e he with ⟨ho, hne⟩ | ⟨hs, hd, _⟩
    · obtain ⟨hpx, hmem, hdx⟩ := h.htree enc e ho hT
      refine ⟨hpx, ?_, hdx⟩
      have hpne := patStr_ne_of_shape_ne (h.hnotok enc e ho) hp hne
      show _ ∈ (if _ then _ else _)
      split
      · exact (mem_dictSet _ _ _ _ _).mpr (Or.inr ⟨hpne, hmem⟩)
      · exact hmem
    · have hps : patStr e.pat = patStr p.syms := patStr_eq_of_shape hs
      refine ⟨hp', ?_, hd⟩
      rw [hps] at hT ⊢
      show _ ∈ (if _ then _ else _)
      rw [if_pos (hkey hT)]
      exact (mem_dictSet _ _ _ _ _).mpr (Or.inl ⟨rfl, rfl⟩)
  · intro enc ps hpx hmem hT
    rcases hidx' ps hpx hmem with ⟨rfl, rfl⟩ | ⟨hne, hmem⟩
    · obtain ⟨e, he, hs, hd, hk⟩ := (hspec enc).2.2.2.2.2.2
      refine ⟨e.pat, patStr_eq_of_shape hs, ?_⟩
      have : e = ⟨e.pat, enc hpx, []⟩ := by cases e; simp_all
      rw [← this]; exact he
    · obtain ⟨q, hq, he⟩ := h.hidx enc ps hpx hmem hT
      refine ⟨q, hq, (hspec enc).2.2.2.2.2.1 _ he ?_⟩
      intro hs
      exact hne (by rw [← hq]; exact patStr_eq_of_shape hs)
  · show ((if _ then _ else _ : List (Str × HookPair)).map (·.1)).Nodup
    split
    · exact dictSet_keys_nodup _ _ _ h.hnodup
    · exact h.hnodup

/-- `add_hook` on a pattern without a pair: `RadiDict.add_hooks` and a new index entry -/
theorem EInv.hookFresh {R : Router} {T : Str → Prop} (h : EInv R T) (p : Parsed) (hp : NoLitTok p.syms)
    (hp' : HookPair) (hh : hookAtShape R.tree p.syms = none) (t : Node)
    (hi : insN { hooks := some hp', names := p.params, overwrite := false } R.tree p.syms = .ok t) :
    EInv ({ R with tree := t, hookIdx := dictSet R.hookIdx (patStr p.syms) hp' } : Router) T := by
  have hspec := fun enc => insHooks_spec enc _ rfl hp' rfl R.tree t p.syms h.inv.wf hi
  obtain ⟨hw, hden, _⟩ := hspec (fun _ => 0)
  -- no old pair sits at this pattern string
  have hfresh : ∀ enc, ∀ e ∈ hdenN enc R.tree, patStr e.pat ≠ patStr p.syms := by
    intro enc e he hEq
    have hs := shape_eq_of_patStr (h.hnotok enc e he) hp hEq
    obtain ⟨hpx, hx, _⟩ := (findN_hooks enc R.tree h.inv.wf p.syms).1 e he hs
    rw [hh] at hx; cases hx
  refine ⟨h.inv.of_eq hw hden rfl rfl, fun e he => h.nostar e ((hden e).mp he), h.named, h.nnodup, ?_, ?_, ?_,
    dictSet_keys_nodup _ _ _ h.hnodup⟩
  · intro enc e he
    rcases ((hspec enc).2.2 e).mp he with rfl | ⟨ho, _⟩
    · exact hp
    · exact h.hnotok enc e ho
  · intro enc e he hT
    rcases ((hspec enc).2.2 e).mp he with rfl | ⟨ho, _⟩
    · exact ⟨hp', (mem_dictSet _ _ _ _ _).mpr (Or.inl ⟨rfl, rfl⟩), rfl⟩
    · obtain ⟨hpx, hmem, hdx⟩ := h.htree enc e ho hT
      exact ⟨hpx, (mem_dictSet _ _ _ _ _).mpr (Or.inr ⟨hfresh enc e ho, hmem⟩), hdx⟩
  · intro enc ps hpx hmem hT
    rcases (mem_dictSet _ _ _ _ _).mp hmem with ⟨rfl, rfl⟩ | ⟨hne, hmem⟩
    · exact ⟨p.syms, rfl, ((hspec enc).2.2 _).mpr (Or.inl rfl)⟩
    · obtain ⟨q, hq, he⟩ := h.hidx enc ps hpx hmem hT
      refine ⟨q, hq, ((hspec enc).2.2 _).mpr (Or.inr ⟨he, ?_⟩)⟩
      intro hEq
      simp only at hEq
      exact hne (by rw [← hq, hEq])

/-- `RadiRouter.add_hook` after parsing keeps the invariant -/
theorem EInv.addHookParsed {R : Router} {T : Str → Prop} (h : EInv R T) (p : Parsed) (hook : Nat)
    (pt : Bool) (hp : NoLitTok p.syms) : EInv (R.addHookParsed p hook pt).1 T := by
  unfold Router.addHookParsed
  split
  · exact h
  · simp only
    have fresh : hookAtShape R.tree p.syms = none →
        EInv (match insN { hooks := some (installHook none hook pt), names := p.params, overwrite := false }
            R.tree p.syms with
          | .error e => (R, (.error e.name : Except ErrName Str))
          | .ok t => ({ R with tree := t, hookIdx := dictSet R.hookIdx (patStr p.syms) (installHook none hook pt) },
              .ok (patStr p.syms))).1 T := by
      intro hh
      cases hi : insN { hooks := some (installHook none hook pt), names := p.params, overwrite := false }
          R.tree p.syms with
      | error e => exact h
      | ok t => exact h.hookFresh p hp _ hh t hi
    cases hf : findN false R.tree p.syms with
    | error e => exact fresh (by simp [hookAtShape, hf])
    | ok n =>
      simp only
      cases hn : n.hooks with
      | none => exact fresh (by simp [hookAtShape, hf, hn])
      | some hp0 =>
        simp only
        cases hu : updN (Node.setHooks (installHook (some hp0) hook pt)) R.tree p.syms with
        | none => exact h
        | some t => exact h.hookUpdate p hp hp0 _ (by simp [hookAtShape, hf, hn]) t hu

theorem EInv.addHook {R : Router} {T : Str → Prop} (h : EInv R T) (cenv : CompileEnv) (rule : Str)
    (hook : Nat) (pt : Bool) (hok : ∀ p, parseRule cenv rule = .ok p → NoLitTok p.syms) :
    EInv (R.addHook cenv rule hook pt).1 T := by
  unfold Router.addHook
  cases hp : parseRule cenv rule with
  | error e => exact h
  | ok p => exact h.addHookParsed p hook pt (hok p hp)

/-- the unspecified hook patterns after `remove_hook(rule)`: the pattern is specified again
(there is no pair at it, in the tree and in the index) -/
def taintUnhook (pat : List Sym) (T : Str → Prop) : Str → Prop :=
  fun ps => T ps ∧ ((starSplit pat).2 = true ∨ ps ≠ patStr pat)

theorem starSplit_false {pat : List Sym} (h : (starSplit pat).2 = false) : starSplit pat = (pat, false) := by
  unfold starSplit at h ⊢
  split
  · rename_i hc; simp [hc] at h
  · rfl

theorem treeRemove_hooksOnly_error {t : Node} {pat : List Sym} {e : Err}
    (h : treeRemove t pat true = .error e) : (starSplit pat).2 = true := by
  cases hst : (starSplit pat).2 with
  | true => rfl
  | false =>
    exfalso
    unfold treeRemove at h
    rw [starSplit_false hst] at h
    simp only [Bool.false_and, Bool.false_eq_true, if_false] at h
    split at h <;> cases h

theorem treeRemove_hooksOnly_ok {t t' : Node} {pat : List Sym}
    (h : treeRemove t pat true = .ok t') : starSplit pat = (pat, false) := by
  cases hst : (starSplit pat).2 with
  | false => exact starSplit_false hst
  | true =>
    exfalso
    unfold treeRemove at h
    rcases hsp : starSplit pat with ⟨q, st⟩
    rw [hsp] at hst h
    simp only at hst
    subst hst
    simp at h

/-- `RadiRouter.remove_hook` keeps the invariant -/
theorem EInv.removeHook {R : Router} {T : Str → Prop} (h : EInv R T) (cenv : CompileEnv) (rule : Str)
    (hok : ∀ p, parseRule cenv rule = .ok p → NoLitTok p.syms) :
    EInv (R.removeHook cenv rule).1
      (match parseRule cenv rule with | .ok p => taintUnhook p.syms T | .error _ => T) := by
  unfold Router.removeHook
  cases hp : parseRule cenv rule with
  | error e => exact h
  | ok p =>
    simp only
    have hnt := hok p hp
    cases htr : treeRemove R.tree p.syms true with
    | error e =>
      simp only
      have hstar : (starSplit p.syms).2 = true := treeRemove_hooksOnly_error htr
      refine ⟨h.inv, h.nostar, h.named, h.nnodup, h.hnotok, fun enc e he hT => h.htree enc e he (fun h0 => hT ⟨h0, Or.inl hstar⟩),
        fun enc ps hp' hm hT => h.hidx enc ps hp' hm (fun h0 => hT ⟨h0, Or.inl hstar⟩), h.hnodup⟩
    | ok t =>
      simp only
      have hstar : starSplit p.syms = (p.syms, false) := treeRemove_hooksOnly_ok htr
      obtain ⟨hw, hrR⟩ := treeRemove_spec ownR_ok ownR_clear R.tree h.inv.wf p.syms true t htr
      rw [gN_ownR, gN_ownR, hstar] at hrR
      simp only [remMode, Bool.false_eq_true, if_false, if_true, eraseOf] at hrR
      have hden : ∀ e, e ∈ denote t ↔ e ∈ denote R.tree :=
        fun e => ⟨fun he => (hrR.1 e he).1, fun he => hrR.2 e he (fun hk => by cases hk.1)⟩
      have hrH := fun enc => (treeRemove_spec (ownH_ok enc) (ownH_clear enc) R.tree h.inv.wf p.syms true t htr).2
      simp only [hstar, remMode, Bool.false_eq_true, if_false, if_true, eraseOf] at hrH
      refine ⟨h.inv.of_eq hw hden rfl rfl, fun e he => h.nostar e ((hden e).mp he), h.named, h.nnodup, ?_, ?_, ?_,
        nodup_filter_keys _ _ h.hnodup⟩
      · intro enc e he; exact h.hnotok enc e ((hrH enc).1 e he).1
      · intro enc e he hT
        obtain ⟨ho, hz⟩ := (hrH enc).1 e he
        have hne : patStr e.pat ≠ patStr p.syms :=
          patStr_ne_of_shape_ne (h.hnotok enc e ho) hnt (by simpa [Zone] using hz rfl)
        obtain ⟨hpx, hmem, hd⟩ := h.htree enc e ho (fun h0 => hT ⟨h0, Or.inr hne⟩)
        exact ⟨hpx, (mem_dictPop _ _ _).mpr ⟨hmem, hne⟩, hd⟩
      · intro enc ps hpx hmem hT
        obtain ⟨hmem, hne⟩ := (mem_dictPop _ _ _).mp hmem
        simp only at hne
        obtain ⟨q, hq, he⟩ := h.hidx enc ps hpx hmem (fun h0 => hT ⟨h0, Or.inr hne⟩)
        refine ⟨q, hq, (hrH enc).2 _ he ?_⟩
        simp only [Killed, true_and]
        rw [hq]; exact hne

/-! ### histories -/

/-- the domain of an editing call: the parsed pattern holds no literal marker character (true
for every rule text without CR) and a registered rule does not end with `*`, the marker of
`remove` (the driver refuses lines outside this domain) -/
def EditOK : EditOp → Prop
  | .reg (.add cenv a) => ∀ p, parseRule cenv a.rule = .ok p → NoLitTok p.syms ∧ NoStar p.syms
  | .reg (.removeMethod _ _) => True
  | .removeRule cenv rule => ∀ p, parseRule cenv rule = .ok p → NoLitTok p.syms
  | .removeName _ => True
  | .addHook cenv rule _ _ => ∀ p, parseRule cenv rule = .ok p → NoLitTok p.syms
  | .removeHook cenv rule => ∀ p, parseRule cenv rule = .ok p → NoLitTok p.syms

/-- how a call changes the set of hook patterns the property leaves unspecified: a `prefix*`
removal adds everything at or below the prefix, `remove_hook` makes its pattern specified again -/
def taintStep (T : Str → Prop) : EditOp → (Str → Prop)
  | .removeRule cenv rule =>
    match parseRule cenv rule with
    | .ok p => taintRemove p.syms T
    | .error _ => T
  | .removeHook cenv rule =>
    match parseRule cenv rule with
    | .ok p => taintUnhook p.syms T
    | .error _ => T
  | _ => T

/-- the unspecified hook patterns after a history -/
def taintRun (ops : List EditOp) : Str → Prop := ops.foldl taintStep (fun _ => False)

theorem EInv.step {R : Router} {T : Str → Prop} (h : EInv R T) (upper : Str → Str) (op : EditOp)
    (hok : EditOK op) : EInv (R.editStep upper op) (taintStep T op) := by
  cases op with
  | reg o =>
    cases o with
    | add cenv a => exact h.add upper cenv a hok
    | removeMethod id ms => exact h.removeMethod id ms
  | removeRule cenv rule => exact h.removeRule cenv rule hok
  | removeName nm => exact h.removeName nm
  | addHook cenv rule hook pt => exact h.addHook cenv rule hook pt hok
  | removeHook cenv rule => exact h.removeHook cenv rule hok

theorem foldl_einv (upper : Str → Str) (ops : List EditOp) (hok : ∀ op ∈ ops, EditOK op)
    (R : Router) (T : Str → Prop) (h : EInv R T) :
    EInv (ops.foldl (Router.editStep upper) R) (ops.foldl taintStep T) := by
  induction ops generalizing R T with
  | nil => exact h
  | cons op ops ih =>
    exact ih (fun o ho => hok o (by simp [ho])) _ _ (h.step upper op (hok op (by simp)))

/-- after every edit history the invariant holds -/
theorem editRun_inv (upper : Str → Str) (ops : List EditOp) (hok : ∀ op ∈ ops, EditOK op) :
    EInv (Router.editRun upper ops) (taintRun ops) :=
  foldl_einv upper ops hok {} _ einv_init

/-- a history without `prefix*` removals leaves nothing unspecified -/
theorem taintRun_none (ops : List EditOp)
    (h : ∀ cenv rule p, EditOp.removeRule cenv rule ∈ ops → parseRule cenv rule = .ok p → (starSplit p.syms).2 = false) :
    ∀ ps, ¬ taintRun ops ps := by
  suffices H : ∀ (T : Str → Prop), (∀ ps, ¬ T ps) → ∀ ps, ¬ ops.foldl taintStep T ps from H _ (fun _ h => h)
  induction ops with
  | nil => intro T hT; exact hT
  | cons op ops ih =>
    intro T hT
    refine ih (fun cenv rule p hm hp => h cenv rule p (by simp [hm]) hp) _ ?_
    intro ps
    cases op with
    | reg o => exact hT ps
    | removeName nm => exact hT ps
    | addHook _ _ _ _ => exact hT ps
    | removeRule cenv rule =>
      simp only [taintStep]
      cases hp : parseRule cenv rule with
      | error e => exact hT ps
      | ok p =>
        simp only [taintRemove]
        rintro (h0 | ⟨h1, _⟩)
        · exact hT ps h0
        · rw [h cenv rule p (by simp) hp] at h1; cases h1
    | removeHook cenv rule =>
      simp only [taintStep]
      cases hp : parseRule cenv rule with
      | error e => exact hT ps
      | ok p => simp only [taintUnhook]; exact fun h0 => hT ps h0.1

end Ombott.Router
