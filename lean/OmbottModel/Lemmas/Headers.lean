import OmbottModel.Model.Headers
import OmbottModel.Lemmas.Text
/-! Invariants of the header store (C14): every stored value went through `_hval`, keys are
unique, and what the guarded operations do to them. -/
namespace Ombott.Headers
open Py

/-- a text without CR, LF, NUL -/
def Clean (s : Str) : Prop := hasCtl s = false

instance (s : Str) : Decidable (Clean s) := inferInstanceAs (Decidable (hasCtl s = false))

/-- every value in the store is clean -/
def StoreClean (d : Store) : Prop := ∀ e ∈ d, ∀ v ∈ e.2.vals, Clean v

instance (d : Store) : Decidable (StoreClean d) :=
  inferInstanceAs (Decidable (∀ e ∈ d, ∀ v ∈ e.2.vals, Clean v))

def KeysNodup (d : Store) : Prop := (d.map (·.1)).Nodup

theorem hasCtl_iff (s : Str) : hasCtl s = true ↔ '\n' ∈ s ∨ '\r' ∈ s ∨ '\x00' ∈ s := by
  simp [hasCtl, or_assoc]

/-- transcoding neither creates nor removes CR/LF/NUL (UTF-8 continuation bytes are ≥ 0x80) -/
theorem hasCtl_transcode (s : Str) : hasCtl (transcode s) = hasCtl s := by
  rw [Bool.eq_iff_iff, hasCtl_iff, hasCtl_iff,
    mem_transcode_ascii '\n' (by decide), mem_transcode_ascii '\r' (by decide),
    mem_transcode_ascii '\x00' (by decide)]

/-! ### `_hval` -/

theorem hval_ok {v : PyVal} {s : Str} (h : hval v = .ok s) : pyStr v = some s ∧ Clean s := by
  unfold hval at h
  split at h
  · cases h
  · rename_i s' hs
    split at h
    · cases h
    · rename_i hc
      cases h
      exact ⟨hs, by simpa [Clean] using hc⟩

theorem hval_ctl {v : PyVal} {s : Str} (hs : pyStr v = some s) (hc : hasCtl s = true) :
    hval v = .error .valueError := by
  simp [hval, hs, hc]

theorem hval_type {v : PyVal} (hs : pyStr v = none) : hval v = .error .typeError := by
  simp [hval, hs]

theorem hval_good {v : PyVal} {s : Str} (hs : pyStr v = some s) (hc : hasCtl s = false) :
    hval v = .ok s := by
  simp [hval, hs, hc]

/-- a value `_hval` refuses: wrong type or a control character in its text -/
def Refused (v : PyVal) : Prop := ∀ s, hval v ≠ .ok s

theorem refused_err {v : PyVal} (h : Refused v) : ∃ e, hval v = .error e := by
  cases hv : hval v with
  | error e => exact ⟨e, rfl⟩
  | ok s => exact absurd hv (h s)

/-! ### the dict -/

theorem dget_mem {d : Store} {k : Str} {e : Entry} (h : dget d k = some e) : (k, e) ∈ d := by
  unfold dget at h
  simp only [Option.map_eq_some_iff] at h
  obtain ⟨⟨k', e'⟩, hf, rfl⟩ := h
  have := List.find?_some hf
  simp only [beq_iff_eq] at this
  subst this
  exact List.mem_of_find?_eq_some hf

theorem dget_none {d : Store} {k : Str} (h : dget d k = none) : ∀ e ∈ d, e.1 ≠ k := by
  unfold dget at h
  simp only [Option.map_eq_none_iff, List.find?_eq_none, beq_iff_eq] at h
  exact h

theorem mem_dset {d : Store} {k : Str} {e : Entry} {x : Str × Entry} (hx : x ∈ dset d k e) :
    x = (k, e) ∨ x ∈ d := by
  induction d with
  | nil => simp [dset] at hx; exact Or.inl hx
  | cons y ys ih =>
    obtain ⟨k', e'⟩ := y
    unfold dset at hx
    split at hx
    · rcases List.mem_cons.mp hx with rfl | h
      · exact Or.inl rfl
      · exact Or.inr (List.mem_cons_of_mem _ h)
    · rcases List.mem_cons.mp hx with rfl | h
      · exact Or.inr List.mem_cons_self
      · rcases ih h with h1 | h1
        · exact Or.inl h1
        · exact Or.inr (List.mem_cons_of_mem _ h1)

/-- keys after `d[k] = e`: unchanged if `k` was present, else `k` is added at the end -/
theorem dset_keys (d : Store) (k : Str) (e : Entry) :
    (dset d k e).map (·.1) = if k ∈ d.map (·.1) then d.map (·.1) else d.map (·.1) ++ [k] := by
  induction d with
  | nil => simp [dset]
  | cons y ys ih =>
    obtain ⟨k', e'⟩ := y
    unfold dset
    by_cases hk : k' = k
    · subst hk; simp
    · have hk' : (k' == k) = false := by simpa using hk
      have hk2 : ¬ k = k' := fun h => hk h.symm
      simp only [hk', Bool.false_eq_true, if_false, List.map_cons, ih, List.mem_cons, hk2, false_or]
      split <;> simp

theorem dset_nodup {d : Store} (h : KeysNodup d) (k : Str) (e : Entry) : KeysNodup (dset d k e) := by
  unfold KeysNodup at *
  rw [dset_keys]
  split
  · exact h
  · rename_i hk
    rw [List.nodup_append]
    refine ⟨h, by simp, ?_⟩
    intro a ha b hb
    simp only [List.mem_singleton] at hb
    subst hb
    intro hab; subst hab; exact hk ha

theorem dget_dset_self (d : Store) (k : Str) (e : Entry) : dget (dset d k e) k = some e := by
  induction d with
  | nil => simp [dset, dget]
  | cons y ys ih =>
    obtain ⟨k', e'⟩ := y
    unfold dset
    by_cases hk : k' = k
    · subst hk; simp [dget]
    · have hk' : (k' == k) = false := by simpa using hk
      simp only [hk', Bool.false_eq_true, if_false]
      unfold dget at *
      simp only [List.find?_cons, hk']
      exact ih

theorem dget_dset_other (d : Store) (k k2 : Str) (e : Entry) (h : k2 ≠ k) :
    dget (dset d k e) k2 = dget d k2 := by
  induction d with
  | nil =>
    have : (k == k2) = false := by simpa using fun hh => h hh.symm
    simp [dset, dget, this]
  | cons y ys ih =>
    obtain ⟨k', e'⟩ := y
    unfold dset
    by_cases hk : k' = k
    · subst hk
      have : (k' == k2) = false := by simpa using fun hh => h hh.symm
      simp [dget, this]
    · have hk' : (k' == k) = false := by simpa using hk
      simp only [hk', Bool.false_eq_true, if_false]
      unfold dget at *
      simp only [List.find?_cons]
      split
      · rfl
      · exact ih

theorem dset_clean {d : Store} (h : StoreClean d) (k : Str) {e : Entry} (he : ∀ v ∈ e.vals, Clean v) :
    StoreClean (dset d k e) := by
  intro x hx
  rcases mem_dset hx with rfl | hx
  · exact he
  · exact h x hx

theorem dget_clean {d : Store} (h : StoreClean d) {k : Str} {e : Entry} (hg : dget d k = some e) :
    ∀ v ∈ e.vals, Clean v := h _ (dget_mem hg)

theorem ddel_clean {d : Store} (h : StoreClean d) (k : Str) : StoreClean (ddel d k) := by
  intro x hx
  exact h x (List.mem_filter.mp hx).1

theorem ddel_nodup {d : Store} (h : KeysNodup d) (k : Str) : KeysNodup (ddel d k) := by
  unfold KeysNodup ddel at *
  exact (List.filter_sublist.map _).nodup h

theorem foldl_ddel_clean (ks : List Str) {d : Store} (h : StoreClean d) : StoreClean (ks.foldl ddel d) := by
  induction ks generalizing d with
  | nil => exact h
  | cons k ks ih => exact ih (ddel_clean h k)

theorem foldl_ddel_nodup (ks : List Str) {d : Store} (h : KeysNodup d) : KeysNodup (ks.foldl ddel d) := by
  induction ks generalizing d with
  | nil => exact h
  | cons k ks ih => exact ih (ddel_nodup h k)

/-! ### the three setters -/

theorem setitem_ok {d d' : Store} {k : Str} {v : PyVal} (h : setitem d k v = .ok d') :
    ∃ s, hval v = .ok s ∧ d' = dset d k (.one s) := by
  unfold setitem at h
  cases hv : hval v with
  | error e => simp [hv, bind, Except.bind] at h
  | ok s => simp [hv, bind, Except.bind, pure, Except.pure] at h; exact ⟨s, rfl, h.symm⟩

theorem setitem_err {d : Store} {k : Str} {v : PyVal} {e : Err} (h : hval v = .error e) :
    setitem d k v = .error e := by
  simp [setitem, h, bind, Except.bind]

theorem append_err {d : Store} {k : Str} {v : PyVal} {e : Err} (h : hval v = .error e) :
    append d k v = .error e := by
  simp [append, h, bind, Except.bind]

theorem setdefault_err {d : Store} {k : Str} {v : PyVal} {e : Err} (h : hval v = .error e) :
    setdefault d k v = .error e := by
  simp [setdefault, h, bind, Except.bind]

/-- what `append` stores: the old values of the key followed by the new one -/
def valsOf (d : Store) (k : Str) : List Str :=
  match dget d k with
  | some e => e.vals
  | none => []

theorem append_ok {d d' : Store} {k : Str} {v : PyVal} (h : append d k v = .ok d') :
    ∃ s, hval v = .ok s ∧ ∃ e, d' = dset d k e ∧ e.vals = valsOf d k ++ [s] := by
  unfold append at h
  cases hv : hval v with
  | error e => simp [hv, bind, Except.bind] at h
  | ok s =>
    simp only [hv, bind, Except.bind, pure, Except.pure, Except.ok.injEq] at h
    refine ⟨s, rfl, ?_⟩
    unfold valsOf
    cases hg : dget d k with
    | none => simp only [hg] at h; exact ⟨_, h.symm, by simp [Entry.vals]⟩
    | some e0 =>
      cases e0 with
      | one v0 => simp only [hg] at h; exact ⟨_, h.symm, by simp [Entry.vals]⟩
      | many vs => simp only [hg] at h; exact ⟨_, h.symm, by simp [Entry.vals]⟩

theorem setdefault_ok {d d' : Store} {k : Str} {v : PyVal} (h : setdefault d k v = .ok d') :
    ∃ s, hval v = .ok s ∧ (d' = d ∨ d' = dset d k (.one s)) := by
  unfold setdefault at h
  cases hv : hval v with
  | error e => simp [hv, bind, Except.bind] at h
  | ok s =>
    simp only [hv, bind, Except.bind, pure, Except.pure, Except.ok.injEq] at h
    refine ⟨s, rfl, ?_⟩
    cases hg : dget d k with
    | none => simp only [hg] at h; exact Or.inr h.symm
    | some e0 => simp only [hg] at h; exact Or.inl h.symm

theorem setitem_inv {d d' : Store} {k : Str} {v : PyVal} (h : setitem d k v = .ok d')
    (hc : StoreClean d) (hn : KeysNodup d) : StoreClean d' ∧ KeysNodup d' := by
  obtain ⟨s, hs, rfl⟩ := setitem_ok h
  refine ⟨dset_clean hc k ?_, dset_nodup hn k _⟩
  intro x hx
  simp only [Entry.vals, List.mem_singleton] at hx
  subst hx
  exact (hval_ok hs).2

theorem append_inv {d d' : Store} {k : Str} {v : PyVal} (h : append d k v = .ok d')
    (hc : StoreClean d) (hn : KeysNodup d) : StoreClean d' ∧ KeysNodup d' := by
  obtain ⟨s, hs, e, rfl, he⟩ := append_ok h
  refine ⟨dset_clean hc k ?_, dset_nodup hn k _⟩
  intro x hx
  rw [he, List.mem_append] at hx
  rcases hx with hx | hx
  · unfold valsOf at hx
    split at hx
    · rename_i e0 hg; exact dget_clean hc hg x hx
    · cases hx
  · simp only [List.mem_singleton] at hx
    subst hx
    exact (hval_ok hs).2

theorem setdefault_inv {d d' : Store} {k : Str} {v : PyVal} (h : setdefault d k v = .ok d')
    (hc : StoreClean d) (hn : KeysNodup d) : StoreClean d' ∧ KeysNodup d' := by
  obtain ⟨s, hs, rfl | rfl⟩ := setdefault_ok h
  · exact ⟨hc, hn⟩
  · refine ⟨dset_clean hc k ?_, dset_nodup hn k _⟩
    intro x hx
    simp only [Entry.vals, List.mem_singleton] at hx
    subst hx
    exact (hval_ok hs).2

/-! ### `appendAll`, `initResp`, `step`, `run` -/

theorem appendAll_inv (l : List (Str × PyVal)) {d : Store} (hc : StoreClean d) (hn : KeysNodup d) :
    StoreClean (appendAll d l).1 ∧ KeysNodup (appendAll d l).1 := by
  induction l generalizing d with
  | nil => exact ⟨hc, hn⟩
  | cons p r ih =>
    obtain ⟨k, v⟩ := p
    unfold appendAll
    cases ha : append d k v with
    | ok d' =>
      simp only
      have := append_inv ha hc hn
      exact ih this.1 this.2
    | error e => exact ⟨hc, hn⟩

/-- a refused value anywhere in the list makes the loop raise -/
theorem appendAll_refused (l : List (Str × PyVal)) (d : Store) (h : ∃ p ∈ l, Refused p.2) :
    (appendAll d l).2.isSome = true := by
  induction l generalizing d with
  | nil => obtain ⟨p, hp, _⟩ := h; cases hp
  | cons p r ih =>
    obtain ⟨k, v⟩ := p
    unfold appendAll
    cases ha : append d k v with
    | error e => rfl
    | ok d' =>
      simp only
      apply ih
      obtain ⟨q, hq, hr⟩ := h
      rcases List.mem_cons.mp hq with rfl | hq
      · obtain ⟨s, hs, _⟩ := append_ok ha
        exact absurd hs (hr s)
      · exact ⟨q, hq, hr⟩

theorem nil_clean : StoreClean [] := by intro e he; cases he
theorem nil_nodup : KeysNodup [] := by simp [KeysNodup]

theorem initResp_inv (dflt : Nat) (st : Option Int) (hdrs more : List (Str × PyVal)) :
    StoreClean (initResp dflt st hdrs more).1.store ∧ KeysNodup (initResp dflt st hdrs more).1.store := by
  unfold initResp
  simp only
  split
  · exact ⟨nil_clean, nil_nodup⟩
  · have h1 := appendAll_inv hdrs nil_clean nil_nodup
    split
    · rename_i d e heq
      rw [heq] at h1; exact h1
    · rename_i d heq
      rw [heq] at h1
      exact appendAll_inv more h1.1 h1.2

theorem initResp_refused (dflt : Nat) (st : Option Int) (hdrs more : List (Str × PyVal))
    (h : ∃ p ∈ hdrs ++ more, Refused p.2) : (initResp dflt st hdrs more).2.isSome = true := by
  unfold initResp
  simp only
  split
  · rfl
  · split
    · rfl
    · rename_i d heq
      obtain ⟨p, hp, hr⟩ := h
      rcases List.mem_append.mp hp with hp | hp
      · have := appendAll_refused hdrs [] ⟨p, hp, hr⟩
        rw [heq] at this; cases this
      · exact appendAll_refused more d ⟨p, hp, hr⟩

theorem initRespMap_inv (dflt : Nat) (st : Option Int) (keys : List Str) (more : List (Str × PyVal)) :
    StoreClean (initRespMap dflt st keys more).1.store ∧ KeysNodup (initRespMap dflt st keys more).1.store := by
  unfold initRespMap
  rcases hk : unpackKeys keys with ⟨ps, e⟩
  cases e with
  | none => exact initResp_inv dflt st ps more
  | some err =>
    have := initResp_inv dflt st ps []
    simp only
    split
    · rename_i r e heq; rw [heq] at this; exact this
    · rename_i r heq; rw [heq] at this; exact this

theorem step_inv (r : Resp) (op : Op) (hc : StoreClean r.store) (hn : KeysNodup r.store) :
    StoreClean (step r op).1.store ∧ KeysNodup (step r op).1.store := by
  cases op with
  | setitem k v =>
    simp only [step]; cases h : setitem r.store k v with
    | ok d => exact setitem_inv h hc hn
    | error e => exact ⟨hc, hn⟩
  | append k v =>
    simp only [step]; cases h : append r.store k v with
    | ok d => exact append_inv h hc hn
    | error e => exact ⟨hc, hn⟩
  | setdefault k v =>
    simp only [step]; cases h : setdefault r.store k v with
    | ok d => exact setdefault_inv h hc hn
    | error e => exact ⟨hc, hn⟩
  | propSet p v fmt =>
    simp only [step]; cases hw : p.write v fmt with
    | error e => exact ⟨hc, hn⟩
    | ok v' =>
      simp only
      cases h : setitem r.store p.name v' with
      | ok d => exact setitem_inv h hc hn
      | error e => exact ⟨hc, hn⟩
  | delitem k =>
    simp only [step]; cases h : dget r.store k with
    | none => exact ⟨hc, hn⟩
    | some e => exact ⟨ddel_clean hc k, ddel_nodup hn k⟩
  | clear ks =>
    simp only [step]; split
    · exact ⟨nil_clean, nil_nodup⟩
    · exact ⟨foldl_ddel_clean ks hc, foldl_ddel_nodup ks hn⟩
  | status n =>
    simp only [step]; cases h : setStatus n with
    | ok c => exact ⟨hc, hn⟩
    | error e => exact ⟨hc, hn⟩
  | init st hdrs more => exact initResp_inv _ st hdrs more
  | initMap st keys more => exact initRespMap_inv _ st keys more
  | error st opts =>
    simp only [step]
    have := initResp_inv Gen.errorDefaultStatus st [] opts
    split
    · exact ⟨hc, hn⟩
    · rename_i e heq
      rw [heq] at this; exact this
  | cookie name out => exact ⟨hc, hn⟩

theorem run_inv (ops : List Op) (r : Resp) (hc : StoreClean r.store) (hn : KeysNodup r.store) :
    StoreClean (run r ops).1.store ∧ KeysNodup (run r ops).1.store := by
  induction ops generalizing r with
  | nil => exact ⟨hc, hn⟩
  | cons op ops ih =>
    unfold run
    have := step_inv r op hc hn
    exact ih (step r op).1 this.1 this.2

/-! ### emission -/

/-- a value with a control character, and a value of a wrong type, are refused -/
theorem refused_of_ctl {v : PyVal} {s : Str} (hs : pyStr v = some s) (hc : hasCtl s = true) : Refused v := by
  intro s' h; rw [hval_ctl hs hc] at h; cases h

theorem refused_of_type {v : PyVal} (hs : pyStr v = none) : Refused v := by
  intro s' h; rw [hval_type hs] at h; cases h

theorem mem_storePart {r : Resp} {h : Str × Str} (hh : h ∈ storePart r) :
    ∃ e ∈ visible r, e ∈ r.store ∧ h.1 = e.1 ∧ ∃ v ∈ e.2.vals, h.2 = transcode v := by
  simp only [storePart, List.mem_flatMap, List.mem_map] at hh
  obtain ⟨e, he, v, hv, rfl⟩ := hh
  refine ⟨e, he, ?_, rfl, v, hv, rfl⟩
  unfold visible at he
  split at he
  · exact (List.mem_filter.mp he).1
  · exact he

theorem defaultContentType_clean : Clean Gen.defaultContentType.toList := by decide

/-- reading a wire value back: Latin-1 bytes, decoded as UTF-8 -/
def wireDecode (w : Str) : Option Str := (latin1Enc w).bind utf8Dec

theorem wireDecode_transcode (s : Str) : wireDecode (transcode s) = some s := by
  simp [wireDecode, transcode, latin1Enc_latin1Dec, utf8Dec_utf8Enc]

/-- the name is not withheld for the status of `r` -/
def passes (r : Resp) (k : Str) : Bool :=
  match badFor r.status with
  | some bad => !bad.contains (title k)
  | none => true

def Passes (r : Resp) (k : Str) : Prop := passes r k = true

instance (r : Resp) (k : Str) : Decidable (Passes r k) := inferInstanceAs (Decidable (passes r k = true))
instance (d : Store) : Decidable (KeysNodup d) := inferInstanceAs (Decidable (d.map (·.1)).Nodup)

theorem mem_visible {r : Resp} {k : Str} {e : Entry} (hm : (k, e) ∈ r.store) (hp : Passes r k) :
    (k, e) ∈ visible r := by
  unfold visible
  unfold Passes passes at hp
  split
  · rename_i bad hb
    rw [hb] at hp
    simp only at hp
    exact List.mem_filter.mpr ⟨hm, hp⟩
  · exact hm

theorem filter_flatMap_key (l : Store) (hn : KeysNodup l) (k : Str) (e : Entry) (hm : (k, e) ∈ l) :
    ((l.flatMap fun h => h.2.vals.map fun v => (h.1, transcode v)).filter (·.1 == k)) =
      e.vals.map fun v => (k, transcode v) := by
  induction l with
  | nil => cases hm
  | cons x xs ih =>
    obtain ⟨k', e'⟩ := x
    unfold KeysNodup at hn
    simp only [List.map_cons, List.nodup_cons] at hn
    simp only [List.flatMap_cons, List.filter_append]
    rcases List.mem_cons.mp hm with heq | hm'
    · simp only [Prod.mk.injEq] at heq
      obtain ⟨rfl, rfl⟩ := heq
      have h1 : (List.map (fun v => (k, transcode v)) e.vals).filter (·.1 == k) =
          List.map (fun v => (k, transcode v)) e.vals := by
        rw [List.filter_eq_self]; intro a ha
        simp only [List.mem_map] at ha
        obtain ⟨v, _, rfl⟩ := ha; simp
      have h2 : (xs.flatMap fun h => h.2.vals.map fun v => (h.1, transcode v)).filter (·.1 == k) = [] := by
        rw [List.filter_eq_nil_iff]
        intro a ha
        simp only [List.mem_flatMap, List.mem_map] at ha
        obtain ⟨y, hy, v, _, rfl⟩ := ha
        simp only [beq_iff_eq]
        intro hk
        exact hn.1 (List.mem_map.mpr ⟨y, hy, hk⟩)
      rw [h1, h2, List.append_nil]
    · have hne : k' ≠ k := by
        intro hk; subst hk
        exact hn.1 (List.mem_map.mpr ⟨(k', e), hm', rfl⟩)
      have h1 : (List.map (fun v => (k', transcode v)) e'.vals).filter (·.1 == k) = [] := by
        rw [List.filter_eq_nil_iff]; intro a ha
        simp only [List.mem_map] at ha
        obtain ⟨v, _, rfl⟩ := ha; simpa using hne
      rw [h1, List.nil_append]
      exact ih hn.2 hm'

theorem valsOf_append {d d' : Store} {k : Str} {v : PyVal} {s : Str}
    (h : append d k v = .ok d') (hs : hval v = .ok s) : valsOf d' k = valsOf d k ++ [s] := by
  obtain ⟨s', hs', e, rfl, he⟩ := append_ok h
  rw [hs] at hs'; cases hs'
  simp only [valsOf, dget_dset_self]
  exact he

/-- appending acceptable values one after the other under one name stores them in that order -/
theorem run_appends (k : Str) (ps : List (PyVal × Str)) (hps : ∀ p ∈ ps, hval p.1 = .ok p.2) (r : Resp) :
    valsOf (run r (ps.map fun p => Op.append k p.1)).1.store k = valsOf r.store k ++ ps.map (·.2) ∧
    (run r (ps.map fun p => Op.append k p.1)).1.status = r.status := by
  induction ps generalizing r with
  | nil => simp [run]
  | cons p ps ih =>
    obtain ⟨v, s⟩ := p
    have hv : hval v = .ok s := hps (v, s) (by simp)
    have ih := ih (fun p hp => hps p (by simp [hp]))
    simp only [List.map_cons, run]
    have hstep : ∃ d', append r.store k v = .ok d' := by
      simp [append, hv, bind, Except.bind, pure, Except.pure]
    obtain ⟨d', hd⟩ := hstep
    have hs1 : step r (.append k v) = ({ r with store := d' }, none) := by
      simp only [step, hd]
    rw [hs1]
    obtain ⟨h1, h2⟩ := ih { r with store := d' }
    simp only at h1 h2 ⊢
    rw [h1, h2, valsOf_append hd hv, List.append_assoc]
    simp


end Ombott.Headers
