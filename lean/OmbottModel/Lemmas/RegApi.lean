import OmbottModel.Model.RegApi
/-!
Helper lemmas about the registration surface (`Model/RegApi.lean`): the insertion-ordered dict, the
registration forms as one family, the hook lists under `add_hook` / `remove_hook`, the emission loop.
-/
namespace Ombott.RegApi
open Py Ombott.Router

/-! ### insertion-ordered dict -/

theorem find_map_replace' {α β} [BEq α] [LawfulBEq α] (d : List (α × β)) (k k' : α) (v : β) :
    (d.map fun (x : α × β) => if x.1 == k then (x.1, v) else (x.1, x.2)).find? (·.1 == k') =
      (d.find? (·.1 == k')).map fun x => if x.1 == k then (x.1, v) else x := by
  induction d with
  | nil => rfl
  | cons e es ih =>
    simp only [List.map_cons, List.find?_cons]
    by_cases hek : (e.1 == k) = true
    · simp only [hek, if_true]
      by_cases h2 : (e.1 == k') = true
      · simp [h2, hek]
      · simp only [h2]; exact ih
    · simp only [hek, Bool.false_eq_true, if_false]
      by_cases h2 : (e.1 == k') = true
      · simp [h2, hek]
      · simp only [h2]; exact ih

theorem dictGet_dictSet' {α β} [DecidableEq α] (d : List (α × β)) (k k' : α) (v : β) :
    dictGet (dictSet d k v) k' = if k' = k then some v else dictGet d k' := by
  unfold dictSet dictGet
  split
  · rename_i hany
    have : (d.map fun (x : α × β) => match x with | (k'', v') => if k'' == k then (k'', v) else (k'', v')) =
        d.map fun (x : α × β) => if x.1 == k then (x.1, v) else (x.1, x.2) := by
      apply List.map_congr_left; intro x _; rfl
    rw [this, find_map_replace']
    by_cases hk : k' = k
    · subst hk
      obtain ⟨x, hx, hxk⟩ := List.any_eq_true.mp hany
      cases hf : d.find? (·.1 == k') with
      | none =>
        have := List.find?_eq_none.mp hf x hx
        simp [hxk] at this
      | some y =>
        have h1 := List.find?_some hf
        simp only [Option.map_some, h1, if_true]
    · simp only [hk, if_false]
      cases hf : d.find? (·.1 == k') with
      | none => rfl
      | some y =>
        have h1 := List.find?_some hf
        have : (y.1 == k) = false := by
          have : y.1 = k' := by simpa using h1
          simpa [this] using hk
        have hne : ¬ y.1 = k := by simpa using this
        simp [hne]
  · rename_i hany
    simp only [Bool.not_eq_true] at hany
    rw [List.find?_append]
    by_cases hk : k' = k
    · subst hk
      have : d.find? (·.1 == k') = none := by
        rw [List.find?_eq_none]
        intro x hx
        have := List.any_eq_false.mp hany x hx
        simpa using this
      simp [this]
    · have hkb : (k == k') = false := by simpa using fun h => hk h.symm
      simp [hk, hkb]

/-! ### the registration forms as one family -/

/-- the ways a callback gets registered for a rule -/
inductive Form
  | direct                             -- `app.route(rule, method, cb, name=…, overwrite=…)`
  | decorator                          -- `@app.route(rule, method, name=…, overwrite=…)`
  | shortcut (attr : String)           -- `app.<attr>(rule, callback=cb, name=…, overwrite=…)`
  | shortcutDecorator (attr : String)  -- `@app.<attr>(rule, name=…, overwrite=…)`
  | addRoute                           -- `app.add_route(rule, method, cb, name, overwrite=…)`

/-- the call, as an operation of `App.step` -/
def Form.op (f : Form) (rule : Str) (m : Methods) (name : Option Str) (ow : Bool) (cb : Callback) : Op :=
  match f with
  | .direct => .route rule (some m) (some cb) name ow
  | .decorator => .routeDeco rule (some m) name ow cb
  | .shortcut attr => .shortcut attr rule none (some cb) none name ow
  | .shortcutDecorator attr => .shortcutDeco attr rule none name ow cb
  | .addRoute => .addRoute rule m cb.id name ow

/-- the method argument `RadiRouter.add` receives: the caller's for `route` / `add_route`, the pinned
one for a shortcut (`none`: no such shortcut) -/
def Form.registers (f : Form) (m : Methods) : Option Methods :=
  match f with
  | .shortcut attr | .shortcutDecorator attr =>
    (Gen.raShortcuts.find? (·.1 == attr)).map fun x => .one x.2.toList
  | _ => some m

/-- what the call shows, given what `RadiRouter.add` answered -/
def Form.shows (f : Form) (cb : Callback) (r : Except ErrName Nat) : Out :=
  match f with
  | .addRoute => .route r
  | _ => .ret (match r with | .ok _ => .ok (.callback cb.id) | .error e => .error e)

theorem routeDecorator_eq (upper : Str → Str) (cenv : CompileEnv) (app : App) (rule : Str) (m : Methods)
    (name : Option Str) (ow : Bool) (cb : Callback) :
    app.routeDecorator upper cenv rule m name ow cb =
      ({ app with router := (app.router.add upper cenv ⟨rule, m.asList, cb.id, name, ow⟩).1 },
        match (app.router.add upper cenv ⟨rule, m.asList, cb.id, name, ow⟩).2 with
        | .ok _ => .ok (.callback cb.id) | .error e => .error e) := by
  unfold App.routeDecorator App.addRoute Router.appAddRoute
  cases h : (app.router.add upper cenv ⟨rule, m.asList, cb.id, name, ow⟩) with
  | mk R out => cases out <;> rfl

theorem step_form (ctx : Ctx) (app : App) (f : Form) (rule : Str) (m m' : Methods) (name : Option Str)
    (ow : Bool) (cb : Callback) (ht : cb.truthy = true) (hm : f.registers m = some m') :
    app.step ctx (f.op rule m name ow cb) =
      ({ app with router := (app.router.add ctx.upper ctx.cenv ⟨rule, m'.asList, cb.id, name, ow⟩).1 },
        f.shows cb (app.router.add ctx.upper ctx.cenv ⟨rule, m'.asList, cb.id, name, ow⟩).2) := by
  cases f with
  | direct =>
    cases hm
    simp only [Form.op, App.step, App.route, ht, if_true, Option.getD_some, routeDecorator_eq, Form.shows]
  | decorator =>
    cases hm
    simp only [Form.op, App.step, App.routeDecorated, App.route, Option.getD_some, routeDecorator_eq, Form.shows]
  | addRoute =>
    cases hm
    simp only [Form.op, App.step, App.addRoute, Router.appAddRoute, Form.shows]
  | shortcut attr =>
    simp only [Form.registers] at hm
    cases hf : Gen.raShortcuts.find? (·.1 == attr) with
    | none => rw [hf] at hm; cases hm
    | some x =>
      rw [hf] at hm
      simp only [Option.map_some, Option.some.injEq] at hm
      subst hm
      obtain ⟨a, M⟩ := x
      simp only [Form.op, App.step, App.shortcut, hf, App.route, ht, if_true, Option.getD_none, Option.getD_some,
        routeDecorator_eq, Form.shows]
  | shortcutDecorator attr =>
    simp only [Form.registers] at hm
    cases hf : Gen.raShortcuts.find? (·.1 == attr) with
    | none => rw [hf] at hm; cases hm
    | some x =>
      rw [hf] at hm
      simp only [Option.map_some, Option.some.injEq] at hm
      subst hm
      obtain ⟨a, M⟩ := x
      simp only [Form.op, App.step, App.shortcutDecorated, App.shortcut, hf, App.route, Option.getD_none,
        routeDecorator_eq, Form.shows]

/-! ### the hook lists -/

/-! ### the emission loop -/

/-- the hooks of a snapshot that get called: up to and including the first one that raises; whether a
hook raises depends on the application it finds (an edit with an unknown hook name), so the prefix is
described by the loop's own answer -/
theorem emitLoop_called_prefix (prog : Nat → HookProg) (l : List Nat) (app : App) :
    (emitLoop prog l app).2.1 <+: l := by
  induction l generalizing app with
  | nil => exact List.prefix_refl _
  | cons h hs ih =>
    unfold emitLoop
    cases hc : callHook prog h app with
    | mk app' r =>
      cases r with
      | true => exact List.prefix_iff_eq_take.mpr (by simp)
      | false =>
        simp only
        exact List.cons_prefix_cons.mpr ⟨rfl, ih app'⟩

theorem emitLoop_all (prog : Nat → HookProg) (l : List Nat) (app : App)
    (h : (emitLoop prog l app).2.2 = false) : (emitLoop prog l app).2.1 = l := by
  induction l generalizing app with
  | nil => rfl
  | cons x xs ih =>
    unfold emitLoop at h ⊢
    cases hc : callHook prog x app with
    | mk app' r =>
      rw [hc] at h
      cases r with
      | true => simp at h
      | false =>
        simp only at h ⊢
        rw [ih app' h]

end Ombott.RegApi
