import OmbottModel.Lemmas.Utf8
/-! `unquote` undoes `quote` / `quote_plus` (C18): percent decoding of the quoted bytes, the ASCII
run structure of `unquote`, and what characters the encoder can emit. -/
namespace Ombott.Qs
open Py

/-! ### percent decoding undoes `quote` / `quote_plus` -/

/-- byte values of what `quote`/`quote_plus` emit for byte `b`, after `replace('+', ' ')` -/
def codes (plus : Bool) (b : Nat) : List Nat := (plusToSpace (quoteByte plus b)).map (·.toNat)

/-- shape of `codes`: the byte itself (not `%`), or `%` and two hex digits spelling it; ASCII only -/
def okCodes (plus : Bool) (b : Nat) : Bool :=
  match codes plus b with
  | [c] => c == b && c != 37 && c < 128
  | [37, h, l] => hexDigitVal h == some (b / 16) && hexDigitVal l == some (b % 16) && h < 128 && l < 128
  | _ => false

theorem okCodes_all : ∀ plus : Bool, ∀ b, b < 256 → okCodes plus b = true := by decide +kernel


theorem pctGo_single (c : Nat) (rest : List Nat) (h : c ≠ 37) : pctGo (c :: rest) 0 = c :: pctGo rest 0 := by
  simp [pctGo, h]

theorem pctGo_escape (h l x y : Nat) (rest : List Nat) (hh : hexDigitVal h = some x) (hl : hexDigitVal l = some y) :
    pctGo (37 :: h :: l :: rest) 0 = (x * 16 + y) :: pctGo rest 0 := by
  simp [pctGo, pctAt, hh, hl]

theorem pctGo_codes (plus : Bool) (b : Nat) (hb : b < 256) (rest : List Nat) :
    pctGo (codes plus b ++ rest) 0 = b :: pctGo rest 0 := by
  have h := okCodes_all plus b hb
  unfold okCodes at h
  split at h
  · rename_i c hc
    simp only [Bool.and_eq_true, beq_iff_eq, bne_iff_ne, ne_eq, decide_eq_true_eq] at h
    rw [hc, List.singleton_append, pctGo_single _ _ h.1.2, h.1.1]
  · rename_i hh ll hc
    simp only [Bool.and_eq_true, beq_iff_eq, decide_eq_true_eq] at h
    rw [hc]
    simp only [List.cons_append, List.nil_append]
    rw [pctGo_escape _ _ _ _ _ h.1.1.1 h.1.1.2]
    congr 1
    omega
  · contradiction

theorem codes_ascii (plus : Bool) (b : Nat) (hb : b < 256) : ∀ c ∈ codes plus b, c < 128 := by
  have h := okCodes_all plus b hb
  unfold okCodes at h
  split at h
  · rename_i c hc
    simp only [Bool.and_eq_true, beq_iff_eq, bne_iff_ne, ne_eq, decide_eq_true_eq] at h
    rw [hc]; intro c' hc'; simp at hc'; omega
  · rename_i hh ll hc
    simp only [Bool.and_eq_true, beq_iff_eq, decide_eq_true_eq] at h
    rw [hc]; intro c' hc'; simp at hc'; omega
  · contradiction

/-- percent decoding of the quoted bytes gives the bytes back -/
theorem pctDecode_codes (plus : Bool) (bs : List Nat) (hbs : ∀ b ∈ bs, b < 256) :
    pctDecode (bs.flatMap (codes plus)) = bs := by
  unfold pctDecode
  induction bs with
  | nil => simp [pctGo]
  | cons b r ih =>
    rw [List.flatMap_cons, pctGo_codes plus b (hbs b (by simp)), ih (fun x hx => hbs x (by simp [hx]))]

/-! ### `unquote` -/

theorem pctGo_id (l : List Nat) (h : 37 ∉ l) : pctGo l 0 = l := by
  induction l with
  | nil => simp [pctGo]
  | cons c r ih =>
    simp only [List.mem_cons, not_or] at h
    rw [pctGo_single _ _ (Ne.symm h.1), ih h.2]

theorem decGo_ascii (l : List Nat) (h : ∀ c ∈ l, c < 128) : decGo l 0 = l.map Char.ofNat := by
  induction l with
  | nil => simp [decGo]
  | cons c r ih =>
    have hc : c < 128 := h c (by simp)
    simp only [decGo, decodeAt_one c r hc, List.map_cons]
    rw [ih (fun x hx => h x (by simp [hx]))]

theorem toNat_eq_37 (c : Char) (h : c.toNat = 37) : c = '%' := by
  have := Char.ofNat_toNat c
  rw [h] at this
  exact this.symm

/-- on a string without `%` the general path of `unquote` is the identity (so the early return of
the library is only a shortcut) -/
theorem unqGo_no_pct (t : Str) (acc : List Nat) (ht : '%' ∉ t) (ha : 37 ∉ acc) (ha2 : ∀ c ∈ acc, c < 128) :
    unqGo t acc = acc.reverse.map Char.ofNat ++ t := by
  have flush : ∀ acc : List Nat, 37 ∉ acc → (∀ c ∈ acc, c < 128) → flushRun acc = acc.reverse.map Char.ofNat := by
    intro acc h1 h2
    unfold flushRun pctDecode decN
    rw [pctGo_id _ (by simpa using h1), decGo_ascii _ (by simpa using h2)]
  induction t generalizing acc with
  | nil => simp [unqGo, flush acc ha ha2]
  | cons c r ih =>
    simp only [List.mem_cons, not_or] at ht
    unfold unqGo
    split
    · rename_i hc
      have hne : c.toNat ≠ 37 := fun h => ht.1 (toNat_eq_37 c h).symm
      rw [ih (c.toNat :: acc) ht.2 (by simp [ha, Ne.symm hne]) (by
        intro x hx; simp at hx; rcases hx with rfl | hx
        · exact hc
        · exact ha2 x hx)]
      simp [Char.ofNat_toNat]
    · rw [flush acc ha ha2, ih [] ht.2 (by simp) (by simp)]
      simp

theorem unquote_eq_unqGo (t : Str) : unquote t = unqGo t [] := by
  unfold unquote
  split
  · rfl
  · rename_i h
    rw [unqGo_no_pct t [] h (by simp) (by simp)]; simp

theorem unqGo_ascii (t : Str) (acc : List Nat) (ht : ∀ c ∈ t, c.toNat < 128) :
    unqGo t acc = flushRun ((t.map (·.toNat)).reverse ++ acc) := by
  induction t generalizing acc with
  | nil => simp [unqGo]
  | cons c r ih =>
    have hc : c.toNat < 128 := ht c (by simp)
    unfold unqGo
    rw [if_pos hc, ih _ (fun x hx => ht x (by simp [hx]))]
    simp

/-- `unquote` of an all-ASCII string: percent-decode, then UTF-8-decode -/
theorem unquote_ascii (t : Str) (ht : ∀ c ∈ t, c.toNat < 128) :
    unquote t = decN (pctDecode (t.map (·.toNat))) := by
  rw [unquote_eq_unqGo, unqGo_ascii t [] ht]
  simp [flushRun]


/-- facts about the characters `quoteByte` emits, checked for all 256 bytes: never empty, ASCII,
never a separator, and `+` only from `quote_plus` -/
def okChars (plus : Bool) (b : Nat) : Bool :=
  !(quoteByte plus b).isEmpty &&
  (quoteByte plus b).all (fun c => c.toNat < 128 && c != '=' && c != '&' && (plus || c != '+'))

theorem okChars_all : ∀ plus : Bool, ∀ b, b < 256 → okChars plus b = true := by decide +kernel

theorem plusToSpace_id (t : Str) (h : '+' ∉ t) : plusToSpace t = t := by
  induction t with
  | nil => rfl
  | cons c r ih =>
    simp only [List.mem_cons, not_or] at h
    simp only [plusToSpace, List.map_cons] at ih ⊢
    rw [ih h.2, if_neg (Ne.symm h.1)]

theorem plusToSpace_flatMap {α} (l : List α) (f : α → Str) :
    plusToSpace (l.flatMap f) = l.flatMap (fun b => plusToSpace (f b)) := by
  simp [plusToSpace, List.map_flatMap]

theorem utf8Enc_lt (s : Str) : ∀ b ∈ (utf8Enc s).map (·.toNat), b < 256 := by
  intro b hb
  simp only [List.mem_map] at hb
  obtain ⟨x, _, rfl⟩ := hb
  exact x.toNat_lt

/-- the text `parse_qsl` hands to `unquote` for a quoted key or value decodes to the original -/
theorem unquote_plusToSpace_quoteWith (plus : Bool) (s : Str) :
    unquote (plusToSpace (quoteWith plus s)) = s := by
  have hmap : (plusToSpace (quoteWith plus s)).map (·.toNat) = ((utf8Enc s).map (·.toNat)).flatMap (codes plus) := by
    unfold quoteWith
    rw [plusToSpace_flatMap, List.map_flatMap, List.flatMap_map]
    rfl
  have hascii : ∀ c ∈ plusToSpace (quoteWith plus s), c.toNat < 128 := by
    intro c hc
    have : c.toNat ∈ (plusToSpace (quoteWith plus s)).map (·.toNat) := List.mem_map_of_mem hc
    rw [hmap, List.mem_flatMap] at this
    obtain ⟨b, hb, hcb⟩ := this
    exact codes_ascii plus b (utf8Enc_lt s b hb) _ hcb
  rw [unquote_ascii _ hascii, hmap, pctDecode_codes plus _ (utf8Enc_lt s), decN_utf8Enc]

theorem quoteWith_chars (plus : Bool) (s : Str) :
    ∀ c ∈ quoteWith plus s, c.toNat < 128 ∧ c ≠ '=' ∧ c ≠ '&' ∧ (plus = false → c ≠ '+') := by
  intro c hc
  unfold quoteWith at hc
  rw [List.mem_flatMap] at hc
  obtain ⟨b, _, hcb⟩ := hc
  have h := okChars_all plus b.toNat b.toNat_lt
  unfold okChars at h
  simp only [Bool.and_eq_true, List.all_eq_true, decide_eq_true_eq, bne_iff_ne, ne_eq, Bool.or_eq_true] at h
  have := h.2 c hcb
  refine ⟨this.1.1.1, this.1.1.2, this.1.2, ?_⟩
  intro hp
  rcases this.2 with h' | h'
  · rw [hp] at h'; contradiction
  · exact h'

theorem quoteWith_ne_nil (plus : Bool) (s : Str) (hs : s ≠ []) : quoteWith plus s ≠ [] := by
  cases s with
  | nil => contradiction
  | cons c r =>
    unfold quoteWith utf8Enc
    rw [List.flatMap_cons]
    have hne : String.utf8EncodeChar c ≠ [] := by
      intro h
      have := String.length_utf8EncodeChar c
      rw [h] at this
      have := c.utf8Size_pos
      simp at *
    cases hb : String.utf8EncodeChar c with
    | nil => contradiction
    | cons b bs =>
      simp only [List.cons_append, List.flatMap_cons]
      have h := okChars_all plus b.toNat b.toNat_lt
      unfold okChars at h
      simp only [Bool.and_eq_true, Bool.not_eq_true', List.isEmpty_eq_false_iff] at h
      intro habs
      simp only [List.append_eq_nil_iff] at habs
      exact h.1 habs.1

/-- `unquote(quote(s)) = s` -/
theorem unquote_quote' (s : Str) : unquote (quote s) = s := by
  have : plusToSpace (quote s) = quote s :=
    plusToSpace_id _ (fun h => (quoteWith_chars false s _ h).2.2.2 rfl rfl)
  rw [← this]
  exact unquote_plusToSpace_quoteWith false s

end Ombott.Qs
