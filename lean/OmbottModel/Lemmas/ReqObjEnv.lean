import OmbottModel.Model.ReqObj
/-! Association-list facts for `Model/ReqObj.lean`, the embedding of `EnvCache.Env`, and the frame facts of
`Req.setEnv` / `initReq`. -/
namespace Ombott.ReqObj
open Py
open Ombott.EnvCache (Key Val todelete)

theorem get?_set_same (e : REnv) (k : Key) (v : RVal) : (e.set k v).get? k = some v := by
  induction e with
  | nil => simp [REnv.set, REnv.get?]
  | cons p r ih =>
    obtain ⟨k', v'⟩ := p
    by_cases h : k' = k <;> simp [REnv.set, REnv.get?, h, ih]

theorem get?_set_other (e : REnv) (k k' : Key) (v : RVal) (h : k' ≠ k) : (e.set k v).get? k' = e.get? k' := by
  induction e with
  | nil => simp [REnv.set, REnv.get?, Ne.symm h]
  | cons p r ih =>
    obtain ⟨a, b⟩ := p
    by_cases h1 : a = k
    · subst h1; simp [REnv.set, REnv.get?, Ne.symm h]
    · by_cases h2 : a = k'
      · subst h2; simp [REnv.set, REnv.get?, h1]
      · simp [REnv.set, REnv.get?, h1, h2, ih]

theorem get?_del_same (e : REnv) (k : Key) : (e.del k).get? k = none := by
  induction e with
  | nil => rfl
  | cons p r ih =>
    obtain ⟨a, b⟩ := p
    by_cases h : a = k <;> simp_all [REnv.del, REnv.get?, List.filter_cons]

theorem get?_del_other (e : REnv) (k k' : Key) (h : k' ≠ k) : (e.del k).get? k' = e.get? k' := by
  induction e with
  | nil => rfl
  | cons p r ih =>
    obtain ⟨a, b⟩ := p
    by_cases h1 : a = k
    · subst h1
      have : (REnv.del ((a, b) :: r) a) = REnv.del r a := by simp [REnv.del, List.filter_cons]
      rw [this, ih]; simp [REnv.get?, Ne.symm h]
    · have : (REnv.del ((a, b) :: r) k) = (a, b) :: REnv.del r k := by simp [REnv.del, List.filter_cons, h1]
      rw [this]; by_cases h2 : a = k' <;> simp [REnv.get?, h2, ih]

theorem get?_del_none (e : REnv) (k k' : Key) (h : e.get? k' = none) : (e.del k).get? k' = none := by
  by_cases hk : k' = k
  · subst hk; exact get?_del_same e k'
  · rw [get?_del_other e k k' hk]; exact h

theorem get?_foldl_del_none (ks : List Key) (e : REnv) (k' : Key) (h : e.get? k' = none) :
    (ks.foldl REnv.del e).get? k' = none := by
  induction ks generalizing e with
  | nil => exact h
  | cons a r ih => exact ih _ (get?_del_none e a k' h)

theorem get?_onEnvChanged_none (e : REnv) (k k' : Key) (h : e.get? k' = none) :
    (onEnvChanged e k).get? k' = none := get?_foldl_del_none _ e k' h

theorem get?_foldl_del_other (ks : List Key) (e : REnv) (k' : Key) (h : k' ∉ ks) :
    (ks.foldl REnv.del e).get? k' = e.get? k' := by
  induction ks generalizing e with
  | nil => rfl
  | cons a r ih =>
    simp only [List.mem_cons, not_or] at h
    rw [List.foldl_cons, ih _ h.2, get?_del_other e a k' h.1]

/-! ### the embedding of the cache layer's environ -/

def embed (e : Ombott.EnvCache.Env) : REnv := e.map fun p => (p.1, RVal.plain p.2)

theorem embed_get? (e : Ombott.EnvCache.Env) (k : Key) : (embed e).get? k = (e.get? k).map RVal.plain := by
  induction e with
  | nil => rfl
  | cons p r ih =>
    obtain ⟨a, b⟩ := p
    by_cases h : a = k <;> simp_all [embed, REnv.get?, Ombott.EnvCache.Env.get?]

theorem embed_set (e : Ombott.EnvCache.Env) (k : Key) (v : Val) : (embed e).set k (.plain v) = embed (e.set k v) := by
  induction e with
  | nil => rfl
  | cons p r ih =>
    obtain ⟨a, b⟩ := p
    by_cases h : a = k <;> simp_all [embed, REnv.set, Ombott.EnvCache.Env.set]

theorem embed_del (e : Ombott.EnvCache.Env) (k : Key) : (embed e).del k = embed (e.del k) := by
  induction e with
  | nil => rfl
  | cons p r ih =>
    obtain ⟨a, b⟩ := p
    by_cases h : a = k <;> simp_all [embed, REnv.del, Ombott.EnvCache.Env.del, List.filter_cons]

theorem embed_foldl_del (ks : List Key) (e : Ombott.EnvCache.Env) :
    ks.foldl REnv.del (embed e) = embed (ks.foldl Ombott.EnvCache.Env.del e) := by
  induction ks generalizing e with
  | nil => rfl
  | cons a r ih => rw [List.foldl_cons, List.foldl_cons, embed_del, ih]

theorem embed_onEnvChanged (e : Ombott.EnvCache.Env) (k : Key) :
    onEnvChanged (embed e) k = embed (Ombott.EnvCache.dropAll e (todelete k)) := embed_foldl_del _ e

/-! ### the per-thread store -/

theorem tlGet_tlSet_same (l : List (Nat × Option REnv)) (t : Nat) (e : Option REnv) : tlGet (tlSet l t e) t = e := by
  induction l with
  | nil => simp [tlSet, tlGet]
  | cons p r ih =>
    obtain ⟨a, b⟩ := p
    by_cases h : a = t <;> simp [tlSet, tlGet, h, ih]

theorem tlGet_tlSet_other (l : List (Nat × Option REnv)) (t t' : Nat) (e : Option REnv) (h : t' ≠ t) :
    tlGet (tlSet l t e) t' = tlGet l t' := by
  induction l with
  | nil => simp [tlSet, tlGet, Ne.symm h]
  | cons p r ih =>
    obtain ⟨a, b⟩ := p
    by_cases h1 : a = t
    · subst h1; simp [tlSet, tlGet, Ne.symm h]
    · by_cases h2 : a = t'
      · subst h2; simp [tlSet, tlGet, h1]
      · simp [tlSet, tlGet, h1, h2, ih]

theorem tlSet_tlSet (l : List (Nat × Option REnv)) (t : Nat) (a b : Option REnv) :
    tlSet (tlSet l t a) t b = tlSet l t b := by
  induction l with
  | nil => simp [tlSet]
  | cons p r ih =>
    obtain ⟨x, y⟩ := p
    by_cases h : x = t <;> simp [tlSet, h, ih]

@[simp] theorem setEnv_env_same (r : Req) (t : Nat) (e : REnv) : (r.setEnv t e).env t = some e :=
  tlGet_tlSet_same _ _ _

theorem setEnv_env_other (r : Req) (t t' : Nat) (e : REnv) (h : t' ≠ t) : (r.setEnv t e).env t' = r.env t' :=
  tlGet_tlSet_other _ _ _ _ h

@[simp] theorem setEnv_setEnv (r : Req) (t : Nat) (a b : REnv) : (r.setEnv t a).setEnv t b = r.setEnv t b := by
  simp [Req.setEnv, tlSet_tlSet]

@[simp] theorem setEnv_listeners (r : Req) (t : Nat) (e : REnv) : (r.setEnv t e).listeners = r.listeners := rfl
@[simp] theorem setEnv_config (r : Req) (t : Nat) (e : REnv) : (r.setEnv t e).config = r.config := rfl

theorem setReq_get (w : World) (i : Nat) (r r0 : Req) (h : w.reqs[i]? = some r0) : (w.setReq i r).reqs[i]? = some r := by
  have hi : i < w.reqs.length := by
    rcases Nat.lt_or_ge i w.reqs.length with h1 | h1
    · exact h1
    · rw [List.getElem?_eq_none h1] at h; cases h
  simp [World.setReq, List.getElem?_set_self hi]

@[simp] theorem setReq_setReq (w : World) (i : Nat) (a b : Req) : (w.setReq i a).setReq i b = w.setReq i b := by
  simp [World.setReq, List.set_set]

/-- `__setitem__` on an object whose `env_changed` listeners are the built-in one only: the read-only
test, the `is`/`==` short cut, the assignment, the invalidation -/
theorem setItem_fresh (w : World) (t i : Nat) (k : Key) (v : RVal) (r : Req) (env : REnv)
    (hr : w.reqs[i]? = some r) (he : r.env t = some env)
    (hl : r.listeners.get? evChanged = some [.builtin])
    (hro : truthy w t (env.get? kReadonly) = .ok false)
    (hne : unchanged env k v = false) :
    setItem w t i k v = (.ok (), w.setReq i (r.setEnv t (onEnvChanged (env.set k v) k))) := by
  have h1 : (w.setReq i (r.setEnv t (env.set k v))).reqs[i]? = some (r.setEnv t (env.set k v)) := setReq_get w i _ r hr
  unfold setItem
  simp only [hr, he, hro, hne, Bool.false_eq_true, if_false]
  simp only [emit, h1, setEnv_listeners, hl, emitLoop, callCb]
  by_cases hd : (todelete k).isEmpty
  · have : todelete k = [] := List.isEmpty_iff.mp hd
    simp [hd, emitAdded, onEnvChanged, this]
  · simp [hd, emitAdded]

/-- … with one recording listener behind the built-in one: it is called once, with `(key, value)` -/
theorem setItem_recorded (w : World) (t i n : Nat) (k : Key) (v : RVal) (r : Req) (env : REnv)
    (hr : w.reqs[i]? = some r) (he : r.env t = some env)
    (hl : r.listeners.get? evChanged = some [.builtin, .recd n])
    (hro : truthy w t (env.get? kReadonly) = .ok false)
    (hne : unchanged env k v = false) :
    setItem w t i k v =
      (.ok (), { w.setReq i (r.setEnv t (onEnvChanged (env.set k v) k)) with
                 log := w.log ++ [⟨n, i, [.plain (.str k), v]⟩] }) := by
  have h1 : (w.setReq i (r.setEnv t (env.set k v))).reqs[i]? = some (r.setEnv t (env.set k v)) := setReq_get w i _ r hr
  have h2 : ∀ e', (w.setReq i (r.setEnv t e')).reqs[i]? = some (r.setEnv t e') := fun e' => setReq_get w i _ r hr
  unfold setItem
  simp only [hr, he, hro, hne, Bool.false_eq_true, if_false]
  simp only [emit, h1, setEnv_listeners, hl, emitLoop, callCb]
  by_cases hd : (todelete k).isEmpty
  · have : todelete k = [] := List.isEmpty_iff.mp hd
    simp [emitAdded, onEnvChanged, this, h1, h2]; rfl
  · simp [hd, emitAdded, h2]; rfl

/-- under the read-only flag `__setitem__` raises `KeyError` and changes nothing -/
theorem setItem_readonly (w : World) (t i : Nat) (k : Key) (v : RVal) (r : Req) (env : REnv)
    (hr : w.reqs[i]? = some r) (he : r.env t = some env) (hro : truthy w t (env.get? kReadonly) = .ok true) :
    setItem w t i k v = (.error .keyError, w) := by
  unfold setItem; simp only [hr, he, hro]

theorem delItem_readonly (w : World) (t i : Nat) (k : Key) (r : Req) (env : REnv)
    (hr : w.reqs[i]? = some r) (he : r.env t = some env) (hro : truthy w t (env.get? kReadonly) = .ok true) :
    delItem w t i k = (.error .keyError, w) := by
  unfold delItem; rw [setItem_readonly w t i k _ r env hr he hro]

end Ombott.ReqObj
