import OmbottModel.Lemmas.Upload
import OmbottModel.Lemmas.PyInt
/-! Idempotence of the file-name sanitiser (C07, upload object). -/
namespace Ombott.Upload
open Py Ombott.Forms

/-- no two adjacent dashes -/
def NoDD : Str → Prop
  | a :: b :: r => ¬ (a = '-' ∧ b = '-') ∧ NoDD (b :: r)
  | _ => True

theorem NoDD_tail {a : Char} {r : Str} (h : NoDD (a :: r)) : NoDD r := by
  cases r with
  | nil => trivial
  | cons b r => exact h.2

theorem NoDD_append_right (a b : Str) (h : NoDD (a ++ b)) : NoDD b := by
  induction a with
  | nil => exact h
  | cons x xs ih => exact ih (NoDD_tail h)

theorem NoDD_append_left (a b : Str) (h : NoDD (a ++ b)) : NoDD a := by
  induction a with
  | nil => trivial
  | cons x xs ih =>
    cases xs with
    | nil => trivial
    | cons y ys => exact ⟨h.1, ih h.2⟩

theorem not_dashws_ne_dash (c : Char) (h : inTable Gen.upDashWs c = false) : c ≠ '-' := by
  rintro rfl
  have := dash_in_dashws
  simp [inTable] at h
  exact absurd this (by simpa using h)

theorem collapseGo_noDD (b : Bool) (s : Str) :
    NoDD (collapseGo b s) ∧ (b = true → (collapseGo b s).head? ≠ some '-') := by
  induction s generalizing b with
  | nil => exact ⟨trivial, fun _ => by simp [collapseGo]⟩
  | cons c cs ih =>
    unfold collapseGo
    split
    · split
      · exact ⟨(ih true).1, fun _ => (ih true).2 rfl⟩
      · rename_i hb
        refine ⟨?_, fun h => absurd h hb⟩
        have := ih true
        cases hg : collapseGo true cs with
        | nil => trivial
        | cons y ys =>
          rw [hg] at this
          refine ⟨fun h => this.2 rfl (by simp [h.2]), this.1⟩
    · rename_i hc
      have hne := not_dashws_ne_dash c (by simpa using hc)
      refine ⟨?_, fun _ => by simp [hne]⟩
      cases hg : collapseGo false cs with
      | nil => trivial
      | cons y ys => exact ⟨fun h => hne h.1, hg ▸ (ih false).1⟩

theorem stripBy_noDD (p : Char → Bool) (s : Str) (h : NoDD s) : NoDD (stripBy p s) := by
  obtain ⟨r, hr⟩ := stripBy_prefix_dropWhile p s
  obtain ⟨q, hq⟩ := List.dropWhile_suffix (p := p) (l := s)
  rw [← hq, ← hr] at h
  exact NoDD_append_left _ _ (NoDD_append_right _ _ h)

theorem preTrunc_noDD (nf : Char → List Char) (s : Str) : NoDD (preTrunc nf s) :=
  stripBy_noDD _ _ (collapseGo_noDD false _).1

theorem truncOrEmpty_noDD (p : Str) (hp : NoDD p) : NoDD (truncOrEmpty p) := by
  have hc := truncOrEmpty_cases p
  generalize truncOrEmpty p = q at hc
  rcases hc with ⟨_, h2⟩ | ⟨_, h2⟩
  · subst h2; exact ⟨by decide, by decide, by decide, by decide, trivial⟩
  · subst h2
    rw [← List.take_append_drop 255 p] at hp
    exact NoDD_append_left _ _ hp

/-! ### a clean name is a fixed point of every step -/

theorem stripBy_id_ends {α} (p : α → Bool) (l : List α) (h1 : ∀ c, l.head? = some c → p c = false)
    (h2 : ∀ c, l.getLast? = some c → p c = false) : stripBy p l = l := by
  unfold stripBy
  have e1 : l.dropWhile p = l := by
    cases l with
    | nil => rfl
    | cons a as => simp [List.dropWhile, h1 a rfl]
  rw [e1]
  have e2 : l.reverse.dropWhile p = l.reverse := by
    cases hr : l.reverse with
    | nil => rfl
    | cons a as =>
      have : l.getLast? = some a := by rw [← List.head?_reverse, hr]; rfl
      simp [List.dropWhile, h2 a this]
  rw [e2, List.reverse_reverse]

theorem collapse_id (s : Str) (hs : ∀ c ∈ s, isSafeChar c = true) (hd : NoDD s) :
    collapseGo false s = s ∧ (s.head? ≠ some '-' → collapseGo true s = s) := by
  induction s with
  | nil => simp [collapseGo]
  | cons c cs ih =>
    have ihc := ih (fun x hx => hs x (List.mem_cons_of_mem _ hx)) (NoDD_tail hd)
    by_cases hc : c = '-'
    · subst hc
      have hin : inTable Gen.upDashWs '-' = true := by decide
      have hcs : cs.head? ≠ some '-' := by
        cases cs with
        | nil => simp
        | cons y ys => intro h; simp at h; exact hd.1 ⟨rfl, h⟩
      refine ⟨?_, fun h => absurd rfl h⟩
      unfold collapseGo
      simp only [hin, ↓reduceIte, Bool.false_eq_true]
      rw [ihc.2 hcs]
    · have hsafe := hs c (by simp)
      have hnot : inTable Gen.upDashWs c = false := by
        have h := safe_not_ws
        rw [List.all_eq_true] at h
        have := h c.toNat (List.mem_range.mpr (isSafeNat_lt hsafe))
        have hn : (c.toNat == 45) = false := by
          rw [beq_eq_false_iff_ne]; intro e; exact hc (Char.toNat_inj.mp (by simpa using e))
        simp only [isSafeChar] at hsafe
        simp only [hsafe, hn, Bool.not_true, Bool.false_or, Bool.and_eq_true, Bool.not_eq_true'] at this
        simpa [inTable] using this.1
      constructor
      · unfold collapseGo; simp only [hnot, Bool.false_eq_true, ↓reduceIte]; rw [ihc.1]
      · intro _; unfold collapseGo; simp only [hnot, Bool.false_eq_true, ↓reduceIte]; rw [ihc.1]

/-- a clean name: safe characters, no run of dashes, no dot or dash at either end -/
def Clean (f : Str) : Prop :=
  (∀ c ∈ f, isSafeChar c = true) ∧ NoDD f ∧ (∀ c, f.head? = some c → isDotDash c = false) ∧
  (∀ c, f.getLast? = some c → isDotDash c = false)

theorem preTrunc_clean_fix (nf : Char → List Char) (hnf : ∀ c : Char, c.toNat < 128 → nf c = [c]) (f : Str)
    (h : Clean f) : preTrunc nf f = f := by
  obtain ⟨hs, hd, hh, hl⟩ := h
  have e1 : nfkdAscii nf f = f := by
    unfold nfkdAscii asciiIgnore
    have : f.flatMap nf = f := by
      clear hd hh hl
      induction f with
      | nil => rfl
      | cons c cs ih =>
        rw [List.flatMap_cons, hnf c (isSafeNat_lt (hs c (by simp))), ih (fun x hx => hs x (List.mem_cons_of_mem _ hx))]
        rfl
    rw [this, List.filter_eq_self]
    intro c hc; simpa using isSafeNat_lt (hs c hc)
  have e2 : replaceBackslash f = f := by
    unfold replaceBackslash
    conv => rhs; rw [← List.map_id f]
    apply List.map_congr_left
    intro c hc
    rw [if_neg (safe_not_slash c (hs c hc)).2.1]; rfl
  have e3 : basename f = f := by
    unfold basename
    have hall : ∀ (l : Str), (∀ c ∈ l, (c != sepChar) = true) → l.takeWhile (fun c => c != sepChar) = l := by
      intro l hl
      induction l with
      | nil => rfl
      | cons x xs ih => rw [List.takeWhile_cons, hl x (by simp), if_pos rfl, ih (fun c hc => hl c (List.mem_cons_of_mem _ hc))]
    rw [hall, List.reverse_reverse]
    intro c hc
    rw [sep_eq]
    simpa using (safe_not_slash c (hs c (by simpa using hc))).1
  have hws : ∀ c ∈ f, inTable Gen.upStripWs c = false ∧ inTable Gen.upKeep1 c = true := by
    intro c hc
    have hsafe := hs c hc
    have h1 := safe_not_ws
    have h2 := safe_in_keep1
    rw [List.all_eq_true] at h1 h2
    have a1 := h1 c.toNat (List.mem_range.mpr (isSafeNat_lt hsafe))
    have a2 := h2 c.toNat (List.mem_range.mpr (isSafeNat_lt hsafe))
    simp only [isSafeChar] at hsafe
    simp only [hsafe, Bool.not_true, Bool.false_or] at a1 a2
    refine ⟨?_, by simpa [inTable] using a2⟩
    by_cases h45 : c.toNat = 45
    · simp only [inTable, h45]; decide
    · have hn : (c.toNat == 45) = false := by simpa using h45
      simp only [hn, Bool.false_or, Bool.and_eq_true, Bool.not_eq_true'] at a1
      simpa [inTable] using a1.2
  have e4 : keep1 f = f := by
    unfold keep1; rw [List.filter_eq_self]; intro c hc; exact (hws c hc).2
  have e5 : stripWs f = f := stripBy_id _ _ (fun c hc => (hws c hc).1)
  have e6 : collapse f = f := (collapse_id f hs hd).1
  have e7 : stripDD f = f := by
    unfold stripDD
    exact stripBy_id_ends _ _ (fun c hc => by rw [inTable_stripChars]; exact hh c hc)
      (fun c hc => by rw [inTable_stripChars]; exact hl c hc)
  unfold preTrunc
  simp only [e1, e2, e3, e4, e5, e6, e7]

-- from here on `NoDD` is used through its lemmas only (unfolding it on a sanitiser term makes `whnf` run the sanitiser)
attribute [irreducible] NoDD

end Ombott.Upload
