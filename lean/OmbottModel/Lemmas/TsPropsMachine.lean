import OmbottModel.Lemmas.TsProps
/-!
From one step to whole runs: the two slicings of the heap (by thread for C08, by application for
C10) and the inductions over schedules / operation sequences.
-/
namespace Ombott.TsProps
open Py

/-! ### slicing by application (C10) -/

def ownA : ThreadId → AppId → Oid → Prop := fun _ b o => o.app = b
def PA (a : AppId) : ThreadId → AppId → Prop := fun _ b => b = a
def SA (a : AppId) : Inst → Prop := fun i => i.app = a

theorem readsOf_eq_filtered (a : AppId) (ops : List Op) (hsh : ∀ op ∈ ops, op.acc.sharedOk) (h h' : Heap)
    (g : Agree (PA a) (SA a) h h') (ow : Own ownA h) (ow' : Own ownA h') :
    readsOf .perInstance a h ops =
      (runOps .perInstance h' (ops.filter (fun op => op.app = a))).2 := by
  induction ops generalizing h h' with
  | nil => simp [readsOf, runOps]
  | cons op r ih =>
    have ih := ih (fun o ho => hsh o (by simp [ho]))
    have hind : ∀ (o : Oid) (u u' : ThreadId), ownA u op.app o → ownA u' op.app o := fun _ _ _ x => x
    have own1 : Own ownA (exec .perInstance op.thread op.app op.acc h).1 :=
      exec_own op.thread op.app op.acc ow (fun _ => rfl) (fun _ => Iff.rfl) (Or.inr hind)
    by_cases hop : op.app = a
    · have hag := exec_agree (P := PA a) (S := SA a) op.thread op.app op.acc g ow hop hop
        (fun o ho => by simp only [PA]; rw [← hop]; exact ho)
        (fun o => (g.hasStore _ (by simp [SA, hop])).symm)
        (Or.inr fun o => by simp [SA, hop])
      have own1' : Own ownA (exec .perInstance op.thread op.app op.acc h').1 :=
        exec_own op.thread op.app op.acc ow' (fun _ => rfl) (fun _ => Iff.rfl) (Or.inr hind)
      simp only [readsOf, hop, if_true, List.filter_cons, decide_true, runOps]
      rw [ih _ _ (by simpa [hop] using hag.2) (by simpa [hop] using own1) (by simpa [hop] using own1')]
      simp only [← hop] at hag ⊢
      rw [hag.1]
    · have hfr := exec_frame (P := PA a) (S := SA a) op.thread op.app op.acc ow hop hop
        (fun o => by simp [SA, hop])
        (fun o ho => by simp only [PA]; intro hc; exact hop (by rw [← ho, hc]))
        (hsh op (by simp))
      simp only [readsOf, hop, if_false, List.filter_cons, decide_false]
      exact ih _ _ (hfr.symm.trans g) own1 ow'

/-! ### runs, logs and operation sequences -/

theorem run_append (v : Variant) (m : Machine) (s1 s2 : List ThreadId) :
    run v m (s1 ++ s2) = run v (run v m s1) s2 := by
  induction s1 generalizing m with
  | nil => rfl
  | cons t s ih => simp only [List.cons_append, run]; exact ih _

theorem runOps_append (v : Variant) (h : Heap) (l1 l2 : List Op) :
    runOps v h (l1 ++ l2) =
      ((runOps v (runOps v h l1).1 l2).1, (runOps v h l1).2 ++ (runOps v (runOps v h l1).1 l2).2) := by
  induction l1 generalizing h with
  | nil => simp [runOps]
  | cons op r ih => simp only [List.cons_append, runOps, ih]

/-- the log of a machine is a faithful record: replaying its operations from the initial heap gives
the machine's heap and the logged results -/
def LogOk (v : Variant) (h0 : Heap) (m : Machine) : Prop :=
  runOps v h0 (m.log.map Event.op) = (m.heap, m.log.map (·.res))

theorem run_logOk (v : Variant) (h0 : Heap) (m : Machine) (sched : List ThreadId) (hl : LogOk v h0 m) :
    LogOk v h0 (run v m sched) := by
  induction sched generalizing m with
  | nil => exact hl
  | cons t s ih =>
    simp only [run]
    apply ih
    unfold LogOk at hl ⊢
    cases hp : (m.threads t).prog with
    | done => simpa [stepThread, hp] using hl
    | emit b o k => simpa [stepThread, hp] using hl
    | step b acc k =>
      simp only [stepThread, hp, Option.toList, List.map_append, List.map_cons, List.map_nil]
      rw [runOps_append, hl]
      simp [runOps, Event.op]

theorem readsOf_log (v : Variant) (a : AppId) (L : List Event) (h : Heap)
    (hl : (runOps v h (L.map Event.op)).2 = L.map (·.res)) :
    readsOf v a h (L.map Event.op) = (L.filter (fun e => e.app = a)).map (·.res) := by
  induction L generalizing h with
  | nil => rfl
  | cons e L ih =>
    simp only [List.map_cons, runOps, List.cons.injEq] at hl
    simp only [List.map_cons, readsOf, Event.op, List.filter_cons]
    have := ih _ hl.2
    simp only [Event.op] at this hl
    by_cases ha : e.app = a
    · subst ha
      simp only [if_true, decide_true, List.map_cons, this, hl.1]
    · simp [ha, this]

end Ombott.TsProps
