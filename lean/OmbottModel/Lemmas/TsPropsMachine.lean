import OmbottModel.Lemmas.TsProps
/-!
From one step to whole runs: the two slicings of the heap (by thread for C08, by application for
C10) and the inductions over schedules / operation sequences.
-/
namespace Ombott.TsProps
open Py

/-! ### slicing by application (C10) -/

def ownA : ThreadId → AppId → Oid → Prop := fun _ b o => o.app = b
def PA (a : AppId) : ThreadId → AppId → Prop := fun _ b => b = a
def SA (a : AppId) : Inst → Prop := fun i => i.app = a

theorem readsOf_eq_filtered (a : AppId) (ops : List Op) (hsh : ∀ op ∈ ops, op.acc.sharedOk) (h h' : Heap)
    (g : Agree (PA a) (SA a) h h') (ow : Own ownA h) (ow' : Own ownA h') :
    readsOf .perInstance a h ops =
      (runOps .perInstance h' (ops.filter (fun op => op.app = a))).2 := by
  induction ops generalizing h h' with
  | nil => simp [readsOf, runOps]
  | cons op r ih =>
    have ih := ih (fun o ho => hsh o (by simp [ho]))
    have hind : ∀ (o : Oid) (u u' : ThreadId), ownA u op.app o → ownA u' op.app o := fun _ _ _ x => x
    have own1 : Own ownA (exec .perInstance op.thread op.app op.acc h).1 :=
      exec_own op.thread op.app op.acc ow (fun _ => rfl) (Or.inr hind)
    by_cases hop : op.app = a
    · have hag := exec_agree (P := PA a) (S := SA a) op.thread op.app op.acc g ow hop
        (fun o ho => by simp only [PA]; rw [← hop]; exact ho)
        (fun o => (g.hasStore _ (by simp [SA, hop])).symm)
        (Or.inr fun o => by simp [SA, hop])
      have own1' : Own ownA (exec .perInstance op.thread op.app op.acc h').1 :=
        exec_own op.thread op.app op.acc ow' (fun _ => rfl) (Or.inr hind)
      simp only [readsOf, hop, if_true, List.filter_cons, decide_true, runOps]
      rw [ih _ _ (by simpa [hop] using hag.2) (by simpa [hop] using own1) (by simpa [hop] using own1')]
      simp only [← hop] at hag ⊢
      rw [hag.1]
    · have hfr := exec_frame (P := PA a) (S := SA a) op.thread op.app op.acc ow hop
        (fun o => by simp [SA, hop])
        (fun o ho => by simp only [PA]; intro hc; exact hop (by rw [← ho, hc]))
        (hsh op (by simp))
      simp only [readsOf, hop, if_false, List.filter_cons, decide_false]
      exact ih _ _ (hfr.symm.trans g) own1 ow'

/-! ### slicing by thread (C08) -/

def ownT : ThreadId → AppId → Oid → Prop := fun u _ o => o.thread = u
def PT (t : ThreadId) : ThreadId → AppId → Prop := fun u _ => u = t
/-- the copies thread `t` made: their `_ts_props` slot is private to `t` -/
def ST (t : ThreadId) : Inst → Prop := fun i => ∃ b n, i = .copy t b n

theorem ThreadOwned.own {h : Heap} (o : ThreadOwned h) : Own ownT h :=
  ⟨o.regs, o.tls, o.hd, fun i k x _ hx => absurd hx (o.slots i k x)⟩

theorem ThreadOwned.boot : ThreadOwned Heap.boot :=
  ⟨fun _ _ _ _ h => by simp [Heap.boot, Heap.empty] at h, fun _ _ _ _ h => by simp [Heap.boot, Heap.empty] at h,
   fun _ _ _ h => by simp [Heap.boot, Heap.empty] at h, fun _ _ _ h => by simp [Heap.boot, Heap.empty] at h⟩

theorem ThreadOwned.empty : ThreadOwned Heap.empty :=
  ⟨fun _ _ _ _ h => by simp [Heap.empty] at h, fun _ _ _ _ h => by simp [Heap.empty] at h,
   fun _ _ _ h => by simp [Heap.empty] at h, fun _ _ _ h => by simp [Heap.empty] at h⟩

/-- plain slots are not written by accesses of thread-local attributes -/
theorem exec_slots_of_attrOk (t : ThreadId) (a : AppId) (acc : Access) (h : Heap) (hok : acc.attrOk) :
    (exec .perInstance t a acc h).1.slots = h.slots := by
  have key : ∀ (us : List Upd) (h : Heap), (∀ u ∈ us, ∀ i k v, u ≠ .slot i k v) →
      (applyAll h us).slots = h.slots := by
    intro us
    induction us with
    | nil => intro h _; rfl
    | cons u us ih =>
      intro h hu
      have := ih (u.apply h) (fun u' hu' => hu u' (by simp [hu']))
      simp only [applyAll, List.foldl_cons] at this ⊢
      rw [this]
      have hne := hu u (by simp)
      cases u <;> first | rfl | exact absurd rfl (hne _ _ _)
  apply key
  intro u hu i k v
  cases acc with
  | fget o k' dst =>
    simp only [Access.attrOk] at hok
    simp only [plan, Obj.inst_cls, hok, if_true] at hu
    split at hu
    · split at hu <;> simp at hu; subst hu; simp
    · simp at hu
  | fset o k' src =>
    simp only [Access.attrOk] at hok
    simp only [plan, Obj.inst_cls, hok, if_true] at hu
    split at hu
    · simp at hu
    · split at hu <;> simp at hu; subst hu; simp
  | fdel o k' =>
    simp only [Access.attrOk] at hok
    simp only [plan, Obj.inst_cls, hok, if_true] at hu
    split at hu
    · split at hu <;> simp at hu; subst hu; simp
    · simp at hu
  | initHead o =>
    simp only [plan] at hu
    split at hu <;> simp at hu
    subst hu; simp
  | initNone o k' =>
    simp only [plan] at hu
    split at hu <;> simp at hu
    subst hu; simp
  | hdGet dst =>
    simp only [plan] at hu
    split at hu <;> simp at hu
    subst hu; simp
  | hdSet src =>
    simp only [plan] at hu
    split at hu <;> simp at hu
    subst hu; simp
  | dNew dst d =>
    simp only [plan] at hu
    simp at hu
    rcases hu with rfl | rfl | rfl <;> simp
  | dOp r op =>
    simp only [plan] at hu
    split at hu <;> simp at hu
    subst hu; simp
  | dUpdate r src =>
    simp only [plan] at hu
    split at hu <;> simp at hu
    subst hu; simp
  | dCopy r dst =>
    simp only [plan] at hu
    split at hu <;> simp at hu
    rcases hu with rfl | rfl | rfl <;> simp
  | newCopy =>
    simp only [plan] at hu
    simp at hu
    subst hu; simp
  | errGet e k' =>
    simp only [plan] at hu
    split at hu <;> simp at hu
  | errSet e k' x => exact absurd hok id

theorem exec_threadOwned (t : ThreadId) (a : AppId) (acc : Access) (h : Heap) (hok : acc.attrOk)
    (o : ThreadOwned h) : ThreadOwned (exec .perInstance t a acc h).1 := by
  have ow := exec_own (R := ownT) t a acc o.own (fun _ => rfl) (Or.inl hok)
  refine ⟨ow.regs, ow.tls, ow.hd, ?_⟩
  rw [exec_slots_of_attrOk t a acc h hok]
  exact o.slots

theorem exec_ready (v : Variant) (t : ThreadId) (a b : AppId) (acc : Access) (h : Heap) (hr : Ready a h) :
    Ready a (exec v t b acc h).1 :=
  ⟨exec_hasStore_mono v t b acc h _ hr.1, exec_hasStore_mono v t b acc h _ hr.2⟩

/-- the invariant of the interleaved run (machine `m`) against the solo run of thread `t`
(heap `hs`) -/
structure Inv (a : AppId) (t : ThreadId) (m : Machine) (hs : Heap) : Prop where
  agree : Agree (PT t) (ST t) hs m.heap
  owned : ThreadOwned m.heap
  owned' : ThreadOwned hs
  ready : Ready a m.heap
  ready' : Ready a hs
  serves : ∀ u, (m.threads u).prog.Serves a

theorem hasStore_eq_of_ready {a : AppId} {t : ThreadId} {h hs : Heap} (g : Agree (PT t) (ST t) hs h)
    (hr : Ready a h) (hr' : Ready a hs) (o : Obj) :
    h.hasStore (o.inst t a) = hs.hasStore (o.inst t a) := by
  cases o with
  | request => simp only [Obj.inst]; rw [hr.1, hr'.1]
  | response => simp only [Obj.inst]; rw [hr.2, hr'.2]
  | copy n => exact (g.hasStore _ ⟨a, n, rfl⟩).symm

theorem run_thread_eq_solo (a : AppId) (t : ThreadId) (sched : List ThreadId) (m : Machine) (hs : Heap)
    (inv : Inv a t m hs) :
    (run .perInstance m sched).threads t =
      (solo .perInstance t hs (m.threads t) (sched.count t)).2 := by
  induction sched generalizing m hs with
  | nil => simp [run, solo]
  | cons u s ih =>
    by_cases hu : u = t
    · subst hu
      simp only [run, List.count_cons_self, solo]
      have hsv := inv.serves u
      cases hp : (m.threads u).prog with
      | done =>
        simp only [stepThread, hp]
        have : upd m.threads u (m.threads u) = m.threads := by
          funext x; simp only [upd]; split <;> simp_all
        rw [this]
        simpa using ih ⟨m.heap, m.threads, m.log⟩ hs inv
      | emit b o k =>
        simp only [stepThread, hp]
        rw [hp] at hsv
        cases hsv with
        | emit _ _ hk =>
          have inv' : Inv a u ⟨m.heap, upd m.threads u ⟨k, (m.threads u).trace, (m.threads u).out ++ [(a, o)]⟩,
              m.log ++ (none : Option Event).toList⟩ hs :=
            ⟨inv.agree, inv.owned, inv.owned', inv.ready, inv.ready', fun w => by
              simp only [upd]; split
              · exact hk
              · exact inv.serves w⟩
          have := ih _ hs inv'
          simpa [upd] using this
      | step b acc k =>
        simp only [stepThread, hp]
        rw [hp] at hsv
        cases hsv with
        | step _ _ hok hk =>
          have hag := exec_agree (P := PT u) (S := ST u) u a acc inv.agree inv.owned'.own rfl
            (fun o ho => ho) (hasStore_eq_of_ready inv.agree inv.ready inv.ready') (Or.inl hok)
          have inv' : Inv a u ⟨(exec .perInstance u a acc m.heap).1,
              upd m.threads u ⟨k (exec .perInstance u a acc m.heap).2,
                (m.threads u).trace ++ [(exec .perInstance u a acc m.heap).2], (m.threads u).out⟩,
              m.log ++ (some (⟨u, a, acc, (exec .perInstance u a acc m.heap).2⟩ : Event)).toList⟩
              (exec .perInstance u a acc hs).1 :=
            ⟨hag.2, exec_threadOwned u a acc _ hok inv.owned, exec_threadOwned u a acc _ hok inv.owned',
             exec_ready _ u a a acc _ inv.ready, exec_ready _ u a a acc _ inv.ready', fun w => by
              simp only [upd]; split
              · exact hk _
              · exact inv.serves w⟩
          have := ih _ _ inv'
          simp only [upd, if_true] at this
          rw [this, hag.1]
    · have hcount : (u :: s).count t = s.count t := by
        simp [List.count_cons, hu]
      simp only [run, hcount]
      have hsv := inv.serves u
      have hthr : ∀ th, upd m.threads u th t = m.threads t := fun th => by
        simp only [upd]; split
        · rename_i h; exact absurd h.symm hu
        · rfl
      cases hp : (m.threads u).prog with
      | done =>
        simp only [stepThread, hp]
        have := ih ⟨m.heap, upd m.threads u (m.threads u), m.log ++ (none : Option Event).toList⟩ hs
          ⟨inv.agree, inv.owned, inv.owned', inv.ready, inv.ready', fun w => by
            simp only [upd]; split
            · subst_vars; exact inv.serves _
            · exact inv.serves w⟩
        simpa [hthr] using this
      | emit b o k =>
        simp only [stepThread, hp]
        rw [hp] at hsv
        cases hsv with
        | emit _ _ hk =>
          have := ih ⟨m.heap, upd m.threads u ⟨k, (m.threads u).trace, (m.threads u).out ++ [(a, o)]⟩,
              m.log ++ (none : Option Event).toList⟩ hs
            ⟨inv.agree, inv.owned, inv.owned', inv.ready, inv.ready', fun w => by
              simp only [upd]; split
              · exact hk
              · exact inv.serves w⟩
          simpa [hthr] using this
      | step b acc k =>
        simp only [stepThread, hp]
        rw [hp] at hsv
        cases hsv with
        | step _ _ hok hk =>
          have hfr := exec_frame (P := PT t) (S := ST t) u a acc inv.owned.own hu
            (fun o => by
              intro ⟨b', n, hb⟩
              cases o <;> simp [Obj.inst] at hb
              exact hu hb.1)
            (fun o ho => by simp only [PT]; rw [ho]; exact hu) (Access.sharedOk_of_attrOk hok)
          have := ih ⟨(exec .perInstance u a acc m.heap).1,
              upd m.threads u ⟨k (exec .perInstance u a acc m.heap).2,
                (m.threads u).trace ++ [(exec .perInstance u a acc m.heap).2], (m.threads u).out⟩,
              m.log ++ (some (⟨u, a, acc, (exec .perInstance u a acc m.heap).2⟩ : Event)).toList⟩ hs
            ⟨inv.agree.trans hfr, exec_threadOwned u a acc _ hok inv.owned, inv.owned',
             exec_ready _ u a a acc _ inv.ready, inv.ready', fun w => by
              simp only [upd]; split
              · exact hk _
              · exact inv.serves w⟩
          simpa [hthr] using this

/-! ### runs, logs and operation sequences -/

theorem run_append (v : Variant) (m : Machine) (s1 s2 : List ThreadId) :
    run v m (s1 ++ s2) = run v (run v m s1) s2 := by
  induction s1 generalizing m with
  | nil => rfl
  | cons t s ih => simp only [List.cons_append, run]; exact ih _

theorem runOps_append (v : Variant) (h : Heap) (l1 l2 : List Op) :
    runOps v h (l1 ++ l2) =
      ((runOps v (runOps v h l1).1 l2).1, (runOps v h l1).2 ++ (runOps v (runOps v h l1).1 l2).2) := by
  induction l1 generalizing h with
  | nil => simp [runOps]
  | cons op r ih => simp only [List.cons_append, runOps, ih]

/-- the log of a machine is a faithful record: replaying its operations from the initial heap gives
the machine's heap and the logged results -/
def LogOk (v : Variant) (h0 : Heap) (m : Machine) : Prop :=
  runOps v h0 (m.log.map Event.op) = (m.heap, m.log.map (·.res))

theorem run_logOk (v : Variant) (h0 : Heap) (m : Machine) (sched : List ThreadId) (hl : LogOk v h0 m) :
    LogOk v h0 (run v m sched) := by
  induction sched generalizing m with
  | nil => exact hl
  | cons t s ih =>
    simp only [run]
    apply ih
    unfold LogOk at hl ⊢
    cases hp : (m.threads t).prog with
    | done => simpa [stepThread, hp] using hl
    | emit b o k => simpa [stepThread, hp] using hl
    | step b acc k =>
      simp only [stepThread, hp, Option.toList, List.map_append, List.map_cons, List.map_nil]
      rw [runOps_append, hl]
      simp [runOps, Event.op]

theorem readsOf_log (v : Variant) (a : AppId) (L : List Event) (h : Heap)
    (hl : (runOps v h (L.map Event.op)).2 = L.map (·.res)) :
    readsOf v a h (L.map Event.op) = (L.filter (fun e => e.app = a)).map (·.res) := by
  induction L generalizing h with
  | nil => rfl
  | cons e L ih =>
    simp only [List.map_cons, runOps, List.cons.injEq] at hl
    simp only [List.map_cons, readsOf, Event.op, List.filter_cons]
    have := ih _ hl.2
    simp only [Event.op] at this hl
    by_cases ha : e.app = a
    · subst ha
      simp only [if_true, decide_true, List.map_cons, this, hl.1]
    · simp [ha, this]

end Ombott.TsProps
