import OmbottModel.Lemmas.RouteUrlSpec
/-!
The loop of `Route.url` with its slice bookkeeping (`cidx`, `clen`, `end`) computes what the
straightforward recursion over the pattern computes: `urlOf = urlPieces >>= joinVals`
(`urlOf_eq_pieces`), and, when the arguments are the matched values handed back
(`splitArgs`), `urlPieces = urlSpec` (`urlPieces_eq_spec`).
-/
namespace Ombott.RouteUrl
open Py Ombott.Router

/-- the pieces `url` appends for the pattern `q`, starting at wildcard number `i` with
positional index `k`: one per literal character, one per wildcard (argument picked as the loop
does) -/
def urlPieces (env : FilterEnv) (fenv : FormatEnv) (a : UrlArgs) : List Sym → Nat → Nat → Except ErrName (List Val)
  | [], _, _ => .ok []
  | .lit c :: q, i, k =>
    match urlPieces env fenv a q i k with
    | .error e => .error e
    | .ok l => .ok (Val.str [c] :: l)
  | .tok _ :: q, i, k =>
    match pickPiece env fenv a i k (litRun q) with
    | .error e => .error e
    | .ok (prt, k') =>
      match urlPieces env fenv a q (i + 1) k' with
      | .error e => .error e
      | .ok l => .ok (prt :: l)

/-- the literal run collected so far, as the piece it will become -/
def runPiece (run : Str) : List Val := if run.isEmpty then [] else [.str run]

/-- no literal character of the pattern is the marker (`inDomain`: no CR in the rule text) -/
def NoMarkerLit (q : List Sym) : Prop := ∀ c, Sym.lit c ∈ q → c ≠ marker

theorem marker_eq_paramToken : Gen.paramToken = marker := by decide

theorem slice_mid {α} (done run rest : List α) :
    slice (done ++ run ++ rest) done.length (done.length + run.length) = run := by
  unfold slice
  have : (done ++ run ++ rest).take (done.length + run.length) = done ++ run := by
    rw [← List.length_append]; exact List.take_left
  rw [this, List.drop_left]

theorem takeWhile_patStr (q : List Sym) (h : NoMarkerLit q) :
    (patStr q).takeWhile (· != marker) = litRun q := by
  induction q with
  | nil => rfl
  | cons s q ih =>
    cases s with
    | lit c =>
      have hc : c ≠ marker := h c (by simp)
      have : (c != marker) = true := by simpa using hc
      simp only [patStr, List.map_cons, symChar, List.takeWhile, this, litRun]
      congr 1
      exact ih (fun d hd => h d (by simp [hd]))
    | tok f =>
      simp [patStr, symChar, marker_eq_paramToken, litRun]

theorem joinVals_run_snoc (A : List Val) (run : Str) (c : Char) (l : List Val) :
    joinVals (A ++ runPiece run ++ Val.str [c] :: l) = joinVals (A ++ runPiece (run ++ [c]) ++ l) := by
  have key : joinVals (runPiece run ++ Val.str [c] :: l) = joinVals (runPiece (run ++ [c]) ++ l) := by
    cases run with
    | nil => rfl
    | cons a r =>
      simp only [runPiece, List.isEmpty_cons, Bool.false_eq_true, if_false, List.cons_append, List.nil_append,
        joinVals]
      cases joinVals l with
      | error e => rfl
      | ok u => simp [Functor.map, Except.map]
  rw [List.append_assoc, List.append_assoc, joinVals_append A (runPiece run ++ Val.str [c] :: l),
    joinVals_append A (runPiece (run ++ [c]) ++ l), key]

/-! ### the loop -/

theorem flushRun_cidx (a : UrlArgs) (st : UrlSt) : (flushRun a st).cidx = st.cidx + st.clen + 1 := by
  unfold flushRun; by_cases h : (st.clen != 0) = true
  · simp [h]
  · have : st.clen = 0 := by simpa using h
    simp [this]

theorem flushRun_clen (a : UrlArgs) (st : UrlSt) : (flushRun a st).clen = 0 := by
  unfold flushRun; by_cases h : (st.clen != 0) = true
  · simp [h]
  · have : st.clen = 0 := by simpa using h
    simp [this]

theorem flushRun_pidx (a : UrlArgs) (st : UrlSt) : (flushRun a st).pidx = st.pidx := by
  unfold flushRun; split <;> rfl

theorem flushRun_argsIdx (a : UrlArgs) (st : UrlSt) : (flushRun a st).argsIdx = st.argsIdx := by
  unfold flushRun; split <;> rfl

theorem flushRun_ret (a : UrlArgs) (st : UrlSt) (done run rest : Str)
    (hp : a.patOut = done ++ run ++ rest) (hc : st.cidx = done.length) (hl : st.clen = run.length) :
    (flushRun a st).ret = st.ret ++ runPiece run := by
  unfold flushRun
  cases run with
  | nil =>
    have : st.clen = 0 := by simpa using hl
    simp [this, runPiece]
  | cons x r =>
    have : (st.clen != 0) = true := by simp [hl]
    simp only [this, if_true, runPiece, List.isEmpty_cons, Bool.false_eq_true, if_false]
    simp only [sliceVal, hp, hc, hl, slice_mid]

/-- **loop invariant**: standing in front of the rest `q` of the pattern with the literal run
`run` collected (`cidx` at its start, `clen` its length), loop + final flush + join give what
the recursion over `q` gives -/
theorem urlLoop_inv (env : FilterEnv) (fenv : FormatEnv) (a : UrlArgs) :
    ∀ (q : List Sym) (st : UrlSt) (done run : Str),
      a.patOut = done ++ run ++ patStr q → NoMarkerLit q →
      st.cidx = done.length → st.clen = run.length →
      (match urlLoop env fenv a (patStr q) st with
        | .error e => Except.error e
        | .ok st' => urlFinish a st') =
      (match urlPieces env fenv a q st.pidx st.argsIdx with
        | .error e => Except.error e
        | .ok l => joinVals (st.ret ++ runPiece run ++ l)) := by
  intro q
  induction q with
  | nil =>
    intro st done run hp _ hc hl
    simp only [patStr, List.map_nil, urlLoop, urlFinish, urlPieces, List.append_nil]
    cases run with
    | nil =>
      have : st.clen = 0 := by simpa using hl
      simp [this, runPiece]
    | cons x r =>
      have : (st.clen != 0) = true := by simp [hl]
      simp only [this, if_true, runPiece, List.isEmpty_cons, Bool.false_eq_true, if_false]
      simp only [patStr, List.map_nil] at hp
      simp only [sliceVal, hp, hc, hl, slice_mid]
  | cons s q ih =>
    intro st done run hp hn hc hl
    have hnq : NoMarkerLit q := fun d hd => hn d (by simp [hd])
    cases s with
    | lit c =>
      have hcm : (c != marker) = true := by simpa using hn c (by simp)
      simp only [patStr, List.map_cons, symChar, urlLoop, hcm, if_true]
      have hp' : a.patOut = done ++ (run ++ [c]) ++ patStr q := by
        rw [hp]; simp [patStr, symChar]
      have := ih { st with clen := st.clen + 1 } done (run ++ [c]) hp' hnq hc (by simp [hl])
      simp only [patStr] at this
      rw [this]
      simp only [urlPieces]
      cases urlPieces env fenv a q st.pidx st.argsIdx with
      | error e => rfl
      | ok l => simp only [joinVals_run_snoc]
    | tok f =>
      have hmm : (marker != marker) = false := by simp
      simp only [patStr, List.map_cons, symChar, marker_eq_paramToken, urlLoop, hmm, Bool.false_eq_true, if_false]
      have hp' : a.patOut = done ++ run ++ (marker :: patStr q) := by
        rw [hp]; simp [patStr, symChar, marker_eq_paramToken]
      have hnext : nextRun a (flushRun a st).cidx = litRun q := by
        unfold nextRun
        rw [flushRun_cidx, hc, hl, hp']
        have : (done ++ run ++ marker :: patStr q).drop (done.length + run.length + 1) = patStr q := by
          have h1 : done ++ run ++ marker :: patStr q = (done ++ run ++ [marker]) ++ patStr q := by simp
          have h2 : done.length + run.length + 1 = (done ++ run ++ [marker]).length := by simp [Nat.add_assoc]
          rw [h1, h2, List.drop_left]
        rw [this, takeWhile_patStr q hnq]
      simp only [urlMarker, hnext, flushRun_pidx, flushRun_argsIdx, urlPieces]
      cases hpk : pickPiece env fenv a st.pidx st.argsIdx (litRun q) with
      | error e => rfl
      | ok pk =>
        obtain ⟨prt, k⟩ := pk
        simp only
        have hp'' : a.patOut = (done ++ run ++ [marker]) ++ [] ++ patStr q := by
          rw [hp']; simp
        have := ih { flushRun a st with pidx := st.pidx + 1, argsIdx := k, ret := (flushRun a st).ret ++ [prt] }
          (done ++ run ++ [marker]) [] hp'' hnq (by simp [flushRun_cidx, hc, hl, Nat.add_assoc]) (by simp [flushRun_clen])
        simp only [patStr] at this
        rw [this]
        simp only [flushRun_ret a st done run _ hp' hc hl, runPiece, List.isEmpty_nil, if_true, List.append_nil]
        cases urlPieces env fenv a q (st.pidx + 1) k with
        | error e => rfl
        | ok l => simp

/-- `Route.url` is the recursion over the pattern followed by the join -/
theorem urlOf_eq_pieces (env : FilterEnv) (fenv : FormatEnv) (a : UrlArgs) (q : List Sym)
    (hp : a.patOut = patStr q) (hn : NoMarkerLit q) (hne : a.params.isEmpty = false) :
    urlOf env fenv a =
      (match urlPieces env fenv a q 0 0 with
        | .error e => Except.error e
        | .ok l => joinVals l) := by
  unfold urlOf
  simp only [hne, Bool.false_eq_true, if_false]
  have := urlLoop_inv env fenv a q {} [] [] (by simpa using hp) hn rfl rfl
  rw [hp]
  simp only [runPiece, List.isEmpty_nil, if_true, List.append_nil, List.nil_append] at this
  exact this

end Ombott.RouteUrl
