import OmbottModel.Lemmas.TsPropsMachine
/-!
Slicing the heap by thread (C08): the invariant of the interleaved run against a thread's solo run.
This is the only place that needs `HeaderDict._ts` to be a `threading.local`.
-/
namespace Ombott.TsProps
open Py

/-- `HeaderDict._ts` is a `threading.local` (generated constant): every thread has its own view.
Only the slicing by thread (C08) needs this; the slicing by application (C10) does not. -/
theorem hdKey_eq (t : ThreadId) : hdKey t = t := by
  simp [hdKey, Gen.tsHeaderDictThreadLocal]

/-! ### slicing by thread (C08) -/

def ownT : ThreadId → AppId → Oid → Prop := fun u _ o => o.thread = u
def PT (t : ThreadId) : ThreadId → AppId → Prop := fun u _ => u = t
/-- the copies thread `t` made: their `_ts_props` slot is private to `t` -/
def ST (t : ThreadId) : Inst → Prop := fun i => ∃ b n, i = .copy t b n

theorem ThreadOwned.own {h : Heap} (o : ThreadOwned h) : Own ownT h :=
  ⟨o.regs, o.tls, o.hd, fun i k x _ hx => absurd hx (o.slots i k x)⟩

theorem ThreadOwned.boot : ThreadOwned Heap.boot :=
  ⟨fun _ _ _ _ h => by simp [Heap.boot, Heap.empty] at h, fun _ _ _ _ h => by simp [Heap.boot, Heap.empty] at h,
   fun _ _ _ h => by simp [Heap.boot, Heap.empty] at h, fun _ _ _ h => by simp [Heap.boot, Heap.empty] at h⟩

theorem ThreadOwned.empty : ThreadOwned Heap.empty :=
  ⟨fun _ _ _ _ h => by simp [Heap.empty] at h, fun _ _ _ _ h => by simp [Heap.empty] at h,
   fun _ _ _ h => by simp [Heap.empty] at h, fun _ _ _ h => by simp [Heap.empty] at h⟩

/-- plain slots are not written by accesses of thread-local attributes -/
theorem exec_slots_of_attrOk (t : ThreadId) (a : AppId) (acc : Access) (h : Heap) (hok : acc.attrOk) :
    (exec .perInstance t a acc h).1.slots = h.slots := by
  have key : ∀ (us : List Upd) (h : Heap), (∀ u ∈ us, ∀ i k v, u ≠ .slot i k v) →
      (applyAll h us).slots = h.slots := by
    intro us
    induction us with
    | nil => intro h _; rfl
    | cons u us ih =>
      intro h hu
      have := ih (u.apply h) (fun u' hu' => hu u' (by simp [hu']))
      simp only [applyAll, List.foldl_cons] at this ⊢
      rw [this]
      have hne := hu u (by simp)
      cases u <;> first | rfl | exact absurd rfl (hne _ _ _)
  apply key
  intro u hu i k v
  cases acc with
  | fget o k' dst =>
    simp only [Access.attrOk] at hok
    simp only [plan, Obj.inst_cls, hok, if_true] at hu
    split at hu
    · split at hu <;> simp at hu; subst hu; simp
    · simp at hu
  | fset o k' src =>
    simp only [Access.attrOk] at hok
    simp only [plan, Obj.inst_cls, hok, if_true] at hu
    split at hu
    · simp at hu
    · split at hu <;> simp at hu; subst hu; simp
  | fdel o k' =>
    simp only [Access.attrOk] at hok
    simp only [plan, Obj.inst_cls, hok, if_true] at hu
    split at hu
    · split at hu <;> simp at hu; subst hu; simp
    · simp at hu
  | initHead o =>
    simp only [plan] at hu
    split at hu <;> simp at hu
    subst hu; simp
  | initNone o k' =>
    simp only [plan] at hu
    split at hu <;> simp at hu
    subst hu; simp
  | hdGet dst =>
    simp only [plan] at hu
    split at hu <;> simp at hu
    subst hu; simp
  | hdSet src =>
    simp only [plan] at hu
    split at hu <;> simp at hu
    subst hu; simp
  | dNew dst d =>
    simp only [plan] at hu
    simp at hu
    rcases hu with rfl | rfl | rfl <;> simp
  | dOp r op =>
    simp only [plan] at hu
    split at hu <;> simp at hu
    subst hu; simp
  | dUpdate r src =>
    simp only [plan] at hu
    split at hu <;> simp at hu
    subst hu; simp
  | dCopy r dst =>
    simp only [plan] at hu
    split at hu <;> simp at hu
    rcases hu with rfl | rfl | rfl <;> simp
  | newCopy =>
    simp only [plan] at hu
    simp at hu
    subst hu; simp
  | errGet e k' =>
    simp only [plan] at hu
    split at hu <;> simp at hu
  | errSet e k' x => exact absurd hok id
  | tmplLoad =>
    simp only [plan] at hu
    simp at hu
    subst hu; simp

theorem exec_threadOwned (t : ThreadId) (a : AppId) (acc : Access) (h : Heap) (hok : acc.attrOk)
    (o : ThreadOwned h) : ThreadOwned (exec .perInstance t a acc h).1 := by
  have ow := exec_own (R := ownT) t a acc o.own (fun _ => rfl)
    (fun _ => by simp only [ownT, hdKey_eq]) (Or.inl hok)
  refine ⟨ow.regs, ow.tls, ow.hd, ?_⟩
  rw [exec_slots_of_attrOk t a acc h hok]
  exact o.slots

theorem exec_ready (v : Variant) (t : ThreadId) (a b : AppId) (acc : Access) (h : Heap) (hr : Ready a h) :
    Ready a (exec v t b acc h).1 :=
  ⟨exec_hasStore_mono v t b acc h _ hr.1, exec_hasStore_mono v t b acc h _ hr.2⟩

/-- the invariant of the interleaved run (machine `m`) against the solo run of thread `t`
(heap `hs`) -/
structure Inv (a : AppId) (t : ThreadId) (m : Machine) (hs : Heap) : Prop where
  agree : Agree (PT t) (ST t) hs m.heap
  owned : ThreadOwned m.heap
  owned' : ThreadOwned hs
  ready : Ready a m.heap
  ready' : Ready a hs
  serves : ∀ u, (m.threads u).prog.Serves a

theorem hasStore_eq_of_ready {a : AppId} {t : ThreadId} {h hs : Heap} (g : Agree (PT t) (ST t) hs h)
    (hr : Ready a h) (hr' : Ready a hs) (o : Obj) :
    h.hasStore (o.inst t a) = hs.hasStore (o.inst t a) := by
  cases o with
  | request => simp only [Obj.inst]; rw [hr.1, hr'.1]
  | response => simp only [Obj.inst]; rw [hr.2, hr'.2]
  | copy n => exact (g.hasStore _ ⟨a, n, rfl⟩).symm

theorem run_thread_eq_solo (a : AppId) (t : ThreadId) (sched : List ThreadId) (m : Machine) (hs : Heap)
    (inv : Inv a t m hs) :
    (run .perInstance m sched).threads t =
      (solo .perInstance t hs (m.threads t) (sched.count t)).2 := by
  induction sched generalizing m hs with
  | nil => simp [run, solo]
  | cons u s ih =>
    by_cases hu : u = t
    · subst hu
      simp only [run, List.count_cons_self, solo]
      have hsv := inv.serves u
      cases hp : (m.threads u).prog with
      | done =>
        simp only [stepThread, hp]
        have : upd m.threads u (m.threads u) = m.threads := by
          funext x; simp only [upd]; split <;> simp_all
        rw [this]
        simpa using ih ⟨m.heap, m.threads, m.log⟩ hs inv
      | emit b o k =>
        simp only [stepThread, hp]
        rw [hp] at hsv
        cases hsv with
        | emit _ _ hk =>
          have inv' : Inv a u ⟨m.heap, upd m.threads u ⟨k, (m.threads u).trace, (m.threads u).out ++ [(a, o)]⟩,
              m.log ++ (none : Option Event).toList⟩ hs :=
            ⟨inv.agree, inv.owned, inv.owned', inv.ready, inv.ready', fun w => by
              simp only [upd]; split
              · exact hk
              · exact inv.serves w⟩
          have := ih _ hs inv'
          simpa [upd] using this
      | step b acc k =>
        simp only [stepThread, hp]
        rw [hp] at hsv
        cases hsv with
        | step _ _ hok hk =>
          have hag := exec_agree (P := PT u) (S := ST u) u a acc inv.agree inv.owned'.own rfl
            (by simp only [PT, hdKey_eq]) (fun o ho => ho) (hasStore_eq_of_ready inv.agree inv.ready inv.ready') (Or.inl hok)
          have inv' : Inv a u ⟨(exec .perInstance u a acc m.heap).1,
              upd m.threads u ⟨k (exec .perInstance u a acc m.heap).2,
                (m.threads u).trace ++ [(exec .perInstance u a acc m.heap).2], (m.threads u).out⟩,
              m.log ++ (some (⟨u, a, acc, (exec .perInstance u a acc m.heap).2⟩ : Event)).toList⟩
              (exec .perInstance u a acc hs).1 :=
            ⟨hag.2, exec_threadOwned u a acc _ hok inv.owned, exec_threadOwned u a acc _ hok inv.owned',
             exec_ready _ u a a acc _ inv.ready, exec_ready _ u a a acc _ inv.ready', fun w => by
              simp only [upd]; split
              · exact hk _
              · exact inv.serves w⟩
          have := ih _ _ inv'
          simp only [upd, if_true] at this
          rw [this, hag.1]
    · have hcount : (u :: s).count t = s.count t := by
        simp [List.count_cons, hu]
      simp only [run, hcount]
      have hsv := inv.serves u
      have hthr : ∀ th, upd m.threads u th t = m.threads t := fun th => by
        simp only [upd]; split
        · rename_i h; exact absurd h.symm hu
        · rfl
      cases hp : (m.threads u).prog with
      | done =>
        simp only [stepThread, hp]
        have := ih ⟨m.heap, upd m.threads u (m.threads u), m.log ++ (none : Option Event).toList⟩ hs
          ⟨inv.agree, inv.owned, inv.owned', inv.ready, inv.ready', fun w => by
            simp only [upd]; split
            · subst_vars; exact inv.serves _
            · exact inv.serves w⟩
        simpa [hthr] using this
      | emit b o k =>
        simp only [stepThread, hp]
        rw [hp] at hsv
        cases hsv with
        | emit _ _ hk =>
          have := ih ⟨m.heap, upd m.threads u ⟨k, (m.threads u).trace, (m.threads u).out ++ [(a, o)]⟩,
              m.log ++ (none : Option Event).toList⟩ hs
            ⟨inv.agree, inv.owned, inv.owned', inv.ready, inv.ready', fun w => by
              simp only [upd]; split
              · exact hk
              · exact inv.serves w⟩
          simpa [hthr] using this
      | step b acc k =>
        simp only [stepThread, hp]
        rw [hp] at hsv
        cases hsv with
        | step _ _ hok hk =>
          have hfr := exec_frame (P := PT t) (S := ST t) u a acc inv.owned.own hu
            (by simp only [PT, hdKey_eq]; exact hu)
            (fun o => by
              intro ⟨b', n, hb⟩
              cases o <;> simp [Obj.inst] at hb
              exact hu hb.1)
            (fun o ho => by simp only [PT]; rw [ho]; exact hu) (Access.sharedOk_of_attrOk hok)
          have := ih ⟨(exec .perInstance u a acc m.heap).1,
              upd m.threads u ⟨k (exec .perInstance u a acc m.heap).2,
                (m.threads u).trace ++ [(exec .perInstance u a acc m.heap).2], (m.threads u).out⟩,
              m.log ++ (some (⟨u, a, acc, (exec .perInstance u a acc m.heap).2⟩ : Event)).toList⟩ hs
            ⟨inv.agree.trans hfr, exec_threadOwned u a acc _ hok inv.owned, inv.owned',
             exec_ready _ u a a acc _ inv.ready, inv.ready', fun w => by
              simp only [upd]; split
              · exact hk _
              · exact inv.serves w⟩
          simpa [hthr] using this

end Ombott.TsProps
