import OmbottModel.Lemmas.MultipartEatData
import OmbottModel.Lemmas.MultipartRun
/-!
The simulation between the implementation model (`parse`, chunk by chunk) and the reference
machine (`runFrom`, byte by byte).
-/
namespace Ombott.Multipart
open Py Spec

/-- the token/boundary pair `BodyMarkuper.__init__` builds from an accepted boundary -/
def TokOk (tok bnd : Bytes) : Prop :=
  NB tok ∧ ∃ b, bnd = HYPHEN :: HYPHEN :: b ∧ tok = CR :: LF :: bnd

theorem TokOk.len {tok bnd : Bytes} (h : TokOk tok bnd) : 4 ≤ tok.length := by
  obtain ⟨_, b, rfl, rfl⟩ := h; simp

theorem TokOk.drop2 {tok bnd : Bytes} (h : TokOk tok bnd) : tok.drop 2 = bnd := by
  obtain ⟨_, b, rfl, rfl⟩ := h; rfl

/-- what the loop variables must be in each phase of the reference machine -/
def PhaseOk (tok : Bytes) (mk : Markuper) (cur : CurMeth) (sns : Nat) (r : RSt) : Prop :=
  match r.phase with
  | .start m => cur = .startBoundary ∧ sns = 0 ∧ mk.trest = trestOf tok m ∧ m < tok.length ∧
      (r.pos = 0 → m = 0) ∧ (0 < r.pos → 1 ≤ m) ∧ StartInv m r.pos ∧ mk.eater = {}
  | .data m => cur = .data ∧ mk.trest = trestOf tok m ∧ m < tok.length ∧ mk.eater = {}
  | .stopped => False
  | .failed _ => False
  | ph => cur = .headers ∧ HdrPhase ph ∧ mk.eater = eaterOf ph ∧ mk.trest = none ∧
      (∀ k, ph = .headers k → 0 < k → sns = 0)

theorem PhaseOk.hdr {tok : Bytes} {mk : Markuper} {cur : CurMeth} {sns : Nat} {r : RSt}
    (hph : HdrPhase r.phase) (h : cur = .headers ∧ mk.eater = eaterOf r.phase ∧ mk.trest = none ∧
      (∀ k, r.phase = .headers k → 0 < k → sns = 0)) : PhaseOk tok mk cur sns r := by
  unfold PhaseOk
  obtain ⟨h1, h2, h3, h4⟩ := h
  match hp : r.phase, hph with
  | .afterDelim, _ => rw [hp] at h2 h4; exact ⟨h1, trivial, h2, h3, h4⟩
  | .afterCR, _ => rw [hp] at h2 h4; exact ⟨h1, trivial, h2, h3, h4⟩
  | .afterHyphen, _ => rw [hp] at h2 h4; exact ⟨h1, trivial, h2, h3, h4⟩
  | .headers k, hk => rw [hp] at h2 h4; exact ⟨h1, hk, h2, h3, h4⟩

theorem PhaseOk.hdr_inv {tok : Bytes} {mk : Markuper} {cur : CurMeth} {sns : Nat} {r : RSt}
    (hph : HdrPhase r.phase) (h : PhaseOk tok mk cur sns r) :
    cur = .headers ∧ mk.eater = eaterOf r.phase ∧ mk.trest = none ∧
      (∀ k, r.phase = .headers k → 0 < k → sns = 0) := by
  unfold PhaseOk at h
  match hp : r.phase, hph with
  | .afterDelim, _ => rw [hp] at h; exact ⟨h.1, h.2.2.1, h.2.2.2.1, h.2.2.2.2⟩
  | .afterCR, _ => rw [hp] at h; exact ⟨h.1, h.2.2.1, h.2.2.2.1, h.2.2.2.2⟩
  | .afterHyphen, _ => rw [hp] at h; exact ⟨h.1, h.2.2.1, h.2.2.2.1, h.2.2.2.2⟩
  | .headers k, _ => rw [hp] at h; exact ⟨h.1, h.2.2.1, h.2.2.2.1, h.2.2.2.2⟩

structure Live (tok bnd : Bytes) (mk : Markuper) (cur : CurMeth) (ass : Int) (sns : Nat) (r : RSt) : Prop where
  token : mk.token = tok
  boundary : mk.boundary = bnd
  notStopped : mk.stopped = false
  pos : (r.pos : Int) = mk.abspos + sns
  sec : r.secStart = ass
  phase : PhaseOk tok mk cur sns r

/-- the `MultipartMarkup` object `s` corresponds to the reference state `r` -/
def Sim (tok bnd : Bytes) (s : St) (r : RSt) : Prop :=
  s.markups = r.markups ∧
  match r.phase with
  | .stopped => s.markuper.stopped = true ∧ s.error = none
  | .failed e => s.error = some e ∧ s.markuper.stopped = false
  | _ => s.error = none ∧ Live tok bnd s.markuper s.markuper.curMeth s.markuper.absStartSection 0 r

theorem Sim.of_live {tok bnd : Bytes} {s : St} {r : RSt} (hm : s.markups = r.markups) (he : s.error = none)
    (hl : Live tok bnd s.markuper s.markuper.curMeth s.markuper.absStartSection 0 r) : Sim tok bnd s r := by
  refine ⟨hm, ?_⟩
  have hp := hl.phase
  unfold PhaseOk at hp
  cases hph : r.phase with
  | stopped => rw [hph] at hp; exact hp.elim
  | failed e => rw [hph] at hp; exact hp.elim
  | start m => exact ⟨he, hl⟩
  | data m => exact ⟨he, hl⟩
  | afterDelim => exact ⟨he, hl⟩
  | afterCR => exact ⟨he, hl⟩
  | afterHyphen => exact ⟨he, hl⟩
  | headers k => exact ⟨he, hl⟩

theorem Sim.obs {tok bnd : Bytes} {s : St} {r : RSt} (h : Sim tok bnd s r) : s.obs = r.obs := by
  obtain ⟨hm, hp⟩ := h
  unfold St.obs RSt.obs
  cases hph : r.phase with
  | stopped => rw [hph] at hp; simp [hm, hp.1, hp.2]
  | failed e => rw [hph] at hp; simp [hm, hp.1, hp.2]
  | start m => rw [hph] at hp; simp [hm, hp.1, hp.2.notStopped]
  | data m => rw [hph] at hp; simp [hm, hp.1, hp.2.notStopped]
  | afterDelim => rw [hph] at hp; simp [hm, hp.1, hp.2.notStopped]
  | afterCR => rw [hph] at hp; simp [hm, hp.1, hp.2.notStopped]
  | afterHyphen => rw [hph] at hp; simp [hm, hp.1, hp.2.notStopped]
  | headers k => rw [hph] at hp; simp [hm, hp.1, hp.2.notStopped]

/-- the object after `iter_markup(chunk)` was consumed by `_parse` -/
def stOf (base : List Markup) (o : IterOut) : St :=
  { markuper := o.mkr, markups := base ++ o.out, error := o.exc }

/-! ### one round of the `iter_markup` loop -/

theorem iterLoop_none {chunk : Bytes} {fuel : Nat} {mk mk' : Markuper} {cur : CurMeth} {ass : Int} {sns : Nat}
    {acc : List Markup} (h : mk.call cur chunk sns = .ok (mk', none)) :
    iterLoop chunk (fuel + 1) mk cur ass sns acc =
      ⟨{ mk' with abspos := mk'.abspos + chunk.length, curMeth := cur, absStartSection := ass }, acc, none⟩ := by
  simp only [iterLoop, h]

theorem iterLoop_stop {chunk : Bytes} {fuel : Nat} {mk : Markuper} {cur : CurMeth} {ass : Int} {sns : Nat}
    {acc : List Markup} (h : mk.call cur chunk sns = .error .stopMarkup) :
    iterLoop chunk (fuel + 1) mk cur ass sns acc = ⟨{ mk with stopped := true }, acc, none⟩ := by
  simp only [iterLoop, h]

theorem iterLoop_headers {chunk : Bytes} {fuel : Nat} {mk mk' : Markuper} {ass : Int} {sns : Nat}
    {acc : List Markup} {endSec : Int} (h : mk.call .headers chunk sns = .ok (mk', some endSec)) :
    iterLoop chunk (fuel + 1) mk .headers ass sns acc =
      iterLoop chunk fuel mk' .data (mk'.abspos + (endSec + 4)) (endSec + 4).toNat
        (acc ++ [⟨.headers, ass, mk'.abspos + endSec⟩]) := by
  simp only [iterLoop, h]

theorem iterLoop_data {chunk : Bytes} {fuel : Nat} {mk mk' : Markuper} {ass : Int} {sns : Nat}
    {acc : List Markup} {endSec : Int} (h : mk.call .data chunk sns = .ok (mk', some endSec)) :
    iterLoop chunk (fuel + 1) mk .data ass sns acc =
      iterLoop chunk fuel mk' .headers (mk'.abspos + (endSec + (mk'.token.length : Int)) + 2)
        (endSec + (mk'.token.length : Int)).toNat (acc ++ [⟨.data, ass, mk'.abspos + endSec⟩]) := by
  simp only [iterLoop, h]

theorem iterLoop_start {chunk : Bytes} {fuel : Nat} {mk mk' : Markuper} {ass : Int} {sns : Nat}
    {acc : List Markup} {endSec : Int} (h : mk.call .startBoundary chunk sns = .ok (mk', some endSec))
    (hok : 0 ≤ mk'.abspos + endSec ∨ mk'.abspos + endSec = -2) :
    iterLoop chunk (fuel + 1) mk .startBoundary ass sns acc =
      iterLoop chunk fuel mk' .headers (mk'.abspos + (endSec + (mk'.token.length : Int)) + 2)
        (endSec + (mk'.token.length : Int)).toNat
        (acc ++ [⟨.data, ass, max 0 (mk'.abspos + endSec)⟩]) := by
  simp only [iterLoop, h]
  have h1 : ¬ (mk'.abspos + endSec < 0 ∧ mk'.abspos + endSec ≠ -2) := by omega
  rw [if_neg h1]
  have hv : mk'.abspos + (if mk'.abspos + endSec < 0 then -mk'.abspos else endSec) =
      max 0 (mk'.abspos + endSec) := by split <;> omega
  rw [hv]

theorem iterLoop_error {chunk : Bytes} {fuel : Nat} {mk : Markuper} {cur : CurMeth} {ass : Int} {sns : Nat}
    {acc : List Markup} {e : Err} (h : mk.call cur chunk sns = .error e) (hne : e ≠ .stopMarkup) :
    iterLoop chunk (fuel + 1) mk cur ass sns acc = ⟨mk, acc, some e⟩ := by
  simp only [iterLoop, h]

theorem PhaseOk.congr {tok : Bytes} {mk1 mk2 : Markuper} {cur : CurMeth} {sns : Nat} {r : RSt}
    (h1 : mk1.trest = mk2.trest) (h2 : mk1.eater = mk2.eater) (h : PhaseOk tok mk1 cur sns r) :
    PhaseOk tok mk2 cur sns r := by
  unfold PhaseOk at *
  rw [← h1, ← h2]; exact h

/-- the state left when a method answers `None` (the chunk is used up) -/
theorem sim_final {tok bnd : Bytes} (base acc : List Markup) (mk' : Markuper) (cur : CurMeth) (ass : Int)
    (chunk : Bytes) (r' : RSt) (htok : mk'.token = tok) (hbnd : mk'.boundary = bnd)
    (hns : mk'.stopped = false) (hpos : (r'.pos : Int) = mk'.abspos + chunk.length)
    (hsec : r'.secStart = ass) (hph : PhaseOk tok mk' cur 0 r') (hmk : r'.markups = base ++ acc) :
    Sim tok bnd (stOf base
      ⟨{ mk' with abspos := mk'.abspos + chunk.length, curMeth := cur, absStartSection := ass }, acc, none⟩)
      r' := by
  apply Sim.of_live
  · exact hmk.symm
  · rfl
  · exact ⟨htok, hbnd, hns, by simp only [stOf]; rw [hpos]; simp, hsec, hph.congr rfl rfl⟩

theorem call_data {tok : Bytes} (hnb : NB tok) (mk : Markuper) (chunk : Bytes) (sns m : Nat)
    (htok : mk.token = tok) (htr : mk.trest = trestOf tok m) (hm : m < tok.length) :
    mk.call .data chunk sns =
      .ok ({ mk with trest := (renderScan tok sns (scan tok m (chunk.drop sns))).trest },
        (renderScan tok sns (scan tok m (chunk.drop sns))).res) := by
  simp only [Markuper.call, Markuper.eatDataM, htok, htr, eatData_refines hnb chunk sns m hm]

theorem call_headers (mk : Markuper) (chunk : Bytes) (sns : Nat) :
    mk.call .headers chunk sns =
      match eat mk.eater chunk sns with
      | .error e => .error e
      | .ok (e', r) => .ok ({ mk with eater := e' }, r) := rfl

/-- the induction hypothesis of the loop theorem, for a given number of rounds left -/
def LoopGoal (tok bnd chunk : Bytes) (base : List Markup) (fuel : Nat) : Prop :=
  ∀ (mk : Markuper) (cur : CurMeth) (ass : Int) (sns : Nat) (acc : List Markup) (r r' : RSt),
    Live tok bnd mk cur ass sns r → r.markups = base ++ acc → sns ≤ chunk.length →
    chunk.length - sns < fuel → runFrom tok r (chunk.drop sns) = some r' →
    Sim tok bnd (stOf base (iterLoop chunk fuel mk cur ass sns acc)) r'

theorem round_data {tok bnd : Bytes} (htk : TokOk tok bnd) (chunk : Bytes) (base : List Markup) (fuel : Nat)
    (ih : LoopGoal tok bnd chunk base fuel)
    (mk : Markuper) (cur : CurMeth) (ass : Int) (sns : Nat) (acc : List Markup)
    (m pos : Nat) (ss : Int) (mks : List Markup) (r' : RSt)
    (hl : Live tok bnd mk cur ass sns ⟨.data m, pos, ss, mks⟩) (hmk : mks = base ++ acc)
    (hsns : sns ≤ chunk.length) (hfuel : chunk.length - sns < fuel + 1)
    (hrun : runFrom tok ⟨.data m, pos, ss, mks⟩ (chunk.drop sns) = some r') :
    Sim tok bnd (stOf base (iterLoop chunk (fuel + 1) mk cur ass sns acc)) r' := by
  have hnb := htk.1
  have htl := htk.len
  obtain ⟨htok, hbnd, hns, hpos, hsec, hph⟩ := hl
  simp only [PhaseOk] at hph
  obtain ⟨hcur, htr, hm, hea⟩ := hph
  subst hcur
  have hcall := call_data hnb mk chunk sns m htok htr hm
  rw [runFrom_data] at hrun
  cases hsc : scan tok m (chunk.drop sns) with
  | more m' =>
    rw [hsc] at hrun hcall
    simp only [renderScan] at hcall
    simp only [Option.some.injEq] at hrun
    subst hrun
    rw [iterLoop_none hcall]
    apply sim_final
    · exact htok
    · exact hbnd
    · exact hns
    · simp only [List.length_drop]; simp only at hpos ⊢; omega
    · exact hsec
    · unfold PhaseOk; exact ⟨rfl, rfl, scan_more_lt tok (by omega) _ _ _ hm hsc, hea⟩
    · exact hmk
  | found j =>
    rw [hsc] at hrun hcall
    simp only [renderScan] at hcall hrun
    obtain ⟨hj1, hj2⟩ := scan_found_bounds tok _ _ _ hsc
    rw [List.length_drop] at hj2
    rw [iterLoop_data hcall]
    have e1 : (((sns + j : Nat) : Int) - (tok.length : Int) + (tok.length : Int)) = ((sns + j : Nat) : Int) := by omega
    simp only [htok, e1, Int.toNat_natCast]
    rw [List.drop_drop] at hrun
    simp only at hpos
    apply ih _ _ _ _ _ _ r' _ _ (by omega) (by omega) hrun
    · refine ⟨by first | rfl | exact htok, hbnd, hns, by simp only; omega, by simp only; omega, ?_⟩
      unfold PhaseOk
      exact ⟨rfl, trivial, hea, rfl, fun k hk => by cases hk⟩
    · have hx : (⟨.data, ss, ((pos + j : Nat) : Int) - tok.length⟩ : Markup) =
          ⟨.data, ass, mk.abspos + (((sns + j : Nat) : Int) - tok.length)⟩ := by
        rw [show ss = ass from hsec]; congr 1; omega
      simp only [hmk, List.append_assoc, hx]

theorem round_hdr {tok bnd : Bytes} (htk : TokOk tok bnd) (chunk : Bytes) (base : List Markup) (fuel : Nat)
    (ih : LoopGoal tok bnd chunk base fuel)
    (mk : Markuper) (cur : CurMeth) (ass : Int) (sns : Nat) (acc : List Markup)
    (ph : Phase) (pos : Nat) (ss : Int) (mks : List Markup) (r' : RSt) (hph : HdrPhase ph)
    (hl : Live tok bnd mk cur ass sns ⟨ph, pos, ss, mks⟩) (hmk : mks = base ++ acc)
    (hsns : sns ≤ chunk.length) (hfuel : chunk.length - sns < fuel + 1)
    (hrun : runFrom tok ⟨ph, pos, ss, mks⟩ (chunk.drop sns) = some r') :
    Sim tok bnd (stOf base (iterLoop chunk (fuel + 1) mk cur ass sns acc)) r' := by
  have htl := htk.len
  obtain ⟨htok, hbnd, hns, hpos, hsec, hpk⟩ := hl
  obtain ⟨hcur, hea, htr, hk0⟩ := hpk.hdr_inv hph
  subst hcur
  have heo := eat_refines ph hph chunk sns (fun k hk hk' => hk0 k hk hk')
  rw [runFrom_hdr tok _ _ _ _ _ hph] at hrun
  have hcall := call_headers mk chunk sns
  rw [hea] at hcall
  simp only at hpos hsec
  cases hrh : runH ph (chunk.drop sns) with
  | undef => rw [hrh] at hrun; cases hrun
  | stop =>
    rw [hrh] at hrun heo
    change eat _ _ _ = _ at heo
    rw [heo] at hcall
    simp only [Option.some.injEq] at hrun
    subst hrun
    rw [iterLoop_stop hcall]
    exact ⟨by simp only [stOf, hmk], rfl, rfl⟩
  | done j =>
    rw [hrh] at hrun heo
    change eat _ _ _ = _ at heo
    rw [heo] at hcall
    simp only at hcall hrun
    obtain ⟨hj1, hj2⟩ := runH_done_bounds _ _ _ hrh
    rw [List.length_drop] at hj2
    rw [iterLoop_headers hcall]
    have e1 : (((sns + j : Nat) : Int) - 4 + 4) = ((sns + j : Nat) : Int) := by omega
    simp only [e1, Int.toNat_natCast]
    rw [List.drop_drop] at hrun
    apply ih _ _ _ _ _ _ r' _ _ (by omega) (by omega) hrun
    · refine ⟨htok, hbnd, hns, by simp only; omega, by simp only; omega, ?_⟩
      unfold PhaseOk
      exact ⟨rfl, by rw [show ({ mk with eater := eaterOf .afterDelim } : Markuper).trest = mk.trest from rfl, htr]; rfl,
        by omega, rfl⟩
    · have hx : (⟨.headers, ss, ((pos + j : Nat) : Int) - 4⟩ : Markup) =
          ⟨.headers, ass, mk.abspos + (((sns + j : Nat) : Int) - 4)⟩ := by
        rw [show ss = ass from hsec]; congr 1; omega
      simp only [hmk, List.append_assoc, hx]
  | more ph' =>
    rw [hrh] at hrun heo
    change eat _ _ _ = _ at heo
    rw [heo] at hcall
    simp only [Option.some.injEq] at hrun
    subst hrun
    have hph' := runH_more_hdr _ _ _ hph hrh
    rw [iterLoop_none hcall]
    apply sim_final
    · exact htok
    · exact hbnd
    · exact hns
    · simp only [List.length_drop]; omega
    · exact hsec
    · exact PhaseOk.hdr hph' ⟨rfl, rfl, htr, fun _ _ _ => rfl⟩
    · exact hmk

/-- the two ways a start-phase round can go, in terms of the scan of the whole chunk from `m0` -/
def StartOutcome (tok : Bytes) (m0 pos : Nat) (ss : Int) (mks : List Markup) (chunk : Bytes) (r' : RSt) : Prop :=
  (∃ j, scan tok m0 chunk = .found j ∧ (tok.length ≤ pos + j ∨ tok.length = pos + j + 2) ∧
    runFrom tok ⟨.afterDelim, pos + j, ((pos + j : Nat) : Int) + 2,
      mks ++ [⟨.data, ss, max 0 (((pos + j : Nat) : Int) - tok.length)⟩]⟩ (chunk.drop j) = some r') ∨
  (∃ m', scan tok m0 chunk = .more m' ∧ 1 ≤ m' ∧ StartInv m' (pos + chunk.length) ∧
    r' = ⟨.start m', pos + chunk.length, ss, mks⟩)

theorem start_tail {tok bnd : Bytes} (htk : TokOk tok bnd) (chunk : Bytes) (base : List Markup) (fuel : Nat)
    (ih : LoopGoal tok bnd chunk base fuel)
    (mk : Markuper) (ass : Int) (acc : List Markup) (m0 pos : Nat) (ss : Int) (mks : List Markup) (r' : RSt)
    (htok : mk.token = tok) (hbnd : mk.boundary = bnd) (hns : mk.stopped = false)
    (hpos : (pos : Int) = mk.abspos) (hsec : ss = ass) (hea : mk.eater = {})
    (hmk : mks = base ++ acc) (hfuel : chunk.length < fuel + 1) (hm0 : m0 < tok.length)
    (hP : 0 < pos + chunk.length)
    (hcall : mk.call .startBoundary chunk 0 =
      .ok ({ mk with trest := (renderScan tok 0 (scan tok m0 chunk)).trest },
        (renderScan tok 0 (scan tok m0 chunk)).res))
    (hout : StartOutcome tok m0 pos ss mks chunk r') :
    Sim tok bnd (stOf base (iterLoop chunk (fuel + 1) mk .startBoundary ass 0 acc)) r' := by
  have htl := htk.len
  rcases hout with ⟨j, hsc, hlen, hrun⟩ | ⟨m', hsc, hm1, hinv, hr⟩
  · rw [hsc] at hcall
    simp only [renderScan] at hcall
    obtain ⟨hj1, hj2⟩ := scan_found_bounds tok _ _ _ hsc
    rw [iterLoop_start hcall (by simp only; omega)]
    have e1 : (((0 + j : Nat) : Int) - (tok.length : Int) + (tok.length : Int)) = ((j : Nat) : Int) := by omega
    simp only [htok, e1, Int.toNat_natCast]
    apply ih _ _ _ _ _ _ r' _ _ (by omega) (by omega) hrun
    · refine ⟨by first | rfl | exact htok, hbnd, hns, by simp only; omega, by simp only; omega, ?_⟩
      unfold PhaseOk
      exact ⟨rfl, trivial, hea, rfl, fun k hk => by cases hk⟩
    · have hx : (⟨.data, ss, max 0 (((pos + j : Nat) : Int) - tok.length)⟩ : Markup) =
          ⟨.data, ass, max 0 (mk.abspos + (((0 + j : Nat) : Int) - tok.length))⟩ := by
        rw [hsec]; congr 2; omega
      simp only [hmk, List.append_assoc, hx]
  · rw [hsc] at hcall
    simp only [renderScan] at hcall
    subst hr
    rw [iterLoop_none hcall]
    apply sim_final
    · exact htok
    · exact hbnd
    · exact hns
    · simp only; omega
    · exact hsec
    · unfold PhaseOk
      refine ⟨rfl, rfl, rfl, scan_more_lt tok (by omega) _ _ _ hm0 hsc, ?_, fun _ => hm1, hinv, hea⟩
      intro h0
      simp only at h0
      omega
    · exact hmk

theorem call_start_eatData {tok : Bytes} (hnb : NB tok) (mk : Markuper) (chunk : Bytes) (m : Nat)
    (htok : mk.token = tok) (htr : mk.trest = trestOf tok m) (hm : m < tok.length)
    (h : mk.eatStartBoundary chunk 0 = mk.eatDataM chunk 0) :
    mk.call .startBoundary chunk 0 =
      .ok ({ mk with trest := (renderScan tok 0 (scan tok m chunk)).trest },
        (renderScan tok 0 (scan tok m chunk)).res) := by
  have := call_data hnb mk chunk 0 m htok htr hm
  simp only [List.drop_zero] at this
  rw [← this]
  exact h

theorem scan_first {tok : Bytes} (m0 m1 : Nat) (c : UInt8) (t : Bytes) (hs : stepM tok m0 c = m1)
    (hne : m1 ≠ tok.length) :
    scan tok m0 (c :: t) = (scan tok m1 t).shift 1 := by
  rw [scan_cons, hs, if_neg hne]
  cases scan tok m1 t with
  | found j => simp [ScanRes.shift]; omega
  | more m' => rfl

/-- the outcome for the whole chunk from the outcome after its first byte -/
theorem startOutcome_first {tok : Bytes} (htl : 2 ≤ tok.length) (m0 m1 : Nat) (c : UInt8) (t : Bytes)
    (ss : Int) (mks : List Markup) (r' : RSt)
    (hs : stepM tok m0 c = m1) (hne : m1 ≠ tok.length) (hm1 : 1 ≤ m1) (hinv : StartInv m1 1)
    (hrun : runFrom tok ⟨.start m1, 1, ss, mks⟩ t = some r') :
    StartOutcome tok m0 0 ss mks (c :: t) r' := by
  rcases runFrom_start tok htl t m1 1 ss mks r' (by omega) hm1 hinv hrun with
    ⟨j, hj, hlen, hr⟩ | ⟨m', hm', h1, hi, hr⟩
  · left
    refine ⟨j + 1, by rw [scan_first m0 m1 c t hs hne, hj]; simp [ScanRes.shift]; omega, by omega, ?_⟩
    simp only [List.drop_succ_cons]
    rw [← hr]
    congr 2 <;> (first | omega | (congr 3; omega) | (congr 4; omega))
  · right
    refine ⟨m', by rw [scan_first m0 m1 c t hs hne, hm']; rfl, h1, ?_, ?_⟩
    · simp only [List.length_cons]; rw [show 0 + (t.length + 1) = 1 + t.length by omega]; exact hi
    · rw [hr]; simp only [List.length_cons]; congr 1; omega

theorem round_start {tok bnd : Bytes} (htk : TokOk tok bnd) (chunk : Bytes) (base : List Markup) (fuel : Nat)
    (ih : LoopGoal tok bnd chunk base fuel)
    (mk : Markuper) (cur : CurMeth) (ass : Int) (sns : Nat) (acc : List Markup)
    (m pos : Nat) (ss : Int) (mks : List Markup) (r' : RSt)
    (hl : Live tok bnd mk cur ass sns ⟨.start m, pos, ss, mks⟩) (hmk : mks = base ++ acc)
    (hfuel : chunk.length - sns < fuel + 1)
    (hrun : runFrom tok ⟨.start m, pos, ss, mks⟩ (chunk.drop sns) = some r') :
    Sim tok bnd (stOf base (iterLoop chunk (fuel + 1) mk cur ass sns acc)) r' := by
  have hnb := htk.1
  have htl := htk.len
  obtain ⟨htok, hbnd, hns, hpos, hsec, hph⟩ := hl
  unfold PhaseOk at hph
  obtain ⟨hcur, hs0, htr, hm, hp0, hp1, hinv, hea⟩ := hph
  subst hcur
  subst hs0
  simp only [List.drop_zero, Nat.sub_zero] at hrun hfuel
  simp only [Int.natCast_zero, Int.add_zero] at hpos hsec
  by_cases hpz : pos = 0
  · -- the very first byte of the body
    have hm0 : m = 0 := hp0 hpz
    subst hm0; subst hpz
    have htr' : mk.trest = none := htr
    match chunk, hrun, hfuel with
    | [], hrun, _ =>
      simp only [runFrom_nil, Option.some.injEq] at hrun
      subst hrun
      have hcall : mk.call .startBoundary [] 0 = .ok (mk, none) := by
        simp [Markuper.call, Markuper.eatStartBoundary, htr']
      rw [iterLoop_none hcall]
      apply sim_final
      · exact htok
      · exact hbnd
      · exact hns
      · simp only [List.length_nil]; omega
      · exact hsec
      · unfold PhaseOk
        exact ⟨rfl, rfl, htr, hm, fun _ => rfl, fun h => by simp at h, hinv, hea⟩
      · exact hmk
    | c :: t, hrun, hfuel =>
      rw [runFrom_cons] at hrun
      by_cases hc : c = CR
      · subst hc
        simp only [step, if_true, Option.bind_some] at hrun
        have hs : stepM tok 0 CR = 1 := stepM_match (nb_get_zero hnb)
        apply start_tail htk (CR :: t) base fuel ih mk ass acc 0 0 ss mks r' htok hbnd hns hpos hsec hea hmk
          hfuel (by omega) (by simp)
        · apply call_start_eatData hnb mk (CR :: t) 0 htok htr (by omega)
          simp [Markuper.eatStartBoundary, htr']
        · exact startOutcome_first (by omega) 0 1 CR t ss mks r' hs (by omega) (by omega) (Or.inl (by omega)) hrun
      · by_cases hc' : c = HYPHEN
        · subst hc'
          simp only [step, if_true, hc, if_false, Option.bind_some] at hrun
          obtain ⟨_, b, hb1, hb2⟩ := htk
          have hs : stepM tok 2 HYPHEN = 3 := stepM_match (by rw [hb2, hb1]; rfl)
          have hd2 : tok.drop 2 = bnd := by rw [hb2]; rfl
          have hout := startOutcome_first (by omega) 2 3 HYPHEN t ss mks r' hs (by omega) (by omega) (Or.inr rfl) hrun
          apply start_tail ⟨hnb, b, hb1, hb2⟩ (HYPHEN :: t) base fuel ih mk ass acc 2 0 ss mks r' htok hbnd hns hpos
            hsec hea hmk hfuel (by omega) (by simp) _ hout
          by_cases hsw : startsWith (HYPHEN :: t) bnd = true
          · -- the chunk starts with the whole boundary: the shortcut answers what the scan answers
            obtain ⟨t', ht'⟩ := (startsWith_iff _ _).mp hsw
            have hsc : scan tok 2 (HYPHEN :: t) = .found (tok.length - 2) := by
              rw [← ht', ← hd2]
              exact scan_match tok (tok.length - 2) 2 t' (by omega) (by omega)
            rw [hsc]
            simp only [renderScan]
            have hmk' : ({ mk with trest := none } : Markuper) = mk := by
              cases mk; simp only at htr'; subst htr'; rfl
            rw [hmk']
            simp only [Markuper.call, Markuper.eatStartBoundary, htr', hbnd, hsw, if_true]
            simp only [List.getElem?_cons_zero, hc, if_false]
            congr 3
            omega
          · have hb1' : bnd.take 1 = [HYPHEN] := by rw [hb1]; rfl
            have hcall := call_data hnb { mk with trest := some bnd } (HYPHEN :: t) 0 2 htok
              (by rw [trestOf_pos tok (by omega), hd2]) (by omega)
            simp only [List.drop_zero] at hcall
            rw [← hcall]
            simp only [Markuper.call, Markuper.eatStartBoundary, htr', hbnd, hsw, hb1']
            simp [hc]
        · -- neither CR nor a hyphen: InvalidBoundaryError whatever the chunking
          simp only [step, if_true, hc, hc', if_false, Option.bind_some] at hrun
          rw [runFrom_failed] at hrun
          simp only [Option.some.injEq] at hrun
          subst hrun
          obtain ⟨_, b, hb1, hb2⟩ := htk
          have hb1' : bnd.take 1 = [HYPHEN] := by rw [hb1]; rfl
          have hnsw : startsWith (c :: t) bnd = false := by
            rw [hb1]; simp [startsWith, List.isPrefixOf, hc']
            intro h; exact absurd h.symm hc'
          have hcall : mk.call .startBoundary (c :: t) 0 = .error .invalidBoundaryError := by
            simp only [Markuper.call, Markuper.eatStartBoundary, htr', hbnd, hnsw, hb1']
            simp [hc, hc']
          rw [iterLoop_error hcall (by decide)]
          exact ⟨by simp only [stOf, hmk], rfl, hns⟩
  · have hpp : 0 < pos := by omega
    have hm1 := hp1 hpp
    rcases hch : chunk with _ | ⟨c, t⟩
    · subst hch
      simp only [runFrom_nil, Option.some.injEq] at hrun
      subst hrun
      have hcall : mk.call .startBoundary [] 0 =
          .ok ({ mk with trest := (renderScan tok 0 (scan tok m [])).trest },
            (renderScan tok 0 (scan tok m [])).res) := by
        apply call_start_eatData hnb mk [] m htok htr hm
        simp [Markuper.eatStartBoundary, htr, trestOf_pos tok hm1]
      simp only [scan, renderScan] at hcall
      rw [iterLoop_none hcall]
      apply sim_final
      · exact htok
      · exact hbnd
      · exact hns
      · simp only [List.length_nil]; omega
      · exact hsec
      · unfold PhaseOk
        exact ⟨rfl, rfl, rfl, hm, hp0, hp1, hinv, hea⟩
      · exact hmk
    · rw [← hch]
      apply start_tail htk chunk base fuel ih mk ass acc m pos ss mks r' htok hbnd hns hpos hsec hea hmk
        hfuel hm (by omega)
      · apply call_start_eatData hnb mk chunk m htok htr hm
        simp [Markuper.eatStartBoundary, htr, trestOf_pos tok hm1]
      · exact runFrom_start tok (by omega) chunk m pos ss mks r' hpp hm1 hinv hrun

/-- the `iter_markup` loop from any live state simulates the reference machine on the rest of the
chunk -/
theorem iterLoop_sim {tok bnd : Bytes} (htk : TokOk tok bnd) (chunk : Bytes) (base : List Markup) :
    ∀ fuel, LoopGoal tok bnd chunk base fuel := by
  intro fuel
  induction fuel with
  | zero => intro _ _ _ _ _ _ _ _ _ _ h; omega
  | succ fuel ih =>
    intro mk cur ass sns acc r r' hl hmk hsns hfuel hrun
    obtain ⟨ph, pos, ss, mks⟩ := r
    simp only at hmk
    match ph with
    | .stopped => exact (by have := hl.phase; unfold PhaseOk at this; exact this.elim)
    | .failed e => exact (by have := hl.phase; unfold PhaseOk at this; exact this.elim)
    | .data m => exact round_data htk chunk base fuel ih mk cur ass sns acc m pos ss mks r' hl hmk hsns hfuel hrun
    | .start m => exact round_start htk chunk base fuel ih mk cur ass sns acc m pos ss mks r' hl hmk hfuel hrun
    | .afterDelim =>
      exact round_hdr htk chunk base fuel ih mk cur ass sns acc .afterDelim pos ss mks r' trivial hl hmk hsns hfuel hrun
    | .afterCR =>
      exact round_hdr htk chunk base fuel ih mk cur ass sns acc .afterCR pos ss mks r' trivial hl hmk hsns hfuel hrun
    | .afterHyphen =>
      exact round_hdr htk chunk base fuel ih mk cur ass sns acc .afterHyphen pos ss mks r' trivial hl hmk hsns hfuel hrun
    | .headers k =>
      have hk : HdrPhase (.headers k) := by
        have := hl.phase; unfold PhaseOk at this; exact this.2.1
      exact round_hdr htk chunk base fuel ih mk cur ass sns acc _ pos ss mks r' hk hl hmk hsns hfuel hrun

/-- one `MultipartMarkup.parse(chunk)` call simulates the reference machine on the chunk -/
theorem parse_sim {tok bnd : Bytes} (htk : TokOk tok bnd) (s : St) (r r' : RSt) (chunk : Bytes)
    (hs : Sim tok bnd s r) (hrun : runFrom tok r chunk = some r') : Sim tok bnd (parse s chunk) r' := by
  obtain ⟨hm, hp⟩ := hs
  obtain ⟨ph, pos, ss, mks⟩ := r
  simp only at hm hp
  have live_case : ∀ (he : s.error = none)
      (hl : Live tok bnd s.markuper s.markuper.curMeth s.markuper.absStartSection 0 ⟨ph, pos, ss, mks⟩),
      Sim tok bnd (parse s chunk) r' := by
    intro he hl
    have hns := hl.notStopped
    have : parse s chunk = stOf s.markups (iterLoop chunk (chunk.length + 2) s.markuper s.markuper.curMeth
        s.markuper.absStartSection 0 []) := by
      unfold parse Markuper.iterMarkup stOf
      simp only [he, hns, Option.isSome_none, Bool.or_self, Bool.false_eq_true, if_false]
      cases (iterLoop chunk (chunk.length + 2) s.markuper s.markuper.curMeth
        s.markuper.absStartSection 0 []).exc <;> rfl
    rw [this]
    exact iterLoop_sim htk chunk s.markups _ _ _ _ _ _ _ r' hl (by simp [hm]) (by omega) (by omega)
      (by simpa using hrun)
  match ph with
  | .stopped =>
    rw [runFrom_stopped] at hrun
    simp only [Option.some.injEq] at hrun
    subst hrun
    have : parse s chunk = s := by unfold parse; simp [hp.1]
    rw [this]
    exact ⟨hm, hp⟩
  | .failed e =>
    rw [runFrom_failed] at hrun
    simp only [Option.some.injEq] at hrun
    subst hrun
    have : parse s chunk = s := by unfold parse; simp [hp.1]
    rw [this]
    exact ⟨hm, hp⟩
  | .start m => exact live_case hp.1 hp.2
  | .data m => exact live_case hp.1 hp.2
  | .afterDelim => exact live_case hp.1 hp.2
  | .afterCR => exact live_case hp.1 hp.2
  | .afterHyphen => exact live_case hp.1 hp.2
  | .headers k => exact live_case hp.1 hp.2

/-- feeding chunks one after the other simulates the reference machine on their concatenation -/
theorem feed_sim {tok bnd : Bytes} (htk : TokOk tok bnd) : ∀ (chunks : List Bytes) (s : St) (r r' : RSt),
    Sim tok bnd s r → runFrom tok r chunks.flatten = some r' → Sim tok bnd (feed s chunks) r' := by
  intro chunks
  induction chunks with
  | nil =>
    intro s r r' hs hrun
    simp only [List.flatten_nil, runFrom_nil, Option.some.injEq] at hrun
    subst hrun
    exact hs
  | cons c cs ih =>
    intro s r r' hs hrun
    rw [List.flatten_cons, runFrom_append] at hrun
    cases h1 : runFrom tok r c with
    | none => rw [h1] at hrun; cases hrun
    | some r1 =>
      rw [h1] at hrun
      simp only [Option.bind_some] at hrun
      exact ih (parse s c) r1 r' (parse_sim htk s r r1 c hs h1) hrun

theorem tokOk_delim (boundary : Bytes) (hb : CR ∉ boundary) :
    TokOk (delim boundary) (HYPHENx2 ++ boundary) := by
  refine ⟨⟨LF :: (HYPHENx2 ++ boundary), rfl, ?_⟩, boundary, rfl, rfl⟩
  simp only [HYPHENx2, List.cons_append, List.nil_append, List.mem_cons, not_or]
  exact ⟨by decide, by decide, by decide, hb⟩

/-- a fresh `MultipartMarkup(boundary)` corresponds to the initial reference state -/
theorem init_sim (boundary : Bytes) (hb : CR ∉ boundary) :
    ∃ s0, St.init boundary = .ok s0 ∧ Sim (delim boundary) (HYPHENx2 ++ boundary) s0 RSt.init := by
  refine ⟨{ markuper := { boundary := HYPHENx2 ++ boundary, token := CRLF ++ (HYPHENx2 ++ boundary) } }, ?_, ?_⟩
  · simp [St.init, Markuper.init, hb]
  · refine ⟨rfl, rfl, rfl, rfl, rfl, rfl, rfl, ?_⟩
    unfold PhaseOk
    refine ⟨rfl, rfl, rfl, ?_, fun _ => rfl, fun h => by simp [RSt.init] at h, Or.inl (Nat.le_refl _), rfl⟩
    simp [delim, CRLF]

end Ombott.Multipart
