import OmbottModel.Lemmas.EnvCacheTable
/-!
`request[K] = v`, `del request[K]`, `request.copy()` keep the invariant and commute with erasing the
cache — driven by the obligations on the generated table.
-/
namespace Ombott.EnvCache
open Py Ombott.Body Ombott.Forms Ombott.BodyAccess

/-! ### consequences of the table obligations -/

theorem row_keys (K k : Key) (h : k ∈ todelete K) : isCacheKey k = true ∨ k = kBody ∨ k = kBodyError := by
  have := rowsOK_true
  simp only [rowsOK, List.all_eq_true] at this
  have := this _ (todelete_mem K) k h
  simpa [Bool.or_eq_true, or_assoc] using this

theorem body_drop (K : Key) (h : kBody ∈ todelete K) :
    kJson ∈ todelete K ∧ kPost ∈ todelete K ∧ kForms ∈ todelete K ∧ kFiles ∈ todelete K ∧ kParams ∈ todelete K := by
  have := bodyDropOK_true
  simp only [bodyDropOK, List.all_eq_true] at this
  have := this _ (todelete_mem K)
  simpa [h] using this

theorem post_group (K : Key) (h : kForms ∈ todelete K ∨ kFiles ∈ todelete K) : kPost ∈ todelete K := by
  have := postGroupOK_true
  simp only [postGroupOK, List.all_eq_true] at this
  have := this _ (todelete_mem K)
  rcases h with h | h <;> simpa [h] using this

/-- a key one of the descriptions reads is covered by its arm, or the pair is stale -/
theorem reads_covered (p : Prop') (K : Key) (hK : K ∈ semReads p) :
    p.key ∈ todelete K ∨ ∃ ak ∈ stalePairs, ak.1 = p.attr ∧ ak.2.toList = K := by
  have tie := readsTieOK_true
  simp only [readsTieOK, List.all_eq_true, List.any_eq_true, Bool.and_eq_true, beq_iff_eq] at tie
  have hp : p ∈ Prop'.all := by cases p <;> decide
  obtain ⟨row, hrow, ⟨hname, hkey⟩, K', hK', hK'eq⟩ := tie p hp K hK
  have cov := coverOK_true
  simp only [coverOK, List.all_eq_true, Bool.or_eq_true, List.contains_iff_mem] at cov
  subst hK'eq
  rcases cov row hrow K' hK' with h | h
  · left; rw [← hkey]; exact h
  · right
    refine ⟨(row.name, K'), ?_, hname, rfl⟩
    simp only [stalePairs, List.mem_filter, Bool.not_eq_true', h, true_and]
    -- not by design: the by-design pairs are disjoint from what the descriptions read
    have dis := byDesignDisjointOK_true
    simp only [byDesignDisjointOK, List.all_eq_true, Bool.or_eq_true, Bool.not_eq_true', beq_eq_false_iff_ne, ne_eq] at dis
    cases hc : ecByDesign.contains (row.name, K') with
    | false => rfl
    | true =>
      exfalso
      have hm : (row.name, K') ∈ ecByDesign := by simpa using hc
      rcases dis _ hm p hp with h1 | h1
      · exact h1 hname.symm
      · have : (semReads p).contains K'.toList = true := by simpa using hK
        rw [this] at h1; cases h1

theorem safeSet_spec (e : Env) (K : Key) (h : safeSet e K = true) (ak : String × String) (hak : ak ∈ stalePairs)
    (hk : ak.2.toList = K) (p : Prop') (hp : p.attr = ak.1) : e.get? p.key = none := by
  simp only [safeSet, List.all_eq_true, Bool.or_eq_true, Bool.not_eq_true', beq_eq_false_iff_ne, ne_eq,
    Option.isNone_iff_eq_none, beq_iff_eq] at h
  have hpa : p ∈ Prop'.all := by cases p <;> decide
  rcases h ak hak with h1 | h1
  · exact absurd hk h1
  · rcases h1 p hpa with h2 | h2
    · exact absurd hp h2
    · exact h2

/-- inside the scope, a property that is still cached after the arm of `K` ran does not read `K` -/
theorem not_reads_of_kept (e : Env) (K : Key) (hs : safeSet e K = true) (p : Prop')
    (hc : e.get? p.key ≠ none) (hkept : p.key ∉ todelete K) : K ∉ semReads p := by
  intro hK
  rcases reads_covered p K hK with h | ⟨ak, hak, h1, h2⟩
  · exact hkept h
  · exact hc (safeSet_spec e K hs ak hak h2 p h1.symm)

/-! ### keys -/

theorem isPrefixOf_append_left {l₁ l₂ k : List Char} (h : (l₁ ++ l₂).isPrefixOf k = true) : l₁.isPrefixOf k = true := by
  rw [List.isPrefixOf_iff_prefix] at h ⊢
  exact (List.prefix_append l₁ l₂).trans h

theorem userKey_plain (K : Key) (h : userKey K = true) : isCacheKey K = false := by
  simp only [userKey, Bool.and_eq_true, Bool.not_eq_true'] at h
  cases hc : isCacheKey K with
  | false => rfl
  | true =>
    simp only [isCacheKey, Bool.and_eq_true] at hc
    have : (cs!"ombott." ++ cs!"request.").isPrefixOf K = true := hc.1.1
    rw [isPrefixOf_append_left this] at h
    cases h.1

theorem userKey_ne_key (K : Key) (h : userKey K = true) (p : Prop') : p.key ≠ K := by
  intro hk
  subst hk
  cases p <;> simp [userKey, Prop'.key] at h <;> revert h <;> decide

theorem userKey_ne_body (K : Key) (h : userKey K = true) : kBody ≠ K ∧ kBodyError ≠ K := by
  constructor <;> (intro hk; subst hk; revert h; decide)

/-! ### erasing the cache commutes with the operations -/

theorem erase_setItem (e : Env) (K : Key) (v : Val) (hK : isCacheKey K = false) :
    erase (setItem e K v) = setItem (erase e) K v := by
  unfold setItem
  rw [get?_erase_plain _ _ hK]
  split
  · rfl
  · rw [dropAll_erase, erase_set_plain _ _ _ hK]

theorem erase_delItem (e : Env) (K : Key) (hK : isCacheKey K = false) :
    erase (delItem e K) = delItem (erase e) K := by
  unfold delItem
  rw [erase_del, erase_setItem _ _ _ hK]

/-! ### the invariant -/

def isViaBody : SpecDesc → Bool
  | .viaBody .. => true
  | _ => false

/-- `CachedOK_congr` with the buffered body compared only where the description uses it -/
theorem CachedOK_congr' (cfg : Cfg) (L : Lib) (q : Prop') (e e' : Env) (w : Val)
    (hs : ∀ c ∈ semReads q, e.str? c = e'.str? c)
    (hb : isViaBody (desc cfg L q) = true → e.get? kBody = e'.get? kBody)
    (h : CachedOK cfg L q e w) : CachedOK cfg L q e' w := by
  cases hd : desc cfg L q with
  | viaBody r need k0 k =>
    exact CachedOK_congr cfg L q e e' w (by rw [semReads_eq]; exact hs) (hb (by rw [hd]; rfl)) h
  | special => unfold CachedOK; rw [hd]; trivial
  | pure r f =>
    have ok := desc_ok cfg L q
    have hs' := hs
    rw [← semReads_eq cfg L q, hd] at hs'
    unfold CachedOK at h ⊢
    rw [hd] at h ok ⊢
    simp only [DescOK, SpecDesc.reads] at ok hs' h ⊢
    rw [← ok.1 e e' hs']; exact h

theorem viaBody_keys (cfg : Cfg) (L : Lib) (q : Prop') (h : isViaBody (desc cfg L q) = true) :
    q.key = kJson ∨ q.key = kPost ∨ q.key = kForms ∨ q.key = kFiles ∨ q.key = kParams := by
  cases q <;> simp [desc, isViaBody] at h <;> simp [Prop'.key]

theorem get?_dropAll_some (e : Env) (ks : List Key) (k : Key) (v : Val) (h : (dropAll e ks).get? k = some v) :
    e.get? k = some v ∧ k ∉ ks := by
  by_cases hk : k ∈ ks
  · rw [get?_dropAll_of_mem _ _ _ hk] at h; cases h
  · rw [get?_dropAll_of_not_mem _ _ _ hk] at h; exact ⟨h, hk⟩

/-- what the arm of `K` leaves in place was not computed from `K` -/
theorem Inv.afterSet {cfg : Cfg} {L : Lib} {e : Env} (hI : Inv cfg L e) (K : Key) (v : Val)
    (hu : userKey K = true) (hs : safeSet e K = true) : Inv cfg L (Ombott.EnvCache.setItem e K v) := by
  unfold Ombott.EnvCache.setItem
  split
  · exact hI
  · refine ⟨?_, ?_, ?_⟩
    · intro q w hq
      obtain ⟨hq1, hq2⟩ := get?_dropAll_some _ _ _ _ hq
      rw [get?_set_ne _ _ _ _ (userKey_ne_key K hu q)] at hq1
      have hc := hI.cached q w hq1
      have hnr : K ∉ semReads q := not_reads_of_kept e K hs q (by rw [hq1]; simp) hq2
      apply CachedOK_congr' cfg L q e _ w _ _ hc
      · intro c hc'
        have hcK : c ≠ K := fun h => hnr (h ▸ hc')
        have hcp := reads_plain cfg L q c (by rw [semReads_eq]; exact hc')
        have hnd : c ∉ todelete K := by
          intro hm
          rcases row_keys K c hm with h | h | h
          · rw [hcp.1] at h; cases h
          · exact hcp.2 (by simp [bodyKeys, h])
          · exact hcp.2 (by simp [bodyKeys, h])
        simp only [Env.str?, get?_dropAll_of_not_mem _ _ _ hnd, get?_set_ne _ _ _ _ hcK]
      · intro hv
        have hkb : kBody ∉ todelete K := by
          intro hm
          obtain ⟨b1, b2, b3, b4, b5⟩ := body_drop K hm
          rcases viaBody_keys cfg L q hv with h | h | h | h | h <;> rw [h] at hq2
          · exact hq2 b1
          · exact hq2 b2
          · exact hq2 b3
          · exact hq2 b4
          · exact hq2 b5
        rw [get?_dropAll_of_not_mem _ _ _ hkb, get?_set_ne _ _ _ _ (userKey_ne_body K hu).1]
    · intro h
      cases hp : (dropAll (e.set K v) (todelete K)).get? kPost with
      | none => exact absurd hp h
      | some pv =>
        obtain ⟨hp1, hp2⟩ := get?_dropAll_some _ _ _ _ hp
        have e1 : kPost ≠ K := userKey_ne_key K hu .post
        have e2 : kForms ≠ K := userKey_ne_key K hu .forms
        have e3 : kFiles ≠ K := userKey_ne_key K hu .files
        rw [get?_set_ne _ _ _ _ e1] at hp1
        obtain ⟨f1, f2⟩ := hI.postCons (by rw [hp1]; simp)
        have n1 : kForms ∉ todelete K := fun hm => hp2 (post_group K (Or.inl hm))
        have n2 : kFiles ∉ todelete K := fun hm => hp2 (post_group K (Or.inr hm))
        rw [get?_dropAll_of_not_mem _ _ _ n1, get?_dropAll_of_not_mem _ _ _ n2,
          get?_set_ne _ _ _ _ e2, get?_set_ne _ _ _ _ e3]
        exact ⟨f1, f2⟩
    · obtain ⟨h1, h2, h3⟩ := hI.noExt
      have key : ∀ p : Prop', e.get? p.key = none → (dropAll (e.set K v) (todelete K)).get? p.key = none := by
        intro p hp
        cases hc : (dropAll (e.set K v) (todelete K)).get? p.key with
        | none => rfl
        | some w =>
          obtain ⟨hc1, -⟩ := get?_dropAll_some _ _ _ _ hc
          rw [get?_set_ne _ _ _ _ (userKey_ne_key K hu p), hp] at hc1; cases hc1
      exact ⟨key .app h1, key .route h2, key .urlArgs h3⟩

/-! ### `del request[K]` -/

theorem str?_del_self (e : Env) (K : Key) : (e.del K).str? K = none := by
  simp [Env.str?, get?_del_self]

theorem emptyOK_spec (p : Prop') (c : Key) (hc : c ∈ semReads p) :
    (p, c) ∈ emptyInsensitive ∨ ∃ ak ∈ stalePairs, ak.1 = p.attr ∧ ak.2.toList = c := by
  have h := emptyOK_true
  simp only [emptyOK, List.all_eq_true, Bool.or_eq_true, List.any_eq_true, Bool.and_eq_true, beq_iff_eq,
    List.contains_iff_mem] at h
  have hp : p ∈ Prop'.all := by cases p <;> decide
  rcases h p hp c hc with h1 | ⟨ak, h2, h3, h4⟩
  · exact Or.inl h1
  · exact Or.inr ⟨ak, h2, h3, h4⟩

/-- to the four pairs of `emptyInsensitive`, a key holding `''` and an absent key are the same -/
theorem CachedOK_del_empty (cfg : Cfg) (L : Lib) (q : Prop') (K : Key) (e : Env) (w : Val)
    (hq : (q, K) ∈ emptyInsensitive) (hK : e.str? K = some []) (hu : userKey K = true)
    (h : CachedOK cfg L q e w) : CachedOK cfg L q (e.del K) w := by
  simp only [emptyInsensitive, List.mem_cons, Prod.mk.injEq, List.mem_nil_iff, or_false] at hq
  rcases hq with ⟨rfl, rfl⟩ | ⟨rfl, rfl⟩ | ⟨rfl, rfl⟩ | ⟨rfl, rfl⟩
  · -- content_length
    unfold CachedOK at h ⊢
    simp only [desc] at h ⊢
    have h1 : e.str? cs!"CONTENT_LENGTH" = some [] := hK
    have h2 : (e.del kCL).str? cs!"CONTENT_LENGTH" = none := str?_del_self e kCL
    rw [← h]
    simp [contentLengthOf, h1, h2, contentLength]
  · -- cookies
    unfold CachedOK at h ⊢
    simp only [desc] at h ⊢
    have h2 : (e.del cs!"HTTP_COOKIE").str? cs!"HTTP_COOKIE" = none := str?_del_self e _
    rw [← h]
    simp [cookiesOf, hK, h2]
  · -- query
    unfold CachedOK at h ⊢
    simp only [desc] at h ⊢
    have h1 : e.str? cs!"QUERY_STRING" = some [] := hK
    have h2 : (e.del kQS).str? cs!"QUERY_STRING" = none := str?_del_self e kQS
    rw [← h]
    simp [queryOf, h1, h2]
  · -- params
    have hq : queryOf (e.del kQS) = queryOf e := by
      have h1 : e.str? cs!"QUERY_STRING" = some [] := hK
      have h2 : (e.del kQS).str? cs!"QUERY_STRING" = none := str?_del_self e kQS
      simp [queryOf, h1, h2]
    have hpf : paramsFrom (e.del kQS) = paramsFrom e := by funext t; simp only [paramsFrom, hq]
    have hnp : needPost (e.del kQS) = needPost e := ro_needPost.del kQS (by decide) e
    have hpk : ∀ sk ct, postK cfg L (e.del kQS) sk ct = postK cfg L e sk ct :=
      fun sk ct => (ro_postK cfg L sk ct).del kQS (by decide) e
    have hb : (e.del kQS).get? kBody = e.get? kBody := get?_del_ne _ _ _ (by decide)
    unfold CachedOK at h ⊢
    simp only [desc] at h ⊢
    simp only [hnp, hpf, hpk, hb, postK0] at h ⊢
    exact h

theorem Inv.afterDel {cfg : Cfg} {L : Lib} {e : Env} (hI : Inv cfg L e) (K : Key)
    (hu : userKey K = true) (hs : safeSet e K = true) : Inv cfg L (delItem e K) := by
  have hI1 : Inv cfg L (Ombott.EnvCache.setItem e K (.str [])) := hI.afterSet K _ hu hs
  unfold delItem
  -- which cached properties may read `K` after the assignment of `''`
  have hkeep : ∀ q w, (Ombott.EnvCache.setItem e K (.str [])).get? q.key = some w → ∀ c ∈ semReads q, c = K →
      (q, K) ∈ emptyInsensitive ∧ (Ombott.EnvCache.setItem e K (.str [])).str? K = some [] := by
    intro q w hq c hc hcK
    subst hcK
    unfold Ombott.EnvCache.setItem at hq ⊢
    by_cases hnoop : e.get? c = some (.str [])
    · simp only [hnoop, if_true] at hq ⊢
      refine ⟨?_, by simp [Env.str?, hnoop]⟩
      rcases emptyOK_spec q c hc with h | ⟨ak, h1, h2, h3⟩
      · exact h
      · have := safeSet_spec e c hs ak h1 h3 q h2.symm
        rw [this] at hq; cases hq
    · simp only [hnoop, if_false] at hq
      obtain ⟨hq1, hq2⟩ := get?_dropAll_some _ _ _ _ hq
      rw [get?_set_ne _ _ _ _ (userKey_ne_key c hu q)] at hq1
      exact absurd hc (not_reads_of_kept e c hs q (by rw [hq1]; simp) hq2)
  refine ⟨?_, ?_, ?_⟩
  · intro q w hq
    rw [get?_del_ne _ _ _ (userKey_ne_key K hu q)] at hq
    have hc := hI1.cached q w hq
    by_cases hr : K ∈ semReads q
    · obtain ⟨h1, h2⟩ := hkeep q w hq K hr rfl
      exact CachedOK_del_empty cfg L q K _ w h1 h2 hu hc
    · apply CachedOK_congr' cfg L q _ _ w _ _ hc
      · intro c hc'
        have hcK : c ≠ K := by intro h; subst h; exact hr hc'
        rw [str?_del_ne _ _ _ hcK]
      · intro _
        rw [get?_del_ne _ _ _ (userKey_ne_body K hu).1]
  · intro h
    have e1 : kPost ≠ K := userKey_ne_key K hu .post
    rw [get?_del_ne _ _ _ e1] at h
    obtain ⟨f1, f2⟩ := hI1.postCons h
    have e2 : kForms ≠ K := userKey_ne_key K hu .forms
    have e3 : kFiles ≠ K := userKey_ne_key K hu .files
    rw [get?_del_ne _ _ _ e2, get?_del_ne _ _ _ e3]
    exact ⟨f1, f2⟩
  · obtain ⟨h1, h2, h3⟩ := hI1.noExt
    have e1 : kApp ≠ K := userKey_ne_key K hu .app
    have e2 : kRoute ≠ K := userKey_ne_key K hu .route
    have e3 : kUrlArgs ≠ K := userKey_ne_key K hu .urlArgs
    rw [get?_del_ne _ _ _ e1, get?_del_ne _ _ _ e2, get?_del_ne _ _ _ e3]
    exact ⟨h1, h2, h3⟩

end Ombott.EnvCache
