import OmbottModel.Lemmas.RouterPrio
/-!
Insertion (`RadiDict._set`): a well-formed tree stays well formed and its denotation gains
exactly the inserted rule (`insN_spec`).
-/
namespace Ombott.Router
open Py

/-! ### the rule an insertion adds, and "old rules plus the new one" -/

def newRule (a : SetArgs) (p : List Sym) : List Rule :=
  match a.data with
  | some d => [⟨p, d, a.names⟩]
  | none => []

/-- `new` holds the rule `_set` stores at `p` and every rule of `old` except the one it replaces
(hooks-only insertion: nothing changes) -/
def DenIns (a : SetArgs) (p : List Sym) (old new : List Rule) : Prop :=
  ∀ e, e ∈ new ↔ e ∈ newRule a p ∨ (e ∈ old ∧ (a.data.isSome = true → e.pat ≠ p))

theorem newRule_under (a : SetArgs) (pre p : List Sym) :
    (newRule a p).map (Rule.under pre) = newRule a (pre ++ p) := by
  unfold newRule; cases a.data <;> simp [Rule.under]

theorem DenIns.under {a : SetArgs} {p : List Sym} {old new : List Rule} (h : DenIns a p old new)
    (pre : List Sym) : DenIns a (pre ++ p) (old.map (Rule.under pre)) (new.map (Rule.under pre)) := by
  intro e
  rw [← newRule_under]
  simp only [List.mem_map]
  constructor
  · rintro ⟨x, hx, rfl⟩
    rcases (h x).mp hx with hx | ⟨hx, hne⟩
    · exact Or.inl ⟨x, hx, rfl⟩
    · exact Or.inr ⟨⟨x, hx, rfl⟩, fun hs heq => hne hs (List.append_cancel_left heq)⟩
  · rintro (⟨x, hx, rfl⟩ | ⟨⟨x, hx, rfl⟩, hne⟩)
    · exact ⟨x, (h x).mpr (Or.inl hx), rfl⟩
    · exact ⟨x, (h x).mpr (Or.inr ⟨hx, fun hs heq => hne hs (by simp [Rule.under, heq])⟩), rfl⟩

/-- replacing the middle part of a list whose other parts do not hold `p` -/
theorem DenIns.frame {a : SetArgs} {p : List Sym} {old new : List Rule} (h : DenIns a p old new)
    (l1 l2 : List Rule) (h1 : ∀ e ∈ l1, e.pat ≠ p) (h2 : ∀ e ∈ l2, e.pat ≠ p) :
    DenIns a p (l1 ++ old ++ l2) (l1 ++ new ++ l2) := by
  intro e
  simp only [List.mem_append]
  rw [h e]
  constructor
  · rintro ((he | he) | he)
    · exact Or.inr ⟨Or.inl (Or.inl he), fun _ => h1 e he⟩
    · rcases he with he | ⟨he, hne⟩
      · exact Or.inl he
      · exact Or.inr ⟨Or.inl (Or.inr he), hne⟩
    · exact Or.inr ⟨Or.inr he, fun _ => h2 e he⟩
  · rintro (he | ⟨(he | he) | he, hne⟩)
    · exact Or.inl (Or.inr (Or.inl he))
    · exact Or.inl (Or.inl he)
    · exact Or.inl (Or.inr (Or.inr ⟨he, hne⟩))
    · exact Or.inr he

/-- a fresh rule next to rules that do not hold `p` -/
theorem DenIns.fresh (a : SetArgs) (p : List Sym) (old : List Rule) (h : ∀ e ∈ old, e.pat ≠ p) :
    DenIns a p old (newRule a p ++ old) := by
  intro e
  simp only [List.mem_append]
  constructor
  · rintro (he | he)
    · exact Or.inl he
    · exact Or.inr ⟨he, fun _ => h e he⟩
  · rintro (he | ⟨he, _⟩)
    · exact Or.inl he
    · exact Or.inr he

theorem DenIns.congr {a : SetArgs} {p : List Sym} {old old' new new' : List Rule}
    (h : DenIns a p old new) (ho : ∀ e, e ∈ old' ↔ e ∈ old) (hn : ∀ e, e ∈ new' ↔ e ∈ new) :
    DenIns a p old' new' := by
  intro e; rw [hn, h e, ho]

/-! ### keys and patterns -/

theorem stripKey_some {k : Str} {p rest : List Sym} (h : stripKey k p = some rest) :
    p = litSyms k ++ rest := by
  induction k generalizing p with
  | nil => simp [stripKey] at h; simp [litSyms, h]
  | cons c ks ih =>
    cases p with
    | nil => simp [stripKey] at h
    | cons s p =>
      cases s with
      | tok f => simp [stripKey] at h
      | lit d =>
        simp only [stripKey] at h
        split at h
        · rename_i hcd
          have : c = d := by simpa using hcd
          subst this
          simp [litSyms, ih h]
        · simp at h

theorem stripKey_append (k : Str) (rest : List Sym) : stripKey k (litSyms k ++ rest) = some rest := by
  induction k with
  | nil => simp [stripKey, litSyms]
  | cons c ks ih => simpa [stripKey, litSyms] using ih

theorem commonPrefix_split (kk : Str) (p : List Sym) :
    kk = commonPrefix kk (litRun p) ++ kk.drop (commonPrefix kk (litRun p)).length ∧
    p = litSyms (commonPrefix kk (litRun p)) ++ p.drop (commonPrefix kk (litRun p)).length ∧
    (∀ x xs c2 r2, kk.drop (commonPrefix kk (litRun p)).length = x :: xs →
        p.drop (commonPrefix kk (litRun p)).length = .lit c2 :: r2 → x ≠ c2) := by
  induction kk generalizing p with
  | nil => simp [commonPrefix, litSyms]
  | cons c cs ih =>
    cases p with
    | nil => simp [commonPrefix, litRun, litSyms]
    | cons s p =>
      cases s with
      | tok f => simp [commonPrefix, litRun, litSyms]
      | lit d =>
        simp only [litRun, commonPrefix]
        by_cases hcd : c = d
        · subst hcd
          simp only [beq_self_eq_true, if_true, List.length_cons, List.drop_succ_cons, List.cons_append,
            List.cons.injEq, true_and, litSyms, List.map_cons]
          exact ih p
        · have : (c == d) = false := by simpa using hcd
          simp only [this, Bool.false_eq_true, if_false, List.length_nil, List.drop_zero, List.nil_append,
            litSyms, List.map_nil, true_and]
          intro x xs c2 r2 h1 h2
          simp only [List.cons.injEq] at h1 h2
          rw [← h1.1]
          simp only [Sym.lit.injEq] at h2
          rw [← h2.1]; exact hcd

theorem commonPrefix_head (c : Char) (cs : Str) (r : List Sym) :
    ∃ t, commonPrefix (c :: cs) (litRun (.lit c :: r)) = c :: t := by
  simp [litRun, commonPrefix]

theorem stripKey_none_drop {kk : Str} {p : List Sym} (h : stripKey kk p = none) :
    kk.drop (commonPrefix kk (litRun p)).length ≠ [] := by
  intro hd
  obtain ⟨h1, h2, _⟩ := commonPrefix_split kk p
  rw [hd, List.append_nil] at h1
  rw [← h1] at h2
  rw [h2, stripKey_append] at h
  cases h

/-! ### chains (`_make_route`) -/

mutual
theorem chainLit_key (a : SetArgs) (key : Str) (r : List Sym) :
    ∃ t, (chainLit a key r).key = key ++ t := by
  match r with
  | [] => exact ⟨[], by simp [chainLit, Node.key]⟩
  | .lit c :: r =>
    obtain ⟨t, ht⟩ := chainLit_key a (key ++ [c]) r
    exact ⟨c :: t, by simp [chainLit, ht]⟩
  | .tok g :: r => exact ⟨[], by simp [chainLit, Node.key]⟩
end

/-- the part of a parent's denotation that comes from literal child `k` -/
def denK (k : Node) : List Rule := (denN k).map (Rule.under (litSyms k.key))

theorem denL_cons (k : Node) (ks : List Node) : denL (k :: ks) = denK k ++ denL ks := by
  simp [denL, denK]

theorem litSyms_append (a b : Str) : litSyms (a ++ b) = litSyms a ++ litSyms b := by
  simp [litSyms]

mutual
theorem chainLit_den (a : SetArgs) (key : Str) (r : List Sym) :
    denK (chainLit a key r) = newRule a (litSyms key ++ r) := by
  match r with
  | [] =>
    simp only [chainLit, denK, denN, Node.key, denL, denT, List.append_nil]
    unfold newRule ownRule
    cases a.data <;> simp [Rule.under]
  | .lit c :: r =>
    have := chainLit_den a (key ++ [c]) r
    simp only [chainLit]
    rw [this, litSyms_append]
    simp [litSyms]
  | .tok g :: r =>
    simp only [chainLit, denK, denN, Node.key, denL, denT, ownRule, List.nil_append, List.map_map]
    rw [(chainTok_den a g r).1, (chainTok_den a g r).2]
    rw [← List.map_map, newRule_under, newRule_under]
    simp
theorem chainTok_den (a : SetArgs) (g : Option Fid) (r : List Sym) :
    denN (chainTok a g r) = newRule a r ∧ (chainTok a g r).filter = g := by
  match r with
  | [] =>
    refine ⟨?_, rfl⟩
    simp only [chainTok, denN, denL, denT, List.append_nil]
    unfold newRule ownRule
    cases a.data <;> simp
  | .lit c :: r =>
    refine ⟨?_, rfl⟩
    have := chainLit_den a [c] r
    simp only [chainTok, denN, ownRule, List.nil_append, denT, List.append_nil, denL]
    unfold denK at this
    rw [this]; simp [litSyms]
  | .tok g' :: r =>
    refine ⟨?_, rfl⟩
    simp only [chainTok, denN, ownRule, List.nil_append, denL, denT]
    rw [(chainTok_den a g' r).1, (chainTok_den a g' r).2, newRule_under]
    simp
end

mutual
theorem chainLit_wf (a : SetArgs) (key : Str) (r : List Sym) : WFN (chainLit a key r) := by
  match r with
  | [] => simp only [chainLit]; unfold WFN WFL WFT; simp
  | .lit c :: r => simp only [chainLit]; exact chainLit_wf a (key ++ [c]) r
  | .tok g :: r =>
    simp only [chainLit]; unfold WFN WFL WFT
    exact ⟨trivial, chainTok_wf a g r⟩
theorem chainTok_wf (a : SetArgs) (g : Option Fid) (r : List Sym) : WFN (chainTok a g r) := by
  match r with
  | [] => simp only [chainTok]; unfold WFN WFL WFT; simp
  | .lit c :: r =>
    simp only [chainTok]; unfold WFN WFL WFT WFL
    obtain ⟨t, ht⟩ := chainLit_key a [c] r
    refine ⟨⟨?_, chainLit_wf a [c] r, trivial, by simp⟩, trivial⟩
    rw [ht]; simp
  | .tok g' :: r =>
    simp only [chainTok]; unfold WFN WFL WFT
    exact ⟨trivial, chainTok_wf a g' r⟩
end

/-! ### small facts about nodes -/

@[simp] theorem Node.key_mk (k : Str) (d : Option Nat) (p : List Str) (f : Option Fid)
    (h : Option HookPair) (l : List Node) (t : Option Node) : (Node.mk k d p f h l t).key = k := rfl

@[simp] theorem Node.withKey_key (n : Node) (k : Str) : (n.withKey k).key = k := by cases n; rfl

theorem denN_withKey (n : Node) (k : Str) : denN (n.withKey k) = denN n := by
  cases n; simp [Node.withKey, denN]

theorem WFN_withKey (n : Node) (k : Str) (h : WFN n) : WFN (n.withKey k) := by
  cases n; simp only [Node.withKey]; unfold WFN at h ⊢; exact h

theorem denK_pat_ne_of_head {k : Node} (hne : k.key ≠ []) {c : Char} (hd : k.key.head? ≠ some c)
    (r : List Sym) : ∀ e ∈ denK k, e.pat ≠ .lit c :: r := by
  intro e he
  simp only [denK, List.mem_map] at he
  obtain ⟨x, _, rfl⟩ := he
  cases hk : k.key with
  | nil => exact absurd hk hne
  | cons d ds =>
    simp only [Rule.under, litSyms, List.map_cons, List.cons_append, ne_eq, List.cons.injEq,
      Sym.lit.injEq, not_and]
    intro hdc
    subst hdc
    simp [hk] at hd

theorem denL_pat_ne_of_head {ks : List Node} (h : WFL ks) {c : Char}
    (hd : ∀ k' ∈ ks, k'.key.head? ≠ some c) (r : List Sym) : ∀ e ∈ denL ks, e.pat ≠ .lit c :: r := by
  intro e he
  obtain ⟨k', hk', c', q, hc', hq⟩ := mem_denL_shape h he
  rw [hq]
  intro heq
  simp only [List.cons.injEq, Sym.lit.injEq] at heq
  exact hd k' hk' (by rw [hc', heq.1])

theorem denL_pat_ne_tok {ks : List Node} (h : WFL ks) (g : Option Fid) (r : List Sym) :
    ∀ e ∈ denL ks, e.pat ≠ .tok g :: r := by
  intro e he
  obtain ⟨_, _, c', q, _, hq⟩ := mem_denL_shape h he
  rw [hq]; simp

theorem denL_pat_ne_nil {ks : List Node} (h : WFL ks) : ∀ e ∈ denL ks, e.pat ≠ [] := by
  intro e he
  obtain ⟨_, _, c', q, _, hq⟩ := mem_denL_shape h he
  rw [hq]; simp

theorem denT_pat_ne_lit {t : Option Node} (c : Char) (r : List Sym) : ∀ e ∈ denT t, e.pat ≠ .lit c :: r := by
  intro e he
  obtain ⟨g, q, hq⟩ := mem_denT_shape he
  rw [hq]; simp

theorem denT_pat_ne_nil {t : Option Node} : ∀ e ∈ denT t, e.pat ≠ [] := by
  intro e he
  obtain ⟨g, q, hq⟩ := mem_denT_shape he
  rw [hq]; simp

theorem ownRule_pat {d : Option Nat} {pk : List Str} : ∀ e ∈ ownRule d pk, e.pat = [] := by
  intro e he
  cases d <;> simp [ownRule] at he
  subst he; rfl

/-! ### `setHere` -/

theorem setHere_spec (a : SetArgs) (n n' : Node) (h : WFN n) (hs : setHere a n = .ok n') :
    WFN n' ∧ n'.key = n.key ∧ n'.filter = n.filter ∧ DenIns a [] (denN n) (denN n') := by
  match n with
  | .mk k d p f hk lits tok =>
    unfold setHere at hs
    by_cases c1 : (a.data.isSome && d.isSome && !a.overwrite) = true
    · simp [c1] at hs
    · by_cases c2 : (a.hooks.isSome && hk.isSome && !a.overwrite) = true
      · simp [c1, c2] at hs
      · simp only [c1, c2, Bool.false_eq_true, if_false, Except.ok.injEq] at hs
        subst hs
        refine ⟨by unfold WFN at h ⊢; exact h, rfl, rfl, ?_⟩
        unfold WFN at h
        intro e
        simp only [denN, List.mem_append, newRule]
        cases hd : a.data with
        | none =>
          simp only [Option.isSome_none, Bool.false_eq_true, if_false, List.not_mem_nil, false_or,
            false_implies, and_true]
        | some v =>
          simp only [Option.isSome_some, if_true, ownRule, List.mem_singleton, true_implies]
          constructor
          · rintro ((he | he) | he)
            · exact Or.inl he
            · exact Or.inr ⟨Or.inl (Or.inr he), denL_pat_ne_nil h.1 e he⟩
            · exact Or.inr ⟨Or.inr he, denT_pat_ne_nil e he⟩
          · rintro (he | ⟨(he | he) | he, hne⟩)
            · exact Or.inl (Or.inl he)
            · exact absurd (ownRule_pat e he) hne
            · exact Or.inl (Or.inr he)
            · exact Or.inr he

/-! ### `_split` -/

theorem litSyms_ne_nil {k : Str} (h : k ≠ []) : litSyms k ≠ [] := by
  cases k <;> simp_all [litSyms]

theorem splitIns_eq (a : SetArgs) (k : Node) (route : List Sym) (cp kd : Str) (rd : List Sym)
    (hcp : commonPrefix k.key (litRun route) = cp) (hkd : k.key.drop cp.length = kd)
    (hrd : route.drop cp.length = rd) :
    splitIns a k route =
      match rd with
      | [] => setHere a (.mk cp none [] none none [k.withKey kd] none)
      | .lit c :: r => .ok (.mk cp none [] none none [chainLit a [c] r, k.withKey kd] none)
      | .tok g :: r => .ok (.mk cp none [] none none [k.withKey kd] (some (chainTok a g r))) := by
  simp only [splitIns, hcp, hkd, hrd]
  cases rd with
  | nil => rfl
  | cons s r => cases s <;> rfl

theorem splitIns_spec (a : SetArgs) (k : Node) (hk : WFN k) (c : Char) (cs : Str)
    (hkey : k.key = c :: cs) (r : List Sym) (hs : stripKey k.key (.lit c :: r) = none) (k' : Node)
    (hi : splitIns a k (.lit c :: r) = .ok k') :
    WFN k' ∧ k'.key.head? = some c ∧ DenIns a (.lit c :: r) (denK k) (denK k') := by
  obtain ⟨h1, h2, h3⟩ := commonPrefix_split k.key (.lit c :: r)
  have hkd := stripKey_none_drop hs
  obtain ⟨t, hcp⟩ : ∃ t, commonPrefix k.key (litRun (.lit c :: r)) = c :: t := by
    rw [hkey]; exact commonPrefix_head c cs r
  obtain ⟨cp, hcpd⟩ : ∃ cp, commonPrefix k.key (litRun (.lit c :: r)) = cp := ⟨_, rfl⟩
  rw [hcpd] at h1 h2 h3 hkd hcp
  obtain ⟨kd, hkdd⟩ : ∃ kd, k.key.drop cp.length = kd := ⟨_, rfl⟩
  rw [hkdd] at h1 h3 hkd
  obtain ⟨rd, hrdd⟩ : ∃ rd, (Sym.lit c :: r).drop cp.length = rd := ⟨_, rfl⟩
  rw [hrdd] at h2 h3
  rw [splitIns_eq a k _ cp kd rd hcpd hkdd hrdd] at hi
  -- what the old child contributes, seen from above the new node
  have hold : (denN k).map (Rule.under (litSyms cp ++ litSyms kd)) = denK k := by
    unfold denK; rw [← litSyms_append, ← h1]
  have holdmem : ∀ e, e ∈ denK k ↔ ∃ x ∈ denN k, e = x.under (litSyms cp ++ litSyms kd) := by
    intro e; rw [← hold]; simp [eq_comm]
  have hwfold : WFN (k.withKey kd) := WFN_withKey k kd hk
  cases rd with
  | nil =>
    simp only at hi
    unfold setHere at hi
    simp only [Option.isSome_none, Bool.and_false, Bool.false_and, Bool.false_eq_true, if_false,
      Except.ok.injEq] at hi
    subst hi
    refine ⟨?_, by simp [hcp], ?_⟩
    · unfold WFN WFL WFL WFT
      exact ⟨⟨by simpa using hkd, hwfold, trivial, by simp⟩, trivial⟩
    · intro e
      rw [h2, List.append_nil]
      simp only [denK, Node.key_mk, denN, denL, denT, List.append_nil, Node.withKey_key, denN_withKey,
        List.map_append, List.map_map, List.mem_append]
      have hown : (ownRule (if a.data.isSome = true then a.data else none)
            (if a.data.isSome = true then a.names else [])).map (Rule.under (litSyms cp)) =
          newRule a (litSyms cp) := by
        unfold newRule; cases a.data <;> simp [ownRule, Rule.under]
      rw [hown]
      have hcomp : (Rule.under (litSyms cp) ∘ Rule.under (litSyms kd)) =
          Rule.under (litSyms cp ++ litSyms kd) := by
        funext x; simp [Rule.under]
      rw [hcomp, hold]
      constructor
      · rintro (he | he)
        · exact Or.inl he
        · refine Or.inr ⟨he, fun _ => ?_⟩
          obtain ⟨x, _, rfl⟩ := (holdmem e).mp he
          simp only [Rule.under, ne_eq, List.append_assoc]
          intro heq
          have := List.append_cancel_left (heq.trans (List.append_nil _).symm)
          simp only [List.append_eq_nil_iff] at this
          exact litSyms_ne_nil hkd this.1
      · rintro (he | ⟨he, _⟩)
        · exact Or.inl he
        · exact Or.inr he
  | cons s r2 =>
    cases s with
    | lit c2 =>
      simp only [Except.ok.injEq] at hi
      subst hi
      obtain ⟨t2, ht2⟩ := chainLit_key a [c2] r2
      have hne : ∀ x xs, kd = x :: xs → x ≠ c2 := fun x xs hx => h3 x xs c2 r2 hx rfl
      refine ⟨?_, by simp [hcp], ?_⟩
      · unfold WFN WFL WFL WFL WFT
        refine ⟨⟨by rw [ht2]; simp, chainLit_wf a [c2] r2, ⟨by simpa using hkd, hwfold, trivial, by simp⟩, ?_⟩, trivial⟩
        intro k'' hk''
        simp only [List.mem_singleton] at hk''
        subst hk''
        rw [ht2]
        simp only [Node.withKey_key, List.singleton_append, List.head?_cons, ne_eq]
        cases hkd' : kd with
        | nil => exact absurd hkd' hkd
        | cons x xs => simpa using hne x xs hkd'
      · intro e
        rw [h2]
        have hchain := chainLit_den a [c2] r2
        simp only [denK] at hchain
        simp only [denK, Node.key_mk, denN, denL, denT, List.append_nil, Node.withKey_key, denN_withKey,
          List.map_append, List.map_map, List.mem_append, ownRule, List.map_nil, List.nil_append]
        rw [← List.map_map, hchain, newRule_under]
        have hcomp : (Rule.under (litSyms cp) ∘ Rule.under (litSyms kd)) =
            Rule.under (litSyms cp ++ litSyms kd) := by
          funext x; simp [Rule.under]
        rw [hcomp, hold]
        simp only [litSyms, List.map_cons, List.map_nil, List.singleton_append]
        constructor
        · rintro (he | he)
          · exact Or.inl he
          · refine Or.inr ⟨he, fun _ => ?_⟩
            obtain ⟨x, _, rfl⟩ := (holdmem e).mp he
            simp only [Rule.under, ne_eq, List.append_assoc]
            intro heq
            have := List.append_cancel_left heq
            cases hkd' : kd with
            | nil => exact absurd hkd' hkd
            | cons y ys =>
              rw [hkd'] at this
              simp only [litSyms, List.map_cons, List.cons_append, List.cons.injEq, Sym.lit.injEq] at this
              exact hne y ys hkd' this.1
        · rintro (he | ⟨he, _⟩)
          · exact Or.inl he
          · exact Or.inr he
    | tok g =>
      simp only [Except.ok.injEq] at hi
      subst hi
      refine ⟨?_, by simp [hcp], ?_⟩
      · unfold WFN WFL WFL WFT
        exact ⟨⟨by simpa using hkd, hwfold, trivial, by simp⟩, chainTok_wf a g r2⟩
      · intro e
        rw [h2]
        simp only [denK, Node.key_mk, denN, denL, denT, List.append_nil, Node.withKey_key, denN_withKey,
          List.map_append, List.map_map, List.mem_append, ownRule, List.map_nil, List.nil_append]
        have hcomp : (Rule.under (litSyms cp) ∘ Rule.under (litSyms kd)) =
            Rule.under (litSyms cp ++ litSyms kd) := by
          funext x; simp [Rule.under]
        rw [(chainTok_den a g r2).1, (chainTok_den a g r2).2, hcomp, hold, ← List.map_map,
          newRule_under, newRule_under]
        simp only [List.singleton_append]
        constructor
        · rintro (he | he)
          · refine Or.inr ⟨he, fun _ => ?_⟩
            obtain ⟨x, _, rfl⟩ := (holdmem e).mp he
            simp only [Rule.under, ne_eq, List.append_assoc]
            intro heq
            have := List.append_cancel_left heq
            cases hkd' : kd with
            | nil => exact absurd hkd' hkd
            | cons y ys =>
              rw [hkd'] at this
              simp [litSyms] at this
          · exact Or.inl he
        · rintro (he | ⟨he, _⟩)
          · exact Or.inr he
          · exact Or.inl he

/-! ### `_set` -/

mutual
theorem insN_spec (a : SetArgs) (n : Node) (h : WFN n) (p : List Sym) (n' : Node)
    (hi : insN a n p = .ok n') :
    WFN n' ∧ n'.key = n.key ∧ n'.filter = n.filter ∧ DenIns a p (denN n) (denN n') := by
  match n, p with
  | .mk k d pk f hk lits tok, [] =>
    simp only [insN] at hi
    exact setHere_spec a _ n' h hi
  | .mk k d pk f hk lits tok, .lit c :: r =>
    simp only [insN] at hi
    unfold WFN at h
    obtain ⟨hl, ht⟩ := h
    cases hL : insL a lits c r with
    | error e => rw [hL] at hi; simp [Except.map] at hi
    | ok o =>
      rw [hL] at hi
      simp only [Except.map, Except.ok.injEq] at hi
      subst hi
      have hsp := insL_spec a lits hl c r o hL
      have hown : ∀ e ∈ ownRule d pk, e.pat ≠ .lit c :: r := by
        intro e he; rw [ownRule_pat e he]; simp
      cases o with
      | none =>
        have hheads := hsp.1 rfl
        obtain ⟨t, hkey⟩ := chainLit_key a [c] r
        simp only [Option.getD]
        refine ⟨?_, rfl, rfl, ?_⟩
        · unfold WFN WFL
          refine ⟨⟨by rw [hkey]; simp, chainLit_wf a [c] r, hl, ?_⟩, ht⟩
          intro k' hk'
          rw [hkey]; simpa using hheads k' hk'
        · simp only [denN, denL_cons]
          rw [chainLit_den]
          exact (DenIns.fresh a (.lit c :: r) (denL lits) (denL_pat_ne_of_head hl hheads r)).frame _ _
            hown (denT_pat_ne_lit c r)
      | some lits' =>
        obtain ⟨hwf', _, hden⟩ := hsp.2 lits' rfl
        simp only [Option.getD]
        refine ⟨by unfold WFN; exact ⟨hwf', ht⟩, rfl, rfl, ?_⟩
        simp only [denN]
        exact hden.frame _ _ hown (denT_pat_ne_lit c r)
  | .mk k d pk f hk lits tok, .tok g :: r =>
    simp only [insN] at hi
    unfold WFN at h
    obtain ⟨hl, ht⟩ := h
    cases hT : insT a tok g r with
    | error e => rw [hT] at hi; simp [Except.map] at hi
    | ok t' =>
      rw [hT] at hi
      simp only [Except.map, Except.ok.injEq] at hi
      subst hi
      obtain ⟨hwt, _, hdt⟩ := insT_spec a tok ht g r t' hT
      refine ⟨by unfold WFN WFT; exact ⟨hl, hwt⟩, rfl, rfl, ?_⟩
      simp only [denN]
      have := hdt.frame (ownRule d pk ++ denL lits) [] (by
        intro e he
        rcases List.mem_append.mp he with he | he
        · rw [ownRule_pat e he]; simp
        · exact denL_pat_ne_tok hl g r e he) (by simp)
      simpa using this
theorem insT_spec (a : SetArgs) (t : Option Node) (h : WFT t) (g : Option Fid) (r : List Sym)
    (t' : Node) (hi : insT a t g r = .ok t') :
    WFN t' ∧ t'.filter = g ∧ DenIns a (.tok g :: r) (denT t) (denT (some t')) := by
  match t with
  | none =>
    simp only [insT, Except.ok.injEq] at hi
    subst hi
    refine ⟨chainTok_wf a g r, (chainTok_den a g r).2, ?_⟩
    simp only [denT]
    rw [(chainTok_den a g r).1, (chainTok_den a g r).2, newRule_under]
    have := DenIns.fresh a (.tok g :: r) [] (by simp)
    simpa using this
  | some t0 =>
    simp only [insT] at hi
    by_cases hf : (t0.filter != g) = true
    · simp [hf] at hi
    · simp only [hf, Bool.false_eq_true, if_false] at hi
      have hfg : t0.filter = g := by simpa using hf
      unfold WFT at h
      obtain ⟨hw, _, hfl, hd⟩ := insN_spec a t0 h r t' hi
      refine ⟨hw, by rw [hfl, hfg], ?_⟩
      simp only [denT]
      rw [hfl, hfg]
      have := hd.under [Sym.tok g]
      simpa using this
theorem insL_spec (a : SetArgs) (ks : List Node) (h : WFL ks) (c : Char) (r : List Sym)
    (o : Option (List Node)) (hi : insL a ks c r = .ok o) :
    (o = none → ∀ k ∈ ks, k.key.head? ≠ some c) ∧
    (∀ ks', o = some ks' → WFL ks' ∧
        ks'.map (fun k => k.key.head?) = ks.map (fun k => k.key.head?) ∧
        DenIns a (.lit c :: r) (denL ks) (denL ks')) := by
  match ks with
  | [] =>
    simp only [insL, Except.ok.injEq] at hi
    subst hi; simp
  | k :: ks =>
    unfold WFL at h
    obtain ⟨hne, hk, hks, hdist⟩ := h
    simp only [insL] at hi
    by_cases hc : k.key.head? = some c
    · have hc' : (k.key.head? == some c) = true := by simp [hc]
      simp only [hc', if_true] at hi
      have hchild : ∀ k', (stripKey k.key (.lit c :: r)).elim (splitIns a k (.lit c :: r))
            (fun rest => insN a k rest) = .ok k' →
          WFN k' ∧ k'.key.head? = some c ∧ DenIns a (.lit c :: r) (denK k) (denK k') := by
        intro k' hk'
        cases hs : stripKey k.key (.lit c :: r) with
        | some rest =>
          rw [hs] at hk'
          simp only [Option.elim] at hk'
          obtain ⟨hw, hkey, _, hd⟩ := insN_spec a k hk rest k' hk'
          refine ⟨hw, by rw [hkey, hc], ?_⟩
          have := hd.under (litSyms k.key)
          rw [← stripKey_some hs] at this
          unfold denK; rw [hkey]; exact this
        | none =>
          rw [hs] at hk'
          simp only [Option.elim] at hk'
          cases hkd : k.key with
          | nil => exact absurd hkd hne
          | cons d ds =>
            have : d = c := by rw [hkd] at hc; simpa using hc
            subst this
            exact splitIns_spec a k hk d ds hkd r hs k' hk'
      cases hX : (stripKey k.key (.lit c :: r)).elim (splitIns a k (.lit c :: r))
          (fun rest => insN a k rest) with
      | error e => rw [hX] at hi; simp [Except.map] at hi
      | ok k' =>
        rw [hX] at hi
        simp only [Except.map, Except.ok.injEq] at hi
        subst hi
        obtain ⟨hw, hhead, hd⟩ := hchild k' hX
        refine ⟨by simp, ?_⟩
        intro ks' hks'
        simp only [Option.some.injEq] at hks'
        subst hks'
        refine ⟨?_, by simp [hhead, hc], ?_⟩
        · unfold WFL
          refine ⟨?_, hw, hks, ?_⟩
          · intro hnil; rw [hnil] at hhead; simp at hhead
          · rw [hhead, ← hc]; exact hdist
        · rw [denL_cons, denL_cons]
          have := hd.frame [] (denL ks) (by simp)
            (denL_pat_ne_of_head hks (fun k'' hk'' => hc ▸ hdist k'' hk'') r)
          simpa using this
    · have hc' : (k.key.head? == some c) = false := by simpa using hc
      simp only [hc', Bool.false_eq_true, if_false] at hi
      cases hX : insL a ks c r with
      | error e => rw [hX] at hi; simp [Except.map] at hi
      | ok o0 =>
        rw [hX] at hi
        simp only [Except.map, Except.ok.injEq] at hi
        subst hi
        obtain ⟨h1, h2⟩ := insL_spec a ks hks c r o0 hX
        constructor
        · intro hnone
          have : o0 = none := by cases o0 <;> simp_all
          intro k'' hk''
          rcases List.mem_cons.mp hk'' with rfl | hk''
          · exact hc
          · exact h1 this k'' hk''
        · intro ks' hks'
          cases o0 with
          | none => simp at hks'
          | some ks0 =>
            simp only [Option.map_some, Option.some.injEq] at hks'
            subst hks'
            obtain ⟨hw0, hh0, hd0⟩ := h2 ks0 rfl
            refine ⟨?_, by simp [hh0], ?_⟩
            · unfold WFL
              refine ⟨hne, hk, hw0, ?_⟩
              intro k'' hk''
              have hmem : k''.key.head? ∈ ks0.map (fun k => k.key.head?) :=
                List.mem_map.mpr ⟨k'', hk'', rfl⟩
              rw [hh0] at hmem
              obtain ⟨k3, hk3, heq⟩ := List.mem_map.mp hmem
              rw [← heq]; exact hdist k3 hk3
            · rw [denL_cons, denL_cons]
              have := hd0.frame (denK k) [] (denK_pat_ne_of_head hne hc r) (by simp)
              simpa using this
end

end Ombott.Router
