import OmbottModel.Model.BodyAccess
import OmbottModel.Lemmas.MarkupWF
import OmbottModel.Lemmas.MarkupSound
import OmbottModel.Lemmas.BodyAccessTotal
/-!
What `FieldStorage.iter_items` yields, section by section (C12 `delivered_fields_terminated`, C07).
-/
namespace Ombott.Forms
open Py Ombott.Multipart

/-- the `i`-th field yielded by the `while headers:` loop was read from sections `2i` and `2i+1` -/
theorem itemsLoop_item (body : Bytes) (sp : Bool) :
    ∀ (ms : List Markup) (mr : Int) (i : Nat) (f : FieldS), (itemsLoop body sp ms mr).items[i]? = some f →
      ∃ hm dm mr' hr, ms[2 * i]? = some hm ∧ ms[2 * i + 1]? = some dm ∧ hm.name = .headers ∧ dm.name = .data ∧
        readField body sp hm.start hm.stop dm.start dm.stop mr' = .ok (f, hr)
  | [], _, i, f, h => by simp [itemsLoop] at h
  | [h0], _, i, f, h => by
    rw [itemsLoop] at h
    split at h <;> simp at h
  | h0 :: d :: rest, mr, i, f, h => by
    rw [itemsLoop] at h
    split at h
    · simp at h
    · split at h
      · simp at h
      · rename_i hh hd
        split at h
        · simp at h
        · rename_i f0 hr0 hrf
          cases i with
          | zero =>
            simp only [List.getElem?_cons_zero, Option.some.injEq] at h
            subst h
            exact ⟨h0, d, mr, hr0, by simp, by simp, by simpa using hh, by simpa using hd, hrf⟩
          | succ i =>
            simp only [List.getElem?_cons_succ] at h
            obtain ⟨hm, dm, mr', hr, a1, a2, a3, a4, a5⟩ := itemsLoop_item body sp rest _ i f h
            refine ⟨hm, dm, mr', hr, ?_, ?_, a3, a4, a5⟩
            · have : 2 * (i + 1) = (2 * i) + 1 + 1 := by omega
              rw [this]; simpa using a1
            · have : 2 * (i + 1) + 1 = (2 * i + 1) + 1 + 1 := by omega
              rw [this]; simpa using a2

theorem iterItems_item (body : Bytes) (sp : Bool) (ms : List Markup) (mr : Int) (i : Nat) (f : FieldS)
    (h : (iterItems body sp ms mr).items[i]? = some f) :
    ∃ hm dm mr' hr, ms[2 * i + 1]? = some hm ∧ ms[2 * i + 2]? = some dm ∧ hm.name = .headers ∧ dm.name = .data ∧
      readField body sp hm.start hm.stop dm.start dm.stop mr' = .ok (f, hr) := by
  unfold iterItems at h
  split at h
  · simp at h
  · rename_i m0 rest
    split at h
    · simp at h
    · split at h
      · simp at h
      · obtain ⟨hm, dm, mr', hr, a1, a2, a3, a4, a5⟩ := itemsLoop_item body sp rest mr i f h
        exact ⟨hm, dm, mr', hr, by simpa using a1, by simpa using a2, a3, a4, a5⟩

/-- what a successfully read field holds: an upload is the window `(ds, de)`; a text field is the
strict UTF-8 decoding of `src[ds : ds + (de - ds)]` -/
theorem readField_content (body : Bytes) (sp : Bool) (hs he ds de mr : Int) (f : FieldS) (hr : Int)
    (h0 : 0 ≤ ds) (hle : ds ≤ de)
    (h : readField body sp hs he ds de mr = .ok (f, hr)) :
    (f.filename.isSome ∧ f.file = some (ds, de) ∧ f.value = none) ∨
    (f.filename = none ∧ f.file = none ∧ f.value.isSome ∧
      f.value = utf8Decode ((body.drop ds.toNat).take (de - ds).toNat)) := by
  unfold readField at h
  simp only at h
  split at h
  · cases h
  · split at h
    · cases h
    · split at h
      · cases h
      · split at h
        · cases h
        · split at h
          · cases h
          · split at h
            · simp only [Except.ok.injEq, Prod.mk.injEq] at h
              rw [← h.1]; left; simp
            · split at h
              · rename_i hz
                simp only [Except.ok.injEq, Prod.mk.injEq] at h
                rw [← h.1]; right
                have : (de - ds).toNat = 0 := by omega
                simp only [this, List.take_zero, true_and, Option.isSome_some]
                rfl
              · split at h
                · cases h
                · unfold srcRead at h
                  rw [if_neg (by omega)] at h
                  simp only at h
                  rw [if_neg (by omega)] at h
                  split at h
                  · cases h
                  · rename_i v hv
                    simp only [Except.ok.injEq, Prod.mk.injEq] at h
                    rw [← h.1]; right
                    simp only [true_and, Option.isSome_some]
                    exact hv.symm

end Ombott.Forms

namespace Ombott.BodyAccess
open Py Ombott.Multipart Ombott.Forms

/-- where the buffered body and its markup come from -/
theorem bodyOf_feed (cfg : Cfg) (req : Req) (body : Bytes) (st : St) (h : bodyOf cfg req = .ok (body, some st)) :
    ∃ bnd s0 chunks, boundaryOf (req.contentType.getD []) = some bnd ∧ St.init (utf8Encode bnd) = .ok s0 ∧
      req.framing = .ok chunks ∧ body = chunks.flatten ∧ st = feed s0 chunks := by
  unfold bodyOf at h
  simp only at h
  split at h
  · cases h
  · rename_i m hm
    split at h
    · cases h
    · rename_i chunks hfr
      simp only [Except.ok.injEq, Prod.mk.injEq] at h
      obtain ⟨hbody, hst⟩ := h
      split at hm
      · cases hm; simp at hst
      · rename_i bnd hbnd
        split at hm
        · cases hm
        · rename_i s0 hs0
          cases hm
          simp only [Option.map_some, Option.some.injEq] at hst
          exact ⟨bnd, s0, chunks, hbnd, hs0, hfr, hbody.symm, hst.symm⟩

end Ombott.BodyAccess
