import OmbottModel.Lemmas.AppHeaders
/-!
Seam `Wsgi.Eff` (the statements of a handler program) ↔ `Headers.Op` (C14's guarded entry
points): the two `str` setters of the program vocabulary ARE item assignment and `append` of
`Model/Headers` on the `headersView` of the response object — same refusal (`_hval`), same store
afterwards.  Domain: response objects whose header entries hold at least one value and no
un-encodable one (`ViewExact`; every object built by the two setters from `Response()` is).
The other entry points of C14 (`setdefault`, the header attributes, `del`, `clear`, `__init__`,
non-`str` values) have no counterpart in `Wsgi.Eff`.
-/
namespace Ombott.App
open Py Ombott

/-- every entry holds at least one value and no lone-surrogate value: the translation to
`Model/Headers` loses nothing -/
def ViewExact (h : Wsgi.Hdrs) : Prop := ∀ e ∈ h, e.2 ≠ [] ∧ ∀ v ∈ e.2, v ≠ Wsgi.HVal.bad

def viewStore (h : Wsgi.Hdrs) : Headers.Store := h.map fun e => (e.1, toEntry (goodVals e.2))

theorem headersView_store (st : Wsgi.RState) : (headersView st).store = viewStore st.headers := rfl

theorem hval_str (v : Str) :
    Headers.hval (.str v) = if Wsgi.hvalOk v then .ok v else .error .valueError := by
  unfold Headers.hval Headers.pyStr Headers.hasCtl Wsgi.hvalOk
  have h0 : (Char.ofNat 0) = '\x00' := by decide
  rw [h0]
  simp only
  cases (v.contains '\n' || v.contains '\r' || v.contains '\x00') <;> rfl

theorem viewStore_set (h : Wsgi.Hdrs) (k v : Str) :
    viewStore (Wsgi.Hdrs.set h k [.good v]) = Headers.dset (viewStore h) k (.one v) := by
  induction h with
  | nil => rfl
  | cons e r ih =>
    obtain ⟨k', v'⟩ := e
    unfold Wsgi.Hdrs.set
    simp only [viewStore, List.map_cons, Headers.dset] at ih ⊢
    split
    · rfl
    · rw [List.map_cons, ih]

/-- **`headers[k] = v` of a handler program is `HeaderDict.__setitem__` of `Model/Headers`** -/
theorem wsgi_setHeader_refines_setitem (st : Wsgi.RState) (k v : Str) :
    (match Wsgi.runEff st (.setHeader k v) with
     | some st' => ((headersView st').store, (none : Option Err))
     | none => ((headersView st).store, some Err.valueError)) =
    (match Headers.setitem (headersView st).store k (.str v) with
     | .ok d => (d, none)
     | .error e => ((headersView st).store, some e)) := by
  unfold Wsgi.runEff Headers.setitem
  rw [hval_str]
  by_cases hv : Wsgi.hvalOk v = true
  · simp only [hv, if_true, headersView_store, viewStore_set]
    rfl
  · simp only [hv, Bool.false_eq_true, if_false]
    rfl

theorem goodVals_append (a b : List Wsgi.HVal) : goodVals (a ++ b) = goodVals a ++ goodVals b := by
  unfold goodVals; rw [List.filterMap_append]

theorem goodVals_exact {vs : List Wsgi.HVal} (h : ∀ v ∈ vs, v ≠ Wsgi.HVal.bad) :
    (goodVals vs).length = vs.length := by
  induction vs with
  | nil => rfl
  | cons v r ih =>
    cases v with
    | bad => exact absurd rfl (h _ (List.mem_cons_self ..))
    | good w =>
      simp only [goodVals, List.filterMap_cons, List.length_cons] at ih ⊢
      rw [ih (fun x hx => h x (List.mem_cons_of_mem _ hx))]

theorem viewStore_append (h : Wsgi.Hdrs) (hx : ViewExact h) (k v : Str) :
    viewStore (Wsgi.Hdrs.append h k (.good v)) =
      (match Headers.dget (viewStore h) k with
       | none => Headers.dset (viewStore h) k (.one v)
       | some (.many vs) => Headers.dset (viewStore h) k (.many (vs ++ [v]))
       | some (.one v0) => Headers.dset (viewStore h) k (.many [v0, v])) := by
  induction h with
  | nil => rfl
  | cons e r ih =>
    obtain ⟨k', v'⟩ := e
    have hr : ViewExact r := fun x hxm => hx x (List.mem_cons_of_mem _ hxm)
    obtain ⟨hne, hnb⟩ := hx (k', v') (List.mem_cons_self ..)
    unfold Wsgi.Hdrs.append
    by_cases hk : (k' == k) = true
    · have hkeq : k' = k := by simpa using hk
      subst hkeq
      simp only [hk, if_true, viewStore, List.map_cons, Headers.dget, List.find?_cons, Option.map_some,
        goodVals_append, Headers.dset]
      have hlen := goodVals_exact hnb
      have hgood : goodVals [Wsgi.HVal.good v] = [v] := rfl
      rw [hgood]
      -- how many values the entry held
      cases hg : goodVals v' with
      | nil =>
        rw [hg] at hlen
        exact absurd (List.eq_nil_of_length_eq_zero hlen.symm) hne
      | cons a rest =>
        cases rest with
        | nil => simp [toEntry]
        | cons b rest' => simp [toEntry]
    · have hk' : (k' == k) = false := by simpa using hk
      have ih' := ih hr
      simp only [hk', Bool.false_eq_true, if_false, viewStore, List.map_cons, Headers.dget, List.find?_cons]
        at ih' ⊢
      rw [ih']
      cases Option.map (fun x => x.2) (List.find? (fun x => x.1 == k) (List.map (fun e => (e.1, toEntry (goodVals e.2))) r)) with
      | none => simp only [Headers.dset, hk', Bool.false_eq_true, if_false]
      | some en =>
        cases en <;> simp only [Headers.dset, hk', Bool.false_eq_true, if_false]

/-- **`headers.append(k, v)` of a handler program is `HeaderDict.append` of `Model/Headers`** -/
theorem wsgi_addHeader_refines_append (st : Wsgi.RState) (hx : ViewExact st.headers) (k v : Str) :
    (match Wsgi.runEff st (.addHeader k v) with
     | some st' => ((headersView st').store, (none : Option Err))
     | none => ((headersView st).store, some Err.valueError)) =
    (match Headers.append (headersView st).store k (.str v) with
     | .ok d => (d, none)
     | .error e => ((headersView st).store, some e)) := by
  unfold Wsgi.runEff Headers.append
  rw [hval_str]
  by_cases hv : Wsgi.hvalOk v = true
  · simp only [hv, if_true, headersView_store, viewStore_append _ hx]
    rfl
  · simp only [hv, Bool.false_eq_true, if_false]
    rfl

/-- the two setters keep the translation exact -/
theorem viewExact_runEff (st st' : Wsgi.RState) (hx : ViewExact st.headers) (k v : Str)
    (h : Wsgi.runEff st (.setHeader k v) = some st' ∨ Wsgi.runEff st (.addHeader k v) = some st') :
    ViewExact st'.headers := by
  have hset : ∀ (hd : Wsgi.Hdrs), ViewExact hd → ViewExact (Wsgi.Hdrs.set hd k [.good v]) := by
    intro hd hhd
    induction hd with
    | nil =>
      intro e he
      simp only [Wsgi.Hdrs.set, List.mem_singleton] at he
      subst he
      exact ⟨by simp, by intro x hxm; simp only [List.mem_singleton] at hxm; subst hxm; exact fun c => by cases c⟩
    | cons q qs ih =>
      obtain ⟨a, b⟩ := q
      have hq : ViewExact qs := fun x hxm => hhd x (List.mem_cons_of_mem _ hxm)
      unfold Wsgi.Hdrs.set
      split
      · intro e he
        rcases List.mem_cons.mp he with rfl | h1
        · exact ⟨by simp, by intro x hxm; simp only [List.mem_singleton] at hxm; subst hxm; exact fun c => by cases c⟩
        · exact hq e h1
      · intro e he
        rcases List.mem_cons.mp he with rfl | h1
        · exact hhd _ (List.mem_cons_self ..)
        · exact ih hq e h1
  have happ : ∀ (hd : Wsgi.Hdrs), ViewExact hd → ViewExact (Wsgi.Hdrs.append hd k (.good v)) := by
    intro hd hhd
    induction hd with
    | nil =>
      intro e he
      simp only [Wsgi.Hdrs.append, List.mem_singleton] at he
      subst he
      exact ⟨by simp, by intro x hxm; simp only [List.mem_singleton] at hxm; subst hxm; exact fun c => by cases c⟩
    | cons q qs ih =>
      obtain ⟨a, b⟩ := q
      have hq : ViewExact qs := fun x hxm => hhd x (List.mem_cons_of_mem _ hxm)
      unfold Wsgi.Hdrs.append
      split
      · intro e he
        rcases List.mem_cons.mp he with rfl | h1
        · obtain ⟨_, hb⟩ := hhd (a, b) (List.mem_cons_self ..)
          refine ⟨by simp, ?_⟩
          intro x hxm
          rcases List.mem_append.mp hxm with h2 | h2
          · exact hb x h2
          · simp only [List.mem_singleton] at h2; subst h2; exact fun c => by cases c
        · exact hq e h1
      · intro e he
        rcases List.mem_cons.mp he with rfl | h1
        · exact hhd _ (List.mem_cons_self ..)
        · exact ih hq e h1
  rcases h with h | h
  · simp only [Wsgi.runEff] at h
    split at h
    · cases h; exact hset _ hx
    · cases h
  · simp only [Wsgi.runEff] at h
    split at h
    · cases h; exact happ _ hx
    · cases h

end Ombott.App
