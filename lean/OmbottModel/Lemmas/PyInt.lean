import OmbottModel.Py
import OmbottModel.Py.IntLim
/-! `int(str(n)) == n`: the decimal printer and the `int()` model are inverse. -/
namespace Py

theorem digitsVal_digits (ds : List Char) (hd : ∀ c ∈ ds, c.isDigit = true) (acc : Nat) (ok : Bool)
    (h : ds ≠ [] ∨ ok = true) :
    digitsVal ds acc ok = some (Nat.ofDigitChars 10 ds acc) := by
  induction ds generalizing acc ok with
  | nil => simp [digitsVal] at *; simp [h]
  | cons c cs ih =>
    have hc : c.isDigit = true := hd c (by simp)
    simp only [digitsVal, hc, if_true]
    rw [ih (fun x hx => hd x (by simp [hx])) _ true (Or.inr rfl)]
    simp [Nat.ofDigitChars_cons, Nat.mul_comm]

theorem natStr_digits (n : Nat) : ∀ c ∈ natStr n, c.isDigit = true := fun _ hc =>
  Nat.isDigit_of_mem_toDigits (by decide) (by decide) hc

theorem natStr_ne_nil (n : Nat) : natStr n ≠ [] := Nat.toDigits_ne_nil

theorem isDigit_bounds (c : Char) (h : c.isDigit = true) : 48 ≤ c.toNat ∧ c.toNat ≤ 57 := by
  simp only [Char.isDigit, Bool.and_eq_true, decide_eq_true_eq] at h
  obtain ⟨h1, h2⟩ := h
  have h1' : (48 : UInt32) ≤ c.val := h1
  have h2' : c.val ≤ (57 : UInt32) := h2
  rw [UInt32.le_iff_toNat_le] at h1' h2'
  exact ⟨h1', h2'⟩

theorem isDigit_not_ws (c : Char) (h : c.isDigit = true) : isIntWsChar c = false := by
  have ⟨h1, h2⟩ := isDigit_bounds c h
  simp [isIntWsChar, isWsNat]
  omega

theorem stripBy_id {α} (p : α → Bool) (l : List α) (h : ∀ x ∈ l, p x = false) : stripBy p l = l := by
  unfold stripBy
  have h1 : l.dropWhile p = l := by
    cases l with
    | nil => rfl
    | cons a as => simp [List.dropWhile, h a (by simp)]
  rw [h1]
  have h2 : l.reverse.dropWhile p = l.reverse := by
    cases hr : l.reverse with
    | nil => rfl
    | cons a as =>
      have : a ∈ l := by
        have : a ∈ l.reverse := by rw [hr]; simp
        simpa using this
      simp [List.dropWhile, h a this]
  rw [h2]; simp

theorem strip_natStr (n : Nat) : stripBy isIntWsChar (natStr n) = natStr n :=
  stripBy_id _ _ (fun c hc => isDigit_not_ws c (natStr_digits n c hc))

theorem pyInt_natStr (n : Nat) : pyInt (natStr n) = some (n : Int) := by
  unfold pyInt
  rw [strip_natStr]
  have hne := natStr_ne_nil n
  have hd := natStr_digits n
  have key : digitsVal (natStr n) 0 false = some n := by
    rw [digitsVal_digits _ hd 0 false (Or.inl hne)]
    simp [natStr]
  cases hs : natStr n with
  | nil => exact absurd hs hne
  | cons c cs =>
    have hc : c.isDigit = true := hd c (by rw [hs]; simp)
    have hm : c ≠ '-' := by intro h; rw [h] at hc; simp at hc
    have hp : c ≠ '+' := by intro h; rw [h] at hc; simp at hc
    rw [hs] at key
    split
    · rename_i heq; simp at heq; exact absurd heq.1 hm
    · rename_i heq; simp at heq; exact absurd heq.1 hp
    · simp [key]


/-! ### the interpreter's digit limit (`Py/IntLim.lean`) -/

theorem filter_isDigit_of_all (ds : List Char) (hd : ∀ c ∈ ds, c.isDigit = true) :
    ds.filter Char.isDigit = ds := List.filter_eq_self.mpr hd

/-- a run of ASCII digits counts with its whole length: leading zeros count -/
theorem intDigitCount_digits (ds : List Char) (hd : ∀ c ∈ ds, c.isDigit = true) :
    intDigitCount ds = ds.length := by
  unfold intDigitCount; rw [filter_isDigit_of_all ds hd]

theorem intDigitCount_le_length (s : Str) : intDigitCount s ≤ s.length := List.length_filter_le _ _

theorem intDigitCount_append (a b : Str) : intDigitCount (a ++ b) = intDigitCount a + intDigitCount b := by
  simp [intDigitCount]

/-- the sign does not count -/
theorem intDigitCount_sign (c : Char) (hc : c.isDigit = false) (s : Str) :
    intDigitCount (c :: s) = intDigitCount s := by
  simp [intDigitCount, hc]

/-- within the limit `pyIntLim` is `int()`'s grammar -/
theorem pyIntLim_of_le {s : Str} (h : intDigitCount s ≤ Ombott.Gen.intMaxStrDigits) : pyIntLim s = pyInt s := by
  simp [pyIntLim, h]

/-- beyond the limit `int()` refuses whatever the text spells -/
theorem pyIntLim_of_gt {s : Str} (h : Ombott.Gen.intMaxStrDigits < intDigitCount s) : pyIntLim s = none := by
  simp [pyIntLim, Nat.not_le.mpr h]

theorem pyIntLim_of_length_le {s : Str} (h : s.length ≤ Ombott.Gen.intMaxStrDigits) : pyIntLim s = pyInt s :=
  pyIntLim_of_le (Nat.le_trans (intDigitCount_le_length s) h)

theorem pyIntLim_some {s : Str} {v : Int} (h : pyIntLim s = some v) :
    pyInt s = some v ∧ intDigitCount s ≤ Ombott.Gen.intMaxStrDigits := by
  unfold pyIntLim at h
  split at h
  · exact ⟨h, by assumption⟩
  · cases h

/-- `int(str(n)) == n` for every `n` the interpreter prints -/
theorem pyIntLim_natStr (n : Nat) (h : (natStr n).length ≤ Ombott.Gen.intMaxStrDigits) :
    pyIntLim (natStr n) = some (n : Int) := by
  rw [pyIntLim_of_length_le h]; exact pyInt_natStr n

theorem ofDigitChars_zeros (k : Nat) (l : List Char) (acc : Nat) :
    Nat.ofDigitChars 10 (List.replicate k '0' ++ l) acc = Nat.ofDigitChars 10 l (acc * 10 ^ k) := by
  induction k generalizing acc with
  | zero => simp
  | succ k ih =>
    rw [List.replicate_succ, List.cons_append, Nat.ofDigitChars_cons, ih]
    congr 1
    simp [Nat.pow_succ]
    rw [Nat.mul_comm 10 acc, Nat.mul_assoc, Nat.mul_comm 10]

/-- leading zeros in front of a canonical numeral: `int('000' + str(n)) == n` (grammar) -/
theorem pyInt_zeros_natStr (k n : Nat) : pyInt (List.replicate k '0' ++ natStr n) = some (n : Int) := by
  have hd : ∀ c ∈ List.replicate k '0' ++ natStr n, c.isDigit = true := by
    intro c hc
    rcases List.mem_append.mp hc with h | h
    · rw [(List.mem_replicate.mp h).2]; decide
    · exact natStr_digits n c h
  have hne : List.replicate k '0' ++ natStr n ≠ [] := by
    intro h; exact natStr_ne_nil n (List.append_eq_nil_iff.mp h).2
  unfold pyInt
  rw [stripBy_id _ _ (fun c hc => isDigit_not_ws c (hd c hc))]
  have key : digitsVal (List.replicate k '0' ++ natStr n) 0 false = some n := by
    rw [digitsVal_digits _ hd 0 false (Or.inl hne)]
    congr 1
    rw [ofDigitChars_zeros k (natStr n) 0]; simp [natStr]
  cases hs : List.replicate k '0' ++ natStr n with
  | nil => exact absurd hs hne
  | cons c cs =>
    have hc : c.isDigit = true := hd c (by rw [hs]; simp)
    have hm : c ≠ '-' := by intro h; rw [h] at hc; simp at hc
    have hp : c ≠ '+' := by intro h; rw [h] at hc; simp at hc
    rw [hs] at key
    split
    · rename_i heq; simp at heq; exact absurd heq.1 hm
    · rename_i heq; simp at heq; exact absurd heq.1 hp
    · simp [key]

/-- a numeral as written — `k` leading zeros, then the canonical digits of `n`: its digit count -/
theorem intDigitCount_zeros_natStr (k n : Nat) :
    intDigitCount (List.replicate k '0' ++ natStr n) = k + (natStr n).length := by
  rw [intDigitCount_digits]
  · simp
  · intro c hc
    rcases List.mem_append.mp hc with h | h
    · rw [(List.mem_replicate.mp h).2]; decide
    · exact natStr_digits n c h

theorem pyIntLim_zeros_natStr (k n : Nat) (h : k + (natStr n).length ≤ Ombott.Gen.intMaxStrDigits) :
    pyIntLim (List.replicate k '0' ++ natStr n) = some (n : Int) := by
  rw [pyIntLim_of_le (by rw [intDigitCount_zeros_natStr]; exact h)]; exact pyInt_zeros_natStr k n

theorem pyIntLim_zeros_natStr_none (k n : Nat) (h : Ombott.Gen.intMaxStrDigits < k + (natStr n).length) :
    pyIntLim (List.replicate k '0' ++ natStr n) = none :=
  pyIntLim_of_gt (by rw [intDigitCount_zeros_natStr]; exact h)

/-- number of digits of `str(n)` against a bound: `len(str(n)) ≤ k ↔ n < 10^k` -/
theorem natStr_length_le_iff (n k : Nat) (hk : 0 < k) : (natStr n).length ≤ k ↔ n < 10 ^ k :=
  Nat.length_toDigits_le_iff (by decide) hk

end Py
