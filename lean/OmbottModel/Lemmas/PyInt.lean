import OmbottModel.Py
/-! `int(str(n)) == n`: the decimal printer and the `int()` model are inverse. -/
namespace Py

theorem digitsVal_digits (ds : List Char) (hd : ∀ c ∈ ds, c.isDigit = true) (acc : Nat) (ok : Bool)
    (h : ds ≠ [] ∨ ok = true) :
    digitsVal ds acc ok = some (Nat.ofDigitChars 10 ds acc) := by
  induction ds generalizing acc ok with
  | nil => simp [digitsVal] at *; simp [h]
  | cons c cs ih =>
    have hc : c.isDigit = true := hd c (by simp)
    simp only [digitsVal, hc, if_true]
    rw [ih (fun x hx => hd x (by simp [hx])) _ true (Or.inr rfl)]
    simp [Nat.ofDigitChars_cons, Nat.mul_comm]

theorem natStr_digits (n : Nat) : ∀ c ∈ natStr n, c.isDigit = true := fun _ hc =>
  Nat.isDigit_of_mem_toDigits (by decide) (by decide) hc

theorem natStr_ne_nil (n : Nat) : natStr n ≠ [] := Nat.toDigits_ne_nil

theorem isDigit_bounds (c : Char) (h : c.isDigit = true) : 48 ≤ c.toNat ∧ c.toNat ≤ 57 := by
  simp only [Char.isDigit, Bool.and_eq_true, decide_eq_true_eq] at h
  obtain ⟨h1, h2⟩ := h
  have h1' : (48 : UInt32) ≤ c.val := h1
  have h2' : c.val ≤ (57 : UInt32) := h2
  rw [UInt32.le_iff_toNat_le] at h1' h2'
  exact ⟨h1', h2'⟩

theorem isDigit_not_ws (c : Char) (h : c.isDigit = true) : isIntWsChar c = false := by
  have ⟨h1, h2⟩ := isDigit_bounds c h
  simp [isIntWsChar, isWsNat]
  omega

theorem stripBy_id {α} (p : α → Bool) (l : List α) (h : ∀ x ∈ l, p x = false) : stripBy p l = l := by
  unfold stripBy
  have h1 : l.dropWhile p = l := by
    cases l with
    | nil => rfl
    | cons a as => simp [List.dropWhile, h a (by simp)]
  rw [h1]
  have h2 : l.reverse.dropWhile p = l.reverse := by
    cases hr : l.reverse with
    | nil => rfl
    | cons a as =>
      have : a ∈ l := by
        have : a ∈ l.reverse := by rw [hr]; simp
        simpa using this
      simp [List.dropWhile, h a this]
  rw [h2]; simp

theorem strip_natStr (n : Nat) : stripBy isIntWsChar (natStr n) = natStr n :=
  stripBy_id _ _ (fun c hc => isDigit_not_ws c (natStr_digits n c hc))

theorem pyInt_natStr (n : Nat) : pyInt (natStr n) = some (n : Int) := by
  unfold pyInt
  rw [strip_natStr]
  have hne := natStr_ne_nil n
  have hd := natStr_digits n
  have key : digitsVal (natStr n) 0 false = some n := by
    rw [digitsVal_digits _ hd 0 false (Or.inl hne)]
    simp [natStr]
  cases hs : natStr n with
  | nil => exact absurd hs hne
  | cons c cs =>
    have hc : c.isDigit = true := hd c (by rw [hs]; simp)
    have hm : c ≠ '-' := by intro h; rw [h] at hc; simp at hc
    have hp : c ≠ '+' := by intro h; rw [h] at hc; simp at hc
    rw [hs] at key
    split
    · rename_i heq; simp at heq; exact absurd heq.1 hm
    · rename_i heq; simp at heq; exact absurd heq.1 hp
    · simp [key]

end Py
