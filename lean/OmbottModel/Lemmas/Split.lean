import OmbottModel.Py
/-! Lemmas about the `split` models. -/
namespace Py

theorem splitOn1_ne_nil {α} [BEq α] (sep : α) (l : List α) : splitOn1 sep l ≠ [] := by
  induction l with
  | nil => simp [splitOn1]
  | cons c cs ih =>
    unfold splitOn1
    split
    · simp
    · split <;> simp

theorem splitOn1_nosep {α} [BEq α] [LawfulBEq α] (sep : α) (l : List α) (h : sep ∉ l) :
    splitOn1 sep l = [l] := by
  induction l with
  | nil => simp [splitOn1]
  | cons c cs ih =>
    have hc : (c == sep) = false := by
      simp only [List.mem_cons, not_or] at h
      simp [Ne.symm h.1]
    have := ih (fun hm => h (List.mem_cons_of_mem _ hm))
    simp [splitOn1, hc, this]

theorem splitOn1_append {α} [BEq α] [LawfulBEq α] (sep : α) (l r : List α) (h : sep ∉ l) :
    splitOn1 sep (l ++ sep :: r) = l :: splitOn1 sep r := by
  induction l with
  | nil => simp [splitOn1]
  | cons c cs ih =>
    have hc : (c == sep) = false := by
      simp only [List.mem_cons, not_or] at h
      simp [Ne.symm h.1]
    have := ih (fun hm => h (List.mem_cons_of_mem _ hm))
    simp [splitOn1, hc, this]

theorem findSub_prefix {α} [BEq α] [LawfulBEq α] (pat x : List α) (hp : pat ≠ []) :
    findSub pat (pat ++ x) = some 0 := by
  cases pat with
  | nil => exact absurd rfl hp
  | cons p ps =>
    simp only [List.cons_append, findSub]
    have : (p :: ps).isPrefixOf (p :: (ps ++ x)) = true := by
      rw [← List.cons_append]
      simp [List.isPrefixOf_iff_prefix]
    simp [this]

theorem splitFirstSub_prefix {α} [BEq α] [LawfulBEq α] (pat x : List α) (hp : pat ≠ []) :
    splitFirstSub pat (pat ++ x) = some ([], x) := by
  simp [splitFirstSub, findSub_prefix pat x hp]

end Py
