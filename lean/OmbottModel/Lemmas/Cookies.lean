import OmbottModel.Model.Cookies
import OmbottModel.Lemmas.Text
/-! Lemmas for C15: the constant-time compare, `split`, the shape of what `cookie_decode`
accepts, `_quote`/`_unquote`, ASCII-ness of what the cookie chain puts on the wire. -/
namespace Ombott.Cookies
open Py

theorem lscmp_nil_left (b : Bytes) : lscmp [] b = b.isEmpty := by
  cases b <;> simp [lscmp]

theorem lscmp_nil_right (a : Bytes) : lscmp a [] = a.isEmpty := by
  cases a <;> simp [lscmp]

theorem lscmp_cons (x y : UInt8) (a b : Bytes) : lscmp (x :: a) (y :: b) = ((x == y) && lscmp a b) := by
  by_cases h : x = y
  · subst h; simp [lscmp]
  · have : (x == y) = false := by simpa using h
    simp [lscmp, this]
    intro hxy; exact absurd hxy h

theorem lscmp_iff_eq' (a b : Bytes) : lscmp a b = true ↔ a = b := by
  induction a generalizing b with
  | nil => cases b <;> simp [lscmp_nil_left]
  | cons x xs ih =>
    cases b with
    | nil => simp [lscmp_nil_right]
    | cons y ys => rw [lscmp_cons]; simp [ih]

theorem splitFirst_spec {α} [BEq α] [LawfulBEq α] (sep : α) (l a b : List α)
    (h : splitFirst sep l = some (a, b)) : l = a ++ sep :: b ∧ sep ∉ a := by
  induction l generalizing a with
  | nil => simp [splitFirst] at h
  | cons c cs ih =>
    unfold splitFirst at h
    split at h
    · rename_i hc
      simp only [Option.some.injEq, Prod.mk.injEq] at h
      obtain ⟨rfl, rfl⟩ := h
      simp only [beq_iff_eq] at hc
      subst hc
      simp
    · rename_i hc
      simp only [Option.map_eq_some_iff] at h
      obtain ⟨⟨a', b'⟩, hs, heq⟩ := h
      simp only [Prod.mk.injEq] at heq
      obtain ⟨rfl, rfl⟩ := heq
      obtain ⟨h1, h2⟩ := ih a' hs
      refine ⟨by rw [h1]; simp, ?_⟩
      simp only [List.mem_cons, not_or]
      exact ⟨fun hh => hc (by simp [hh]), h2⟩

theorem splitFirst_append {α} [BEq α] [LawfulBEq α] (sep : α) (a b : List α) (h : sep ∉ a) :
    splitFirst sep (a ++ sep :: b) = some (a, b) := by
  induction a with
  | nil => simp [splitFirst]
  | cons c cs ih =>
    simp only [List.mem_cons, not_or] at h
    have hc : (c == sep) = false := by simpa using Ne.symm h.1
    simp [splitFirst, hc, ih h.2]

/-- what `cookie_decode` does once the MAC verified -/
def afterMac (L : Lib) (msg : Bytes) : Except CErr (Option (Str × CVal)) × List Bytes :=
  match L.unb64 msg with
  | none => (.error .b64Error, [])
  | some raw =>
    match L.unpickle raw with
    | some x => (.ok (some x), [raw])
    | none => (.error .unpickleError, [raw])

/-- `cookie_decode` either answers `None` without touching the unpickler, or its input is
`'!' + b64(hmac(key, msg)) + '?' + msg` for the message part it then decodes -/
theorem cookieDecode_cases (L : Lib) (data key : Bytes) :
    cookieDecode L data key = (.ok none, []) ∨
    ∃ msg, data = 33 :: (L.b64 (L.hmac key msg) ++ 63 :: msg) ∧ (63 : UInt8) ∉ L.b64 (L.hmac key msg) ∧
      cookieDecode L data key = afterMac L msg := by
  unfold cookieDecode
  split
  · rename_i henc
    split
    · exact Or.inl rfl
    · rename_i sig msg hsp
      split
      · rename_i hcmp
        right
        obtain ⟨hd, hns⟩ := splitFirst_spec 63 data sig msg hsp
        have hsig := (lscmp_iff_eq' _ _).mp hcmp
        simp only [isEncoded, Bool.and_eq_true, beq_iff_eq] at henc
        cases sig with
        | nil => rw [hd] at henc; simp at henc
        | cons s0 sig' =>
          rw [hd] at henc
          simp only [List.cons_append, List.head?_cons, Option.some.injEq] at henc
          simp only [List.drop_succ_cons, List.drop_zero] at hsig
          refine ⟨msg, ?_, ?_, ?_⟩
          · rw [hd, henc.1, hsig]; rfl
          · rw [← hsig]; intro h; exact hns (List.mem_cons_of_mem _ h)
          · unfold afterMac; rfl
      · exact Or.inl rfl
  · exact Or.inl rfl

/-! ### `_unquote` -/

theorem unquoteGo_fuel (f g : Nat) (s : Str) (hf : s.length ≤ f) (hg : s.length ≤ g) :
    unquoteGo f s = unquoteGo g s := by
  induction f generalizing g s with
  | zero =>
    have : s = [] := List.length_eq_zero_iff.mp (by omega)
    subst this
    cases g <;> rfl
  | succ f ih =>
    cases g with
    | zero =>
      have : s = [] := List.length_eq_zero_iff.mp (by omega)
      subst this; rfl
    | succ g =>
      cases s with
      | nil => rfl
      | cons x t =>
        simp only [List.length_cons] at hf hg
        unfold unquoteGo
        split
        · rw [ih g t (by omega) (by omega)]
        · cases t with
          | nil => rfl
          | cons a t1 =>
            simp only [List.length_cons] at hf hg
            simp only
            split
            · rw [ih g (a :: t1) (by simp; omega) (by simp; omega)]
            · cases t1 with
              | nil => simp only; rw [ih g [] (by simp) (by simp)]
              | cons b t2 =>
                cases t2 with
                | nil => simp only; rw [ih g [b] (by simp at *; omega) (by simp at *; omega)]
                | cons c t3 =>
                  simp only [List.length_cons] at hf hg
                  simp only
                  split
                  · rw [ih g t3 (by omega) (by omega)]
                  · rw [ih g (b :: c :: t3) (by simp; omega) (by simp; omega)]

theorem unquoteGo_body (f : Nat) (s : Str) (hf : s.length ≤ f) : unquoteGo f s = unquoteBody s :=
  unquoteGo_fuel f s.length s hf (Nat.le_refl _)

theorem unquoteBody_nil : unquoteBody [] = [] := rfl

/-- a character other than the backslash is copied -/
theorem unquoteBody_plain (x : Char) (t : Str) (hx : x ≠ '\\') : unquoteBody (x :: t) = x :: unquoteBody t := by
  have : (x != '\\') = true := by simpa using hx
  unfold unquoteBody
  simp only [List.length_cons, unquoteGo, this, if_true]

/-- backslash + a character that does not start an octal triple: the character is kept -/
theorem unquoteBody_esc (a : Char) (t : Str) (hn : a ≠ '\n') (ho : isOct a 3 = false) :
    unquoteBody ('\\' :: a :: t) = a :: unquoteBody t := by
  have h1 : ('\\' != '\\') = false := by decide
  have h2 : (a == '\n') = false := by simpa using hn
  unfold unquoteBody
  simp only [List.length_cons, unquoteGo, h1, h2, Bool.false_eq_true, if_false]
  cases t with
  | nil => simp [unquoteGo]
  | cons b t2 =>
    cases t2 with
    | nil => simp only; rw [unquoteGo_body _ _ (by simp)]; rfl
    | cons c t3 =>
      simp only [ho, Bool.false_and, Bool.false_eq_true, if_false]
      rw [unquoteGo_body _ _ (by simp)]; rfl

/-- backslash + octal triple -/
theorem unquoteBody_oct (a b c : Char) (t : Str) (ha : isOct a 3 = true) (hb : isOct b 7 = true)
    (hc : isOct c 7 = true) : unquoteBody ('\\' :: a :: b :: c :: t) = octVal a b c :: unquoteBody t := by
  have h1 : ('\\' != '\\') = false := by decide
  have h2 : (a == '\n') = false := by
    have : a ≠ '\n' := by
      intro h; subst h; revert ha; decide
    simpa using this
  unfold unquoteBody
  simp only [List.length_cons, unquoteGo, h1, h2, ha, hb, hc, Bool.and_self, Bool.false_eq_true, if_false, if_true]
  rw [unquoteGo_body _ _ (by omega)]; rfl

theorem octDigit_toNat (k : Nat) (hk : k ≤ 7) : (octDigit k).toNat = 48 + k := by
  unfold octDigit
  exact Char.toNat_ofNat_lt256 _ (by omega)

theorem isOct_octDigit (k hi : Nat) (hk : k ≤ hi) (hh : hi ≤ 7) : isOct (octDigit k) hi = true := by
  unfold isOct
  rw [octDigit_toNat k (by omega)]
  simp; omega

theorem unquoteBody_translate (c : Char) (hc : c.toNat < 256) (rest : Str) :
    unquoteBody (translateChar c ++ rest) = c :: unquoteBody rest := by
  unfold translateChar
  split
  · rename_i h
    simp only [beq_iff_eq] at h; subst h
    exact unquoteBody_esc '"' rest (by decide) (by decide)
  · split
    · rename_i _ h
      simp only [beq_iff_eq] at h; subst h
      exact unquoteBody_esc '\\' rest (by decide) (by decide)
    · rename_i _ hbs
      split
      · exact unquoteBody_plain c rest (by simpa using hbs)
      · have h2 : c.toNat / 64 ≤ 3 := by omega
        have h1 : c.toNat / 8 % 8 ≤ 7 := by omega
        have h0 : c.toNat % 8 ≤ 7 := by omega
        simp only [List.cons_append, List.nil_append]
        rw [unquoteBody_oct _ _ _ rest (isOct_octDigit _ 3 h2 (by omega)) (isOct_octDigit _ 7 h1 (by omega))
          (isOct_octDigit _ 7 h0 (by omega))]
        congr 1
        unfold octVal
        rw [octDigit_toNat _ (by omega), octDigit_toNat _ h1, octDigit_toNat _ h0]
        have : (48 + c.toNat / 64 - 48) * 64 + (48 + c.toNat / 8 % 8 - 48) * 8 + (48 + c.toNat % 8 - 48) = c.toNat := by
          omega
        rw [this]
        exact Char.ofNat_toNat c

/-- `_unquote` undoes `str.translate(_Translator)` on Latin-1 text -/
theorem unquoteBody_flatMap (s : Str) (h : ∀ c ∈ s, c.toNat < 256) :
    unquoteBody (s.flatMap translateChar) = s := by
  induction s with
  | nil => rfl
  | cons c cs ih =>
    rw [List.flatMap_cons, unquoteBody_translate c (h c (by simp)), ih (fun x hx => h x (by simp [hx]))]

/-! ### `_quote` -/

/-- what matters about a legal cookie-name character -/
def legalFacts (c : Char) : Bool :=
  c.toNat ≤ 127 && c != '"' && c != '\\' && c != ';' && c != '=' && c != ' ' && c != '?' &&
  unescapedChars.contains c && 32 ≤ c.toNat

theorem legal_all : legalChars.all legalFacts = true := by decide

theorem isLegal_facts {c : Char} (h : isLegal c = true) : legalFacts c = true := by
  unfold isLegal at h
  exact List.all_eq_true.mp legal_all c (by simpa using h)

theorem isLegal_wire {c : Char} (h : isLegal c = true) :
    c.toNat ≤ 127 ∧ c ≠ ';' ∧ 32 ≤ c.toNat ∧ c ≠ '"' := by
  have hf := isLegal_facts h
  simp only [legalFacts, Bool.and_eq_true, decide_eq_true_eq, bne_iff_ne, ne_eq] at hf
  obtain ⟨⟨⟨⟨⟨⟨⟨⟨h1, h2⟩, _⟩, h4⟩, _⟩, _⟩, _⟩, _⟩, h9⟩ := hf
  exact ⟨h1, h4, h9, h2⟩

/-- a character that `_quote` leaves as it is inside the quotes -/
def wireSafe (c : Char) : Bool := unescapedChars.contains c && c != '"' && c != '\\'

theorem translateChar_safe {c : Char} (h : wireSafe c = true) : translateChar c = [c] := by
  simp only [wireSafe, Bool.and_eq_true, bne_iff_ne, ne_eq] at h
  obtain ⟨⟨h1, h2⟩, h3⟩ := h
  have h2' : (c == '"') = false := by simpa using h2
  have h3' : (c == '\\') = false := by simpa using h3
  unfold translateChar
  rw [if_neg (by simp [h2']), if_neg (by simp [h3']), if_pos h1]

theorem flatMap_translate_safe (s : Str) (h : ∀ c ∈ s, wireSafe c = true) : s.flatMap translateChar = s := by
  induction s with
  | nil => rfl
  | cons c cs ih =>
    rw [List.flatMap_cons, translateChar_safe (h c (by simp)), ih (fun x hx => h x (by simp [hx]))]
    rfl

theorem unquote_quote (s : Str) (h : ∀ c ∈ s, c.toNat < 256) : unquote (quote s) = s := by
  unfold quote
  split
  · rename_i hl
    unfold unquote
    split
    · rfl
    · rename_i hlen
      cases s with
      | nil => simp at hlen
      | cons c cs =>
        simp only [isLegalKey, Bool.and_eq_true, List.all_eq_true] at hl
        have hc : c ≠ '"' := (isLegal_wire (hl.2 c (by simp))).2.2.2
        simp [hc]
  · unfold unquote
    have hlen : ¬ ('"' :: (s.flatMap translateChar ++ ['"'])).length < 2 := by simp
    rw [if_neg hlen]
    have hh : ('"' :: (s.flatMap translateChar ++ ['"'])).head? = some '"' := rfl
    have hl : ('"' :: (s.flatMap translateChar ++ ['"'])).getLast? = some '"' := by
      rw [List.getLast?_cons]; simp
    simp only [hh, hl, bne_self_eq_false, Bool.or_self, Bool.false_eq_true, if_false]
    simp only [List.drop_succ_cons, List.drop_zero, List.dropLast_concat]
    exact unquoteBody_flatMap s h

/-! ### the library contracts (DESIGN.md section 5) -/

/-- the base64 alphabet with padding -/
def isB64Nat (n : Nat) : Bool :=
  (65 ≤ n && n ≤ 90) || (97 ≤ n && n ≤ 122) || (48 ≤ n && n ≤ 57) || n == 43 || n == 47 || n == 61

def isB64Byte (x : UInt8) : Bool := isB64Nat x.toNat

/-- `base64`: output within the alphabet (so no `?`, `!`, `"`, `;`, `\`), decode inverts encode -/
structure B64Contract (L : Lib) : Prop where
  alphabet : ∀ x, ∀ c ∈ L.b64 x, isB64Byte c = true
  inverse : ∀ x, L.unb64 (L.b64 x) = some x

/-- `pickle.loads(pickle.dumps(x)) == x`, for the object `x` in question -/
def PickleAt (L : Lib) (x : Str × CVal) : Prop := L.unpickle (L.pickle x) = some x

/-- a name `set_cookie` accepts and `SimpleCookie` reads back as a cookie: legal characters only,
not an attribute word, not the RFC 2109 `$` attribute syntax -/
def LegalName (n : Str) : Prop := isLegalKey n = true ∧ isReserved n = false ∧ n.head? ≠ some '$'

instance (n : Str) : Decidable (LegalName n) := by unfold LegalName; infer_instance

/-- `SimpleCookie(header)`: the header holding the one pair `name=<what _quote printed for v>`
is read as that one cookie, its value passed through `_unquote` -/
def TokAt (L : Lib) (name v : Str) : Prop :=
  L.load (name ++ '=' :: quote v) = .ok [(name, unquote (quote v))]

/-- … for every legal name and Latin-1 text (the general form of the contract) -/
def TokContract (L : Lib) : Prop :=
  ∀ name v, LegalName name → (∀ c ∈ v, c.toNat < 256) → TokAt L name v

instance {ε α} [DecidableEq ε] [DecidableEq α] : DecidableEq (Except ε α)
  | .ok a, .ok b => if h : a = b then isTrue (h ▸ rfl) else isFalse (fun e => h (Except.ok.inj e))
  | .error a, .error b => if h : a = b then isTrue (h ▸ rfl) else isFalse (fun e => h (Except.error.inj e))
  | .ok _, .error _ => isFalse (fun e => nomatch e)
  | .error _, .ok _ => isFalse (fun e => nomatch e)

instance (L : Lib) (n v : Str) : Decidable (TokAt L n v) := by unfold TokAt; infer_instance
instance (L : Lib) (x : Str × CVal) : Decidable (PickleAt L x) := by unfold PickleAt; infer_instance

def b64Facts (n : Nat) : Bool :=
  !isB64Nat n || (wireSafe (Char.ofNat n) && n ≤ 127 && n != 59 && n != 63 && n != 33)

set_option maxRecDepth 100000 in
theorem b64_facts_all : ∀ n, n < 256 → b64Facts n = true := by decide

theorem b64_inj (L : Lib) (hb : B64Contract L) {x y : Bytes} (h : L.b64 x = L.b64 y) : x = y := by
  have := hb.inverse x
  rw [h, hb.inverse y] at this
  exact (Option.some.inj this).symm

theorem b64_no_qmark (L : Lib) (hb : B64Contract L) (x : Bytes) : (63 : UInt8) ∉ L.b64 x := by
  intro h
  have := hb.alphabet x 63 h
  revert this; decide

theorem lscmp_self (a : Bytes) : lscmp a a = true := (lscmp_iff_eq' a a).mpr rfl

theorem isEncoded_encode (L : Lib) (x : Str × CVal) (key : Bytes) : isEncoded (cookieEncode L x key) = true := by
  simp [isEncoded, cookieEncode]

theorem split_encode (L : Lib) (hb : B64Contract L) (x : Str × CVal) (key : Bytes) :
    splitFirst 63 (cookieEncode L x key) =
      some (33 :: L.b64 (L.hmac key (L.b64 (L.pickle x))), L.b64 (L.pickle x)) := by
  have : cookieEncode L x key = (33 :: L.b64 (L.hmac key (L.b64 (L.pickle x)))) ++ 63 :: L.b64 (L.pickle x) := by
    simp [cookieEncode]
  rw [this]
  apply splitFirst_append
  simp only [List.mem_cons, not_or]
  exact ⟨by decide, b64_no_qmark L hb _⟩

/-- a cookie signed with `key` and presented unchanged verifies, is unpickled exactly once and
yields the pair that was signed -/
theorem cookieDecode_genuine (L : Lib) (hb : B64Contract L) (x : Str × CVal) (hp : PickleAt L x)
    (key : Bytes) : cookieDecode L (cookieEncode L x key) key = (.ok (some x), [L.pickle x]) := by
  unfold cookieDecode
  rw [isEncoded_encode, if_pos rfl, split_encode L hb]
  unfold PickleAt at hp
  simp only [List.drop_succ_cons, List.drop_zero, lscmp_self, if_true, hb.inverse, hp]

theorem cookieDecode_other_key (L : Lib) (hb : B64Contract L) (x : Str × CVal) (key key' : Bytes)
    (hk : L.hmac key' (L.b64 (L.pickle x)) ≠ L.hmac key (L.b64 (L.pickle x))) :
    cookieDecode L (cookieEncode L x key) key' = (.ok none, []) := by
  unfold cookieDecode
  rw [isEncoded_encode, if_pos rfl, split_encode L hb]
  simp only [List.drop_succ_cons, List.drop_zero]
  have : lscmp (L.b64 (L.hmac key (L.b64 (L.pickle x)))) (L.b64 (L.hmac key' (L.b64 (L.pickle x)))) = false := by
    rw [Bool.eq_false_iff]
    intro h
    exact hk (b64_inj L hb ((lscmp_iff_eq' _ _).mp h)).symm
  rw [this]
  rfl

/-! ### ASCII on the wire -/

theorem utf8Enc_latin1Dec_ascii (b : Bytes) (h : ∀ x ∈ b, x.toNat ≤ 127) : utf8Enc (latin1Dec b) = b := by
  induction b with
  | nil => rfl
  | cons x xs ih =>
    have hx : x.toNat ≤ 127 := h x (by simp)
    have h256 : x.toNat < 256 := by omega
    have hc : (Char.ofNat x.toNat).toNat ≤ 127 := by rw [Char.toNat_ofNat_lt256 _ h256]; exact hx
    simp only [latin1Dec, List.map_cons, utf8Enc, List.flatMap_cons] at *
    rw [utf8EncodeChar_ascii _ hc, Char.toNat_ofNat_lt256 _ h256, ih (fun y hy => h y (by simp [hy]))]
    simp

theorem utf8Dec_ascii (b : Bytes) (h : ∀ x ∈ b, x.toNat ≤ 127) : utf8Dec b = some (latin1Dec b) := by
  have := utf8Dec_utf8Enc (latin1Dec b)
  rwa [utf8Enc_latin1Dec_ascii b h] at this

theorem b64Byte_facts {x : UInt8} (h : isB64Byte x = true) :
    wireSafe (Char.ofNat x.toNat) = true ∧ x.toNat ≤ 127 ∧ x.toNat ≠ 59 ∧ x.toNat ≠ 63 ∧ x.toNat ≠ 33 := by
  have := b64_facts_all x.toNat x.toNat_lt
  unfold isB64Byte at h
  simp only [b64Facts, h, Bool.not_true, Bool.false_or, Bool.and_eq_true, decide_eq_true_eq,
    bne_iff_ne, ne_eq] at this
  obtain ⟨⟨⟨⟨h1, h2⟩, h3⟩, h4⟩, h5⟩ := this
  exact ⟨h1, h2, h3, h4, h5⟩

/-- every byte of a signed cookie is `!`, `?` or of the base64 alphabet -/
theorem mem_encode (L : Lib) (hb : B64Contract L) (x : Str × CVal) (key : Bytes) (c : UInt8)
    (hc : c ∈ cookieEncode L x key) : c = 33 ∨ c = 63 ∨ isB64Byte c = true := by
  simp only [cookieEncode, List.mem_append, List.mem_cons, List.not_mem_nil, or_false] at hc
  rcases hc with ((rfl | h) | rfl) | h
  · exact Or.inl rfl
  · exact Or.inr (Or.inr (hb.alphabet _ c h))
  · exact Or.inr (Or.inl rfl)
  · exact Or.inr (Or.inr (hb.alphabet _ c h))

theorem encode_ascii (L : Lib) (hb : B64Contract L) (x : Str × CVal) (key : Bytes) :
    ∀ c ∈ cookieEncode L x key, c.toNat ≤ 127 := by
  intro c hc
  rcases mem_encode L hb x key c hc with rfl | rfl | h
  · decide
  · decide
  · exact (b64Byte_facts h).2.1

/-- the text of a signed cookie: safe inside quotes, ASCII, no `;` -/
theorem encode_chars (L : Lib) (hb : B64Contract L) (x : Str × CVal) (key : Bytes) :
    ∀ c ∈ latin1Dec (cookieEncode L x key), wireSafe c = true ∧ c.toNat ≤ 127 ∧ c ≠ ';' := by
  intro c hc
  simp only [latin1Dec, List.mem_map] at hc
  obtain ⟨b, hb', rfl⟩ := hc
  rcases mem_encode L hb x key b hb' with rfl | rfl | h
  · decide
  · decide
  · obtain ⟨h1, h2, h3, _, _⟩ := b64Byte_facts h
    refine ⟨h1, ?_, ?_⟩
    · rw [Char.toNat_ofNat_lt256 _ b.toNat_lt]; exact h2
    · intro he
      have := congrArg Char.toNat he
      rw [Char.toNat_ofNat_lt256 _ b.toNat_lt] at this
      exact h3 this

theorem encode_text (L : Lib) (x : Str × CVal) (key : Bytes) :
    latin1Dec (cookieEncode L x key) =
      '!' :: (latin1Dec (L.b64 (L.hmac key (L.b64 (L.pickle x)))) ++ '?' :: latin1Dec (L.b64 (L.pickle x))) := by
  simp [cookieEncode, latin1Dec]

/-- a signed cookie is printed between double quotes with nothing escaped -/
theorem quote_signed (L : Lib) (hb : B64Contract L) (x : Str × CVal) (key : Bytes) :
    quote (latin1Dec (cookieEncode L x key)) = '"' :: (latin1Dec (cookieEncode L x key) ++ ['"']) := by
  have hnl : isLegalKey (latin1Dec (cookieEncode L x key)) = false := by
    rw [encode_text]
    simp only [isLegalKey, Bool.and_eq_false_iff]
    right
    rw [Bool.eq_false_iff]
    intro hall
    rw [List.all_eq_true] at hall
    have := hall '?' (by simp)
    revert this; decide
  unfold quote
  rw [hnl]
  simp only [Bool.false_eq_true, if_false]
  rw [flatMap_translate_safe _ (fun c hc => (encode_chars L hb x key c hc).1)]

/-- what may travel unchanged in a `Set-Cookie`/`Cookie` line: printable ASCII other than `;` -/
def WireOk (c : Char) : Prop := c.toNat ≤ 127 ∧ c ≠ ';' ∧ 32 ≤ c.toNat

theorem legalName_chars {n : Str} (h : LegalName n) : ∀ c ∈ n, WireOk c := by
  intro c hc
  have := h.1
  simp only [isLegalKey, Bool.and_eq_true, List.all_eq_true] at this
  have hw := isLegal_wire (this.2 c hc)
  exact ⟨hw.1, hw.2.1, hw.2.2.1⟩

theorem takeWhile_all {α} (p : α → Bool) (l : List α) (h : ∀ x ∈ l, p x = true) : l.takeWhile p = l := by
  induction l with
  | nil => rfl
  | cons x xs ih => simp [List.takeWhile, h x (by simp), ih (fun y hy => h y (by simp [hy]))]

theorem clientHeader_single (h : Str) (hs : ';' ∉ h) : clientHeader [h] = h := by
  unfold clientHeader
  simp only [List.map_cons, List.map_nil]
  rw [takeWhile_all _ _ (fun x hx => by simp; intro he; subst he; exact hs hx)]
  simp [List.intercalate]

theorem dictGet_single (k v : Str) : dictGet [(k, v)] k = some v := by simp [dictGet]

/-! ### the set → emit → return → get chain -/

theorem unescaped_all : unescapedChars.all (fun c => c.toNat ≤ 127 && c != ';' && 32 ≤ c.toNat) = true := by
  decide

/-- what `_quote` prints for Latin-1 text is printable ASCII without `;` (control characters,
`;`, `,` and everything ≥ 0x80 are octal-escaped) -/
theorem quote_chars (v : Str) (hv : ∀ c ∈ v, c.toNat < 256) : ∀ c ∈ quote v, WireOk c := by
  intro c hc
  unfold quote at hc
  split at hc
  · rename_i hl
    simp only [isLegalKey, Bool.and_eq_true, List.all_eq_true] at hl
    have hw := isLegal_wire (hl.2 c hc)
    exact ⟨hw.1, hw.2.1, hw.2.2.1⟩
  · simp only [List.mem_cons, List.mem_append, List.mem_flatMap, List.not_mem_nil, or_false] at hc
    rcases hc with rfl | ⟨x, hx, hcx⟩ | rfl
    · unfold WireOk; decide
    · have hx256 := hv x hx
      unfold translateChar at hcx
      split at hcx
      · simp only [List.mem_cons, List.not_mem_nil, or_false] at hcx
        rcases hcx with rfl | rfl <;> (unfold WireOk; decide)
      · split at hcx
        · simp only [List.mem_cons, List.not_mem_nil, or_false] at hcx
          rcases hcx with rfl | rfl <;> (unfold WireOk; decide)
        · split at hcx
          · rename_i hu
            simp only [List.mem_singleton] at hcx
            subst hcx
            have := List.all_eq_true.mp unescaped_all c (by simpa using hu)
            simp only [Bool.and_eq_true, decide_eq_true_eq, bne_iff_ne, ne_eq] at this
            exact ⟨this.1.1, this.1.2, this.2⟩
          · simp only [List.mem_cons, List.not_mem_nil, or_false] at hcx
            have hd : ∀ k, k ≤ 7 → WireOk (octDigit k) := by
              intro k hk
              have := octDigit_toNat k hk
              refine ⟨by omega, ?_, by omega⟩
              intro he
              rw [he] at this
              have h59 : (';' : Char).toNat = 59 := by decide
              omega
            rcases hcx with rfl | rfl | rfl | rfl
            · unfold WireOk; decide
            · exact hd _ (by omega)
            · exact hd _ (by omega)
            · exact hd _ (by omega)
    · unfold WireOk; decide

/-- the one `Set-Cookie` line for `name=coded` when everything in it is ASCII without `;`, and
what the client then sends -/
theorem wire_single (name coded : Str) (h : ∀ c ∈ name ++ '=' :: coded, WireOk c) :
    clientHeader (emit [(name, coded)]) = name ++ '=' :: coded := by
  simp only [emit, List.map_cons, List.map_nil]
  rw [transcode_ascii _ (fun c hc => (h c hc).1)]
  exact clientHeader_single _ (fun hs => (h ';' hs).2.1 rfl)

theorem wire_chars (name coded : Str) (hn : LegalName name) (hc : ∀ c ∈ coded, WireOk c) :
    ∀ c ∈ name ++ '=' :: coded, WireOk c := by
  intro c hm
  simp only [List.mem_append, List.mem_cons] at hm
  rcases hm with h | rfl | h
  · exact legalName_chars hn c h
  · unfold WireOk; decide
  · exact hc c h

theorem jarSet_nil (k v : Str) : jarSet [] k v = [(k, v)] := by simp [jarSet]

/-- `set_cookie(name, value, secret)` on an empty jar, for a legal name and a cookie that fits -/
theorem setCookie_signed (L : Lib) (hb : B64Contract L) (name : Str) (value : CVal) (secret : Bytes)
    (hn : LegalName name) (hs : secret ≠ []) (hlen : (cookieEncode L (name, value) secret).length ≤ 4096) :
    setCookie L [] name value secret = .ok [(name, quote (latin1Dec (cookieEncode L (name, value) secret)))] := by
  have hse : secret.isEmpty = false := by simpa using hs
  have hdec := utf8Dec_ascii _ (encode_ascii L hb (name, value) secret)
  have hl : ¬ (latin1Dec (cookieEncode L (name, value) secret)).length > 4096 := by
    simp [latin1Dec]; omega
  unfold setCookie
  simp only [hse, Bool.not_false, if_true, hdec, bind, Except.bind, pure, Except.pure, hl, if_false,
    hn.2.1, hn.1, Bool.not_true, Bool.or_self, Bool.false_eq_true, jarSet_nil]

theorem setCookie_plain (L : Lib) (name v : Str) (hn : LegalName name) (hlen : v.length ≤ 4096) :
    setCookie L [] name (.text v) [] = .ok [(name, quote v)] := by
  have hl : ¬ v.length > 4096 := by omega
  unfold setCookie
  simp only [List.isEmpty_nil, Bool.not_true, Bool.false_eq_true, if_false, bind, Except.bind, pure,
    Except.pure, hl, hn.2.1, hn.1, Bool.or_self, jarSet_nil]

/-- reading, with any non-empty secret, the request that returns a cookie signed under `key` -/
theorem getCookie_of_signed (L : Lib) (hb : B64Contract L) (name : Str) (value : CVal) (key secret : Bytes)
    (hn : LegalName name) (hs : secret ≠ [])
    (ht : TokAt L name (latin1Dec (cookieEncode L (name, value) key))) :
    getCookie L (clientHeader (emit [(name, quote (latin1Dec (cookieEncode L (name, value) key)))])) name secret =
      match cookieDecode L (cookieEncode L (name, value) key) secret with
      | (.error e, calls) => (.error e, calls)
      | (.ok none, calls) => (.ok none, calls)
      | (.ok (some (n, v)), calls) => (if n == name then .ok (some v) else .ok none, calls) := by
  have hch := encode_chars L hb (name, value) key
  have h256 : ∀ c ∈ latin1Dec (cookieEncode L (name, value) key), c.toNat < 256 :=
    fun c hc => by have := (hch c hc).2.1; omega
  rw [wire_single _ _ (wire_chars _ _ hn (quote_chars _ h256))]
  unfold getCookie
  unfold TokAt at ht
  rw [ht, unquote_quote _ h256]
  simp only [dictGet_single]
  have hse : secret.isEmpty = false := by simpa using hs
  have hne : (latin1Dec (cookieEncode L (name, value) key)).isEmpty = false := by
    rw [encode_text]; rfl
  simp only [hse, hne, Bool.not_false, Bool.and_self, if_true]
  rw [utf8Enc_latin1Dec_ascii _ (encode_ascii L hb (name, value) key)]
  generalize cookieDecode L (cookieEncode L (name, value) key) secret = res
  obtain ⟨r, calls⟩ := res
  cases r with
  | error e => rfl
  | ok o =>
    cases o with
    | none => rfl
    | some p => rfl

/-! ### one request object: the cached cookies always belong to the header it carries -/

/-- what is cached is what parsing the current `HTTP_COOKIE` gives -/
def Coherent (L : Lib) (r : Req) : Prop := ∀ c, r.cache = some c → L.load (r.hdr.getD []) = .ok c

theorem coherent_fresh (L : Lib) (h : Option Str) : Coherent L { hdr := h, cache := none } := by
  intro c hc; cases hc

theorem setItem_coherent (L : Lib) (r : Req) (k v : Str) (hc : Coherent L r) : Coherent L (r.setItem k v) := by
  unfold Req.setItem
  split
  · split
    · exact hc
    · exact coherent_fresh L _
  · split
    · intro c h; cases h
    · exact hc

theorem setItem_hdr (r : Req) (v : Str) : (r.setItem cookieKey v).hdr = some v := by
  unfold Req.setItem
  simp only [beq_self_eq_true, if_true]
  split
  · rename_i h; simpa using h
  · rfl

theorem setItem_other_hdr (r : Req) (k v : Str) (hk : k ≠ cookieKey) : (r.setItem k v).hdr = r.hdr := by
  unfold Req.setItem
  have : (k == cookieKey) = false := by simpa using hk
  simp only [this, Bool.false_eq_true, if_false]
  split <;> rfl

theorem delItem_coherent (L : Lib) (r : Req) (k : Str) (hc : Coherent L r) : Coherent L (r.delItem k) := by
  unfold Req.delItem
  have h1 := setItem_coherent L r k [] hc
  split
  · rename_i hk
    simp only [beq_iff_eq] at hk
    subst hk
    intro c hcache
    have hh := setItem_hdr r []
    have := h1 c hcache
    simp only [hh, Option.getD_some] at this
    simpa using this
  · exact h1

theorem delItem_hdr (r : Req) : (r.delItem cookieKey).hdr = none := by
  simp [Req.delItem]

theorem delItem_other_hdr (r : Req) (k : Str) (hk : k ≠ cookieKey) : (r.delItem k).hdr = r.hdr := by
  unfold Req.delItem
  have : (k == cookieKey) = false := by simpa using hk
  simp only [this, Bool.false_eq_true, if_false]
  exact setItem_other_hdr r k [] hk

/-- a read on a coherent request object is a read of the header it carries; it keeps header and coherence -/
theorem req_getCookie (L : Lib) (r : Req) (hc : Coherent L r) (key : Str) (secret : Bytes) :
    (r.getCookie L key secret).1 = getCookie L (r.hdr.getD []) key secret ∧
    (r.getCookie L key secret).2.hdr = r.hdr ∧ Coherent L (r.getCookie L key secret).2 := by
  unfold Req.getCookie Req.cookies getCookie
  cases hcache : r.cache with
  | some c =>
    simp only [hc c hcache]
    exact ⟨trivial, trivial, hc⟩
  | none =>
    simp only
    cases hl : L.load (r.hdr.getD []) with
    | error e => simp only; exact ⟨trivial, trivial, hc⟩
    | ok c =>
      simp only
      refine ⟨trivial, trivial, ?_⟩
      intro c' hc'
      simp only [Option.some.injEq] at hc'
      subst hc'
      exact hl

end Ombott.Cookies
