import OmbottModel.Model.WsgiSpec
import OmbottModel.Lemmas.WsgiStatus
import OmbottModel.Lemmas.WsgiUtf8
import OmbottModel.Lemmas.WsgiCast
/-! Well-formedness of the response object is an invariant of `_handle` and `_cast`
(conjunct (b) of C03). -/
namespace Ombott.Wsgi
open Py

def hdrEntryOK (h : Str × List HVal) : Bool := noCRLF h.1 && h.2.all HVal.ok
def cookieOK (c : Str × Str) : Bool := noCRLF c.1 && noCRLF c.2

theorem RState.ok_iff (st : RState) :
    st.ok = true ↔ lineFor st.code st.line = true ∧ st.headers.all hdrEntryOK = true ∧
      st.cookies.all cookieOK = true := by
  unfold RState.ok
  simp only [Bool.and_eq_true, and_assoc]
  rfl

theorem Hdrs.set_all (q : Str × List HVal → Bool) (h : Hdrs) (k : Str) (v : List HVal)
    (hh : h.all q = true) (hq : q (k, v) = true) : (Hdrs.set h k v).all q = true := by
  induction h with
  | nil => simp [Hdrs.set, hq]
  | cons p ps ih =>
    obtain ⟨k', v'⟩ := p
    simp only [List.all_cons, Bool.and_eq_true] at hh
    unfold Hdrs.set
    split
    · simp only [List.all_cons, Bool.and_eq_true]; exact ⟨hq, hh.2⟩
    · simp only [List.all_cons, Bool.and_eq_true]; exact ⟨hh.1, ih hh.2⟩

theorem Hdrs.append_ok (h : Hdrs) (k : Str) (v : HVal)
    (hh : h.all hdrEntryOK = true) (hk : noCRLF k = true) (hv : v.ok = true) :
    (Hdrs.append h k v).all hdrEntryOK = true := by
  induction h with
  | nil => simp [Hdrs.append, hdrEntryOK, hk, hv]
  | cons p ps ih =>
    obtain ⟨k', v'⟩ := p
    simp only [List.all_cons, Bool.and_eq_true] at hh
    unfold Hdrs.append
    split
    · simp only [List.all_cons, Bool.and_eq_true]
      refine ⟨?_, hh.2⟩
      have := hh.1
      simp only [hdrEntryOK, Bool.and_eq_true, List.all_append, List.all_cons, List.all_nil,
        Bool.and_true] at this ⊢
      exact ⟨this.1, this.2, hv⟩
    · simp only [List.all_cons, Bool.and_eq_true]; exact ⟨hh.1, ih hh.2⟩

theorem Cookies.set_all (c : Cookies) (k v : Str) (hc : c.all cookieOK = true)
    (hq : cookieOK (k, v) = true) : (Cookies.set c k v).all cookieOK = true := by
  induction c with
  | nil => simp [Cookies.set, hq]
  | cons p ps ih =>
    obtain ⟨k', v'⟩ := p
    simp only [List.all_cons, Bool.and_eq_true] at hc
    unfold Cookies.set
    split
    · simp only [List.all_cons, Bool.and_eq_true]; exact ⟨hq, hc.2⟩
    · simp only [List.all_cons, Bool.and_eq_true]; exact ⟨hc.1, ih hc.2⟩

theorem statusSet_ok (a : StatusArg) (ha : a.ok = true) (c : Nat) (l : Str)
    (h : statusSet a = some (c, l)) : lineFor c l = true := by
  cases a with
  | code n => exact statusSet_code_ok n c l h
  | line s =>
    obtain ⟨c', hs, hl⟩ := statusSet_line_ok s ha
    rw [hs] at h
    simp only [Option.some.injEq, Prod.mk.injEq] at h
    obtain ⟨rfl, rfl⟩ := h
    exact hl

theorem runEff_ok (st st' : RState) (e : Eff) (hst : st.ok = true) (he : e.ok = true)
    (h : runEff st e = some st') : st'.ok = true := by
  rw [RState.ok_iff] at hst ⊢
  obtain ⟨h1, h2, h3⟩ := hst
  cases e with
  | setStatus a =>
    simp only [runEff, Option.map_eq_some_iff] at h
    obtain ⟨⟨c, l⟩, hs, rfl⟩ := h
    exact ⟨statusSet_ok a he c l hs, h2, h3⟩
  | setHeader k v =>
    simp only [runEff] at h
    split at h
    · rename_i hv
      simp only [Option.some.injEq] at h
      subst h
      refine ⟨h1, Hdrs.set_all _ _ _ _ h2 ?_, h3⟩
      simp only [hdrEntryOK, List.all_cons, List.all_nil, Bool.and_true, HVal.ok, Bool.and_eq_true]
      exact ⟨he, hv⟩
    · cases h
  | addHeader k v =>
    simp only [runEff] at h
    split at h
    · rename_i hv
      simp only [Option.some.injEq] at h
      subst h
      exact ⟨h1, Hdrs.append_ok _ _ _ h2 he hv, h3⟩
    · cases h
  | setBadHeader k =>
    simp only [runEff, Option.some.injEq] at h
    subst h
    refine ⟨h1, Hdrs.set_all _ _ _ _ h2 ?_, h3⟩
    simp only [hdrEntryOK, List.all_cons, List.all_nil, Bool.and_true, HVal.ok]
    exact he
  | setCookie k v =>
    simp only [runEff, Option.some.injEq] at h
    subst h
    exact ⟨h1, h2, Cookies.set_all _ _ _ h3 he⟩

theorem runEffs_ok (effs : List Eff) (st : RState) (hst : st.ok = true)
    (he : effs.all Eff.ok = true) : (runEffs effs st).1.ok = true := by
  induction effs generalizing st with
  | nil => exact hst
  | cons e es ih =>
    simp only [List.all_cons, Bool.and_eq_true] at he
    unfold runEffs
    cases h : runEff st e with
    | none => exact hst
    | some st' => exact ih st' (runEff_ok st st' e hst he.1 h) he.2

theorem apply_ok (r st : RState) (hr : r.ok = true) (hst : st.ok = true) : (apply r st).ok = true := by
  rw [RState.ok_iff] at hr hst ⊢
  unfold apply
  refine ⟨hr.1, hr.2.1, ?_⟩
  simp only
  split
  · exact hst.2.2
  · exact hr.2.2

theorem init_ok : RState.init.ok = true := by decide +kernel

theorem Out.all_self (p : Out → Bool) (o : Out) (h : Out.all p o = true) : p o = true := by
  cases o <;> simp only [Out.all, Bool.and_eq_true] at h <;> first | exact h | exact h.1

theorem mkError_ok (code : Nat) (body : Str) (hdrs : Hdrs) (h1 : 100 ≤ code) (h2 : code ≤ 999)
    (hh : hdrs.all hdrEntryOK = true) : Out.all respOK (mkError code body hdrs) = true := by
  unfold mkError
  simp only [Out.all, respOK, Bool.and_true]
  rw [RState.ok_iff]
  exact ⟨lineOfCode_ok code h1 h2, hh, rfl⟩

theorem Item.allL_mem (p : Out → Bool) (items : List Item) (h : Item.allL p items = true)
    (i : Item) (hi : i ∈ items) : Item.all1 p i = true := by
  induction items with
  | nil => cases hi
  | cons x xs ih =>
    simp only [Item.allL, Bool.and_eq_true] at h
    rcases List.mem_cons.mp hi with rfl | hm
    · exact h.1
    · exact ih h.2 hm

theorem skipEmpty_suffix (items : List Item) : ∀ i ∈ skipEmpty items, i ∈ items := by
  induction items with
  | nil => intro i hi; exact hi
  | cons x xs ih =>
    intro i hi
    unfold skipEmpty at hi
    split at hi
    all_goals first
      | exact List.mem_cons_of_mem _ (ih i hi)
      | exact hi
      | skip
    all_goals (rename_i heq; cases heq; exact List.mem_cons_of_mem _ (ih i hi))

/-! ### objects flowing through `_handle` -/

/-- what the model itself constructs satisfies `p` -/
structure Internal (p : Out → Bool) : Prop where
  text : ∀ t, p (.text t) = true
  falsy : ∀ k, p (.falsy k) = true
  err : ∀ code body hdrs, 100 ≤ code → code ≤ 999 → hdrs.all hdrEntryOK = true →
    p (mkError code body hdrs) = true

theorem Internal.mkError_all {p : Out → Bool} (hp : Internal p) (code : Nat) (body : Str) (hdrs : Hdrs)
    (h1 : 100 ≤ code) (h2 : code ≤ 999) (hh : hdrs.all hdrEntryOK = true) :
    Out.all p (mkError code body hdrs) = true := by
  have := hp.err code body hdrs h1 h2 hh
  unfold mkError at this ⊢
  simp only [Out.all, Bool.and_eq_true]
  exact ⟨this, hp.text _⟩

theorem internal_respOK : Internal respOK where
  text := fun _ => rfl
  falsy := fun _ => rfl
  err := fun code body hdrs h1 h2 hh => Out.all_self _ _ (mkError_ok code body hdrs h1 h2 hh)

theorem internal_homog : Internal homog where
  text := fun _ => rfl
  falsy := fun _ => rfl
  err := fun _ _ _ _ _ _ => rfl

def Flow.all (p : Out → Bool) : Flow → Bool
  | .ret o => Out.all p o
  | .resp o => Out.all p o
  | .exc => true

theorem runBefore_inv (p : Out → Bool) (l : List (Nat × Hook)) (st : RState)
    (hst : st.ok = true) (heff : l.all (fun q => q.2.effs.all Eff.ok) = true)
    (hres : l.all (fun q => q.2.res.all p) = true) :
    (runBefore l st).1.ok = true ∧
    (∀ fl, (runBefore l st).2.2 = some fl → fl.all p = true) := by
  induction l generalizing st with
  | nil => exact ⟨hst, fun fl h => by cases h⟩
  | cons q qs ih =>
    obtain ⟨i, h⟩ := q
    simp only [List.all_cons, Bool.and_eq_true] at heff hres
    have hok := runEffs_ok h.effs st hst heff.1
    unfold runBefore
    rcases hr : runEffs h.effs st with ⟨st', b⟩
    rw [hr] at hok
    simp only at hok ⊢
    cases b with
    | true => exact ⟨hok, fun fl hfl => by cases hfl; rfl⟩
    | false =>
      simp only
      have hres1 := hres.1
      cases hres' : h.res with
      | raisesResp o =>
        rw [hres'] at hres1
        exact ⟨hok, fun fl hfl => by cases hfl; exact hres1⟩
      | raises => exact ⟨hok, fun fl hfl => by cases hfl; rfl⟩
      | ok => exact ih st' hok heff.2 hres.2

theorem runAfter_inv (p : Out → Bool) (l : List (Nat × Hook)) (st : RState) (fl : Flow)
    (hst : st.ok = true) (hfl : fl.all p = true)
    (heff : l.all (fun q => q.2.effs.all Eff.ok) = true)
    (hres : l.all (fun q => q.2.res.all p) = true) :
    (runAfter l st fl).1.ok = true ∧ (runAfter l st fl).2.2.all p = true := by
  induction l generalizing st with
  | nil => exact ⟨hst, hfl⟩
  | cons q qs ih =>
    obtain ⟨j, h⟩ := q
    simp only [List.all_cons, Bool.and_eq_true] at heff hres
    have hok := runEffs_ok h.effs st hst heff.1
    unfold runAfter
    rcases hr : runEffs h.effs st with ⟨st', b⟩
    rw [hr] at hok
    simp only at hok ⊢
    cases b with
    | true => exact ⟨hok, rfl⟩
    | false =>
      simp only
      have hres1 := hres.1
      cases hres' : h.res with
      | raisesResp o =>
        rw [hres'] at hres1
        exact ⟨hok, hres1⟩
      | raises => exact ⟨hok, rfl⟩
      | ok => exact ih st' hok heff.2 hres.2

theorem allow_hdr_ok (allow : Str) (h : hvalOk allow = true) :
    List.all [("Allow".toList, [HVal.good allow])] hdrEntryOK = true := by
  simp only [List.all_cons, List.all_nil, Bool.and_true, hdrEntryOK, HVal.ok, h, Bool.and_true]
  decide

theorem runRoute_inv (p : Out → Bool) (hp : Internal p) (route : Route) (st : RState)
    (hst : st.ok = true) (heff : route.effsOK = true) (hres : route.all p = true) :
    (runRoute route st).1.ok = true ∧ (runRoute route st).2.2.all p = true := by
  unfold runRoute
  cases route with
  | notFound => exact ⟨hst, hp.mkError_all 404 _ [] (by omega) (by omega) rfl⟩
  | notAllowed allow =>
    exact ⟨hst, hp.mkError_all 405 _ _ (by omega) (by omega) (allow_hdr_ok allow heff)⟩
  | found h =>
    simp only [Route.effsOK, Route.all] at heff hres
    have hok := runEffs_ok h.effs st hst heff
    simp only
    rcases hr : runEffs h.effs st with ⟨st', b⟩
    rw [hr] at hok
    simp only at hok ⊢
    cases b with
    | true => exact ⟨hok, rfl⟩
    | false =>
      simp only
      cases hres' : h.res with
      | returns o => rw [hres'] at hres; exact ⟨hok, hres⟩
      | raisesResp o => rw [hres'] at hres; exact ⟨hok, hres⟩
      | raises => exact ⟨hok, rfl⟩

theorem settle_inv (p : Out → Bool) (hp : Internal p) (fl : Flow) (h : fl.all p = true) :
    Out.all p (settle fl).2 = true := by
  cases fl with
  | ret o => exact h
  | resp o => exact h
  | exc => exact hp.mkError_all 500 _ [] (by omega) (by omega) rfl

theorem enumFrom_all' {α} (p : α → Bool) (l : List α) (i : Nat) :
    (enumFrom i l).all (fun q => p q.2) = l.all p := by
  induction l generalizing i with
  | nil => rfl
  | cons a r ih => simp only [enumFrom, List.all_cons, ih]

theorem hookList_all (name : String) (hooks : List Hook) (q : Hook → Bool) (h : hooks.all q = true) :
    (hookList name hooks).all (fun x => q x.2) = true := by
  unfold hookList
  split
  · rw [List.all_reverse, enumFrom_all' q]; exact h
  · rw [enumFrom_all' q]; exact h

/-- `_handle` leaves a well-formed response object and hands `_cast` an object of the domain -/
theorem handle_inv (p : Out → Bool) (hp : Internal p) (app : App) (s : Slots) (r : Req)
    (heff : app.effsOK = true) (hall : app.all p = true)
    (hreff : r.route.effsOK = true) (hrall : r.route.all p = true) :
    (handle app s r).1.resp.ok = true ∧ Out.all p (handle app s r).2.2 = true := by
  unfold App.effsOK at heff
  unfold App.all at hall
  simp only [Bool.and_eq_true] at heff hall
  unfold handle
  rw [reinit_eq]
  unfold handleFrom
  simp only
  split
  · exact ⟨init_ok, hp.mkError_all 400 _ [] (by omega) (by omega) rfl⟩
  · have hb := runBefore_inv p (hookList "before_request" app.before) RState.init init_ok
      (hookList_all _ _ (fun h => h.effs.all Eff.ok) heff.1)
      (hookList_all _ _ (fun h => h.res.all p) hall.1.1)
    rcases hrb : runBefore (hookList "before_request" app.before) RState.init with ⟨st1, ev1, fl1⟩
    rw [hrb] at hb
    simp only at hb ⊢
    have haE := hookList_all "after_request" app.after (fun h => h.effs.all Eff.ok) heff.2
    have haR := hookList_all "after_request" app.after (fun h => h.res.all p) hall.1.2
    cases fl1 with
    | some fl =>
      simp only
      have ha := runAfter_inv p (hookList "after_request" app.after) st1 fl hb.1 (hb.2 fl rfl) haE haR
      rcases hra : runAfter (hookList "after_request" app.after) st1 fl with ⟨st3, ev3, fl3⟩
      rw [hra] at ha
      simp only at ha ⊢
      exact ⟨ha.1, settle_inv p hp fl3 ha.2⟩
    | none =>
      simp only
      have hr := runRoute_inv p hp r.route st1 hb.1 hreff hrall
      rcases hrr : runRoute r.route st1 with ⟨st2, ev2, fl2⟩
      rw [hrr] at hr
      simp only at hr ⊢
      have ha := runAfter_inv p (hookList "after_request" app.after) st2 fl2 hr.1 hr.2 haE haR
      rcases hra : runAfter (hookList "after_request" app.after) st2 fl2 with ⟨st3, ev3, fl3⟩
      rw [hra] at ha
      simp only at ha ⊢
      exact ⟨ha.1, settle_inv p hp fl3 ha.2⟩

/-! ### objects flowing through `_cast` -/

theorem errHandler_all (p : Out → Bool) (app : App) (hall : app.all p = true) (code : Nat)
    (eh : ErrHandler) (h : errHandlerFor app code = some eh) : eh.all p = true := by
  unfold App.all at hall
  simp only [Bool.and_eq_true] at hall
  unfold errHandlerFor at h
  simp only [Option.map_eq_some_iff] at h
  obtain ⟨q, hq, rfl⟩ := h
  exact (List.all_eq_true.mp hall.2) q (List.mem_of_find?_eq_some hq)

theorem Out.all_body (p : Out → Bool) (e : Bool) (r : RState) (b : Out)
    (h : Out.all p (.resp e r b) = true) : Out.all p b = true := by
  simp only [Out.all, Bool.and_eq_true] at h; exact h.2

theorem Out.all_items (p : Out → Bool) (id : Nat) (hc : Bool) (items : List Item)
    (h : Out.all p (.iter id hc items) = true) : Item.allL p items = true := by
  simp only [Out.all, Bool.and_eq_true] at h; exact h.2

/-- the objects `castIter` continues with come out of the item list (or are built by the
model) -/
theorem castIter_out_all (p : Out → Bool) (hp : Internal p) (cnt : Nat) (s : Slots) (id : Nat)
    (hc : Bool) (items : List Item) (hi : Item.allL p items = true) :
    ∀ cnt' s' o', castIter cnt s id hc items = .run cnt' s' o' → s' = s ∧ Out.all p o' = true := by
  intro cnt' s' o' h
  have hmem := skipEmpty_suffix items
  unfold castIter at h
  simp only at h
  split at h
  · cases h; exact ⟨rfl, hp.falsy _⟩
  · rename_i o tl heq
    cases h
    have := Item.allL_mem p items hi (.raisesResp o') (hmem _ (by rw [heq]; exact List.mem_cons_self ..))
    exact ⟨rfl, this⟩
  · rename_i o tl heq
    cases h
    have := Item.allL_mem p items hi (.yields o') (hmem _ (by rw [heq]; exact List.mem_cons_self ..))
    exact ⟨rfl, this⟩
  · cases h; exact ⟨rfl, hp.mkError_all 500 _ [] (by omega) (by omega) rfl⟩
  · cases h; exact ⟨rfl, hp.mkError_all 500 _ [] (by omega) (by omega) rfl⟩
  · cases h
  · cases h
  · cases h; exact ⟨rfl, hp.falsy _⟩

theorem castIter_done_slots (cnt : Nat) (s : Slots) (id : Nat) (hc : Bool) (items : List Item) :
    ∀ s' r, castIter cnt s id hc items = .done s' r → s' = s := by
  intro s' r h
  unfold castIter at h
  simp only at h
  split at h <;> cases h <;> rfl

theorem natStr_hvalOk (n : Nat) : hvalOk (natStr n) = true := by
  unfold hvalOk
  have hd := natStr_digits n
  have hno : ∀ ch : Char, ch.isDigit = false → (natStr n).contains ch = false := by
    intro ch hch
    cases hcon : (natStr n).contains ch with
    | false => rfl
    | true =>
      have := hd ch (List.contains_iff_mem.mp hcon)
      rw [this] at hch; cases hch
  rw [hno '\n' (by decide), hno '\r' (by decide), hno (Char.ofNat 0) (by decide)]
  rfl

theorem setdefault_cl_ok (h : Hdrs) (n : Nat) (hh : h.all hdrEntryOK = true) :
    (h.setdefault "Content-Length".toList (.good (natStr n))).1.all hdrEntryOK = true := by
  unfold Hdrs.setdefault
  split
  · exact hh
  · simp only [List.all_append, hh, Bool.true_and, List.all_cons, List.all_nil, Bool.and_true,
      hdrEntryOK, HVal.ok, natStr_hvalOk, Bool.and_true]
    decide

theorem finishEmpty_ok (s : Slots) (hs : s.resp.ok = true) :
    ∀ s' r, finishEmpty s = .done s' r → s'.resp.ok = true := by
  intro s' r h
  unfold finishEmpty at h
  simp only [Cfg.done.injEq] at h
  obtain ⟨rfl, _⟩ := h
  rw [RState.ok_iff] at hs ⊢
  exact ⟨hs.1, setdefault_cl_ok _ 0 hs.2.1, hs.2.2⟩

theorem finishBytes_ok (s : Slots) (b : Bytes) (hs : s.resp.ok = true) :
    ∀ s' r, finishBytes s b = .done s' r → s'.resp.ok = true := by
  intro s' r h
  unfold finishBytes at h
  simp only [Cfg.done.injEq] at h
  obtain ⟨rfl, _⟩ := h
  rw [RState.ok_iff] at hs ⊢
  exact ⟨hs.1, setdefault_cl_ok _ b.length hs.2.1, hs.2.2⟩

/-- invariant of the loop for conjunct (b): the response object stays well formed and the
current output stays inside the domain -/
def CfgInv (p : Out → Bool) : Cfg → Prop
  | .run _ s o => s.resp.ok = true ∧ Out.all p o = true
  | .done s _ => s.resp.ok = true

theorem finish_isDone_inv (p : Out → Bool) (c : Cfg) (hd : c.isDone = true)
    (h : ∀ s' r, c = .done s' r → s'.resp.ok = true) : CfgInv p c := by
  cases c with
  | done s' r => exact h s' r rfl
  | run _ _ _ => cases hd

theorem json_ctype_ok : hdrEntryOK ("Content-Type".toList, [HVal.good "application/json".toList]) = true := by
  decide

theorem defaultHandler_ok (p : Out → Bool) (hp : Internal p) (s : Slots) (r : RState) (body : Out)
    (s' : Slots) (o : Out) (hs : s.resp.ok = true) (h : defaultHandler s r body = some (s', o)) :
    s'.resp.ok = true ∧ Out.all p o = true := by
  rcases defaultHandler_cases s r body s' o h with ⟨rfl, rfl⟩ | ⟨j, rfl, rfl⟩
  · exact ⟨hs, hp.text _⟩
  · refine ⟨?_, hp.text _⟩
    rw [RState.ok_iff] at hs ⊢
    exact ⟨hs.1, Hdrs.set_all _ _ _ _ hs.2.1 json_ctype_ok, hs.2.2⟩

theorem castOut_inv (p : Out → Bool) (hp : Internal p) (hsub : ∀ o, Out.all p o = true → respOK o = true)
    (app : App) (hall : app.all p = true)
    (fw : Bool) (cnt : Nat) (s : Slots) (out : Out) (hs : s.resp.ok = true) (ho : Out.all p out = true) :
    CfgInv p (castOut app fw cnt s out) := by
  unfold castOut
  split
  · exact finish_isDone_inv p _ (finishEmpty_done s) (finishEmpty_ok s hs)
  · split
    · exact finish_isDone_inv p _ (finishEmpty_done s) (finishEmpty_ok s hs)
    · exact finish_isDone_inv p _ (finishBytes_done s _) (finishBytes_ok s _ hs)
  · split
    · exact finish_isDone_inv p _ (finishEmpty_done s) (finishEmpty_ok s hs)
    · exact finish_isDone_inv p _ (finishBytes_done s _) (finishBytes_ok s _ hs)
  · rename_i r body
    have hr : r.ok = true := hsub _ ho
    have hs' : (withResp s (apply r s.resp)).resp.ok = true := apply_ok r s.resp hr hs
    simp only
    split
    · split
      · exact hs'
      · rename_i s'' o hd
        exact defaultHandler_ok p hp _ _ _ _ _ hs' hd
    · rename_i o heh
      exact ⟨hs', errHandler_all p app hall r.code _ heh⟩
    · exact ⟨hs', Out.all_body p _ _ _ ho⟩
    · exact hs'
  · rename_i r body
    have hr : r.ok = true := hsub _ ho
    exact ⟨apply_ok r s.resp hr hs, Out.all_body p _ _ _ ho⟩
  · split
    · exact hs
    · split
      · exact hs
      · rename_i id hc hi content _ _
        generalize hci : castIter cnt s id false (if content.isEmpty = true then [] else [Item.bytes content]) = c
        cases c with
        | done s' r => rw [castIter_done_slots _ _ _ _ _ s' r hci]; exact hs
        | run cnt' s' o' =>
          have := castIter_out_all p hp cnt s id false _ (by split <;> rfl) cnt' s' o' hci
          exact ⟨this.1 ▸ hs, this.2⟩
  · rename_i id hc items
    generalize hci : castIter cnt s id hc items = c
    cases c with
    | done s' r => rw [castIter_done_slots _ _ _ _ _ s' r hci]; exact hs
    | run cnt' s' o' =>
      have := castIter_out_all p hp cnt s id hc items (Out.all_items p _ _ _ ho) cnt' s' o' hci
      exact ⟨this.1 ▸ hs, this.2⟩
  · exact ⟨hs, hp.mkError_all 500 _ [] (by omega) (by omega) rfl⟩

theorem e500_ok : ({ code := 500, line := lineOfCode 500, headers := [], cookies := [] } : RState).ok = true := by
  rw [RState.ok_iff]
  exact ⟨lineOfCode_ok 500 (by omega) (by omega), rfl, rfl⟩

theorem step_inv (p : Out → Bool) (hp : Internal p) (hsub : ∀ o, Out.all p o = true → respOK o = true)
    (app : App) (hall : app.all p = true) (fw : Bool) (c : Cfg) (h : CfgInv p c) :
    CfgInv p (step app fw c) := by
  cases c with
  | done s r => exact h
  | run cnt s out =>
    unfold step
    simp only
    split
    · have hs' := apply_ok _ _ e500_ok h.1
      split
      · exact hs'
      · rename_i s'' o hd
        have := defaultHandler_ok p hp _ _ _ _ _ hs' hd
        exact castOut_inv p hp hsub app hall fw _ s'' o this.1 this.2
    · exact castOut_inv p hp hsub app hall fw _ s out h.1 h.2

/-- `_cast` leaves the response object well formed -/
theorem cast_resp_ok (p : Out → Bool) (hp : Internal p) (hsub : ∀ o, Out.all p o = true → respOK o = true)
    (app : App) (hall : app.all p = true) (fw : Bool) (s : Slots) (out : Out)
    (hs : s.resp.ok = true) (ho : Out.all p out = true) : (cast app fw s out).1.resp.ok = true := by
  have := runLoop_invariant app fw (CfgInv p) (step_inv p hp hsub app hall fw)
    (Gen.wsgiCastMaxLoops + 1) (.run 0 s out) ⟨hs, ho⟩
  unfold cast
  split
  · rename_i heq; rw [heq] at this; exact this
  · rename_i heq; rw [heq] at this; exact this.1

/-! ### `headerlist` -/

theorem hvalOk_noCRLF (v : Str) (h : hvalOk v = true) : noCRLF v = true := by
  unfold hvalOk at h
  simp only [Bool.not_eq_eq_eq_not, Bool.not_true, Bool.or_eq_false_iff] at h
  unfold noCRLF
  rw [List.all_eq_true]
  intro ch hch
  simp only [Bool.and_eq_true, bne_iff_ne, ne_eq]
  constructor
  · intro he; subst he
    have := List.contains_iff_mem.mpr hch
    rw [h.1.2] at this; cases this
  · intro he; subst he
    have := List.contains_iff_mem.mpr hch
    rw [h.1.1] at this; cases this

theorem noCRLF_append (a b : Str) (ha : noCRLF a = true) (hb : noCRLF b = true) :
    noCRLF (a ++ b) = true := by
  unfold noCRLF at *
  rw [List.all_append, ha, hb]; rfl

/-- every pair `headerlist` emits from a well-formed response object is free of CR and LF -/
theorem headerlist_ok (st : RState) (hst : st.ok = true) (hl : List (Str × Str))
    (h : headerlist st = some hl) : hl.all pairOK = true := by
  rw [RState.ok_iff] at hst
  obtain ⟨_, hh, hc⟩ := hst
  unfold headerlist at h
  split at h
  · cases h
  · simp only [Option.some.injEq] at h
    subst h
    rw [List.all_eq_true]
    intro q hq
    simp only [List.mem_append, List.mem_filterMap, List.mem_map] at hq
    rcases hq with (⟨⟨k, v'⟩, hflat, hgood⟩ | hq) | ⟨c, hcm, rfl⟩
    · unfold flatHeaders at hflat
      simp only [List.mem_flatMap, List.mem_map] at hflat
      obtain ⟨e, he, v'', hv', heq⟩ := hflat
      simp only [Prod.mk.injEq] at heq
      obtain ⟨rfl, rfl⟩ := heq
      have hemem : e ∈ st.headers := by
        unfold keptHeaders at he
        simp only at he
        split at he
        · exact he
        · exact (List.mem_filter.mp he).1
      have heok := (List.all_eq_true.mp hh) e hemem
      simp only [hdrEntryOK, Bool.and_eq_true] at heok
      have hvok := (List.all_eq_true.mp heok.2) v'' hv'
      cases v'' with
      | bad => simp [emitPair] at hgood
      | good w =>
        simp only [emitPair, Option.some.injEq] at hgood
        subst hgood
        simp only [pairOK, Bool.and_eq_true]
        exact ⟨heok.1, recode_noCRLF w (hvalOk_noCRLF w hvok)⟩
    · split at hq
      · simp only [List.mem_cons, List.not_mem_nil, or_false] at hq
        subst hq
        decide
      · cases hq
    · have hcok := (List.all_eq_true.mp hc) c hcm
      simp only [cookieOK, Bool.and_eq_true] at hcok
      simp only [pairOK, Bool.and_eq_true]
      refine ⟨by decide, recode_noCRLF _ (noCRLF_append _ _ hcok.1 ?_)⟩
      unfold noCRLF at *
      simp only [List.all_cons, hcok.2, Bool.and_true]
      decide

end Ombott.Wsgi
