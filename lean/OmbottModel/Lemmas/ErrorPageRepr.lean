import OmbottModel.Lemmas.ErrorPageEscape
/-! `repr` keeps tokenised text tokenised (C20). -/
namespace Ombott.ErrorPage
open Py

theorem hexDigitL_safe : ∀ k : Fin 16, hexDigitL k.val ∉ special := by decide

theorem hexDigitL_mod_safe (n : Nat) : hexDigitL (n % 16) ∉ special :=
  hexDigitL_safe ⟨n % 16, Nat.mod_lt _ (by decide)⟩

theorem hex2_safe (n : Nat) : ∀ x ∈ hex2 n, x ∉ special := by
  intro x hx
  simp only [hex2, List.mem_cons, List.not_mem_nil, or_false] at hx
  rcases hx with rfl | rfl
  · exact hexDigitL_mod_safe _
  · exact hexDigitL_mod_safe _

theorem hex4_safe (n : Nat) : ∀ x ∈ hex4 n, x ∉ special := by
  intro x hx
  simp only [hex4, List.mem_append] at hx
  rcases hx with hx | hx <;> exact hex2_safe _ x hx

theorem hex8_safe (n : Nat) : ∀ x ∈ hex8 n, x ∉ special := by
  intro x hx
  simp only [hex8, List.mem_append] at hx
  rcases hx with hx | hx <;> exact hex4_safe _ x hx

/-- `repr` never produces a special character that was not there: whatever the quote, the
output characters for `c` are `c` itself, a backslash, a letter or a hex digit -/
theorem reprChar_mem (pr : Char → Bool) (q c x : Char) (hx : x ∈ reprChar pr q c) :
    x = c ∨ x ∉ special := by
  unfold reprChar at hx
  have bs : '\\' ∉ special := by decide
  have lt : 't' ∉ special := by decide
  have ln : 'n' ∉ special := by decide
  have lr : 'r' ∉ special := by decide
  have lx : 'x' ∉ special := by decide
  have lu : 'u' ∉ special := by decide
  have lU : 'U' ∉ special := by decide
  simp only at hx
  repeat' split at hx
  all_goals simp only [List.mem_cons, List.not_mem_nil, or_false] at hx
  all_goals first
    | (rcases hx with rfl | rfl <;> first | exact Or.inl rfl | exact Or.inr (by assumption))
    | (rcases hx with rfl | rfl | hx
       · exact Or.inr (by assumption)
       · exact Or.inr (by assumption)
       · first | exact Or.inr (hex2_safe _ x hx) | exact Or.inr (hex4_safe _ x hx) | exact Or.inr (hex8_safe _ x hx))
    | (subst hx; exact Or.inl rfl)

end Ombott.ErrorPage

namespace Ombott.ErrorPage
open Py

/-- printable ASCII other than the quote and the backslash -/
def plainAscii (c : Char) : Bool :=
  c != '\'' && c != '\\' && decide (32 ≤ c.toNat) && decide (c.toNat < 127)

theorem reprChar_plain (pr : Char → Bool) (c : Char) (h : plainAscii c = true) :
    reprChar pr '\'' c = [c] := by
  simp only [plainAscii, Bool.and_eq_true, bne_iff_ne, ne_eq, decide_eq_true_eq] at h
  obtain ⟨⟨⟨h1, h2⟩, h3⟩, h4⟩ := h
  have ht : c ≠ '\t' := by intro h; subst h; revert h3; decide
  have hn : c ≠ '\n' := by intro h; subst h; revert h3; decide
  have hr : c ≠ '\r' := by intro h; subst h; revert h3; decide
  have h5 : ¬ c.toNat < 32 := by omega
  have h6 : c.toNat ≠ 127 := by omega
  simp [reprChar, h1, h2, ht, hn, hr, h5, h6, h4]

theorem entities_plain : ∀ ent ∈ entities, ∀ c ∈ ent, plainAscii c = true := by decide

theorem flatMap_id_of {f : Char → Str} (l : Str) (h : ∀ c ∈ l, f c = [c]) : l.flatMap f = l := by
  induction l with
  | nil => rfl
  | cons c cs ih =>
    rw [List.flatMap_cons, h c (by simp), ih fun d hd => h d (by simp [hd])]
    rfl

theorem flatten_map_singleton (l : Str) : l = (l.map fun c => [c]).flatten := by
  induction l with
  | nil => rfl
  | cons c cs ih => rw [List.map_cons, List.flatten_cons, ← ih]; rfl

theorem tokenized_of_all_safe (l : Str) (h : ∀ x ∈ l, x ∉ special) : Tokenized l :=
  ⟨l.map fun c => [c], flatten_map_singleton l, by
    intro tok ht
    obtain ⟨c, hc, rfl⟩ := List.mem_map.mp ht
    exact Or.inr ⟨c, rfl, h c hc⟩⟩

/-- `repr` (single-quote variant) maps tokenised text to tokenised text: entities survive
unchanged, every other character becomes itself or a backslash escape -/
theorem repr_body_tokenized (pr : Char → Bool) {t : Str} (h : Tokenized t) :
    Tokenized (t.flatMap (reprChar pr '\'')) := by
  obtain ⟨toks, rfl, ht⟩ := h
  induction toks with
  | nil => exact Tokenized.nil
  | cons tok rest ih =>
    rw [List.flatten_cons, List.flatMap_append]
    refine Tokenized.append ?_ (ih fun t' ht' => ht t' (by simp [ht']))
    rcases ht tok (by simp) with he | ⟨c, rfl, hc⟩
    · rw [flatMap_id_of tok fun c hc => reprChar_plain pr c (entities_plain tok he c hc)]
      exact Tokenized.tok (Or.inl he)
    · simp only [List.flatMap_cons, List.flatMap_nil, List.append_nil]
      apply tokenized_of_all_safe
      intro x hx
      rcases reprChar_mem pr '\'' c x hx with rfl | hx
      · exact hc
      · exact hx

theorem reprQuote_of_tokenized {t : Str} (h : Tokenized t) : reprQuote t = '\'' := by
  have hq : '\'' ∉ t := fun hc => (tokenized_chars h '\'' hc).2.2.2 rfl
  simp [reprQuote, hq]

theorem pyRepr_of_tokenized (pr : Char → Bool) {t : Str} (h : Tokenized t) :
    pyRepr pr t = '\'' :: t.flatMap (reprChar pr '\'') ++ ['\''] := by
  simp only [pyRepr, reprQuote_of_tokenized h]

end Ombott.ErrorPage
