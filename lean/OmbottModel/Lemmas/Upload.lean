import OmbottModel.Model.Upload
import OmbottModel.Lemmas.Normpath
/-! Helper lemmas for the file-name sanitiser of `FileUpload.filename` (C07, upload object). -/
namespace Ombott.Upload
open Py Ombott.Forms

/-- ASCII letter, digit, `-`, `_` or `.` -/
def isSafeNat (n : Nat) : Bool :=
  (48 ≤ n && n ≤ 57) || (65 ≤ n && n ≤ 90) || (97 ≤ n && n ≤ 122) || n == 45 || n == 95 || n == 46

def isSafeChar (c : Char) : Bool := isSafeNat c.toNat

/-- `.` or `-` -/
def isDotDash (c : Char) : Bool := c == '.' || c == '-'

/-! ### facts about the generated tables (re-checked whenever the source changes them) -/

theorem keep1_minus_dashws_safe :
    Gen.upKeep1.all (fun n => Gen.upDashWs.contains n || isSafeNat n) = true := by decide

theorem stripChars_eq : Gen.upStripChars = [46, 45] := by decide

theorem emptyName_eq : emptyName = cs!"empty" := by decide

theorem maxLen_eq : Gen.upMaxLen = 255 := by decide

theorem sep_eq : sepChar = '/' := by decide

theorem dash_in_dashws : Gen.upDashWs.contains 45 = true := by decide

theorem safe_in_keep1 : (List.range 128).all (fun n => !isSafeNat n || Gen.upKeep1.contains n) = true := by decide

theorem safe_not_ws :
    (List.range 128).all (fun n => !isSafeNat n || n == 45 || (!Gen.upDashWs.contains n && !Gen.upStripWs.contains n)) = true := by
  decide

theorem isSafeNat_lt {n : Nat} (h : isSafeNat n = true) : n < 128 := by
  simp [isSafeNat] at h; omega

theorem inTable_stripChars (c : Char) : inTable Gen.upStripChars c = isDotDash c := by
  rw [inTable, stripChars_eq]
  have h1 : (c == '.') = (c.toNat == 46) := by
    rw [Bool.eq_iff_iff]; simp only [beq_iff_eq]
    constructor
    · rintro rfl; rfl
    · intro h; exact Char.toNat_inj.mp (by simpa using h)
  have h2 : (c == '-') = (c.toNat == 45) := by
    rw [Bool.eq_iff_iff]; simp only [beq_iff_eq]
    constructor
    · rintro rfl; rfl
    · intro h; exact Char.toNat_inj.mp (by simpa using h)
  simp [isDotDash, h1, h2, List.contains, List.elem]
  cases c.toNat == 46 <;> cases c.toNat == 45 <;> simp_all

/-! ### `stripBy` -/

theorem stripBy_prefix_dropWhile {α} (p : α → Bool) (s : List α) : stripBy p s <+: s.dropWhile p := by
  unfold stripBy
  have h := List.dropWhile_suffix (p := p) (l := (s.dropWhile p).reverse)
  have := List.reverse_prefix.mpr h
  simpa using this

theorem stripBy_sublist {α} (p : α → Bool) (s : List α) : (stripBy p s).Sublist s :=
  ((stripBy_prefix_dropWhile p s).sublist).trans (List.dropWhile_sublist p)

theorem stripBy_mem {α} (p : α → Bool) (s : List α) {c : α} (h : c ∈ stripBy p s) : c ∈ s :=
  (stripBy_sublist p s).subset h

theorem stripBy_head {α} (p : α → Bool) (s : List α) (c : α) (h : (stripBy p s).head? = some c) :
    p c = false := by
  obtain ⟨r, hr⟩ := stripBy_prefix_dropWhile p s
  have hd := List.head?_dropWhile_not p s
  cases hs : stripBy p s with
  | nil => rw [hs] at h; simp at h
  | cons a as =>
    rw [hs] at h hr
    simp only [List.head?_cons, Option.some.injEq] at h
    subst h
    rw [← hr] at hd
    simpa using hd

theorem stripBy_last {α} (p : α → Bool) (s : List α) (c : α) (h : (stripBy p s).getLast? = some c) :
    p c = false := by
  unfold stripBy at h
  rw [List.getLast?_reverse] at h
  have hd := List.head?_dropWhile_not p (s.dropWhile p).reverse
  rw [h] at hd
  simpa using hd

/-! ### characters of the sanitised name -/

theorem collapseGo_chars (b : Bool) (s : Str) (c : Char) (h : c ∈ collapseGo b s) :
    c = '-' ∨ (c ∈ s ∧ inTable Gen.upDashWs c = false) := by
  induction s generalizing b with
  | nil => simp [collapseGo] at h
  | cons x xs ih =>
    unfold collapseGo at h
    split at h
    · split at h
      · rcases ih true h with h | ⟨h1, h2⟩
        · exact .inl h
        · exact .inr ⟨List.mem_cons_of_mem _ h1, h2⟩
      · simp only [List.mem_cons] at h
        rcases h with h | h
        · exact .inl h
        · rcases ih true h with h | ⟨h1, h2⟩
          · exact .inl h
          · exact .inr ⟨List.mem_cons_of_mem _ h1, h2⟩
    · rename_i hx
      simp only [List.mem_cons] at h
      rcases h with h | h
      · subst h; exact .inr ⟨by simp, by simpa using hx⟩
      · rcases ih false h with h | ⟨h1, h2⟩
        · exact .inl h
        · exact .inr ⟨List.mem_cons_of_mem _ h1, h2⟩

theorem safe_of_keep1 (c : Char) (h1 : inTable Gen.upKeep1 c = true) (h2 : inTable Gen.upDashWs c = false) :
    isSafeChar c = true := by
  have h := keep1_minus_dashws_safe
  rw [List.all_eq_true] at h
  have hm : c.toNat ∈ Gen.upKeep1 := by simpa [inTable] using h1
  have := h _ hm
  have h2' : c.toNat ∉ Gen.upDashWs := by simpa [inTable] using h2
  simp only [Bool.or_eq_true, List.contains_iff_mem] at this
  rcases this with h | h
  · exact absurd h h2'
  · exact h

/-- every character of the name before truncation is a safe one -/
theorem preTrunc_chars (nf : Char → List Char) (s : Str) : ∀ c ∈ preTrunc nf s, isSafeChar c = true := by
  intro c hc
  unfold preTrunc at hc
  have h1 := stripBy_mem _ _ hc
  rcases collapseGo_chars false _ c h1 with h | ⟨h2, h3⟩
  · subst h; decide
  · have h4 := stripBy_mem _ _ h2
    unfold keep1 at h4
    exact safe_of_keep1 c (List.mem_filter.mp h4).2 h3

theorem preTrunc_head (nf : Char → List Char) (s : Str) (c : Char) (h : (preTrunc nf s).head? = some c) :
    isDotDash c = false := by
  have := stripBy_head _ _ c h
  rwa [inTable_stripChars] at this

theorem preTrunc_last (nf : Char → List Char) (s : Str) (c : Char) (h : (preTrunc nf s).getLast? = some c) :
    isDotDash c = false := by
  have := stripBy_last _ _ c h
  rwa [inTable_stripChars] at this

theorem truncOrEmpty_cases (p : Str) :
    (p = [] ∧ truncOrEmpty p = cs!"empty") ∨ (p ≠ [] ∧ truncOrEmpty p = p.take 255) := by
  unfold truncOrEmpty
  rw [maxLen_eq, emptyName_eq]
  cases p with
  | nil => left; simp
  | cons a as => right; simp

theorem safe_not_slash (c : Char) (h : isSafeChar c = true) :
    c ≠ '/' ∧ c ≠ '\\' ∧ c ≠ Char.ofNat 0 ∧ isWsChar c = false := by
  refine ⟨?_, ?_, ?_, ?_⟩
  · rintro rfl; simp [isSafeChar, isSafeNat] at h
  · rintro rfl; simp [isSafeChar, isSafeNat] at h
  · rintro rfl; simp [isSafeChar, isSafeNat] at h
  · simp only [isSafeChar, isSafeNat, Bool.or_eq_true, Bool.and_eq_true, decide_eq_true_eq, beq_iff_eq] at h
    simp only [isWsChar, isWsNat, Bool.or_eq_false_iff, Bool.and_eq_false_iff, decide_eq_false_iff_not, beq_eq_false_iff_ne]
    omega

/-! ### the direct-child property of `join` -/

theorem segments_single (f : Str) (hne : f ≠ []) (hs : '/' ∉ f) : StaticFile.segments f = [f] := by
  have : splitOn1 '/' f = [f] := by
    induction f with
    | nil => exact absurd rfl hne
    | cons x xs ih =>
      have hx : x ≠ '/' := fun e => hs (by simp [e])
      have hxs : '/' ∉ xs := fun h => hs (List.mem_cons_of_mem _ h)
      unfold splitOn1
      rw [if_neg (by simpa using hx)]
      cases xs with
      | nil => simp [splitOn1]
      | cons y ys => rw [ih (by simp) hxs]
  simp [StaticFile.segments, this, hne]

theorem join_direct_child (d f : Str) (hd : d ≠ []) (hne : f ≠ []) (hs : '/' ∉ f) :
    StaticFile.segments (StaticFile.join d f) = StaticFile.segments d ++ [f] := by
  have hh : f.head? ≠ some '/' := by
    cases f with
    | nil => exact absurd rfl hne
    | cons x xs => intro h; simp at h; exact hs (by simp [h])
  unfold StaticFile.join
  rw [if_neg hh]
  by_cases hl : d.getLast? = some '/'
  · rw [if_pos (Or.inr hl)]
    obtain ⟨d', rfl⟩ : ∃ d', d = d' ++ ['/'] := List.getLast?_eq_some_iff.mp hl
    rw [List.append_assoc, List.singleton_append, StaticFile.segments_append_sep, segments_single f hne hs]
    have : d' ++ ['/'] = d' ++ '/' :: [] := rfl
    rw [this, StaticFile.segments_append_sep]
    simp [StaticFile.segments, splitOn1]
  · rw [if_neg (by simp [hd, hl])]
    rw [StaticFile.segments_append_sep, segments_single f hne hs]

end Ombott.Upload
