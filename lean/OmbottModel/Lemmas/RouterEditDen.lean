import OmbottModel.Model.RouterEdit
import OmbottModel.Lemmas.RouterInv
/-!
C11, helper lemmas (1): a denotation of the tree that is generic in what a node contributes
(`gN own`), with the two instances the development uses: the routes (`denN` of
`Model/RouterSpec.lean`) and the hook pairs (`hdenN`); patterns modulo filters (`shape`), the
zone a removal speaks about.
-/
namespace Ombott.Router
open Py

/-! ### patterns modulo filters -/

/-- `RadiDict._match` without `param_filters` does not look at filters: a pattern as such a walk
sees it -/
def shapeSym : Sym → Sym
  | .lit c => .lit c
  | .tok _ => .tok none

def shape (p : List Sym) : List Sym := p.map shapeSym

@[simp] theorem shape_nil : shape [] = [] := rfl
@[simp] theorem shape_cons (s : Sym) (p : List Sym) : shape (s :: p) = shapeSym s :: shape p := rfl
@[simp] theorem shape_append (a b : List Sym) : shape (a ++ b) = shape a ++ shape b := by
  simp [shape]
@[simp] theorem shape_litSyms (k : Str) : shape (litSyms k) = litSyms k := by
  induction k with
  | nil => rfl
  | cons c cs ih => simp only [litSyms, List.map_cons, shape_cons, shapeSym] at ih ⊢; rw [ih]

@[simp] theorem patStr_litSyms (k : Str) : patStr (litSyms k) = k := by
  induction k with
  | nil => rfl
  | cons c cs ih => simp only [litSyms, patStr, List.map_cons, symChar] at ih ⊢; rw [ih]

@[simp] theorem patStr_nil : patStr [] = [] := rfl
@[simp] theorem patStr_cons (s : Sym) (p : List Sym) : patStr (s :: p) = symChar s :: patStr p := rfl

theorem symChar_eq_of_shape {a b : Sym} (h : shapeSym a = shapeSym b) : symChar a = symChar b := by
  cases a <;> cases b <;> simp_all [shapeSym, symChar]

theorem patStr_eq_of_shape {a b : List Sym} (h : shape a = shape b) : patStr a = patStr b := by
  induction a generalizing b with
  | nil => cases b <;> simp_all
  | cons x xs ih =>
    cases b with
    | nil => simp at h
    | cons y ys =>
      simp only [shape_cons, List.cons.injEq] at h
      simp only [patStr_cons, symChar_eq_of_shape h.1, ih h.2]

theorem NoLitTok.cons_tail {s : Sym} {p : List Sym} (h : NoLitTok (s :: p)) : NoLitTok p :=
  fun c hc => h c (List.mem_cons_of_mem _ hc)

theorem shapeSym_eq_of_symChar {a b : Sym} (ha : ∀ c, a = .lit c → c ≠ Gen.paramToken)
    (hb : ∀ c, b = .lit c → c ≠ Gen.paramToken) (h : symChar a = symChar b) : shapeSym a = shapeSym b := by
  cases a <;> cases b <;> simp_all [shapeSym, symChar]

/-- among marker-free patterns the pattern string determines the pattern up to filters -/
theorem shape_eq_of_patStr {a b : List Sym} (ha : NoLitTok a) (hb : NoLitTok b)
    (h : patStr a = patStr b) : shape a = shape b := by
  induction a generalizing b with
  | nil => cases b <;> simp_all
  | cons x xs ih =>
    cases b with
    | nil => simp at h
    | cons y ys =>
      simp only [patStr_cons, List.cons.injEq] at h
      simp only [shape_cons]
      rw [ih ha.cons_tail hb.cons_tail h.2,
        shapeSym_eq_of_symChar (fun c hc => ha c (by simp [hc])) (fun c hc => hb c (by simp [hc])) h.1]

theorem shape_prefix_of_patStr {a b : List Sym} (ha : NoLitTok a) (hb : NoLitTok b)
    (h : patStr a <+: patStr b) : shape a <+: shape b := by
  induction a generalizing b with
  | nil => simp
  | cons x xs ih =>
    cases b with
    | nil => simp at h
    | cons y ys =>
      simp only [patStr_cons, List.cons_prefix_cons] at h
      simp only [shape_cons, List.cons_prefix_cons]
      exact ⟨shapeSym_eq_of_symChar (fun c hc => ha c (by simp [hc])) (fun c hc => hb c (by simp [hc])) h.1,
        ih ha.cons_tail hb.cons_tail h.2⟩

theorem patStr_prefix_of_shape {a b : List Sym} (h : shape a <+: shape b) : patStr a <+: patStr b := by
  induction a generalizing b with
  | nil => simp
  | cons x xs ih =>
    cases b with
    | nil => simp at h
    | cons y ys =>
      simp only [shape_cons, List.cons_prefix_cons] at h
      simp only [patStr_cons, List.cons_prefix_cons]
      exact ⟨symChar_eq_of_shape h.1, ih h.2⟩

/-! ### rules seen from above -/

@[simp] theorem Rule.under_nil (e : Rule) : e.under [] = e := by cases e; rfl

@[simp] theorem Rule.under_pat (pre : List Sym) (e : Rule) : (e.under pre).pat = pre ++ e.pat := rfl

theorem Rule.under_under (a b : List Sym) (e : Rule) : (e.under a).under b = e.under (b ++ a) := by
  cases e; simp [Rule.under]

theorem map_under_nil (l : List Rule) : l.map (Rule.under []) = l := by
  induction l with
  | nil => rfl
  | cons x xs ih => simp [ih]

theorem map_under_under (a b : List Sym) (l : List Rule) :
    (l.map (Rule.under a)).map (Rule.under b) = l.map (Rule.under (b ++ a)) := by
  simp [List.map_map, Function.comp_def, Rule.under_under]

/-! ### the generic denotation -/

section Generic
variable (own : Option Nat → List Str → Option HookPair → List Rule)

mutual
/-- what the subtree of a node holds (its own key excluded), in depth-first order, when a node
with data `d`, stored names `pk` and hook pair `h` contributes `own d pk h` -/
def gN : Node → List Rule
  | .mk _ d pk _ h lits tok => own d pk h ++ gL lits ++ gT tok
def gT : Option Node → List Rule
  | none => []
  | some t => (gN t).map (Rule.under [Sym.tok t.filter])
def gL : List Node → List Rule
  | [] => []
  | k :: ks => (gN k).map (Rule.under (litSyms k.key)) ++ gL ks
end

theorem gN_withKey (n : Node) (k : Str) : gN own (n.withKey k) = gN own n := by
  cases n; simp [Node.withKey, gN]

/-- what `own` must satisfy: entries sit at the node itself, an empty node contributes nothing -/
structure OwnOK : Prop where
  pat_nil : ∀ d pk h e, e ∈ own d pk h → e.pat = []
  empty : ∀ pk, own none pk none = []

variable {own}

theorem mem_gL_shape (ho : OwnOK own) {ks : List Node} (h : WFL ks) {e : Rule} (he : e ∈ gL own ks) :
    ∃ k ∈ ks, ∃ c q, k.key.head? = some c ∧ e.pat = .lit c :: q := by
  induction ks with
  | nil => simp [gL] at he
  | cons k ks ih =>
    unfold WFL at h
    obtain ⟨hne, _, hks, _⟩ := h
    simp only [gL, List.mem_append, List.mem_map] at he
    rcases he with ⟨x, _, rfl⟩ | he
    · cases hk : k.key with
      | nil => exact absurd hk hne
      | cons c cs => exact ⟨k, by simp, c, litSyms cs ++ x.pat, by simp [hk], by simp [hk, litSyms]⟩
    · obtain ⟨k', hk', c, q, h1, h2⟩ := ih hks he
      exact ⟨k', by simp [hk'], c, q, h1, h2⟩

theorem mem_gT_shape {t : Option Node} {e : Rule} (he : e ∈ gT own t) :
    ∃ g q, e.pat = .tok g :: q := by
  cases t with
  | none => simp [gT] at he
  | some t =>
    simp only [gT, List.mem_map] at he
    obtain ⟨x, _, rfl⟩ := he
    exact ⟨t.filter, x.pat, rfl⟩

end Generic

/-! ### the two instances -/

/-- routes: a node contributes its rule -/
def ownR : Option Nat → List Str → Option HookPair → List Rule := fun d pk _ => ownRule d pk

/-- the rule-shaped record of a hook pair under an encoding of pairs as numbers -/
def ownH (enc : HookPair → Nat) : Option Nat → List Str → Option HookPair → List Rule
  | _, _, some hp => [⟨[], enc hp, []⟩]
  | _, _, none => []

theorem ownR_ok : OwnOK ownR :=
  ⟨fun d pk _ e he => by cases d <;> simp [ownR, ownRule] at he; subst he; rfl, fun _ => rfl⟩

theorem ownH_ok (enc : HookPair → Nat) : OwnOK (ownH enc) :=
  ⟨fun d pk h e he => by cases h <;> simp [ownH] at he; subst he; rfl, fun _ => rfl⟩

mutual
theorem gN_ownR (n : Node) : gN ownR n = denN n := by
  match n with
  | .mk k d pk f h lits tok => simp only [gN, denN, ownR, gL_ownR lits, gT_ownR tok]
theorem gT_ownR (t : Option Node) : gT ownR t = denT t := by
  match t with
  | none => simp [gT, denT]
  | some t => simp only [gT, denT, gN_ownR t]
theorem gL_ownR (ks : List Node) : gL ownR ks = denL ks := by
  match ks with
  | [] => simp [gL, denL]
  | k :: ks => simp only [gL, denL, gN_ownR k, gL_ownR ks]
end

/-- the hook pairs a tree holds, as rule-shaped records `(pattern, enc pair, [])` -/
def hdenN (enc : HookPair → Nat) (n : Node) : List Rule := gN (ownH enc) n

end Ombott.Router
