import OmbottModel.Lemmas.RouterEditProps
/-!
C11, helper lemmas (7): the editing calls act on the three index maps (`Router.maps`) in the
obvious way — removal erases the routes in its zone together with their names, `remove_hook`
erases one pair, `add_hook` sets one.
-/
namespace Ombott.Router
open Py

/-! ### dictionaries -/

theorem dictGet_filter_key {β} (d : List (Str × β)) (f : Str → Bool) (k : Str) :
    dictGet (d.filter fun x => f x.1) k = if f k then dictGet d k else none := by
  unfold dictGet
  induction d with
  | nil => simp
  | cons x xs ih =>
    by_cases hx : x.1 = k
    · subst hx
      cases hf : f x.1
      · simp only [List.filter_cons, hf, Bool.false_eq_true, if_false] at ih ⊢
        rw [ih]
      · simp [List.filter_cons, hf, List.find?]
    · have hne : (x.1 == k) = false := by simpa using hx
      cases hf : f x.1
      · simp only [List.filter_cons, hf, Bool.false_eq_true, if_false, List.find?, hne]
        exact ih
      · simp only [List.filter_cons, hf, if_true, List.find?, hne]
        exact ih

theorem dictGet_filter_val {β} (d : List (Str × β)) (hnd : (d.map (·.1)).Nodup) (g : Str × β → Bool) (k : Str) :
    dictGet (d.filter g) k = (dictGet d k).bind fun v => if g (k, v) then some v else none := by
  cases hg : dictGet d k with
  | none =>
    simp only [Option.bind_none]
    cases hf : dictGet (d.filter g) k with
    | none => rfl
    | some v =>
      have := dictGet_mem hf
      rw [dictGet_of_mem hnd (List.mem_filter.mp this).1] at hg
      cases hg
  | some v =>
    have hin := dictGet_mem hg
    simp only [Option.bind_some]
    split
    · rename_i hgv
      exact dictGet_of_mem (nodup_filter_keys _ _ hnd) (List.mem_filter.mpr ⟨hin, hgv⟩)
    · rename_i hgv
      cases hf : dictGet (d.filter g) k with
      | none => rfl
      | some v' =>
        have hm := List.mem_filter.mp (dictGet_mem hf)
        have : dictGet d k = some v' := dictGet_of_mem hnd hm.1
        rw [hg] at this
        cases this
        exact absurd hm.2 hgv

theorem dictGet_dictSet {β} (d : List (Str × β)) (hnd : (d.map (·.1)).Nodup) (k : Str) (v : β) (k' : Str) :
    dictGet (dictSet d k v) k' = if k' = k then some v else dictGet d k' := by
  have hnd' := dictSet_keys_nodup d k v hnd
  split
  · rename_i h
    subst h
    exact dictGet_of_mem hnd' ((mem_dictSet _ _ _ _ _).mpr (Or.inl ⟨rfl, rfl⟩))
  · rename_i h
    cases hg : dictGet d k' with
    | some v' => exact dictGet_of_mem hnd' ((mem_dictSet _ _ _ _ _).mpr (Or.inr ⟨h, dictGet_mem hg⟩))
    | none =>
      cases hf : dictGet (dictSet d k v) k' with
      | none => rfl
      | some v' =>
        rcases (mem_dictSet _ _ _ _ _).mp (dictGet_mem hf) with ⟨hk, _⟩ | ⟨_, hm⟩
        · exact absurd hk h
        · rw [dictGet_of_mem hnd hm] at hg; cases hg

/-! ### removal -/

/-- what `EInv.drop` says about the maps: the routes with `keep = false` leave, their names too -/
theorem maps_drop {R R' : Router} {T : Str → Prop} (h : EInv R T) (keep : Str → Bool)
    (hroutes : R'.routes = R.routes.filter (fun x => keep x.1)) (hobjs : R'.objs = R.objs)
    (hhook : R'.hookIdx = R.hookIdx)
    (hnamed : R'.named = R.named.filter fun x =>
      match R.obj? x.2 with
      | some r => keep r.pattern
      | none => true) :
    R'.maps = R.maps.dropRoutes (fun ps => !keep ps) := by
  have hobj : ∀ j, R'.obj? j = R.obj? j := fun j => by unfold Router.obj?; rw [hobjs]
  have hob : R'.obj? = R.obj? := funext hobj
  unfold Router.maps Maps.dropRoutes
  simp only [Maps.mk.injEq]
  refine ⟨?_, ?_, ?_⟩
  · funext ps
    unfold Router.routeAt
    rw [hroutes, dictGet_filter_key, hob]
    cases hk : keep ps <;> simp
  · funext nm
    unfold Router.nameAt
    rw [hnamed, dictGet_filter_val _ h.nnodup, hob]
    cases hg : dictGet R.named nm with
    | none => simp
    | some id =>
      simp only [Option.bind_some]
      cases hr : R.obj? id with
      | none => simp [hr]
      | some r =>
        simp only [hr, Option.map_some, Option.bind_some]
        have e : patStr r.view.syms = r.pattern := rfl
        rw [e]
        by_cases hk : keep r.pattern = true
        · simp [hk, hr]
        · have hk' : keep r.pattern = false := by simpa using hk
          simp [hk']
  · funext ps
    unfold Router.hookAt
    rw [hhook]

theorem removeNamed_eq (R : Router) (pats : List Str) :
    (R.removeNamed pats).named = R.named.filter fun x =>
      match R.obj? x.2 with
      | some r => !pats.contains r.pattern
      | none => true := by
  unfold Router.removeNamed
  congr 1

/-- **`remove(rule)` on the maps**: the routes whose pattern string is the pattern / extends the
prefix leave `routes`, the names of those routes leave `named_routes`, `hooks` is not touched -/
theorem removePattern_maps {R : Router} {T : Str → Prop} (h : EInv R T) (pat : List Sym) :
    (R.removePattern pat).1.maps = R.maps.dropRoutes (fun ps => !keepOf pat ps) := by
  unfold Router.removePattern
  cases hr : treeRemove R.tree pat false with
  | error e =>
    -- `remove` without `hooks_only` never raises
    exfalso
    unfold treeRemove at hr
    rcases hsp : starSplit pat with ⟨p, st⟩
    rw [hsp] at hr
    simp only [Bool.and_false, Bool.false_eq_true, if_false] at hr
    split at hr <;> cases hr
  | ok t =>
    simp only
    rcases hsp : starSplit pat with ⟨p, star⟩
    have hkeep : keepOf pat = fun ps => if star then !(patStr p).isPrefixOf ps else ps != patStr p := by
      unfold keepOf; rw [hsp]
    have h1 : EInv ({ R with tree := t } : Router) T → True := fun _ => trivial
    cases star with
    | true =>
      simp only [if_true]
      refine maps_drop h (keepOf pat) ?_ rfl rfl ?_
      · show List.filter _ R.routes = _
        rw [hkeep]; rfl
      · rw [removeNamed_eq]
        show List.filter _ R.named = List.filter _ R.named
        apply List.filter_congr
        intro x hx
        show (match R.obj? x.2 with | some r => _ | none => true) = _
        cases hr' : R.obj? x.2 with
        | none => rfl
        | some r =>
          simp only
          obtain ⟨r0, hr0, hroute⟩ := h.named x.1 x.2 hx
          rw [hr'] at hr0; cases hr0
          rw [hkeep]
          simp only [if_true]
          cases hpre : (patStr p).isPrefixOf r.pattern with
          | false =>
            simp only [Bool.not_false, Bool.not_eq_true', List.contains_eq_mem, decide_eq_false_iff_not]
            intro hmem
            obtain ⟨y, hy, hyk⟩ := List.mem_map.mp hmem
            have := (List.mem_filter.mp hy).2
            rw [hyk, hpre] at this
            cases this
          | true =>
            simp only [Bool.not_true, Bool.not_eq_false', List.contains_eq_mem, decide_eq_true_eq]
            exact List.mem_map.mpr ⟨(patStr r.syms, x.2), List.mem_filter.mpr ⟨hroute, hpre⟩, rfl⟩
    | false =>
      simp only [Bool.false_eq_true, if_false]
      refine maps_drop h (keepOf pat) ?_ rfl rfl ?_
      · show dictPop R.routes (patStr p) = _
        rw [hkeep]; simp only [Bool.false_eq_true, if_false]; rfl
      · rw [removeNamed_eq]
        show List.filter _ R.named = List.filter _ R.named
        apply List.filter_congr
        intro x _
        show (match R.obj? x.2 with | some r => _ | none => true) = _
        cases R.obj? x.2 with
        | none => rfl
        | some r =>
          simp only [hkeep, Bool.false_eq_true, if_false]
          cases hd : decide (r.pattern = patStr p) <;> simp_all

/-- **`remove_hook(rule)` on the maps**: the pair at the pattern string leaves `hooks` -/
theorem removeHook_maps (R : Router) (cenv : CompileEnv) (rule : Str) (p : Parsed)
    (hp : parseRule cenv rule = .ok p) (hstar : (starSplit p.syms).2 = false) :
    (R.removeHook cenv rule).1.maps = R.maps.setHook (patStr p.syms) none := by
  unfold Router.removeHook
  simp only [hp]
  cases htr : treeRemove R.tree p.syms true with
  | error e => rw [treeRemove_hooksOnly_error htr] at hstar; cases hstar
  | ok t =>
    simp only
    unfold Router.maps Maps.setHook
    simp only [Maps.mk.injEq]
    refine ⟨rfl, rfl, ?_⟩
    funext x
    show dictGet (dictPop R.hookIdx (patStr p.syms)) x = _
    unfold dictPop
    rw [dictGet_filter_key R.hookIdx (fun k => k != patStr p.syms) x]
    by_cases hx : x = patStr p.syms
    · simp [hx]
    · simp [hx, Router.hookAt]

/-- **`add_hook` on the maps**: an accepted call sets the pair at the pattern string to the
pair the tree held there with the hook installed in its slot (on a specified pattern that is the
pair of the `hooks` map, `hookAtShape_eq_index`); routes and names are not touched -/
theorem addHook_maps {R : Router} {T : Str → Prop} (h : EInv R T) (p : Parsed) (hook : Nat) (pt : Bool)
    (hT : ¬ T (patStr p.syms)) (pat : Str) (hok : (R.addHookParsed p hook pt).2 = .ok pat) :
    (R.addHookParsed p hook pt).1.maps =
      R.maps.setHook (patStr p.syms) (some (installHook (hookAtShape R.tree p.syms) hook pt)) := by
  have hset : ∀ (R' : Router) hp', R'.routes = R.routes → R'.objs = R.objs → R'.named = R.named →
      R'.hookIdx = dictSet R.hookIdx (patStr p.syms) hp' →
      R'.maps = R.maps.setHook (patStr p.syms) (some hp') := by
    intro R' hp' h1 h2 h3 h4
    unfold Router.maps Maps.setHook
    simp only [Maps.mk.injEq]
    refine ⟨?_, ?_, ?_⟩
    · funext ps; unfold Router.routeAt Router.obj?; rw [h1, h2]
    · funext nm; unfold Router.nameAt Router.obj?; rw [h3, h2]
    · funext x; unfold Router.hookAt; rw [h4, dictGet_dictSet _ h.hnodup]
  unfold Router.addHookParsed at hok ⊢
  split
  · rename_i hc; simp [hc] at hok
  · rename_i hc
    simp only [hc, Bool.false_eq_true, if_false] at hok
    simp only at hok ⊢
    cases hf : findN false R.tree p.syms with
    | error e =>
      have hh : hookAtShape R.tree p.syms = none := by simp [hookAtShape, hf]
      rw [hf] at hok
      simp only at hok ⊢
      rw [hh]
      cases hi : insN { hooks := some (installHook none hook pt), names := p.params, overwrite := false }
          R.tree p.syms with
      | error e' => rw [hi] at hok; cases hok
      | ok t => exact hset _ _ rfl rfl rfl rfl
    | ok n =>
      rw [hf] at hok
      simp only at hok ⊢
      cases hn : n.hooks with
      | none =>
        have hh : hookAtShape R.tree p.syms = none := by simp [hookAtShape, hf, hn]
        rw [hn] at hok
        simp only at hok ⊢
        rw [hh]
        cases hi : insN { hooks := some (installHook none hook pt), names := p.params, overwrite := false }
            R.tree p.syms with
        | error e' => rw [hi] at hok; cases hok
        | ok t => exact hset _ _ rfl rfl rfl rfl
      | some hp0 =>
        have hh : hookAtShape R.tree p.syms = some hp0 := by simp [hookAtShape, hf, hn]
        rw [hn] at hok
        simp only at hok ⊢
        rw [hh]
        cases hu : updN (Node.setHooks (installHook (some hp0) hook pt)) R.tree p.syms with
        | none => rw [hu] at hok; cases hok
        | some t =>
          simp only
          -- the index lists the pattern: it is specified
          have hany : (R.hookIdx.any (·.1 == patStr p.syms)) = true := by
            obtain ⟨e0, he0, hs0, _⟩ := (findN_hooks (fun _ => 0) R.tree h.inv.wf p.syms).2 hp0 hh
            have hps : patStr e0.pat = patStr p.syms := patStr_eq_of_shape hs0
            obtain ⟨hpx, hmem, _⟩ := h.htree _ e0 he0 (by rw [hps]; exact hT)
            rw [List.any_eq_true]
            exact ⟨_, hmem, by simp [hps]⟩
          exact hset _ _ rfl rfl rfl (by simp only [hany, if_true])

/-- **`remove(name=…)` on the maps**: the route the name stands for leaves `routes`, and every
name of that route leaves `named_routes`; an unknown name changes nothing (`KeyError`) -/
theorem removeName_maps {R : Router} {T : Str → Prop} (h : EInv R T) (name : Str) :
    match R.nameAt name with
    | some v => (R.removeName name).1.maps = R.maps.dropRoutes (fun ps => ps == patStr v.syms)
    | none => (R.removeName name).1.maps = R.maps := by
  unfold Router.removeName
  cases hg : dictGet R.named name with
  | none => simp [Router.nameAt, hg]
  | some id =>
    obtain ⟨r, hr, hroute⟩ := h.named name id (dictGet_mem hg)
    have hna : R.nameAt name = some r.view := by simp [Router.nameAt, hg, hr]
    rw [hna]
    simp only
    have hr1 : ({ R with named := dictPop R.named name } : Router).obj? id = some r := hr
    simp only [hr1]
    cases htr : treeRemove R.tree r.syms false with
    | error e =>
      exfalso
      unfold treeRemove at htr
      rcases hsp : starSplit r.syms with ⟨p, st⟩
      rw [hsp] at htr
      simp only [Bool.and_false, Bool.false_eq_true, if_false] at htr
      split at htr <;> cases htr
    | ok t =>
      simp only
      have hany : (R.routes.any (·.1 == r.pattern)) = true := by
        rw [List.any_eq_true]; exact ⟨_, hroute, by simp [Route.pattern]⟩
      simp only [hany, if_true]
      have hkk : (fun ps : Str => !(ps != patStr r.syms)) = (fun ps => ps == patStr r.view.syms) := by
        funext ps; simp [Route.view, bne]
      rw [← hkk]
      clear hkk
      refine maps_drop h (fun ps => ps != patStr r.syms) ?_ rfl rfl ?_
      · show dictPop R.routes r.pattern = _
        rfl
      · rw [removeNamed_eq]
        show List.filter _ (dictPop R.named name) = List.filter _ R.named
        unfold dictPop
        rw [List.filter_filter]
        apply List.filter_congr
        intro x hx
        show ((match R.obj? x.2 with | some r' => _ | none => true) && (x.1 != name)) = _
        by_cases hxn : x.1 = name
        · have hx2 : x.2 = id := by
            have := dictGet_of_mem h.nnodup (show (x.1, x.2) ∈ R.named from hx)
            rw [hxn, hg] at this
            exact (Option.some.inj this).symm
          simp [hxn, hx2, hr, Route.pattern]
        · have : (x.1 != name) = true := by simpa using hxn
          rw [this, Bool.and_true]
          cases R.obj? x.2 with
          | none => rfl
          | some r' =>
            simp only
            by_cases he : patStr r'.syms = patStr r.syms
            · simp [Route.pattern, he]
            · simp [Route.pattern, he]

/-- two router states that satisfy the edit invariant and hold the same three maps answer
alike (`history_eq_fresh` of `Props/C11.lean` is this for two histories) -/
theorem answers_of_same_survivors {R F : Router} {T T' : Str → Prop} (hR : EInv R T) (hF : EInv F T')
    (hsame : SameSurvivors R F) (env : FilterEnv) (hns : NoSel env) :
    (∀ path ms, (R.resolve env path ms).answer = (F.resolve env path ms).answer) ∧
    (∀ path ms rule vs, specResolve env R.rules (stripSlash path) = some (rule, vs) →
      (∀ q, q <+: rule.pat → ¬ T (patStr q) ∧ ¬ T' (patStr q)) →
      (R.resolve env path ms).hooks = (F.resolve env path ms).hooks) ∧
    (∀ nm, ((R.byName nm).bind R.obj?).map Route.view = ((F.byName nm).bind F.obj?).map Route.view) ∧
    (∀ cenv rule, (R.byRule cenv rule).map (fun o => (o.bind R.obj?).map Route.view) =
      (F.byRule cenv rule).map (fun o => (o.bind F.obj?).map Route.view)) := by
  obtain ⟨hroutes, hnames, hhooks⟩ := hsame
  refine ⟨fun path ms => (answer_of_same_routes hR.inv hF.inv hroutes env hns path ms).1, ?_, hnames, ?_⟩
  · intro path ms rule vs hsr hT
    rcases (answer_of_same_routes hR.inv hF.inv hroutes env hns path ms).2 rule vs hsr with
      ⟨h1, h2⟩ | ⟨rule', _, hpat, h1, h2⟩
    · rw [h1, h2]
    · have hmem : rule ∈ denote R.tree := (hR.inv.den _).mpr (specResolve_mem hsr).1
      have hnt := hR.inv.notok rule hmem
      rw [h1, h2, specHooks_index hR env rule.pat hnt (fun q hq => (hT q hq).1),
        specHooks_index hF env rule.pat hnt (fun q hq => (hT q hq).2)]
      congr 1
      funext q
      exact hhooks (patStr q)
  · intro cenv rule
    unfold Router.byRule
    cases parseRule cenv rule with
    | error e => rfl
    | ok p =>
      simp only
      split
      · rfl
      · simp only [Except.map]
        rw [matchPat_view hR.inv, matchPat_view hF.inv, hroutes]


/-! ### the router rebuilt from the survivors satisfies the invariant -/

theorem foldl_einv_gen {α} (f : Router → α → Router) (l : List α) (P : α → Prop)
    (hf : ∀ F a, P a → EInv F (fun _ => False) → EInv (f F a) (fun _ => False))
    (hl : ∀ a ∈ l, P a) (F : Router) (h : EInv F (fun _ => False)) :
    EInv (l.foldl f F) (fun _ => False) := by
  induction l generalizing F with
  | nil => exact h
  | cons a as ih =>
    exact ih (fun x hx => hl x (by simp [hx])) _ (hf F a (hl a (by simp)) h)

theorem EInv.plant {F : Router} (h : EInv F (fun _ => False)) (r : Route) (hn : NoLitTok r.syms)
    (hs : NoStar r.syms) : EInv (F.plant r) (fun _ => False) := by
  unfold Router.plant
  exact foldl_einv_gen _ r.methods (fun _ => True)
    (fun F' m _ h' => h'.addParsed _ ⟨r.syms, m.2.params, r.symsOut⟩ hn hs) (fun _ _ => trivial) _
    (h.addParsed _ ⟨r.syms, r.params, r.symsOut⟩ hn hs)

theorem EInv.plantHook {F : Router} (h : EInv F (fun _ => False)) (q : List Sym) (hp : HookPair)
    (hn : NoLitTok q) : EInv (F.plantHook q hp) (fun _ => False) := by
  unfold Router.plantHook
  have h1 : EInv (match hp.simple with
      | some hk => (F.addHookParsed ⟨q, [], q⟩ hk false).1
      | none => F) (fun _ => False) := by
    cases hp.simple with
    | none => exact h
    | some hk => exact h.addHookParsed ⟨q, [], q⟩ hk false hn
  cases hp.partialHook with
  | none => exact h1
  | some hk => exact h1.addHookParsed ⟨q, [], q⟩ hk true hn

mutual
theorem hookListN_mem (enc : HookPair → Nat) (pre : List Sym) (n : Node) (x : List Sym × HookPair)
    (hx : x ∈ hookListN pre n) : ∃ e ∈ hdenN enc n, x.1 = pre ++ e.pat := by
  match n with
  | .mk k d pk f h lits tok =>
    simp only [hookListN, List.mem_append] at hx
    simp only [hdenN, gN, List.mem_append]
    rcases hx with (hx | hx) | hx
    · cases h with
      | none => simp [hookOwn] at hx
      | some hp =>
        simp only [hookOwn, List.mem_singleton] at hx
        exact ⟨⟨[], enc hp, []⟩, Or.inl (Or.inl (by simp [ownH])), by simp [hx]⟩
    · obtain ⟨e, he, hq⟩ := hookListL_mem enc pre lits x hx
      exact ⟨e, Or.inl (Or.inr he), hq⟩
    · obtain ⟨e, he, hq⟩ := hookListT_mem enc pre tok x hx
      exact ⟨e, Or.inr he, hq⟩
theorem hookListT_mem (enc : HookPair → Nat) (pre : List Sym) (t : Option Node) (x : List Sym × HookPair)
    (hx : x ∈ hookListT pre t) : ∃ e ∈ gT (ownH enc) t, x.1 = pre ++ e.pat := by
  match t with
  | none => simp [hookListT] at hx
  | some t0 =>
    simp only [hookListT] at hx
    obtain ⟨e, he, hq⟩ := hookListN_mem enc _ t0 x hx
    exact ⟨e.under [Sym.tok t0.filter], by simp only [gT, List.mem_map]; exact ⟨e, he, rfl⟩,
      by rw [hq]; simp⟩
theorem hookListL_mem (enc : HookPair → Nat) (pre : List Sym) (ks : List Node) (x : List Sym × HookPair)
    (hx : x ∈ hookListL pre ks) : ∃ e ∈ gL (ownH enc) ks, x.1 = pre ++ e.pat := by
  match ks with
  | [] => simp [hookListL] at hx
  | k :: ks =>
    simp only [hookListL, List.mem_append] at hx
    simp only [gL, List.mem_append, List.mem_map]
    rcases hx with hx | hx
    · obtain ⟨e, he, hq⟩ := hookListN_mem enc _ k x hx
      exact ⟨e.under (litSyms k.key), Or.inl ⟨e, he, rfl⟩, by rw [hq]; simp [litSyms]⟩
    · obtain ⟨e, he, hq⟩ := hookListL_mem enc pre ks x hx
      exact ⟨e, Or.inr he, hq⟩
end

/-- **the router rebuilt from the survivors is a legitimate router state**: every registration
of `Router.fresh` keeps the invariant, nothing in it is unspecified -/
theorem fresh_einv {R : Router} {T : Str → Prop} (h : EInv R T) : EInv R.fresh (fun _ => False) := by
  unfold Router.fresh
  have hroute : ∀ x ∈ R.routes, ∀ r, R.obj? x.2 = some r → NoLitTok r.syms ∧ NoStar r.syms := by
    intro x hx r hr
    obtain ⟨r0, hr0, hps⟩ := h.inv.keys x.1 x.2 hx
    rw [hr] at hr0; cases hr0
    have he : (⟨r.syms, x.2, r.params⟩ : Rule) ∈ denote R.tree :=
      (h.inv.den _).mpr ((mem_rules R _).mpr ⟨x.1, x.2, r, hx, hr, rfl⟩)
    exact ⟨h.inv.notok _ he, h.nostar _ he⟩
  have hname : ∀ x ∈ R.named, ∀ r, R.obj? x.2 = some r → NoLitTok r.syms ∧ NoStar r.syms := by
    intro x hx r hr
    obtain ⟨r0, hr0, hin⟩ := h.named x.1 x.2 hx
    rw [hr] at hr0; cases hr0
    exact hroute _ hin r hr
  refine foldl_einv_gen _ _ (fun x => NoLitTok x.1) (fun F x hx hF => hF.plantHook x.1 x.2 hx) ?_ _ ?_
  · intro x hx
    obtain ⟨e, he, hq⟩ := hookListN_mem encPair [] R.tree x hx
    rw [hq, List.nil_append]
    exact h.hnotok encPair e he
  · refine foldl_einv_gen _ _ (fun x => x ∈ R.named) ?_ (fun _ hx => hx) _ ?_
    · intro F x hx hF
      cases hr : R.obj? x.2 with
      | none => simpa [hr] using hF
      | some r =>
        simp only [hr]
        exact hF.addParsed _ ⟨r.syms, r.params, r.symsOut⟩ (hname x hx r hr).1 (hname x hx r hr).2
    · refine foldl_einv_gen _ _ (fun x => x ∈ R.routes) ?_ (fun _ hx => hx) _ einv_init
      intro F x hx hF
      cases hr : R.obj? x.2 with
      | none => simpa [hr] using hF
      | some r =>
        simp only [hr]
        exact hF.plant r (hroute x hx r hr).1 (hroute x hx r hr).2

end Ombott.Router
