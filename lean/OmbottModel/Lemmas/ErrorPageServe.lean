import OmbottModel.Lemmas.ErrorPageRepr
import OmbottModel.Lemmas.ErrorPageRender
import OmbottModel.Lemmas.ErrorPageJson
/-! From `render` to the WSGI response (C20). -/
namespace Ombott.ErrorPage
open Py

/-- fixed page text before / after the URL cell, for a given status line and body text -/
def pagePre (lines : List Str) (sb : Str × Str) : Str :=
  fillFixed sb.1 sb.2 forbidden forbidden (templateParts lines).1 ++ ['\'']

def pagePost (lines : List Str) (sb : Str × Str) : Str :=
  '\'' :: fillFixed sb.1 sb.2 forbidden forbidden (templateParts lines).2

theorem urlCell_tokenized (pr : Char → Bool) (hP : PairsOK Gen.pageEscapePairs = true) (url : Str) :
    Tokenized (urlCell pr url) :=
  repr_body_tokenized pr (escapeWith_tokenized _ hP url)

theorem render_nodebug (pr : Char → Bool) (lines : List Str) (hT : templateOK lines = true)
    (hP : PairsOK Gen.pageEscapePairs = true) (e : ErrResp) (url : Str) :
    render pr lines e url false =
      .ok (pagePre lines (e.status, strOpt e.body) ++ urlCell pr url ++ pagePost lines (e.status, strOpt e.body)) := by
  unfold render
  simp only [Bool.false_eq_true, if_false]
  rw [renderLoop_parts lines hT]
  simp only [pyRepr_of_tokenized pr (escapeWith_tokenized _ hP url), pagePre, pagePost, urlCell, pageEscape,
    List.append_assoc, List.cons_append, List.nil_append]

theorem lookup_mem' {α β} [BEq α] [LawfulBEq α] {l : List (α × β)} {k : α} {v : β}
    (h : l.lookup k = some v) : (k, v) ∈ l := by
  induction l with
  | nil => simp at h
  | cons p ps ih =>
    obtain ⟨a, b⟩ := p
    simp only [List.lookup_cons] at h
    split at h
    · rename_i heq
      have := eq_of_beq heq
      simp only [Option.some.injEq] at h
      subst this; subst h
      simp
    · exact List.mem_cons_of_mem _ (ih h)

/-- codes the framework's own errors may carry: a body and a Content-Type go with them -/
def plainCode (code : Nat) : Bool := !(bodyless code false) && code != 204 && code != 304

/-- every `errors_map` entry answers with a status that carries a body -/
def errorsMapOK : Bool := Gen.errorsMap.all fun (_, code, _) => plainCode code

/-- the error object `_handle` creates for a framework outcome: its status line and body are in
the closed list, its code carries a body -/
theorem handleErr_framework (pr : Char → Bool) (raw : Bytes) (oc : Outcome) (hoc : oc.framework = true)
    (hM : errorsMapOK = true) :
    ∃ e, handleErr pr raw oc = .inr e ∧ (e.status, strOpt e.body) ∈ frameworkPages ∧ plainCode e.code = true := by
  unfold handleErr
  cases utf8Decode raw with
  | none => exact ⟨_, rfl, by simp [frameworkPages, httpError, strOpt], by decide⟩
  | some p =>
    cases oc with
    | notFound => exact ⟨_, rfl, by simp [frameworkPages, httpError, strOpt], by decide⟩
    | notAllowed a => exact ⟨_, rfl, by simp [frameworkPages, httpError, strOpt], by decide⟩
    | raises c m t => exact ⟨_, rfl, by simp [frameworkPages, httpError, err500, strOpt], by simp only [err500, httpError]; decide⟩
    | requestError c m t =>
      simp only
      cases hl : (Gen.errorsMap.lookup c).orElse fun _ => Gen.errorsMap.lookup "RequestError" with
      | none => exact ⟨_, rfl, by simp [frameworkPages, httpError, err500, strOpt], by simp only [err500, httpError]; decide⟩
      | some cb =>
        obtain ⟨code, body⟩ := cb
        have hmem : ∃ k, (k, code, body) ∈ Gen.errorsMap := by
          cases h1 : Gen.errorsMap.lookup c with
          | some v =>
            rw [h1] at hl
            simp only [Option.orElse_some, Option.some.injEq] at hl
            subst hl
            exact ⟨c, lookup_mem' h1⟩
          | none =>
            rw [h1] at hl
            simp only [Option.orElse_none] at hl
            exact ⟨"RequestError", lookup_mem' hl⟩
        obtain ⟨k, hk⟩ := hmem
        refine ⟨_, rfl, ?_, ?_⟩
        · simp only [frameworkPages, httpError, strOpt, List.mem_append, List.mem_map]
          exact Or.inr ⟨(k, code, body), hk, rfl⟩
        · simp only [errorsMapOK, List.all_eq_true] at hM
          exact hM (k, code, body) hk
    | iterRaises c m t => exact ⟨_, rfl, by simp [frameworkPages, httpError, strOpt], by simp only [httpError]; decide⟩
    | unsupportedType _ => cases hoc
    | abort _ _ => cases hoc
    | ok _ => cases hoc

end Ombott.ErrorPage

namespace Ombott.ErrorPage
open Py

/-! ### urlquote -/

theorem hexDigitU_safe : ∀ k : Fin 16, hexDigitU k.val ∉ special := by decide

/-- no byte `urlquote` passes through is a special character (decidable; evaluated on the
generated table) -/
def QuoteTableOK : Bool := Gen.urlquoteSafe.all fun b => !(special.contains (Char.ofNat b))

theorem urlquote_safe (hq : QuoteTableOK = true) (s : Str) : ∀ c ∈ urlquote s, c ∉ special := by
  intro c hc
  unfold urlquote at hc
  obtain ⟨b, _, hcb⟩ := List.mem_flatMap.mp hc
  split at hcb
  · rename_i hs
    simp only [List.mem_singleton] at hcb
    subst hcb
    simp only [QuoteTableOK, List.all_eq_true, Bool.not_eq_true', List.contains_eq_mem,
      decide_eq_false_iff_not] at hq
    exact hq b.toNat (by simpa using hs)
  · simp only [List.mem_cons, List.not_mem_nil, or_false] at hcb
    have hb : b.toNat < 256 := b.toNat_lt
    rcases hcb with rfl | rfl | rfl
    · decide
    · exact hexDigitU_safe ⟨b.toNat / 16, by omega⟩
    · exact hexDigitU_safe ⟨b.toNat % 16, Nat.mod_lt _ (by decide)⟩

end Ombott.ErrorPage
