import OmbottModel.Lemmas.AppServe
import OmbottModel.Lemmas.WsgiBody
/-!
A framework error object (404, 405 + `Allow`, 500, 400) through the rest of `Ombott.wsgi`, said
once for all the composed statements (C02: status line and `Allow`; C20: the page; C03: shape):
`wsgi_error_page`.
-/
namespace Ombott.App
open Py Ombott Ombott.Wsgi

/-! ### the request object `_handle` leaves behind -/

theorem handle_req (app : Wsgi.App) (s : Slots) (r : Wsgi.Req) :
    (handle app s r).1.req = some { id := r.id, urlRepr := r.urlRepr, json := r.json } := by
  unfold handle
  rw [reinit_eq]
  unfold handleFrom
  simp only
  split
  · rfl
  · rfl

/-- `default_error_handler`, both branches -/
theorem defaultHandler_exact (s : Slots) (e : RState) (body : Out) :
    defaultHandler s e body =
      if wantsJson s then (jsonPage body).map fun j => (withResp s (setJsonCtype s.resp), Out.text j)
      else some (s, .text (renderPage e.line (Wsgi.urlOf s) (fmtBody body))) := by
  unfold defaultHandler defaultPage
  split
  · cases jsonPage body <;> rfl
  · rfl

/-! ### header bookkeeping -/

theorem mem_set_other {h : Hdrs} {k k' : Str} {v v' : List HVal} (hm : (k, v) ∈ h) (hne : k ≠ k') :
    (k, v) ∈ Hdrs.set h k' v' := by
  induction h with
  | nil => cases hm
  | cons p ps ih =>
    obtain ⟨a, b⟩ := p
    unfold Hdrs.set
    split
    · rename_i heq
      rcases List.mem_cons.mp hm with h1 | h1
      · simp only [Prod.mk.injEq] at h1
        have : a = k' := by simpa using heq
        exact absurd (h1.1.trans this) hne
      · exact List.mem_cons_of_mem _ h1
    · rcases List.mem_cons.mp hm with h1 | h1
      · rw [h1]; exact List.mem_cons_self ..
      · exact List.mem_cons_of_mem _ (ih h1)

theorem mem_setdefault {h : Hdrs} {k k' : Str} {v : List HVal} {v' : HVal} (hm : (k, v) ∈ h) :
    (k, v) ∈ (h.setdefault k' v').1 := by
  unfold Hdrs.setdefault
  split
  · exact hm
  · exact List.mem_append_left _ hm

def AllGood (h : Hdrs) : Prop := ∀ p ∈ h, ∀ v ∈ p.2, v ≠ HVal.bad

theorem allGood_set {h : Hdrs} (hg : AllGood h) (k : Str) (w : Str) : AllGood (Hdrs.set h k [.good w]) := by
  induction h with
  | nil =>
    intro p hp v hv
    simp only [Hdrs.set, List.mem_singleton] at hp
    subst hp
    simp only [List.mem_singleton] at hv
    subst hv
    exact fun h => by cases h
  | cons q qs ih =>
    obtain ⟨a, b⟩ := q
    have hq : AllGood qs := fun p hp => hg p (List.mem_cons_of_mem _ hp)
    unfold Hdrs.set
    split
    · intro p hp v hv
      rcases List.mem_cons.mp hp with rfl | h1
      · simp only [List.mem_singleton] at hv
        subst hv
        exact fun h => by cases h
      · exact hq p h1 v hv
    · intro p hp v hv
      rcases List.mem_cons.mp hp with rfl | h1
      · exact hg _ (List.mem_cons_self ..) v hv
      · exact ih hq p h1 v hv

theorem allGood_setdefault {h : Hdrs} (hg : AllGood h) (k : Str) (w : Str) :
    AllGood (h.setdefault k (.good w)).1 := by
  unfold Hdrs.setdefault
  split
  · exact hg
  · intro p hp v hv
    rcases List.mem_append.mp hp with h1 | h1
    · exact hg p h1 v hv
    · simp only [List.mem_singleton] at h1
      subst h1
      simp only [List.mem_singleton] at hv
      subst hv
      exact fun h => by cases h

/-- a response object without un-encodable values has a header list -/
theorem headerlist_some_of_good (st : RState) (hg : AllGood st.headers) : ∃ hl, headerlist st = some hl := by
  unfold headerlist
  split
  · rename_i hany
    exfalso
    simp only [List.any_eq_true, beq_iff_eq] at hany
    obtain ⟨p, hp, hb⟩ := hany
    unfold flatHeaders at hp
    simp only [List.mem_flatMap, List.mem_map] at hp
    obtain ⟨e, he, v, hv, rfl⟩ := hp
    have hemem : e ∈ st.headers := by
      unfold keptHeaders at he
      simp only at he
      split at he
      · exact he
      · exact (List.mem_filter.mp he).1
    exact hg e hemem v hv hb
  · exact ⟨_, rfl⟩

theorem finishText_headers (s : Slots) (x : Str) :
    (finishText s x).1.resp.headers =
      (s.resp.headers.setdefault "Content-Length".toList
        (.good (natStr (if x.isEmpty then 0 else (utf8 x).length)))).1 := rfl

theorem finishText_allGood (s : Slots) (x : Str) (hg : AllGood s.resp.headers) :
    AllGood (finishText s x).1.resp.headers := by
  rw [finishText_headers]
  exact allGood_setdefault hg _ _

theorem finishText_mem (s : Slots) (x : Str) {k : Str} {v : List HVal} (hm : (k, v) ∈ s.resp.headers) :
    (k, v) ∈ (finishText s x).1.resp.headers := by
  rw [finishText_headers]
  exact mem_setdefault hm

theorem has_setdefault_other (h : Hdrs) (k k' : Str) (v : HVal) (hne : (k == k') = false) :
    (h.setdefault k v).1.has k' = h.has k' := by
  unfold Hdrs.setdefault
  split
  · rfl
  · simp only [Hdrs.has, List.any_append, List.any_cons, List.any_nil, Bool.or_false, hne]

theorem mem_set_self (h : Hdrs) (k : Str) (v : List HVal) : (k, v) ∈ Hdrs.set h k v := by
  induction h with
  | nil => simp [Hdrs.set]
  | cons p ps ih =>
    obtain ⟨a, b⟩ := p
    unfold Hdrs.set
    split
    · exact List.mem_cons_self ..
    · exact List.mem_cons_of_mem _ ih

/-- the default `Content-Type` is emitted when the store has none and the status withholds nothing -/
theorem headerlist_default_ctype (st : RState) (hl : List (Str × Str)) (h : headerlist st = some hl)
    (hhas : st.headers.has "Content-Type".toList = false) (hbad : (badHeadersFor st.code).isEmpty = true) :
    ("Content-Type".toList, Gen.wsgiDefaultContentType.toList) ∈ hl := by
  unfold headerlist at h
  split at h
  · cases h
  · simp only [Option.some.injEq] at h
    subst h
    simp only [needCtype, hbad, hhas, Bool.not_false, Bool.and_self, if_true, List.mem_append,
      List.mem_singleton, or_true, true_or]

theorem contains_of_isEmpty {l : List Str} (h : l.isEmpty = true) (k : Str) : l.contains k = false := by
  cases l with
  | nil => rfl
  | cons _ _ => cases h

theorem json_ctype_ascii : recodeLatin1 "application/json".toList = "application/json".toList := by decide

/-! ### the packaged statement -/

/-- what the server sees when a framework error object `e` (body `body`) leaves `_handle`:
`x` is the page text, `hl` the header list -/
structure ErrorServed (app : Wsgi.App) (s : Slots) (r : Wsgi.Req) (e : RState) (body : Out)
    (x : Str) (hl : List (Str × Str)) : Prop where
  evs : (wsgi app s r).events = (handle app s r).2.1 ++ [.startResponse e.line hl false]
  bodyEq : (wsgi app s r).body =
    (if isBodyless e.code || r.isHead then [] else if x.isEmpty then [] else [.chunk (utf8 x)])
  closer : (wsgi app s r).closer = none
  code : (wsgi app s r).slots.resp.code = e.code
  hdrs : headerlist (wsgi app s r).slots.resp = some hl
  page : (r.json = false ∧ x = renderPage e.line r.urlRepr (fmtBody body)) ∨
         (r.json = true ∧ jsonPage body = some x)
  kept : ∀ k v, (k, [HVal.good v]) ∈ e.headers → k ≠ "Content-Type".toList →
    (badHeadersFor e.code).contains (titleAscii k) = false → (k, recodeLatin1 v) ∈ hl
  ctype : e.headers.has "Content-Type".toList = false → (badHeadersFor e.code).isEmpty = true →
    ("Content-Type".toList,
      if r.json then "application/json".toList else Gen.wsgiDefaultContentType.toList) ∈ hl

/-- **`wsgi_error_page`.**  A request whose `_handle` returns an error object `e` without custom
handler for its status (and, when JSON is requested, a body `json.dumps` accepts): one
`start_response(e.line, headerlist)` after the events of `_handle`; the body is the default error
handler's page — `error_render.render` on `request.url` or the JSON text — as one chunk, dropped
for HEAD / body-less statuses; nothing to close; the headers of the error object itself (`Allow`)
and the page's `Content-Type` are in the list. -/
theorem wsgi_error_page_of_out (app : Wsgi.App) (s : Slots) (r : Wsgi.Req)
    (e : RState) (body : Out) (hout : (handle app s r).2.2 = .resp true e body)
    (hno : errHandlerFor app e.code = none) (hgood : AllGood e.headers)
    (hj : r.json = true → (jsonPage body).isSome = true) :
    ∃ x hl, ErrorServed app s r e body x hl := by
  have hreq := handle_req app s r
  -- the slots the default error handler sees
  generalize hs0 : (handle app s r).1 = s0 at hreq
  have hw : wantsJson (withResp s0 (apply e s0.resp)) = r.json := by
    simp only [wantsJson, withResp, hreq]
  have hu : Wsgi.urlOf (withResp s0 (apply e s0.resp)) = r.urlRepr := by
    simp only [Wsgi.urlOf, withResp, hreq]
  have hex := defaultHandler_exact (withResp s0 (apply e s0.resp)) e body
  rw [hw, hu] at hex
  cases hjs : r.json with
  | false =>
    rw [hjs] at hex
    simp only [Bool.false_eq_true, if_false] at hex
    have hg1 : AllGood (finishText (withResp s0 (apply e s0.resp))
        (renderPage e.line r.urlRepr (fmtBody body))).1.resp.headers :=
      finishText_allGood _ _ hgood
    obtain ⟨hl, hhl⟩ := headerlist_some_of_good _ hg1
    obtain ⟨h1, h2, h3, h4⟩ := wsgi_of_error_out app s r e body hout hno _ _ (by rw [hs0]; exact hex) hl hhl
    refine ⟨_, hl, h1, h2, h3, ?_, ?_, Or.inl ⟨hjs, rfl⟩, ?_, ?_⟩
    · rw [h4]; rfl
    · rw [h4]; exact hhl
    · intro k v hm _ hkeep
      refine headerlist_mem _ hl hhl k v ?_ hkeep
      exact finishText_mem _ _ hm
    · intro hhas hbad
      simp only [hjs, Bool.false_eq_true, if_false]
      refine headerlist_default_ctype _ hl hhl ?_ hbad
      rw [finishText_headers, has_setdefault_other _ _ _ _ (by decide)]
      exact hhas
  | true =>
    rw [hjs] at hex
    simp only [if_true] at hex
    have hsome := hj hjs
    cases hjp : jsonPage body with
    | none => rw [hjp] at hsome; cases hsome
    | some j =>
      rw [hjp] at hex
      simp only [Option.map_some] at hex
      have hg1 : AllGood (finishText (withResp (withResp s0 (apply e s0.resp))
          (setJsonCtype (withResp s0 (apply e s0.resp)).resp)) j).1.resp.headers :=
        finishText_allGood _ _ (allGood_set (h := e.headers) hgood _ _)
      obtain ⟨hl, hhl⟩ := headerlist_some_of_good _ hg1
      obtain ⟨h1, h2, h3, h4⟩ := wsgi_of_error_out app s r e body hout hno _ _ (by rw [hs0]; exact hex) hl hhl
      refine ⟨j, hl, h1, h2, h3, ?_, ?_, Or.inr ⟨hjs, hjp⟩, ?_, ?_⟩
      · rw [h4]; rfl
      · rw [h4]; exact hhl
      · intro k v hm hne hkeep
        refine headerlist_mem _ hl hhl k v ?_ hkeep
        exact finishText_mem _ _ (mem_set_other (h := e.headers) hm hne)
      · intro _ hbad
        simp only [hjs, if_true]
        have := headerlist_mem _ hl hhl "Content-Type".toList "application/json".toList
          (finishText_mem _ _ (mem_set_self e.headers _ _)) (contains_of_isEmpty hbad _)
        rw [json_ctype_ascii] at this
        exact this

/-- the same, from the program alone, for a decodable path -/
theorem wsgi_error_page (app : Wsgi.App) (s : Slots) (r : Wsgi.Req) (hp : r.pathOK = true)
    (e : RState) (body : Out) (hflow : handleFlow app r = .resp (.resp true e body))
    (hno : errHandlerFor app e.code = none) (hgood : AllGood e.headers)
    (hj : r.json = true → (jsonPage body).isSome = true) :
    ∃ x hl, ErrorServed app s r e body x hl := by
  obtain ⟨hout, _⟩ := handle_out app s r hp
  rw [hflow] at hout
  simp only [settle] at hout
  exact wsgi_error_page_of_out app s r e body hout hno hgood hj

/-- an undecodable `PATH_INFO`: `_handle` returns the 400 object right away -/
theorem handle_out_undecodable (app : Wsgi.App) (s : Slots) (r : Wsgi.Req) (hp : r.pathOK = false) :
    (handle app s r).2.2 = .resp true { code := 400, line := lineOfCode 400, headers := [], cookies := [] }
      (.text "Invalid path string. Expected UTF-8".toList) ∧ (handle app s r).2.1 = [] := by
  unfold handle handleFrom
  simp only [hp, Bool.not_false, if_true]
  exact ⟨rfl, trivial⟩

/-! ### a found route -/

/-- with before hooks that do not fail, a found route means the handler event -/
theorem handler_event_of_found (app : Wsgi.App) (s : Slots) (r : Wsgi.Req) (hp : r.pathOK = true)
    (hb : app.before.all (fun h => !h.fails) = true) (hf : r.route.isFound = true) :
    Wsgi.Event.handler ∈ (wsgi app s r).events := by
  obtain ⟨c, errs, st, _, _, hev, _⟩ := wsgi_events_shape app s r
  obtain ⟨tail, _, heq⟩ := handle_trace app s r hp
  have hb' : (enumFrom 0 app.before).all (fun p => !p.2.fails) = true :=
    (enumFrom_all (fun h : Hook => !h.fails) app.before 0).trans hb
  rw [hev, heq, hb', hf]
  simp

/-- a text answer: one iteration of `_cast`, the status is what `_handle` left -/
theorem cast_text (app : Wsgi.App) (fw : Bool) (s : Slots) (t : Str) :
    Wsgi.cast app fw s (.text t) = finishText s t := by
  have hm := maxLoops_ge
  obtain ⟨k, hk⟩ : ∃ k, Gen.wsgiCastMaxLoops + 1 = k + 1 := ⟨Gen.wsgiCastMaxLoops, rfl⟩
  unfold Wsgi.cast
  rw [hk, runLoop_succ_run, step_run app fw 0 s _ (by omega), castOut_text, runLoop_done]

theorem wsgi_of_text (app : Wsgi.App) (s : Slots) (r : Wsgi.Req) (hp : r.pathOK = true) (t : Str)
    (hflow : handleFlow app r = .ret (.text t)) :
    (wsgi app s r).slots.resp.code = (handle app s r).1.resp.code := by
  obtain ⟨hout, _⟩ := handle_out app s r hp
  rw [hflow] at hout
  simp only [settle] at hout
  unfold wsgi
  rcases hh : handle app s r with ⟨s0, ev1, out⟩
  rw [hh] at hout
  simp only at hout ⊢
  subst hout
  rw [cast_text, finishText_eq]
  simp only
  cases headerlist (finishText s0 t).1.resp <;> rfl

/-- no hooks and a handler that touches nothing: the response object is the fresh one -/
theorem handle_plain_resp (app : Wsgi.App) (s : Slots) (r : Wsgi.Req) (hp : r.pathOK = true)
    (hb : app.before = []) (ha : app.after = []) (hd : Wsgi.Handler) (hr : r.route = .found hd)
    (heff : hd.effs = []) : (handle app s r).1.resp = RState.init := by
  unfold handle
  rw [reinit_eq]
  unfold handleFrom
  simp only [hp, Bool.not_true, Bool.false_eq_true, if_false, hb, ha, hookList, enumFrom, List.reverse_nil,
    ite_self, runBefore, runAfter, hr, runRoute, heff, runEffs]
  cases hd.res <;> rfl

theorem default_status_200 : RState.init.code = 200 := by decide

/-! ### the two routing errors -/

theorem notFound_flow : Wsgi.Route.notFound.flow = .resp (.resp true
    { code := 404, line := lineOfCode 404, headers := [], cookies := [] } (.text "Not Found".toList)) := rfl

theorem notAllowed_flow (allow : Str) : (Wsgi.Route.notAllowed allow).flow = .resp (.resp true
    { code := 405, line := lineOfCode 405, headers := [("Allow".toList, [.good allow])], cookies := [] }
    (.text "Method not allowed.".toList)) := rfl

theorem allow_kept : (badHeadersFor 405).contains (titleAscii "Allow".toList) = false := by decide

end Ombott.App
