import OmbottModel.Model.QsSpec
/-! The `setitem` list-promotion closure of `parse_qsl` computes `group` (C18). -/
namespace Ombott.Qs
open Py

/-! ### dictionary algebra -/

theorem snoc_induction {α} {P : List α → Prop} (h0 : P []) (h1 : ∀ l a, P l → P (l ++ [a])) : ∀ l, P l := by
  intro l
  have : ∀ r : List α, P r.reverse := by
    intro r
    induction r with
    | nil => exact h0
    | cons a r ih => rw [List.reverse_cons]; exact h1 _ _ ih
  simpa using this l.reverse

theorem Dict.get?_cons {β} (a : Str × β) (r : Dict β) (k : Str) :
    Dict.get? (a :: r) k = if a.1 = k then some a.2 else Dict.get? r k := by
  unfold Dict.get?
  rw [List.find?_cons]
  by_cases h : a.1 = k <;> simp [h]

theorem Dict.get?_nil {β} (k : Str) : Dict.get? ([] : Dict β) k = none := rfl

theorem Dict.get?_set {β} (d : Dict β) (k k' : Str) (x : β) :
    (d.set k x).get? k' = if k' = k then some x else d.get? k' := by
  induction d with
  | nil =>
    simp only [Dict.set, Dict.get?_cons, Dict.get?_nil]
    by_cases h : k = k'
    · subst h; simp
    · simp [h, Ne.symm h]
  | cons a r ih =>
    obtain ⟨ka, va⟩ := a
    simp only [Dict.set]
    split
    · rename_i h; subst h
      simp only [Dict.get?_cons]
      by_cases h : ka = k'
      · subst h; simp
      · simp [h, Ne.symm h]
    · rename_i h
      simp only [Dict.get?_cons, ih]
      by_cases h2 : ka = k'
      · subst h2; simp [h]
      · simp [h2]

/-- assigning into a dictionary that is a table over a duplicate-free key list -/
theorem Dict.set_map {β} (l : List Str) (f : Str → β) (k : Str) (x : β) (hn : l.Nodup) :
    Dict.set (l.map fun k' => (k', f k')) k x =
      if k ∈ l then l.map (fun k' => (k', if k' = k then x else f k'))
      else l.map (fun k' => (k', f k')) ++ [(k, x)] := by
  induction l with
  | nil => simp [Dict.set]
  | cons a r ih =>
    simp only [List.nodup_cons] at hn
    simp only [List.map_cons, Dict.set]
    by_cases h : a = k
    · subst h
      simp only [if_true, List.mem_cons, true_or]
      congr 1
      apply List.map_congr_left
      intro k' hk'
      have : k' ≠ a := fun e => hn.1 (e ▸ hk')
      simp [this]
    · simp only [h, if_false, List.mem_cons]
      rw [ih hn.2]
      have hk : (k = a) = False := eq_false (fun e => h e.symm)
      simp only [hk, false_or]
      split <;> simp

/-! ### the specification under one more submitted pair -/

theorem firstKeys_snoc (p : List (Str × Str)) (k v : Str) :
    firstKeys (p ++ [(k, v)]) = if k ∈ firstKeys p then firstKeys p else firstKeys p ++ [k] := by
  simp only [firstKeys, List.foldl_append, List.foldl_cons, List.foldl_nil]
  split <;> rename_i h <;> simp [h]

theorem firstKeys_nodup (p : List (Str × Str)) : (firstKeys p).Nodup := by
  induction p using snoc_induction with
  | h0 => simp [firstKeys]
  | h1 p a ih =>
    obtain ⟨k, v⟩ := a
    rw [firstKeys_snoc]
    split
    · exact ih
    · rename_i h
      rw [List.nodup_append]
      refine ⟨ih, by simp, ?_⟩
      intro a ha b hb
      simp at hb; subst hb
      intro e; subst e; exact h ha

theorem mem_firstKeys (p : List (Str × Str)) (k : Str) : k ∈ firstKeys p ↔ valuesOf k p ≠ [] := by
  induction p using snoc_induction with
  | h0 => simp [firstKeys, valuesOf]
  | h1 p a ih =>
    obtain ⟨k', v⟩ := a
    rw [firstKeys_snoc]
    have hv : valuesOf k (p ++ [(k', v)]) = valuesOf k p ++ (if k' = k then [v] else []) := by
      simp only [valuesOf, List.filter_append, List.map_append, List.filter_cons, List.filter_nil]
      by_cases h : k' = k <;> simp [h]
    rw [hv]
    by_cases h : k' = k
    · subst h
      simp only [if_true]
      split
      · rename_i h'; simp [h']
      · simp
    · simp only [h, if_false, List.append_nil]
      split
      · exact ih
      · rw [List.mem_append, ih]
        have : ¬ k = k' := fun e => h e.symm
        simp [this]

theorem valuesOf_snoc (p : List (Str × Str)) (k k' v : Str) :
    valuesOf k' (p ++ [(k, v)]) = valuesOf k' p ++ (if k' = k then [v] else []) := by
  simp only [valuesOf, List.filter_append, List.map_append, List.filter_cons, List.filter_nil]
  by_cases h : k = k' <;> simp [h, eq_comm]

/-- one more pair `(k, v)`: the entry of `k` becomes the value for `valuesOf k p ++ [v]`, in place
if `k` was there, at the end otherwise -/
theorem group_snoc (p : List (Str × Str)) (k v : Str) :
    group (p ++ [(k, v)]) = (group p).set k (valOf (valuesOf k p ++ [v])) := by
  unfold group
  rw [Dict.set_map _ _ _ _ (firstKeys_nodup p), firstKeys_snoc]
  split
  · apply List.map_congr_left
    intro k' _
    rw [valuesOf_snoc]
    by_cases h : k' = k
    · subst h; simp
    · simp [h]
  · rename_i hk
    rw [List.map_append]
    congr 1
    · apply List.map_congr_left
      intro k' hk'
      have : k' ≠ k := fun e => hk (e ▸ hk')
      rw [valuesOf_snoc]; simp [this]
    · simp [valuesOf_snoc]


/-! ### the `add` closure keeps the specification -/

/-- what `_seen`, `_lists` and the target dictionary hold after the pairs `p` went through `add` -/
structure Inv (st : AddSt) (p : List (Str × Str)) : Prop where
  seen : ∀ k, st.seen.get? k = (valuesOf k p).head?
  lists : ∀ k, st.lists.get? k = if 2 ≤ (valuesOf k p).length then some (valuesOf k p) else none
  out : st.out = group p

theorem Inv.init : Inv {} [] := ⟨fun _ => rfl, fun _ => rfl, rfl⟩

theorem add_inv (st : AddSt) (p : List (Str × Str)) (k v : Str) (h : Inv st p) :
    ∃ st', add st k v = .ok st' ∧ Inv st' (p ++ [(k, v)]) := by
  have hl := h.lists k
  have hs := h.seen k
  unfold add
  by_cases h2 : 2 ≤ (valuesOf k p).length
  · -- already promoted: append to the list
    rw [if_pos h2] at hl
    obtain ⟨x, xs, hx⟩ : ∃ x xs, valuesOf k p = x :: xs := by
      cases hv : valuesOf k p with
      | nil => rw [hv] at h2; simp at h2
      | cons x xs => exact ⟨x, xs, rfl⟩
    rw [hl, hx]
    refine ⟨_, rfl, ?_, ?_, ?_⟩
    · intro k'; simp only; rw [h.seen k', valuesOf_snoc]
      by_cases e : k' = k
      · subst e; rw [hx]; simp
      · simp [e]
    · intro k'
      simp only
      rw [Dict.get?_set, valuesOf_snoc]
      by_cases e : k' = k
      · subst e; rw [hx] at h2 ⊢; simp
      · simp only [e, if_false, List.append_nil]; exact h.lists k'
    · simp only
      rw [group_snoc, h.out, hx]
      congr 1
      cases xs with
      | nil => rw [hx] at h2; simp at h2
      | cons y ys => rfl
  · rw [if_neg h2] at hl
    rw [hl]
    simp only
    cases hv : valuesOf k p with
    | nil =>
      -- first occurrence
      rw [hv] at hs
      simp only [List.head?_nil] at hs
      rw [hs]
      simp only [Option.isSome_none, Bool.false_eq_true, if_false]
      refine ⟨_, rfl, ?_, ?_, ?_⟩
      · intro k'; simp only; rw [Dict.get?_set, valuesOf_snoc]
        by_cases e : k' = k
        · subst e; rw [hv]; simp
        · simp only [e, if_false, List.append_nil]; exact h.seen k'
      · intro k'; simp only; rw [h.lists k', valuesOf_snoc]
        by_cases e : k' = k
        · subst e; rw [hv]; simp
        · simp [e]
      · simp only
        rw [group_snoc, h.out, hv]; rfl
    | cons s rest =>
      -- second occurrence: promotion
      have hrest : rest = [] := by
        rw [hv] at h2; simp at h2
        cases rest with
        | nil => rfl
        | cons _ _ => simp at h2
      subst hrest
      rw [hv] at hs
      simp only [List.head?_cons] at hs
      rw [hs]
      simp only [Option.isSome_some, if_true]
      refine ⟨_, rfl, ?_, ?_, ?_⟩
      · intro k'; simp only; rw [h.seen k', valuesOf_snoc]
        by_cases e : k' = k
        · subst e; rw [hv]; simp
        · simp [e]
      · intro k'; simp only; rw [Dict.get?_set, valuesOf_snoc]
        by_cases e : k' = k
        · subst e; rw [hv]; simp
        · simp only [e, if_false, List.append_nil]; exact h.lists k'
      · simp only
        rw [group_snoc, h.out, hv]; rfl

theorem addAll_inv (st : AddSt) (p ps : List (Str × Str)) (h : Inv st p) :
    ∃ st', addAll st ps = .ok st' ∧ Inv st' (p ++ ps) := by
  induction ps generalizing st p with
  | nil => exact ⟨st, rfl, by simpa using h⟩
  | cons a r ih =>
    obtain ⟨k, v⟩ := a
    obtain ⟨st1, h1, hi1⟩ := add_inv st p k v h
    obtain ⟨st2, h2, hi2⟩ := ih st1 (p ++ [(k, v)]) hi1
    refine ⟨st2, ?_, by simpa using hi2⟩
    simp only [addAll, h1, h2]

/-- the `setitem` closure never raises and leaves exactly the specified dictionary -/
theorem addAll_group (ps : List (Str × Str)) : (addAll {} ps).map (·.out) = .ok (group ps) := by
  obtain ⟨st, h1, h2⟩ := addAll_inv {} [] ps Inv.init
  rw [h1]
  simp only [Except.map, List.nil_append] at h2 ⊢
  rw [h2.out]

/-! ### `FormsDict(query, **forms)` -/

theorem Dict.set_not_mem {β} (d : Dict β) (k : Str) (x : β) (h : k ∉ d.map (·.1)) : d.set k x = d ++ [(k, x)] := by
  induction d with
  | nil => rfl
  | cons a r ih =>
    simp only [List.map_cons, List.mem_cons, not_or] at h
    simp only [Dict.set]
    rw [if_neg (fun e => h.1 e.symm), ih h.2]
    rfl

/-- `FormsDict(q, **f)` when the keys of `f` are distinct and new: `f` is appended -/
theorem foldl_set_append {β} (d pre : Dict β) (h : (pre ++ d).map (·.1) |>.Nodup) :
    d.foldl (fun acc p => Dict.set acc p.1 p.2) pre = pre ++ d := by
  induction d generalizing pre with
  | nil => simp
  | cons a r ih =>
    have hk : a.1 ∉ pre.map (·.1) := by
      intro hm
      rw [List.map_append, List.nodup_append] at h
      exact h.2.2 _ hm _ (by simp) rfl
    simp only [List.foldl_cons]
    rw [Dict.set_not_mem pre a.1 a.2 hk, ih (pre ++ [(a.1, a.2)]) (by simpa using h)]
    simp

theorem group_keys (ps : List (Str × Str)) : (group ps).map (·.1) = firstKeys ps := by
  simp [group, List.map_map, Function.comp_def]

theorem foldl_set_group (ps : List (Str × Str)) :
    (group ps).foldl (fun acc p => Dict.set acc p.1 p.2) [] = group ps := by
  rw [foldl_set_append _ [] (by simpa [group_keys] using firstKeys_nodup ps)]
  simp

end Ombott.Qs
