import OmbottModel.Model.History
import OmbottModel.Lemmas.WsgiCast
/-! Lemmas for C09: the response does not depend on the slots left by earlier requests, the
shared error objects keep their content, their traceback chains stay short. -/
namespace Ombott.History
open Py Ombott.Wsgi

/-- `wsgi` re-initialises both per-thread objects before anything reads them -/
theorem wsgi_slots_irrelevant (app : App) (s s' : Slots) (r : Req) : wsgi app s r = wsgi app s' r := by
  unfold wsgi handle
  rw [reinit_eq, reinit_eq]

/-- after `request.__init__` no extension attribute of an earlier request is left -/
theorem extAtHandler_eq (s : Slots) (r : Req) (sets : List (Str × Str)) : extAtHandler s r sets = sets := by
  unfold extAtHandler Slots.initRequest
  rfl

theorem withProbe_slots_irrelevant (s s' : Slots) (hr : HReq) (req : Req) :
    withProbe s hr req = withProbe s' hr req := by
  unfold withProbe
  simp only [extAtHandler_eq]

theorem withProbe_ids (s : Slots) (hr : HReq) (req : Req) :
    (withProbe s hr req).id = req.id ∧ (withProbe s hr req).urlRepr = req.urlRepr ∧
    (withProbe s hr req).json = req.json := by
  unfold withProbe
  split
  · split <;> exact ⟨rfl, rfl, rfl⟩
  · exact ⟨rfl, rfl, rfl⟩

/-- what of a shared error object a response can show -/
def SharedErr.core (e : SharedErr) : String × RState × Str := (e.cls, e.resp, e.body)

theorem find_core (p : String → Bool) (l l' : List SharedErr) (h : l.map SharedErr.core = l'.map SharedErr.core) :
    (l.find? (fun e => p e.cls)).map SharedErr.core = (l'.find? (fun e => p e.cls)).map SharedErr.core := by
  induction l generalizing l' with
  | nil =>
    cases l' with
    | nil => rfl
    | cons _ _ => cases h
  | cons a as ih =>
    cases l' with
    | nil => cases h
    | cons b bs =>
      simp only [List.map_cons, List.cons.injEq] at h
      have hcls : a.cls = b.cls := congrArg (·.1) h.1
      simp only [List.find?_cons, hcls]
      cases p b.cls with
      | true => simp only [Option.map_some, h.1]
      | false => exact ih bs h.2

theorem mapped_core (l l' : List SharedErr) (cls : String)
    (h : l.map SharedErr.core = l'.map SharedErr.core) :
    (mapped l cls).map SharedErr.core = (mapped l' cls).map SharedErr.core := by
  unfold mapped
  have h1 := find_core (· == cls) l l' h
  have h2 := find_core (· == "RequestError") l l' h
  cases ha : l.find? (fun e => e.cls == cls) with
  | some a =>
    rw [ha] at h1
    cases hb : l'.find? (fun e => e.cls == cls) with
    | some b => rw [hb] at h1; exact h1
    | none => rw [hb] at h1; cases h1
  | none =>
    rw [ha] at h1
    cases hb : l'.find? (fun e => e.cls == cls) with
    | some b => rw [hb] at h1; cases h1
    | none => exact h2

/-- the request handed to `wsgi` does not depend on anything but the content of the shared
error objects -/
theorem resolve_core (l l' : List SharedErr) (hr : HReq)
    (h : l.map SharedErr.core = l'.map SharedErr.core) : (resolve l hr).1 = (resolve l' hr).1 := by
  unfold resolve
  cases hb : hr.bodyErr with
  | none => rfl
  | some cls =>
    cases hrt : hr.req.route with
    | notFound => rfl
    | notAllowed a => rfl
    | found hd =>
      simp only
      cases hdir : hr.direct with
      | true => rfl
      | false =>
      simp only [Bool.false_eq_true, if_false]
      have hm := mapped_core l l' cls h
      cases ha : mapped l cls with
      | none =>
        rw [ha] at hm
        cases hb' : mapped l' cls with
        | none => rfl
        | some b => rw [hb'] at hm; cases hm
      | some a =>
        rw [ha] at hm
        cases hb' : mapped l' cls with
        | none => rw [hb'] at hm; cases hm
        | some b =>
          rw [hb'] at hm
          simp only [Option.map_some, Option.some.injEq, SharedErr.core, Prod.mk.injEq] at hm
          simp only [hm.2.1, hm.2.2]

theorem raiseShared_core (l : List SharedErr) (e : SharedErr) (id : Nat) :
    (raiseShared l e id).map SharedErr.core = l.map SharedErr.core := by
  unfold raiseShared
  rw [List.map_map]
  apply List.map_congr_left
  intro x _
  simp only [Function.comp]
  split <;> rfl

theorem clearShared_core (l : List SharedErr) (e : SharedErr) :
    (clearShared l e).map SharedErr.core = l.map SharedErr.core := by
  unfold clearShared
  rw [List.map_map]
  apply List.map_congr_left
  intro x _
  simp only [Function.comp]
  split <;> rfl

/-- serving a request never changes the content of the shared error objects -/
theorem serve_core (app : App) (st : AppState) (hr : HReq) :
    (serve app st hr).1.shared.map SharedErr.core = st.shared.map SharedErr.core := by
  unfold serve
  rfl

/-- … nor anything else of them (what is raised and handed to error handlers is a copy) -/
theorem serve_shared (app : App) (st : AppState) (hr : HReq) : (serve app st hr).1.shared = st.shared := by
  unfold serve
  rfl

theorem foldl_shared (app : App) (hist : List HReq) (st : AppState) :
    (hist.foldl (serve₁ app) st).shared = st.shared := by
  induction hist generalizing st with
  | nil => rfl
  | cons h hs ih =>
    simp only [List.foldl_cons]
    rw [ih, serve₁, serve_shared]

theorem foldl_core (app : App) (hist : List HReq) (st : AppState) :
    (hist.foldl (serve₁ app) st).shared.map SharedErr.core = st.shared.map SharedErr.core := by
  induction hist generalizing st with
  | nil => rfl
  | cons h hs ih =>
    simp only [List.foldl_cons]
    rw [ih, serve₁, serve_core]

/-! ### the request slot -/

def slotsReq : Cfg → Option ReqSlot
  | .run _ s _ => s.req
  | .done s _ => s.req

theorem castIter_req (cnt : Nat) (s : Slots) (id : Nat) (hc : Bool) (items : List Item) :
    slotsReq (castIter cnt s id hc items) = s.req := by
  unfold castIter
  simp only
  split <;> rfl

theorem defaultHandler_req (s : Slots) (r : RState) (body : Out) (s' : Slots) (o : Out)
    (h : defaultHandler s r body = some (s', o)) : s'.req = s.req := by
  rcases defaultHandler_cases s r body s' o h with ⟨rfl, _⟩ | ⟨j, rfl, _⟩ <;> rfl

theorem castOut_req (app : App) (fw : Bool) (cnt : Nat) (s : Slots) (out : Out) :
    slotsReq (castOut app fw cnt s out) = s.req := by
  unfold castOut
  split
  · unfold finishEmpty; rfl
  · split
    · unfold finishEmpty; rfl
    · unfold finishBytes; rfl
  · split
    · unfold finishEmpty; rfl
    · unfold finishBytes; rfl
  · simp only
    split
    · split
      · rfl
      · rename_i s'' o hd
        exact (defaultHandler_req _ _ _ _ _ hd).trans rfl
    · rfl
    · rfl
    · rfl
  · rfl
  · split
    · rfl
    · split
      · rfl
      · exact castIter_req _ _ _ _ _
  · exact castIter_req _ _ _ _ _
  · rfl

theorem step_req (app : App) (fw : Bool) (c : Cfg) : slotsReq (step app fw c) = slotsReq c := by
  cases c with
  | done s r => rfl
  | run cnt s out =>
    unfold step
    simp only
    split
    · split
      · rfl
      · rename_i s'' o hd
        rw [castOut_req]
        exact (defaultHandler_req _ _ _ _ _ hd).trans rfl
    · rw [castOut_req]; rfl

/-- `_cast` does not touch the request object -/
theorem cast_req (app : App) (fw : Bool) (s : Slots) (out : Out) : (Wsgi.cast app fw s out).1.req = s.req := by
  have := runLoop_invariant app fw (fun c => slotsReq c = s.req)
    (fun c h => by rw [step_req]; exact h) (Gen.wsgiCastMaxLoops + 1) (.run 0 s out) rfl
  unfold Wsgi.cast
  split
  · rename_i heq; rw [heq] at this; exact this
  · rename_i heq; rw [heq] at this; exact this

theorem handle_req (app : App) (s : Slots) (q : Req) :
    (handle app s q).1.req = some { id := q.id, urlRepr := q.urlRepr, json := q.json } := by
  unfold handle
  rw [reinit_eq]
  unfold handleFrom
  simp only
  split <;> rfl

/-- after the call the request object points at this request's environ -/
theorem wsgi_req (app : App) (s : Slots) (q : Req) :
    (wsgi app s q).slots.req = some { id := q.id, urlRepr := q.urlRepr, json := q.json } := by
  have hh := handle_req app s q
  unfold wsgi
  rcases hh' : handle app s q with ⟨s1, ev1, out⟩
  rw [hh'] at hh
  simp only at hh ⊢
  have hc' := cast_req app q.fileWrapper s1 out
  rcases hcast : Wsgi.cast app q.fileWrapper s1 out with ⟨s2, cr⟩
  rw [hcast] at hc'
  simp only at hc'
  cases cr with
  | body items closer cl =>
    simp only
    cases headerlist s2.resp with
    | some l => simp only; rw [hc', hh]
    | none => simp only [catchAll]; rw [hc', hh]
  | raised => simp only [catchAll]; rw [hc', hh]
  | diverged => simp only [catchAll]; rw [hc', hh]

/-! ### retention -/

/-- every traceback chain references at most one request -/
def TbShort (l : List SharedErr) : Prop := ∀ e ∈ l, e.tb.length ≤ 1

theorem raiseShared_tb (l : List SharedErr) (e : SharedErr) (id : Nat) (h : TbShort l) :
    TbShort (raiseShared l e id) := by
  intro x hx
  unfold raiseShared at hx
  simp only [List.mem_map] at hx
  obtain ⟨y, hy, rfl⟩ := hx
  split
  · exact Nat.le_refl 1
  · exact h y hy

theorem raiseShared_length (l : List SharedErr) (e : SharedErr) (id : Nat) :
    (raiseShared l e id).length = l.length := by
  unfold raiseShared; simp

theorem clearShared_tb (l : List SharedErr) (e : SharedErr) (h : TbShort l) : TbShort (clearShared l e) := by
  intro x hx
  unfold clearShared at hx
  simp only [List.mem_map] at hx
  obtain ⟨y, hy, rfl⟩ := hx
  split
  · exact Nat.zero_le 1
  · exact h y hy

theorem clearShared_length (l : List SharedErr) (e : SharedErr) : (clearShared l e).length = l.length := by
  unfold clearShared; simp

theorem serve_tb (app : App) (st : AppState) (hr : HReq) (h : TbShort st.shared) :
    TbShort (serve app st hr).1.shared ∧ (serve app st hr).1.shared.length = st.shared.length := by
  rw [serve_shared]
  exact ⟨h, rfl⟩

/-! ### tracebacks of the application's own singletons -/

/-- no application singleton references a request -/
def AppTbEmpty (l : List (Nat × List Nat)) : Prop := ∀ p ∈ l, p.2 = []

theorem setTb_empty (k : Nat) (l : List (Nat × List Nat)) (h : AppTbEmpty l) : AppTbEmpty (setTb k [] l) := by
  induction l with
  | nil => intro p hp; simp only [setTb, List.mem_cons, List.not_mem_nil, or_false] at hp; subst hp; rfl
  | cons q qs ih =>
    obtain ⟨k', t⟩ := q
    unfold setTb
    split
    · intro p hp
      rcases List.mem_cons.mp hp with rfl | hm
      · rfl
      · exact h p (List.mem_cons_of_mem _ hm)
    · intro p hp
      rcases List.mem_cons.mp hp with rfl | hm
      · exact h _ (List.mem_cons_self ..)
      · exact ih (fun x hx => h x (List.mem_cons_of_mem _ hx)) p hm

/-- the singletons stay unreferenced when raised responses reach `_handle`'s `except` clause, or
when the request raises no singleton -/
theorem serve_appTb (app : App) (st : AppState) (hr : HReq) (h : AppTbEmpty st.appTb)
    (hc : reachesExcept app = true ∨ hr.singleton = none) : AppTbEmpty (serve app st hr).1.appTb := by
  unfold serve
  simp only
  cases hs : hr.singleton with
  | none => exact h
  | some k =>
    simp only
    split
    · rcases hc with hc | hc
      · simp only [hc, if_true]; exact setTb_empty k _ h
      · rw [hs] at hc; cases hc
    · exact h

theorem foldl_appTb (app : App) (hist : List HReq) (st : AppState) (h : AppTbEmpty st.appTb)
    (hc : reachesExcept app = true ∨ ∀ hr ∈ hist, hr.singleton = none) :
    AppTbEmpty (hist.foldl (serve₁ app) st).appTb := by
  induction hist generalizing st with
  | nil => exact h
  | cons x xs ih =>
    simp only [List.foldl_cons]
    apply ih
    · exact serve_appTb app st x h (hc.imp id (fun hh => hh x (List.mem_cons_self ..)))
    · exact hc.imp id (fun hh hr hm => hh hr (List.mem_cons_of_mem _ hm))

theorem flatMap_empty (l : List (Nat × List Nat)) (h : AppTbEmpty l) : l.flatMap (·.2) = [] := by
  induction l with
  | nil => rfl
  | cons q qs ih =>
    simp only [List.flatMap_cons, h q (List.mem_cons_self ..), List.nil_append]
    exact ih (fun x hx => h x (List.mem_cons_of_mem _ hx))

theorem foldl_tb (app : App) (hist : List HReq) (st : AppState) (h : TbShort st.shared) :
    TbShort (hist.foldl (serve₁ app) st).shared ∧
    (hist.foldl (serve₁ app) st).shared.length = st.shared.length := by
  induction hist generalizing st with
  | nil => exact ⟨h, rfl⟩
  | cons x xs ih =>
    simp only [List.foldl_cons]
    have := serve_tb app st x h
    have := ih (serve₁ app st x) this.1
    exact ⟨this.1, by rw [this.2, serve₁]; exact (serve_tb app st x h).2⟩

theorem dedup_length_le (l : List Nat) : (dedup l).length ≤ l.length := by
  induction l with
  | nil => exact Nat.le_refl 0
  | cons a r ih =>
    unfold dedup
    split
    · exact Nat.le_succ_of_le ih
    · simp only [List.length_cons]; omega

theorem flatMap_tb_length (l : List SharedErr) (h : TbShort l) :
    (l.flatMap (·.tb)).length ≤ l.length := by
  induction l with
  | nil => exact Nat.le_refl 0
  | cons a r ih =>
    simp only [List.flatMap_cons, List.length_append, List.length_cons]
    have h1 := h a (List.mem_cons_self ..)
    have h2 := ih (fun e he => h e (List.mem_cons_of_mem _ he))
    omega

end Ombott.History
