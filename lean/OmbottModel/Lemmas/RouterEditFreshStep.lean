import OmbottModel.Lemmas.RouterEditFreshInv
/-!
C11, helper lemmas (10): one registration of a survivor on the router being rebuilt.

`FB R F`: `F` is a legitimate router state (`EInv`), its tree has no dead branches and holds
only patterns of the tree of `R`.  On such an `F` every pattern of `R` is accepted
(`FB.insN_error`), so each call of `Router.fresh` does what it is meant to do:
`plant_eq` (a route with its method table), `addParsed_name` (a name), `plantHook_step`
(a hook pair).
-/
namespace Ombott.Router
open Py

/-! ### dictionaries and lists -/

theorem dictSet_new {β} (d : List (Str × β)) (k : Str) (v : β) (h : ∀ x ∈ d, x.1 ≠ k) :
    dictSet d k v = d ++ [(k, v)] := by
  unfold dictSet
  have : d.any (·.1 == k) = false := by
    rw [List.any_eq_false]
    intro x hx
    simpa using h x hx
  simp [this]

theorem dictGet_none_keys {β} {d : List (Str × β)} {k : Str} (h : dictGet d k = none) :
    ∀ x ∈ d, x.1 ≠ k := by
  unfold dictGet at h
  simp only [Option.map_eq_none_iff, List.find?_eq_none] at h
  intro x hx
  simpa using h x hx

theorem dictGet_append_new {β} (d : List (Str × β)) (k : Str) (v : β) (k' : Str) (h : ∀ x ∈ d, x.1 ≠ k) :
    dictGet (d ++ [(k, v)]) k' = if k' = k then some v else dictGet d k' := by
  unfold dictGet
  rw [List.find?_append]
  cases hf : d.find? (·.1 == k') with
  | some x =>
    have hx : x.1 = k' := by simpa using List.find?_some hf
    have hne : k' ≠ k := fun hEq => h x (List.mem_of_find?_eq_some hf) (hx.trans hEq)
    simp [hne]
  | none =>
    by_cases hk : k' = k
    · subst hk; simp [List.find?]
    · have : (k == k') = false := by simpa using fun hEq => hk hEq.symm
      simp [List.find?, this, hk]

theorem set_append_last {α} (l : List α) (x y : α) : (l ++ [x]).set l.length y = l ++ [y] := by
  induction l with
  | nil => rfl
  | cons a l ih => simp [ih]

theorem getElem?_append_last {α} (l : List α) (x : α) : (l ++ [x])[l.length]? = some x := by
  simp

theorem set_self_of_getElem? {α} (l : List α) (i : Nat) (x : α) (h : l[i]? = some x) : l.set i x = l := by
  induction l generalizing i with
  | nil => rfl
  | cons a l ih =>
    cases i with
    | zero => simp at h; simp [h]
    | succ j => simp at h; simp [ih j h]

/-! ### `setHere` refuses only what is already there -/

theorem setHere_error (a : SetArgs) (m : Node) (e : Err) (h : setHere a m = .error e) :
    (a.data.isSome = true ∧ m.data.isSome = true) ∨ (a.hooks.isSome = true ∧ m.hooks.isSome = true) := by
  match m with
  | .mk k d p f hk lits tok =>
    unfold setHere at h
    by_cases c1 : (a.data.isSome && d.isSome && !a.overwrite) = true
    · simp only [Bool.and_eq_true] at c1
      exact Or.inl ⟨c1.1.1, c1.1.2⟩
    · by_cases c2 : (a.hooks.isSome && hk.isSome && !a.overwrite) = true
      · simp only [Bool.and_eq_true] at c2
        exact Or.inr ⟨c2.1.1, c2.1.2⟩
      · simp [c1, c2] at h

/-! ### the patterns of a router's tree -/

/-- `p` is the pattern of a route or of a hook pair in the tree of `R` -/
def PatOf (R : Router) (p : List Sym) : Prop := ∃ e ∈ gN ownB R.tree, e.pat = p

theorem PatOf.of_route {R : Router} {e : Rule} (he : e ∈ denote R.tree) : PatOf R e.pat :=
  (gN_ownB encPair R.tree e.pat).mpr (Or.inl ⟨e, he, rfl⟩)

theorem PatOf.of_hook {R : Router} {e : Rule} (he : e ∈ hdenN encPair R.tree) : PatOf R e.pat :=
  (gN_ownB encPair R.tree e.pat).mpr (Or.inr ⟨e, he, rfl⟩)

theorem PatOf.cases {R : Router} {p : List Sym} (h : PatOf R p) :
    (∃ e ∈ denote R.tree, e.pat = p) ∨ (∃ e ∈ hdenN encPair R.tree, e.pat = p) :=
  (gN_ownB encPair R.tree p).mp h

theorem Compat.eq_of_shape {a b : List Sym} (h : Compat a b) (hs : shape a = shape b) : a = b := by
  induction a generalizing b with
  | nil => cases b <;> simp_all
  | cons x xs ih =>
    cases b with
    | nil => simp at hs
    | cons y ys =>
      simp only [shape_cons, List.cons.injEq] at hs
      simp only [Compat] at h
      obtain ⟨h1, h2⟩ := h hs.1
      rw [h1, ih h2 hs.2]

/-! ### the router being rebuilt -/

/-- `F` is a router under construction from survivors of `R` -/
structure FB (R F : Router) : Prop where
  einv : EInv F (fun _ => False)
  live : LiveN F.tree
  sub : ∀ p, PatOf F p → PatOf R p

theorem FB.init (R : Router) : FB R {} := by
  refine ⟨einv_init, ?_, ?_⟩
  · show LiveN Node.root
    unfold Node.root LiveN FullL FullT
    exact ⟨trivial, trivial⟩
  · rintro p ⟨e, he, _⟩
    have : e ∈ gN ownB Node.root := he
    simp [Node.root, gN, gL, gT, ownB] at this

/-- a pattern of `R` agrees with everything in `F` -/
theorem FB.compat {R F : Router} (hR : WFN R.tree) (hF : FB R F) {p : List Sym} (hp : PatOf R p) :
    ∀ e ∈ gN ownB F.tree, Compat e.pat p := by
  intro e he
  obtain ⟨e', he', hpe⟩ := hF.sub e.pat ⟨e, he, rfl⟩
  obtain ⟨e2, he2, hp2⟩ := hp
  rw [← hpe, ← hp2]
  exact gN_compat ownB_ok ownB_ok R.tree hR e' he' e2 he2

/-- `_set` of a pattern of `R` on `F` fails only at the node the pattern leads to -/
theorem FB.insN_error {R F : Router} (hR : WFN R.tree) (hF : FB R F) (a : SetArgs) (p : List Sym)
    (hp : PatOf R p) (err : Err) (hi : insN a F.tree p = .error err) :
    ∃ m, findN true F.tree p = .ok m ∧ setHere a m = .error err :=
  Ombott.Router.insN_error a F.tree hF.einv.inv.wf hF.live p (hF.compat hR hp) err hi

/-- same tree, still a legitimate state -/
theorem FB.of_tree_eq {R F F' : Router} (hF : FB R F) (hE : EInv F' (fun _ => False))
    (ht : F'.tree = F.tree) : FB R F' :=
  ⟨hE, by rw [ht]; exact hF.live, fun p hp => hF.sub p (by unfold PatOf at hp ⊢; rw [← ht]; exact hp)⟩

/-- after `RadiDict.add` of a pattern of `R` -/
theorem FB.of_treeAdd {R F F' : Router} (hF : FB R F) (hE : EInv F' (fun _ => False)) (p : List Sym)
    (d : Nat) (names : List Str) (hp : PatOf R p) (ht : treeAdd F.tree p d names = .ok F'.tree) : FB R F' := by
  refine ⟨hE, insN_live _ (Or.inl rfl) F.tree p _ hF.live ht, ?_⟩
  intro q hq
  rcases hq.cases with ⟨e, he, rfl⟩ | ⟨e, he, rfl⟩
  · rcases (insert_denote' F.tree _ p d names false hF.einv.inv.wf ht e).mp he with rfl | ⟨ho, _⟩
    · exact hp
    · exact hF.sub _ (PatOf.of_route ho)
  · exact hF.sub _ (PatOf.of_hook
      ((treeAdd_hooks encPair F.tree _ p d names false hF.einv.inv.wf ht e).mp he))

/-! ### `add` of a new route, of one more method, of a name -/

theorem not_head_of_goodPat {p : List Sym} (hg : GoodPat p) : ¬ (p.head? == some (Sym.lit '/')) = true := by
  unfold GoodPat at hg; simpa using hg

/-- `add(rule)` without methods and name of a pattern the router does not hold yet -/
theorem addParsed_new {F : Router} (a : AddArgs) (p : Parsed) (t : Node)
    (hg : GoodPat p.syms) (hm : F.matchPat p.syms = none)
    (ht : treeAdd F.tree p.syms F.objs.length p.params = .ok t)
    (ha : a.methods = []) (hn : a.name = none) (ho : a.overwrite = false)
    (hk : ∀ x ∈ F.routes, x.1 ≠ patStr p.syms) :
    (F.addParsed a p).1 =
      { F with tree := t,
               objs := F.objs ++ [{ rule := a.rule, syms := p.syms, params := p.params, symsOut := p.symsOut }],
               routes := F.routes ++ [(patStr p.syms, F.objs.length)] } := by
  unfold Router.addParsed
  rw [if_neg (not_head_of_goodPat hg)]
  unfold Router.findOrInsert
  simp only [hm, ht]
  unfold Router.register
  simp only [Router.obj?, getElem?_append_last, ho, Bool.false_eq_true, if_false]
  unfold Route.addMethod Route.setMethods
  simp only [ha, List.any_nil, Bool.false_eq_true, if_false, List.foldl_nil, pure, Except.pure]
  unfold Router.registerName Router.setObj
  simp only [hn, set_append_last, dictSet_new _ _ _ hk]

/-- `add(rule, method)` on a route the router holds, the method not yet in its table -/
theorem addParsed_method {F : Router} (a : AddArgs) (p : Parsed) (id : Nat) (route : Route)
    (hg : GoodPat p.syms) (hm : F.matchPat p.syms = some id) (hr : F.obj? id = some route)
    (m : Str) (ha : a.methods = [m]) (hn : a.name = none) (ho : a.overwrite = false)
    (hfresh : ∀ x ∈ route.methods, x.1 ≠ m) :
    (F.addParsed a p).1 =
      F.setObj id { route with methods := route.methods ++ [(m, ⟨m, a.handler, p.params⟩)] } := by
  unfold Router.addParsed
  rw [if_neg (not_head_of_goodPat hg)]
  unfold Router.findOrInsert
  simp only [hm]
  unfold Router.register
  simp only [hr, ho, Bool.false_eq_true, if_false]
  have hany : ([m].any fun m => route.methods.any (·.1 == m)) = false := by
    simp only [List.any_cons, List.any_nil, Bool.or_false]
    rw [List.any_eq_false]
    intro x hx
    simpa using hfresh x hx
  unfold Route.addMethod Route.setMethods
  simp only [ha, hany, Bool.false_eq_true, if_false, List.foldl_cons, List.foldl_nil, pure, Except.pure,
    dictSet_new _ _ _ hfresh]
  unfold Router.registerName
  simp only [hn]

/-- `add(rule, name=…)` on a route the router holds, the name not yet taken -/
theorem addParsed_name {F : Router} (a : AddArgs) (p : Parsed) (id : Nat) (route : Route)
    (hg : GoodPat p.syms) (hm : F.matchPat p.syms = some id) (hr : F.obj? id = some route)
    (ha : a.methods = []) (nm : Str) (hn : a.name = some nm) (hne : nm ≠ []) (ho : a.overwrite = false)
    (hfree : dictGet F.named nm = none) :
    (F.addParsed a p).1 = { F with named := F.named ++ [(nm, id)] } := by
  unfold Router.addParsed
  rw [if_neg (not_head_of_goodPat hg)]
  unfold Router.findOrInsert
  simp only [hm]
  unfold Router.register
  simp only [hr, ho, Bool.false_eq_true, if_false]
  unfold Route.addMethod Route.setMethods
  simp only [ha, List.any_nil, Bool.false_eq_true, if_false, List.foldl_nil, pure, Except.pure]
  have hself : F.setObj id route = F := by
    unfold Router.setObj
    rw [set_self_of_getElem? F.objs id route hr]
  rw [hself]
  unfold Router.registerName
  have hemp : nm.isEmpty = false := by cases nm <;> simp_all
  simp only [hn, hemp, Bool.false_eq_true, if_false, hfree, dictSet_new _ _ _ (dictGet_none_keys hfree)]

/-! ### a route with its method table -/

/-- the state in the middle of `Router.plant`: the route is registered, `ms` of its methods are -/
def plantG (F : Router) (t : Node) (r : Route) (ms : List (Str × RouteMethod)) : Router :=
  { F with tree := t,
           objs := F.objs ++ [{ rule := r.rule, syms := r.syms, params := r.params, symsOut := r.symsOut,
                                methods := ms }],
           routes := F.routes ++ [(patStr r.syms, F.objs.length)] }

theorem plant_fold {F : Router} (t : Node) (r : Route) (hg : GoodPat r.syms)
    (hmt : ∀ ms, (plantG F t r ms).matchPat r.syms = some F.objs.length) :
    ∀ (ms2 ms1 : List (Str × RouteMethod)), MethOK (ms1 ++ ms2) →
      ms2.foldl (fun F m =>
        (F.addParsed { rule := r.rule, methods := [m.1], handler := m.2.handler }
          ⟨r.syms, m.2.params, r.symsOut⟩).1) (plantG F t r ms1) = plantG F t r (ms1 ++ ms2) := by
  intro ms2
  induction ms2 with
  | nil => intro ms1 _; simp
  | cons m ms2 ih =>
    intro ms1 hok
    simp only [List.foldl_cons]
    have hfresh : ∀ x ∈ ms1, x.1 ≠ m.1 := by
      intro x hx hEq
      have hnd := hok.1
      rw [List.map_append, List.nodup_append] at hnd
      exact hnd.2.2 x.1 (List.mem_map.mpr ⟨x, hx, rfl⟩) m.1 (by simp) hEq
    have hname : m.2.name = m.1 := hok.2 m (by simp)
    have hstep : ((plantG F t r ms1).addParsed { rule := r.rule, methods := [m.1], handler := m.2.handler }
        ⟨r.syms, m.2.params, r.symsOut⟩).1 = plantG F t r (ms1 ++ [m]) := by
      rw [addParsed_method (F := plantG F t r ms1) _ ⟨r.syms, m.2.params, r.symsOut⟩ F.objs.length
        { rule := r.rule, syms := r.syms, params := r.params, symsOut := r.symsOut, methods := ms1 }
        hg (hmt ms1) (by simp [plantG, Router.obj?]) m.1 rfl rfl rfl hfresh]
      obtain ⟨k, nm, hd, ps⟩ := m
      simp only at hname
      subst hname
      simp [plantG, Router.setObj]
    rw [hstep]
    have := ih (ms1 ++ [m]) (by simpa [List.append_assoc] using hok)
    simpa [List.append_assoc] using this

/-- **one route of the survivors**: on a router under construction that does not hold the
pattern string yet, `Router.plant` stores the route object as it is (pattern, stored names, method
table in order) under a new key of `routes`, and nothing else changes but the tree -/
theorem plant_eq {R F : Router} (hR : WFN R.tree) (hF : FB R F) (r : Route)
    (hp : PatOf R r.syms) (hg : GoodPat r.syms) (hm : MethOK r.methods)
    (hnew : F.routeAt (patStr r.syms) = none) :
    ∃ t, treeAdd F.tree r.syms F.objs.length r.params = .ok t ∧
      F.plant r = { F with tree := t, objs := F.objs ++ [r],
                           routes := F.routes ++ [(patStr r.syms, F.objs.length)] } := by
  have hinv := hF.einv.inv
  -- the pattern string is new
  have hk : ∀ x ∈ F.routes, x.1 ≠ patStr r.syms := by
    rintro ⟨ps, id⟩ hx hEq
    simp only at hEq
    obtain ⟨r0, hr0, _⟩ := hinv.keys ps id hx
    have := routeAt_of_mem hinv hx hr0
    rw [hEq, hnew] at this; cases this
  -- so is the pattern
  have hmatch : F.matchPat r.syms = none := by
    cases hmp : F.matchPat r.syms with
    | none => rfl
    | some id =>
      exfalso
      obtain ⟨keys, he⟩ := (matchPat_iff hinv.wf r.syms id).mp hmp
      obtain ⟨ps, id', r0, hin, hr0, heq⟩ := (mem_rules F _).mp ((hinv.den _).mp he)
      simp only [Rule.mk.injEq] at heq
      obtain ⟨r1, hr1, hps⟩ := hinv.keys ps id' hin
      rw [hr0] at hr1; cases hr1
      exact hk _ hin (by rw [hps, heq.1])
  -- the tree accepts it
  obtain ⟨t, ht⟩ : ∃ t, treeAdd F.tree r.syms F.objs.length r.params = .ok t := by
    cases hta : treeAdd F.tree r.syms F.objs.length r.params with
    | ok t => exact ⟨t, rfl⟩
    | error err =>
      exfalso
      obtain ⟨m, hfm, hse⟩ := hF.insN_error hR
        { data := some F.objs.length, names := r.params, overwrite := false } r.syms hp err hta
      rcases setHere_error _ m err hse with ⟨_, hd⟩ | ⟨hh, _⟩
      · unfold Router.matchPat at hmatch
        rw [hfm] at hmatch
        simp only at hmatch
        rw [hmatch] at hd; cases hd
      · cases hh
  refine ⟨t, ht, ?_⟩
  have hwt : WFN t := insert_wf' F.tree t r.syms _ _ false hinv.wf ht
  have hmt : ∀ ms, (plantG F t r ms).matchPat r.syms = some F.objs.length := by
    intro ms
    refine (matchPat_iff (R := plantG F t r ms) hwt r.syms _).mpr ⟨r.params, ?_⟩
    exact (insert_denote' F.tree t r.syms _ _ false hinv.wf ht _).mpr (Or.inl rfl)
  unfold Router.plant
  simp only
  rw [addParsed_new { rule := r.rule, methods := [], handler := 0 } ⟨r.syms, r.params, r.symsOut⟩ t hg
    hmatch ht rfl rfl rfl hk]
  have := plant_fold t r hg hmt r.methods [] (by simpa using hm)
  simp only [plantG, List.nil_append] at this
  rw [this]

/-- what `plant_eq` means for the `routes` map -/
theorem routeAt_plant {F : Router} (hinv : Inv F) (t : Node) (r : Route)
    (hnew : F.routeAt (patStr r.syms) = none) (ps : Str) :
    ({ F with tree := t, objs := F.objs ++ [r],
              routes := F.routes ++ [(patStr r.syms, F.objs.length)] } : Router).routeAt ps =
      if ps = patStr r.syms then some r.view else F.routeAt ps := by
  have hk : ∀ x ∈ F.routes, x.1 ≠ patStr r.syms := by
    rintro ⟨ps', id⟩ hx hEq
    simp only at hEq
    obtain ⟨r0, hr0, _⟩ := hinv.keys ps' id hx
    have := routeAt_of_mem hinv hx hr0
    rw [hEq, hnew] at this; cases this
  unfold Router.routeAt
  simp only [dictGet_append_new _ _ _ _ hk]
  split
  · simp [Router.obj?]
  · cases hg : dictGet F.routes ps with
    | none => rfl
    | some id =>
      obtain ⟨r0, hr0, _⟩ := hinv.keys ps id (dictGet_mem hg)
      have hlt : id < F.objs.length := by
        unfold Router.obj? at hr0
        exact (List.getElem?_eq_some_iff.mp hr0).1
      simp only [Option.bind_some, Router.obj?, List.getElem?_append_left hlt]

/-! ### a hook -/

/-- **one `add_hook` of a surviving hook pattern** is accepted and leaves a router under
construction -/
theorem addHook_tree {R F : Router} (hR : WFN R.tree) (hF : FB R F) (q : List Sym) (hq : PatOf R q)
    (hnt : NoLitTok q) (hg : GoodPat q) (hook : Nat) (pt : Bool) :
    (F.addHookParsed ⟨q, [], q⟩ hook pt).2 = .ok (patStr q) ∧ FB R (F.addHookParsed ⟨q, [], q⟩ hook pt).1 := by
  have hE' := hF.einv.addHookParsed ⟨q, [], q⟩ hook pt hnt
  revert hE'
  unfold Router.addHookParsed
  simp only
  rw [if_neg (not_head_of_goodPat hg)]
  have fresh : (∀ m, findN false F.tree q = .ok m → m.hooks = none) →
      EInv (match insN { hooks := some (installHook none hook pt), names := [], overwrite := false } F.tree q with
        | .error e => (F, (.error e.name : Except ErrName Str))
        | .ok t => ({ F with tree := t, hookIdx := dictSet F.hookIdx (patStr q) (installHook none hook pt) },
            .ok (patStr q))).1 (fun _ => False) →
      (match insN { hooks := some (installHook none hook pt), names := [], overwrite := false } F.tree q with
        | .error e => (F, (.error e.name : Except ErrName Str))
        | .ok t => ({ F with tree := t, hookIdx := dictSet F.hookIdx (patStr q) (installHook none hook pt) },
            .ok (patStr q))).2 = .ok (patStr q) ∧
      FB R (match insN { hooks := some (installHook none hook pt), names := [], overwrite := false } F.tree q with
        | .error e => (F, (.error e.name : Except ErrName Str))
        | .ok t => ({ F with tree := t, hookIdx := dictSet F.hookIdx (patStr q) (installHook none hook pt) },
            .ok (patStr q))).1 := by
    intro hnone
    cases hi : insN { hooks := some (installHook none hook pt), names := [], overwrite := false } F.tree q with
    | error err =>
      exfalso
      obtain ⟨m, hfm, hse⟩ := hF.insN_error hR _ q hq err hi
      rcases setHere_error _ m err hse with ⟨hd, _⟩ | ⟨_, hh⟩
      · cases hd
      · rw [hnone m (findN_true_false F.tree q m hfm)] at hh; cases hh
    | ok t =>
      intro hE'
      refine ⟨rfl, hE', insN_live _ (Or.inr rfl) F.tree q t hF.live hi, ?_⟩
      obtain ⟨_, hden, hhk⟩ := insHooks_spec encPair _ rfl _ rfl F.tree t q hF.einv.inv.wf hi
      intro p hp
      rcases hp.cases with ⟨e, he, rfl⟩ | ⟨e, he, rfl⟩
      · exact hF.sub _ (PatOf.of_route ((hden e).mp he))
      · rcases (hhk e).mp he with rfl | ⟨ho, _⟩
        · exact hq
        · exact hF.sub _ (PatOf.of_hook ho)
  cases hf : findN false F.tree q with
  | error e => exact fresh (fun m hm => by rw [hf] at hm; cases hm)
  | ok n =>
    simp only
    cases hn : n.hooks with
    | none => exact fresh (fun m hm => by rw [hf] at hm; cases hm; exact hn)
    | some hp0 =>
      simp only
      obtain ⟨t, hu⟩ := updN_some (Node.setHooks (installHook (some hp0) hook pt)) F.tree q n hf
      rw [hu]
      simp only
      intro hE'
      refine ⟨trivial, hE', (updN_live _ F.tree q t hF.live hu).1, ?_⟩
      obtain ⟨_, _, _, hden, _⟩ := updN_spec encPair _ F.tree hF.einv.inv.wf q t hu
      have hpats := (updN_hpats encPair _ F.tree q t n hu hf (by simp [hn])).2.2
      intro p hp
      rcases hp.cases with ⟨e, he, rfl⟩ | ⟨e, he, rfl⟩
      · exact hF.sub _ (PatOf.of_route (by show e ∈ denN F.tree; rw [← hden]; exact he))
      · have : e.pat ∈ (hdenN encPair F.tree).map (·.pat) := by
          rw [← hpats]; exact List.mem_map.mpr ⟨e, he, rfl⟩
        obtain ⟨e0, he0, hEq⟩ := List.mem_map.mp this
        rw [← hEq]
        exact hF.sub _ (PatOf.of_hook he0)

/-- one `add_hook` of a surviving hook pattern on the three maps -/
theorem addHook_step {R F : Router} (hR : WFN R.tree) (hF : FB R F) (q : List Sym) (hq : PatOf R q)
    (hnt : NoLitTok q) (hg : GoodPat q) (hook : Nat) (pt : Bool) :
    FB R (F.addHookParsed ⟨q, [], q⟩ hook pt).1 ∧
    (∀ ps, (F.addHookParsed ⟨q, [], q⟩ hook pt).1.routeAt ps = F.routeAt ps) ∧
    (∀ nm, (F.addHookParsed ⟨q, [], q⟩ hook pt).1.nameAt nm = F.nameAt nm) ∧
    ∀ ps, (F.addHookParsed ⟨q, [], q⟩ hook pt).1.hookAt ps =
      if ps = patStr q then some (installHook (F.hookAt (patStr q)) hook pt) else F.hookAt ps := by
  obtain ⟨hok, hFB⟩ := addHook_tree hR hF q hq hnt hg hook pt
  have hmaps := addHook_maps hF.einv ⟨q, [], q⟩ hook pt (fun h => h) (patStr q) hok
  rw [hookAtShape_eq_index hF.einv q hnt (fun h => h)] at hmaps
  refine ⟨hFB, fun ps => ?_, fun nm => ?_, fun ps => ?_⟩
  · exact congrFun (congrArg Maps.routes hmaps) ps
  · exact congrFun (congrArg Maps.names hmaps) nm
  · exact congrFun (congrArg Maps.hooks hmaps) ps

/-- the pair `hooks` lists at a pattern after `Router.plantHook` installed `hp` there -/
def install2 (old : Option HookPair) (hp : HookPair) : Option HookPair :=
  let s1 := match hp.simple with
    | some h => some (installHook old h false)
    | none => old
  match hp.partialHook with
  | some h => some (installHook s1 h true)
  | none => s1

theorem install2_none (hp : HookPair) (h : hp ≠ ⟨none, none⟩) : install2 none hp = some hp := by
  obtain ⟨s, p⟩ := hp
  cases s <;> cases p <;> simp_all [install2, installHook]

theorem install2_same (hp : HookPair) : install2 (some hp) hp = some hp := by
  obtain ⟨s, p⟩ := hp
  cases s <;> cases p <;> simp [install2, installHook]

/-- **one hook pair of the survivors** -/
theorem plantHook_step {R F : Router} (hR : WFN R.tree) (hF : FB R F) (q : List Sym) (hq : PatOf R q)
    (hnt : NoLitTok q) (hg : GoodPat q) (hp : HookPair) :
    FB R (F.plantHook q hp) ∧
    (∀ ps, (F.plantHook q hp).routeAt ps = F.routeAt ps) ∧
    (∀ nm, (F.plantHook q hp).nameAt nm = F.nameAt nm) ∧
    ∀ ps, (F.plantHook q hp).hookAt ps =
      if ps = patStr q then install2 (F.hookAt (patStr q)) hp else F.hookAt ps := by
  obtain ⟨s, p⟩ := hp
  unfold Router.plantHook install2
  cases s with
  | none =>
    cases p with
    | none =>
      refine ⟨hF, fun _ => rfl, fun _ => rfl, fun ps => ?_⟩
      show F.hookAt ps = if ps = patStr q then F.hookAt (patStr q) else F.hookAt ps
      split
      · rename_i h; rw [h]
      · rfl
    | some h2 => exact addHook_step hR hF q hq hnt hg h2 true
  | some h1 =>
    obtain ⟨hF1, hr1, hn1, hh1⟩ := addHook_step hR hF q hq hnt hg h1 false
    cases p with
    | none => exact ⟨hF1, hr1, hn1, hh1⟩
    | some h2 =>
      obtain ⟨hF2, hr2, hn2, hh2⟩ := addHook_step hR hF1 q hq hnt hg h2 true
      refine ⟨hF2, fun ps => (hr2 ps).trans (hr1 ps), fun nm => (hn2 nm).trans (hn1 nm), fun ps => ?_⟩
      simp only
      rw [hh2 ps, hh1 (patStr q), if_pos rfl]
      split
      · rfl
      · rename_i hne; rw [hh1 ps, if_neg hne]

end Ombott.Router
