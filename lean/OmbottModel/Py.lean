/-
Python-semantics prelude shared by the models.  Core Lean only (no Mathlib), so that the
driver can be interpreted with `lake env lean --run`.

Text is `List Char`, byte strings are `List UInt8`.  Nothing here is totalised: every
function that can fail in Python returns `Option`/`Except`.
-/
namespace Py

abbrev Str := List Char
abbrev Bytes := List UInt8

/-- Exceptions the modelled code can raise (class names as in Python). -/
inductive Err
  | valueError | typeError | keyError | indexError | unicodeError | assertionError
  | attributeError | stopIteration | runtimeError
  | requestError | bodyParsingError | bodySizeError
  | invalidBoundaryError | stopMarkup | malformedHeaders | unexpectedBodyEnd
  | routeSyntaxError | routeBuildError | routeMethodError | radiDictKeyError | radiDictError
  | http (status : Nat)
  deriving Repr, DecidableEq, Inhabited

def Err.name : Err → String
  | .valueError => "ValueError" | .typeError => "TypeError" | .keyError => "KeyError"
  | .indexError => "IndexError" | .unicodeError => "UnicodeError"
  | .assertionError => "AssertionError" | .attributeError => "AttributeError"
  | .stopIteration => "StopIteration" | .runtimeError => "RuntimeError"
  | .requestError => "RequestError" | .bodyParsingError => "BodyParsingError"
  | .bodySizeError => "BodySizeError" | .invalidBoundaryError => "InvalidBoundaryError"
  | .stopMarkup => "StopMarkupException" | .malformedHeaders => "MalformedHeadersError"
  | .unexpectedBodyEnd => "UnexpectedBodyEndError"
  | .routeSyntaxError => "RouteSyntaxError" | .routeBuildError => "RouteBuildError"
  | .routeMethodError => "RouteMethodError" | .radiDictKeyError => "RadiDictKeyError"
  | .radiDictError => "RadiDictError"
  | .http s => s!"HTTP{s}"

/-- The built-in (non framework) exception classes: reaching the top of a request with one of
these is a 500. -/
def Err.builtin : Err → Bool
  | .valueError | .typeError | .keyError | .indexError | .unicodeError | .assertionError
  | .attributeError | .stopIteration | .runtimeError => true
  | _ => false

/-! ### whitespace, strip, split -/

/-- ASCII whitespace as used by `bytes.strip()` and (for ASCII text) `str.strip()`. -/
def isWsNat (n : Nat) : Bool := n == 32 || (9 ≤ n && n ≤ 13)

/-- `str.isspace()` for the characters `int()`/`strip()` treat as white space.  Python's `str`
strip uses Unicode white space; the table is the complete `str.isspace` set of CPython 3.12. -/
def isWsChar (c : Char) : Bool :=
  let n := c.toNat
  isWsNat n || (28 ≤ n && n ≤ 31) || n == 0x85 || n == 0xa0 || n == 0x1680 ||
  (0x2000 ≤ n && n ≤ 0x200a) || n == 0x2028 || n == 0x2029 || n == 0x202f || n == 0x205f ||
  n == 0x3000

/-- the white space `int()` skips around a `str` literal: `str.isspace` minus U+001C..U+001F
(probed on CPython 3.12 over the whole BMP) -/
def isIntWsChar (c : Char) : Bool :=
  let n := c.toNat
  isWsNat n || n == 0x85 || n == 0xa0 || n == 0x1680 ||
  (0x2000 ≤ n && n ≤ 0x200a) || n == 0x2028 || n == 0x2029 || n == 0x202f || n == 0x205f ||
  n == 0x3000

def stripBy {α} (p : α → Bool) (s : List α) : List α :=
  ((s.dropWhile p).reverse.dropWhile p).reverse

def lstripBy {α} (p : α → Bool) (s : List α) : List α := s.dropWhile p

def strip (s : Str) : Str := stripBy isWsChar s
def bstrip (s : Bytes) : Bytes := stripBy (fun b => isWsNat b.toNat) s

/-- `s.split(sep)` for a single-element separator: always at least one piece. -/
def splitOn1 {α} [BEq α] (sep : α) : List α → List (List α)
  | [] => [[]]
  | c :: cs =>
    if c == sep then [] :: splitOn1 sep cs
    else match splitOn1 sep cs with
      | [] => [[c]]
      | a :: r => (c :: a) :: r

/-- `s.split(sep, 1)` for a single-element separator: `none` when the separator is absent
(Python then returns a one-element list). -/
def splitFirst {α} [BEq α] (sep : α) : List α → Option (List α × List α)
  | [] => none
  | c :: cs =>
    if c == sep then some ([], cs)
    else (splitFirst sep cs).map fun (a, b) => (c :: a, b)

/-- position of the first occurrence of `pat` in `s` (Python `find`, `none` for -1). -/
def findSub {α} [BEq α] (pat : List α) : List α → Option Nat
  | [] => if pat.isEmpty then some 0 else none
  | c :: cs =>
    if pat.isPrefixOf (c :: cs) then some 0 else (findSub pat cs).map (· + 1)

/-- `s.split(pat, 1)` for a multi-element separator. -/
def splitFirstSub {α} [BEq α] (pat : List α) (s : List α) : Option (List α × List α) :=
  (findSub pat s).map fun i => (s.take i, s.drop (i + pat.length))

/-- Python slice `s[a:b]` for non-negative indices. -/
def slice {α} (s : List α) (a b : Nat) : List α := (s.take b).drop a

/-! ### int() -/

def digitVal (c : Char) : Option Nat :=
  if c.isDigit then some (c.toNat - 48) else none

/-- decimal digits with single interior underscores (ASCII digits only; Unicode decimal digits,
which Python also accepts, are outside the model and are listed in the trusted base). -/
def digitsVal : List Char → Nat → Bool → Option Nat   -- acc, lastWasDigit
  | [], acc, ok => if ok then some acc else none
  | c :: cs, acc, ok =>
    if c.isDigit then digitsVal cs (acc * 10 + (c.toNat - 48)) true
    else if c == '_' && ok && !cs.isEmpty then digitsVal cs acc false
    else none

/-- `int(s)` for a `str` in base 10. -/
def pyInt (s : Str) : Option Int :=
  match stripBy isIntWsChar s with
  | '-' :: r => (digitsVal r 0 false).map fun n => -(n : Int)
  | '+' :: r => (digitsVal r 0 false).map fun n => (n : Int)
  | r => (digitsVal r 0 false).map fun n => (n : Int)

def hexDigitVal (n : Nat) : Option Nat :=
  if 48 ≤ n && n ≤ 57 then some (n - 48)
  else if 97 ≤ n && n ≤ 102 then some (n - 87)
  else if 65 ≤ n && n ≤ 70 then some (n - 55)
  else none

def hexDigitsVal : List Nat → Nat → Bool → Option Nat
  | [], acc, ok => if ok then some acc else none
  | c :: cs, acc, ok =>
    match hexDigitVal c with
    | some d => hexDigitsVal cs (acc * 16 + d) true
    | none => if c == 95 && ok && !cs.isEmpty then hexDigitsVal cs acc false else none

/-- after the sign: optional `0x`/`0X` prefix, which may be followed by one underscore. -/
def hexBody (r : List Nat) : Option Nat :=
  match r with
  | 48 :: x :: rest =>
    if x == 120 || x == 88 then
      match rest with
      | 95 :: rest' => hexDigitsVal rest' 0 false
      | _ => hexDigitsVal rest 0 false
    else hexDigitsVal r 0 false
  | _ => hexDigitsVal r 0 false

/-- `int(b, 16)` for `bytes` (ASCII whitespace stripped, sign, optional `0x`, underscores). -/
def pyIntHex (s : Bytes) : Option Int :=
  match (bstrip s).map (·.toNat) with
  | 45 :: r => (hexBody r).map fun n => -(n : Int)
  | 43 :: r => (hexBody r).map fun n => (n : Int)
  | r => (hexBody r).map fun n => (n : Int)

/-- `str(n)` for a natural number. -/
def natStr (n : Nat) : Str := Nat.toDigits 10 n

def intStr (i : Int) : Str :=
  match i with
  | .ofNat n => natStr n
  | .negSucc n => '-' :: natStr (n + 1)

end Py
