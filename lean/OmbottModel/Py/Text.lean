import OmbottModel.Py
/-
Text codecs shared by the header and cookie models (C14, C15): UTF-8 encoding on core Lean's
own `String.utf8EncodeChar`, Latin-1 in both directions, `str.title()` for ASCII names.
-/
namespace Py

/-- `s.encode('utf8')` (executable; `List.utf8Encode` of core is its noncomputable twin, see
`Lemmas/Text.lean`) -/
def utf8Enc (s : Str) : Bytes := s.flatMap String.utf8EncodeChar

/-- `b.decode('latin1')`: every byte is the code point of the same number (total) -/
def latin1Dec (b : Bytes) : Str := b.map fun x => Char.ofNat x.toNat

/-- `s.encode('latin1')`: `none` = `UnicodeEncodeError` (a character ≥ U+0100) -/
def latin1Enc : Str → Option Bytes
  | [] => some []
  | c :: cs => if c.toNat < 256 then (latin1Enc cs).map (UInt8.ofNat c.toNat :: ·) else none

/-- `s.encode('utf8').decode('latin1')`: how a header value is put on the WSGI wire -/
def transcode (s : Str) : Str := latin1Dec (utf8Enc s)

/-- `b.decode('utf8')`, `none` = `UnicodeDecodeError` -/
def utf8Dec (b : Bytes) : Option Str :=
  (String.fromUTF8? (ByteArray.mk b.toArray)).map String.toList

def isAsciiLower (c : Char) : Bool := 'a' ≤ c && c ≤ 'z'
def isAsciiUpper (c : Char) : Bool := 'A' ≤ c && c ≤ 'Z'

/-- `str.title()` restricted to ASCII text (header names): a cased character following an
uncased one is upper-cased, every other cased character is lower-cased. -/
def titleGo : List Char → Bool → List Char
  | [], _ => []
  | c :: cs, prevCased =>
    if isAsciiLower c then (if prevCased then c else c.toUpper) :: titleGo cs true
    else if isAsciiUpper c then (if prevCased then c.toLower else c) :: titleGo cs true
    else c :: titleGo cs false

def title (s : Str) : Str := titleGo s false

end Py
