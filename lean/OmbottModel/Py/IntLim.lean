import OmbottModel.Py
import OmbottModel.Gen.Pyint
/-!
`int(str)` / `str(int)` of CPython ≥ 3.11 in base 10: a text with more than
`sys.get_int_max_str_digits()` digit characters (`Gen.intMaxStrDigits`, 4300 by default) is refused
with `ValueError` whatever its value; so is printing an `int` of more digits than that.

What counts (probed on the live `int`, `Gen.intLimitProbes`): the digit characters, leading zeros
included; not the sign, not the surrounding whitespace, not the underscores.  `Py.pyInt` is the
*grammar* of `int()` alone (unbounded); **every model function that mirrors a Python `int(s)` of
request-controlled text uses `pyIntLim`**.  `int(x, 16)` (`pyIntHex`) has no limit: power-of-two
bases are exempt (`Gen.intHexUnlimited`).
-/
namespace Py

/-- the characters of `s` that count towards the limit -/
def intDigitCount (s : Str) : Nat := (s.filter Char.isDigit).length

/-- `int(s)` for a `str` in base 10, as the running interpreter does it: `ValueError` (`none`) for a
text outside the grammar *and* for one with more than `Gen.intMaxStrDigits` digit characters -/
def pyIntLim (s : Str) : Option Int :=
  if intDigitCount s ≤ Ombott.Gen.intMaxStrDigits then pyInt s else none

/-- number of decimal digits of `str(i)` -/
def intStrDigits (i : Int) : Nat := (natStr i.natAbs).length

/-- `str(i)`: `ValueError` (`none`) for an `int` of more than `Gen.intMaxStrDigits` digits -/
def intStrLim (i : Int) : Option Str :=
  if intStrDigits i ≤ Ombott.Gen.intMaxStrDigits then some (intStr i) else none

end Py
