import OmbottModel.Py
/-
Concrete `hashlib.md5`, `hmac.new(key, msg, md5).digest()` and `base64.b64encode/b64decode`
for the driver (C15).  The theorems of C15 take these as parameters with contracts; this file
only makes the model executable on the very bytes the implementation produces.  Each function
is compared with CPython on every run (`cookie md5/hmac/b64` protocol lines).
-/
namespace Py.Crypto
open Py

def md5K : Array UInt32 := #[
  0xd76aa478, 0xe8c7b756, 0x242070db, 0xc1bdceee, 0xf57c0faf, 0x4787c62a, 0xa8304613, 0xfd469501,
  0x698098d8, 0x8b44f7af, 0xffff5bb1, 0x895cd7be, 0x6b901122, 0xfd987193, 0xa679438e, 0x49b40821,
  0xf61e2562, 0xc040b340, 0x265e5a51, 0xe9b6c7aa, 0xd62f105d, 0x02441453, 0xd8a1e681, 0xe7d3fbc8,
  0x21e1cde6, 0xc33707d6, 0xf4d50d87, 0x455a14ed, 0xa9e3e905, 0xfcefa3f8, 0x676f02d9, 0x8d2a4c8a,
  0xfffa3942, 0x8771f681, 0x6d9d6122, 0xfde5380c, 0xa4beea44, 0x4bdecfa9, 0xf6bb4b60, 0xbebfbc70,
  0x289b7ec6, 0xeaa127fa, 0xd4ef3085, 0x04881d05, 0xd9d4d039, 0xe6db99e5, 0x1fa27cf8, 0xc4ac5665,
  0xf4292244, 0x432aff97, 0xab9423a7, 0xfc93a039, 0x655b59c3, 0x8f0ccc92, 0xffeff47d, 0x85845dd1,
  0x6fa87e4f, 0xfe2ce6e0, 0xa3014314, 0x4e0811a1, 0xf7537e82, 0xbd3af235, 0x2ad7d2bb, 0xeb86d391]

def md5S : Array UInt32 := #[
  7, 12, 17, 22, 7, 12, 17, 22, 7, 12, 17, 22, 7, 12, 17, 22,
  5, 9, 14, 20, 5, 9, 14, 20, 5, 9, 14, 20, 5, 9, 14, 20,
  4, 11, 16, 23, 4, 11, 16, 23, 4, 11, 16, 23, 4, 11, 16, 23,
  6, 10, 15, 21, 6, 10, 15, 21, 6, 10, 15, 21, 6, 10, 15, 21]

def rotl (x : UInt32) (s : UInt32) : UInt32 := (x <<< s) ||| (x >>> (32 - s))

/-- little-endian 32-bit word from 4 bytes -/
def leWord : List UInt8 → UInt32
  | [a, b, c, d] => a.toUInt32 ||| (b.toUInt32 <<< 8) ||| (c.toUInt32 <<< 16) ||| (d.toUInt32 <<< 24)
  | _ => 0

def wordLE (w : UInt32) : List UInt8 :=
  [w.toUInt8, (w >>> 8).toUInt8, (w >>> 16).toUInt8, (w >>> 24).toUInt8]

def chunksGo {α} (n : Nat) : Nat → List α → List (List α)
  | 0, _ => []
  | f + 1, l => if n == 0 || l.isEmpty then [] else l.take n :: chunksGo n f (l.drop n)

/-- consecutive pieces of `n` elements (the fuel only makes the recursion structural) -/
def chunks {α} (n : Nat) (l : List α) : List (List α) := chunksGo n l.length l

structure MD5State where
  a : UInt32
  b : UInt32
  c : UInt32
  d : UInt32

def md5Round (m : Array UInt32) (st : MD5State) (i : Nat) : MD5State :=
  let (f, g) :=
    if i < 16 then ((st.b &&& st.c) ||| ((~~~ st.b) &&& st.d), i)
    else if i < 32 then ((st.d &&& st.b) ||| ((~~~ st.d) &&& st.c), (5 * i + 1) % 16)
    else if i < 48 then (st.b ^^^ st.c ^^^ st.d, (3 * i + 5) % 16)
    else (st.c ^^^ (st.b ||| (~~~ st.d)), (7 * i) % 16)
  let f' := f + st.a + md5K[i]! + m[g]!
  { a := st.d, d := st.c, c := st.b, b := st.b + rotl f' md5S[i]! }

def md5Block (st : MD5State) (block : List UInt8) : MD5State :=
  let m := ((chunks 4 block).map leWord).toArray
  let r := (List.range 64).foldl (md5Round m) st
  { a := st.a + r.a, b := st.b + r.b, c := st.c + r.c, d := st.d + r.d }

def md5Pad (msg : Bytes) : Bytes :=
  let n := msg.length
  let zeros := (119 - n % 64) % 64          -- so that (n + 1 + zeros) % 64 = 56
  let bits := n * 8
  let lenBytes : Bytes := (List.range 8).map fun i => UInt8.ofNat ((bits >>> (8 * i)) % 256)
  let zs : Bytes := List.replicate zeros 0
  msg ++ [0x80] ++ zs ++ lenBytes

/-- `hashlib.md5(msg).digest()` -/
def md5 (msg : Bytes) : Bytes :=
  let st := (chunks 64 (md5Pad msg)).foldl md5Block
    { a := 0x67452301, b := 0xefcdab89, c := 0x98badcfe, d := 0x10325476 }
  wordLE st.a ++ wordLE st.b ++ wordLE st.c ++ wordLE st.d

/-- `hmac.new(key, msg, digestmod=hashlib.md5).digest()` -/
def hmacMd5 (key msg : Bytes) : Bytes :=
  let k := if key.length > 64 then md5 key else key
  let k := k ++ List.replicate (64 - k.length) 0
  md5 (k.map (· ^^^ 0x5c) ++ md5 (k.map (· ^^^ 0x36) ++ msg))

def b64Chars : Array Char := "ABCDEFGHIJKLMNOPQRSTUVWXYZabcdefghijklmnopqrstuvwxyz0123456789+/".toList.toArray

def b64Char (n : Nat) : UInt8 := UInt8.ofNat (b64Chars[n]!).toNat

/-- `base64.b64encode` -/
def b64encode : Bytes → Bytes
  | a :: b :: c :: r =>
    let n := a.toNat * 65536 + b.toNat * 256 + c.toNat
    b64Char (n / 262144) :: b64Char (n / 4096 % 64) :: b64Char (n / 64 % 64) :: b64Char (n % 64) :: b64encode r
  | [a, b] =>
    let n := a.toNat * 65536 + b.toNat * 256
    [b64Char (n / 262144), b64Char (n / 4096 % 64), b64Char (n / 64 % 64), 61]
  | [a] =>
    let n := a.toNat * 65536
    [b64Char (n / 262144), b64Char (n / 4096 % 64), 61, 61]
  | [] => []

def b64Val (x : UInt8) : Option Nat :=
  let n := x.toNat
  if 65 ≤ n ∧ n ≤ 90 then some (n - 65)
  else if 97 ≤ n ∧ n ≤ 122 then some (n - 71)
  else if 48 ≤ n ∧ n ≤ 57 then some (n + 4)
  else if n = 43 then some 62
  else if n = 47 then some 63
  else none

/-- `base64.b64decode` on canonical input (alphabet only, length a multiple of 4, `=` padding
only at the end, zero padding bits); `none` elsewhere.  CPython is more lenient (it skips foreign
characters); the decoder only ever sees a message whose MAC verified, and the generator keeps
such messages canonical or plainly invalid. -/
def b64decode : Bytes → Option Bytes
  | [] => some []
  | [a, b, 61, 61] => do
    let x ← b64Val a; let y ← b64Val b
    if y % 16 = 0 then some [UInt8.ofNat (x * 4 + y / 16)] else none
  | [a, b, c, 61] => do
    let x ← b64Val a; let y ← b64Val b; let z ← b64Val c
    if z % 4 = 0 then some [UInt8.ofNat (x * 4 + y / 16), UInt8.ofNat (y % 16 * 16 + z / 4)] else none
  | a :: b :: c :: d :: r => do
    let x ← b64Val a; let y ← b64Val b; let z ← b64Val c; let w ← b64Val d
    let rest ← b64decode r
    some (UInt8.ofNat (x * 4 + y / 16) :: UInt8.ofNat (y % 16 * 16 + z / 4) :: UInt8.ofNat (z % 4 * 64 + w) :: rest)
  | _ => none

end Py.Crypto
