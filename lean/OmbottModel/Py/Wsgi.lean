import OmbottModel.Py
/-
Prelude functions used by the WSGI model (C03/C09): `str.title()` for ASCII names, UTF-8 /
Latin-1 recoding, `html_escape`, `repr(bytes)`, `str.split()`.
-/
namespace Py

/-- `s.encode('utf8')` -/
def utf8 (s : Str) : Bytes := s.flatMap String.utf8EncodeChar

/-- `b.decode('latin1')` -/
def latin1Decode (b : Bytes) : Str := b.map fun x => Char.ofNat x.toNat

/-- `val.encode('utf8').decode('latin1')` (how `headerlist` makes header values WSGI strings) -/
def recodeLatin1 (s : Str) : Str := latin1Decode (utf8 s)

def wsgiIsAsciiAlpha (c : Char) : Bool := ('a' ≤ c && c ≤ 'z') || ('A' ≤ c && c ≤ 'Z')

/-- `str.title()` restricted to ASCII letters as the only cased characters (header names) -/
def wsgiTitleGo : Bool → Str → Str
  | _, [] => []
  | prevCased, c :: cs =>
    if wsgiIsAsciiAlpha c then
      (if prevCased then c.toLower else c.toUpper) :: wsgiTitleGo true cs
    else c :: wsgiTitleGo false cs

def titleAscii (s : Str) : Str := wsgiTitleGo false s

/-- `ombott.common_helpers.html_escape`: the five replacements, `&` first, so the chained
`replace` calls act as a per-character map -/
def htmlEscapeChar (c : Char) : Str :=
  if c == '&' then "&amp;".toList
  else if c == '<' then "&lt;".toList
  else if c == '>' then "&gt;".toList
  else if c == '"' then "&quot;".toList
  else if c == '\'' then "&#039;".toList
  else [c]

def htmlEscape (s : Str) : Str := s.flatMap htmlEscapeChar

def hexNibble (n : Nat) : Char := if n < 10 then Char.ofNat (48 + n) else Char.ofNat (87 + n)

/-- `repr(b)` of a `bytes` object -/
def bytesRepr (b : Bytes) : Str :=
  let hasSq := b.any (· == 39)
  let hasDq := b.any (· == 34)
  let q : UInt8 := if hasSq && !hasDq then 34 else 39
  let body := b.flatMap fun x =>
    let n := x.toNat
    if x == q || n == 92 then ['\\', Char.ofNat n]
    else if n == 9 then "\\t".toList
    else if n == 10 then "\\n".toList
    else if n == 13 then "\\r".toList
    else if n < 32 || n ≥ 127 then ['\\', 'x', hexNibble (n / 16), hexNibble (n % 16)]
    else [Char.ofNat n]
  'b' :: Char.ofNat q.toNat :: body ++ [Char.ofNat q.toNat]

def hex4 (n : Nat) : Str :=
  [hexNibble (n / 4096 % 16), hexNibble (n / 256 % 16), hexNibble (n / 16 % 16), hexNibble (n % 16)]

/-- one character of `json.dumps(str)` with `ensure_ascii=True` (`ESCAPE_ASCII`) -/
def jsonEscChar (c : Char) : Str :=
  let n := c.toNat
  if c == '"' then "\\\"".toList
  else if c == '\\' then "\\\\".toList
  else if n == 10 then "\\n".toList
  else if n == 13 then "\\r".toList
  else if n == 9 then "\\t".toList
  else if n == 8 then "\\b".toList
  else if n == 12 then "\\f".toList
  else if 32 ≤ n && n ≤ 126 then [c]
  else if n < 65536 then '\\' :: 'u' :: hex4 n
  else
    let m := n - 65536
    ('\\' :: 'u' :: hex4 (55296 + m / 1024)) ++ ('\\' :: 'u' :: hex4 (56320 + m % 1024))

/-- `json.dumps(s)` for a `str` -/
def jsonStr (s : Str) : Str := '"' :: s.flatMap jsonEscChar ++ ['"']

/-- `s.split()` (runs of white space separate, no empty pieces) -/
def splitWsGo : Str → Str → List Str
  | [], cur => if cur.isEmpty then [] else [cur.reverse]
  | c :: cs, cur =>
    if isWsChar c then
      (if cur.isEmpty then splitWsGo cs [] else cur.reverse :: splitWsGo cs [])
    else splitWsGo cs (c :: cur)

def splitWs (s : Str) : List Str := splitWsGo s []

end Py
