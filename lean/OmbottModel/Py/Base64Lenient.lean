import OmbottModel.Py.Crypto
/-
`base64.b64decode(s)` with its default `validate=False`, i.e. `binascii.a2b_base64(s, strict_mode=False)` of
CPython 3.12 (`Modules/binascii.c`), as `PropsMixin.auth` calls it on the credentials of an `Authorization`
header.  `Py.Crypto.b64decode` is the canonical-input decoder the cookie model uses; this one is the lenient state
machine itself: characters outside the alphabet are skipped, a `=` counts as padding only from the third position
of a quad on, everything behind a complete pad sequence is ignored, and the input is refused (`binascii.Error`, a
`ValueError`) when it ends inside a quad.  Compared with CPython on every run (`helpers b64d` lines).
-/
namespace Py.Crypto
open Py

/-- the loop of `binascii_a2b_base64_impl`: `quad` = `quad_pos`, `left` = `leftchar`, `pads` = `pads`;
`none` = `binascii.Error` (the output produced so far is discarded by the caller) -/
def a2bGo : Bytes → Nat → Nat → Nat → Option Bytes
  | [], quad, _, _ => if quad = 0 then some [] else none          -- `if (quad_pos != 0) … goto error_end`
  | c :: r, quad, left, pads =>
    if c = 61 then                                                -- `this_ch == BASE64_PAD`
      -- `if (quad_pos >= 2 && quad_pos + ++pads >= 4) goto done;`  (`++pads` only runs when `quad_pos >= 2`)
      if 2 ≤ quad then
        if 4 ≤ quad + (pads + 1) then some [] else a2bGo r quad left (pads + 1)
      else a2bGo r quad left pads
    else
      match b64Val c with
      | none => a2bGo r quad left pads                            -- `if (this_ch >= 64) continue;`
      | some v =>                                                 -- `pads = 0; switch (quad_pos)`
        match quad with
        | 0 => a2bGo r 1 v 0
        | 1 => (a2bGo r 2 (v % 16) 0).map (UInt8.ofNat (left * 4 + v / 16) :: ·)
        | 2 => (a2bGo r 3 (v % 4) 0).map (UInt8.ofNat (left * 16 + v / 4) :: ·)
        | _ => (a2bGo r 0 0 0).map (UInt8.ofNat (left * 64 + v) :: ·)

/-- `base64.b64decode(s)` (`validate=False`); `none` = `binascii.Error` -/
def b64decodeLenient (s : Bytes) : Option Bytes := a2bGo s 0 0 0

end Py.Crypto
