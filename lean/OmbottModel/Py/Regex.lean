import OmbottModel.Py
/-
A small backtracking regular-expression matcher with the priority semantics of Python's `re`
(first alternative first, greedy/lazy repetition, captures restored on backtracking), enough
for the fixed patterns of `http.cookies` (C15).  Matching is anchored (`Pattern.match`).
Repetition bodies must consume input (every use here does); the `fuel` argument bounds the
recursion depth and is set from the input length by the callers.
-/
namespace Py.Regex

inductive Re
  | eps
  | eos                                   -- `$` without MULTILINE at the very end
  | cls (p : Char → Bool)                 -- one character of a class
  | seq (a b : Re)
  | alt (a b : Re)
  | star (a : Re) (greedy : Bool)
  | rep (a : Re) (lo hi : Nat)            -- greedy `{lo,hi}`
  | grp (i : Nat) (a : Re)                -- capture group number `i`

/-- capture = (input at group start, input at group end) -/
abbrev Caps := List (Nat × (List Char × List Char))

def capSet (c : Caps) (i : Nat) (v : List Char × List Char) : Caps :=
  (i, v) :: c.filter (·.1 != i)

def capGet (c : Caps) (i : Nat) : Option (List Char) :=
  (c.find? (·.1 == i)).map fun (_, (s, e)) => s.take (s.length - e.length)

def orElse' {α} (a : Option α) (b : Unit → Option α) : Option α :=
  match a with
  | some x => some x
  | none => b ()

/-- continuation-passing matcher; `none` = this branch fails (backtrack) -/
def m {R : Type} : Nat → Re → List Char → Caps → (List Char → Caps → Option R) → Option R
  | 0, _, _, _, _ => none
  | _ + 1, .eps, s, c, k => k s c
  | _ + 1, .eos, s, c, k => if s.isEmpty then k s c else none
  | _ + 1, .cls p, s, c, k =>
    match s with
    | x :: r => if p x then k r c else none
    | [] => none
  | f + 1, .seq a b, s, c, k => m f a s c fun s' c' => m f b s' c' k
  | f + 1, .alt a b, s, c, k => orElse' (m f a s c k) fun _ => m f b s c k
  | f + 1, .star a true, s, c, k =>
    orElse' (m f a s c fun s' c' => if s'.length < s.length then m f (.star a true) s' c' k else none)
      fun _ => k s c
  | f + 1, .star a false, s, c, k =>
    orElse' (k s c) fun _ =>
      m f a s c fun s' c' => if s'.length < s.length then m f (.star a false) s' c' k else none
  | f + 1, .rep a lo hi, s, c, k =>
    if hi = 0 then k s c else
    orElse' (m f a s c fun s' c' => m f (.rep a (lo - 1) (hi - 1)) s' c' k)
      fun _ => if lo = 0 then k s c else none
  | f + 1, .grp i a, s, c, k => m f a s c fun s' c' => k s' (capSet c' i (s, s'))

def chr (x : Char) : Re := .cls (· == x)
def plus (a : Re) (greedy : Bool := true) : Re := .seq a (.star a greedy)
def opt (a : Re) : Re := .alt a .eps
def seqs : List Re → Re
  | [] => .eps
  | [a] => a
  | a :: r => .seq a (seqs r)
def lit (s : String) : Re := seqs (s.toList.map chr)

/-- `pattern.match(s)` at the start of `s`: the captures and the remaining input -/
def matchAt (re : Re) (s : List Char) : Option (Caps × List Char) :=
  m (4 * s.length + 200) re s [] fun s' c => some (c, s')

end Py.Regex
