/-!
`cs!"abc"` is the explicit character list `['a', 'b', 'c']`.  (`"abc".toList` denotes the same list
but goes through the UTF-8 decoding of the string's byte array, which the kernel evaluates quickly
and the elaborator's `whnf`/`simp` do not; models and lemmas use `cs!` so that proofs about fixed
words stay cheap.)
-/
open Lean in
macro:max "cs!" s:str : term => do
  let chars := s.getString.toList.toArray.map fun c => Syntax.mkCharLit c
  `(([$chars,*] : List Char))

example : cs!"name" = "name".toList := by decide
example : cs!"a\r\n" = ['a', '\r', '\n'] := rfl
