import OmbottModel.Model.BodyMixin
import OmbottModel.Model.BodySpool
import OmbottModel.Lemmas.Body
import OmbottModel.Lemmas.Chunked
import OmbottModel.Lemmas.PyInt
import OmbottModel.Gen.Body
/-!
C13 — Body size limits and disk spooling bound what a request can consume.
Property theorems only; helper lemmas live in `Lemmas/Body.lean`, `Lemmas/Chunked.lean`.

`buf` = `max_memfile_size` (read buffer, spool threshold, in-memory text cap), `m` =
`max_body_size`, `r : Rec` = `wsgi.input` with its read schedule (all fragmentations).
The multipart text budget (`FieldStorage.read`) is not modelled here (it belongs to the multipart
model); `harness/c13.py` exercises it on the real code.
-/
namespace Ombott.Body
open Py Ombott.Chunked

/-- the size error is answered 413 under the `errors_map` of the source -/
theorem size_error_413 : raise_ Ombott.Gen.bodyErrorsMap .bodySizeError "RequestError" = .http 413 := by
  decide

/-- **oversize ⇒ rejected, Content-Length framing**: when the body the stream delivers (the first
Content-Length bytes, or all there is) is longer than `max_body_size`, `_body_read` raises
`BodySizeError` and has consumed at most `max_body_size + max_memfile_size` bytes, for every read
fragmentation. -/
theorem oversize_rejected (buf m : Nat) (cl : Int) (r : Rec) (hb : 0 < buf)
    (hov : min cl.toNat r.st.data.length > m) :
    (bodyRead buf cl false (some m) r).1 = .error .bodySizeError ∧
    (bodyRead buf cl false (some m) r).2.pos ≤ r.pos + m + buf := by
  simp only [bodyRead, iterBody, Bool.false_eq_true, if_false]
  have := readParts_over false buf m hb cl.toNat r {} (Nat.zero_le _) (by simpa using hov)
  simpa using this

/-- **oversize ⇒ rejected, chunked framing**: after complete legal chunks `pre` whose payloads
are within the limit, a legal size line announcing `n` bytes followed by bytes `t` such that the
payload on offer exceeds `max_body_size`: `BodySizeError`, and the stream has been consumed at
most one buffer past the first payload byte over the limit (framing bytes — the encoded `pre` and
the size line — are not payload and are counted separately). -/
theorem oversize_rejected_chunked (buf m : Nat) (cl : Int) (pre : List Chunk) (sp ext t : Bytes) (n : Nat)
    (r : Rec)
    (hpre : ∀ c ∈ pre, LegalChunk c ∧ c.spelling.length + c.ext.length + 2 ≤ buf)
    (hl : LegalLine sp ext) (hsz : pyIntHex sp = some (n : Int)) (hn : 0 < n)
    (hfit : sp.length + ext.length + 2 ≤ buf)
    (hd : r.st.data = encodeChunks pre ++ (sp ++ ext ++ CRLF ++ t))
    (hle : (payloadOf pre).length ≤ m) (hov : (payloadOf pre).length + min n t.length > m) :
    (bodyRead buf cl true (some m) r).1 = .error .bodySizeError ∧
    (bodyRead buf cl true (some m) r).2.pos ≤
      r.pos + ((encodeChunks pre).length + (sp.length + ext.length + 2)) + (m - (payloadOf pre).length) + buf := by
  obtain ⟨r', he, hd', hp'⟩ := chunks_skip buf (some m) pre _ r {} hpre hd (SinkInv.init buf)
    (by simp [overMax]; omega)
  obtain ⟨s1, -, -, -⟩ := line_step buf (some m) sp ext t n r' (Sink.extend buf {} (payloadOf pre)) hl hsz hn
    hfit hd' (Sink.extend_inv buf {} _ (SinkInv.init buf))
  have := s1 m rfl (by simp [Sink.extend]; omega) (by simp [Sink.extend]; omega)
  simp only [bodyRead, if_true]
  rw [he]
  refine ⟨this.1, ?_⟩
  have h2 := this.2
  have hsz' : (Sink.extend buf {} (payloadOf pre)).size = (payloadOf pre).length := by simp [Sink.extend]
  rw [hsz', hp'] at h2
  omega

/-- **oversize ⇒ 413** on the request level: `Request.body` of a Content-Length request under the
`errors_map` of the source raises the mapped `HTTPError` 413 (which `_handle` returns as the
response), having consumed at most limit + buffer; the failure is remembered. -/
theorem oversize_413 (cfg : Cfg) (n m : Nat) (te : Option Str) (input : Rec)
    (hmap : cfg.errorsMap = Ombott.Gen.bodyErrorsMap) (hmb : cfg.maxBody = some m)
    (hte : isChunked te = false) (hb : 0 < cfg.memfile)
    (hov : min n input.st.data.length > m)
    (hlim : (natStr n).length ≤ Ombott.Gen.intMaxStrDigits) :
    (({ cfg := cfg, clHeader := some (natStr n), teHeader := te, input := input } : Req).body).1
        = .error (.http 413) ∧
    errStatus (.http 413) = 413 ∧
    (({ cfg := cfg, clHeader := some (natStr n), teHeader := te, input := input } : Req).body).2.input.pos
        ≤ input.pos + m + cfg.memfile := by
  have hcl : contentLength (some (natStr n)) = .ok (n : Int) := by
    have hne : (natStr n).isEmpty = false := by
      cases h : natStr n with
      | nil => exact absurd h (natStr_ne_nil n)
      | cons _ _ => rfl
    simp [contentLength, hne, pyIntLim_natStr n hlim]
  have h := oversize_rejected cfg.memfile m (n : Int) input hb (by simpa using hov)
  rcases hbr : bodyRead cfg.memfile (n : Int) false (some m) input with ⟨res, r'⟩
  rw [hbr] at h
  simp only at h
  obtain ⟨h1, h2⟩ := h
  subst h1
  simp only [Req.body, Req.loadBody, hcl, hte, hmb, hbr, isRequestError, if_true, hmap, size_error_413]
  exact ⟨trivial, rfl, h2⟩

/-- **within the limit ⇒ accepted, Content-Length framing**: a delivered body of at most
`max_body_size` bytes never gets a size error; it is returned byte-exact. -/
theorem within_limit_accepted (buf m : Nat) (cl : Int) (r : Rec) (hb : 0 < buf)
    (hle : min cl.toNat r.st.data.length ≤ m) :
    (bodyRead buf cl false (some m) r).1 = .ok (bodyOf buf (r.st.data.take cl.toNat)) := by
  have h := readParts_within false buf (some m) hb cl.toNat r {} (SinkInv.init buf)
    (by simp [overMax]; omega)
  simp only [bodyRead, iterBody, Bool.false_eq_true, if_false]
  rw [h.2.2]
  simp only [Bool.false_eq_true, and_false, if_false, bodyOf_eq]
  rw [← List.take_eq_take_min]

/-- **within the limit ⇒ accepted, chunked framing**: a legal encoding (size lines within the
buffer) whose payload is at most `max_body_size` bytes is decoded exactly. -/
theorem within_limit_accepted_chunked (buf m : Nat) (cl : Int) (chunks : List Chunk) (ls le trailer : Bytes)
    (r : Rec)
    (hch : ∀ c ∈ chunks, LegalChunk c ∧ c.spelling.length + c.ext.length + 2 ≤ buf)
    (hl : LegalLine ls le) (hz : pyIntHex ls = some 0) (hlfit : ls.length + le.length + 2 ≤ buf)
    (hd : r.st.data = encodeChunked chunks ls le trailer)
    (hle : (payloadOf chunks).length ≤ m) :
    (bodyRead buf cl true (some m) r).1 = .ok (bodyOf buf (payloadOf chunks)) := by
  obtain ⟨r', h1, -, -⟩ := iterChunked_decode buf (some m) ls le trailer hl hz hlfit chunks r {} hch hd
    (SinkInv.init buf) (by simp [overMax]; omega)
  simp [bodyRead, h1, bodyOf_eq]

/-- **spooled iff large**: whatever bytes arrive, under either framing, a body that is returned
is file-backed exactly when it is longer than `max_memfile_size`; its recorded size is its length
and it is within `max_body_size`.  (The content is the same in both storage modes: `body_exact`,
`chunked_decode` and the two theorems above give the same bytes for every threshold.) -/
theorem spooled_iff_large (buf : Nat) (cl : Int) (chunked : Bool) (max : Option Nat) (r : Rec) (sk : Sink)
    (h : (bodyRead buf cl chunked max r).1 = .ok sk) :
    (sk.isTemp = true ↔ sk.body.length > buf) ∧ sk.size = sk.body.length ∧
    overMax max sk.body.length = false := by
  have h0 : overMax max ({} : Sink).size = false := by cases max <;> simp [overMax]
  have key : SinkInv buf sk ∧ overMax max sk.size = false := by
    unfold bodyRead at h
    split at h
    · exact iterChunked_inv buf max _ r {} sk rfl (SinkInv.init buf) h0 h
    · exact readParts_inv false buf max _ r {} sk (SinkInv.init buf) h0 h
  obtain ⟨⟨h1, h2⟩, h3⟩ := key
  rw [h1] at h2 h3
  exact ⟨by rw [h2]; simp, h1, h3⟩

/-- the two storage modes hold the same bytes: changing only the threshold changes only the flag -/
theorem spool_same_content (buf1 buf2 : Nat) (b : Bytes) :
    (bodyOf buf1 b).body = (bodyOf buf2 b).body ∧ (bodyOf buf1 b).body = b := ⟨rfl, rfl⟩

/-- **text cap**: `_get_body_string` (the source of urlencoded form text and JSON) never returns
more than `max_memfile_size` bytes. -/
theorem text_cap (q q' : Req) (d : Bytes) (h : q.getBodyString = (.ok d, q')) :
    d.length ≤ q.cfg.memfile := by
  have hcfg : (q.body).2.cfg = q.cfg := by
    have hl : (q.loadBody).2.cfg = q.cfg := by
      unfold Req.loadBody
      repeat' (first | rfl | split)
    unfold Req.body
    split
    · rename_i h1; rw [← hl, h1]
    · rename_i h1; rw [← hl, h1]
  unfold Req.getBodyString at h
  rcases hb : q.body with ⟨res, q1⟩
  rw [hb] at h hcfg
  simp only at hcfg
  cases res with
  | error e => simp at h
  | ok sk =>
    simp only at h
    cases hcl : contentLength q1.clHeader with
    | error e => rw [hcl] at h; simp at h
    | ok cl =>
      rw [hcl] at h
      simp only at h
      by_cases h1 : cl > (q1.cfg.memfile : Int)
      · rw [if_pos h1] at h; simp at h
      · rw [if_neg h1] at h
        generalize (if cl < 0 then q1.cfg.memfile + 1 else cl.toNat) = n at h
        by_cases h2 : (List.take n sk.body).length > q1.cfg.memfile
        · rw [if_pos h2] at h; simp at h
        · rw [if_neg h2] at h
          simp only [Prod.mk.injEq, Except.ok.injEq] at h
          obtain ⟨rfl, -⟩ := h
          rw [← hcfg]; omega

/-- **text over the threshold is refused**: when the buffered body is longer than
`max_memfile_size` and Content-Length is absent (chunked) or itself over the threshold,
`_get_body_string` raises the mapped `BodySizeError` — 413 under the `errors_map` of the source —
instead of returning text. -/
theorem text_over_threshold_refused (q : Req) (sk : Sink) (p : Nat) (cl : Int)
    (hc : q.cache = some (sk, p)) (hcl : contentLength q.clHeader = .ok cl)
    (hbig : sk.body.length > q.cfg.memfile) (hcl2 : cl < 0 ∨ cl > (q.cfg.memfile : Int)) :
    (q.getBodyString).1 = .error (raise_ q.cfg.errorsMap .bodySizeError "RequestError") := by
  simp only [Req.getBodyString, Req.body, Req.loadBody, hc, hcl]
  by_cases h1 : cl > (q.cfg.memfile : Int)
  · simp [h1]
  · have h2 : cl < 0 := by omega
    simp only [h1, if_false, h2, if_true]
    have : q.cfg.memfile < min (q.cfg.memfile + 1) sk.body.length := by omega
    simp [this]

/-- **no spool file ⇒ nothing large in memory**: when `TemporaryFile()` raises at the switch (`bodyReadF`), under
either framing and whatever bytes arrive, a body that `_body_read` still returns is an in-memory buffer of at most
`max_memfile_size` bytes (and within `max_body_size`): a body over the threshold is never kept in memory because the
disk was not available — the request fails instead. -/
theorem spool_fault_nothing_large_in_memory (buf : Nat) (cl : Int) (chunked : Bool) (max : Option Nat) (r : Rec)
    (sk : Sink) (h : (bodyReadF buf cl chunked max r).1 = .body sk) :
    sk.body.length ≤ buf ∧ sk.isTemp = false ∧ overMax max sk.body.length = false := by
  unfold bodyReadF at h
  simp only at h
  split at h
  · rename_i sk' hb
    have hsk : sk' = sk := by injection h
    subst hsk
    obtain ⟨h1, _, h3⟩ := spooled_iff_large buf cl chunked (some (capOf max buf)) r sk' hb
    have hle : sk'.body.length ≤ capOf max buf := by
      simp only [overMax, decide_eq_false_iff_not] at h3; omega
    have hcap : capOf max buf ≤ buf := by unfold capOf; split <;> omega
    refine ⟨by omega, ?_, ?_⟩
    · cases hT : sk'.isTemp
      · rfl
      · have := h1.mp hT; omega
    · cases max with
      | none => rfl
      | some m =>
        have : capOf (some m) buf ≤ m := by unfold capOf; simp only; omega
        simp only [overMax, decide_eq_false_iff_not]; omega
  · split at h
    · split at h <;> cases h
    · cases h
  · cases h

section NonVacuity
/-- `spool_fault_nothing_large_in_memory`: 3 bytes under a threshold of 4 are returned with the temp directory gone -/
example : ∃ sk, (bodyReadF 4 3 false none { st := ⟨[1, 2, 3], []⟩ }).1 = .body sk := by
  have hb := within_limit_accepted 4 4 3 { st := ⟨[1, 2, 3], []⟩ } (by decide) (by decide)
  have hc : capOf none 4 = 4 := rfl
  exact ⟨bodyOf 4 (List.take (Int.toNat 3) [1, 2, 3]), by simp only [bodyReadF, hc, hb]⟩
/-- `oversize_rejected`: 10 bytes on offer, Content-Length 8, limit 5, buffer 4 -/
example : (0 : Nat) < 4 ∧ min (8 : Int).toNat (List.replicate 10 (7 : UInt8)).length > 5 := by decide
/-- `oversize_rejected_chunked`: second chunk `3\r\nabc…` after a 2-byte chunk, limit 4 -/
example : LegalLine [51] [] ∧ pyIntHex [51] = some ((3 : Nat) : Int) ∧
    (payloadOf [⟨[104, 105], [50], []⟩]).length ≤ 4 ∧
    (payloadOf [⟨[104, 105], [50], []⟩]).length + min 3 ([97, 98, 99, 13, 10] : Bytes).length > 4 :=
  ⟨⟨by decide, Or.inl rfl⟩, by decide, by decide, by decide⟩
/-- `within_limit_accepted`: equal to the limit -/
example : min (5 : Int).toNat (List.replicate 9 (7 : UInt8)).length ≤ 5 := by decide
/-- `text_over_threshold_refused`: chunked request (no Content-Length), 6 bytes buffered, threshold 4 -/
example : contentLength none = .ok (-1) ∧ ((-1 : Int) < 0 ∨ (-1 : Int) > ((4 : Nat) : Int)) ∧
    (bodyOf 4 (List.replicate 6 (7 : UInt8))).body.length > 4 := ⟨rfl, Or.inl (by decide), by decide⟩
/-- `oversize_413`: a Content-Length text `int()` converts (the explicit hypothesis `hlim`); `'3'` is one,
`'1' + '0'*4300` is not -/
example : (natStr 3).length ≤ Ombott.Gen.intMaxStrDigits ∧ ¬ (natStr (10 ^ 4300)).length ≤ Ombott.Gen.intMaxStrDigits := by
  decide +kernel
end NonVacuity

end Ombott.Body
