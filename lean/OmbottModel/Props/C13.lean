import OmbottModel.Model.BodyMixin
import OmbottModel.Gen.Body
/-!
C13 — Body size limits and disk spooling bound what a request can consume.
Property theorems only; helper lemmas live in `Lemmas/Body.lean`, `Lemmas/Chunked.lean`.
-/
namespace Ombott.Body
open Py

/-- the size error is answered 413 under the `errors_map` of the source -/
theorem size_error_413 : raise_ Ombott.Gen.errorsMap .bodySizeError "RequestError" = .http 413 := by
  decide

end Ombott.Body
