import OmbottModel.Model.Forms
import OmbottModel.Model.BodyAccess
import OmbottModel.Lemmas.FormsRoundtrip
import OmbottModel.Gen.Forms
/-!
C07 — Multipart forms and uploads round-trip exactly.
Property theorems only; helper lemmas live in `Lemmas/Forms*.lean`.
-/
namespace Ombott.Forms
open Py Ombott.Multipart

/-! ### tie to the source: the two regular expressions -/

open Ombott.BodyAccess

def cpStr (l : List Nat) : Str := l.map Char.ofNat

/-- the pattern texts the direct functions were written for are the ones in the source -/
theorem source_patterns_tie :
    Gen.formsPatt = "(.+?)(=(\".*?\"|.+?))?(;|$)" ∧
    Gen.formsBoundaryPatt = "^multipart/.+?boundary=(.+?)(;|$)" := by
  decide

/-- `pattIter` gives the groups `FieldStorage._patt.finditer` gave on the live module for every
string of length ≤ 5 over `a = ; "` (≤ 3 with a space) and a set of longer quoted-value cases -/
theorem patt_table_tie :
    Gen.formsPattTable.all (fun t => t.all fun r =>
      pattIter (cpStr r.1) == r.2.map fun (a, b) => (cpStr a, b.map cpStr)) = true := by
  decide +kernel

/-- `boundaryOf` gives the boundary that `Request._body` handed to `MultipartMarkup` on the live
module for `multipart/` followed by every word of ≤ 4 atoms over `x ; LF " boundary=` -/
theorem boundary_table_tie :
    Gen.formsBoundaryTable.all (fun t => t.all fun r =>
      boundaryOf (cpStr r.1) == r.2.map cpStr) = true := by
  decide +kernel

/-! ### the property -/

/-- **Hypothesis shared with C06** (not an axiom): the markup that `MultipartMarkup.parse` builds
from these chunks for the encoded body is exactly the encoder's sections, and no error is recorded.
This is C06's `section_ranges_exact` (one piece) together with `markup_split_independent` (any
other chunking) for well-formed bodies, i.e. whenever no value contains the delimiter
(`Spec.WFBody`); `Props/C06.lean` discharges it. -/
def MarkupExact (b : Bytes) (parts : List Spec.Part) (chunks : List Bytes) : Prop :=
  ∀ s0, St.init b = .ok s0 →
    (feed s0 chunks).markups = Spec.expectedMarkups b parts ∧ (feed s0 chunks).error = none

theorem lowerCT_multipart (boundary : Str) (quote : Bool) (cl : Int) (fr : Except FrErr (List Bytes)) :
    startsWithS (lowerCT ⟨some (contentTypeFor boundary quote), cl, fr⟩) cs!"multipart/" = true := by
  unfold lowerCT contentTypeFor lower startsWithS
  simp only [Option.getD_some, List.map_append]
  have : List.map lowerChar cs!"multipart/form-data; boundary=" = cs!"multipart/form-data; boundary=" := by decide
  rw [this]
  rfl

theorem iterItems_encoded (b : Bytes) (sp : Bool) (fields : List Field) (epi : Bytes) (mr : Int)
    (hok : ∀ f ∈ fields, FieldOK f) (hbud : (textBudget fields : Int) ≤ mr) :
    iterItems (Spec.encodeBody b (fields.map Field.part) epi) sp
      (Spec.expectedMarkups b (fields.map Field.part)) mr =
      ⟨encodedItems (Spec.delim b).length (2 + b.length) fields, none⟩ := by
  unfold iterItems Spec.expectedMarkups Spec.encodeBody
  simp only [ne_eq, not_true_eq_false, ↓reduceIte, Int.lt_irrefl, gt_iff_lt]
  have hl : 2 + b.length = (HYPHENx2 ++ b).length := by simp [HYPHENx2]; omega
  rw [hl]
  exact itemsLoop_encoded b sp fields (HYPHENx2 ++ b) (HYPHENx2 ++ epi) mr hok hbud

/-- **Round trip.**  For every list of fields of the domain (names and file names free of `"` and
of line breaks, file names non-empty, media types without parameters; any text values, any file
bytes; any repetition of names, also across text fields and uploads), every boundary that can be
named in the Content-Type header (as a token or as a quoted string) and that the parser accepts,
every epilogue, every `max_memfile_size` that covers the header blocks and the text values, every
`content_length`, and every fragmentation `chunks` in which the body reader delivered the encoded
body (either framing): reading `POST` succeeds, and under every key `POST` shows exactly the fields
of that name in submission order, `forms` the text fields, `files` the uploads — an upload with its
name, raw file name, content type and the exact bytes; a name used once is stored bare, a repeated
one as a list.  The markup of the encoded body is the hypothesis `MarkupExact` (C06). -/
theorem form_roundtrip (boundary : Str) (quote : Bool) (fields : List Field) (epilogue : Bytes)
    (chunks : List Bytes) (cl : Int) (maxMemfile : Nat) (emap : List (String × Nat)) (jl : JLoads)
    (hb : LegalBoundary boundary) (hcr : CR ∉ utf8Encode boundary)
    (hf : ∀ f ∈ fields, FieldOK f) (hbud : textBudget fields ≤ maxMemfile)
    (hbody : chunks.flatten = encodeForm boundary fields epilogue)
    (hmk : MarkupExact (utf8Encode boundary) (fields.map Field.part) chunks) :
    ∃ post forms files : FDict,
      postOf ⟨maxMemfile, emap⟩ jl ⟨some (contentTypeFor boundary quote), cl, .ok chunks⟩ =
        ⟨.fields files, some (.fields forms), .ok (.fields post)⟩ ∧
      let body := encodeForm boundary fields epilogue
      let sp := spooled ⟨maxMemfile, emap⟩ body
      ∀ k : Str,
        Shows body sp (dictGet post k) (fields.filter (fun f => f.name = k)) ∧
        Shows body sp (dictGet forms k) (fields.filter (fun f => f.name = k ∧ f.isFile = false)) ∧
        Shows body sp (dictGet files k) (fields.filter (fun f => f.name = k ∧ f.isFile = true)) := by
  -- the markup object
  obtain ⟨s0, hs0⟩ : ∃ s0, St.init (utf8Encode boundary) = .ok s0 := by
    unfold St.init Markuper.init
    rw [if_neg hcr]
    exact ⟨_, rfl⟩
  obtain ⟨hmarkups, herr⟩ := hmk s0 hs0
  have hbodyOf : bodyOf ⟨maxMemfile, emap⟩ ⟨some (contentTypeFor boundary quote), cl, .ok chunks⟩ =
      .ok (chunks.flatten, some (feed s0 chunks)) := by
    unfold bodyOf
    simp only [Option.getD_some, boundaryOf_contentTypeFor boundary quote hb, hs0, Option.map_some]
  have hitems := fun sp => iterItems_encoded (utf8Encode boundary) sp fields epilogue
    (maxMemfile : Int) hf (by omega)
  have henc : encodeForm boundary fields epilogue =
      Spec.encodeBody (utf8Encode boundary) (fields.map Field.part) epilogue := rfl
  refine ⟨(collect (encodedItems (Spec.delim (utf8Encode boundary)).length (2 + (utf8Encode boundary).length) fields)).post,
    (collect (encodedItems (Spec.delim (utf8Encode boundary)).length (2 + (utf8Encode boundary).length) fields)).forms,
    (collect (encodedItems (Spec.delim (utf8Encode boundary)).length (2 + (utf8Encode boundary).length) fields)).files,
    ?_, ?_⟩
  · unfold postOf
    simp only [lowerCT_multipart, not_true_eq_false, ↓reduceIte, hbodyOf, herr, hmarkups]
    rw [hbody, henc, hitems]
  · intro body sp k
    have hrb := encodedItems_readBack (utf8Encode boundary) sp fields (HYPHENx2 ++ utf8Encode boundary)
      (HYPHENx2 ++ epilogue) hf
    have hl : (HYPHENx2 ++ utf8Encode boundary).length = 2 + (utf8Encode boundary).length := by
      simp [HYPHENx2]; omega
    rw [hl] at hrb
    have hX : HYPHENx2 ++ utf8Encode boundary ++
        (Spec.encodeParts (utf8Encode boundary) (fields.map Field.part) ++ (HYPHENx2 ++ epilogue)) = body := rfl
    rw [hX] at hrb
    obtain ⟨hshape, hvals⟩ := collect_spec (encodedItems (Spec.delim (utf8Encode boundary)).length
      (2 + (utf8Encode boundary).length) fields)
    obtain ⟨v1, v2, v3⟩ := hvals k
    refine ⟨⟨?_, hshape.1 k⟩, ⟨?_, hshape.2.1 k⟩, ⟨?_, hshape.2.2 k⟩⟩
    · rw [v1, List.map_map]
      exact forall₂_filter_map (ReadsBack body sp) (fun f => decide (f.name = k)) (fun it => decide (it.name = k))
        (viewItem body sp ∘ itemFst) (fun f => some (specItem f))
        (fun a b h => ⟨by rw [h.1], h.2.2⟩) _ _ hrb
    · rw [v2, List.map_map]
      exact forall₂_filter_map (ReadsBack body sp) (fun f => decide (f.name = k ∧ f.isFile = false))
        (fun it => decide (it.name = k ∧ itemToFiles it = false))
        (viewItem body sp ∘ itemFst) (fun f => some (specItem f))
        (fun a b h => ⟨by rw [h.1, h.2.1], h.2.2⟩) _ _ hrb
    · rw [v3, List.map_map]
      exact forall₂_filter_map (ReadsBack body sp) (fun f => decide (f.name = k ∧ f.isFile = true))
        (fun it => decide (it.name = k ∧ itemToFiles it = true))
        (viewItem body sp ∘ itemFst) (fun f => some (specItem f))
        (fun a b h => ⟨by rw [h.1, h.2.1], h.2.2⟩) _ _ hrb

end Ombott.Forms
