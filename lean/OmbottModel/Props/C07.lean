import OmbottModel.Model.Forms
import OmbottModel.Model.FormsShared
import OmbottModel.Model.BodyAccess
import OmbottModel.Lemmas.FormsRoundtrip
import OmbottModel.Props.C06
import OmbottModel.Gen.Forms
import OmbottModel.Model.Upload
import OmbottModel.Lemmas.Upload
import OmbottModel.Lemmas.UploadCopy
import OmbottModel.Lemmas.UploadWindow
import OmbottModel.Lemmas.UploadIdem
/-!
C07 — Multipart forms and uploads round-trip exactly.
Property theorems only; helper lemmas live in `Lemmas/Forms*.lean`.
-/
namespace Ombott.Forms
open Py Ombott.Multipart

/-! ### tie to the source: the two regular expressions -/

open Ombott.BodyAccess

def cpStr (l : List Nat) : Str := l.map Char.ofNat

/-- the pattern texts the direct functions were written for are the ones in the source -/
theorem source_patterns_tie :
    Gen.formsPatt = "(.+?)(=(\".*?\"|.+?))?(;|$)" ∧
    Gen.formsBoundaryPatt = "^multipart/.+?boundary=(.+?)(;|$)" := by
  decide

/-- `pattIter` gives the groups `FieldStorage._patt.finditer` gave on the live module for every
string of length ≤ 4 over `a = ; "` (≤ 3 with a space), the strings of length 5 that start with `a` and
hold two quotes, and a set of longer quoted-value cases -/
theorem patt_table_tie :
    Gen.formsPattTable.all (fun t => t.all fun r =>
      pattIter (cpStr r.1) == r.2.map fun (a, b) => (cpStr a, b.map cpStr)) = true := by
  decide +kernel

/-- `boundaryOf` gives the boundary that `Request._body` handed to `MultipartMarkup` on the live
module for `multipart/` followed by every word of ≤ 3 atoms over `x ; LF " boundary=` -/
theorem boundary_table_tie :
    Gen.formsBoundaryTable.all (fun t => t.all fun r =>
      boundaryOf (cpStr r.1) == r.2.map cpStr) = true := by
  decide +kernel

/-! ### the property -/

/-- the markup that `MultipartMarkup.parse` builds from these chunks is exactly the encoder's
sections, and no error is recorded -/
def MarkupExact (b : Bytes) (parts : List Spec.Part) (chunks : List Bytes) : Prop :=
  ∀ s0, St.init b = .ok s0 →
    (feed s0 chunks).markups = Spec.expectedMarkups b parts ∧ (feed s0 chunks).error = none

/-- no value contains the delimiter `CRLF--boundary` (what a client guarantees by its choice of
the boundary) -/
def NoDelim (boundary : Str) (fields : List Field) : Prop :=
  ∀ f ∈ fields, findSub (Spec.delim (utf8Encode boundary)) f.data = none

instance (b : Str) (fs : List Field) : Decidable (NoDelim b fs) := by unfold NoDelim; infer_instance

/-- the parts of a field list of the domain form a well-formed body in the sense of C06 -/
theorem wfBody_fields (boundary : Str) (fields : List Field) (hb : LegalBoundary boundary)
    (hf : ∀ f ∈ fields, FieldOK f) (hnd : NoDelim boundary fields) :
    Spec.WFBody (utf8Encode boundary) (fields.map Field.part) := by
  refine ⟨cr_not_mem_utf8Encode boundary (fun h => (hb.2 _ h).2.2.2 rfl), ?_⟩
  intro p hp
  obtain ⟨f, hfm, rfl⟩ := List.mem_map.mp hp
  have hl := headerLines_ok f (hf f hfm)
  refine ⟨by simpa [Field.part] using hl.1, ?_, hnd f hfm⟩
  intro l hlm
  simp only [Field.part, List.mem_map] at hlm
  obtain ⟨line, hline, rfl⟩ := hlm
  obtain ⟨hne, hnb⟩ := hl.2 line hline
  refine ⟨fun h => hne (utf8Encode_eq_nil line h), ?_, ?_⟩
  · exact cr_not_mem_utf8Encode line (fun h => by have := hnb _ h; simp [isLineBreak] at this)
  · exact lf_not_mem_utf8Encode line (fun h => by have := hnb _ h; simp [isLineBreak] at this)

/-- **`MarkupExact` is discharged by C06** (`section_ranges_exact`): for every field list of the
domain whose values do not contain the delimiter, in whatever chunks the encoded body arrives -/
theorem markupExact_of_c06 (boundary : Str) (fields : List Field) (epilogue : Bytes) (chunks : List Bytes)
    (hb : LegalBoundary boundary) (hf : ∀ f ∈ fields, FieldOK f) (hnd : NoDelim boundary fields)
    (hbody : chunks.flatten = encodeForm boundary fields epilogue) :
    MarkupExact (utf8Encode boundary) (fields.map Field.part) chunks := by
  intro s0 hs0
  have h := section_ranges_exact (utf8Encode boundary) (fields.map Field.part) epilogue
    (wfBody_fields boundary fields hb hf hnd) chunks hbody
  unfold parseChunks at h
  rw [hs0] at h
  simp only [Except.ok.injEq] at h
  have h1 := congrArg Obs.markups h
  have h2 := congrArg Obs.error h
  exact ⟨h1, h2⟩

/-- **Every part is read back as the field it was written from.**  `FieldStorage.iter_items` over
the sections of an encoded body yields, for every field list of the domain and every budget that
covers the header blocks and text values, exactly one `FieldStorage` per field, in order, with the
field's name, value or (file name, content type, window = the part's data range), and no error. -/
theorem iterItems_encoded (b : Bytes) (sp : Bool) (fields : List Field) (epi : Bytes) (mr : Int)
    (hok : ∀ f ∈ fields, FieldOK f) (hbud : (textBudget fields : Int) ≤ mr) :
    iterItems (Spec.encodeBody b (fields.map Field.part) epi) sp
      (Spec.expectedMarkups b (fields.map Field.part)) mr =
      ⟨encodedItems (Spec.delim b).length (2 + b.length) fields, none⟩ := by
  unfold iterItems Spec.expectedMarkups Spec.encodeBody
  simp only [ne_eq, not_true_eq_false, ↓reduceIte, Int.lt_irrefl, gt_iff_lt]
  have hl : 2 + b.length = (HYPHENx2 ++ b).length := by simp [HYPHENx2]; omega
  rw [hl]
  exact itemsLoop_encoded b sp fields (HYPHENx2 ++ b) (HYPHENx2 ++ epi) mr hok hbud

/-- **Round trip.**  For every list of fields of the domain (names and file names free of `"` and
of line breaks, file names non-empty, media types without parameters; any text values, any file
bytes; any repetition of names, also across text fields and uploads), every boundary that can be
named in the Content-Type header (as a token or as a quoted string; no `;`, `"`, LF, CR),
every epilogue, every `max_memfile_size` that covers the header blocks and the text values, every
`content_length`, and every fragmentation `chunks` in which the body reader delivered the encoded
body (either framing): reading `POST` succeeds, and under every key `POST` shows exactly the fields
of that name in submission order, `forms` the text fields, `files` the uploads — an upload with its
name, raw file name, content type and the exact bytes; a name used once is stored bare, a repeated
one as a list.  The only condition on the values is that none contains the delimiter
`CRLF--boundary` (`NoDelim`); the markup of the encoded body comes from C06
(`section_ranges_exact`, via `markupExact_of_c06`). -/
theorem form_roundtrip (boundary : Str) (quote : Bool) (fields : List Field) (epilogue : Bytes)
    (chunks : List Bytes) (cl : Int) (maxMemfile : Nat) (emap : List (String × Nat)) (jl : JLoads)
    (hb : LegalBoundary boundary)
    (hf : ∀ f ∈ fields, FieldOK f) (hbud : textBudget fields ≤ maxMemfile)
    (hnd : NoDelim boundary fields)
    (hbody : chunks.flatten = encodeForm boundary fields epilogue) :
    ∃ post forms files : FDict,
      postOf ⟨maxMemfile, emap⟩ jl ⟨some (contentTypeFor boundary quote), cl, .ok chunks⟩ =
        ⟨.fields files, some (.fields forms), .ok (.fields post)⟩ ∧
      let body := encodeForm boundary fields epilogue
      let sp := spooled ⟨maxMemfile, emap⟩ body
      ∀ k : Str,
        Shows body sp (dictGet post k) (fields.filter (fun f => f.name = k)) ∧
        Shows body sp (dictGet forms k) (fields.filter (fun f => f.name = k ∧ f.isFile = false)) ∧
        Shows body sp (dictGet files k) (fields.filter (fun f => f.name = k ∧ f.isFile = true)) := by
  -- the markup object
  obtain ⟨s0, hs0⟩ : ∃ s0, St.init (utf8Encode boundary) = .ok s0 := by
    have hcr : CR ∉ utf8Encode boundary :=
      cr_not_mem_utf8Encode boundary (fun h => (hb.2 _ h).2.2.2 rfl)
    unfold St.init Markuper.init
    rw [if_neg hcr]
    exact ⟨_, rfl⟩
  obtain ⟨hmarkups, herr⟩ := markupExact_of_c06 boundary fields epilogue chunks hb hf hnd hbody s0 hs0
  have hbodyOf : bodyOf ⟨maxMemfile, emap⟩ ⟨some (contentTypeFor boundary quote), cl, .ok chunks⟩ =
      .ok (chunks.flatten, some (feed s0 chunks)) := by
    unfold bodyOf
    simp only [Option.getD_some, boundaryOf_contentTypeFor boundary quote hb, hs0, Option.map_some]
  have hitems := fun sp => iterItems_encoded (utf8Encode boundary) sp fields epilogue
    (maxMemfile : Int) hf (by omega)
  have henc : encodeForm boundary fields epilogue =
      Spec.encodeBody (utf8Encode boundary) (fields.map Field.part) epilogue := rfl
  refine ⟨(collect (encodedItems (Spec.delim (utf8Encode boundary)).length (2 + (utf8Encode boundary).length) fields)).post,
    (collect (encodedItems (Spec.delim (utf8Encode boundary)).length (2 + (utf8Encode boundary).length) fields)).forms,
    (collect (encodedItems (Spec.delim (utf8Encode boundary)).length (2 + (utf8Encode boundary).length) fields)).files,
    ?_, ?_⟩
  · unfold postOf
    simp only [lowerCT_multipart, not_true_eq_false, ↓reduceIte, hbodyOf, herr, hmarkups]
    rw [hbody, henc, hitems]
  · intro body sp k
    have hrb := encodedItems_readBack (utf8Encode boundary) sp fields (HYPHENx2 ++ utf8Encode boundary)
      (HYPHENx2 ++ epilogue) hf
    have hl : (HYPHENx2 ++ utf8Encode boundary).length = 2 + (utf8Encode boundary).length := by
      simp [HYPHENx2]; omega
    rw [hl] at hrb
    have hX : HYPHENx2 ++ utf8Encode boundary ++
        (Spec.encodeParts (utf8Encode boundary) (fields.map Field.part) ++ (HYPHENx2 ++ epilogue)) = body := rfl
    rw [hX] at hrb
    obtain ⟨hshape, hvals⟩ := collect_spec (encodedItems (Spec.delim (utf8Encode boundary)).length
      (2 + (utf8Encode boundary).length) fields)
    obtain ⟨v1, v2, v3⟩ := hvals k
    refine ⟨⟨?_, hshape.1 k⟩, ⟨?_, hshape.2.1 k⟩, ⟨?_, hshape.2.2 k⟩⟩
    · rw [v1, List.map_map]
      exact forall₂_filter_map (ReadsBack body sp) (fun f => decide (f.name = k)) (fun it => decide (it.name = k))
        (viewItem body sp ∘ itemFst) (fun f => some (specItem f))
        (fun a b h => ⟨by rw [h.1], h.2.2⟩) _ _ hrb
    · rw [v2, List.map_map]
      exact forall₂_filter_map (ReadsBack body sp) (fun f => decide (f.name = k ∧ f.isFile = false))
        (fun it => decide (it.name = k ∧ itemToFiles it = false))
        (viewItem body sp ∘ itemFst) (fun f => some (specItem f))
        (fun a b h => ⟨by rw [h.1, h.2.1], h.2.2⟩) _ _ hrb
    · rw [v3, List.map_map]
      exact forall₂_filter_map (ReadsBack body sp) (fun f => decide (f.name = k ∧ f.isFile = true))
        (fun it => decide (it.name = k ∧ itemToFiles it = true))
        (viewItem body sp ∘ itemFst) (fun f => some (specItem f))
        (fun a b h => ⟨by rw [h.1, h.2.1], h.2.2⟩) _ _ hrb

instance (f : Field) : Decidable (FieldOK f) := by
  cases f <;> unfold FieldOK <;> infer_instance

/-- **No byte of one part appears in another.**  In the encoded body of every field list of the
domain (any boundary, any epilogue), the `i`-th field owns the byte range `dataRanges[i]`:
(a) there is one range per field, it holds exactly that field's data and is directly followed by
the delimiter `CRLF--boundary`; (b) ranges are in submission order and any two are separated by at
least a delimiter, the CRLF after it and the `CRLFCRLF` of a header block, so they are pairwise
disjoint and none touches another part's headers; (c) the field that `iter_items` yields for part
`i` of an upload has exactly this range as its `BytesIOProxy` window (and `form_roundtrip` shows
the window reads back the content), so what a handler reads from one upload never contains a byte
of another part. -/
theorem parts_disjoint (boundary : Str) (fields : List Field) (epilogue : Bytes)
    (hf : ∀ f ∈ fields, FieldOK f) :
    let b := utf8Encode boundary
    let body := encodeForm boundary fields epilogue
    let T := Spec.delim b
    let rs := dataRanges T.length (2 + b.length) fields
    rs.length = fields.length ∧
    (∀ (i : Nat) (f : Field) (r : Nat × Nat), fields[i]? = some f → rs[i]? = some r →
      r.2 = r.1 + f.data.length ∧ (body.drop r.1).take f.data.length = f.data ∧
      (body.drop r.2).take T.length = T) ∧
    (∀ (i j : Nat) (ri rj : Nat × Nat), i < j → rs[i]? = some ri → rs[j]? = some rj →
      ri.2 + T.length + 6 ≤ rj.1) ∧
    (∀ (i : Nat) (f : Field) (r : Nat × Nat), fields[i]? = some f → rs[i]? = some r → f.isFile = true →
      ∃ it, (encodedItems T.length (2 + b.length) fields)[i]? = some it ∧
        it.file = some ((r.1 : Int), (r.2 : Int)) ∧
        ∃ u, itemFst it = .file u ∧ u.file = ((r.1 : Int), (r.2 : Int))) := by
  intro b body T rs
  have hl : 2 + b.length = (HYPHENx2 ++ b).length := by simp [HYPHENx2]; omega
  refine ⟨dataRanges_length _ _ _, ?_, dataRanges_separated _ _ _, ?_⟩
  · intro i f r hfi hri
    have := dataRanges_content b fields (HYPHENx2 ++ b) (HYPHENx2 ++ epilogue) hf i f r hfi (by rw [← hl]; exact hri)
    exact this
  · intro i f r hfi hri hfile
    have hget : (encodedItems T.length (2 + b.length) fields)[i]? = some (fieldS f (r.1 : Int) (r.2 : Int)) := by
      unfold encodedItems
      rw [List.getElem?_map, (List.getElem?_zip_eq_some (z := (f, r))).mpr ⟨hfi, hri⟩]
      rfl
    refine ⟨_, hget, ?_⟩
    have hok := hf f (List.mem_of_getElem? hfi)
    cases f with
    | text n v => simp [Field.isFile] at hfile
    | file n fn ct c =>
      refine ⟨rfl, ⟨n, fn, fieldHeaders (.file n fn ct c), ((r.1 : Int), (r.2 : Int))⟩, ?_, rfl⟩
      exact (itemOf_fieldS (.file n fn ct c) hok _ _).1


/-! ### several uploads over one buffered body: interleaved reads (`Model/FormsShared.lean`) -/

/-- one operation on a window over the SHARED source (a file object with a cursor that the other windows and
`request.body` move too) gives the output and the window state of the cursor-free model, whatever the cursor was,
and leaves the content of the source alone -/
theorem step_shared_eq_alone (p : Proxy) (s : Src) (op : WOp) :
    ((stepWin p s op).1, (stepWin p s op).2.1) = stepAlone p s.body s.spooled op ∧
    (stepWin p s op).2.2.body = s.body ∧ (stepWin p s op).2.2.spooled = s.spooled := by
  cases op with
  | tell => exact ⟨rfl, rfl, rfl⟩
  | seek pos wh =>
    simp only [stepWin, stepAlone]
    cases p.seek pos wh <;> exact ⟨rfl, rfl, rfl⟩
  | read sz =>
    simp only [stepWin, stepAlone, Proxy.readS, Proxy.read, Src.seek, Src.read, srcRead]
    by_cases h1 : p.en - p.pos ≤ 0
    · simp [h1]
    · by_cases h2 : p.pos < 0
      · simp [h1, h2]
      · simp [h1, h2]; exact ⟨rfl, rfl⟩

/-- **no byte of one part appears in another, however the handler reads**: for every set of windows over one buffered
body, every interleaving of partial reads / seeks / tells on them and of reads and seeks on the body itself, the
outputs of window `i` are exactly those of its own operations run on that window alone -/
theorem interleaving_invisible (ops : List SOp) : ∀ (wins : List Proxy) (s : Src) (i : Nat) (p : Proxy),
    wins[i]? = some p →
    (runShared wins s ops).filterMap (tagOf i) = runAlone p s.body s.spooled (ops.filterMap (opsOf i)) := by
  induction ops with
  | nil => intros; rfl
  | cons o ops ih =>
    intro wins s i p h
    cases o with
    | srcRead sz =>
      simp only [runShared, List.filterMap_cons, tagOf, opsOf]
      have := ih wins (s.read sz).2 i p h
      simpa [tagOf, Src.read] using this
    | srcSeek pos =>
      simp only [runShared, List.filterMap_cons, tagOf, opsOf]
      have := ih wins { s with cur := pos } i p h
      simpa [tagOf] using this
    | win j op =>
      cases hj : wins[j]? with
      | none =>
        have hne : j ≠ i := by intro e; subst e; rw [h] at hj; cases hj
        simp only [runShared, hj, List.filterMap_cons, opsOf, if_neg hne]
        exact ih wins s i p h
      | some q =>
        obtain ⟨h1, h2, h3⟩ := step_shared_eq_alone q s op
        by_cases hji : j = i
        · subst hji
          have hq : q = p := by rw [h] at hj; cases hj; rfl
          subst hq
          have hlt : j < wins.length := by
            rcases Nat.lt_or_ge j wins.length with hl | hl
            · exact hl
            · rw [List.getElem?_eq_none hl] at h; cases h
          have hset : (wins.set j (stepWin q s op).2.1)[j]? = some (stepWin q s op).2.1 := by
            rw [List.getElem?_set_self hlt]
          have := ih (wins.set j (stepWin q s op).2.1) (stepWin q s op).2.2 j (stepWin q s op).2.1 hset
          simp only [runShared, hj, List.filterMap_cons, opsOf, if_true, tagOf, runAlone]
          rw [← h1]
          rw [this, h2, h3]
        · have hset : (wins.set j (stepWin q s op).2.1)[i]? = some p := by
            rw [List.getElem?_set_ne hji]; exact h
          have := ih (wins.set j (stepWin q s op).2.1) (stepWin q s op).2.2 i p hset
          have hne : ¬ (some j = some i) := by intro e; cases e; exact hji rfl
          simp only [runShared, hj, List.filterMap_cons, opsOf, if_neg hji, tagOf, if_neg hne]
          rw [this, h2, h3]

section NonVacuity
/-- `interleaving_invisible`: two windows over a 12-byte body; window 0 exists and is read in two blocks around a read
of window 1 and a read of the body -/
example : ([Proxy.new 2 6, Proxy.new 8 12] : List Proxy)[0]? = some (Proxy.new 2 6) := rfl
example : runShared [Proxy.new 2 6, Proxy.new 8 12] ⟨[0, 1, 2, 3, 4, 5, 6, 7, 8, 9, 10, 11], false, 0⟩
    [.win 0 (.read (some 2)), .win 1 (.read (some 3)), .srcRead 1, .win 0 (.read none)] =
    [(some 0, .bytes [2, 3]), (some 1, .bytes [8, 9, 10]), (none, .bytes [11]), (some 0, .bytes [4, 5])] := by decide

/-- the example of the property text: a text field named `f;x=y` and an upload `q;z=1.txt` whose
content looks like the delimiter, boundary `b d` (needs quoting) -/
def exFields : List Field :=
  [.text cs!"f;x=y" cs!"v é", .file cs!"u" cs!"q;z=1.txt" (some cs!"text/plain") [13, 10, 45, 45, 98, 32, 0, 255],
   .text cs!"f;x=y" cs!""]

def exBody : Bytes := encodeForm cs!"b d" exFields CRLF

/-- all hypotheses of `form_roundtrip` hold for the example, with the body delivered in two pieces -/
example :
    LegalBoundary cs!"b d" ∧ (∀ f ∈ exFields, FieldOK f) ∧ NoDelim cs!"b d" exFields ∧
    textBudget exFields ≤ 200 ∧ [exBody.take 70, exBody.drop 70].flatten = exBody := by
  refine ⟨by decide, by decide, by decide, by decide, by simp⟩

example : MarkupExact (utf8Encode cs!"b d") (exFields.map Field.part) [exBody.take 70, exBody.drop 70] := by
  intro s0 h0
  have key : (match St.init (utf8Encode cs!"b d") with
      | .ok s => decide ((feed s [exBody.take 70, exBody.drop 70]).markups =
          Spec.expectedMarkups (utf8Encode cs!"b d") (exFields.map Field.part) ∧
          (feed s [exBody.take 70, exBody.drop 70]).error = none)
      | .error _ => true) = true := by decide +kernel
  rw [h0] at key
  simpa using key

/-- and the conclusion can be observed directly on the model: `POST` of the example -/
example :
    (match (postOf ⟨200, Gen.formsErrorsMap⟩ (fun _ => .null)
        ⟨some (contentTypeFor cs!"b d" true), 0, .ok [exBody.take 70, exBody.drop 70]⟩).result with
      | .ok (.fields d) => d.map (fun e => (e.1, (vals (some e.2)).map (viewItem exBody false)))
      | _ => []) =
    [(cs!"f;x=y", [some (.text cs!"v é"), some (.text cs!"")]),
     (cs!"u", [some (.file cs!"u" cs!"q;z=1.txt" (some cs!"text/plain") [13, 10, 45, 45, 98, 32, 0, 255])])] := by
  decide +kernel

end NonVacuity

end Ombott.Forms


/-! ## ===== the upload object and the file proxies (extension; model `Model/Upload.lean`) ===== -/
namespace Ombott.Upload
open Py Ombott.Forms Ombott.Multipart

/-- **Tie to the source.**  The constants the model of `FileUpload` / `BytesIOProxy` / `FieldStorage.__init__`
hard-codes are the ones extracted from the live modules: the two patterns of `FileUpload.filename`, the slots,
the two `HeaderProperty` attributes (header names, reader, default), the defaults of `save` / `_copy_file`,
`SEEK_SET/CUR/END`, the constant answers of a live `BytesIOProxy`, the attributes of a fresh `FieldStorage`. -/
theorem upload_tables_tie :
    Gen.upPatt1 = "[^a-zA-Z0-9-_.\\s]" ∧ Gen.upPatt2 = "[-\\s]+" ∧
    Gen.upSlots = ["file", "name", "raw_filename", "headers", "__dict__"] ∧
    Gen.upHeaderProps = [("content_type", String.ofList ctHeader, "none", "''"),
                         ("content_length", String.ofList clHeader, "int", "-1")] ∧
    Gen.upSaveDefaults = [("overwrite", "False"), ("chunk_size", "65536"), ("_copy_file.chunk_size", "65536")] ∧
    Gen.upWhence = [0, 1, 2] ∧
    Gen.upProxyFlags = [("isatty", "False"), ("seekable", "True"), ("readable", "True"), ("writable", "False"),
      ("fileno", "OSError"), ("close", "None"), ("flush", "None"), ("closed", "False")] ∧
    Gen.upFieldInit = [("ctype", "None"), ("file", "None"), ("filename", "None"), ("headers", "{}"),
      ("name", "None"), ("value", "None")] ∧
    fieldInit = ⟨[], none, none, none, none, []⟩ := by
  decide

/-- the probed normaliser fixes ASCII (what `filename_idempotent` asks of a normaliser) -/
theorem nfkdTable_ascii_id : (List.range 128).all (fun n => nfkdTable (Char.ofNat n) == [Char.ofNat n]) = true := by
  decide +kernel

/-- **`filename_safe`.**  For EVERY raw file name (any text, any bytes — decoded leniently —, any normaliser `nf`)
the sanitised name `upload.filename` is non-empty, at most 255 characters long, consists only of ASCII letters,
digits, `-`, `_`, `.` (hence holds no `/`, no backslash, no NUL, no white space), does not start with `.` or `-`,
is neither `.` nor `..`; and it does not end with `.` or `-` PROVIDED the name was not cut at 255 characters
(the real code truncates after stripping: see the witness below — reported as a defect).  Consequently
`os.path.join(directory, filename)` is a direct child of the directory: its path segments are those of the
directory followed by exactly the file name. -/
theorem filename_safe (nf : Char → List Char) (raw : RawName) (f : Str) (h : sanitize nf raw = some f) :
    f ≠ [] ∧ f.length ≤ 255 ∧ (∀ c ∈ f, isSafeChar c = true) ∧
    (∀ c ∈ f, c ≠ '/' ∧ c ≠ '\\' ∧ c ≠ Char.ofNat 0 ∧ isWsChar c = false) ∧
    (∀ c, f.head? = some c → isDotDash c = false) ∧
    (∀ s, rawText raw = some s → (preTrunc nf s).length ≤ 255 → ∀ c, f.getLast? = some c → isDotDash c = false) ∧
    f ≠ cs!"." ∧ f ≠ cs!".." ∧
    (∀ d : Str, d ≠ [] → StaticFile.segments (StaticFile.join d f) = StaticFile.segments d ++ [f]) := by
  unfold sanitize at h
  cases hr : rawText raw with
  | none => rw [hr] at h; simp at h
  | some s =>
    rw [hr] at h
    simp only [Option.map_some, Option.some.injEq, sanitizeStr] at h
    subst h
    have hchars := preTrunc_chars nf s
    have hhead := preTrunc_head nf s
    have hlast := preTrunc_last nf s
    have hsafe : ∀ c ∈ truncOrEmpty (preTrunc nf s), isSafeChar c = true := by
      rcases truncOrEmpty_cases (preTrunc nf s) with ⟨_, h2⟩ | ⟨_, h2⟩
      · rw [h2]; decide
      · rw [h2]; intro c hc; exact hchars c (List.mem_of_mem_take hc)
    have hne : truncOrEmpty (preTrunc nf s) ≠ [] := by
      rcases truncOrEmpty_cases (preTrunc nf s) with ⟨_, h2⟩ | ⟨h1, h2⟩
      · rw [h2]; decide
      · rw [h2]; cases hp : preTrunc nf s with
        | nil => exact absurd hp h1
        | cons a as => simp
    have hhd : ∀ c, (truncOrEmpty (preTrunc nf s)).head? = some c → isDotDash c = false := by
      rcases truncOrEmpty_cases (preTrunc nf s) with ⟨_, h2⟩ | ⟨h1, h2⟩
      · rw [h2]; intro c hc; simp at hc; subst hc; decide
      · rw [h2]; intro c hc
        apply hhead c
        cases hp : preTrunc nf s with
        | nil => exact absurd hp h1
        | cons a as => rw [hp] at hc; simpa using hc
    have hslash : '/' ∉ truncOrEmpty (preTrunc nf s) := fun hm => (safe_not_slash _ (hsafe _ hm)).1 rfl
    refine ⟨hne, ?_, hsafe, fun c hc => safe_not_slash c (hsafe c hc), hhd, ?_, ?_, ?_, ?_⟩
    · rcases truncOrEmpty_cases (preTrunc nf s) with ⟨_, h2⟩ | ⟨_, h2⟩
      · rw [h2]; decide
      · rw [h2, List.length_take]; omega
    · intro s' hs' hlen c hc
      simp only [Option.some.injEq] at hs'
      subst hs'
      rcases truncOrEmpty_cases (preTrunc nf s) with ⟨_, h2⟩ | ⟨_, h2⟩
      · rw [h2] at hc; simp at hc; subst hc; decide
      · rw [h2, List.take_of_length_le hlen] at hc
        exact hlast c hc
    · intro he
      have := hhd '.' (by rw [he]; rfl)
      simp [isDotDash] at this
    · intro he
      have := hhd '.' (by rw [he]; rfl)
      simp [isDotDash] at this
    · intro d hd
      exact join_direct_child d _ hd hne hslash

/-- **`filename_idempotent`.**  Sanitising a sanitised name returns it: for every raw name and every normaliser
that fixes ASCII (as NFKD does; `nfkdTable_ascii_id` for the probed table), `FileUpload(…, filename).filename ==
filename` — PROVIDED the sanitised name does not end with `.` or `-`, which by `filename_safe` can only happen
when the name was cut at 255 characters (then a second pass strips the trailing dot: witness below). -/
theorem filename_idempotent (nf : Char → List Char) (hnf : ∀ c : Char, c.toNat < 128 → nf c = [c])
    (raw : RawName) (f : Str) (h : sanitize nf raw = some f)
    (hlast : ∀ c, f.getLast? = some c → isDotDash c = false) :
    sanitize nf (.str f) = some f := by
  obtain ⟨hne, hlen, hsafe, _, hhd, _, _, _, _⟩ := filename_safe nf raw f h
  have hdd : NoDD f := by
    unfold sanitize at h
    cases hr : rawText raw with
    | none => rw [hr] at h; simp at h
    | some s =>
      rw [hr] at h
      simp only [Option.map_some, Option.some.injEq, sanitizeStr] at h
      have hq := truncOrEmpty_noDD (preTrunc nf s) (preTrunc_noDD nf s)
      rw [h] at hq
      exact hq
  have hfix := preTrunc_clean_fix nf hnf f ⟨hsafe, hdd, hhd, hlast⟩
  simp only [sanitize, rawText, Option.map_some, sanitizeStr, hfix]
  rcases truncOrEmpty_cases f with ⟨h1, _⟩ | ⟨_, h2⟩
  · exact absurd h1 hne
  · rw [h2, List.take_of_length_le hlen]

/-- `n` further reads of `upload.filename` -/
def readsN (nf : Char → List Char) : Nat → FileUpload → FileUpload
  | 0, u => u
  | n + 1, u => readsN nf n (u.filenameGet nf).2

/-- **`filename_cached_once`.**  The first read of `upload.filename` runs the getter (once) and stores the value;
every later read returns the stored value and leaves the object — in particular the count of getter runs — as it
is.  So over any number of reads the sanitiser runs exactly once and all reads agree. -/
theorem filename_cached_once (nf : Char → List Char) (u : FileUpload) (f : Str)
    (hc : u.cached = none) (h : sanitize nf u.rawFilename = some f) :
    (u.filenameGet nf).1 = .ok f ∧ (u.filenameGet nf).2.computed = u.computed + 1 ∧
    (u.filenameGet nf).2.cached = some f ∧
    ∀ n : Nat, readsN nf n (u.filenameGet nf).2 = (u.filenameGet nf).2 ∧
      ((readsN nf n (u.filenameGet nf).2).filenameGet nf).1 = .ok f := by
  have h1 : u.filenameGet nf = (.ok f, { u with cached := some f, computed := u.computed + 1 }) := by
    simp [FileUpload.filenameGet, hc, h]
  rw [h1]
  refine ⟨rfl, rfl, rfl, ?_⟩
  have hfix : ∀ u' : FileUpload, u'.cached = some f → u'.filenameGet nf = (.ok f, u') := by
    intro u' hu; simp [FileUpload.filenameGet, hu]
  intro n
  induction n with
  | zero => exact ⟨rfl, by rw [readsN, hfix _ rfl]⟩
  | succ n ih =>
    rw [readsN, hfix _ rfl]
    exact ih

/-- **`copy_file_exact`.**  `_copy_file` from a file object with ANY content, ANY starting offset, ANY
`chunk_size > 0` and ANY schedule of short reads terminates (the fuel is never exhausted), hands the sink exactly
`content[offset:]` in non-empty pieces of at most `chunk_size` bytes, and seeks back to the offset. -/
theorem copy_file_exact (data : Bytes) (pos : Nat) (sched : List Nat) (chunk : Int) (hc : 0 < chunk) :
    ∃ ps f', copySFile chunk ⟨data, pos, sched⟩ = some (.ok (ps, f')) ∧
      ps.flatten = data.drop pos ∧ (∀ p ∈ ps, p ≠ [] ∧ (p.length : Int) ≤ chunk) ∧
      f'.pos = pos ∧ f'.data = data := by
  obtain ⟨ps, f', h1, h2, h3, h4⟩ := copyLoop_sfile chunk hc (sfileFuel ⟨data, pos, sched⟩) ⟨data, pos, sched⟩
    (by simp [sfileFuel])
  refine ⟨ps, { f' with pos := pos }, ?_, h2, h3, rfl, h4⟩
  unfold copySFile copyFileFuel
  rw [h1]
  have hp : ¬ ((pos : Int) < 0) := by omega
  simp [sfileOps, SFile.seek, hp]

/-- **`save_filelike_exact`.**  Saving an upload whose window `[st, en)` lies inside the buffered body to a
file-like destination, from any current position, with any `chunk_size` (also ≤ 0), memory or spooled: the sink
receives exactly the bytes from the current position to the end of the window, in non-empty pieces (of at most
`chunk_size` bytes when that is positive), nothing is opened, and the upload is left exactly as it was. -/
theorem save_filelike_exact (nf : Char → List Char) (fs : Fs) (body : Bytes) (sp : Bool) (u : FileUpload)
    (overwrite : Bool) (chunk : Int) (st en pos : Nat) (hu : u.file = ⟨st, en, pos⟩)
    (h1 : st ≤ pos) (h2 : pos ≤ en) (h3 : en ≤ body.length) :
    ∃ ps, u.save nf fs body sp false .filelike overwrite chunk = some (.ok ⟨none, ps⟩, u) ∧
      ps.flatten = window body pos en ∧ (∀ p ∈ ps, p ≠ [] ∧ (0 < chunk → (p.length : Int) ≤ chunk)) := by
  obtain ⟨ps, hcp, hfl, hps⟩ := copyProxy_exact body sp chunk st en pos h1 h2 h3
  refine ⟨ps, ?_, hfl, hps⟩
  simp only [FileUpload.save, hu, hcp]
  cases u; simp_all

/-- **`save_refuses_existing`.**  With `overwrite=False`, a destination path that exists — the path itself when it
is not a directory, `join(directory, filename)` when it is — is refused with `IOError` before anything is opened
or written, and the upload's file position is untouched. -/
theorem save_refuses_existing (nf : Char → List Char) (fs : Fs) (body : Bytes) (sp closed : Bool) (u : FileUpload)
    (d : Str) (chunk : Int) :
    (fs.isdir d = false → fs.exists_ d = true →
      u.save nf fs body sp closed (.path d) false chunk = some (.error (.other "OSError", none), u)) ∧
    (∀ f, fs.isdir d = true → u.cached = none → sanitize nf u.rawFilename = some f →
      fs.exists_ (StaticFile.join d f) = true →
      ∃ u', u.save nf fs body sp closed (.path d) false chunk = some (.error (.other "OSError", none), u') ∧
        u'.file = u.file ∧ u'.cached = some f) := by
  constructor
  · intro hd he
    simp [FileUpload.save, hd, he]
  · intro f hd hc hs he
    refine ⟨{ u with cached := some f, computed := u.computed + 1 }, ?_, rfl, rfl⟩
    simp [FileUpload.save, hd, FileUpload.filenameGet, hc, hs, he]

/-- **`save_dir_uses_sanitised_name`.**  Saving into a directory opens exactly `join(directory, filename)` with the
SANITISED name (never the raw one), which is a direct child of the directory (its segments are the directory's
followed by the name), and — the name being free and the window inside the body — writes exactly the rest of the
window there and restores the position. -/
theorem save_dir_uses_sanitised_name (nf : Char → List Char) (fs : Fs) (body : Bytes) (sp : Bool) (u : FileUpload)
    (d f : Str) (overwrite : Bool) (chunk : Int) (st en pos : Nat) (hd0 : d ≠ [])
    (hd : fs.isdir d = true) (hc : u.cached = none) (hs : sanitize nf u.rawFilename = some f)
    (hfree : overwrite = true ∨ fs.exists_ (StaticFile.join d f) = false)
    (hopen : fs.openErr (StaticFile.join d f) = none)
    (hu : u.file = ⟨st, en, pos⟩) (h1 : st ≤ pos) (h2 : pos ≤ en) (h3 : en ≤ body.length) :
    ∃ ps u', u.save nf fs body sp false (.path d) overwrite chunk = some (.ok ⟨some (StaticFile.join d f), ps⟩, u') ∧
      ps.flatten = window body pos en ∧ u'.file = u.file ∧
      StaticFile.segments (StaticFile.join d f) = StaticFile.segments d ++ [f] := by
  obtain ⟨ps, hcp, hfl, _⟩ := copyProxy_exact body sp chunk st en pos h1 h2 h3
  have hseg := (filename_safe nf u.rawFilename f hs).2.2.2.2.2.2.2.2 d hd0
  refine ⟨ps, { u with cached := some f, computed := u.computed + 1 }, ?_, hfl, rfl, hseg⟩
  have hex : (!overwrite && fs.exists_ (StaticFile.join d f)) = false := by
    rcases hfree with h | h <;> simp [h]
  simp [FileUpload.save, hd, FileUpload.filenameGet, hc, hs, hex, hopen, hu, hcp]

/-- **`proxy_window` (safety half): no byte from outside the window.**  For EVERY sequence of operations on a
`BytesIOProxy(src, st, en)` with `st ≤ en` — reads with any size, seeks with any offset and any `whence`
(malformed ones included), the constant methods, closing the source — the position stays inside `[st, en]` and
every `read` returns a contiguous piece `src[a : a+k]` with `st ≤ a` and `a + k ≤ en`: a handler can never see
a byte of another part through an upload's file object. -/
theorem proxy_window_safe (body : Bytes) (sp : Bool) (st en : Nat) (hse : st ≤ en) (ops : List POp) :
    ∀ r ∈ (runProxy body sp ⟨Proxy.new st en, false⟩ ops).1, InWindow body st en r := by
  have hinv : PInv st en ⟨Proxy.new st en, false⟩ := ⟨rfl, rfl, by simp [Proxy.new], by simp [Proxy.new]; omega⟩
  exact (runProxy_inv body sp st en hse ops _ hinv).2

/-- **`proxy_window` (refinement half).**  A `BytesIOProxy(src, st, en)` over a window inside the buffered body
(memory or spooled) behaves exactly like `io.BytesIO(src[st:en])`: for EVERY sequence of operations that both
define alike (`AgreeSeq`: any `read` except `read(0)`, any `seek` with any `whence` — unknown ones raise on both
sides — whose target is not beyond the end and, for `SEEK_SET`, not negative; `tell`, `isatty`, `seekable`,
`readable`, `fileno`, `flush`) the two answer sequences are equal.  The documented differences are exactly the
excluded operations: `read(0)` reads to the end of the window, a seek beyond the end clamps to the end, a
negative `SEEK_SET` clamps to 0, `writable()` is `False`. -/
theorem proxy_window (body : Bytes) (sp : Bool) (st en : Nat) (hse : st ≤ en) (h3 : en ≤ body.length)
    (ops : List POp) (ha : AgreeSeq ⟨window body st en, 0⟩ ops) :
    (runProxy body sp ⟨Proxy.new st en, false⟩ ops).1 = (runBio ⟨window body st en, 0⟩ ops).1 :=
  run_sim body sp st en hse h3 ops _ _ ⟨by simp [Proxy.new], rfl, rfl, by simp⟩ ha

/-- **`upload_roundtrip_save`.**  Composition with `parts_disjoint` / `form_roundtrip`: for every field list of the
domain, the upload object that `_collect_multipart` builds for part `i` (window = the part's data range), saved to
a file-like destination with any chunk size, delivers exactly the part's content, and is left at offset 0. -/
theorem upload_roundtrip_save (boundary : Str) (fields : List Field) (epilogue : Bytes)
    (hf : ∀ f ∈ fields, FieldOK f) (nf : Char → List Char) (fs : Fs) (sp : Bool) (chunk : Int)
    (i : Nat) (n fn : Str) (ct : Option Str) (c : Bytes) (r : Nat × Nat) (hdrs : List (Str × Header))
    (hfi : fields[i]? = some (.file n fn ct c))
    (hri : (dataRanges (Spec.delim (utf8Encode boundary)).length (2 + (utf8Encode boundary).length) fields)[i]? = some r) :
    let body := encodeForm boundary fields epilogue
    let u := ofCollected ⟨n, fn, hdrs, ((r.1 : Int), (r.2 : Int))⟩
    ∃ ps, u.save nf fs body sp false .filelike false chunk = some (.ok ⟨none, ps⟩, u) ∧ ps.flatten = c := by
  intro body u
  obtain ⟨_, hcontent, _, _⟩ := parts_disjoint boundary fields epilogue hf
  obtain ⟨hr2, hdata, hdelim⟩ := hcontent i _ r hfi hri
  simp only [Field.data] at hr2 hdata hdelim
  have hlen : r.2 ≤ body.length := by
    refine Decidable.byContradiction fun hgt => ?_
    have : List.drop r.2 (encodeForm boundary fields epilogue) = [] :=
      List.drop_eq_nil_of_le (by show (encodeForm boundary fields epilogue).length ≤ r.2; simp only [body] at hgt; omega)
    rw [this] at hdelim
    simp [Spec.delim, CRLF] at hdelim
  obtain ⟨ps, hsave, hfl, _⟩ := save_filelike_exact nf fs body sp u false chunk r.1 r.2 r.1
    (by simp [u, ofCollected, FileUpload.init, Proxy.new]) (Nat.le_refl _) (by omega) hlen
  refine ⟨ps, hsave, ?_⟩
  rw [hfl, window, hr2]
  simpa using hdata

section NonVacuity

/-- `filename_safe`: a hostile raw name (path traversal through compatibility characters that NFKD turns into
`.`, `/`, `\`), its sanitised form, and the hypotheses of the theorem -/
example : sanitize nfkdTable (.str [Char.ofNat 0x2025, Char.ofNat 0xFF0F, 'e', 't', 'c', Char.ofNat 0xFF3C, ' ', '.', 'p', ' ', 'w', Char.ofNat 0xE9, '.']) =
    some cs!"p-we" := by decide +kernel

example : sanitize nfkdTable (.bytes [0x2e, 0x2e, 0x2f, 0xff, 0xc3]) = some cs!"empty" := by decide +kernel

/-- the trailing-dot clause needs its length hypothesis: 254 letters + `.b` is cut to a name that ends with a
dot (witness of the defect; the same on the real code) -/
example : (sanitize (fun c => [c]) (.str (List.replicate 254 'a' ++ cs!".b"))).map (fun f => (f.length, f.getLast?)) =
    some (255, some '.') := by decide +kernel

/-- `filename_idempotent`: the hypotheses on a concrete name; and the witness that the hypothesis on the last
character is needed (the cut name of the previous example loses its dot in a second pass) -/
example : sanitize nfkdTable (.str cs!" my  file--v2 .tar.gz. ") = some cs!"my-file-v2-.tar.gz" ∧
    sanitize nfkdTable (.str cs!"my-file-v2-.tar.gz") = some cs!"my-file-v2-.tar.gz" := by decide +kernel

example : (sanitize (fun c => [c]) (.str (List.replicate 254 'a' ++ cs!"."))).map List.length = some 254 := by
  decide +kernel

/-- `filename_cached_once`, `save_*`: an upload over the window `[2, 5)` of a 6-byte body -/
def exUp : FileUpload := FileUpload.init ⟨2, 5, 2⟩ cs!"field" (.str cs!"../a b.txt") none

example : exUp.cached = none ∧ sanitize nfkdTable exUp.rawFilename = some cs!"a-b.txt" := by decide +kernel

def exFs : Fs := ⟨fun p => p = cs!"/up", fun p => p = cs!"/up" ∨ p = cs!"/up/old.txt", fun _ => none⟩

example : (match exUp.save nfkdTable exFs [1, 2, 3, 4, 5, 6] false false (.path cs!"/up") false 2 with
    | some (.ok sv, u') => decide (sv = ⟨some cs!"/up/a-b.txt", [[3, 4], [5]]⟩ ∧ u'.file = exUp.file)
    | _ => false) = true := by decide +kernel

example : (match { exUp with rawFilename := .str cs!"x/old.txt" }.save nfkdTable exFs [1, 2, 3, 4, 5, 6] false false
      (.path cs!"/up") false 2 with
    | some (.error (e, p), _) => decide (e = .other "OSError" ∧ p = none)
    | _ => false) = true := by decide +kernel

/-- `copy_file_exact`: short reads of 1, 1 (a 0 in the schedule counts as 1), then 2 bytes with chunk size 2 -/
example : (match copySFile 2 ⟨[1, 2, 3, 4, 5], 1, [1, 0, 5]⟩ with
    | some (.ok (ps, f')) => decide (ps = [[2], [3], [4, 5]] ∧ f' = ⟨[1, 2, 3, 4, 5], 1, []⟩)
    | _ => false) = true := by decide +kernel

/-- `proxy_window_safe`: a malformed sequence on the window `[2, 5)` -/
example : (runProxy [1, 2, 3, 4, 5, 6] false ⟨Proxy.new 2 5, false⟩
    [.seek (-7) 2, .read (some (-1)), .seek 100 0, .read none, .seek (-2) 1, .seek 0 3, .read (some 0)]).1 =
    [.int 0, .bytes [3, 4, 5], .int 3, .bytes [], .int 1, .err (.py .valueError), .bytes [4, 5]] := by decide +kernel

/-- `proxy_window`: a sequence of the common domain on the window `[2, 5)`, and the (equal) answers -/
example : AgreeSeq ⟨window [1, 2, 3, 4, 5, 6] 2 5, 0⟩ [.read (some 2), .tell, .seek (-1) 1, .read none, .seek (-9) 2, .seek 0 7, .read (some (-1)), .fileno] ∧
    (runBio ⟨window [1, 2, 3, 4, 5, 6] 2 5, 0⟩ [.read (some 2), .tell, .seek (-1) 1, .read none, .seek (-9) 2, .seek 0 7, .read (some (-1)), .fileno]).1 =
      [.bytes [3, 4], .int 2, .int 1, .bytes [4, 5], .int 0, .err (.py .valueError), .bytes [3, 4, 5], .err (.other "OSError")] := by
  refine ⟨?_, by decide +kernel⟩
  simp only [AgreeSeq, Agree, bioOp, Bio.read, Bio.seek, window]
  decide

/-- `upload_roundtrip_save`: the hypotheses hold for part 1 of the example form of `form_roundtrip` -/
example : (∀ f ∈ exFields, FieldOK f) ∧ exFields[1]? = some (.file cs!"u" cs!"q;z=1.txt" (some cs!"text/plain") [13, 10, 45, 45, 98, 32, 0, 255]) ∧
    (dataRanges (Spec.delim (utf8Encode cs!"b d")).length (2 + (utf8Encode cs!"b d").length) exFields)[1]?.isSome = true := by
  refine ⟨by decide, by decide, by decide +kernel⟩

end NonVacuity

end Ombott.Upload
