import OmbottModel.Model.Forms
import OmbottModel.Model.FormsShared
import OmbottModel.Model.BodyAccess
import OmbottModel.Lemmas.FormsRoundtrip
import OmbottModel.Props.C06
import OmbottModel.Gen.Forms
/-!
C07 — Multipart forms and uploads round-trip exactly.
Property theorems only; helper lemmas live in `Lemmas/Forms*.lean`.
-/
namespace Ombott.Forms
open Py Ombott.Multipart

/-! ### tie to the source: the two regular expressions -/

open Ombott.BodyAccess

def cpStr (l : List Nat) : Str := l.map Char.ofNat

/-- the pattern texts the direct functions were written for are the ones in the source -/
theorem source_patterns_tie :
    Gen.formsPatt = "(.+?)(=(\".*?\"|.+?))?(;|$)" ∧
    Gen.formsBoundaryPatt = "^multipart/.+?boundary=(.+?)(;|$)" := by
  decide

/-- `pattIter` gives the groups `FieldStorage._patt.finditer` gave on the live module for every
string of length ≤ 4 over `a = ; "` (≤ 3 with a space), the strings of length 5 that start with `a` and
hold two quotes, and a set of longer quoted-value cases -/
theorem patt_table_tie :
    Gen.formsPattTable.all (fun t => t.all fun r =>
      pattIter (cpStr r.1) == r.2.map fun (a, b) => (cpStr a, b.map cpStr)) = true := by
  decide +kernel

/-- `boundaryOf` gives the boundary that `Request._body` handed to `MultipartMarkup` on the live
module for `multipart/` followed by every word of ≤ 3 atoms over `x ; LF " boundary=` -/
theorem boundary_table_tie :
    Gen.formsBoundaryTable.all (fun t => t.all fun r =>
      boundaryOf (cpStr r.1) == r.2.map cpStr) = true := by
  decide +kernel

/-! ### the property -/

/-- the markup that `MultipartMarkup.parse` builds from these chunks is exactly the encoder's
sections, and no error is recorded -/
def MarkupExact (b : Bytes) (parts : List Spec.Part) (chunks : List Bytes) : Prop :=
  ∀ s0, St.init b = .ok s0 →
    (feed s0 chunks).markups = Spec.expectedMarkups b parts ∧ (feed s0 chunks).error = none

/-- no value contains the delimiter `CRLF--boundary` (what a client guarantees by its choice of
the boundary) -/
def NoDelim (boundary : Str) (fields : List Field) : Prop :=
  ∀ f ∈ fields, findSub (Spec.delim (utf8Encode boundary)) f.data = none

instance (b : Str) (fs : List Field) : Decidable (NoDelim b fs) := by unfold NoDelim; infer_instance

/-- the parts of a field list of the domain form a well-formed body in the sense of C06 -/
theorem wfBody_fields (boundary : Str) (fields : List Field) (hb : LegalBoundary boundary)
    (hf : ∀ f ∈ fields, FieldOK f) (hnd : NoDelim boundary fields) :
    Spec.WFBody (utf8Encode boundary) (fields.map Field.part) := by
  refine ⟨cr_not_mem_utf8Encode boundary (fun h => (hb.2 _ h).2.2.2 rfl), ?_⟩
  intro p hp
  obtain ⟨f, hfm, rfl⟩ := List.mem_map.mp hp
  have hl := headerLines_ok f (hf f hfm)
  refine ⟨by simpa [Field.part] using hl.1, ?_, hnd f hfm⟩
  intro l hlm
  simp only [Field.part, List.mem_map] at hlm
  obtain ⟨line, hline, rfl⟩ := hlm
  obtain ⟨hne, hnb⟩ := hl.2 line hline
  refine ⟨fun h => hne (utf8Encode_eq_nil line h), ?_, ?_⟩
  · exact cr_not_mem_utf8Encode line (fun h => by have := hnb _ h; simp [isLineBreak] at this)
  · exact lf_not_mem_utf8Encode line (fun h => by have := hnb _ h; simp [isLineBreak] at this)

/-- **`MarkupExact` is discharged by C06** (`section_ranges_exact`): for every field list of the
domain whose values do not contain the delimiter, in whatever chunks the encoded body arrives -/
theorem markupExact_of_c06 (boundary : Str) (fields : List Field) (epilogue : Bytes) (chunks : List Bytes)
    (hb : LegalBoundary boundary) (hf : ∀ f ∈ fields, FieldOK f) (hnd : NoDelim boundary fields)
    (hbody : chunks.flatten = encodeForm boundary fields epilogue) :
    MarkupExact (utf8Encode boundary) (fields.map Field.part) chunks := by
  intro s0 hs0
  have h := section_ranges_exact (utf8Encode boundary) (fields.map Field.part) epilogue
    (wfBody_fields boundary fields hb hf hnd) chunks hbody
  unfold parseChunks at h
  rw [hs0] at h
  simp only [Except.ok.injEq] at h
  have h1 := congrArg Obs.markups h
  have h2 := congrArg Obs.error h
  exact ⟨h1, h2⟩

/-- **Every part is read back as the field it was written from.**  `FieldStorage.iter_items` over
the sections of an encoded body yields, for every field list of the domain and every budget that
covers the header blocks and text values, exactly one `FieldStorage` per field, in order, with the
field's name, value or (file name, content type, window = the part's data range), and no error. -/
theorem iterItems_encoded (b : Bytes) (sp : Bool) (fields : List Field) (epi : Bytes) (mr : Int)
    (hok : ∀ f ∈ fields, FieldOK f) (hbud : (textBudget fields : Int) ≤ mr) :
    iterItems (Spec.encodeBody b (fields.map Field.part) epi) sp
      (Spec.expectedMarkups b (fields.map Field.part)) mr =
      ⟨encodedItems (Spec.delim b).length (2 + b.length) fields, none⟩ := by
  unfold iterItems Spec.expectedMarkups Spec.encodeBody
  simp only [ne_eq, not_true_eq_false, ↓reduceIte, Int.lt_irrefl, gt_iff_lt]
  have hl : 2 + b.length = (HYPHENx2 ++ b).length := by simp [HYPHENx2]; omega
  rw [hl]
  exact itemsLoop_encoded b sp fields (HYPHENx2 ++ b) (HYPHENx2 ++ epi) mr hok hbud

/-- **Round trip.**  For every list of fields of the domain (names and file names free of `"` and
of line breaks, file names non-empty, media types without parameters; any text values, any file
bytes; any repetition of names, also across text fields and uploads), every boundary that can be
named in the Content-Type header (as a token or as a quoted string; no `;`, `"`, LF, CR),
every epilogue, every `max_memfile_size` that covers the header blocks and the text values, every
`content_length`, and every fragmentation `chunks` in which the body reader delivered the encoded
body (either framing): reading `POST` succeeds, and under every key `POST` shows exactly the fields
of that name in submission order, `forms` the text fields, `files` the uploads — an upload with its
name, raw file name, content type and the exact bytes; a name used once is stored bare, a repeated
one as a list.  The only condition on the values is that none contains the delimiter
`CRLF--boundary` (`NoDelim`); the markup of the encoded body comes from C06
(`section_ranges_exact`, via `markupExact_of_c06`). -/
theorem form_roundtrip (boundary : Str) (quote : Bool) (fields : List Field) (epilogue : Bytes)
    (chunks : List Bytes) (cl : Int) (maxMemfile : Nat) (emap : List (String × Nat)) (jl : JLoads)
    (hb : LegalBoundary boundary)
    (hf : ∀ f ∈ fields, FieldOK f) (hbud : textBudget fields ≤ maxMemfile)
    (hnd : NoDelim boundary fields)
    (hbody : chunks.flatten = encodeForm boundary fields epilogue) :
    ∃ post forms files : FDict,
      postOf ⟨maxMemfile, emap⟩ jl ⟨some (contentTypeFor boundary quote), cl, .ok chunks⟩ =
        ⟨.fields files, some (.fields forms), .ok (.fields post)⟩ ∧
      let body := encodeForm boundary fields epilogue
      let sp := spooled ⟨maxMemfile, emap⟩ body
      ∀ k : Str,
        Shows body sp (dictGet post k) (fields.filter (fun f => f.name = k)) ∧
        Shows body sp (dictGet forms k) (fields.filter (fun f => f.name = k ∧ f.isFile = false)) ∧
        Shows body sp (dictGet files k) (fields.filter (fun f => f.name = k ∧ f.isFile = true)) := by
  -- the markup object
  obtain ⟨s0, hs0⟩ : ∃ s0, St.init (utf8Encode boundary) = .ok s0 := by
    have hcr : CR ∉ utf8Encode boundary :=
      cr_not_mem_utf8Encode boundary (fun h => (hb.2 _ h).2.2.2 rfl)
    unfold St.init Markuper.init
    rw [if_neg hcr]
    exact ⟨_, rfl⟩
  obtain ⟨hmarkups, herr⟩ := markupExact_of_c06 boundary fields epilogue chunks hb hf hnd hbody s0 hs0
  have hbodyOf : bodyOf ⟨maxMemfile, emap⟩ ⟨some (contentTypeFor boundary quote), cl, .ok chunks⟩ =
      .ok (chunks.flatten, some (feed s0 chunks)) := by
    unfold bodyOf
    simp only [Option.getD_some, boundaryOf_contentTypeFor boundary quote hb, hs0, Option.map_some]
  have hitems := fun sp => iterItems_encoded (utf8Encode boundary) sp fields epilogue
    (maxMemfile : Int) hf (by omega)
  have henc : encodeForm boundary fields epilogue =
      Spec.encodeBody (utf8Encode boundary) (fields.map Field.part) epilogue := rfl
  refine ⟨(collect (encodedItems (Spec.delim (utf8Encode boundary)).length (2 + (utf8Encode boundary).length) fields)).post,
    (collect (encodedItems (Spec.delim (utf8Encode boundary)).length (2 + (utf8Encode boundary).length) fields)).forms,
    (collect (encodedItems (Spec.delim (utf8Encode boundary)).length (2 + (utf8Encode boundary).length) fields)).files,
    ?_, ?_⟩
  · unfold postOf
    simp only [lowerCT_multipart, not_true_eq_false, ↓reduceIte, hbodyOf, herr, hmarkups]
    rw [hbody, henc, hitems]
  · intro body sp k
    have hrb := encodedItems_readBack (utf8Encode boundary) sp fields (HYPHENx2 ++ utf8Encode boundary)
      (HYPHENx2 ++ epilogue) hf
    have hl : (HYPHENx2 ++ utf8Encode boundary).length = 2 + (utf8Encode boundary).length := by
      simp [HYPHENx2]; omega
    rw [hl] at hrb
    have hX : HYPHENx2 ++ utf8Encode boundary ++
        (Spec.encodeParts (utf8Encode boundary) (fields.map Field.part) ++ (HYPHENx2 ++ epilogue)) = body := rfl
    rw [hX] at hrb
    obtain ⟨hshape, hvals⟩ := collect_spec (encodedItems (Spec.delim (utf8Encode boundary)).length
      (2 + (utf8Encode boundary).length) fields)
    obtain ⟨v1, v2, v3⟩ := hvals k
    refine ⟨⟨?_, hshape.1 k⟩, ⟨?_, hshape.2.1 k⟩, ⟨?_, hshape.2.2 k⟩⟩
    · rw [v1, List.map_map]
      exact forall₂_filter_map (ReadsBack body sp) (fun f => decide (f.name = k)) (fun it => decide (it.name = k))
        (viewItem body sp ∘ itemFst) (fun f => some (specItem f))
        (fun a b h => ⟨by rw [h.1], h.2.2⟩) _ _ hrb
    · rw [v2, List.map_map]
      exact forall₂_filter_map (ReadsBack body sp) (fun f => decide (f.name = k ∧ f.isFile = false))
        (fun it => decide (it.name = k ∧ itemToFiles it = false))
        (viewItem body sp ∘ itemFst) (fun f => some (specItem f))
        (fun a b h => ⟨by rw [h.1, h.2.1], h.2.2⟩) _ _ hrb
    · rw [v3, List.map_map]
      exact forall₂_filter_map (ReadsBack body sp) (fun f => decide (f.name = k ∧ f.isFile = true))
        (fun it => decide (it.name = k ∧ itemToFiles it = true))
        (viewItem body sp ∘ itemFst) (fun f => some (specItem f))
        (fun a b h => ⟨by rw [h.1, h.2.1], h.2.2⟩) _ _ hrb

instance (f : Field) : Decidable (FieldOK f) := by
  cases f <;> unfold FieldOK <;> infer_instance

/-- **No byte of one part appears in another.**  In the encoded body of every field list of the
domain (any boundary, any epilogue), the `i`-th field owns the byte range `dataRanges[i]`:
(a) there is one range per field, it holds exactly that field's data and is directly followed by
the delimiter `CRLF--boundary`; (b) ranges are in submission order and any two are separated by at
least a delimiter, the CRLF after it and the `CRLFCRLF` of a header block, so they are pairwise
disjoint and none touches another part's headers; (c) the field that `iter_items` yields for part
`i` of an upload has exactly this range as its `BytesIOProxy` window (and `form_roundtrip` shows
the window reads back the content), so what a handler reads from one upload never contains a byte
of another part. -/
theorem parts_disjoint (boundary : Str) (fields : List Field) (epilogue : Bytes)
    (hf : ∀ f ∈ fields, FieldOK f) :
    let b := utf8Encode boundary
    let body := encodeForm boundary fields epilogue
    let T := Spec.delim b
    let rs := dataRanges T.length (2 + b.length) fields
    rs.length = fields.length ∧
    (∀ (i : Nat) (f : Field) (r : Nat × Nat), fields[i]? = some f → rs[i]? = some r →
      r.2 = r.1 + f.data.length ∧ (body.drop r.1).take f.data.length = f.data ∧
      (body.drop r.2).take T.length = T) ∧
    (∀ (i j : Nat) (ri rj : Nat × Nat), i < j → rs[i]? = some ri → rs[j]? = some rj →
      ri.2 + T.length + 6 ≤ rj.1) ∧
    (∀ (i : Nat) (f : Field) (r : Nat × Nat), fields[i]? = some f → rs[i]? = some r → f.isFile = true →
      ∃ it, (encodedItems T.length (2 + b.length) fields)[i]? = some it ∧
        it.file = some ((r.1 : Int), (r.2 : Int)) ∧
        ∃ u, itemFst it = .file u ∧ u.file = ((r.1 : Int), (r.2 : Int))) := by
  intro b body T rs
  have hl : 2 + b.length = (HYPHENx2 ++ b).length := by simp [HYPHENx2]; omega
  refine ⟨dataRanges_length _ _ _, ?_, dataRanges_separated _ _ _, ?_⟩
  · intro i f r hfi hri
    have := dataRanges_content b fields (HYPHENx2 ++ b) (HYPHENx2 ++ epilogue) hf i f r hfi (by rw [← hl]; exact hri)
    exact this
  · intro i f r hfi hri hfile
    have hget : (encodedItems T.length (2 + b.length) fields)[i]? = some (fieldS f (r.1 : Int) (r.2 : Int)) := by
      unfold encodedItems
      rw [List.getElem?_map, (List.getElem?_zip_eq_some (z := (f, r))).mpr ⟨hfi, hri⟩]
      rfl
    refine ⟨_, hget, ?_⟩
    have hok := hf f (List.mem_of_getElem? hfi)
    cases f with
    | text n v => simp [Field.isFile] at hfile
    | file n fn ct c =>
      refine ⟨rfl, ⟨n, fn, fieldHeaders (.file n fn ct c), ((r.1 : Int), (r.2 : Int))⟩, ?_, rfl⟩
      exact (itemOf_fieldS (.file n fn ct c) hok _ _).1


/-! ### several uploads over one buffered body: interleaved reads (`Model/FormsShared.lean`) -/

/-- one operation on a window over the SHARED source (a file object with a cursor that the other windows and
`request.body` move too) gives the output and the window state of the cursor-free model, whatever the cursor was,
and leaves the content of the source alone -/
theorem step_shared_eq_alone (p : Proxy) (s : Src) (op : WOp) :
    ((stepWin p s op).1, (stepWin p s op).2.1) = stepAlone p s.body s.spooled op ∧
    (stepWin p s op).2.2.body = s.body ∧ (stepWin p s op).2.2.spooled = s.spooled := by
  cases op with
  | tell => exact ⟨rfl, rfl, rfl⟩
  | seek pos wh =>
    simp only [stepWin, stepAlone]
    cases p.seek pos wh <;> exact ⟨rfl, rfl, rfl⟩
  | read sz =>
    simp only [stepWin, stepAlone, Proxy.readS, Proxy.read, Src.seek, Src.read, srcRead]
    by_cases h1 : p.en - p.pos ≤ 0
    · simp [h1]
    · by_cases h2 : p.pos < 0
      · simp [h1, h2]
      · simp [h1, h2]; exact ⟨rfl, rfl⟩

/-- **no byte of one part appears in another, however the handler reads**: for every set of windows over one buffered
body, every interleaving of partial reads / seeks / tells on them and of reads and seeks on the body itself, the
outputs of window `i` are exactly those of its own operations run on that window alone -/
theorem interleaving_invisible (ops : List SOp) : ∀ (wins : List Proxy) (s : Src) (i : Nat) (p : Proxy),
    wins[i]? = some p →
    (runShared wins s ops).filterMap (tagOf i) = runAlone p s.body s.spooled (ops.filterMap (opsOf i)) := by
  induction ops with
  | nil => intros; rfl
  | cons o ops ih =>
    intro wins s i p h
    cases o with
    | srcRead sz =>
      simp only [runShared, List.filterMap_cons, tagOf, opsOf]
      have := ih wins (s.read sz).2 i p h
      simpa [tagOf, Src.read] using this
    | srcSeek pos =>
      simp only [runShared, List.filterMap_cons, tagOf, opsOf]
      have := ih wins { s with cur := pos } i p h
      simpa [tagOf] using this
    | win j op =>
      cases hj : wins[j]? with
      | none =>
        have hne : j ≠ i := by intro e; subst e; rw [h] at hj; cases hj
        simp only [runShared, hj, List.filterMap_cons, opsOf, if_neg hne]
        exact ih wins s i p h
      | some q =>
        obtain ⟨h1, h2, h3⟩ := step_shared_eq_alone q s op
        by_cases hji : j = i
        · subst hji
          have hq : q = p := by rw [h] at hj; cases hj; rfl
          subst hq
          have hlt : j < wins.length := by
            rcases Nat.lt_or_ge j wins.length with hl | hl
            · exact hl
            · rw [List.getElem?_eq_none hl] at h; cases h
          have hset : (wins.set j (stepWin q s op).2.1)[j]? = some (stepWin q s op).2.1 := by
            rw [List.getElem?_set_self hlt]
          have := ih (wins.set j (stepWin q s op).2.1) (stepWin q s op).2.2 j (stepWin q s op).2.1 hset
          simp only [runShared, hj, List.filterMap_cons, opsOf, if_true, tagOf, runAlone]
          rw [← h1]
          rw [this, h2, h3]
        · have hset : (wins.set j (stepWin q s op).2.1)[i]? = some p := by
            rw [List.getElem?_set_ne hji]; exact h
          have := ih (wins.set j (stepWin q s op).2.1) (stepWin q s op).2.2 i p hset
          have hne : ¬ (some j = some i) := by intro e; cases e; exact hji rfl
          simp only [runShared, hj, List.filterMap_cons, opsOf, if_neg hji, tagOf, if_neg hne]
          rw [this, h2, h3]

section NonVacuity
/-- `interleaving_invisible`: two windows over a 12-byte body; window 0 exists and is read in two blocks around a read
of window 1 and a read of the body -/
example : ([Proxy.new 2 6, Proxy.new 8 12] : List Proxy)[0]? = some (Proxy.new 2 6) := rfl
example : runShared [Proxy.new 2 6, Proxy.new 8 12] ⟨[0, 1, 2, 3, 4, 5, 6, 7, 8, 9, 10, 11], false, 0⟩
    [.win 0 (.read (some 2)), .win 1 (.read (some 3)), .srcRead 1, .win 0 (.read none)] =
    [(some 0, .bytes [2, 3]), (some 1, .bytes [8, 9, 10]), (none, .bytes [11]), (some 0, .bytes [4, 5])] := by decide

/-- the example of the property text: a text field named `f;x=y` and an upload `q;z=1.txt` whose
content looks like the delimiter, boundary `b d` (needs quoting) -/
def exFields : List Field :=
  [.text cs!"f;x=y" cs!"v é", .file cs!"u" cs!"q;z=1.txt" (some cs!"text/plain") [13, 10, 45, 45, 98, 32, 0, 255],
   .text cs!"f;x=y" cs!""]

def exBody : Bytes := encodeForm cs!"b d" exFields CRLF

/-- all hypotheses of `form_roundtrip` hold for the example, with the body delivered in two pieces -/
example :
    LegalBoundary cs!"b d" ∧ (∀ f ∈ exFields, FieldOK f) ∧ NoDelim cs!"b d" exFields ∧
    textBudget exFields ≤ 200 ∧ [exBody.take 70, exBody.drop 70].flatten = exBody := by
  refine ⟨by decide, by decide, by decide, by decide, by simp⟩

example : MarkupExact (utf8Encode cs!"b d") (exFields.map Field.part) [exBody.take 70, exBody.drop 70] := by
  intro s0 h0
  have key : (match St.init (utf8Encode cs!"b d") with
      | .ok s => decide ((feed s [exBody.take 70, exBody.drop 70]).markups =
          Spec.expectedMarkups (utf8Encode cs!"b d") (exFields.map Field.part) ∧
          (feed s [exBody.take 70, exBody.drop 70]).error = none)
      | .error _ => true) = true := by decide +kernel
  rw [h0] at key
  simpa using key

/-- and the conclusion can be observed directly on the model: `POST` of the example -/
example :
    (match (postOf ⟨200, Gen.formsErrorsMap⟩ (fun _ => .null)
        ⟨some (contentTypeFor cs!"b d" true), 0, .ok [exBody.take 70, exBody.drop 70]⟩).result with
      | .ok (.fields d) => d.map (fun e => (e.1, (vals (some e.2)).map (viewItem exBody false)))
      | _ => []) =
    [(cs!"f;x=y", [some (.text cs!"v é"), some (.text cs!"")]),
     (cs!"u", [some (.file cs!"u" cs!"q;z=1.txt" (some cs!"text/plain") [13, 10, 45, 45, 98, 32, 0, 255])])] := by
  decide +kernel

end NonVacuity

end Ombott.Forms
