import OmbottModel.Model.Forms
import OmbottModel.Gen.Forms
/-!
C07 — Multipart forms and uploads round-trip exactly.
Property theorems only; helper lemmas live in `Lemmas/Forms*.lean`.
-/
namespace Ombott.Forms
open Py Ombott.Multipart

/-! ### tie to the source: the two regular expressions -/

def cpStr (l : List Nat) : Str := l.map Char.ofNat

/-- the pattern texts the direct functions were written for are the ones in the source -/
theorem source_patterns_tie :
    Gen.formsPatt = "(.+?)(=(\".*?\"|.+?))?(;|$)" ∧
    Gen.formsBoundaryPatt = "^multipart/.+?boundary=(.+?)(;|$)" := by
  decide

/-- `pattIter` gives the groups `FieldStorage._patt.finditer` gave on the live module for every
string of length ≤ 5 over `a = ; "` (≤ 3 with a space) and a set of longer quoted-value cases -/
theorem patt_table_tie :
    Gen.formsPattTable.all (fun t => t.all fun r =>
      pattIter (cpStr r.1) == r.2.map fun (a, b) => (cpStr a, b.map cpStr)) = true := by
  decide +kernel

/-- `boundaryOf` gives the boundary that `Request._body` handed to `MultipartMarkup` on the live
module for `multipart/` followed by every word of ≤ 4 atoms over `x ; LF " boundary=` -/
theorem boundary_table_tie :
    Gen.formsBoundaryTable.all (fun t => t.all fun r =>
      boundaryOf (cpStr r.1) == r.2.map cpStr) = true := by
  decide +kernel

end Ombott.Forms
