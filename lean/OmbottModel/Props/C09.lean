import OmbottModel.Model.History
/-!
C09 — Each response depends on its own request only; retained state is bounded.
-/
namespace Ombott.History
open Py Ombott.Wsgi

/-- placeholder until the history theorems are in (stage 1) -/
theorem sharedInit_length : sharedInit.length = Gen.errorsMap.length := by
  unfold sharedInit; simp

end Ombott.History
