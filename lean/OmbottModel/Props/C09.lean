import OmbottModel.Model.History
import OmbottModel.Lemmas.History
import OmbottModel.Lemmas.WsgiCast
/-!
C09 — Each response depends on its own request only; retained state is bounded.
Property theorems only; helper lemmas live in `Lemmas/History.lean`.  All statements are about
`serve` / `retained` of `Model/History.lean`, the functions the driver runs (`wsgi hist` lines),
for every application (hooks, custom error handlers) and every finite request history.
-/
namespace Ombott.History
open Py Ombott.Wsgi

/-- `response_history_independent`: on a reused worker thread the complete response to a request
(status line, every header and cookie, body — framework error pages included) after **any**
history of earlier requests, whatever their outcomes were (success, cookies / headers / status
set by handlers and hooks, 404 / 405, undecodable path, malformed or oversized body raising the
shared error objects, handler crash), equals the response the same request gets from a fresh
application. -/
theorem response_history_independent (app : App) (hist : List HReq) (r : HReq) :
    (serve app (hist.foldl (serve₁ app) AppState.init) r).2 = (serve app AppState.init r).2 := by
  have hcore := foldl_core app hist AppState.init
  unfold serve
  simp only
  rw [resolve_core _ _ r hcore]
  rw [wsgi_slots_irrelevant app (hist.foldl (serve₁ app) AppState.init).slots AppState.init.slots]
  rw [withProbe_slots_irrelevant (hist.foldl (serve₁ app) AppState.init).slots AppState.init.slots]

/-- … and from any starting state: in particular for an application configured with its own
`errors_map` (`AppState.initWith`), long-lived error objects with any text included -/
theorem response_history_independent_from (app : App) (st0 : AppState) (hist : List HReq) (r : HReq) :
    (serve app (hist.foldl (serve₁ app) st0) r).2 = (serve app st0 r).2 := by
  have hcore := foldl_core app hist st0
  unfold serve
  simp only
  rw [resolve_core _ _ r hcore]
  rw [wsgi_slots_irrelevant app (hist.foldl (serve₁ app) st0).slots st0.slots]
  rw [withProbe_slots_irrelevant (hist.foldl (serve₁ app) st0).slots st0.slots]

/-- the entries of `errors_map` are templates: what `_raise` raises — and what error handlers are
handed, may annotate, what gets a traceback — is a per-request copy, so after any history, from
any starting configuration, the shared objects are exactly what they were (status, headers,
cookies, body and traceback), whatever handlers and error handlers did -/
theorem shared_errors_unchanged (app : App) (st0 : AppState) (hist : List HReq) :
    (hist.foldl (serve₁ app) st0).shared = st0.shared :=
  foldl_shared app hist st0

/-- `class_level_state_accounted`: the complete list of class-level and module-level mutable
containers (dict / list / set valued) of the package, as extracted from the live modules — the
only places besides the per-thread request / response objects where something could outlive a
request.  Each is accounted for:
* `DefaultConfig.errors_map` — the shared `HTTPError` objects: modelled (`AppState.shared`:
  status, headers, cookies, body, traceback chain; `shared_errors_unchanged`, `retained_bounded`);
* `error_render._html_lns` — filled on first use with the stripped lines of `error.html`
  (`Gen.wsgiErrorPage` is that content), the same for every request;
* `FilterFactory._filter_cache`, `FilterFactory.filters`, `Parser.param_delimiters_map`,
  `server_adapters.*` — written when rules / servers are set up, not while serving;
* `bad_headers` (`Gen.wsgiBadHeaders`), `_HTTP_STATUS_LINES` / `HTTP_CODES`
  (`Gen.wsgiStatusLines`), `__hook_reversed` (`Gen.wsgiHookReversed`), `HTTP_METHODS`,
  `cgikeys`, `_as_mixins`, `domain_map`, `RequestConfig.errors_map` — constants only read.
The harness checks behaviourally (in a pristine process) that serving requests leaves every one
of them unchanged.  A container added to (or removed from) the source makes this theorem fail and
re-opens the obligation. -/
theorem class_level_state_accounted :
    Gen.wsgiClassMutables =
      ["ombott.error_render:_html_lns:list",
       "ombott.ombott:DefaultConfig.domain_map:dict",
       "ombott.ombott:DefaultConfig.errors_map:dict",
       "ombott.ombott:HTTP_METHODS:list",
       "ombott.ombott:Ombott._Ombott__hook_reversed:set",
       "ombott.request_pkg.helpers:WSGIHeaderDict.cgikeys:set",
       "ombott.request_pkg.request:Request._as_mixins:list",
       "ombott.request_pkg.request:RequestConfig.errors_map:dict",
       "ombott.response:BaseResponse.bad_headers:dict",
       "ombott.response:HTTP_CODES:dict",
       "ombott.response:_HTTP_STATUS_LINES:dict",
       "ombott.router.filter_factory:FilterFactory._filter_cache:dict",
       "ombott.router.filter_factory:FilterFactory.filters:dict",
       "ombott.router.parser:Parser.param_delimiters_map:dict",
       "ombott.server_adapters:AutoServer.adapters:list",
       "ombott.server_adapters:server_names:dict"] := by decide

/-- the number of shared error objects, from the extracted `errors_map` -/
theorem shared_count : sharedInit.length = 3 := by decide

/-- the templates of `errors_map` never reference a request -/
theorem initWith_tb (m : List (String × Nat × Str × Str)) : (AppState.initWith m).shared.flatMap (·.tb) = [] := by
  unfold AppState.initWith
  induction m with
  | nil => rfl
  | cons x xs ih => simpa [List.flatMap_cons] using ih

theorem init_tb : AppState.init.shared.flatMap (·.tb) = [] := by decide

/-- the retention bound from any starting state whose shared templates and application
singletons reference no request -/
theorem retained_bounded_from (app : App) (st0 : AppState) (hist : List HReq)
    (h0 : st0.shared.flatMap (·.tb) = []) (h1 : AppTbEmpty st0.appTb)
    (hc : reachesExcept app = true ∨ ∀ hr ∈ hist, hr.singleton = none) :
    (retained (hist.foldl (serve₁ app) st0)).length ≤ 1 := by
  have happ := flatMap_empty _ (foldl_appTb app hist st0 h1 hc)
  unfold retained
  refine Nat.le_trans (dedup_length_le _) ?_
  rw [happ, foldl_shared, h0]
  simp only [List.append_nil]
  cases (hist.foldl (serve₁ app) st0).slots.req with
  | none => simp
  | some q => simp

/-- `retained_bounded`: after serving any history — in particular N failing requests of any
kind — at most ONE request has per-request objects (environ, input stream) reachable from the
application: the one the reused request object points at.  The mapped errors of `errors_map`
are raised as per-request copies and never hold a traceback; `_handle` drops the traceback of a
raised response that reaches its `except HTTPResponse` clause.  The bound is a numeral,
independent of the history.  Hypothesis: raised responses reach that clause (no after-hook
fails), or the application raises no module-level response object of its own — see
`singleton_residue`. -/
theorem retained_bounded (app : App) (hist : List HReq)
    (hc : reachesExcept app = true ∨ ∀ hr ∈ hist, hr.singleton = none) :
    (retained (hist.foldl (serve₁ app) AppState.init)).length ≤ 1 :=
  retained_bounded_from app AppState.init hist init_tb (fun p hp => by cases hp) hc

/-- … and for an application with its own `errors_map` -/
theorem retained_bounded_with (app : App) (m : List (String × Nat × Str × Str)) (hist : List HReq)
    (hc : reachesExcept app = true ∨ ∀ hr ∈ hist, hr.singleton = none) :
    (retained (hist.foldl (serve₁ app) (AppState.initWith m))).length ≤ 1 :=
  retained_bounded_from app (AppState.initWith m) hist (initWith_tb m) (fun p hp => by cases hp) hc

/-- `retained_bounded` in the form "there is a constant" -/
theorem retained_bounded_exists :
    ∃ K : Nat, ∀ (app : App) (hist : List HReq),
      (reachesExcept app = true ∨ ∀ hr ∈ hist, hr.singleton = none) →
      (retained (hist.foldl (serve₁ app) AppState.init)).length ≤ K :=
  ⟨1, retained_bounded⟩

/-- the one environ the request object keeps is the last request's -/
theorem request_slot_is_last (app : App) (st : AppState) (r : HReq) :
    ((serve app st r).1.slots.req).map (fun q => (q.id, q.urlRepr, q.json)) =
      some (r.req.id, r.req.urlRepr, r.req.json) := by
  have hreq : (resolve st.shared r).1.id = r.req.id ∧ (resolve st.shared r).1.urlRepr = r.req.urlRepr ∧
      (resolve st.shared r).1.json = r.req.json := by
    unfold resolve
    split
    · split <;> exact ⟨rfl, rfl, rfl⟩
    · exact ⟨rfl, rfl, rfl⟩
  have hp := withProbe_ids st.slots r (resolve st.shared r).1
  have hw := wsgi_req app st.slots (withProbe st.slots r (resolve st.shared r).1)
  rw [hp.1, hp.2.1, hp.2.2, hreq.1, hreq.2.1, hreq.2.2] at hw
  unfold serve
  simp only
  cases r.ext with
  | none => simp only [hw, Option.map_some]
  | some sets =>
    simp only [hw]
    split <;> simp only [hw, Option.map_some]

/-- `direct_raise_ignores_errors_map`: an exception the framework code raises itself while the
handler reads the request (`int()` of a `Content-Length` that is not a number: a plain `ValueError`,
not routed through `BaseRequest._raise`) consults no `errors_map` entry: the complete response is
the same whatever the shared error objects are (and, by `response_history_independent_from`,
whatever was served before). -/
theorem direct_raise_ignores_errors_map (app : App) (st : AppState) (sh : List SharedErr) (r : HReq)
    (h : r.direct = true) :
    (serve app { st with shared := sh } r).2 = (serve app st r).2 := by
  have hres : ∀ l, (resolve l r).1 = (resolve [] r).1 := by
    intro l
    unfold resolve
    simp only [h, if_true]
  unfold serve
  simp only
  rw [hres sh, hres st.shared]

/-! ### NonVacuity: concrete histories -/
section NonVacuity

def exApp : App :=
  { before := [], after := [{ effs := [.setHeader "X-After".toList "1".toList], res := .ok }], errHandlers := [] }

def mkReq (id : Nat) (pathOK : Bool) (route : Route) : Req :=
  { id := id, isHead := false, fileWrapper := false, pathOK := pathOK, path := "/x".toList,
    urlRepr := ("'http://h/x" ++ toString id ++ "'").toList, json := false, route := route }

/-- request 1 sets a cookie, a header and a status -/
def cookieReq : HReq :=
  { req := mkReq 1 true (.found { effs := [.setCookie "sid".toList "abc".toList, .setHeader "X-A".toList "1".toList,
                                            .setStatus (.code 201)], res := .returns (.text "ok".toList) }),
    bodyErr := none }

/-- request 2 has an undecodable path -/
def badPathReq : HReq := { req := mkReq 2 false .notFound, bodyErr := none }

/-- request 3 reads an oversized body -/
def bigBodyReq (id : Nat) : HReq :=
  { req := mkReq id true (.found { effs := [], res := .returns (.text "unreached".toList) }),
    bodyErr := some "BodySizeError" }

/-- defect #9 of the design (fixed by caea252) stated on the model: after the cookie-setting
request the 400 for the undecodable path carries neither the cookie nor request 1's URL -/
example :
    let r := (serve exApp (serve₁ exApp AppState.init cookieReq) badPathReq).2
    r.line = "400 Bad Request".toList ∧ r.hdrs.all (fun h => h.1 != "Set-Cookie".toList) = true ∧
    r = (serve exApp AppState.init badPathReq).2 := by decide +kernel

/-- defect #10 (fixed by d7d7db2) stated on the model: five oversized bodies in a row keep one
request alive, not five -/
example : retained ([bigBodyReq 1, bigBodyReq 2, bigBodyReq 3, bigBodyReq 4, bigBodyReq 5].foldl
    (serve₁ exApp) AppState.init) = [5] := by decide +kernel

/-- after d1483c6 a raised mapped error that reaches `_handle` keeps nothing alive: with an
application whose after-hooks do not fail only the request object's environ is retained -/
example : retained ([{ bigBodyReq 1 with bodyErr := some "RequestError" },
    { bigBodyReq 2 with bodyErr := some "BodyParsingError" }, bigBodyReq 3,
    { bigBodyReq 7 with bodyErr := none }].foldl (serve₁ exApp) AppState.init) = [7] := by decide +kernel

/-- an application whose after-hook always raises -/
def failingAfterApp : App := { before := [], after := [{ effs := [], res := .raises }], errHandlers := [] }

/-- the mapped errors are copies: even when the raised copy is replaced on its way (failing
after-hook) the templates keep nothing -/
example : reachesExcept failingAfterApp = false ∧
    retained ([{ bigBodyReq 1 with bodyErr := some "RequestError" },
      { bigBodyReq 2 with bodyErr := some "BodyParsingError" }, bigBodyReq 3,
      { bigBodyReq 7 with bodyErr := none }].foldl (serve₁ failingAfterApp) AppState.init) = [7] := by
  decide +kernel

/-- a handler that raises the application's module-level `HTTPError` number 0 -/
def singletonReq (id : Nat) : HReq :=
  { req := mkReq id true (.found { effs := [], res := .raisesResp (mkError 403 "denied".toList) }),
    bodyErr := none, singleton := some 0 }

/-- hypotheses of `retained_bounded`, first alternative: singletons raised, after-hooks fine -/
example : reachesExcept exApp = true ∧
    retained ([singletonReq 1, singletonReq 2, singletonReq 3].foldl (serve₁ exApp) AppState.init) = [3] := by
  decide +kernel

/-- a handler that sets a cookie and then reads the body of a request whose Content-Length is
not a number (hypothesis of `direct_raise_ignores_errors_map`) -/
def badLengthReq (id : Nat) : HReq :=
  { req := mkReq id true (.found { effs := [.setCookie "own".toList "1".toList], res := .returns (.text "unreached".toList) }),
    bodyErr := some "ValueError", direct := true }

example : (badLengthReq 2).direct = true := rfl

/-- after the cookie-setting request the 500 of the crashing read carries its own cookie only -/
example :
    let st := [cookieReq].foldl (serve₁ exApp) AppState.init
    let o := (serve exApp st (badLengthReq 2)).2
    o.line = "500 Internal Server Error".toList ∧ (o.hdrs.filter (·.1 == "Set-Cookie".toList)).length = 1 := by
  decide +kernel

end NonVacuity

/-- `singleton_residue`: the hypothesis of `retained_bounded` cannot be dropped on the current
code.  `raise SINGLETON` in application code extends the object's traceback; `_handle` resets it
only when the object reaches its `except HTTPResponse` clause.  With an after-hook that raises on
every request the object is replaced on the way, and five such requests keep five requests
alive.  (Nothing the framework can intercept: the raise happens in application code.) -/
theorem singleton_residue :
    reachesExcept failingAfterApp = false ∧
    (retained ([singletonReq 1, singletonReq 2, singletonReq 3, singletonReq 4, singletonReq 5].foldl
      (serve₁ failingAfterApp) AppState.init)).length = 5 := by decide +kernel

end Ombott.History
