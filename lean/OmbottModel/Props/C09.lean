import OmbottModel.Model.History
import OmbottModel.Lemmas.History
import OmbottModel.Lemmas.WsgiCast
import OmbottModel.Lemmas.ReqObjEnv
import OmbottModel.Lemmas.ReqObjRefine
/-!
C09 — Each response depends on its own request only; retained state is bounded.
Property theorems only; helper lemmas live in `Lemmas/History.lean`.  All statements are about
`serve` / `retained` of `Model/History.lean`, the functions the driver runs (`wsgi hist` lines),
for every application (hooks, custom error handlers) and every finite request history.
-/
namespace Ombott.History
open Py Ombott.Wsgi

/-- `response_history_independent`: on a reused worker thread the complete response to a request
(status line, every header and cookie, body — framework error pages included) after **any**
history of earlier requests, whatever their outcomes were (success, cookies / headers / status
set by handlers and hooks, 404 / 405, undecodable path, malformed or oversized body raising the
shared error objects, handler crash), equals the response the same request gets from a fresh
application. -/
theorem response_history_independent (app : App) (hist : List HReq) (r : HReq) :
    (serve app (hist.foldl (serve₁ app) AppState.init) r).2 = (serve app AppState.init r).2 := by
  have hcore := foldl_core app hist AppState.init
  unfold serve
  simp only
  rw [resolve_core _ _ r hcore]
  rw [wsgi_slots_irrelevant app (hist.foldl (serve₁ app) AppState.init).slots AppState.init.slots]
  rw [withProbe_slots_irrelevant (hist.foldl (serve₁ app) AppState.init).slots AppState.init.slots]

/-- … and from any starting state: in particular for an application configured with its own
`errors_map` (`AppState.initWith`), long-lived error objects with any text included -/
theorem response_history_independent_from (app : App) (st0 : AppState) (hist : List HReq) (r : HReq) :
    (serve app (hist.foldl (serve₁ app) st0) r).2 = (serve app st0 r).2 := by
  have hcore := foldl_core app hist st0
  unfold serve
  simp only
  rw [resolve_core _ _ r hcore]
  rw [wsgi_slots_irrelevant app (hist.foldl (serve₁ app) st0).slots st0.slots]
  rw [withProbe_slots_irrelevant (hist.foldl (serve₁ app) st0).slots st0.slots]

/-- the entries of `errors_map` are templates: what `_raise` raises — and what error handlers are
handed, may annotate, what gets a traceback — is a per-request copy, so after any history, from
any starting configuration, the shared objects are exactly what they were (status, headers,
cookies, body and traceback), whatever handlers and error handlers did -/
theorem shared_errors_unchanged (app : App) (st0 : AppState) (hist : List HReq) :
    (hist.foldl (serve₁ app) st0).shared = st0.shared :=
  foldl_shared app hist st0

/-- `class_level_state_accounted`: the complete list of class-level and module-level mutable
containers (dict / list / set valued) of the package, as extracted from the live modules — the
only places besides the per-thread request / response objects where something could outlive a
request.  Each is accounted for:
* `DefaultConfig.errors_map` — the shared `HTTPError` objects: modelled (`AppState.shared`:
  status, headers, cookies, body, traceback chain; `shared_errors_unchanged`, `retained_bounded`);
* `error_render._html_lns` — filled on first use with the stripped lines of `error.html`
  (`Gen.wsgiErrorPage` is that content), the same for every request;
* `FilterFactory._filter_cache`, `FilterFactory.filters`, `Parser.param_delimiters_map`,
  `server_adapters.*` — written when rules / servers are set up, not while serving;
* `bad_headers` (`Gen.wsgiBadHeaders`), `_HTTP_STATUS_LINES` / `HTTP_CODES`
  (`Gen.wsgiStatusLines`), `__hook_reversed` (`Gen.wsgiHookReversed`), `HTTP_METHODS`,
  `cgikeys`, `_as_mixins`, `domain_map`, `RequestConfig.errors_map` — constants only read.
The harness checks behaviourally (in a pristine process) that serving requests leaves every one
of them unchanged.  A container added to (or removed from) the source makes this theorem fail and
re-opens the obligation. -/
theorem class_level_state_accounted :
    Gen.wsgiClassMutables =
      ["ombott.error_render:_html_lns:list",
       "ombott.ombott:DefaultConfig.domain_map:dict",
       "ombott.ombott:DefaultConfig.errors_map:dict",
       "ombott.ombott:HTTP_METHODS:list",
       "ombott.ombott:Ombott._Ombott__hook_reversed:set",
       "ombott.request_pkg.helpers:WSGIHeaderDict.cgikeys:set",
       "ombott.request_pkg.request:Request._as_mixins:list",
       "ombott.request_pkg.request:RequestConfig.errors_map:dict",
       "ombott.response:BaseResponse.bad_headers:dict",
       "ombott.response:HTTP_CODES:dict",
       "ombott.response:_HTTP_STATUS_LINES:dict",
       "ombott.router.filter_factory:FilterFactory._filter_cache:dict",
       "ombott.router.filter_factory:FilterFactory.filters:dict",
       "ombott.router.parser:Parser.param_delimiters_map:dict",
       "ombott.server_adapters:AutoServer.adapters:list",
       "ombott.server_adapters:server_names:dict"] := by decide

/-- the number of shared error objects, from the extracted `errors_map` -/
theorem shared_count : sharedInit.length = 3 := by decide

/-- the templates of `errors_map` never reference a request -/
theorem initWith_tb (m : List (String × Nat × Str × Str)) : (AppState.initWith m).shared.flatMap (·.tb) = [] := by
  unfold AppState.initWith
  induction m with
  | nil => rfl
  | cons x xs ih => simpa [List.flatMap_cons] using ih

theorem init_tb : AppState.init.shared.flatMap (·.tb) = [] := by decide

/-- the retention bound from any starting state whose shared templates and application
singletons reference no request -/
theorem retained_bounded_from (app : App) (st0 : AppState) (hist : List HReq)
    (h0 : st0.shared.flatMap (·.tb) = []) (h1 : AppTbEmpty st0.appTb)
    (hc : reachesExcept app = true ∨ ∀ hr ∈ hist, hr.singleton = none) :
    (retained (hist.foldl (serve₁ app) st0)).length ≤ 1 := by
  have happ := flatMap_empty _ (foldl_appTb app hist st0 h1 hc)
  unfold retained
  refine Nat.le_trans (dedup_length_le _) ?_
  rw [happ, foldl_shared, h0]
  simp only [List.append_nil]
  cases (hist.foldl (serve₁ app) st0).slots.req with
  | none => simp
  | some q => simp

/-- `retained_bounded`: after serving any history — in particular N failing requests of any
kind — at most ONE request has per-request objects (environ, input stream) reachable from the
application: the one the reused request object points at.  The mapped errors of `errors_map`
are raised as per-request copies and never hold a traceback; `_handle` drops the traceback of a
raised response that reaches its `except HTTPResponse` clause.  The bound is a numeral,
independent of the history.  Hypothesis: raised responses reach that clause (no after-hook
fails), or the application raises no module-level response object of its own — see
`singleton_residue`. -/
theorem retained_bounded (app : App) (hist : List HReq)
    (hc : reachesExcept app = true ∨ ∀ hr ∈ hist, hr.singleton = none) :
    (retained (hist.foldl (serve₁ app) AppState.init)).length ≤ 1 :=
  retained_bounded_from app AppState.init hist init_tb (fun p hp => by cases hp) hc

/-- … and for an application with its own `errors_map` -/
theorem retained_bounded_with (app : App) (m : List (String × Nat × Str × Str)) (hist : List HReq)
    (hc : reachesExcept app = true ∨ ∀ hr ∈ hist, hr.singleton = none) :
    (retained (hist.foldl (serve₁ app) (AppState.initWith m))).length ≤ 1 :=
  retained_bounded_from app (AppState.initWith m) hist (initWith_tb m) (fun p hp => by cases hp) hc

/-- `retained_bounded` in the form "there is a constant" -/
theorem retained_bounded_exists :
    ∃ K : Nat, ∀ (app : App) (hist : List HReq),
      (reachesExcept app = true ∨ ∀ hr ∈ hist, hr.singleton = none) →
      (retained (hist.foldl (serve₁ app) AppState.init)).length ≤ K :=
  ⟨1, retained_bounded⟩

/-- the one environ the request object keeps is the last request's -/
theorem request_slot_is_last (app : App) (st : AppState) (r : HReq) :
    ((serve app st r).1.slots.req).map (fun q => (q.id, q.urlRepr, q.json)) =
      some (r.req.id, r.req.urlRepr, r.req.json) := by
  have hreq : (resolve st.shared r).1.id = r.req.id ∧ (resolve st.shared r).1.urlRepr = r.req.urlRepr ∧
      (resolve st.shared r).1.json = r.req.json := by
    unfold resolve
    split
    · split <;> exact ⟨rfl, rfl, rfl⟩
    · exact ⟨rfl, rfl, rfl⟩
  have hp := withProbe_ids st.slots r (resolve st.shared r).1
  have hw := wsgi_req app st.slots (withProbe st.slots r (resolve st.shared r).1)
  rw [hp.1, hp.2.1, hp.2.2, hreq.1, hreq.2.1, hreq.2.2] at hw
  unfold serve
  simp only
  cases r.ext with
  | none => simp only [hw, Option.map_some]
  | some sets =>
    simp only [hw]
    split <;> simp only [hw, Option.map_some]

/-- `direct_raise_ignores_errors_map`: an exception the framework code raises itself while the
handler reads the request (`int()` of a `Content-Length` that is not a number: a plain `ValueError`,
not routed through `BaseRequest._raise`) consults no `errors_map` entry: the complete response is
the same whatever the shared error objects are (and, by `response_history_independent_from`,
whatever was served before). -/
theorem direct_raise_ignores_errors_map (app : App) (st : AppState) (sh : List SharedErr) (r : HReq)
    (h : r.direct = true) :
    (serve app { st with shared := sh } r).2 = (serve app st r).2 := by
  have hres : ∀ l, (resolve l r).1 = (resolve [] r).1 := by
    intro l
    unfold resolve
    simp only [h, if_true]
  unfold serve
  simp only
  rw [hres sh, hres st.shared]

/-! ### NonVacuity: concrete histories -/
section NonVacuity

def exApp : App :=
  { before := [], after := [{ effs := [.setHeader "X-After".toList "1".toList], res := .ok }], errHandlers := [] }

def mkReq (id : Nat) (pathOK : Bool) (route : Route) : Req :=
  { id := id, isHead := false, fileWrapper := false, pathOK := pathOK, path := "/x".toList,
    urlRepr := ("'http://h/x" ++ toString id ++ "'").toList, json := false, route := route }

/-- request 1 sets a cookie, a header and a status -/
def cookieReq : HReq :=
  { req := mkReq 1 true (.found { effs := [.setCookie "sid".toList "abc".toList, .setHeader "X-A".toList "1".toList,
                                            .setStatus (.code 201)], res := .returns (.text "ok".toList) }),
    bodyErr := none }

/-- request 2 has an undecodable path -/
def badPathReq : HReq := { req := mkReq 2 false .notFound, bodyErr := none }

/-- request 3 reads an oversized body -/
def bigBodyReq (id : Nat) : HReq :=
  { req := mkReq id true (.found { effs := [], res := .returns (.text "unreached".toList) }),
    bodyErr := some "BodySizeError" }

/-- defect #9 of the design (fixed by caea252) stated on the model: after the cookie-setting
request the 400 for the undecodable path carries neither the cookie nor request 1's URL -/
example :
    let r := (serve exApp (serve₁ exApp AppState.init cookieReq) badPathReq).2
    r.line = "400 Bad Request".toList ∧ r.hdrs.all (fun h => h.1 != "Set-Cookie".toList) = true ∧
    r = (serve exApp AppState.init badPathReq).2 := by decide +kernel

/-- defect #10 (fixed by d7d7db2) stated on the model: five oversized bodies in a row keep one
request alive, not five -/
example : retained ([bigBodyReq 1, bigBodyReq 2, bigBodyReq 3, bigBodyReq 4, bigBodyReq 5].foldl
    (serve₁ exApp) AppState.init) = [5] := by decide +kernel

/-- after d1483c6 a raised mapped error that reaches `_handle` keeps nothing alive: with an
application whose after-hooks do not fail only the request object's environ is retained -/
example : retained ([{ bigBodyReq 1 with bodyErr := some "RequestError" },
    { bigBodyReq 2 with bodyErr := some "BodyParsingError" }, bigBodyReq 3,
    { bigBodyReq 7 with bodyErr := none }].foldl (serve₁ exApp) AppState.init) = [7] := by decide +kernel

/-- an application whose after-hook always raises -/
def failingAfterApp : App := { before := [], after := [{ effs := [], res := .raises }], errHandlers := [] }

/-- the mapped errors are copies: even when the raised copy is replaced on its way (failing
after-hook) the templates keep nothing -/
example : reachesExcept failingAfterApp = false ∧
    retained ([{ bigBodyReq 1 with bodyErr := some "RequestError" },
      { bigBodyReq 2 with bodyErr := some "BodyParsingError" }, bigBodyReq 3,
      { bigBodyReq 7 with bodyErr := none }].foldl (serve₁ failingAfterApp) AppState.init) = [7] := by
  decide +kernel

/-- a handler that raises the application's module-level `HTTPError` number 0 -/
def singletonReq (id : Nat) : HReq :=
  { req := mkReq id true (.found { effs := [], res := .raisesResp (mkError 403 "denied".toList) }),
    bodyErr := none, singleton := some 0 }

/-- hypotheses of `retained_bounded`, first alternative: singletons raised, after-hooks fine -/
example : reachesExcept exApp = true ∧
    retained ([singletonReq 1, singletonReq 2, singletonReq 3].foldl (serve₁ exApp) AppState.init) = [3] := by
  decide +kernel

/-- a handler that sets a cookie and then reads the body of a request whose Content-Length is
not a number (hypothesis of `direct_raise_ignores_errors_map`) -/
def badLengthReq (id : Nat) : HReq :=
  { req := mkReq id true (.found { effs := [.setCookie "own".toList "1".toList], res := .returns (.text "unreached".toList) }),
    bodyErr := some "ValueError", direct := true }

example : (badLengthReq 2).direct = true := rfl

/-- after the cookie-setting request the 500 of the crashing read carries its own cookie only -/
example :
    let st := [cookieReq].foldl (serve₁ exApp) AppState.init
    let o := (serve exApp st (badLengthReq 2)).2
    o.line = "500 Internal Server Error".toList ∧ (o.hdrs.filter (·.1 == "Set-Cookie".toList)).length = 1 := by
  decide +kernel

end NonVacuity

/-- `singleton_residue`: the hypothesis of `retained_bounded` cannot be dropped on the current
code.  `raise SINGLETON` in application code extends the object's traceback; `_handle` resets it
only when the object reaches its `except HTTPResponse` clause.  With an after-hook that raises on
every request the object is replaced on the way, and five such requests keep five requests
alive.  (Nothing the framework can intercept: the raise happens in application code.) -/
theorem singleton_residue :
    reachesExcept failingAfterApp = false ∧
    (retained ([singletonReq 1, singletonReq 2, singletonReq 3, singletonReq 4, singletonReq 5].foldl
      (serve₁ failingAfterApp) AppState.init)).length = 5 := by decide +kernel

end Ombott.History


/-! ═══════════════════════════════════════════════════════════════════════════════════════════════
## The request OBJECT protocol (`Model/ReqObj.lean`; extension `reqobj`)

What the reused `Request` object is made of and what each entry point does to it, for all inputs and
operation sequences.  Statements are about `step` / `run` / `setItem` / `delItem` / `getAttr` /
`setAttr` / `initReq` / `copyReq` / `copyError` of `Model/ReqObj.lean`, the functions the driver
runs for `reqobj` lines.
═══════════════════════════════════════════════════════════════════════════════════════════════ -/
namespace Ombott.ReqObj
open Py
open Ombott.EnvCache (Key Val todelete)

/-- the generated constants agree with each other and with the `ts_props` table of C08: the slots
are the per-thread ones followed by the ordinary ones, and the per-thread ones are exactly the
attributes `ts_props` was applied with (`environ`, `_env_get`) -/
theorem reqobj_tables_tied :
    Gen.roThreadLocal = Gen.tsRequestProps ∧ Gen.roSlots = Gen.roThreadLocal ++ Gen.roPlainSlots ∧
    Gen.roInitialListeners = [(Gen.roEvent, 1)] ∧ Gen.roReadonlyRaises = "KeyError" ∧
    Gen.roDelMissingRaises = none ∧ Gen.roCopyKeepsListeners = false ∧ Gen.roCopySelfKeyIsCopy = true := by decide

/-- only `environ` (with `_env_get`) is per thread: what thread `t` assigns is invisible to every
other thread, and `__listeners__` / `config` are one value for all threads -/
theorem reqobj_only_environ_thread_local (r : Req) (t t' : Nat) (e : REnv) (h : t' ≠ t) :
    (r.setEnv t e).env t' = r.env t' ∧ (r.setEnv t e).listeners = r.listeners ∧
    (r.setEnv t e).config = r.config := ⟨setEnv_env_other r t t' e h, rfl, rfl⟩

/-- `request.__init__(environ')` (what `Ombott._handle` does per request): afterwards thread `t`
sees exactly `environ'` plus the self entry — whatever the object held before — and the only things
carried over are `__listeners__`, `config` and the other threads' environs -/
theorem reqobj_init_forgets (r : Req) (t i : Nat) (environ : Option REnv) :
    (initReq r t i environ).env t = some ((environ.getD []).set kSelf (.req i)) ∧
    (initReq r t i environ).listeners = r.listeners ∧ (initReq r t i environ).config = r.config ∧
    ∀ t', t' ≠ t → (initReq r t i environ).env t' = r.env t' :=
  ⟨setEnv_env_same _ _ _, rfl, rfl, fun t' h => setEnv_env_other r t t' _ h⟩

/-- **C09 for the request object, completeness of the residue**: two request objects with the same
`__listeners__` and `config` — e.g. the object after ANY history of earlier requests and a freshly
built one with the same listeners — answer every read of thread `t` identically once
`__init__(environ')` has run: `get`, `keys`, `__iter__`, `__len__`, `__getitem__`, and every
attribute (slots, extension attributes, descriptor values).  So no extension attribute, cached
property or environ key of request n is readable in request n+1; `__listeners__` and `config` are
the complete list of what is. -/
theorem reqobj_reinit_complete (r1 r2 : Req) (t i : Nat) (environ : Option REnv)
    (hl : r1.listeners = r2.listeners) (hc : r1.config = r2.config) :
    let a := initReq r1 t i environ
    let b := initReq r2 t i environ
    (∀ k d, getR a t k d = getR b t k d) ∧ (∀ it, keysR a t it = keysR b t it) ∧ lenR a t = lenR b t ∧
    (∀ k, getItemR a t k = getItemR b t k) ∧ (∀ name, getAttr a t i name = getAttr b t i name) := by
  have ha := (reqobj_init_forgets r1 t i environ).1
  have hb := (reqobj_init_forgets r2 t i environ).1
  refine ⟨fun k d => by simp only [getR, ha, hb], fun it => by simp only [keysR, ha, hb],
    by simp only [lenR, ha, hb], fun k => by simp only [getItemR, ha, hb], fun name => ?_⟩
  simp only [getAttr, ha, hb]
  have h1 : (initReq r1 t i environ).listeners = (initReq r2 t i environ).listeners := hl
  have h2 : (initReq r1 t i environ).config = (initReq r2 t i environ).config := hc
  rw [h1, h2]

/-- an extension attribute of the earlier request is `AttributeError` after `__init__` with an
environ that does not carry its key -/
theorem reqobj_ext_gone_after_init (r : Req) (t i : Nat) (env' : REnv) (name : Str)
    (hs : Gen.roSlots.contains (String.ofList name) = false) (hk : env'.get? (extKey name) = none)
    (hself : extKey name ≠ kSelf) :
    getAttr (initReq r t i (some env')) t i name = .error .attributeError := by
  simp only [getAttr, hs, (reqobj_init_forgets r t i (some env')).1, Option.getD_some,
    get?_set_other env' kSelf (extKey name) (.req i) hself, hk]
  rfl

/-- extension attributes: `request.name = v` then `request.name` returns `v` (a value with `__get__`
answers `__get__(request)`); the value lives in the environ under `ombott.request.ext.<name>` — and
is written there even when the read-only flag is set -/
theorem reqobj_setattr_getattr (r r' : Req) (t i : Nat) (name : Str) (v : RVal)
    (h : setAttr r t name v = some (.ok r')) :
    getAttr r' t i name = .ok (match v with | .desc tag => .got tag i | v => .val v) ∧
    ∃ env, r.env t = some env ∧ r'.env t = some (env.set (extKey name) v) := by
  unfold setAttr at h
  split at h
  · cases h
  · rename_i hs
    cases he : r.env t with
    | none => rw [he] at h; cases h
    | some env =>
      rw [he] at h
      simp only [Option.some.injEq, Except.ok.injEq] at h
      subst h
      refine ⟨?_, env, rfl, setEnv_env_same _ _ _⟩
      simp only [getAttr, hs, setEnv_env_same, get?_set_same]
      cases v <;> rfl

/-- read-only flag: while `ombott.request.readonly` is truthy, NO sequence of item assignments and
deletions changes anything — every one of them raises `KeyError` and the world (every environ,
listener list, the log) stays as it was.  (`__setattr__` of an extension attribute is not covered:
it writes the environ directly, see `reqobj_setattr_getattr` and the example below.) -/
theorem reqobj_readonly_frozen (w : World) (t i : Nat) (r : Req) (env : REnv)
    (hr : w.reqs[i]? = some r) (he : r.env t = some env) (hro : truthy w t (env.get? kReadonly) = .ok true)
    (ops : List Op) (hops : ∀ op ∈ ops, (∃ k v, op = .setItem t i k v) ∨ (∃ k, op = .delItem t i k)) :
    run w ops = (w, ops.map fun _ => Ans.err .keyError) := by
  induction ops with
  | nil => rfl
  | cons op rest ih =>
    have hrest := ih (fun o ho => hops o (List.mem_cons_of_mem _ ho))
    rcases hops op (List.mem_cons_self ..) with ⟨k, v, rfl⟩ | ⟨k, rfl⟩
    · simp only [run, step, setItem_readonly w t i k v r env hr he hro, hrest, List.map_cons]
    · simp only [run, step, delItem_readonly w t i k r env hr he hro, hrest, List.map_cons]

/-- `del request[k]` on an object with the built-in listener and one recording listener, flag not
set, `k` not among the cache keys its own assignment drops: the listeners are called exactly once
with `(k, "")` — unless the value already was `""`, then not at all — the caches depending on `k`
are dropped, and the key is absent afterwards.  No `KeyError` for a missing key: it is assigned
`""` first (so the listeners fire for it as well). -/
theorem reqobj_delitem (w : World) (t i n : Nat) (k : Key) (r : Req) (env : REnv)
    (hr : w.reqs[i]? = some r) (he : r.env t = some env)
    (hl : r.listeners.get? evChanged = some [.builtin, .recd n])
    (hro : truthy w t (env.get? kReadonly) = .ok false) (hk : k ∉ todelete k) :
    delItem w t i k =
      if unchanged env k (.plain (.str [])) then (.ok (), w.setReq i (r.setEnv t (env.del k)))
      else (.ok (), { w.setReq i (r.setEnv t ((onEnvChanged (env.set k (.plain (.str []))) k).del k)) with
                      log := w.log ++ [⟨n, i, [.plain (.str k), .plain (.str [])]⟩] }) := by
  unfold delItem
  by_cases hu : unchanged env k (.plain (.str [])) = true
  · have hs : setItem w t i k (.plain (.str [])) = (.ok (), w) := by
      unfold setItem; simp only [hr, he, hro, hu, if_true]
    have hp : (env.get? k).isSome = true := by
      unfold unchanged at hu
      cases hg : env.get? k with
      | none => rw [hg] at hu; cases hu
      | some _ => rfl
    simp only [hs, hr, he, hp, hu, if_true]
  · have hu' : unchanged env k (.plain (.str [])) = false := by simpa using hu
    rw [setItem_recorded w t i n k _ r env hr he hl hro hu']
    have hget : (w.setReq i (r.setEnv t (onEnvChanged (env.set k (.plain (.str []))) k))).reqs[i]? =
        some (r.setEnv t (onEnvChanged (env.set k (.plain (.str []))) k)) := setReq_get w i _ r hr
    have hp : ((onEnvChanged (env.set k (.plain (.str []))) k).get? k).isSome = true := by
      unfold onEnvChanged
      rw [get?_foldl_del_other _ _ _ hk, get?_set_same]; rfl
    simp only [hget, setEnv_env_same, hp, hu', if_true, Bool.false_eq_true, if_false]
    simp [World.setReq]

/-- afterwards the key is absent -/
theorem reqobj_delitem_absent (env : REnv) (k : Key) (e : REnv) : ((e.del k).get? k) = none ∧
    ((onEnvChanged (env.set k (.plain (.str []))) k).del k).get? k = none :=
  ⟨get?_del_same _ _, get?_del_same _ _⟩

/-- **agreement with the cache-layer model** (`EnvCache.setItem`, what `Props/EnvCache.lean` is
about): on an environ of plain values, with the listeners of a fresh object and the flag not set,
`request[k] = s` leaves thread `t` with exactly `EnvCache.setItem e k s` -/
theorem reqobj_setitem_agrees_envcache (w : World) (t i : Nat) (k : Key) (s : Str) (r : Req)
    (e : Ombott.EnvCache.Env) (hr : w.reqs[i]? = some r) (he : r.env t = some (embed e))
    (hl : r.listeners.get? evChanged = some [.builtin])
    (hro : truthy w t ((embed e).get? kReadonly) = .ok false) :
    (setItem w t i k (.plain (.str s))).1 = .ok () ∧
    ∃ r', (setItem w t i k (.plain (.str s))).2.reqs[i]? = some r' ∧
      r'.env t = some (embed (Ombott.EnvCache.setItem e k (.str s))) ∧
      r'.listeners = r.listeners ∧ r'.config = r.config := by
  have hun : unchanged (embed e) k (.plain (.str s)) = decide (e.get? k = some (.str s)) := by
    unfold unchanged
    rw [embed_get?]
    cases hg : e.get? k with
    | none => simp
    | some x =>
      have : pyEq (.plain x) (.plain (.str s)) = decide (x = .str s) := by
        by_cases hx : x = .str s
        · subst hx; simp [pyEq]
        · have h1 : ((RVal.plain x) == (RVal.plain (.str s))) = false := by
            rw [beq_eq_false_iff_ne]; intro h; exact hx (RVal.plain.inj h)
          simp only [pyEq, h1, Bool.false_or, eqInt]
          cases eqInt x <;> simp [hx]
      simp [this]
  by_cases hc : e.get? k = some (.str s)
  · have hs : setItem w t i k (.plain (.str s)) = (.ok (), w) := by
      unfold setItem; simp only [hr, he, hro, hun, hc, decide_true, if_true]
    rw [hs]
    exact ⟨rfl, r, hr, by simp [Ombott.EnvCache.setItem, hc, he], rfl, rfl⟩
  · have hu : unchanged (embed e) k (.plain (.str s)) = false := by rw [hun]; simpa using hc
    rw [setItem_fresh w t i k _ r (embed e) hr he hl hro hu]
    refine ⟨rfl, _, setReq_get w i _ r hr, ?_, rfl, rfl⟩
    simp [Ombott.EnvCache.setItem, hc, embed_set, embed_onEnvChanged]

/-- **a listener registered with `on` is per object, not per request and not per thread**: after
`on('env_changed', cb)` in some request, ANY later `request.__init__(environ')` on ANY thread keeps
it, and the next changing assignment there calls it.  (Documented residue of C09: application code
can install a persistent listener — configuration in the sense of `add_hook`.) -/
theorem reqobj_listener_survives_init (w : World) (t' i n : Nat) (r : Req) (environ : Option REnv)
    (k : Key) (v : RVal)
    (hi : i < w.reqs.length) (hl : r.listeners.get? evChanged = some [.builtin, .recd n])
    (hflag : ((environ.getD []).set kSelf (.req i)).get? kReadonly = none)
    (hne : unchanged ((environ.getD []).set kSelf (.req i)) k v = false) :
    let w1 := w.setReq i (initReq r t' i environ)
    (setItem w1 t' i k v).1 = .ok () ∧ (setItem w1 t' i k v).2.log = w.log ++ [⟨n, i, [.plain (.str k), v]⟩] := by
  intro w1
  have hr : w1.reqs[i]? = some (initReq r t' i environ) := by
    simp [w1, World.setReq, List.getElem?_set_self hi]
  have he := (reqobj_init_forgets r t' i environ).1
  rw [setItem_recorded w1 t' i n k v _ _ hr he hl (by rw [hflag]; rfl) hne]
  exact ⟨rfl, rfl⟩

theorem getFrom_idem (s : Option (List (String × String))) : getFrom (some (getFrom s)) = getFrom s := by
  simp [getFrom, Gen.roConfigDefaults, lookupS, List.find?]

/-- `copy()`: the new object has the listeners of `__new__` only (those of the original are NOT
copied), the same configuration, and in the copying thread a new environ with the same entries
(the same value objects: a shallow copy) whose `ombott.request` entry is the copy itself; the
original is not touched -/
theorem reqobj_copy (r c : Req) (t new : Nat) (cfg : Option (List (String × String)))
    (hcfg : r.config = getFrom cfg) (h : copyReq r t new = .ok c) :
    ∃ env, r.env t = some env ∧ c.env t = some (env.set kSelf (.req new)) ∧
      c.listeners = (newReq none).listeners ∧ c.config = r.config ∧ ∀ t', t' ≠ t → c.env t' = none := by
  unfold copyReq at h
  cases he : r.env t with
  | none => rw [he] at h; cases h
  | some env =>
    rw [he] at h
    simp only [Except.ok.injEq] at h
    subst h
    refine ⟨env, rfl, (reqobj_init_forgets _ t new (some env)).1, rfl, ?_, fun t' ht => ?_⟩
    · show getFrom (some r.config) = r.config
      rw [hcfg, getFrom_idem]
    · rw [(reqobj_init_forgets _ t new (some env)).2.2.2 t' ht]; rfl

/-- **refinement of the mapping protocol**: for EVERY sequence of `get` / `keys` / `__iter__` /
`__len__` / `__getitem__` / `__setitem__` / `__delitem__` operations of a thread on a request object
with the listeners of a fresh object and the read-only flag absent, the answers and the environ are
those of the abstract machine `specRun`: an insertion-ordered finite map `Key → value` whose
assignment (`specSet`) additionally removes exactly the cache keys `_on_env_changed` lists for the
key — and nothing at all when the key already holds an equal value —, and whose deletion of a
missing key does not raise.  Listeners and configuration are untouched.  (`MOp.safe`: the flag is
not assigned — `reqobj_readonly_frozen` covers that regime — and a deleted key is not one of the
cache keys its own assignment drops.) -/
theorem reqobj_refines_map (ops : List MOp) (w : World) (t i : Nat) (r : Req) (env : REnv)
    (hr : w.reqs[i]? = some r) (he : r.env t = some env)
    (hl : r.listeners.get? evChanged = some [.builtin])
    (hflag : env.get? kReadonly = none) (hs : ∀ op ∈ ops, op.safe = true) :
    ∃ r', (run w (ops.map (MOp.toOp t i))).1.reqs[i]? = some r' ∧ r'.env t = some (specRun env ops).1 ∧
      r'.listeners = r.listeners ∧ r'.config = r.config ∧
      (run w (ops.map (MOp.toOp t i))).2 = (specRun env ops).2 :=
  run_refines ops w t i r env hr he hl hflag hs

theorem copyHeaders_prefix (h : List (Str × HRef)) : ∀ ls, ∃ x, (copyHeaders h ls).2 = ls ++ x := by
  induction h with
  | nil => intro ls; exact ⟨[], by simp [copyHeaders]⟩
  | cons p r ih =>
    intro ls
    obtain ⟨k, v⟩ := p
    cases v with
    | one s => obtain ⟨x, hx⟩ := ih ls; exact ⟨x, by simp [copyHeaders, hx]⟩
    | ref id =>
      obtain ⟨x, hx⟩ := ih (ls ++ [ls.getD id []])
      refine ⟨[ls.getD id []] ++ x, ?_⟩
      simp only [copyHeaders, hx, List.append_assoc]

/-- `_copy_error` only ALLOCATES: the raised object is a new one with the template's class, status
code, status line and body; every existing object, header list and cookie jar — in particular the
template's — is left exactly as it was, and the copy's list-valued headers and cookie jar are new
objects (indices beyond the old heaps), so that appending to a header list or setting a cookie on
the copy cannot reach the template. -/
theorem reqobj_copy_error_allocates (w w' : EWorld) (i c : Nat) (h : copyError w i = .ok (w', c)) :
    c = w.objs.length ∧ (∃ x, w'.lists = w.lists ++ x) ∧ (∃ y, w'.jars = w.jars ++ y) ∧
    ∃ tpl o, w.objs[i]? = some tpl ∧ w'.objs = w.objs ++ [o] ∧ o.cls = tpl.cls ∧ o.code = tpl.code ∧
      o.line = tpl.line ∧ o.body = tpl.body ∧ (∀ j, o.cookies = some j → w.jars.length ≤ j) := by
  unfold copyError at h
  cases ht : w.objs[i]? with
  | none => rw [ht] at h; cases h
  | some tpl =>
    rw [ht] at h
    obtain ⟨x, hx⟩ := copyHeaders_prefix tpl.headers w.lists
    simp only at h
    split at h
    · simp only [Except.ok.injEq, Prod.mk.injEq] at h
      obtain ⟨rfl, rfl⟩ := h
      exact ⟨rfl, ⟨x, hx⟩, ⟨[], by simp⟩, tpl, _, rfl, rfl, rfl, rfl, rfl, rfl, by intro j hj; cases hj⟩
    · split at h
      · cases h
      · simp only [Except.ok.injEq, Prod.mk.injEq] at h
        obtain ⟨rfl, rfl⟩ := h
        exact ⟨rfl, ⟨x, hx⟩, ⟨_, rfl⟩, tpl, _, rfl, rfl, rfl, rfl, rfl, rfl,
          by intro j hj; simp only [Option.some.injEq] at hj; omega⟩

section NonVacuityReqObj

local instance : DecidableEq (Except Err Bool) := fun a b =>
  match a, b with
  | .ok x, .ok y => if h : x = y then isTrue (by rw [h]) else isFalse (by intro h'; cases h'; exact h rfl)
  | .error x, .error y => if h : x = y then isTrue (by rw [h]) else isFalse (by intro h'; cases h'; exact h rfl)
  | .ok _, .error _ => isFalse (by intro h; cases h)
  | .error _, .ok _ => isFalse (by intro h; cases h)

def exW : World :=
  (run (World.init [[]]) [.new 0 (some [(cs!"QUERY_STRING", .plain (.str cs!"a=1")), (cs!"E", .plain (.str []))]) none,
    .on 0 evChanged (.recd 7)]).1

/-- `reqobj_delitem`, `reqobj_listener_survives_init`: hypotheses met by a concrete object (built-in
+ one recording listener); a present key, a key holding `""`, a missing key -/
example : ∃ r env, exW.reqs[0]? = some r ∧ r.env 0 = some env ∧
    r.listeners.get? evChanged = some [.builtin, .recd 7] ∧ truthy exW 0 (env.get? kReadonly) = .ok false ∧
    cs!"QUERY_STRING" ∉ todelete cs!"QUERY_STRING" := by
  refine ⟨_, _, rfl, rfl, ?_, ?_, ?_⟩ <;> decide +kernel
example : (run exW [.delItem 0 0 cs!"QUERY_STRING", .delItem 0 0 cs!"E", .delItem 0 0 cs!"missing", .keys 0 0]).2 =
    [.unit, .unit, .unit, .keys [kSelf]] := by decide +kernel
example : (run exW [.delItem 0 0 cs!"QUERY_STRING", .delItem 0 0 cs!"E", .delItem 0 0 cs!"missing"]).1.log =
    [⟨7, 0, [.plain (.str cs!"QUERY_STRING"), .plain (.str [])]⟩, ⟨7, 0, [.plain (.str cs!"missing"), .plain (.str [])]⟩] := by
  decide +kernel

/-- the listener installed during request 1 on thread 0 is called during request 2 on thread 1 -/
example : (run exW [.init 1 0 (some [(cs!"PATH_INFO", .plain (.str cs!"/two"))]),
    .setItem 1 0 cs!"X" (.plain (.str cs!"1"))]).1.log = [⟨7, 0, [.plain (.str cs!"X"), .plain (.str cs!"1")]⟩] := by
  decide +kernel

/-- `reqobj_readonly_frozen`: flag set through the environ; and the one way around it -/
def exRO : World := (run (World.init []) [.new 0 (some [(kReadonly, .plain (.bool true)), (cs!"a", .plain (.str cs!"1"))]) none]).1
example : ∃ r env, exRO.reqs[0]? = some r ∧ r.env 0 = some env ∧ truthy exRO 0 (env.get? kReadonly) = .ok true :=
  ⟨_, _, rfl, rfl, by decide +kernel⟩
example : (run exRO [.setItem 0 0 cs!"a" (.plain (.str cs!"2")), .delItem 0 0 cs!"a", .setAttr 0 0 cs!"user" (.plain (.str cs!"u")),
    .getAttr 0 0 cs!"user", .getItem 0 0 cs!"a"]).2 =
    [.err .keyError, .err .keyError, .unit, .attr (.val (.plain (.str cs!"u"))), .val (some (.plain (.str cs!"1")))] := by
  decide +kernel

/-- `reqobj_setattr_getattr`, `reqobj_ext_gone_after_init`, `reqobj_copy`: a descriptor value, then a new request -/
example : (run exW [.setAttr 0 0 cs!"user" (.desc cs!"t"), .getAttr 0 0 cs!"user", .copy 0 0,
    .getItem 0 1 kSelf, .getItem 0 0 kSelf, .getAttr 0 1 cs!"__listeners__", .getAttr 0 1 cs!"user",
    .init 0 0 (some []), .getAttr 0 0 cs!"user", .getAttr 0 1 cs!"user"]).2 =
    [.unit, .attr (.got cs!"t" 0), .created 1, .val (some (.req 1)), .val (some (.req 0)),
     .attr (.listeners [(evChanged, [.builtin])]), .attr (.got cs!"t" 1), .unit, .err .attributeError,
     .attr (.got cs!"t" 1)] := by decide +kernel
example : Gen.roSlots.contains (String.ofList cs!"user") = false ∧ extKey cs!"user" ≠ kSelf := by decide

/-- shallow copy: a mutable VALUE is shared between the original and the copy -/
example : (run exW [.setItem 0 0 cs!"shared" (.cell 0), .copy 0 0, .getItem 0 1 cs!"shared", .push 0 cs!"x", .cell 0]).2 =
    [.unit, .created 1, .val (some (.cell 0)), .unit, .strs [cs!"x"]] := by decide +kernel

/-- `reqobj_setitem_agrees_envcache`: a fresh object on a plain environ (the self entry aside) -/
example : (EnvCache.setItem [(cs!"QUERY_STRING", .str cs!"a=1"), (cs!"ombott.request.query", .dict [])] cs!"QUERY_STRING" (.str cs!"b")) =
    [(cs!"QUERY_STRING", .str cs!"b")] := by decide +kernel

/-- a listener that removes itself makes `emit` skip the next one; one that adds another has the new
one called in the same `emit` -/
example : (run (World.init []) [.new 0 none none, .on 0 cs!"e" (.once cs!"e" 1), .on 0 cs!"e" (.recd 2),
    .on 0 cs!"e" (.adder cs!"e" 3 4), .emit 0 0 cs!"e" [], .emit 0 0 cs!"e" []]).1.log.map (·.n) =
    [1, 3, 4, 2, 3, 4, 4] := by decide +kernel


/-- `reqobj_refines_map`: a safe operation sequence and what the abstract machine answers -/
example : ∀ op ∈ [MOp.setItem cs!"QUERY_STRING" (.plain (.str cs!"b=2")), .delItem cs!"missing", .keys, .len,
    .getItem cs!"nope"], op.safe = true := by decide +kernel
example : (specRun [(kSelf, .req 0), (cs!"QUERY_STRING", .plain (.str cs!"a")), (cs!"ombott.request.query", .plain (.dict []))]
    [.setItem cs!"QUERY_STRING" (.plain (.str cs!"b=2")), .delItem cs!"missing", .keys, .len, .getItem cs!"nope"]).2 =
    [.unit, .unit, .keys [kSelf, cs!"QUERY_STRING"], .len 2, .err .keyError] := by decide +kernel

/-- `_raise` with a mapped template carrying a list header and a cookie: the copy equals the template,
and mutating the copy (header list, cookie, status, body) leaves the template as it was -/
def exEW : EWorld :=
  { objs := [{ cls := "HTTPError", code := 400, line := cs!"400 Bad Request", body := cs!"Bad",
               headers := [(cs!"X-A", .ref 0), (cs!"Y", .one cs!"s")], cookies := some 0 }],
    lists := [[cs!"1", cs!"2"]], jars := [[(cs!"sid", cs!"abc")]] }
example : (match raiseR exEW [("RequestError", 0)] "BodySizeError" (some "RequestError") with
    | .ok (w1, some 1) =>
      decide (eview w1 1 = eview w1 0) &&
      decide (eview (erun w1 [.hdrAppend 1 cs!"X-A" cs!"3", .cookieSet 1 cs!"sid" cs!"evil", .setStatus 1 500 cs!"500 X",
        .setBody 1 cs!"x"]) 0 = eview exEW 0) &&
      decide (eview (erun w1 [.hdrAppend 1 cs!"X-A" cs!"3"]) 1 ≠ eview w1 1)
    | _ => false) = true := by decide +kernel
/-- hypothesis of `reqobj_copy_error_allocates` -/
example : (match copyError exEW 0 with | .ok _ => true | .error _ => false) = true := by decide +kernel

end NonVacuityReqObj

end Ombott.ReqObj
