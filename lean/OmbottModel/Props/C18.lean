import OmbottModel.Model.QsSpec
import OmbottModel.Lemmas.QsScan
import OmbottModel.Lemmas.QsDict
import OmbottModel.Props.EnvCache
import OmbottModel.Lemmas.HelpersForms
/-!
C18 — Query strings and urlencoded forms decode to exactly what was sent.
Property theorems only; helper lemmas live in `Lemmas/{Utf8,QsQuote,QsScan,QsDict}.lean`.
-/
namespace Ombott.Qs
open Py

/-! ### `unquote_quote`: percent escapes and UTF-8 -/

/-- decoding (with replacement) what the UTF-8 encoder produced gives the text back: no
replacement character appears for valid text of any length of encoding -/
theorem utf8_decode_encode (s : Str) : utf8DecReplace (utf8Enc s) = s := utf8DecReplace_utf8Enc s

/-- `unquote(quote(s)) == s` for every text `s` -/
theorem unquote_quote (s : Str) : unquote (quote s) = s := unquote_quote' s

/-- the same for `quote_plus`, read the way `parse_qsl` reads it (`replace('+', ' ')`, then
`unquote`): `+` and percent escapes decode, as UTF-8, to the original text -/
theorem unquote_quote_plus (s : Str) : unquote (plusToSpace (quotePlus s)) = s :=
  unquote_plusToSpace_quoteWith true s

/-! ### `qs_roundtrip` -/

/-- For every list of pairs with non-empty keys, URL-encoding (with `quote_plus`, the `urlencode`
default, or with `quote`) and parsing with `parse_qsl` yields the same pairs in the same order. -/
theorem qs_roundtrip (plus : Bool) (ps : List (Str × Str)) (hk : ∀ p ∈ ps, p.1 ≠ []) :
    parseQsl (urlencodeWith plus ps) = ps := parseQsl_urlencodeWith plus ps hk

/-- `parse_qsl(qs, setitem=d.__setitem__)` on an empty dictionary, for *every* string: it never
raises (no `KeyError` from `_seen[k]`) and `d` ends up holding, for each key in order of first
appearance, its value as a string if it occurred once and the list of its values in submission
order otherwise. -/
theorem setitem_promotion (qs : Str) : parseInto [] qs = .ok (group (parseQsl qs)) :=
  addAll_group (parseQsl qs)

/-- `Request.query` of an encoded pair list: single values as strings, repeated keys as lists in
submission order -/
theorem qs_roundtrip_query (plus : Bool) (ps : List (Str × Str)) (hk : ∀ p ∈ ps, p.1 ≠ []) :
    query (urlencodeWith plus ps) = .ok (group ps) := by
  unfold query
  split
  · rename_i h
    have : parseQsl (urlencodeWith plus ps) = [] := by
      rw [List.isEmpty_iff.mp h]; exact loop_done [] 0 (Nat.le_refl _)
    rw [qs_roundtrip plus ps hk] at this
    rw [this]; rfl
  · rw [setitem_promotion, qs_roundtrip plus ps hk]

/-- `Request.forms` of an urlencoded body (bytes of the ASCII query string) -/
theorem qs_roundtrip_forms (plus : Bool) (ps : List (Str × Str)) (hk : ∀ p ∈ ps, p.1 ≠ []) :
    forms (asciiBytes (urlencodeWith plus ps)) = .ok (group ps) := by
  unfold forms
  rw [latin1_asciiBytes _ (urlencodeWith_ascii plus ps), setitem_promotion, qs_roundtrip plus ps hk]

/-- `Request.params` sees the same dictionary whether the pairs came in the query string or in
the urlencoded body -/
theorem qs_roundtrip_params (plus : Bool) (ps : List (Str × Str)) (hk : ∀ p ∈ ps, p.1 ≠ []) :
    params (urlencodeWith plus ps) [] = .ok (group ps) ∧
    params [] (asciiBytes (urlencodeWith plus ps)) = .ok (group ps) := by
  constructor
  · have hp : parseQsl [] = [] := loop_done [] 0 (Nat.le_refl _)
    have hf : forms [] = .ok [] := by
      show parseInto [] [] = _
      rw [setitem_promotion, hp]; rfl
    simp only [params, qs_roundtrip_query plus ps hk, hf]
    rfl
  · have hq : query [] = .ok [] := rfl
    simp only [params, qs_roundtrip_forms plus ps hk, hq]
    show Except.ok (List.foldl (fun d p => Dict.set d p.1 p.2) [] (group ps)) = _
    rw [foldl_set_group]

/-! ### `qs_total` -/

/-- each iteration of `while i < L` strictly increases `i` (so `L - i` strictly decreases): this
is the fact the definition of `loop` rests on -/
theorem qs_step_advances (qs : Str) (i : Nat) : i < (step qs i).1 := step_advances qs i

/-- the scanner ends within `len + 1` iterations from any start index, with the result the
driver's `loop` computes -/
theorem qs_total_from (qs : Str) (n i : Nat) (h : qs.length - i < n) :
    loopFuel n qs i = some (loop qs i) := by
  induction n generalizing i with
  | zero => omega
  | succ n ih =>
    unfold loopFuel
    rw [loop]
    split
    · have adv := step_advances qs i
      have hrec := ih (step qs i).1 (by omega)
      cases hs : (step qs i).2 with
      | none => simp only; exact hrec
      | some p => simp only; rw [hrec]; rfl
    · rfl

/-- parsing any string whatsoever terminates: `len(qs) + 1` iterations of the scanning loop are
always enough -/
theorem qs_total (qs : Str) : loopFuel (qs.length + 1) qs 0 = some (parseQsl qs) :=
  qs_total_from qs _ 0 (by omega)

/-- … and does not raise: `Request.query`, `.forms` and `.params` return a dictionary for every
query string and every body -/
theorem qs_never_raises (qs : Str) (body : Bytes) :
    (∃ d, query qs = .ok d) ∧ (∃ d, forms body = .ok d) ∧ (∃ d, params qs body = .ok d) := by
  have hq : ∃ d, query qs = .ok d := by
    unfold query; split
    · exact ⟨_, rfl⟩
    · exact ⟨_, setitem_promotion qs⟩
  have hf : ∃ d, forms body = .ok d := ⟨_, setitem_promotion _⟩
  refine ⟨hq, hf, ?_⟩
  obtain ⟨d1, h1⟩ := hq
  obtain ⟨d2, h2⟩ := hf
  exact ⟨_, by simp only [params, h1, h2]; rfl⟩


/-! ### the Content-Type header in front of an urlencoded body -/

/-- a header whose (lower-cased) text starts with `application/x-www-form-urlencoded` — whatever follows:
`; charset=iso-8859-1`, `; charset=x-user-defined`, any other parameter — takes the urlencoded branch of `POST` -/
theorem formKind_urlencoded (ct rest : Str)
    (h : ct.map lowerCh = "application/x-www-form-urlencoded".toList ++ rest) :
    formKind (some ct) = .urlencoded := by
  have h1 : "multipart/".toList.isPrefixOf ("application/x-www-form-urlencoded".toList ++ rest) = false := by
    simp [List.isPrefixOf]
  have h2 : "application/json".toList.isPrefixOf ("application/x-www-form-urlencoded".toList ++ rest) = false := by
    simp [List.isPrefixOf]
  simp only [formKind, Option.getD_some, h, h1, h2]
  rfl

/-- **the label does not matter**: for every Content-Type that is neither `multipart/…` nor
`application/json…` (so for every `charset=` or other parameter next to
`application/x-www-form-urlencoded`, for `text/plain`, for no header at all) `Request.forms` and
`.params` are what they are for the bare body: the pairs sent, percent-escapes decoded as UTF-8;
and no body whatsoever makes them raise -/
theorem forms_any_content_type (ct : Option Str) (hct : formKind ct = .urlencoded)
    (plus : Bool) (ps : List (Str × Str)) (hk : ∀ p ∈ ps, p.1 ≠ []) (qs : Str) (body : Bytes) :
    formsCt ct (asciiBytes (urlencodeWith plus ps)) = some (.ok (group ps)) ∧
    paramsCt ct [] (asciiBytes (urlencodeWith plus ps)) = some (.ok (group ps)) ∧
    (∃ d, formsCt ct body = some (.ok d)) ∧ (∃ d, paramsCt ct qs body = some (.ok d)) := by
  simp only [formsCt, paramsCt, hct]
  obtain ⟨_, hf, hp⟩ := qs_never_raises qs body
  obtain ⟨d1, h1⟩ := hf
  obtain ⟨d2, h2⟩ := hp
  exact ⟨by rw [qs_roundtrip_forms plus ps hk], by rw [(qs_roundtrip_params plus ps hk).2],
    ⟨d1, by rw [h1]⟩, ⟨d2, by rw [h2]⟩⟩

section NonVacuity
/-! concrete, non-trivial instances of the hypotheses and statements above -/

/-- Content-Type headers meeting the hypothesis of `forms_any_content_type`: a legacy charset label, a label no codec
exists for, a quoted one, upper case, no header; and the two prefixes that do not -/
example : formKind (some "application/x-www-form-urlencoded; charset=ISO-8859-1".toList) = .urlencoded := by decide
example : formKind (some "Application/X-WWW-Form-Urlencoded;charset=x-user-defined".toList) = .urlencoded := by decide
example : formKind (some "text/plain; charset=\"utf-16\"".toList) = .urlencoded := by decide
example : formKind none = .urlencoded := by decide
example : formKind (some "MULTIPART/form-data; boundary=x".toList) = .multipart := by decide
example : formKind (some "application/JSON".toList) = .json := by decide
example : ("application/x-www-form-urlencoded; charset=ISO-8859-1".toList).map lowerCh =
    "application/x-www-form-urlencoded".toList ++ "; charset=iso-8859-1".toList := by decide

/-- a pair list with separators, `+`, `%`, a space, non-ASCII text and a repeated key meets the
hypothesis of the round-trip theorems … -/
example : ∀ p ∈ [("a b".toList, "&=".toList), ("é".toList, "+%".toList), ("a b".toList, "€".toList)],
    p.1 ≠ [] := by decide
/-- … and this is what is sent for it -/
example : urlencode [("a b".toList, "&=".toList), ("é".toList, "+%".toList), ("a b".toList, "€".toList)] =
    "a+b=%26%3D&%C3%A9=%2B%25&a+b=%E2%82%AC".toList := by decide
example : group [("a b".toList, "&=".toList), ("é".toList, "+%".toList), ("a b".toList, "€".toList)] =
    [("a b".toList, .many ["&=".toList, "€".toList]), ("é".toList, .one "+%".toList)] := by decide
/-- the empty key is genuinely excluded: `=x` is skipped by the scanner -/
example : loopFuel 3 "=x".toList 0 = some [("x".toList, [])] := by decide
/-- malformed input the totality statement speaks about -/
example : loopFuel 12 "&&a=%4&=%&b==".toList 0 =
    some [("a".toList, "%4".toList), ("%".toList, []), ("b".toList, "=".toList)] := by decide
example : unquote "%E9%80%e2%82%ac".toList = [repl, '€'] := by decide
end NonVacuity

end Ombott.Qs

/-! ### the cache layer of the request object (general theorem in `Props/EnvCache.lean`) -/
namespace Ombott.EnvCache

/-- **the cache is never observable** (general statement; scope and residue in `Props/EnvCache.lean`) -/
theorem c18_cache_unobservable (cfg : Cfg) (L : Lib) (w : World) (ops : List Op)
    (hW : InvW cfg L w) (hs : Safe cfg L w ops) : run cfg L w ops = specRun cfg L w ops :=
  cache_unobservable cfg L w ops hW hs

/-- **`query` follows `QUERY_STRING`**: every read of `query` / `GET` is `parse_qsl` of the query
string as it is at that moment on that request -/
theorem c18_query_follows_query_string (cfg : Cfg) (L : Lib) (w : World) (ops : List Op) (hW : FreshW w)
    (hw : ∀ op ∈ ops, opWithin [.query] (fun _ => true) op = true) :
    run cfg L w ops = specRun cfg L w ops :=
  query_follows_query_string cfg L w ops hW hw

/-- **`params` follow both** the query string and the body: reads of `query`, `forms`, `POST`,
`files`, `json`, `body`, `params` under assignments of `QUERY_STRING`, a new `wsgi.input` and any
key but `CONTENT_TYPE` / `CONTENT_LENGTH` (pinned residue) answer what a brand-new request on the
current environ answers -/
theorem c18_params_follow_both (cfg : Cfg) (L : Lib) (w : World) (ops : List Op) (hW : FreshW w)
    (hw : ∀ op ∈ ops, opWithin [.query, .params, .forms, .post, .files, .json, .body, .contentLength]
      notFormFraming op = true) :
    run cfg L w ops = specRun cfg L w ops :=
  params_follow_both cfg L w ops hW hw

/-- the dependency cover and the pinned residue, as C18 relies on them -/
theorem c18_dependency_cover :
    (∀ row ∈ Gen.ecProps, ∀ K ∈ row.reads, row.key.toList ∈ todelete K.toList ∨ (row.name, K) ∈ Gen.ecUncovered) ∧
    Gen.ecUncovered.filter (fun p => !ecByDesign.contains p) = pinnedStale :=
  ⟨dependency_cover, uncovered_pinned.1⟩

section NonVacuity
/-- the hypotheses of the theorems above are met by the request and library of `Props/EnvCache.lean` and this
sequence (further instances, out-of-scope sequences and the witnesses of the pinned residue are there) -/
example : FreshW exWorld ∧ InvW {} exLib exWorld := ⟨FreshW.ofB (by decide), (FreshW.ofB (by decide)).inv {} exLib⟩
example : ∀ op ∈ [Op.read 0 .params, .setStr 0 kQS cs!"b=2", .read 0 .params, .setInput 0 { st := ⟨"n=5".toUTF8.toList, []⟩ }, .read 0 .params], opWithin [.query, .params, .forms, .post, .files, .json, .body, .contentLength] notFormFraming op = true := by decide
end NonVacuity

end Ombott.EnvCache

/-! ## the accessors of `FormsDict` on `Request.query` / `.forms` / `.params`

`FormsDict` (`ombott/request_pkg/helpers.py`) is what the handler actually holds when it reads a form: a `dict` plus
`copy` and attribute access.  The functions are the ones the driver runs (`Drv/Helpers.lean`, `helpers fd …`); which
accessors exist is the generated table (`Gen/Helpers.lean`). -/
namespace Ombott.FormsDict
open Py Ombott.Qs

/-- **table tie** (`FormsDict`): the class body defines `__getattr__` and `copy` and nothing else — in particular no
`getall` / `getunicode` / `decode` (a repeated key is a list VALUE here) —, the attribute names normal lookup finds (they
shadow a form field of the same name) include every `dict` method, and for every accessor name of the `FormsDict` family
the model's attribute tables say what the live classes say.  Adding, removing or renaming an accessor re-opens this. -/
theorem formsdict_tables_pinned :
    Gen.hpFormsDictOwn = ["__getattr__", "copy"] ∧
    (∀ n ∈ ["get", "copy", "keys", "items", "values", "pop", "popitem", "update", "clear", "setdefault", "fromkeys",
      "__len__", "__class__", "__dict__", "__getattr__"], n.toList ∈ fdAttrs) ∧
    (∀ n ∈ ["getall", "getone", "getlist", "getunicode", "decode", "recode_unicode", "input_encoding", "_fix", "a", "name",
      "__x__", "__", "__missing__"], n.toList ∉ fdAttrs) ∧
    (∀ p ∈ Gen.hpAccessorProbes, fdAttrs.contains p.1.toList = p.2.1 ∧ cdAttrs.contains p.1.toList = p.2.2) := by
  refine ⟨by decide, by decide +kernel, by decide +kernel, by decide +kernel⟩

/-- **formsdict_get_after_roundtrip**: for every list of pairs with non-empty keys, encoded with `quote_plus` or `quote`
and sent as the query string, as an urlencoded body, or read through `params`: item access, `get` (with any default) and
`in` on the `FormsDict` the request hands out return, for a key that was sent, its value as a string if it was sent once
and the list of its values in submission order otherwise; for a key that was not sent `KeyError`, the default, `False`.
`keys()` are the distinct keys in order of first appearance and `copy()` is an equal dictionary.
(`qs_roundtrip_query/forms/params` composed with the accessors.) -/
theorem formsdict_get_after_roundtrip (plus : Bool) (ps : List (Str × Str)) (hk : ∀ p ∈ ps, p.1 ≠ []) (k : Str)
    (dflt : Option Val) :
    ∀ src ∈ [query (urlencodeWith plus ps), forms (asciiBytes (urlencodeWith plus ps)),
        params (urlencodeWith plus ps) [], params [] (asciiBytes (urlencodeWith plus ps))],
      ∃ d, src = .ok d ∧
        fdGetitem d k = (if k ∈ ps.map (·.1) then .ok (valOf (valuesOf k ps)) else .error .keyError) ∧
        fdGet d k dflt = (if k ∈ ps.map (·.1) then some (valOf (valuesOf k ps)) else dflt) ∧
        fdContains d k = decide (k ∈ ps.map (·.1)) ∧
        fdKeys d = firstKeys ps ∧ fdLen d = (firstKeys ps).length ∧ fdCopy d = d := by
  intro src hsrc
  have hall : src = .ok (group ps) := by
    simp only [List.mem_cons, List.not_mem_nil, or_false] at hsrc
    rcases hsrc with rfl | rfl | rfl | rfl
    · exact qs_roundtrip_query plus ps hk
    · exact qs_roundtrip_forms plus ps hk
    · exact (qs_roundtrip_params plus ps hk).1
    · exact (qs_roundtrip_params plus ps hk).2
  exact ⟨group ps, hall, accessors_on_group ps k dflt⟩

/-- **formsdict_attr_access**: `getattr(form, name)` on the `FormsDict` of the submitted pairs: a name normal attribute
lookup finds (a `dict` method, `copy`, a dunder of the class — `fdAttrs`, generated) is that attribute and the form data is
not consulted; any other dunder name is `AttributeError`; every other name is the field's value — a string, or the list
for a repeated field — and `None` for a field that was not sent.  Stated on `Request.query` of the encoded pairs. -/
theorem formsdict_attr_access (plus : Bool) (ps : List (Str × Str)) (hk : ∀ p ∈ ps, p.1 ≠ []) (name : Str) :
    ∃ d, query (urlencodeWith plus ps) = .ok d ∧
      fdGetattr d name =
        (if name ∈ fdAttrs then .ok (.classAttr name)
         else if isDunder name = true then .error .attributeError
         else .ok (.value (if name ∈ ps.map (·.1) then some (valOf (valuesOf name ps)) else none))) := by
  refine ⟨group ps, qs_roundtrip_query plus ps hk, ?_⟩
  unfold fdGetattr
  by_cases h1 : name ∈ fdAttrs
  · simp [h1]
  · have h1' : fdAttrs.contains name = false := by
      rw [Bool.eq_false_iff]; intro h; exact h1 (List.contains_iff_mem.mp h)
    simp only [h1', h1, Bool.false_eq_true, if_false]
    by_cases h2 : isDunder name = true
    · simp [h2]
    · simp only [h2, if_false, Bool.false_eq_true]
      rw [(accessors_on_group ps name none).2.1]

/-- **formsdict_total**: for every query string and every body whatsoever the three dictionaries exist
(`qs_never_raises`), and on ANY `FormsDict` item access raises nothing but `KeyError` (exactly for an absent key),
attribute access nothing but `AttributeError` (exactly for a dunder name normal lookup does not find), and `get`,
`in`, `keys`, `len`, `copy` are total functions. -/
theorem formsdict_total (qs : Str) (body : Bytes) :
    (∃ dq df dp, query qs = .ok dq ∧ forms body = .ok df ∧ params qs body = .ok dp) ∧
    ∀ (d : Dict Val) (k : Str),
      (∀ x, fdGetitem d k = .error x → x = .keyError ∧ fdContains d k = false) ∧
      (∀ v, fdGetitem d k = .ok v → fdContains d k = true ∧ ∀ dflt, fdGet d k dflt = some v) ∧
      (∀ x, fdGetattr d k = .error x → x = .attributeError ∧ isDunder k = true ∧ ¬ k ∈ fdAttrs) := by
  obtain ⟨⟨dq, hq⟩, ⟨df, hf⟩, ⟨dp, hp⟩⟩ := qs_never_raises qs body
  refine ⟨⟨dq, df, dp, hq, hf, hp⟩, ?_⟩
  intro d k
  refine ⟨?_, ?_, ?_⟩
  · intro x hx
    unfold fdGetitem at hx
    unfold fdContains
    cases hg : d.get? k with
    | none => rw [hg] at hx; cases hx; exact ⟨rfl, rfl⟩
    | some v => rw [hg] at hx; cases hx
  · intro v hv
    unfold fdGetitem at hv
    unfold fdContains fdGet
    cases hg : d.get? k with
    | none => rw [hg] at hv; cases hv
    | some w => rw [hg] at hv; cases hv; exact ⟨rfl, fun _ => rfl⟩
  · intro x hx
    unfold fdGetattr at hx
    split at hx
    · cases hx
    · rename_i hna
      split at hx
      · rename_i hd
        cases hx
        exact ⟨rfl, hd, fun hm => hna (List.contains_iff_mem.mpr hm)⟩
      · cases hx

section NonVacuity
/-- the pair list of the C18 examples (a repeated key, a field named like a `dict` method, a dunder-named field) meets the
hypothesis … -/
def exPairs : List (Str × Str) := [(cs!"a b", cs!"&="), (cs!"keys", cs!"k"), (cs!"a b", cs!"€"), (cs!"__x__", cs!"1"), (cs!"n", [])]
example : ∀ p ∈ exPairs, p.1 ≠ [] := by decide
/-- … and this is what the accessors answer on `Request.query` of its encoding: the list for the repeated key, the
method for `keys` (the field is still there by item access), `AttributeError` for the dunder name, `None` for a missing one -/
example : (query (urlencode exPairs)).toOption.map (fun d =>
      (fdGetitem d cs!"a b", fdGetattr d cs!"a b", fdGetattr d cs!"n")) =
    some (.ok (.many [cs!"&=", cs!"€"]), .ok (.value (some (.many [cs!"&=", cs!"€"]))), .ok (.value (some (.one [])))) := by
  decide +kernel
example : (query (urlencode exPairs)).toOption.map (fun d =>
      (fdGetattr d cs!"keys", fdGetitem d cs!"keys", fdGetattr d cs!"__x__")) =
    some (.ok (.classAttr cs!"keys"), .ok (.one cs!"k"), .error .attributeError) := by decide +kernel
example : (query (urlencode exPairs)).toOption.map (fun d =>
      (fdGetattr d cs!"zz", fdGetitem d cs!"zz", fdGet d cs!"zz" (some (.one cs!"dflt")))) =
    some (.ok (.value none), .error .keyError, some (.one cs!"dflt")) := by decide +kernel
end NonVacuity

end Ombott.FormsDict
