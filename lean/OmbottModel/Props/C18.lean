import OmbottModel.Model.Qs
/-!
C18 — Query strings and urlencoded forms decode to exactly what was sent.
-/
namespace Ombott.Qs
open Py

/-- every iteration of `while i < L` moves the index forward -/
theorem qs_step_advances (qs : Str) (i : Nat) : i < (step qs i).1 := step_advances qs i

end Ombott.Qs
