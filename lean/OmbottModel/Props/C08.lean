import OmbottModel.Model.WsgiConc
import OmbottModel.Lemmas.TsPropsThread
import OmbottModel.Lemmas.WsgiConcRun
import OmbottModel.Lemmas.WsgiConcServes
/-!
C08 — Concurrent requests on one application never see each other.
Property theorems only; helper lemmas live in `Lemmas/TsProps*.lean`, `Lemmas/WsgiConc*.lean`.
-/
namespace Ombott.TsProps
open Py

/-- **C08** (one application `a`, any number of threads, every interleaving: `sched` is a list of
thread ids of any length).  From any machine state in which `a` is constructed and every thread's
program works on `a` through the thread-local attributes (`Prog.Serves a`: the serving code and any
handler, arbitrary adaptive programs), after the interleaved run thread `t` — its remaining
program, the sequence of values its steps returned (`trace`) and what it emitted (`out`: the values
its handler read and the response it produced) — is exactly thread `t` after running alone from
the same heap for as many steps as `t` occurs in `sched`. -/
theorem one_app_noninterference (a : AppId) (m : Machine) (hr : Ready a m.heap) (ho : ThreadOwned m.heap)
    (hp : ∀ u, (m.threads u).prog.Serves a) (sched : List ThreadId) (t : ThreadId) :
    (run .perInstance m sched).threads t =
      (solo .perInstance t m.heap (m.threads t) (sched.count t)).2 :=
  run_thread_eq_solo a t sched m m.heap ⟨Agree.refl _, ho, ho, hr, hr, hp⟩

/-- the usual reading: threads start their programs on a heap where the application exists -/
theorem one_app_noninterference_start (a : AppId) (h0 : Heap) (hr : Ready a h0) (ho : ThreadOwned h0)
    (progs : ThreadId → Prog) (hp : ∀ t, (progs t).Serves a) (sched : List ThreadId) (t : ThreadId) :
    (run .perInstance (Machine.on h0 progs) sched).threads t =
      (solo .perInstance t h0 (Thread.init (progs t)) (sched.count t)).2 :=
  one_app_noninterference a (Machine.on h0 progs) hr ho (fun u => hp u) sched t

/-- the same for the event-level schedules the driver replays: what thread `t` has read and
produced depends only on how many steps it was given -/
theorem one_app_noninterference_events (a : AppId) (m : Machine) (hr : Ready a m.heap)
    (ho : ThreadOwned m.heap) (hp : ∀ u, (m.threads u).prog.Serves a) (evs : List WsgiConc.Ev)
    (t : ThreadId) :
    (WsgiConc.runEvents .perInstance m evs).1.threads t =
      (solo .perInstance t m.heap (m.threads t) ((WsgiConc.runEvents .perInstance m evs).2.count t)).2 := by
  rw [WsgiConc.runEvents_eq_run]
  exact one_app_noninterference a m hr ho hp _ t

/-- the programs the driver builds for requests that stay inside application `a` are such programs:
the theorem applies to every request kind of the correspondence (cookies, headers, status, raised
response, error page, 404/405, undecodable path, body and form data, `Request.copy()`) -/
theorem served_requests_serve (a : AppId) (rs : List WsgiConc.Req) (hl : ∀ r ∈ rs, r.LocalTo a) :
    (WsgiConc.threadProg (rs.map .serve)).Serves a := by
  induction rs with
  | nil => exact Prog.Serves.done
  | cons r rs ih =>
    simp only [WsgiConc.threadProg, List.map_cons, List.foldr_cons, WsgiConc.itemProg]
    exact WsgiConc.serve_serves _ a r (hl r (by simp)) _ (ih fun q hq => hl q (by simp [hq]))

/-- tie to the source: every attribute the serving code and the handlers touch on `app.request`
is in the generated thread-local list of `Request`, likewise for `app.response`, the stores and
`HeaderDict._ts` are `threading.local` objects, the shared error objects of `errors_map` carry no
cookies, exception or traceback and the probe found them unchanged by requests that fail onto them
(`Prog.Serves` contains no step that writes them) -/
theorem served_attrs_thread_local :
    (∀ k ∈ ["environ", "_env_get"], k ∈ propsOf .request) ∧
    (∀ k ∈ ["_status_line", "_status_code", "_headers", "_cookies", "body"], k ∈ propsOf .response) ∧
    Gen.tsHeaderDictThreadLocal = true ∧ Gen.tsStoresAreThreadLocal = true ∧
    (∀ row ∈ Gen.tsErrorsMap, row.2.2.2.2.2 = true) ∧ Gen.tsErrorsMapReadOnly = true := by
  decide

/-- the lazily filled module-level template cache (`error_render._html_lns`) is an init-once cell:
whoever comes first fills it, and what any request reads from it is the template of the tree
(generated digest) whatever the heap, hence whatever the schedule so far; once filled it stays filled -/
theorem template_cache_init_once (v : Variant) (t : ThreadId) (a : AppId) (h : Heap) :
    (exec v t a .tmplLoad h).2 = .val (.str Gen.tsTemplateDigest) ∧
    (exec v t a .tmplLoad h).1.tmplLoaded = true := by
  cases v <;> exact ⟨rfl, rfl⟩

theorem template_cache_stays_filled (v : Variant) (t : ThreadId) (a : AppId) (acc : Access) (h : Heap)
    (hl : h.tmplLoaded = true) : (exec v t a acc h).1.tmplLoaded = true := by
  have key : ∀ (us : List Upd) (h : Heap), h.tmplLoaded = true → (applyAll h us).tmplLoaded = true := by
    intro us
    induction us with
    | nil => intro h hh; exact hh
    | cons u us ih =>
      intro h hh
      apply ih
      cases u <;> simp only [Upd.apply, hh]
  exact key _ h hl

/-- tie to the source: every plain (not thread-local) slot or module object that the probe saw
touched while serving was left unchanged or rewritten with equal content -/
theorem shared_objects_read_only :
    ∀ x ∈ Gen.tsSharedTouched, x.2.2 = "read-only" ∨ x.2.2 = "idempotent" := by
  decide

section NonVacuity
open WsgiConc

/-- the heap after the main thread (0) has constructed application 1 -/
def constructed1 : Heap := (solo .perInstance 0 Heap.boot (Thread.init (constructApp 1 .done)) 40).1

example : Ready 1 constructed1 := by
  constructor <;> decide +kernel

theorem constructed1_owned : ThreadOwned constructed1 := by
  have key : ∀ (n : Nat) (h : Heap) (th : Thread), ThreadOwned h → th.prog.Serves 1 →
      ThreadOwned (solo .perInstance 0 h th n).1 := by
    intro n
    induction n with
    | zero => intro h th ho _; exact ho
    | succ n ih =>
      intro h th ho hs
      simp only [solo]
      cases hp : th.prog with
      | done => simp only [stepThread, hp]; exact ih _ _ ho (by simpa [hp] using hs)
      | emit b o k =>
        simp only [stepThread, hp]
        rw [hp] at hs
        cases hs with
        | emit _ _ hk => exact ih _ _ ho hk
      | step b acc k =>
        simp only [stepThread, hp]
        rw [hp] at hs
        cases hs with
        | step _ _ hok hk => exact ih _ _ (exec_threadOwned 0 1 acc h hok ho) (hk _)
  exact key 40 _ _ ThreadOwned.boot (constructApp_serves 1 .done Prog.Serves.done)

/-- two requests of different kinds on application 1 -/
def reqA : Req := .mk 1 [("PATH_INFO", .str "/a"), ("REQUEST_METHOD", .str "GET"), ("#q:q", .str "1")]
  false [] [] [] (.handler [.path, .query "q", .setCookie "who" "who=a", .status 201 "201 Created", .path] (.ret "a"))
def reqB : Req := .mk 1 [("PATH_INFO", .str "/b"), ("REQUEST_METHOD", .str "GET"), ("#url", .str "http://h/b")]
  false [] [.rdStatus] [] (.handler [.setHdr "X-B" "b", .path] (.error 418 "418 I'm a teapot" "tea"))

def progsAB : ThreadId → Prog := fun t =>
  if t = 1 then threadProg [.serve reqA] else if t = 2 then threadProg [.serve reqB] else .done

/-- the hypotheses of `one_app_noninterference` hold for these programs on the constructed heap -/
example : ∀ t, (progsAB t).Serves 1 := by
  intro t
  unfold progsAB
  split
  · exact served_requests_serve 1 [reqA] (by simp [reqA, Req.LocalTo, HOp.isLocal, Outcome.LocalTo])
  · split
    · exact served_requests_serve 1 [reqB] (by simp [reqB, Req.LocalTo, HOp.isLocal, Outcome.LocalTo])
    · exact Prog.Serves.done

/-- strict alternation of the two threads, 150 steps each -/
def schedAB : List ThreadId := (List.replicate 150 [1, 2]).flatten

/-- the interleaved run is not trivial: both requests are served to the end, each thread saw its own
path, query and status and produced its own response -/
example : ((run .perInstance (Machine.on constructed1 progsAB) schedAB).threads 1).out.map (·.2) =
    ["r:s/a", "r:s1", "r:s/a",
     "w:201 Created\nContent-Length: 1\nContent-Type: text/html; charset=UTF-8\nSet-Cookie: who=a\n\na"] := by
  decide +kernel

example : ((run .perInstance (Machine.on constructed1 progsAB) schedAB).threads 2).out.map (·.2) =
    ["r:s200 OK", "r:s/b",
     "w:418 I'm a teapot\nContent-Length: 34\nContent-Type: text/html; charset=UTF-8\n\nE(418 I'm a teapot|http://h/b|tea)"] := by
  decide +kernel

/-! what the theorem's hypotheses exclude for the pre-fix decorator: on ONE application the shared
closure cell is harmless as long as every decorated class has one instance, but a `Request.copy()`
on one thread re-points it and another thread then reads the copy's (for it empty) store -/

def copyWitness : ThreadId → Prog := fun t =>
  if t = 1 then .step 1 .newCopy fun _ => .step 1 (.initHead (.copy 0)) fun _ => .done
  else if t = 2 then
    .step 1 (.initHead .request) fun _ => .step 1 (.initNone .request "environ") fun _ =>
    .step 1 (.dNew 0 [("PATH_INFO", .str "/two")]) fun _ => .step 1 (.fset .request "environ" (.reg 0)) fun _ =>
    .step 1 (.fget .request "environ" 1) fun _ => .done
  else .done

example : ((run tsPropsShared (Machine.on constructed1 copyWitness) [2, 2, 2, 2, 1, 1, 2]).threads 2).trace.getLast?
    = some (.err .attributeError) := by
  decide +kernel

example : (solo tsPropsShared 2 constructed1 (Thread.init (copyWitness 2)) 5).2.trace.getLast? = some .ref := by
  decide +kernel

example : ((run .perInstance (Machine.on constructed1 copyWitness) [2, 2, 2, 2, 1, 1, 2]).threads 2).trace.getLast?
    = some .ref := by
  decide +kernel

end NonVacuity

end Ombott.TsProps
