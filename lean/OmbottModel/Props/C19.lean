import OmbottModel.Model.RouteUrl
import OmbottModel.Lemmas.RouteUrlDom
import OmbottModel.Lemmas.RouteUrlTree
import OmbottModel.Lemmas.RouteUrlParse
/-!
C19 — Building a URL from matched parameters leads back to the same match.
Property theorems only; helper lemmas live in `Lemmas/RouteUrl*.lean`.

Statements are over the functions the driver runs: `routeUrl` (= `Route.url`), `matchRule`
(checked against the tree lookup of a single-rule router on every correspondence line),
`intFilter`/`withInt` (the `int` handler), `urlDomain`/`selFree` (reported by the driver for
every rule).

Clauses of the property
  * "literal parts of the rule appear verbatim and in order in the built URL":
    `url_literals_verbatim` (any arguments), `url_values_formatted` (matched values)
  * "building the URL from those parameters yields a path that this rule matches with the same
    parameter values": `url_rematch` (per-wildcard hypothesis `AllStable`), with `Stable` proved
    for the plain wildcard (`stable_plain_wildcard`) and for `int` (`stable_int_wildcard`),
    which gives `url_rematch_partial` without any hypothesis on filters for rules made of plain
    and `int` wildcards.

Known findings carried as explicit decidable hypotheses of `url_rematch_partial`:
  * `plainIntOnly` excludes `float` wildcards (findings `C19:url:float-text-changes-neighbour-match`
    and `C19:url:float-overflow-inf`; `re`/`path` are opaque and excluded with them),
  * `intAfterTok = false` excludes an `int` wildcard directly after another wildcard
    (finding `C19:url:int-text-changes-neighbour-match`).
Section `Witness` shows that each excluded point really violates the conclusion in the model.
-/
namespace Ombott.RouteUrl
open Py Ombott.Router

/-! ### ties to the generated tables -/

/-- the marker `Route.url` scans for is the wildcard marker of the patterns (`RadiDict.param_token`
of the generated table) -/
theorem marker_is_param_token : marker = Gen.paramToken := by decide

/-- the concrete `intFilter` was written for exactly this mask and converter, and `intStr` agrees
with the live formatter on the probed values -/
theorem int_filter_table :
    Gen.intMask = "-?\\d+" ∧ Gen.intConvIsInt = true ∧
      Gen.intFmtProbe.all (fun (z, s) => intStr z == s.toList) = true := by
  decide

/-! ### literal parts verbatim and in order -/

/-- **`url_literals_verbatim`.**  Whatever arguments `Route.url` is given, a URL it returns is
the literal characters of the rule, verbatim and in order, with exactly one text per wildcard
in between. -/
theorem url_literals_verbatim (env : FilterEnv) (fenv : FormatEnv) (r : Route) (hd : urlDomain r = true)
    (args : List Val) (kw : List (Str × Val)) (u : Str) (h : routeUrl env fenv r args kw = .ok u) :
    ∃ ts : List Str, ts.length = tokCount r.symsOut ∧ u = interleave r.symsOut ts := by
  obtain ⟨h1, _, h3, _⟩ := urlDomain_spec hd
  unfold routeUrl at h
  by_cases he : r.params.isEmpty = true
  · have h0 : tokCount r.symsOut = 0 := by rw [← h3]; simpa using he
    have : urlOf env fenv (urlArgsOf r args kw) = .ok (patStr r.symsOut) := by
      unfold urlOf; simp [urlArgsOf, he]
    rw [this] at h
    cases h
    exact ⟨[], h0.symm, (interleave_noTok _ h0 _).symm⟩
  · have he' : (urlArgsOf r args kw).params.isEmpty = false := by simpa [urlArgsOf] using he
    rw [urlOf_eq_pieces env fenv _ r.symsOut rfl h1 he'] at h
    cases hp : urlPieces env fenv (urlArgsOf r args kw) r.symsOut 0 0 with
    | error e => rw [hp] at h; cases h
    | ok l =>
      rw [hp] at h
      exact pieces_interleave env fenv _ _ 0 0 l u hp h

/-- with the matched values handed back, the text standing for the `i`-th wildcard is the `i`-th
value formatted by that wildcard's formatter (and accepted by its sanity check in front of the
literal run that follows) -/
theorem url_values_formatted (env : FilterEnv) (fenv : FormatEnv) (r : Route) (hd : urlDomain r = true)
    (vs : List Val) (hv : vs.length = tokCount r.symsOut) (u : Str)
    (h : routeUrl env fenv r (splitArgs r.params vs).1 (splitArgs r.params vs).2 = .ok u) :
    ∃ ts : List Str, ts.length = tokCount r.symsOut ∧ u = interleave r.symsOut ts ∧
      Formatted env fenv (tokCtx r.symsOut) vs ts := by
  rw [routeUrl_matched env fenv r hd vs hv] at h
  exact buildUrl_interleave env fenv _ _ _ h

/-! ### the built URL is matched again with the same values -/

/-- **`url_rematch`.**  For every rule and path: if the rule matches the path with values `vs`,
then `Route.url` called with those values (anonymous ones positionally, the others by name)
returns a URL which the rule matches with the same values — provided every wildcard is stable
where it stands (`AllStable`: the formatted value, followed by the URL built for the rest of
the rule, is accepted by the wildcard's filter with the same value, consuming exactly the
formatted text).  `AllStable` is the named assumption for `re`/`path`/`float` wildcards; for
plain and `int` wildcards it follows from `stable_plain_wildcard`/`stable_int_wildcard`
(`stableAt_of_stable`). -/
theorem url_rematch (env : FilterEnv) (fenv : FormatEnv) (r : Route)
    (hd : urlDomain r = true) (hsel : selFree r = true) (hst : AllStable env fenv r.syms)
    (path : Str) (vs : List Val) (hm : matchRule env r.syms path = some vs) :
    ∃ u, routeUrl env fenv r (splitArgs r.params vs).1 (splitArgs r.params vs).2 = .ok u ∧
      matchRule env r.syms u = some vs := by
  have hs : r.symsOut = r.syms := by simpa [selFree] using hsel
  have hv : vs.length = tokCount r.symsOut := by rw [hs]; exact matchRule_length hm
  rw [routeUrl_matched env fenv r hd vs hv, hs]
  exact rematch_spec hst hm

/-- `Stable` holds for the plain wildcard ("up to the next `/`", identity formatter, no check) -/
theorem stable_plain_wildcard (env : FilterEnv) (fenv : FormatEnv) :
    Stable (tokRes env none) (piece env fenv none) := stable_plain env fenv

/-- `Stable` holds for the `int` wildcard: mask `-?\d+` over the decimal digits of the running
interpreter, converter `int`, formatter = canonical decimal text -/
theorem stable_int_wildcard (env : FilterEnv) (fenv : FormatEnv) (g : Fid) (hg : isIntFid g = true) :
    Stable (tokRes (withInt env) (some g)) (piece (withInt env) fenv (some g)) := stable_int env fenv g hg

/-- a wildcard that is `Stable` is stable where it stands as soon as the wildcards directly
after it keep the first character of their text (`HeadRun`; trivially true when a literal or
the end of the rule follows) -/
theorem stable_in_context (env : FilterEnv) (fenv : FormatEnv) (f : Option Fid) (p' : List Sym)
    (hs : Stable (tokRes env f) (piece env fenv f)) (hr : HeadRun env fenv p') : StableAt env fenv f p' :=
  stableAt_of_stable hs hr

/-- a wildcard without formatter whose handler answers with the text it consumed (`re`, `path`)
keeps the first character of its text, so a plain or `int` wildcard directly before it is still
stable where it stands (`stable_in_context` with `HeadRun`) -/
theorem text_filter_keeps_head (env : FilterEnv) (fenv : FormatEnv) (g : Fid) (ht : TextFilter env g) :
    HeadKeep (tokRes env (some g)) (piece env fenv (some g)) := headKeep_text env fenv g ht

/- OPEN: theorem url_rematch_all — the statement of `url_rematch_partial` for *every* rule of the
   property's domain (`float`, `re`, `path` wildcards included, an `int` wildcard anywhere),
   with the real handlers and formatters standing for `env`/`fenv` and no stability hypothesis:
     matchRule env r.syms path = some vs →
       ∃ u, routeUrl env fenv r (splitArgs r.params vs).1 (splitArgs r.params vs).2 = .ok u ∧
            matchRule env r.syms u = some vs
   It is FALSE on the current tree (section `Witness`: canonical `int` text `-0 -> 0` after a
   digit-eating wildcard; canonical `float` text `5 -> 5.0` next to a greedy `path` filter;
   `float` overflow to `inf`), so it is proved in two parts: `url_rematch` keeps `AllStable` as
   the per-wildcard hypothesis (exercised for `re`/`path`/`float` by the correspondence and the
   search), `url_rematch_partial` discharges it for plain and `int` wildcards. -/

/-- **`url_rematch_partial`**: `url_rematch` without any hypothesis on filters, for rules whose
wildcards are plain or `int` (decidable `plainIntOnly`) and in which no `int` wildcard directly
follows another wildcard (decidable `intAfterTok`); `env` is arbitrary (it is not consulted). -/
theorem url_rematch_partial (env : FilterEnv) (fenv : FormatEnv) (r : Route)
    (hd : urlDomain r = true) (hsel : selFree r = true)
    (hpi : plainIntOnly r.syms = true) (hadj : intAfterTok r.syms = false)
    (path : Str) (vs : List Val) (hm : matchRule (withInt env) r.syms path = some vs) :
    ∃ u, routeUrl (withInt env) fenv r (splitArgs r.params vs).1 (splitArgs r.params vs).2 = .ok u ∧
      matchRule (withInt env) r.syms u = some vs :=
  url_rematch (withInt env) fenv r hd hsel (allStable_plainInt env fenv r.syms hpi hadj) path vs hm

/-! ### the same on the router's tree (a router holding only that rule) -/

/-- `intFilter` never answers with a selector -/
theorem noSel_withInt (env : FilterEnv) (hs : NoSel env) : NoSel (withInt env) := by
  intro f s r h
  unfold withInt at h
  by_cases hf : isIntFid f = true
  · rw [if_pos hf] at h
    exact (intFilter_spec h).2.1
  · rw [if_neg hf] at h
    exact hs f s r h

/-- **`url_rematch` observed where the property observes it**: on the tree of a router that
holds only the rule (`RadiDict.add` of its pattern into an empty tree), if the lookup of `path`
hits with values `vs`, then `Route.url` on those values returns a URL whose lookup hits the same
route with the same names and the same values.  Uses C01's `get_eq_spec`/`insert_wf`/
`insert_denote` (lookup in a well-formed tree = rule-by-rule matcher), hence `NoSel`. -/
theorem url_rematch_tree (env : FilterEnv) (fenv : FormatEnv) (hs : NoSel env) (r : Route)
    (hd : urlDomain r = true) (hsel : selFree r = true) (hst : AllStable env fenv r.syms)
    (id : Nat) (t : Node) (ht : treeAdd Node.root r.syms id r.params = .ok t)
    (path : Str) (vs : List Val) (hg : (treeGet env t path).core = some (id, r.params, vs)) :
    ∃ u, routeUrl env fenv r (splitArgs r.params vs).1 (splitArgs r.params vs).2 = .ok u ∧
      (treeGet env t u).core = some (id, r.params, vs) := by
  rw [single_rule_get env hs r.syms id r.params t ht path] at hg
  have hm : matchRule env r.syms path = some vs := by
    cases h : matchRule env r.syms path with
    | none => rw [h] at hg; cases hg
    | some vs' =>
      rw [h] at hg
      simp only [Option.map_some, Option.some.injEq, Prod.mk.injEq, true_and] at hg
      rw [hg]
  obtain ⟨u, hu, hr⟩ := url_rematch env fenv r hd hsel hst path vs hm
  exact ⟨u, hu, by rw [single_rule_get env hs r.syms id r.params t ht u, hr]; rfl⟩

/-- the closed form on the tree, for rules of plain and `int` wildcards -/
theorem url_rematch_tree_partial (env : FilterEnv) (fenv : FormatEnv) (hs : NoSel env) (r : Route)
    (hd : urlDomain r = true) (hsel : selFree r = true)
    (hpi : plainIntOnly r.syms = true) (hadj : intAfterTok r.syms = false)
    (id : Nat) (t : Node) (ht : treeAdd Node.root r.syms id r.params = .ok t)
    (path : Str) (vs : List Val) (hg : (treeGet (withInt env) t path).core = some (id, r.params, vs)) :
    ∃ u, routeUrl (withInt env) fenv r (splitArgs r.params vs).1 (splitArgs r.params vs).2 = .ok u ∧
      (treeGet (withInt env) t u).core = some (id, r.params, vs) :=
  url_rematch_tree (withInt env) fenv (noSel_withInt env hs) r hd hsel
    (allStable_plainInt env fenv r.syms hpi hadj) id t ht path vs hg

/-! ### from the rule text -/

/-- the route object `RadiRouter` stores for a parsed rule -/
def routeOf (rule : Str) (p : Parsed) : Route :=
  { rule := rule, syms := p.syms, params := p.params, symsOut := p.symsOut }

/-- every rule text that `Route.parse_rule` accepts and that lies in the model's domain (no
marker character in the text, no repeated wildcard name) gives a route in the domain of the
theorems above: literal text free of the marker, one distinct name per wildcard, filters paired
with the markers of the output pattern -/
theorem parsed_rule_in_domain (cenv : CompileEnv) (rule : Str) (p : Parsed)
    (h : parseRule cenv rule = .ok p) (hd : inDomain rule p = true) : urlDomain (routeOf rule p) = true :=
  parseRule_urlDomain cenv rule p h hd

/-- **`url_rematch` for every rule text**: rule text → `parse_rule` → match → `url` → match -/
theorem url_rematch_rule (cenv : CompileEnv) (env : FilterEnv) (fenv : FormatEnv) (rule : Str) (p : Parsed)
    (hp : parseRule cenv rule = .ok p) (hd : inDomain rule p = true) (hsel : selFree (routeOf rule p) = true)
    (hst : AllStable env fenv p.syms)
    (path : Str) (vs : List Val) (hm : matchRule env p.syms path = some vs) :
    ∃ u, routeUrl env fenv (routeOf rule p) (splitArgs p.params vs).1 (splitArgs p.params vs).2 = .ok u ∧
      matchRule env p.syms u = some vs :=
  url_rematch env fenv (routeOf rule p) (parsed_rule_in_domain cenv rule p hp hd) hsel hst path vs hm

/-! ### non-vacuity and witnesses -/
section NonVacuity

def noEnv : FilterEnv := fun _ _ => none
def noFmt : FormatEnv := fun _ _ => .error "unlisted-format"

/-- the route of rule `/a/<x:int>-<:int>/<y>` -/
def exRoute : Route :=
  { rule := "/a/<x:int>-<:int>/<y>".toList,
    syms := [.lit 'a', .lit '/', .tok (some "int(None)".toList), .lit '-', .tok (some "int(None)".toList),
             .lit '/', .tok none],
    params := ["x".toList, "anon-0".toList, "y".toList],
    symsOut := [.lit 'a', .lit '/', .tok (some "int(None)".toList), .lit '-', .tok (some "int(None)".toList),
                .lit '/', .tok none] }

/-- the hypotheses of `url_rematch_partial` (and so of `url_rematch`) are met by a concrete rule
with named and anonymous wildcards, on a path whose canonical text differs (`007`, `-0`) -/
example : urlDomain exRoute = true ∧ selFree exRoute = true ∧ plainIntOnly exRoute.syms = true ∧
    intAfterTok exRoute.syms = false ∧
    matchRule (withInt noEnv) exRoute.syms "a/007--0/k".toList = some [intVal 7, intVal 0, .str "k".toList] := by
  decide

/-- … and the conclusion, computed: the URL is `a/7-0/k` and is matched with the same values -/
example :
    routeUrl (withInt noEnv) noFmt exRoute [intVal 0] [("x".toList, intVal 7), ("y".toList, .str "k".toList)]
      = .ok "a/7-0/k".toList ∧
    matchRule (withInt noEnv) exRoute.syms "a/7-0/k".toList = some [intVal 7, intVal 0, .str "k".toList] := by
  decide

/-- `Stable`'s premise is met: the `int` handler accepts `-007x` with value -7 -/
example : tokRes (withInt noEnv) (some "int(None)".toList) "-007x".toList = some ⟨intVal (-7), 4, none⟩ := by
  decide

/-- the hypothesis `AllStable` of `url_rematch` holds for that rule -/
example : AllStable (withInt noEnv) noFmt exRoute.syms :=
  allStable_plainInt noEnv noFmt exRoute.syms (by decide) (by decide)

/-- `stable_int_wildcard`: both spellings of the `int` filter's identity are `int` filters -/
example : isIntFid "int(None)".toList = true ∧ isIntFid "int()".toList = true := by decide

/-- `text_filter_keeps_head`: a handler that answers with the first character it is given -/
example : TextFilter (fun _ s => some ⟨.str (s.take 1), 1, none⟩) "re(.)".toList :=
  ⟨by decide, by intro s r h; cases h; rfl⟩

/-- `stable_in_context`: `HeadRun` holds in front of a literal, at the end of the rule, and in
front of a plain wildcard -/
example : HeadRun (withInt noEnv) noFmt [.lit '/', .tok none] ∧ HeadRun (withInt noEnv) noFmt [] ∧
    HeadRun (withInt noEnv) noFmt [.tok none, .lit 'a'] :=
  ⟨trivial, trivial, headKeep_plain _ _, trivial⟩

/-- the hypotheses of `url_rematch_tree(_partial)`: `noEnv` has no selectors, the rule is added
to the empty tree, and the lookup of `a/007--0/k` hits with the values above -/
example : NoSel noEnv := by intro f s r h; cases h

example : ∃ t, treeAdd Node.root exRoute.syms 0 exRoute.params = .ok t ∧
    (treeGet (withInt noEnv) t "a/007--0/k".toList).core =
      some (0, exRoute.params, [intVal 7, intVal 0, .str "k".toList]) := by
  have hs : NoSel (withInt noEnv) := noSel_withInt noEnv (by intro f s r h; cases h)
  obtain ⟨t, ht⟩ : ∃ t, treeAdd Node.root exRoute.syms 0 exRoute.params = .ok t := ⟨_, rfl⟩
  refine ⟨t, ht, ?_⟩
  rw [single_rule_get (withInt noEnv) hs exRoute.syms 0 exRoute.params t ht]
  have : matchRule (withInt noEnv) exRoute.syms "a/007--0/k".toList
      = some [intVal 7, intVal 0, .str "k".toList] := by decide
  rw [this]; rfl

/-- `parsed_rule_in_domain` / `url_rematch_rule`: the rule text of `exRoute` parses to it and is
in the domain -/
example : (parseRule (fun _ => none) exRoute.rule).toOption.map (fun p => (p.syms, p.params, p.symsOut))
      = some (exRoute.syms, exRoute.params, exRoute.symsOut) ∧
    (parseRule (fun _ => none) exRoute.rule).toOption.map (inDomain exRoute.rule) = some true := by
  decide

end NonVacuity

section Witness

/-- finding `C19:url:int-text-changes-neighbour-match` (excluded by `intAfterTok = false`):
rule `/<a:int><b:int>`, path `1-0` -/
def wIntSyms : List Sym := [.tok (some "int(None)".toList), .tok (some "int(None)".toList)]

example : intAfterTok wIntSyms = true ∧
    matchRule (withInt noEnv) wIntSyms "1-0".toList = some [intVal 1, intVal 0] ∧
    buildUrl (withInt noEnv) noFmt wIntSyms [intVal 1, intVal 0] = .ok "10".toList ∧
    matchRule (withInt noEnv) wIntSyms "10".toList = none := by
  decide

/-- answers of the real handlers / formatter used below (shipped and cross-checked on every run
by the fixed correspondence case `/x/y<p:path>.<q:float>` on `x/y-3.1.5`) -/
def w17bEnv : FilterEnv := fun f s =>
  if f = "path(.)".toList then
    if s = "-3.1.5".toList then some ⟨.str "-3.1".toList, 4, none⟩
    else if s = "-3.1.".toList then some ⟨.str "-3.1".toList, 4, none⟩
    else if s = "-3.1.5.0".toList then some ⟨.str "-3.1.5".toList, 6, none⟩
    else none
  else if f = "float(None)".toList then
    if s = "5".toList then some ⟨.conv "float:5.0".toList, 1, none⟩
    else if s = "5.0".toList then some ⟨.conv "float:5.0".toList, 3, none⟩
    else if s = "0".toList then some ⟨.conv "float:0.0".toList, 1, none⟩
    else none
  else none

def w17bFmt : FormatEnv := fun f v =>
  if f = "float(None)".toList ∧ v = .conv "float:5.0".toList then .ok "5.0".toList else .error "unlisted-format"

def w17bSyms : List Sym :=
  [.lit 'x', .lit '/', .lit 'y', .tok (some "path(.)".toList), .lit '.', .tok (some "float(None)".toList)]

/-- finding `C19:url:float-text-changes-neighbour-match` (excluded by `plainIntOnly`): the URL
is built, but resolving it gives other values -/
example : plainIntOnly w17bSyms = false ∧
    matchRule w17bEnv w17bSyms "x/y-3.1.5".toList = some [.str "-3.1".toList, .conv "float:5.0".toList] ∧
    buildUrl w17bEnv w17bFmt w17bSyms [.str "-3.1".toList, .conv "float:5.0".toList] = .ok "x/y-3.1.5.0".toList ∧
    matchRule w17bEnv w17bSyms "x/y-3.1.5.0".toList = some [.str "-3.1.5".toList, .conv "float:0.0".toList] := by
  decide

/-- a text beyond the double range: `1` followed by 309 zeros -/
def wInfPath : Str := '1' :: List.replicate 309 '0'

def wInfEnv : FilterEnv := fun f s =>
  if f = "float(None)".toList ∧ s = wInfPath then some ⟨.conv "float:inf".toList, 310, none⟩ else none

def wInfFmt : FormatEnv := fun f v =>
  if f = "float(None)".toList ∧ v = .conv "float:inf".toList then .ok "Infinity".toList else .error "unlisted-format"

set_option maxRecDepth 8000 in
/-- finding `C19:url:float-overflow-inf` (excluded by `plainIntOnly`): rule `/<q:float>` matches
with `q = inf`, `url` raises -/
example : plainIntOnly [.tok (some "float(None)".toList)] = false ∧
    matchRule wInfEnv [.tok (some "float(None)".toList)] wInfPath = some [.conv "float:inf".toList] ∧
    buildUrl wInfEnv wInfFmt [.tok (some "float(None)".toList)] [.conv "float:inf".toList]
      = .error "AssertionError" := by
  decide

end Witness

end Ombott.RouteUrl
