import OmbottModel.Model.RouteUrl
/-!
C19 — Building a URL from matched parameters leads back to the same match.
Property theorems only; helper lemmas live in `Lemmas/RouteUrl*.lean`.
-/
namespace Ombott.RouteUrl
open Py Ombott.Router

/-- the marker `Route.url` scans for is the wildcard marker of the patterns (`RadiDict.param_token`
of the generated table) -/
theorem marker_is_param_token : marker = Gen.paramToken := by decide

end Ombott.RouteUrl
