import OmbottModel.Model.RouteUrl
import OmbottModel.Lemmas.RouteUrlDom
import OmbottModel.Lemmas.RouteUrlTree
import OmbottModel.Lemmas.RouteUrlParse
import OmbottModel.Lemmas.RouterBuiltinEnv
import OmbottModel.Lemmas.RouterBuiltinFloat
import OmbottModel.Gen.Routerbuiltin
/-!
C19 — Building a URL from matched parameters leads back to the same match.
Property theorems only; helper lemmas live in `Lemmas/RouteUrl*.lean`.

Statements are over the functions the driver runs: `routeUrl` (= `Route.url`), `matchRule`
(checked against the tree lookup of a single-rule router on every correspondence line),
`intFilter`/`withInt` (the `int` handler), `urlDomain`/`selFree` (reported by the driver for
every rule).

Clauses of the property
  * "literal parts of the rule appear verbatim and in order in the built URL":
    `url_literals_verbatim` (any arguments), `url_values_formatted` (matched values)
  * "building the URL from those parameters yields a path that this rule matches with the same
    parameter values": `url_rematch` (per-wildcard hypothesis `AllStable`), with `Stable` proved
    for the plain wildcard (`stable_plain_wildcard`) and for `int` (`stable_int_wildcard`),
    which gives `url_rematch_partial` without any hypothesis on filters for rules made of plain
    and `int` wildcards.

  * with the built-in filters made concrete (`Model/RouterBuiltinEnv.lean`): `stable_path_wildcard`,
    `stable_float_wildcard`, and `url_rematch_builtin` / `url_rematch_tree_builtin` — no hypothesis on
    filters for rules of plain / `int` / `float` / `path` wildcards, only decidable side conditions on
    the rule (`builtinOnly`, `convAfterTok`) and on the matched values (`sideOK`); `AllStable` stays
    the named assumption for user regular expressions (`re`) only.  What is still taken on trust for
    `float`: that `float(text)` of a numeral of at most 15 significant digits is that numeral (`repr`
    shows its digits) — a fact about IEEE-754 binary64, tied by the probe table and by differential
    runs; beyond 15 digits the converter is a parameter and the side condition is checked on its value.

Known findings carried as explicit decidable hypotheses of `url_rematch_partial`:
  * `plainIntOnly` excludes `float` wildcards (findings `C19:url:float-text-changes-neighbour-match`
    and `C19:url:float-overflow-inf`; `re`/`path` are opaque and excluded with them),
  * `intAfterTok = false` excludes an `int` wildcard directly after another wildcard
    (finding `C19:url:int-text-changes-neighbour-match`).
Section `Witness` shows that each excluded point really violates the conclusion in the model.
-/
namespace Ombott.RouteUrl
open Py Ombott.Router

/-! ### ties to the generated tables -/

/-- the marker `Route.url` scans for is the wildcard marker of the patterns (`RadiDict.param_token`
of the generated table) -/
theorem marker_is_param_token : marker = Gen.paramToken := by decide

/-- the concrete `intFilter` was written for exactly this mask and converter, and `intStr` agrees
with the live formatter on the probed values -/
theorem int_filter_table :
    Gen.intMask = "-?\\d+" ∧ Gen.intConvIsInt = true ∧
      Gen.intFmtProbe.all (fun (z, s) => intStr z == s.toList) = true := by
  decide

/-! ### literal parts verbatim and in order -/

/-- **`url_literals_verbatim`.**  Whatever arguments `Route.url` is given, a URL it returns is
the literal characters of the rule, verbatim and in order, with exactly one text per wildcard
in between. -/
theorem url_literals_verbatim (env : FilterEnv) (fenv : FormatEnv) (r : Route) (hd : urlDomain r = true)
    (args : List Val) (kw : List (Str × Val)) (u : Str) (h : routeUrl env fenv r args kw = .ok u) :
    ∃ ts : List Str, ts.length = tokCount r.symsOut ∧ u = interleave r.symsOut ts := by
  obtain ⟨h1, _, h3, _⟩ := urlDomain_spec hd
  unfold routeUrl at h
  by_cases he : r.params.isEmpty = true
  · have h0 : tokCount r.symsOut = 0 := by rw [← h3]; simpa using he
    have : urlOf env fenv (urlArgsOf r args kw) = .ok (patStr r.symsOut) := by
      unfold urlOf; simp [urlArgsOf, he]
    rw [this] at h
    cases h
    exact ⟨[], h0.symm, (interleave_noTok _ h0 _).symm⟩
  · have he' : (urlArgsOf r args kw).params.isEmpty = false := by simpa [urlArgsOf] using he
    rw [urlOf_eq_pieces env fenv _ r.symsOut rfl h1 he'] at h
    cases hp : urlPieces env fenv (urlArgsOf r args kw) r.symsOut 0 0 with
    | error e => rw [hp] at h; cases h
    | ok l =>
      rw [hp] at h
      exact pieces_interleave env fenv _ _ 0 0 l u hp h

/-- with the matched values handed back, the text standing for the `i`-th wildcard is the `i`-th
value formatted by that wildcard's formatter (and accepted by its sanity check in front of the
literal run that follows) -/
theorem url_values_formatted (env : FilterEnv) (fenv : FormatEnv) (r : Route) (hd : urlDomain r = true)
    (vs : List Val) (hv : vs.length = tokCount r.symsOut) (u : Str)
    (h : routeUrl env fenv r (splitArgs r.params vs).1 (splitArgs r.params vs).2 = .ok u) :
    ∃ ts : List Str, ts.length = tokCount r.symsOut ∧ u = interleave r.symsOut ts ∧
      Formatted env fenv (tokCtx r.symsOut) vs ts := by
  rw [routeUrl_matched env fenv r hd vs hv] at h
  exact buildUrl_interleave env fenv _ _ _ h

/-! ### the built URL is matched again with the same values -/

/-- **`url_rematch`.**  For every rule and path: if the rule matches the path with values `vs`,
then `Route.url` called with those values (anonymous ones positionally, the others by name)
returns a URL which the rule matches with the same values — provided every wildcard is stable
where it stands (`AllStable`: the formatted value, followed by the URL built for the rest of
the rule, is accepted by the wildcard's filter with the same value, consuming exactly the
formatted text).  `AllStable` is the named assumption for user regular expressions (`re`); for
plain and `int` wildcards it follows from `stable_plain_wildcard`/`stable_int_wildcard`
(`stableAt_of_stable`), for `path` and `float` wildcards see `stable_path_wildcard`,
`stable_float_wildcard` and `url_rematch_builtin`. -/
theorem url_rematch (env : FilterEnv) (fenv : FormatEnv) (r : Route)
    (hd : urlDomain r = true) (hsel : selFree r = true) (hst : AllStable env fenv r.syms)
    (path : Str) (vs : List Val) (hm : matchRule env r.syms path = some vs) :
    ∃ u, routeUrl env fenv r (splitArgs r.params vs).1 (splitArgs r.params vs).2 = .ok u ∧
      matchRule env r.syms u = some vs := by
  have hs : r.symsOut = r.syms := by simpa [selFree] using hsel
  have hv : vs.length = tokCount r.symsOut := by rw [hs]; exact matchRule_length hm
  rw [routeUrl_matched env fenv r hd vs hv, hs]
  exact rematch_spec hst hm

/-- `Stable` holds for the plain wildcard ("up to the next `/`", identity formatter, no check) -/
theorem stable_plain_wildcard (env : FilterEnv) (fenv : FormatEnv) :
    Stable (tokRes env none) (piece env fenv none) := stable_plain env fenv

/-- `Stable` holds for the `int` wildcard: mask `-?\d+` over the decimal digits of the running
interpreter, converter `int`, formatter = canonical decimal text -/
theorem stable_int_wildcard (env : FilterEnv) (fenv : FormatEnv) (g : Fid) (hg : isIntFid g = true) :
    Stable (tokRes (withInt env) (some g)) (piece (withInt env) fenv (some g)) := stable_int env fenv g hg

/-- a wildcard that is `Stable` is stable where it stands as soon as the wildcards directly
after it keep the first character of their text (`HeadRun`; trivially true when a literal or
the end of the rule follows) -/
theorem stable_in_context (env : FilterEnv) (fenv : FormatEnv) (f : Option Fid) (p' : List Sym)
    (hs : Stable (tokRes env f) (piece env fenv f)) (hr : HeadRun env fenv p') : StableAt env fenv f p' :=
  stableAt_of_stable hs hr

/-- a wildcard without formatter whose handler answers with the text it consumed (`re`, `path`)
keeps the first character of its text, so a plain or `int` wildcard directly before it is still
stable where it stands (`stable_in_context` with `HeadRun`) -/
theorem text_filter_keeps_head (env : FilterEnv) (fenv : FormatEnv) (g : Fid) (ht : TextFilter env g) :
    HeadKeep (tokRes env (some g)) (piece env fenv (some g)) := headKeep_text env fenv g ht

/- OPEN: theorem url_rematch_all — the statement of `url_rematch_partial` for *every* rule of the
   property's domain (`float`, `re`, `path` wildcards included, an `int` wildcard anywhere),
   with the real handlers and formatters standing for `env`/`fenv` and no stability hypothesis:
     matchRule env r.syms path = some vs →
       ∃ u, routeUrl env fenv r (splitArgs r.params vs).1 (splitArgs r.params vs).2 = .ok u ∧
            matchRule env r.syms u = some vs
   It is FALSE on the current tree (section `Witness`: canonical `int` text `-0 -> 0` after a
   digit-eating wildcard; canonical `float` text `5 -> 5.0` next to a greedy `path` filter;
   `float` overflow to `inf`), so it is proved in parts: `url_rematch` keeps `AllStable` as
   the per-wildcard hypothesis (needed for user regular expressions, `re`, only);
   `url_rematch_partial` discharges it for plain and `int` wildcards; `url_rematch_builtin` (section
   `Builtin` below) discharges it for plain / `int` / `float` / `path` wildcards under decidable side
   conditions which are exactly the shapes of the recorded findings. -/

/-- **`url_rematch_partial`**: `url_rematch` without any hypothesis on filters, for rules whose
wildcards are plain or `int` (decidable `plainIntOnly`) and in which no `int` wildcard directly
follows another wildcard (decidable `intAfterTok`); `env` is arbitrary (it is not consulted). -/
theorem url_rematch_partial (env : FilterEnv) (fenv : FormatEnv) (r : Route)
    (hd : urlDomain r = true) (hsel : selFree r = true)
    (hpi : plainIntOnly r.syms = true) (hadj : intAfterTok r.syms = false)
    (path : Str) (vs : List Val) (hm : matchRule (withInt env) r.syms path = some vs) :
    ∃ u, routeUrl (withInt env) fenv r (splitArgs r.params vs).1 (splitArgs r.params vs).2 = .ok u ∧
      matchRule (withInt env) r.syms u = some vs :=
  url_rematch (withInt env) fenv r hd hsel (allStable_plainInt env fenv r.syms hpi hadj) path vs hm

/-! ### the same on the router's tree (a router holding only that rule) -/

/-- `intFilter` never answers with a selector -/
theorem noSel_withInt (env : FilterEnv) (hs : NoSel env) : NoSel (withInt env) := by
  intro f s r h
  unfold withInt at h
  by_cases hf : isIntFid f = true
  · rw [if_pos hf] at h
    exact (intFilter_spec h).2.1
  · rw [if_neg hf] at h
    exact hs f s r h

/-- **`url_rematch` observed where the property observes it**: on the tree of a router that
holds only the rule (`RadiDict.add` of its pattern into an empty tree), if the lookup of `path`
hits with values `vs`, then `Route.url` on those values returns a URL whose lookup hits the same
route with the same names and the same values.  Uses C01's `get_eq_spec`/`insert_wf`/
`insert_denote` (lookup in a well-formed tree = rule-by-rule matcher), hence `NoSel`. -/
theorem url_rematch_tree (env : FilterEnv) (fenv : FormatEnv) (hs : NoSel env) (r : Route)
    (hd : urlDomain r = true) (hsel : selFree r = true) (hst : AllStable env fenv r.syms)
    (id : Nat) (t : Node) (ht : treeAdd Node.root r.syms id r.params = .ok t)
    (path : Str) (vs : List Val) (hg : (treeGet env t path).core = some (id, r.params, vs)) :
    ∃ u, routeUrl env fenv r (splitArgs r.params vs).1 (splitArgs r.params vs).2 = .ok u ∧
      (treeGet env t u).core = some (id, r.params, vs) := by
  rw [single_rule_get env hs r.syms id r.params t ht path] at hg
  have hm : matchRule env r.syms path = some vs := by
    cases h : matchRule env r.syms path with
    | none => rw [h] at hg; cases hg
    | some vs' =>
      rw [h] at hg
      simp only [Option.map_some, Option.some.injEq, Prod.mk.injEq, true_and] at hg
      rw [hg]
  obtain ⟨u, hu, hr⟩ := url_rematch env fenv r hd hsel hst path vs hm
  exact ⟨u, hu, by rw [single_rule_get env hs r.syms id r.params t ht u, hr]; rfl⟩

/-- the closed form on the tree, for rules of plain and `int` wildcards -/
theorem url_rematch_tree_partial (env : FilterEnv) (fenv : FormatEnv) (hs : NoSel env) (r : Route)
    (hd : urlDomain r = true) (hsel : selFree r = true)
    (hpi : plainIntOnly r.syms = true) (hadj : intAfterTok r.syms = false)
    (id : Nat) (t : Node) (ht : treeAdd Node.root r.syms id r.params = .ok t)
    (path : Str) (vs : List Val) (hg : (treeGet (withInt env) t path).core = some (id, r.params, vs)) :
    ∃ u, routeUrl (withInt env) fenv r (splitArgs r.params vs).1 (splitArgs r.params vs).2 = .ok u ∧
      (treeGet (withInt env) t u).core = some (id, r.params, vs) :=
  url_rematch_tree (withInt env) fenv (noSel_withInt env hs) r hd hsel
    (allStable_plainInt env fenv r.syms hpi hadj) id t ht path vs hg

/-! ### from the rule text -/

/-- the route object `RadiRouter` stores for a parsed rule -/
def routeOf (rule : Str) (p : Parsed) : Route :=
  { rule := rule, syms := p.syms, params := p.params, symsOut := p.symsOut }

/-- every rule text that `Route.parse_rule` accepts and that lies in the model's domain (no
marker character in the text, no repeated wildcard name) gives a route in the domain of the
theorems above: literal text free of the marker, one distinct name per wildcard, filters paired
with the markers of the output pattern -/
theorem parsed_rule_in_domain (cenv : CompileEnv) (rule : Str) (p : Parsed)
    (h : parseRule cenv rule = .ok p) (hd : inDomain rule p = true) : urlDomain (routeOf rule p) = true :=
  parseRule_urlDomain cenv rule p h hd

/-- **`url_rematch` for every rule text**: rule text → `parse_rule` → match → `url` → match -/
theorem url_rematch_rule (cenv : CompileEnv) (env : FilterEnv) (fenv : FormatEnv) (rule : Str) (p : Parsed)
    (hp : parseRule cenv rule = .ok p) (hd : inDomain rule p = true) (hsel : selFree (routeOf rule p) = true)
    (hst : AllStable env fenv p.syms)
    (path : Str) (vs : List Val) (hm : matchRule env p.syms path = some vs) :
    ∃ u, routeUrl env fenv (routeOf rule p) (splitArgs p.params vs).1 (splitArgs p.params vs).2 = .ok u ∧
      matchRule env p.syms u = some vs :=
  url_rematch env fenv (routeOf rule p) (parsed_rule_in_domain cenv rule p hp hd) hsel hst path vs hm

/-! ### non-vacuity and witnesses -/
section NonVacuity

def noEnv : FilterEnv := fun _ _ => none
def noFmt : FormatEnv := fun _ _ => .error "unlisted-format"

/-- the route of rule `/a/<x:int>-<:int>/<y>` -/
def exRoute : Route :=
  { rule := "/a/<x:int>-<:int>/<y>".toList,
    syms := [.lit 'a', .lit '/', .tok (some "int(None)".toList), .lit '-', .tok (some "int(None)".toList),
             .lit '/', .tok none],
    params := ["x".toList, "anon-0".toList, "y".toList],
    symsOut := [.lit 'a', .lit '/', .tok (some "int(None)".toList), .lit '-', .tok (some "int(None)".toList),
                .lit '/', .tok none] }

/-- the hypotheses of `url_rematch_partial` (and so of `url_rematch`) are met by a concrete rule
with named and anonymous wildcards, on a path whose canonical text differs (`007`, `-0`) -/
example : urlDomain exRoute = true ∧ selFree exRoute = true ∧ plainIntOnly exRoute.syms = true ∧
    intAfterTok exRoute.syms = false ∧
    matchRule (withInt noEnv) exRoute.syms "a/007--0/k".toList = some [intVal 7, intVal 0, .str "k".toList] := by
  decide

/-- … and the conclusion, computed: the URL is `a/7-0/k` and is matched with the same values -/
example :
    routeUrl (withInt noEnv) noFmt exRoute [intVal 0] [("x".toList, intVal 7), ("y".toList, .str "k".toList)]
      = .ok "a/7-0/k".toList ∧
    matchRule (withInt noEnv) exRoute.syms "a/7-0/k".toList = some [intVal 7, intVal 0, .str "k".toList] := by
  decide

/-- `Stable`'s premise is met: the `int` handler accepts `-007x` with value -7 -/
example : tokRes (withInt noEnv) (some "int(None)".toList) "-007x".toList = some ⟨intVal (-7), 4, none⟩ := by
  decide

/-- the hypothesis `AllStable` of `url_rematch` holds for that rule -/
example : AllStable (withInt noEnv) noFmt exRoute.syms :=
  allStable_plainInt noEnv noFmt exRoute.syms (by decide) (by decide)

/-- `stable_int_wildcard`: both spellings of the `int` filter's identity are `int` filters -/
example : isIntFid "int(None)".toList = true ∧ isIntFid "int()".toList = true := by decide

/-- `text_filter_keeps_head`: a handler that answers with the first character it is given -/
example : TextFilter (fun _ s => some ⟨.str (s.take 1), 1, none⟩) "re(.)".toList :=
  ⟨by decide, by intro s r h; cases h; rfl⟩

/-- `stable_in_context`: `HeadRun` holds in front of a literal, at the end of the rule, and in
front of a plain wildcard -/
example : HeadRun (withInt noEnv) noFmt [.lit '/', .tok none] ∧ HeadRun (withInt noEnv) noFmt [] ∧
    HeadRun (withInt noEnv) noFmt [.tok none, .lit 'a'] :=
  ⟨trivial, trivial, headKeep_plain _ _, trivial⟩

/-- the hypotheses of `url_rematch_tree(_partial)`: `noEnv` has no selectors, the rule is added
to the empty tree, and the lookup of `a/007--0/k` hits with the values above -/
example : NoSel noEnv := by intro f s r h; cases h

example : ∃ t, treeAdd Node.root exRoute.syms 0 exRoute.params = .ok t ∧
    (treeGet (withInt noEnv) t "a/007--0/k".toList).core =
      some (0, exRoute.params, [intVal 7, intVal 0, .str "k".toList]) := by
  have hs : NoSel (withInt noEnv) := noSel_withInt noEnv (by intro f s r h; cases h)
  obtain ⟨t, ht⟩ : ∃ t, treeAdd Node.root exRoute.syms 0 exRoute.params = .ok t := ⟨_, rfl⟩
  refine ⟨t, ht, ?_⟩
  rw [single_rule_get (withInt noEnv) hs exRoute.syms 0 exRoute.params t ht]
  have : matchRule (withInt noEnv) exRoute.syms "a/007--0/k".toList
      = some [intVal 7, intVal 0, .str "k".toList] := by decide
  rw [this]; rfl

/-- `parsed_rule_in_domain` / `url_rematch_rule`: the rule text of `exRoute` parses to it and is
in the domain -/
example : (parseRule (fun _ => none) exRoute.rule).toOption.map (fun p => (p.syms, p.params, p.symsOut))
      = some (exRoute.syms, exRoute.params, exRoute.symsOut) ∧
    (parseRule (fun _ => none) exRoute.rule).toOption.map (inDomain exRoute.rule) = some true := by
  decide

end NonVacuity

section Witness

/-- finding `C19:url:int-text-changes-neighbour-match` (excluded by `intAfterTok = false`):
rule `/<a:int><b:int>`, path `1-0` -/
def wIntSyms : List Sym := [.tok (some "int(None)".toList), .tok (some "int(None)".toList)]

example : intAfterTok wIntSyms = true ∧
    matchRule (withInt noEnv) wIntSyms "1-0".toList = some [intVal 1, intVal 0] ∧
    buildUrl (withInt noEnv) noFmt wIntSyms [intVal 1, intVal 0] = .ok "10".toList ∧
    matchRule (withInt noEnv) wIntSyms "10".toList = none := by
  decide

/-- answers of the real handlers / formatter used below (shipped and cross-checked on every run
by the fixed correspondence case `/x/y<p:path>.<q:float>` on `x/y-3.1.5`) -/
def w17bEnv : FilterEnv := fun f s =>
  if f = "path(.)".toList then
    if s = "-3.1.5".toList then some ⟨.str "-3.1".toList, 4, none⟩
    else if s = "-3.1.".toList then some ⟨.str "-3.1".toList, 4, none⟩
    else if s = "-3.1.5.0".toList then some ⟨.str "-3.1.5".toList, 6, none⟩
    else none
  else if f = "float(None)".toList then
    if s = "5".toList then some ⟨.conv "float:5.0".toList, 1, none⟩
    else if s = "5.0".toList then some ⟨.conv "float:5.0".toList, 3, none⟩
    else if s = "0".toList then some ⟨.conv "float:0.0".toList, 1, none⟩
    else none
  else none

def w17bFmt : FormatEnv := fun f v =>
  if f = "float(None)".toList ∧ v = .conv "float:5.0".toList then .ok "5.0".toList else .error "unlisted-format"

def w17bSyms : List Sym :=
  [.lit 'x', .lit '/', .lit 'y', .tok (some "path(.)".toList), .lit '.', .tok (some "float(None)".toList)]

/-- finding `C19:url:float-text-changes-neighbour-match` (excluded by `plainIntOnly`): the URL
is built, but resolving it gives other values -/
example : plainIntOnly w17bSyms = false ∧
    matchRule w17bEnv w17bSyms "x/y-3.1.5".toList = some [.str "-3.1".toList, .conv "float:5.0".toList] ∧
    buildUrl w17bEnv w17bFmt w17bSyms [.str "-3.1".toList, .conv "float:5.0".toList] = .ok "x/y-3.1.5.0".toList ∧
    matchRule w17bEnv w17bSyms "x/y-3.1.5.0".toList = some [.str "-3.1.5".toList, .conv "float:0.0".toList] := by
  decide

/-- a text beyond the double range: `1` followed by 309 zeros -/
def wInfPath : Str := '1' :: List.replicate 309 '0'

def wInfEnv : FilterEnv := fun f s =>
  if f = "float(None)".toList ∧ s = wInfPath then some ⟨.conv "float:inf".toList, 310, none⟩ else none

def wInfFmt : FormatEnv := fun f v =>
  if f = "float(None)".toList ∧ v = .conv "float:inf".toList then .ok "Infinity".toList else .error "unlisted-format"

set_option maxRecDepth 8000 in
/-- finding `C19:url:float-overflow-inf` (excluded by `plainIntOnly`): rule `/<q:float>` matches
with `q = inf`, `url` raises -/
example : plainIntOnly [.tok (some "float(None)".toList)] = false ∧
    matchRule wInfEnv [.tok (some "float(None)".toList)] wInfPath = some [.conv "float:inf".toList] ∧
    buildUrl wInfEnv wInfFmt [.tok (some "float(None)".toList)] [.conv "float:inf".toList]
      = .error "AssertionError" := by
  decide

end Witness

/-! ### the built-in filters made concrete (`Model/RouterBuiltinEnv.lean`)

`withBuiltin fc env` computes the handlers of `int`, `float`, `path` (`env` is consulted for user
regular expressions only; `fc` is `float(text)` for numerals of more than 15 significant digits),
`withFloatFmt fenv` computes the `float` formatter.  The driver lines `routeurl rt`/`url` run exactly
these. -/
section Builtin
open Ombott.Builtins

/-- the concrete `float` formatter is the live `_float_out` on the probed values (both notations
of `repr`, subnormal and largest doubles, 17-digit values) -/
theorem builtin_float_fmt_agrees :
    (Gen.rbFloatFmt.all fun p =>
      floatFmt (.conv ("float:".toList ++ p.1)) == some p.2) = true := by
  decide +kernel

/-- **`stable_path_wildcard`.**  A `path` wildcard whose look-ahead is the literal run that follows
it in the rule (`fidArgs g = litRun p'`, what the parser configures) and which is not directly
followed by another wildcard is stable where it stands: if it matched `t = path.take r.n` in front
of the rest of the path, and the rest of the rule matches the URL `rest'` built for it with the same
values, then `url` puts `t` itself into the URL (identity, accepted by the sanity check in front of
the literal) and `t ++ rest'` is matched again with exactly `t` — **provided the look-ahead literal
does not stand again in `rest'` at a position `1 … (length of the first line of rest')`**
(`laterLit (litRun p') rest' = false`, decidable).  This is the precise condition: the greedy `.+`
backtracks from the end of the line to the *last* position in front of the literal. -/
theorem stable_path_wildcard (fc : FloatConv) (env : FilterEnv) (fenv : FormatEnv) (g : Fid) (p' : List Sym)
    (hg : isPathFid g = true) (hconf : fidArgs g = litRun p') (hnt : startsWithTok p' = false)
    (path : Str) (r : FilterRes) (vs : List Val) (rest' : Str) (hne : path ≠ [])
    (ht : tokRes (withBuiltin fc env) (some g) path = some r)
    (hm : matchRule (withBuiltin fc env) p' (path.drop r.n) = some vs)
    (hb : buildUrl (withBuiltin fc env) fenv p' vs = .ok rest')
    (hr : matchRule (withBuiltin fc env) p' rest' = some vs)
    (hside : laterLit (litRun p') rest' = false) :
    ∃ u, piece (withBuiltin fc env) fenv (some g) (litRun p') r.val = .ok (.str u) ∧ u ++ rest' ≠ [] ∧
      ∃ r', tokRes (withBuiltin fc env) (some g) (u ++ rest') = some r' ∧ r'.val = r.val ∧ r'.n = u.length :=
  stableAtSide_path fc env fenv g p' hg hconf hnt path r vs rest' hne ht hm hb hr
    (by simp [tokSide, not_int_of_path hg, not_float_of_path hg, hg, hside])

/-- the side condition of `stable_path_wildcard` **holds by itself when the text after the wildcard
is unchanged** in the URL: if the rest of the rule has no converting wildcard (`textOnly`: plain and
`path` wildcards only), the URL built for it is the rest of the path, in which the literal cannot
stand again because the original match was the longest.  So `StableAt` holds unconditionally. -/
theorem stable_path_wildcard_unchanged_followers (fc : FloatConv) (env : FilterEnv) (fenv : FormatEnv) (g : Fid)
    (p' : List Sym) (hg : isPathFid g = true) (hconf : fidArgs g = litRun p') (hnt : startsWithTok p' = false)
    (hb' : builtinOnly p' = true) (htxt : textOnly p' = true) :
    StableAt (withBuiltin fc env) fenv (some g) p' := by
  intro path r vs rest' hne ht hm hb hr
  have hbu := buildUrl_textOnly fc env fenv p' _ vs hb' htxt hm
  rw [hbu] at hb
  cases hb
  have ht' : pathFilter (fidArgs g) path = some r := by rw [← withBuiltin_path fc env hg]; exact ht
  have hl := laterLit_orig ht'
  rw [hconf] at hl
  exact stable_path_wildcard fc env fenv g p' hg hconf hnt path r vs _ hne ht hm hbu hr hl

/-- **`stable_float_wildcard`.**  A `float` wildcard is stable where it stands for every value
whose formatted text is read back, whole, as the same value and either has a decimal point or is
not followed in the URL by `.` and a digit (`floatSide`, decidable on the value and the URL built
for the rest of the rule; implied by `floatValOK`, which `float_value_ok_exact` proves for every
numeral of at most 15 significant digits below 1e16), when the wildcards directly after it keep the
head of their text. -/
theorem stable_float_wildcard (fc : FloatConv) (env : FilterEnv) (fenv : FormatEnv) (g : Fid) (p' : List Sym)
    (hg : isFloatFid g = true) (hrun : HeadRun (withBuiltin fc env) (withFloatFmt fenv) p')
    (path : Str) (r : FilterRes) (vs : List Val) (rest' : Str) (hne : path ≠ [])
    (ht : tokRes (withBuiltin fc env) (some g) path = some r)
    (hm : matchRule (withBuiltin fc env) p' (path.drop r.n) = some vs)
    (hb : buildUrl (withBuiltin fc env) (withFloatFmt fenv) p' vs = .ok rest')
    (hr : matchRule (withBuiltin fc env) p' rest' = some vs)
    (hside : floatSide fc r.val rest' = true) :
    ∃ u, piece (withBuiltin fc env) (withFloatFmt fenv) (some g) (litRun p') r.val = .ok (.str u) ∧ u ++ rest' ≠ [] ∧
      ∃ r', tokRes (withBuiltin fc env) (some g) (u ++ rest') = some r' ∧ r'.val = r.val ∧ r'.n = u.length :=
  stableAtSide_float fc env fenv g p' hg hrun path r vs rest' hne ht hm hb hr
    (by simp [tokSide, not_int_of_float hg, hg, hside])

/-- **`url_rematch_builtin`**: `url_rematch` with **no hypothesis on filters** for rules whose
wildcards are plain, `int`, `float` or `path` (`builtinOnly`: a `path` wildcard looks ahead for the
literal run that follows it and is not directly followed by another wildcard) and in which no
converting wildcard directly follows another wildcard (`convAfterTok`).  The remaining hypotheses
are decidable side conditions on the matched values (`sideOK`):
  * every `float` value meets `floatSide` (its formatted text reads back as the same value, and has
    a decimal point or is not followed by `.` and a digit in the URL),
  * after no `path` wildcard does the literal it looks ahead for stand again, before the first
    newline, in the URL built for the rest of the rule (`laterLit`; automatic when no converting
    wildcard follows the `path` wildcard, `url_rematch_builtin_static`).
Both exclusions are the known findings `C19:url:float-…`/`int-text-changes-neighbour-match` (section
`WitnessBuiltin`). -/
theorem url_rematch_builtin (fc : FloatConv) (env : FilterEnv) (fenv : FormatEnv) (r : Route)
    (hd : urlDomain r = true) (hsel : selFree r = true)
    (hb : builtinOnly r.syms = true) (hadj : convAfterTok r.syms = false)
    (path : Str) (vs : List Val) (hm : matchRule (withBuiltin fc env) r.syms path = some vs)
    (hside : sideOK fc (withBuiltin fc env) (withFloatFmt fenv) r.syms vs = true) :
    ∃ u, routeUrl (withBuiltin fc env) (withFloatFmt fenv) r (splitArgs r.params vs).1 (splitArgs r.params vs).2 = .ok u ∧
      matchRule (withBuiltin fc env) r.syms u = some vs := by
  have hs : r.symsOut = r.syms := by simpa [selFree] using hsel
  have hv : vs.length = tokCount r.symsOut := by rw [hs]; exact matchRule_length hm
  rw [routeUrl_matched (withBuiltin fc env) (withFloatFmt fenv) r hd vs hv, hs]
  exact rematch_spec_side (allStableSide_builtin fc env fenv r.syms hb hadj) hm hside

/-- `url_rematch_builtin` with the side conditions discharged statically: no `path` wildcard is
followed later in the rule by a converting wildcard (`pathThenText`); what is left is the `float`
part (`floatsOK`: every `float` value is `floatValOK`) -/
theorem url_rematch_builtin_static (fc : FloatConv) (env : FilterEnv) (fenv : FormatEnv) (r : Route)
    (hd : urlDomain r = true) (hsel : selFree r = true)
    (hb : builtinOnly r.syms = true) (hadj : convAfterTok r.syms = false) (hpt : pathThenText r.syms = true)
    (path : Str) (vs : List Val) (hm : matchRule (withBuiltin fc env) r.syms path = some vs)
    (hfl : floatsOK fc r.syms vs = true) :
    ∃ u, routeUrl (withBuiltin fc env) (withFloatFmt fenv) r (splitArgs r.params vs).1 (splitArgs r.params vs).2 = .ok u ∧
      matchRule (withBuiltin fc env) r.syms u = some vs :=
  url_rematch_builtin fc env fenv r hd hsel hb hadj path vs hm
    (sideOK_static fc env (withFloatFmt fenv) r.syms path vs hb hpt hm hfl)

/-- **`float_value_ok_exact`**: the `float` side condition holds by itself for every numeral the
model converts itself.  If the text matched by `-?\d+(\.\d+)?` has at most 15 significant digits
(`exactDec`) and its decimal point stands after at most 16 digits (value below 1e16), then the
handler's value is `repr` of that numeral, the formatter `format(Decimal(repr(x)), 'f')` gives its
positional text — which has a decimal point — and the handler reads that text back, whole, as the
same value.  A theorem about the concrete converter/formatter pair (text manipulation only). -/
theorem float_value_ok_exact (fc : FloatConv) (s : Str) (l : FloatLex) (hl : floatLex s = some l)
    (he : exactDec l.dec = true) (hpt : l.dec.pt ≤ 16) :
    floatFilter fc s = some ⟨floatVal l.dec, l.len, none⟩ ∧ floatValOK fc (floatVal l.dec) = true := by
  refine ⟨?_, floatValOK_exact fc hl he hpt⟩
  unfold floatFilter
  rw [hl]
  simp [he]

/-- **`url_rematch_builtin_exact`**: `url_rematch` for rules of plain / `int` / `float` / `path`
wildcards with **every hypothesis decidable on the rule and the path, none on filters, values or
URLs**: no converting wildcard directly after another wildcard (`convAfterTok`), no converting
wildcard anywhere after a `path` wildcard (`pathThenText`: the text after it is then unchanged in
the URL, and the original match was the longest), and every numeral a `float` wildcard takes from
the path has at most 15 significant digits and lies below 1e16 (`floatTextsExact`). -/
theorem url_rematch_builtin_exact (fc : FloatConv) (env : FilterEnv) (fenv : FormatEnv) (r : Route)
    (hd : urlDomain r = true) (hsel : selFree r = true)
    (hb : builtinOnly r.syms = true) (hadj : convAfterTok r.syms = false) (hpt : pathThenText r.syms = true)
    (path : Str) (vs : List Val) (hm : matchRule (withBuiltin fc env) r.syms path = some vs)
    (hfl : floatTextsExact (withBuiltin fc env) r.syms path = true) :
    ∃ u, routeUrl (withBuiltin fc env) (withFloatFmt fenv) r (splitArgs r.params vs).1 (splitArgs r.params vs).2 = .ok u ∧
      matchRule (withBuiltin fc env) r.syms u = some vs :=
  url_rematch_builtin_static fc env fenv r hd hsel hb hadj hpt path vs hm
    (floatsOK_of_texts fc env r.syms path vs hm hfl)

/-- **`url_rematch_tree_builtin`**: the same observed where the property observes it, on the tree of
a router holding only the rule, through C01 (`get_eq_spec`, `insert_wf`, `insert_denote`).  The
concrete environment has no selectors, so no hypothesis on filters is left. -/
theorem url_rematch_tree_builtin (fc : FloatConv) (fenv : FormatEnv) (r : Route)
    (hd : urlDomain r = true) (hsel : selFree r = true)
    (hb : builtinOnly r.syms = true) (hadj : convAfterTok r.syms = false)
    (id : Nat) (t : Node) (ht : treeAdd Node.root r.syms id r.params = .ok t)
    (path : Str) (vs : List Val) (hg : (treeGet (builtinEnv fc) t path).core = some (id, r.params, vs))
    (hside : sideOK fc (builtinEnv fc) (withFloatFmt fenv) r.syms vs = true) :
    ∃ u, routeUrl (builtinEnv fc) (withFloatFmt fenv) r (splitArgs r.params vs).1 (splitArgs r.params vs).2 = .ok u ∧
      (treeGet (builtinEnv fc) t u).core = some (id, r.params, vs) := by
  have hs := noSel_builtinEnv fc
  rw [single_rule_get (builtinEnv fc) hs r.syms id r.params t ht path] at hg
  have hm : matchRule (builtinEnv fc) r.syms path = some vs := by
    cases h : matchRule (builtinEnv fc) r.syms path with
    | none => rw [h] at hg; cases hg
    | some vs' =>
      rw [h] at hg
      simp only [Option.map_some, Option.some.injEq, Prod.mk.injEq, true_and] at hg
      rw [hg]
  obtain ⟨u, hu, hr⟩ := url_rematch_builtin fc (fun _ _ => none) fenv r hd hsel hb hadj path vs hm hside
  exact ⟨u, hu, by rw [single_rule_get (builtinEnv fc) hs r.syms id r.params t ht u]; rw [show matchRule (builtinEnv fc) r.syms u = some vs from hr]; rfl⟩

/-- … with any selector-free environment standing for the user-regex filters (what the driver
runs: the shipped answers are not consulted for a rule of built-in wildcards) -/
theorem url_rematch_tree_builtin_env (fc : FloatConv) (env : FilterEnv) (hs : NoSel env) (fenv : FormatEnv) (r : Route)
    (hd : urlDomain r = true) (hsel : selFree r = true)
    (hb : builtinOnly r.syms = true) (hadj : convAfterTok r.syms = false)
    (id : Nat) (t : Node) (ht : treeAdd Node.root r.syms id r.params = .ok t)
    (path : Str) (vs : List Val) (hg : (treeGet (withBuiltin fc env) t path).core = some (id, r.params, vs))
    (hside : sideOK fc (withBuiltin fc env) (withFloatFmt fenv) r.syms vs = true) :
    ∃ u, routeUrl (withBuiltin fc env) (withFloatFmt fenv) r (splitArgs r.params vs).1 (splitArgs r.params vs).2 = .ok u ∧
      (treeGet (withBuiltin fc env) t u).core = some (id, r.params, vs) := by
  have hs' := noSel_withBuiltin fc env hs
  rw [single_rule_get (withBuiltin fc env) hs' r.syms id r.params t ht path] at hg
  have hm : matchRule (withBuiltin fc env) r.syms path = some vs := by
    cases h : matchRule (withBuiltin fc env) r.syms path with
    | none => rw [h] at hg; cases hg
    | some vs' =>
      rw [h] at hg
      simp only [Option.map_some, Option.some.injEq, Prod.mk.injEq, true_and] at hg
      rw [hg]
  obtain ⟨u, hu, hr⟩ := url_rematch_builtin fc env fenv r hd hsel hb hadj path vs hm hside
  exact ⟨u, hu, by rw [single_rule_get (withBuiltin fc env) hs' r.syms id r.params t ht u, hr]; rfl⟩

/-! #### non-vacuity of the built-in theorems -/
section NonVacuityBuiltin

def fc0 : FloatConv := fun _ => .conv "float:?".toList

/-- the route object of a rule text (empty route when it does not parse) -/
def routeOfRule (rule : String) : Route :=
  match parseRule (fun _ => none) rule.toList with
  | .ok p => routeOf rule.toList p
  | .error _ => { rule := rule.toList, syms := [], params := [], symsOut := [] }

def exPathInt : Route := routeOfRule "/dl/<p:path>.tar/img/<n:int>.png"
def exFloatPath : Route := routeOfRule "/w/<x:float>/<p:path>"

/-- the hypotheses of `url_rematch_builtin` are met by `/dl/<p:path>.tar/img/<n:int>.png` on a
path with a decoy occurrence of the literal and a non-canonical integer (the `int` wildcard after
the `path` wildcard changes its text `007 → 7`, so `pathThenText` is false and the dynamic side
condition is what holds) -/
example : urlDomain exPathInt = true ∧ selFree exPathInt = true ∧ builtinOnly exPathInt.syms = true ∧
    convAfterTok exPathInt.syms = false ∧ pathThenText exPathInt.syms = false ∧
    matchRule (builtinEnv fc0) exPathInt.syms "dl/a.tar/img/b.tar/img/007.png".toList
      = some [.str "a.tar/img/b".toList, intVal 7] ∧
    sideOK fc0 (builtinEnv fc0) (withFloatFmt noFmt) exPathInt.syms [.str "a.tar/img/b".toList, intVal 7] = true := by
  decide +kernel

/-- … and the conclusion, computed -/
example :
    routeUrl (builtinEnv fc0) (withFloatFmt noFmt) exPathInt [] [("p".toList, .str "a.tar/img/b".toList), ("n".toList, intVal 7)]
      = .ok "dl/a.tar/img/b.tar/img/7.png".toList ∧
    matchRule (builtinEnv fc0) exPathInt.syms "dl/a.tar/img/b.tar/img/7.png".toList
      = some [.str "a.tar/img/b".toList, intVal 7] := by
  decide +kernel

/-- the hypotheses of `url_rematch_builtin_static` (`pathThenText`, `floatsOK`) on
`/w/<x:float>/<p:path>`, path `w/007.50/a/b`: value `7.5`, URL `w/7.5/a/b` -/
example : urlDomain exFloatPath = true ∧ selFree exFloatPath = true ∧ builtinOnly exFloatPath.syms = true ∧
    convAfterTok exFloatPath.syms = false ∧ pathThenText exFloatPath.syms = true ∧
    matchRule (builtinEnv fc0) exFloatPath.syms "w/007.50/a/b".toList
      = some [.conv "float:7.5".toList, .str "a/b".toList] ∧
    floatsOK fc0 exFloatPath.syms [.conv "float:7.5".toList, .str "a/b".toList] = true ∧
    routeUrl (builtinEnv fc0) (withFloatFmt noFmt) exFloatPath [] [("x".toList, .conv "float:7.5".toList), ("p".toList, .str "a/b".toList)]
      = .ok "w/7.5/a/b".toList := by
  decide +kernel

/-- the hypotheses of `url_rematch_builtin_exact` / `float_value_ok_exact` on that rule and path -/
example : floatTextsExact (builtinEnv fc0) exFloatPath.syms "w/007.50/a/b".toList = true ∧
    floatTextsExact (builtinEnv fc0) exFloatPath.syms "w/12345678901234567/a".toList = false ∧
    floatTextsExact (builtinEnv fc0) exFloatPath.syms "w/10000000000000000.0/a".toList = false ∧
    (floatLex "007.50/a".toList).map (fun l => (l.dec, exactDec l.dec, l.len)) = some (⟨false, "75".toList, 1⟩, true, 6) := by
  decide +kernel

/-- premises of `stable_path_wildcard` / `stable_float_wildcard`: the handlers accept -/
example : tokRes (builtinEnv fc0) (some "path(.tar/)".toList) "a.tar/b.tar/c".toList = some ⟨.str "a.tar/b".toList, 7, none⟩ ∧
    laterLit ".tar/".toList ".tar/c".toList = false ∧ laterLit ".tar/".toList ".tar/c.tar/".toList = true ∧
    tokRes (builtinEnv fc0) (some "float(None)".toList) "-0012.50/x".toList = some ⟨.conv "float:-12.5".toList, 8, none⟩ ∧
    floatValOK fc0 (.conv "float:-12.5".toList) = true ∧ floatValOK fc0 (.conv "float:1e-05".toList) = true ∧
    floatSide fc0 (.conv "float:1e+16".toList) "/x".toList = true ∧ floatSide fc0 (.conv "float:1e+16".toList) ".5".toList = false := by
  decide +kernel

/-- `url_rematch_tree_builtin`: the rule is added to the empty tree and the lookup hits -/
example : ∃ t, treeAdd Node.root exPathInt.syms 0 exPathInt.params = .ok t ∧
    (treeGet (builtinEnv fc0) t "dl/a.tar/img/b.tar/img/007.png".toList).core =
      some (0, exPathInt.params, [.str "a.tar/img/b".toList, intVal 7]) := by
  obtain ⟨t, ht⟩ : ∃ t, treeAdd Node.root exPathInt.syms 0 exPathInt.params = .ok t := ⟨_, rfl⟩
  refine ⟨t, ht, ?_⟩
  rw [single_rule_get (builtinEnv fc0) (noSel_builtinEnv fc0) exPathInt.syms 0 exPathInt.params t ht]
  have : matchRule (builtinEnv fc0) exPathInt.syms "dl/a.tar/img/b.tar/img/007.png".toList
      = some [.str "a.tar/img/b".toList, intVal 7] := by decide +kernel
  rw [this]; rfl

end NonVacuityBuiltin

/-! #### the excluded shapes really fail (model witnesses; replayed on the real code by the fixed
correspondence cases of `harness/c19.py`) -/
section WitnessBuiltin

def wPathInt : Route := routeOfRule "/<p:path>-5<n:int>"
def wPathFloat : Route := routeOfRule "/x/y<p:path>.<q:float>"
def wFloatBig : Route := routeOfRule "/<a:float>.<b:int>"

/-- excluded by `sideOK` (`laterLit`): `/<p:path>-5<n:int>` on `a-5-05`.  The `int` wildcard's
canonical text `-05 → -5` makes the look-ahead literal `-5` stand again in the URL built for the
rest of the rule (`-5-5`): the greedy `path` wildcard now runs to the later occurrence and the URL
is not matched at all.  (Finding class `C19:url:int-text-changes-neighbour-match`.) -/
example : builtinOnly wPathInt.syms = true ∧ convAfterTok wPathInt.syms = false ∧
    matchRule (builtinEnv fc0) wPathInt.syms "a-5-05".toList = some [.str "a".toList, intVal (-5)] ∧
    sideOK fc0 (builtinEnv fc0) (withFloatFmt noFmt) wPathInt.syms [.str "a".toList, intVal (-5)] = false ∧
    laterLit "-5".toList "-5-5".toList = true ∧
    buildUrl (builtinEnv fc0) (withFloatFmt noFmt) wPathInt.syms [.str "a".toList, intVal (-5)] = .ok "a-5-5".toList ∧
    matchRule (builtinEnv fc0) wPathInt.syms "a-5-5".toList = none := by
  decide +kernel

/-- excluded by `sideOK` (`laterLit`): finding `C19:url:float-text-changes-neighbour-match` with the
concrete handlers — `/x/y<p:path>.<q:float>` on `x/y-3.1.5`: `5 → 5.0` puts the literal `.` into the
URL of the rest (`.5.0`), the URL is matched with other values -/
example : builtinOnly wPathFloat.syms = true ∧ convAfterTok wPathFloat.syms = false ∧
    matchRule (builtinEnv fc0) wPathFloat.syms "x/y-3.1.5".toList = some [.str "-3.1".toList, .conv "float:5.0".toList] ∧
    sideOK fc0 (builtinEnv fc0) (withFloatFmt noFmt) wPathFloat.syms [.str "-3.1".toList, .conv "float:5.0".toList] = false ∧
    buildUrl (builtinEnv fc0) (withFloatFmt noFmt) wPathFloat.syms [.str "-3.1".toList, .conv "float:5.0".toList]
      = .ok "x/y-3.1.5.0".toList ∧
    matchRule (builtinEnv fc0) wPathFloat.syms "x/y-3.1.5.0".toList
      = some [.str "-3.1.5".toList, .conv "float:0.0".toList] := by
  decide +kernel

/-- excluded by `sideOK` (`floatSide`): a value from 1e16 is formatted without a decimal point
(`10000000000000000.0 → 10000000000000000`), and here `.7` follows: `/<a:float>.<b:int>` on
`10000000000000000.0.7` builds `10000000000000000.7`, which is not matched -/
example : builtinOnly wFloatBig.syms = true ∧ convAfterTok wFloatBig.syms = false ∧
    matchRule (builtinEnv fc0) wFloatBig.syms "10000000000000000.0.7".toList = some [.conv "float:1e+16".toList, intVal 7] ∧
    sideOK fc0 (builtinEnv fc0) (withFloatFmt noFmt) wFloatBig.syms [.conv "float:1e+16".toList, intVal 7] = false ∧
    buildUrl (builtinEnv fc0) (withFloatFmt noFmt) wFloatBig.syms [.conv "float:1e+16".toList, intVal 7]
      = .ok "10000000000000000.7".toList ∧
    matchRule (builtinEnv fc0) wFloatBig.syms "10000000000000000.7".toList = none := by
  decide +kernel

end WitnessBuiltin

end Builtin

end Ombott.RouteUrl
