import OmbottModel.Model.BodyMixin
import OmbottModel.Lemmas.Body
import OmbottModel.Lemmas.PyInt
import OmbottModel.Gen.Body
/-!
C04 — Content-Length bodies arrive byte-exact under any read fragmentation.
Property theorems only; helper lemmas live in `Lemmas/Body.lean`.

`r : Rec` is `wsgi.input` (data still to come, read schedule, offset and call record so far);
quantifying over `r` quantifies over every body byte string and every read-fragmentation pattern
(short reads, early EOF = short data).  `buf` is `max_memfile_size` (read buffer and in-memory
threshold), `cl` the integer Content-Length.
-/
namespace Ombott.Body
open Py

/-- **byte-exact**: whatever the read fragmentation, the buffer size (`> 0`) and the storage
mode, `_body_read` returns exactly the first `Content-Length` bytes the stream delivers
(all of them if the stream ends early), provided no size limit is exceeded. -/
theorem body_exact (buf : Nat) (cl : Int) (max : Option Nat) (r : Rec) (hb : 0 < buf)
    (hmax : overMax max (min cl.toNat r.st.data.length) = false) :
    (bodyRead buf cl false max r).1 = .ok (bodyOf buf (r.st.data.take cl.toNat)) := by
  have h := readParts_within false buf max hb cl.toNat r {} (SinkInv.init buf) (by simpa using hmax)
  simp only [bodyRead, iterBody, Bool.false_eq_true, if_false]
  rw [h.2.2]
  simp only [Bool.false_eq_true, and_false, if_false, Sink.extend, List.nil_append, Nat.zero_add, Bool.false_or, bodyOf]
  rw [← List.take_eq_take_min]

/-- the stream is left exactly behind the bytes that were taken -/
theorem body_stream_after (buf : Nat) (cl : Int) (max : Option Nat) (r : Rec) (hb : 0 < buf)
    (hmax : overMax max (min cl.toNat r.st.data.length) = false) :
    (bodyRead buf cl false max r).2.st.data = r.st.data.drop cl.toNat ∧
    (bodyRead buf cl false max r).2.pos = r.pos + min cl.toNat r.st.data.length := by
  have h := readParts_within false buf max hb cl.toNat r {} (SinkInv.init buf) (by simpa using hmax)
  simp only [bodyRead, iterBody, Bool.false_eq_true, if_false]
  refine ⟨?_, h.2.1⟩
  rw [h.1]
  by_cases hc : cl.toNat ≤ r.st.data.length
  · rw [Nat.min_eq_left hc]
  · rw [Nat.min_eq_right (by omega), List.drop_of_length_le (Nat.le_refl _), List.drop_of_length_le (by omega)]

/-- **never over-read**: every `read(n)` the reader issues is issued at an offset `p` with
`p + n ≤ Content-Length` (counted from where the body starts), for every buffer size, size limit
and schedule; in particular the stream offset never passes Content-Length. -/
theorem body_no_overread (buf : Nat) (cl : Int) (max : Option Nat) (r : Rec) :
    (∀ e ∈ (bodyRead buf cl false max r).2.log,
        e ∈ r.log ∨ (r.pos ≤ e.1 ∧ e.1 + e.2 ≤ r.pos + cl.toNat)) ∧
    (bodyRead buf cl false max r).2.pos ≤ r.pos + cl.toNat := by
  simp only [bodyRead, iterBody, Bool.false_eq_true, if_false]
  exact ⟨readParts_log false buf max cl.toNat r {}, (readParts_pos false buf max cl.toNat r {}).2⟩

/-- missing / negative / zero Content-Length: empty body and the stream is not touched -/
theorem body_neg_cl (buf : Nat) (cl : Int) (max : Option Nat) (r : Rec) (h : cl ≤ 0) :
    bodyRead buf cl false max r = (.ok {}, r) := by
  have : cl.toNat = 0 := by omega
  simp [bodyRead, iterBody, this, readParts]

/-- the degenerate configuration `max_memfile_size = 0`: nothing can be read, the body is empty
(stated, not hidden: `body_exact` needs `0 < buf`) -/
theorem body_buf_zero (cl : Int) (max : Option Nat) (r : Rec) :
    (bodyRead 0 cl false max r).1 = .ok {} := by
  simp only [bodyRead, iterBody, Bool.false_eq_true, if_false]
  exact readParts_buf_zero max cl.toNat r {}

/-! ### `Request.body` -/

/-- a request whose body has not been read yet -/
def Req.fresh (cfg : Cfg) (clHeader teHeader : Option Str) (input : Rec) : Req :=
  { cfg := cfg, clHeader := clHeader, teHeader := teHeader, input := input }

/-- `Request.body` of a Content-Length request (header = decimal spelling of `n`, no chunked
transfer coding): exactly the first `n` bytes of the stream, the original stream read no further
than `n`, whatever the fragmentation; afterwards the buffered copy is cached. -/
theorem request_body_exact (cfg : Cfg) (n : Nat) (te : Option Str) (input : Rec)
    (hte : isChunked te = false) (hb : 0 < cfg.memfile)
    (hmax : overMax cfg.maxBody (min n input.st.data.length) = false) :
    ((Req.fresh cfg (some (natStr n)) te input).body).1 = .ok (bodyOf cfg.memfile (input.st.data.take n)) ∧
    ((Req.fresh cfg (some (natStr n)) te input).body).2.cache =
      some (bodyOf cfg.memfile (input.st.data.take n), 0) ∧
    ((Req.fresh cfg (some (natStr n)) te input).body).2.input.pos ≤ input.pos + n := by
  have hcl : contentLength (some (natStr n)) = .ok (n : Int) := by
    have hne : (natStr n).isEmpty = false := by
      cases h : natStr n with
      | nil => exact absurd h (natStr_ne_nil n)
      | cons _ _ => rfl
    simp [contentLength, hne, pyInt_natStr]
  have hex := body_exact cfg.memfile (n : Int) cfg.maxBody input hb (by simpa using hmax)
  have hpos := (body_no_overread cfg.memfile (n : Int) cfg.maxBody input).2
  simp only [Int.toNat_natCast] at hex hpos
  rcases hbr : bodyRead cfg.memfile (n : Int) false cfg.maxBody input with ⟨res, r'⟩
  rw [hbr] at hex hpos
  simp only at hex hpos
  subst hex
  simp only [Req.body, Req.loadBody, Req.fresh, hcl, hte, hbr]
  exact ⟨trivial, trivial, hpos⟩

/-- a missing or empty Content-Length header (no chunked coding): empty body, zero reads -/
theorem request_body_no_cl (cfg : Cfg) (clh te : Option Str) (input : Rec)
    (hcl : clh = none ∨ clh = some []) (hte : isChunked te = false) :
    (Req.fresh cfg clh te input).body = (.ok {}, { Req.fresh cfg clh te input with cache := some ({}, 0) }) := by
  have h : contentLength clh = .ok (-1) := by
    rcases hcl with rfl | rfl <;> simp [contentLength]
  simp [Req.body, Req.loadBody, Req.fresh, h, hte, body_neg_cl]

/-- **repeatable**: once the body has been read, every later access (after any partial reads of
the buffered copy) returns the same buffered body, rewound to offset 0, and does not touch the
original stream again. -/
theorem body_repeatable (q : Req) (sk : Sink) (p : Nat) (h : q.cache = some (sk, p)) :
    q.body = (.ok sk, { q with cache := some (sk, 0) }) := by
  simp [Req.body, Req.loadBody, h]

/-- a successful first access leaves the buffered copy in the cache (so `body_repeatable`
applies to everything that follows), and reading it returns the body from offset 0 -/
theorem body_cached_after (q q1 : Req) (sk : Sink) (h : q.body = (.ok sk, q1)) :
    q1.cache = some (sk, 0) ∧ ∃ q2, q1.readCached none = some (sk.body, q2) ∧
      q2.input = q1.input ∧ ∃ p, q2.cache = some (sk, p) := by
  unfold Req.body at h
  split at h
  · cases h
  · rename_i sk' q' _
    simp only [Prod.mk.injEq, Except.ok.injEq] at h
    obtain ⟨rfl, rfl⟩ := h
    refine ⟨rfl, { q' with cache := some (sk', 0 + sk'.body.length) }, ?_, rfl, _, rfl⟩
    simp [Req.readCached]

/-- reads of the buffered copy never touch the original stream and keep the buffered body -/
theorem readCached_keeps (q q' : Req) (n : Option Nat) (d : Bytes) (h : q.readCached n = some (d, q')) :
    q'.input = q.input ∧ ∃ sk p p', q.cache = some (sk, p) ∧ q'.cache = some (sk, p') := by
  unfold Req.readCached at h
  split at h
  · cases h
  · rename_i sk pos hc
    simp only [Option.some.injEq, Prod.mk.injEq] at h
    obtain ⟨-, rfl⟩ := h
    exact ⟨rfl, sk, pos, _, hc, rfl⟩

section NonVacuity
/-- `body_exact`, `request_body_exact`: a 5-byte stream delivered 1,2,… bytes at a time, Content-Length 3, buffer 2 -/
example : (0 : Nat) < 2 ∧ overMax none (min (3 : Int).toNat ([1, 2, 3, 4, 5] : Bytes).length) = false := by decide
example : isChunked (some "identity".toList) = false := by decide
example : isChunked (some "gzip, Chunked".toList) = true := by decide
/-- `body_neg_cl` -/
example : ((-1 : Int) ≤ 0) := by decide
/-- `body_repeatable`: a cached body with a moved file position -/
example : ({ cfg := ⟨none, 4, []⟩, clHeader := none, teHeader := none, input := { st := ⟨[], []⟩ },
             cache := some (bodyOf 4 [1, 2, 3], 2) } : Req).cache = some (bodyOf 4 [1, 2, 3], 2) := rfl
end NonVacuity

end Ombott.Body
