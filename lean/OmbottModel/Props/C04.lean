import OmbottModel.Model.BodyMixin
import OmbottModel.Lemmas.Body
import OmbottModel.Lemmas.BodyAccess
import OmbottModel.Lemmas.PyInt
import OmbottModel.Gen.Body
import OmbottModel.Props.EnvCache
/-!
C04 — Content-Length bodies arrive byte-exact under any read fragmentation.
Property theorems only; helper lemmas live in `Lemmas/Body.lean`.

`r : Rec` is `wsgi.input` (data still to come, read schedule, offset and call record so far);
quantifying over `r` quantifies over every body byte string and every read-fragmentation pattern
(short reads, early EOF = short data).  `buf` is `max_memfile_size` (read buffer and in-memory
threshold), `cl` the integer Content-Length.
-/
namespace Ombott.Body
open Py

/-- **byte-exact**: whatever the read fragmentation, the buffer size (`> 0`) and the storage
mode, `_body_read` returns exactly the first `Content-Length` bytes the stream delivers
(all of them if the stream ends early), provided no size limit is exceeded. -/
theorem body_exact (buf : Nat) (cl : Int) (max : Option Nat) (r : Rec) (hb : 0 < buf)
    (hmax : overMax max (min cl.toNat r.st.data.length) = false) :
    (bodyRead buf cl false max r).1 = .ok (bodyOf buf (r.st.data.take cl.toNat)) := by
  have h := readParts_within false buf max hb cl.toNat r {} (SinkInv.init buf) (by simpa using hmax)
  simp only [bodyRead, iterBody, Bool.false_eq_true, if_false]
  rw [h.2.2]
  simp only [Bool.false_eq_true, and_false, if_false, Sink.extend, List.nil_append, Nat.zero_add, Bool.false_or, bodyOf]
  rw [← List.take_eq_take_min]

/-- the stream is left exactly behind the bytes that were taken -/
theorem body_stream_after (buf : Nat) (cl : Int) (max : Option Nat) (r : Rec) (hb : 0 < buf)
    (hmax : overMax max (min cl.toNat r.st.data.length) = false) :
    (bodyRead buf cl false max r).2.st.data = r.st.data.drop cl.toNat ∧
    (bodyRead buf cl false max r).2.pos = r.pos + min cl.toNat r.st.data.length := by
  have h := readParts_within false buf max hb cl.toNat r {} (SinkInv.init buf) (by simpa using hmax)
  simp only [bodyRead, iterBody, Bool.false_eq_true, if_false]
  refine ⟨?_, h.2.1⟩
  rw [h.1]
  by_cases hc : cl.toNat ≤ r.st.data.length
  · rw [Nat.min_eq_left hc]
  · rw [Nat.min_eq_right (by omega), List.drop_of_length_le (Nat.le_refl _), List.drop_of_length_le (by omega)]

/-- **never over-read**: every `read(n)` the reader issues is issued at an offset `p` with
`p + n ≤ Content-Length` (counted from where the body starts), for every buffer size, size limit
and schedule; in particular the stream offset never passes Content-Length. -/
theorem body_no_overread (buf : Nat) (cl : Int) (max : Option Nat) (r : Rec) :
    (∀ e ∈ (bodyRead buf cl false max r).2.log,
        e ∈ r.log ∨ (r.pos ≤ e.1 ∧ e.1 + e.2 ≤ r.pos + cl.toNat)) ∧
    (bodyRead buf cl false max r).2.pos ≤ r.pos + cl.toNat := by
  simp only [bodyRead, iterBody, Bool.false_eq_true, if_false]
  exact ⟨readParts_log false buf max cl.toNat r {}, (readParts_pos false buf max cl.toNat r {}).2⟩

/-- missing / negative / zero Content-Length: empty body and the stream is not touched -/
theorem body_neg_cl (buf : Nat) (cl : Int) (max : Option Nat) (r : Rec) (h : cl ≤ 0) :
    bodyRead buf cl false max r = (.ok {}, r) := by
  have : cl.toNat = 0 := by omega
  simp [bodyRead, iterBody, this, readParts]

/-- the degenerate configuration `max_memfile_size = 0`: nothing can be read, the body is empty
(stated, not hidden: `body_exact` needs `0 < buf`) -/
theorem body_buf_zero (cl : Int) (max : Option Nat) (r : Rec) :
    (bodyRead 0 cl false max r).1 = .ok {} := by
  simp only [bodyRead, iterBody, Bool.false_eq_true, if_false]
  exact readParts_buf_zero max cl.toNat r {}

/-! ### `Request.body` -/

/-- a request whose body has not been read yet -/
def Req.fresh (cfg : Cfg) (clHeader teHeader : Option Str) (input : Rec) : Req :=
  { cfg := cfg, clHeader := clHeader, teHeader := teHeader, input := input }

/-- `Request.body` of a Content-Length request (header = decimal spelling of `n`, of at most
`sys.get_int_max_str_digits()` digits — `int()` refuses a longer one like a non-numeric text: 500,
outside the property's "request body" — no chunked transfer coding): exactly the first `n` bytes of the stream, the original stream read no further
than `n`, whatever the fragmentation; afterwards the buffered copy is cached. -/
theorem request_body_exact (cfg : Cfg) (n : Nat) (te : Option Str) (input : Rec)
    (hte : isChunked te = false) (hb : 0 < cfg.memfile)
    (hmax : overMax cfg.maxBody (min n input.st.data.length) = false)
    (hlim : (natStr n).length ≤ Ombott.Gen.intMaxStrDigits) :
    ((Req.fresh cfg (some (natStr n)) te input).body).1 = .ok (bodyOf cfg.memfile (input.st.data.take n)) ∧
    ((Req.fresh cfg (some (natStr n)) te input).body).2.cache =
      some (bodyOf cfg.memfile (input.st.data.take n), 0) ∧
    ((Req.fresh cfg (some (natStr n)) te input).body).2.input.pos ≤ input.pos + n := by
  have hcl : contentLength (some (natStr n)) = .ok (n : Int) := by
    have hne : (natStr n).isEmpty = false := by
      cases h : natStr n with
      | nil => exact absurd h (natStr_ne_nil n)
      | cons _ _ => rfl
    simp [contentLength, hne, pyIntLim_natStr n hlim]
  have hex := body_exact cfg.memfile (n : Int) cfg.maxBody input hb (by simpa using hmax)
  have hpos := (body_no_overread cfg.memfile (n : Int) cfg.maxBody input).2
  simp only [Int.toNat_natCast] at hex hpos
  rcases hbr : bodyRead cfg.memfile (n : Int) false cfg.maxBody input with ⟨res, r'⟩
  rw [hbr] at hex hpos
  simp only at hex hpos
  subst hex
  simp only [Req.body, Req.loadBody, Req.fresh, hcl, hte, hbr]
  exact ⟨trivial, trivial, hpos⟩

/-- a missing or empty Content-Length header (no chunked coding): empty body, zero reads -/
theorem request_body_no_cl (cfg : Cfg) (clh te : Option Str) (input : Rec)
    (hcl : clh = none ∨ clh = some []) (hte : isChunked te = false) :
    (Req.fresh cfg clh te input).body = (.ok {}, { Req.fresh cfg clh te input with cache := some ({}, 0) }) := by
  have h : contentLength clh = .ok (-1) := by
    rcases hcl with rfl | rfl <;> simp [contentLength]
  simp [Req.body, Req.loadBody, Req.fresh, h, hte, body_neg_cl]

/-- **never over-read, whatever the handler does**: on a Content-Length request (header numeric,
no chunked coding) the framework issues `read(n)` on the original stream only inside the first
Content-Length bytes — over any sequence of body accesses by handler and hooks (`body.read(k)`,
`_get_body_string`; exceptions caught or not), after a successful read, after a rejected one
(size limit), for every buffer size and read fragmentation. -/
theorem request_never_overreads (cfg : Cfg) (clh te : Option Str) (cl : Int) (input : Rec)
    (hcl : contentLength clh = .ok cl) (hte : isChunked te = false)
    (ops : List Access) (hops : ∀ a ∈ ops, a.framework = true) :
    ((Req.fresh cfg clh te input).run ops).input.pos ≤ input.pos + cl.toNat ∧
    ∀ e ∈ ((Req.fresh cfg clh te input).run ops).input.log,
      e ∈ input.log ∨ (input.pos ≤ e.1 ∧ e.1 + e.2 ≤ input.pos + cl.toNat) := by
  -- invariant: headers and configuration fixed; the stream is either untouched or was handed to
  -- exactly one `_body_read`
  have key : ∀ (ops : List Access) (q : Req), (∀ a ∈ ops, a.framework = true) →
      q.cfg = cfg → q.clHeader = clh → q.teHeader = te →
      ((¬ Spent q ∧ q.input = input) ∨
        (Spent q ∧ q.input.pos ≤ input.pos + cl.toNat ∧
          ∀ e ∈ q.input.log, e ∈ input.log ∨ (input.pos ≤ e.1 ∧ e.1 + e.2 ≤ input.pos + cl.toNat))) →
      (q.run ops).input.pos ≤ input.pos + cl.toNat ∧
      ∀ e ∈ (q.run ops).input.log, e ∈ input.log ∨ (input.pos ≤ e.1 ∧ e.1 + e.2 ≤ input.pos + cl.toNat) := by
    intro ops
    induction ops with
    | nil =>
      intro q _ _ _ _ hinv
      rcases hinv with ⟨-, hi⟩ | ⟨-, hb⟩
      · simp only [Req.run, List.foldl_nil, hi]
        exact ⟨by omega, fun e he => Or.inl he⟩
      · exact hb
    | cons a ops ih =>
      intro q hfw h1 h2 h3 hinv
      obtain ⟨a1, a2, a3, a4, a5, a6⟩ := access_effect q a (hfw a (by simp))
      obtain ⟨b1, b2, b3, -, b5⟩ := body_effect q
      have hrun : q.run (a :: ops) = (q.access a).2.run ops := by simp [Req.run]
      rw [hrun]
      apply ih _ (fun x hx => hfw x (by simp [hx])) (by rw [a1, h1]) (by rw [a2, h2]) (by rw [a3, h3])
      have hsp : Spent (q.access a).2 ↔ Spent (q.body).2 := Spent_congr _ _ a5 a6
      rw [a4]
      rcases b5 with ⟨c1, c2, c3⟩ | ⟨c1, c2, cl', c3, c4⟩
      · have hsp2 : Spent (q.body).2 ↔ Spent q := Spent_congr _ _ c2 c3
        rw [c1]
        rcases hinv with ⟨d1, d2⟩ | ⟨d1, d2⟩
        · exact Or.inl ⟨fun h => d1 (hsp2.mp (hsp.mp h)), d2⟩
        · exact Or.inr ⟨hsp.mpr (hsp2.mpr d1), d2⟩
      · rcases hinv with ⟨-, d2⟩ | ⟨d1, -⟩
        · right
          refine ⟨hsp.mpr c2, ?_⟩
          rw [c4, h1, h3, d2]
          rw [h2, hcl] at c3
          simp only [Except.ok.injEq] at c3
          subst c3
          rw [hte]
          have := body_no_overread cfg.memfile cl cfg.maxBody input
          exact ⟨this.2, this.1⟩
        · exact absurd d1 c1
  exact key ops _ hops rfl rfl rfl (Or.inl ⟨by simp [Spent, Req.fresh], rfl⟩)

/-- once the buffered copy exists, every access leaves it in place (only its file position moves)
and leaves the original stream alone; `request.body.read()` returns all of it, from offset 0 -/
theorem cached_access (q : Req) (sk : Sink) (p : Nat) (a : Access) (h : q.cache = some (sk, p))
    (ha : a.keepsInput = true) :
    (∃ p', (q.access a).2.cache = some (sk, p')) ∧ (q.access a).2.input = q.input ∧
    (q.access (.bodyRead none)).1 = .ok sk.body := by
  have hb : q.body = (.ok sk, { q with cache := some (sk, 0) }) := by simp [Req.body, Req.loadBody, h]
  refine ⟨?_, ?_, by simp [Req.access, hb]⟩
  · cases a with
    | replaceInput r => cases ha
    | setContentLength s => exact ⟨p, by simp [Req.access, h]⟩
    | inputRead => exact ⟨p + (sk.body.drop p).length, by simp [Req.access, h]⟩
    | bodyRead n =>
      refine ⟨(match n with | some k => sk.body.take k | none => sk.body).length, ?_⟩
      cases n <;> simp [Req.access, hb]
    | bodyString =>
      obtain ⟨-, -, -, -, -, h6⟩ := getBodyString_effect q
      rw [hb] at h6
      simp only [Option.map_some] at h6
      cases hc : (q.getBodyString).2.cache with
      | none => rw [hc] at h6; cases h6
      | some c =>
        rw [hc] at h6
        simp only [Option.map_some, Option.some.injEq] at h6
        exact ⟨c.2, by rw [Req.access, hc, ← h6]⟩
  · cases a with
    | replaceInput r => cases ha
    | setContentLength s => simp [Req.access]
    | inputRead => simp [Req.access, h]
    | bodyRead n => simp [Req.access, hb]
    | bodyString =>
      obtain ⟨-, -, -, h4, -, -⟩ := getBodyString_effect q
      rw [Req.access, h4, hb]

/-- **repeatable**: after a first successful `request.body.read()` returning `d`, whatever the
handler and the hooks do next with the body (partial reads, `_get_body_string`, reading
`wsgi.input` — which is the buffered copy by then —, assigning CONTENT_LENGTH; anything but
replacing `wsgi.input`), every later `request.body.read()` returns the same `d` from offset 0, and
the original stream is never touched again. -/
theorem body_repeatable (q q1 : Req) (d : Bytes) (h : q.access (.bodyRead none) = (.ok d, q1))
    (ops : List Access) (hops : ∀ a ∈ ops, a.keepsInput = true) :
    ((q1.run ops).access (.bodyRead none)).1 = .ok d ∧ (q1.run ops).input = q1.input := by
  -- the first access cached a buffered copy holding `d`
  have h0 : ∃ sk p, q1.cache = some (sk, p) ∧ sk.body = d := by
    unfold Req.access at h
    rcases hb : q.body with ⟨res, q'⟩
    rw [hb] at h
    cases res with
    | error e => simp at h
    | ok sk =>
      simp only [Prod.mk.injEq, Except.ok.injEq] at h
      obtain ⟨rfl, rfl⟩ := h
      exact ⟨sk, _, rfl, rfl⟩
  obtain ⟨sk, p, hc, rfl⟩ := h0
  have key : ∀ (ops : List Access) (q2 : Req) (p2 : Nat), (∀ a ∈ ops, a.keepsInput = true) →
      q2.cache = some (sk, p2) →
      ((q2.run ops).access (.bodyRead none)).1 = .ok sk.body ∧ (q2.run ops).input = q2.input := by
    intro ops
    induction ops with
    | nil => intro q2 p2 _ h2; exact ⟨(cached_access q2 sk p2 (.bodyRead none) h2 rfl).2.2, rfl⟩
    | cons a ops ih =>
      intro q2 p2 hk h2
      obtain ⟨⟨p', hp'⟩, hin, -⟩ := cached_access q2 sk p2 a h2 (hk a (by simp))
      have hrun : q2.run (a :: ops) = (q2.access a).2.run ops := by simp [Req.run]
      rw [hrun]
      obtain ⟨i1, i2⟩ := ih _ p' (fun x hx => hk x (by simp [hx])) hp'
      exact ⟨i1, by rw [i2, hin]⟩
  exact key ops q1 p hops hc

/-- **a replaced stream is what is read next**: whatever happened on the request before — body
buffered, body rejected (sticky error), nothing read — once the application assigns a new
`wsgi.input` (`request['wsgi.input'] = s`, which drops the cached body and the remembered error),
the next `request.body.read()` returns exactly the first Content-Length bytes of the NEW stream,
reads it no further than Content-Length, and never returns the old buffered body. -/
theorem replaced_stream_exact (q : Req) (r : Rec) (n : Nat)
    (hcl : q.clHeader = some (natStr n)) (hte : isChunked q.teHeader = false) (hb : 0 < q.cfg.memfile)
    (hmax : overMax q.cfg.maxBody (min n r.st.data.length) = false)
    (hlim : (natStr n).length ≤ Ombott.Gen.intMaxStrDigits) :
    (((q.access (.replaceInput r)).2).access (.bodyRead none)).1 = .ok (r.st.data.take n) ∧
    (((q.access (.replaceInput r)).2).access (.bodyRead none)).2.input.pos ≤ r.pos + n ∧
    ∀ e ∈ (((q.access (.replaceInput r)).2).access (.bodyRead none)).2.input.log,
      e ∈ r.log ∨ (r.pos ≤ e.1 ∧ e.1 + e.2 ≤ r.pos + n) := by
  have hclv : contentLength (some (natStr n)) = .ok (n : Int) := by
    have hne : (natStr n).isEmpty = false := by
      cases h : natStr n with
      | nil => exact absurd h (natStr_ne_nil n)
      | cons _ _ => rfl
    simp [contentLength, hne, pyIntLim_natStr n hlim]
  have hex := body_exact q.cfg.memfile (n : Int) q.cfg.maxBody r hb (by simpa using hmax)
  have hno := body_no_overread q.cfg.memfile (n : Int) q.cfg.maxBody r
  simp only [Int.toNat_natCast] at hex hno
  rcases hbr : bodyRead q.cfg.memfile (n : Int) false q.cfg.maxBody r with ⟨res, r'⟩
  rw [hbr] at hex hno
  simp only at hex hno
  subst hex
  simp only [Req.access, Req.body, Req.loadBody, hcl, hclv, hte, hbr, bodyOf]
  exact ⟨trivial, hno.2, hno.1⟩

section NonVacuity
/-- `request_body_exact`, `replaced_stream_exact`: a Content-Length text `int()` converts (hypothesis `hlim`);
beyond the limit the model, like the code, raises `ValueError` (a 500, like a non-numeric text) -/
example : (natStr 3).length ≤ Ombott.Gen.intMaxStrDigits ∧
    (match contentLength (some (List.replicate 4301 '1')) with | .error .valueError => true | _ => false) = true := by
  decide +kernel

/-- `body_exact`, `request_body_exact`: a 5-byte stream delivered 1,2,… bytes at a time, Content-Length 3, buffer 2 -/
example : (0 : Nat) < 2 ∧ overMax none (min (3 : Int).toNat ([1, 2, 3, 4, 5] : Bytes).length) = false := by decide
example : isChunked (some "identity".toList) = false := by decide
example : isChunked (some "gzip, Chunked".toList) = true := by decide
/-- `body_neg_cl` -/
example : ((-1 : Int) ≤ 0) := by decide
/-- `request_never_overreads`: a handler that reads two bytes, asks for the form text, reads all -/
example : ∀ a ∈ [Access.bodyRead (some 2), .bodyString, .bodyRead none], a.framework = true := by decide
/-- `body_repeatable`: ops that keep the stream -/
example : ∀ a ∈ [Access.bodyRead (some 2), .inputRead, .setContentLength "9".toList, .bodyString],
    a.keepsInput = true := by decide
/-- `cached_access`: a cached body with a moved file position -/
example : ({ cfg := ⟨none, 4, []⟩, clHeader := none, teHeader := none, input := { st := ⟨[], []⟩ },
             cache := some (bodyOf 4 [1, 2, 3], 2) } : Req).cache = some (bodyOf 4 [1, 2, 3], 2) := rfl
end NonVacuity

end Ombott.Body

/-! ### the cache layer of the request object (model `Model/EnvCache.lean`, reference
`Model/EnvCacheSpec.lean`; general theorem and table obligations in `Props/EnvCache.lean`) -/
namespace Ombott.EnvCache

/-- **the cache is never observable** (general statement, all operation sequences in scope; see
`Props/EnvCache.lean` for the scope `Safe` and the pinned residue) -/
theorem c04_cache_unobservable (cfg : Cfg) (L : Lib) (w : World) (ops : List Op)
    (hW : InvW cfg L w) (hs : Safe cfg L w ops) : run cfg L w ops = specRun cfg L w ops :=
  cache_unobservable cfg L w ops hW hs

/-- **`content_length` follows the header**: under any assignments / deletions through the request
object (`CONTENT_LENGTH` among them), on the request and on copies, every read of `content_length`
is `int(CONTENT_LENGTH or -1)` of the header as it is then (defect d7edd9e, for all sequences) -/
theorem c04_content_length_follows_header (cfg : Cfg) (L : Lib) (w : World) (ops : List Op) (hW : FreshW w)
    (hw : ∀ op ∈ ops, opWithin [.contentLength] (fun _ => true) op = true) :
    run cfg L w ops = specRun cfg L w ops :=
  content_length_follows_header cfg L w ops hW hw

/-- **the body follows the input stream**: reads of `body` / `content_length` under any assignments
(a new `wsgi.input` included) and copies answer what the reference answers — the buffered body
while there is one, else what the current stream delivers (`replaced_stream_exact`) -/
theorem c04_body_follows_input (cfg : Cfg) (L : Lib) (w : World) (ops : List Op) (hW : FreshW w)
    (hw : ∀ op ∈ ops, opWithin [.body, .contentLength] (fun _ => true) op = true) :
    run cfg L w ops = specRun cfg L w ops :=
  body_follows_input cfg L w ops hW hw

/-- the dependency cover and the pinned residue, as C04 relies on them -/
theorem c04_dependency_cover :
    (∀ row ∈ Gen.ecProps, ∀ K ∈ row.reads, row.key.toList ∈ todelete K.toList ∨ (row.name, K) ∈ Gen.ecUncovered) ∧
    Gen.ecUncovered.filter (fun p => !ecByDesign.contains p) = pinnedStale :=
  ⟨dependency_cover, uncovered_pinned.1⟩

section NonVacuity
/-- the hypotheses of the theorems above are met by the request and library of `Props/EnvCache.lean` and this
sequence (further instances, out-of-scope sequences and the witnesses of the pinned residue are there) -/
example : FreshW exWorld ∧ InvW {} exLib exWorld := ⟨FreshW.ofB (by decide), (FreshW.ofB (by decide)).inv {} exLib⟩
example : ∀ op ∈ [Op.read 0 .contentLength, .setStr 0 kCL cs!"3", .read 0 .contentLength, .copy 0, .del 1 kCL, .read 1 .contentLength], opWithin [.contentLength] (fun _ => true) op = true := by decide
end NonVacuity

end Ombott.EnvCache
