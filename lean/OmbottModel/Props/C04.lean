import OmbottModel.Model.BodyMixin
import OmbottModel.Gen.Body
/-!
C04 — Content-Length bodies arrive byte-exact under any read fragmentation.
Property theorems only; helper lemmas live in `Lemmas/Body.lean`.
-/
namespace Ombott.Body
open Py

/-- missing / negative / zero Content-Length: empty body and the stream is not touched -/
theorem body_neg_cl (buf : Nat) (cl : Int) (max : Option Nat) (r : Rec) (h : cl ≤ 0) :
    bodyRead buf cl false max r = (.ok {}, r) := by
  have : cl.toNat = 0 := by omega
  simp [bodyRead, iterBody, this, readParts]

end Ombott.Body
