import OmbottModel.Model.Cookies
import OmbottModel.Model.CookiesLib
import OmbottModel.Lemmas.Cookies
import OmbottModel.Lemmas.B64
import OmbottModel.Lemmas.CookieTok
import OmbottModel.Props.EnvCache
import OmbottModel.Lemmas.HelpersHeaders
import OmbottModel.Lemmas.HelpersForms
import OmbottModel.Lemmas.HelpersAuth
/-!
C15 — Cookies round-trip; forged signed cookies are never deserialised.
Property theorems only; helper lemmas live in `Lemmas/Cookies.lean`.  The library parameter
`L : Lib` (hmac, base64, pickle, the `SimpleCookie` header reader) is universally quantified;
the contracts assumed about it are named hypotheses (`B64Contract`, `PickleAt`, `TokAt`),
defined in `Lemmas/Cookies.lean`.  The functions are the ones the driver runs (`lscmp`,
`cookieDecode`, `getCookie`, `setCookie`, `emit`, `roundTrip`).
-/
namespace Ombott.Cookies
open Py

/-- **lscmp_iff_eq**: the constant-time comparison `_lscmp` (`zip`/`sum`/length, as written in
the source) answers true exactly for equal byte strings — for all byte lists. -/
theorem lscmp_iff_eq (a b : Bytes) : lscmp a b = true ↔ a = b := lscmp_iff_eq' a b

/-- **decode_calls_unpickle_only_if_mac_ok**: a byte string `m` is handed to `pickle.loads`
only if the input is `'!' ++ b64(hmac(key, msg)) ++ '?' ++ msg` for the very message part `msg`
it presents, and `m` is the base64 decoding of that `msg`.  No assumption on the library. -/
theorem decode_calls_unpickle_only_if_mac_ok (L : Lib) (data key m : Bytes)
    (hm : m ∈ (cookieDecode L data key).2) :
    ∃ msg, data = 33 :: (L.b64 (L.hmac key msg) ++ 63 :: msg) ∧ L.unb64 msg = some m := by
  rcases cookieDecode_cases L data key with h | ⟨msg, hd, _, h⟩
  · rw [h] at hm; cases hm
  · refine ⟨msg, hd, ?_⟩
    rw [h] at hm
    unfold afterMac at hm
    cases hu : L.unb64 msg with
    | none => rw [hu] at hm; cases hm
    | some raw =>
      rw [hu] at hm
      simp only at hm
      cases hp : L.unpickle raw with
      | none => rw [hp] at hm; simp at hm; rw [hm]
      | some x => rw [hp] at hm; simp at hm; rw [hm]

/-- the input carries a valid MAC of its own message part under `key` -/
def MacOk (L : Lib) (key data : Bytes) : Prop :=
  ∃ msg, data = 33 :: (L.b64 (L.hmac key msg) ++ 63 :: msg)

/-- **tamper_absent** (decoder): every input that is not a MAC forgery — whose signature part is
not the MAC of the message part it presents — decodes to `None` and the unpickler is not called.
This covers every substitution, deletion, truncation, insertion, signature swap: the only way
past is to present `b64(hmac(key, msg'))` for the altered `msg'`. -/
theorem tamper_absent_decode (L : Lib) (data key : Bytes) (h : ¬ MacOk L key data) :
    cookieDecode L data key = (.ok none, []) := by
  rcases cookieDecode_cases L data key with h' | ⟨msg, hd, _, _⟩
  · exact h'
  · exact absurd ⟨msg, hd⟩ h

/-- **tamper_absent** (decoder, computational form): if the input splits at its first `?` into a
signature part and a message part and the signature part is not `'!' + b64(hmac(key, msg))`,
the answer is `None` with no unpickler call; inputs that do not start with `!` or have no `?`
are covered by `tamper_absent_decode` (they are not `MacOk`). -/
theorem tamper_absent_sig_mismatch (L : Lib) (data key : Bytes)
    (h : ∀ sig msg, splitFirst 63 data = some (sig, msg) → sig.drop 1 ≠ L.b64 (L.hmac key msg)) :
    cookieDecode L data key = (.ok none, []) := by
  unfold cookieDecode
  split
  · split
    · rfl
    · rename_i sig msg hsp
      have hne := h sig msg hsp
      have hf : lscmp (sig.drop 1) (L.b64 (L.hmac key msg)) = false := by
        rw [Bool.eq_false_iff]
        intro hc
        exact hne ((lscmp_iff_eq' _ _).mp hc)
      simp only [hf, Bool.false_eq_true, if_false]
  · rfl

/-- **tamper_absent** (request): whatever `Cookie` header arrives, if the value found under the
name is not a valid MAC/message pair for the secret, `get_cookie(name, secret=…)` answers the
default and nothing reaches the unpickler. -/
theorem tamper_absent (L : Lib) (hdr name : Str) (secret : Bytes) (items : List (Str × Str))
    (hload : L.load hdr = .ok items) (hs : secret ≠ [])
    (h : ∀ v, dictGet items name = some v → ¬ MacOk L secret (utf8Enc v)) :
    getCookie L hdr name secret = (.ok none, []) := by
  unfold getCookie
  rw [hload]
  simp only
  cases hg : dictGet items name with
  | none => rfl
  | some v =>
    simp only
    have hse : secret.isEmpty = false := by simpa using hs
    by_cases hv : v.isEmpty = true
    · simp [hse, hv]
    · have hv' : v.isEmpty = false := by simpa using hv
      simp only [hse, hv', Bool.not_false, Bool.and_self, if_true]
      rw [tamper_absent_decode L _ _ (h v hg)]

/-- the loader-call list of `get_cookie` is empty unless the cookie value verifies -/
theorem get_cookie_calls_only_if_mac_ok (L : Lib) (hdr name : Str) (secret m : Bytes)
    (hm : m ∈ (getCookie L hdr name secret).2) :
    ∃ items v, L.load hdr = .ok items ∧ dictGet items name = some v ∧ MacOk L secret (utf8Enc v) := by
  unfold getCookie at hm
  cases hl : L.load hdr with
  | error e => rw [hl] at hm; cases hm
  | ok items =>
    rw [hl] at hm
    simp only at hm
    cases hg : dictGet items name with
    | none => rw [hg] at hm; cases hm
    | some v =>
      refine ⟨items, v, rfl, hg, ?_⟩
      rw [hg] at hm
      simp only at hm
      split at hm
      · rcases cookieDecode_cases L (utf8Enc v) secret with h | ⟨msg, hd, _, _⟩
        · rw [h] at hm; cases hm
        · exact ⟨msg, hd⟩
      · cases hm

/-- **wrong_secret_absent**: a cookie signed with `key`, returned unchanged and read with a secret
whose MAC on that message differs, reads as absent and is not deserialised. -/
theorem wrong_secret_absent (L : Lib) (hb : B64Contract L) (name : Str) (value : CVal) (key secret : Bytes)
    (hn : LegalName name) (hk : key ≠ []) (hs : secret ≠ [])
    (hlen : (cookieEncode L (name, value) key).length ≤ 4096)
    (ht : TokAt L name (latin1Dec (cookieEncode L (name, value) key)))
    (hmac : L.hmac secret (L.b64 (L.pickle (name, value))) ≠ L.hmac key (L.b64 (L.pickle (name, value)))) :
    ∃ jar, setCookie L [] name value key = .ok jar ∧
      getCookie L (clientHeader (emit jar)) name secret = (.ok none, []) := by
  refine ⟨_, setCookie_signed L hb name value key hn hk hlen, ?_⟩
  rw [getCookie_of_signed L hb name value key secret hn hs ht, cookieDecode_other_key L hb _ key secret hmac]

/-- a genuinely signed cookie presented under **another name** (replay of a valid cookie of the
same application) reads as absent: `get_cookie` compares the name embedded in the signed payload.
(The MAC verifies, so the payload the server itself signed is unpickled — once.) -/
theorem replay_under_other_name_absent (L : Lib) (hb : B64Contract L) (hdr name other : Str) (value : CVal)
    (secret : Bytes) (items : List (Str × Str)) (hs : secret ≠ []) (hne : name ≠ other)
    (hp : PickleAt L (name, value)) (hload : L.load hdr = .ok items)
    (hget : dictGet items other = some (latin1Dec (cookieEncode L (name, value) secret))) :
    getCookie L hdr other secret = (.ok none, [L.pickle (name, value)]) := by
  unfold getCookie
  rw [hload]
  simp only [hget]
  have hse : secret.isEmpty = false := by simpa using hs
  have hnv : (latin1Dec (cookieEncode L (name, value) secret)).isEmpty = false := by
    rw [encode_text]; rfl
  simp only [hse, hnv, Bool.not_false, Bool.and_self, if_true]
  rw [utf8Enc_latin1Dec_ascii _ (encode_ascii L hb (name, value) secret),
    cookieDecode_genuine L hb (name, value) hp secret]
  have : (name == other) = false := by simpa using hne
  simp [this]

/-- **signed_roundtrip**: under the library contracts, a signed cookie set on a response and
returned by the client is read back as the very value, and the unpickler is called exactly once,
with the genuine payload. -/
theorem signed_roundtrip (L : Lib) (hb : B64Contract L) (name : Str) (value : CVal) (secret : Bytes)
    (hn : LegalName name) (hs : secret ≠ [])
    (hlen : (cookieEncode L (name, value) secret).length ≤ 4096)
    (hp : PickleAt L (name, value))
    (ht : TokAt L name (latin1Dec (cookieEncode L (name, value) secret))) :
    roundTrip L name value secret = (.ok (some value), [L.pickle (name, value)]) := by
  unfold roundTrip
  rw [setCookie_signed L hb name value secret hn hs hlen]
  simp only
  rw [getCookie_of_signed L hb name value secret secret hn hs ht,
    cookieDecode_genuine L hb (name, value) hp secret]
  simp

/-- **plain_roundtrip**: an unsigned text cookie whose characters are all below U+0100 is read
back unchanged through quote → UTF-8-as-Latin-1 → client → tokenise → unquote.  The hypothesis
`hv` is the recorded finding `C15:plain-cookie:char>=U+0100` (see the witness below); an empty
value reads as absent by the API's own convention and is excluded by `hne`. -/
theorem plain_roundtrip (L : Lib) (name v : Str) (hn : LegalName name)
    (hv : ∀ c ∈ v, c.toNat < 256) (hne : v ≠ []) (hlen : v.length ≤ 4096) (ht : TokAt L name v) :
    roundTrip L name (.text v) [] = (.ok (some (.text v)), []) := by
  unfold roundTrip
  rw [setCookie_plain L name v hn hlen]
  simp only
  rw [wire_single _ _ (wire_chars _ _ hn (quote_chars v hv))]
  unfold getCookie
  unfold TokAt at ht
  rw [ht, unquote_quote v hv]
  have : v.isEmpty = false := by simpa using hne
  simp [dictGet_single, this]

/-! ### the same for the library exactly as the driver instantiates it

For `concreteLib pk` (HMAC-MD5 and base64 of `Py.Crypto`, the `http.cookies` tokeniser
`parseCookies`, `pickle` as a table) the base64 and tokeniser contracts are theorems
(`Lemmas/B64.lean`, `Lemmas/CookieTok.lean`), so they disappear from the statements: what is left
is the pickle round trip on the one object and, for the wrong secret, the MAC inequality. -/

/-- **plain_roundtrip** for the model the driver runs: no library hypothesis at all. -/
theorem plain_roundtrip_concrete (pk : PkTable) (name v : Str) (hn : LegalName name)
    (hv : ∀ c ∈ v, c.toNat < 256) (hne : v ≠ []) (hlen : v.length ≤ 4096) :
    roundTrip (concreteLib pk) name (.text v) [] = (.ok (some (.text v)), []) :=
  plain_roundtrip (concreteLib pk) name v hn hv hne hlen
    (tokContract_parseCookies (concreteLib pk) rfl name v hn hv)

/-- **signed_roundtrip** for the model the driver runs: only `pickle.loads(pickle.dumps(x)) == x`
for the object in question is assumed. -/
theorem signed_roundtrip_concrete (pk : PkTable) (name : Str) (value : CVal) (secret : Bytes)
    (hn : LegalName name) (hs : secret ≠ [])
    (hlen : (cookieEncode (concreteLib pk) (name, value) secret).length ≤ 4096)
    (hp : PickleAt (concreteLib pk) (name, value)) :
    roundTrip (concreteLib pk) name value secret =
      (.ok (some value), [(concreteLib pk).pickle (name, value)]) := by
  have hb := b64Contract_of_crypto (concreteLib pk) rfl rfl
  refine signed_roundtrip (concreteLib pk) hb name value secret hn hs hlen hp ?_
  apply tokContract_parseCookies (concreteLib pk) rfl name _ hn
  intro c hc
  have := (encode_chars (concreteLib pk) hb (name, value) secret c hc).2.1
  omega

/-- **wrong_secret_absent** for the model the driver runs: only the MAC inequality is assumed. -/
theorem wrong_secret_absent_concrete (pk : PkTable) (name : Str) (value : CVal) (key secret : Bytes)
    (hn : LegalName name) (hk : key ≠ []) (hs : secret ≠ [])
    (hlen : (cookieEncode (concreteLib pk) (name, value) key).length ≤ 4096)
    (hmac : Crypto.hmacMd5 secret (Crypto.b64encode ((concreteLib pk).pickle (name, value))) ≠
      Crypto.hmacMd5 key (Crypto.b64encode ((concreteLib pk).pickle (name, value)))) :
    ∃ jar, setCookie (concreteLib pk) [] name value key = .ok jar ∧
      getCookie (concreteLib pk) (clientHeader (emit jar)) name secret = (.ok none, []) := by
  have hb := b64Contract_of_crypto (concreteLib pk) rfl rfl
  refine wrong_secret_absent (concreteLib pk) hb name value key secret hn hk hs hlen ?_ hmac
  apply tokContract_parseCookies (concreteLib pk) rfl name _ hn
  intro c hc
  have := (encode_chars (concreteLib pk) hb (name, value) key c hc).2.1
  omega

/-! ### the response that reaches the server is not always the one the cookie was set on -/

/-- **copy_preserves_cookies**: `response.copy(cls)` (what `redirect()` raises) carries a cookie
over with the same name and the same coded value, for every legal name and every Latin-1 text
-- in particular for values that need quoting and for every signed cookie (`cookieEncode` output
is Latin-1: ASCII).  Hence whatever is emitted and read back from the copy equals what is emitted
and read back from the original (`copy_roundtrip_same`). -/
theorem copy_preserves_cookies (name v : Str) (hn : LegalName name) (hv : ∀ c ∈ v, c.toNat < 256) :
    copyJar [(name, quote v)] = .ok [(name, quote v)] := copyJar_single name v hn hv

/-- all emission paths of the model hand `headerlist` the same one-cookie jar: returned directly,
copied (once or twice), redirected, error page; and a cookie set on a raised response replaces
the jar of the live response -/
theorem emission_paths_same (path : EmitPath) (name v : Str) (hn : LegalName name)
    (hv : ∀ c ∈ v, c.toNat < 256) (hp : path ≠ .raised) :
    emitVia path [(name, quote v)] [] = .ok [(name, quote v)] := by
  have hc := copyJar_single name v hn hv
  cases path with
  | direct => rfl
  | errpage => rfl
  | copy => simp [emitVia, hc, applyJar, Except.map]
  | redirect => simp [emitVia, hc, applyJar, Except.map]
  | copy2 => simp [emitVia, hc, applyJar, bind, Except.bind, pure, Except.pure]
  | raised => exact absurd rfl hp

theorem raised_jar_wins (resp : Jar) (name coded : Str) :
    emitVia .raised resp [(name, coded)] = .ok [(name, coded)] := rfl

/-- a signed cookie set before `redirect()` (or any copy) is read back by the next request exactly
as when the response is returned directly: the round-trip theorems apply to the copied jar -/
theorem copy_roundtrip_same (L : Lib) (path : EmitPath) (name v : Str) (hn : LegalName name)
    (hv : ∀ c ∈ v, c.toNat < 256) (hp : path ≠ .raised) (key : Str) (secret : Bytes) :
    (emitVia path [(name, quote v)] []).map (fun j => getCookie L (clientHeader (emit j)) key secret) =
      .ok (getCookie L (clientHeader (emit [(name, quote v)])) key secret) := by
  rw [emission_paths_same path name v hn hv hp]; rfl

/-! ### one request object read again after its `Cookie` header changed -/

/-- the same handler described without the cache: only the header each request object carries -/
def specReq (L : Lib) : Option Str → Option Str → List ReqOp → List (Except CErr (Option CVal) × List Bytes)
  | _, _, [] => []
  | h0, h1, .get i k s :: ops =>
    getCookie L ((if i == 0 then h0 else h1).getD []) k s :: specReq L h0 h1 ops
  | h0, h1, .set i k v :: ops =>
    if k == cookieKey then (if i == 0 then specReq L (some v) h1 ops else specReq L h0 (some v) ops)
    else specReq L h0 h1 ops
  | h0, h1, .del i k :: ops =>
    if k == cookieKey then (if i == 0 then specReq L none h1 ops else specReq L h0 none ops)
    else specReq L h0 h1 ops
  | h0, _, .copy :: ops => specReq L h0 h0 ops

/-- **reread_after_header_change**: whatever sequence of reads, `request[key] = value`,
`del request[key]` and `request.copy()` a handler performs, every read answers exactly what a
fresh request carrying the *current* `Cookie` header would answer -- the cache of parsed cookies is
never observable.  In particular a forged, truncated or re-signed cookie put into the request
after the genuine one was read is judged on its own (`tamper_absent`), never as the value seen
before. -/
theorem reread_after_header_change (L : Lib) (ops : List ReqOp) (r0 r1 : Req)
    (h0 : Coherent L r0) (h1 : Coherent L r1) :
    runReq L r0 r1 ops = specReq L r0.hdr r1.hdr ops := by
  induction ops generalizing r0 r1 with
  | nil => rfl
  | cons op ops ih =>
    cases op with
    | get i k s =>
      simp only [runReq, specReq]
      split
      · obtain ⟨e1, e2, e3⟩ := req_getCookie L r0 h0 k s
        rw [ih _ _ e3 h1, e1, e2]
      · obtain ⟨e1, e2, e3⟩ := req_getCookie L r1 h1 k s
        rw [ih _ _ h0 e3, e1, e2]
    | set i k v =>
      simp only [runReq, specReq]
      by_cases hk : k = cookieKey
      · subst hk
        simp only [beq_self_eq_true, if_true]
        split
        · rw [ih _ _ (setItem_coherent L r0 _ v h0) h1, setItem_hdr]
        · rw [ih _ _ h0 (setItem_coherent L r1 _ v h1), setItem_hdr]
      · have hk' : (k == cookieKey) = false := by simpa using hk
        simp only [hk', Bool.false_eq_true, if_false]
        split
        · rw [ih _ _ (setItem_coherent L r0 k v h0) h1, setItem_other_hdr r0 k v hk]
        · rw [ih _ _ h0 (setItem_coherent L r1 k v h1), setItem_other_hdr r1 k v hk]
    | del i k =>
      simp only [runReq, specReq]
      by_cases hk : k = cookieKey
      · subst hk
        simp only [beq_self_eq_true, if_true]
        split
        · rw [ih _ _ (delItem_coherent L r0 _ h0) h1, delItem_hdr]
        · rw [ih _ _ h0 (delItem_coherent L r1 _ h1), delItem_hdr]
      · have hk' : (k == cookieKey) = false := by simpa using hk
        simp only [hk', Bool.false_eq_true, if_false]
        split
        · rw [ih _ _ (delItem_coherent L r0 k h0) h1, delItem_other_hdr r0 k hk]
        · rw [ih _ _ h0 (delItem_coherent L r1 k h1), delItem_other_hdr r1 k hk]
    | copy =>
      simp only [runReq, specReq]
      exact ih r0 r0 h0 h0

/-- the instance the red team asked for: read the genuine cookie, replace the header through item
assignment, read again -- the second answer is that of the new header alone -/
theorem reread_second_read (L : Lib) (hdr hdr' k : Str) (s : Bytes) :
    runReq L ⟨some hdr, none⟩ ⟨some hdr, none⟩ [.get 0 k s, .set 0 cookieKey hdr', .get 0 k s] =
      [getCookie L hdr k s, getCookie L hdr' k s] := by
  rw [reread_after_header_change L _ _ _ (coherent_fresh L _) (coherent_fresh L _)]
  simp [specReq]

/-- the `Set-Cookie` value of a Latin-1 cookie consists of printable ASCII only: no CR, LF, NUL or
any other control character (what C14's `wsgi_emitted_clean` assumes about the cookie jar) -/
theorem emit_clean (name v : Str) (hn : LegalName name) (hv : ∀ c ∈ v, c.toNat < 256) :
    ∀ h ∈ emit [(name, quote v)], ∀ c ∈ h, 32 ≤ c.toNat ∧ c.toNat ≤ 127 := by
  intro h hh c hc
  simp only [emit, List.map_cons, List.map_nil, List.mem_singleton] at hh
  subst hh
  have hw := wire_chars name (quote v) hn (quote_chars v hv)
  rw [transcode_ascii _ (fun c hc => (hw c hc).1)] at hc
  exact ⟨(hw c hc).2.2, (hw c hc).1⟩

/-! ### non-vacuity: concrete instances meeting the hypotheses, and the witness of the recorded
finding.  `exLib` is the library exactly as the driver instantiates it (HMAC-MD5, base64 and the
`http.cookies` tokeniser of the model), with a one-point pickle table. -/
section NonVacuity

def exLib : Lib := concreteLib [(("sid".toList, .obj [49]), [128, 5, 75, 1, 46])]
def exKey : Bytes := [107, 101, 121]        -- b'key'
def exOther : Bytes := [111, 116, 104]      -- b'oth'
/-- `cookie_encode(('sid', <obj>), 'key')` = `!Hsf0NE3yohm5B06oF4y7cg==?gAVLAS4=` -/
def exData : Bytes := cookieEncode exLib ("sid".toList, .obj [49]) exKey

/-- the contracts hold for the driver's instance: base64 proved (`Lemmas/B64.lean`), pickle on
the table point and the tokeniser on the emitted header by evaluation -/
example : B64Contract exLib := b64Contract_of_crypto exLib rfl rfl
example : LegalName "sid".toList := by decide
example : PickleAt exLib ("sid".toList, .obj [49]) := by decide +kernel
example : TokContract exLib := tokContract_parseCookies exLib rfl

/-- `decode_calls_unpickle_only_if_mac_ok`: there are inputs on which the unpickler is called -/
example : [128, 5, 75, 1, 46] ∈ (cookieDecode exLib exData exKey).2 := by decide +kernel

/-- `signed_roundtrip` instantiated (all five hypotheses discharged) -/
example : roundTrip exLib "sid".toList (.obj [49]) exKey = (.ok (some (.obj [49])), [[128, 5, 75, 1, 46]]) :=
  signed_roundtrip_concrete _ _ _ _ (by decide) (by decide) (by decide +kernel) (by decide +kernel)

/-- `wrong_secret_absent`: the MACs under `key` and `oth` differ on this message -/
example : exLib.hmac exOther (exLib.b64 (exLib.pickle ("sid".toList, .obj [49]))) ≠
    exLib.hmac exKey (exLib.b64 (exLib.pickle ("sid".toList, .obj [49]))) := by decide +kernel

/-- `tamper_absent_decode` / `tamper_absent_sig_mismatch`: one payload byte flipped (`gAVLAS4=` →
`gAVLAS5=`), and an input that is not even of the signed form -/
example : ∀ sig msg, splitFirst 63 (exData.dropLast.dropLast ++ [53, 61]) = some (sig, msg) →
    sig.drop 1 ≠ exLib.b64 (exLib.hmac exKey msg) := by
  intro sig msg h
  have h' : splitFirst 63 (exData.dropLast.dropLast ++ [53, 61]) =
      some (exData.take 25, [103, 65, 86, 76, 65, 83, 53, 61]) := by decide +kernel
  rw [h'] at h
  simp only [Option.some.injEq, Prod.mk.injEq] at h
  obtain ⟨rfl, rfl⟩ := h
  decide +kernel
example : ¬ MacOk exLib exKey [65, 63, 66] := by rintro ⟨msg, h⟩; cases h

/-- `tamper_absent` (request level): a header whose cookie lost its last character -/
example : getCookie exLib ("sid=\"!Hsf0NE3yohm5B06oF4y7cg==?gAVLAS4\"".toList) "sid".toList exKey = (.ok none, []) := by
  decide +kernel

/-- `replay_under_other_name_absent`: the cookie of `sid` presented as `uid` -/
example : getCookie exLib ("uid=\"!Hsf0NE3yohm5B06oF4y7cg==?gAVLAS4=\"".toList) "uid".toList exKey =
    (.ok none, [[128, 5, 75, 1, 46]]) := by decide +kernel

/-- `copy_preserves_cookies` / `emission_paths_same`: a value that needs quoting, and a signed cookie -/
example : copyJar [("n".toList, quote "a b;c=\"d\"".toList)] = .ok [("n".toList, quote "a b;c=\"d\"".toList)] :=
  copy_preserves_cookies _ _ (by decide) (by decide)
example : emitVia .redirect [("sid".toList, quote (latin1Dec exData))] [] =
    .ok [("sid".toList, "\"!Hsf0NE3yohm5B06oF4y7cg==?gAVLAS4=\"".toList)] := by decide +kernel

/-- `reread_after_header_change`: genuine cookie read, header replaced by a truncated copy, read again -/
example : runReq exLib ⟨some "sid=\"!Hsf0NE3yohm5B06oF4y7cg==?gAVLAS4=\"".toList, none⟩ ⟨none, none⟩
    [.get 0 "sid".toList exKey, .set 0 cookieKey "sid=\"!Hsf0NE3yohm5B06oF4y7cg==?gAVLAS4\"".toList,
     .get 0 "sid".toList exKey, .del 0 cookieKey, .get 0 "sid".toList exKey] =
    [(.ok (some (.obj [49])), [[128, 5, 75, 1, 46]]), (.ok none, []), (.ok none, [])] := by decide +kernel

/-- `plain_roundtrip`: hypotheses met by a value with separators, quotes and Latin-1 text -/
example : LegalName "n".toList ∧ (∀ c ∈ "a;b \"é\\073".toList, c.toNat < 256) ∧ TokAt exLib "n".toList "a;b \"é\\073".toList :=
  ⟨by decide, by decide, tokContract_parseCookies exLib rfl _ _ (by decide) (by decide)⟩
example : roundTrip exLib "n".toList (.text "a;b \"é\\073".toList) [] = (.ok (some (.text "a;b \"é\\073".toList)), []) := by
  decide +kernel

/-- **witness of the recorded finding `C15:plain-cookie:char>=U+0100`**: the excluded point
really fails in the model.  `'€'` is U+20AC, so hypothesis `hv` of `plain_roundtrip` is false
for it, every other hypothesis holds, and the cookie is read back as the three Latin-1 characters
of its UTF-8 encoding; mixed with a Latin-1 character (`'é€'`) the result is not even the
mojibake of the whole. -/
example : ¬ (∀ c ∈ "€".toList, c.toNat < 256) := by decide
example : LegalName "n".toList ∧ "€".toList ≠ [] ∧ "€".toList.length ≤ 4096 := by decide
example : roundTrip exLib "n".toList (.text "€".toList) [] = (.ok (some (.text "â\x82¬".toList)), []) := by
  decide +kernel
example : roundTrip exLib "n".toList (.text "é€".toList) [] = (.ok (some (.text "éâ\x82¬".toList)), []) := by
  decide +kernel

end NonVacuity

end Ombott.Cookies

/-! ### the cache layer of the request object (general theorem in `Props/EnvCache.lean`) -/
namespace Ombott.EnvCache

/-- **the cache is never observable** (general statement; scope and residue in `Props/EnvCache.lean`) -/
theorem c15_cache_unobservable (cfg : Cfg) (L : Lib) (w : World) (ops : List Op)
    (hW : InvW cfg L w) (hs : Safe cfg L w ops) : run cfg L w ops = specRun cfg L w ops :=
  cache_unobservable cfg L w ops hW hs

/-- **`cookies` follow the `Cookie` header** (subsumes `reread_after_header_change`: any number of
requests, copies of copies, assignments and deletions of ANY key): every read of `cookies` is the
parse of `HTTP_COOKIE` as it is at that moment on that request — a forged cookie put into the
request after the genuine one was read is parsed on its own, never answered from the cache -/
theorem c15_cookies_follow_header (cfg : Cfg) (L : Lib) (w : World) (ops : List Op) (hW : FreshW w)
    (hw : ∀ op ∈ ops, opWithin [.cookies] (fun _ => true) op = true) :
    run cfg L w ops = specRun cfg L w ops :=
  cookies_follow_header cfg L w ops hW hw

/-- the dependency cover and the pinned residue, as C15 relies on them -/
theorem c15_dependency_cover :
    (∀ row ∈ Gen.ecProps, ∀ K ∈ row.reads, row.key.toList ∈ todelete K.toList ∨ (row.name, K) ∈ Gen.ecUncovered) ∧
    Gen.ecUncovered.filter (fun p => !ecByDesign.contains p) = pinnedStale :=
  ⟨dependency_cover, uncovered_pinned.1⟩

section NonVacuity
/-- the hypotheses of the theorems above are met by the request and library of `Props/EnvCache.lean` and this
sequence (further instances, out-of-scope sequences and the witnesses of the pinned residue are there) -/
example : FreshW exWorld ∧ InvW {} exLib exWorld := ⟨FreshW.ofB (by decide), (FreshW.ofB (by decide)).inv {} exLib⟩
example : ∀ op ∈ [Op.read 0 .cookies, .copy 0, .setStr 1 cs!"HTTP_COOKIE" cs!"z=9", .read 1 .cookies, .del 0 cs!"HTTP_COOKIE", .read 0 .cookies], opWithin [.cookies] (fun _ => true) op = true := by decide
end NonVacuity

end Ombott.EnvCache

/-! ## the request helper classes behind `Request.headers`, `.cookies`, `.auth`, `.remote_route`, `.is_xhr`

`WSGIHeaderDict`, `CookieDict` (`ombott/request_pkg/helpers.py`) and the small accessors of `props_mixin.py` carry
the header-borne data C15 is about (the `Cookie` header itself, credentials, forwarded addresses) from the environ to
the handler.  The functions are the ones the driver runs (`Drv/Helpers.lean`); the tables (`Gen/Helpers.lean`, names
`hp…`) are regenerated from the live classes on every run. -/
namespace Ombott.WsgiHeaders
open Py

/-- **table tie**: the keys shown without `HTTP_`, the prefix, and `_ekey` / `__iter__` of the live class on the probe
points are what the model computes (so a change of `cgikeys`, of the prefix or of either mapping re-opens this) -/
theorem header_tables_pinned :
    Gen.hpCgikeys = ["CONTENT_LENGTH", "CONTENT_TYPE"] ∧ Gen.hpHttpPrefix.toList = httpPrefix ∧
    (∀ p ∈ Gen.hpEkeyProbes, ekey p.1.toList = p.2.toList) ∧
    (∀ p ∈ Gen.hpIterProbes, iterName p.1.toList = p.2.map String.toList) := by
  refine ⟨by decide, by decide +kernel, by decide +kernel, by decide +kernel⟩

/-- **ekey_title_roundtrip**: for every header name made of letters, digits and hyphens, the name iteration lists
for the environ key `_ekey name` is `name.title()`, and `_ekey` of that listed name is the same key: the view neither
loses nor invents a header, whatever the case the handler spells the name in. -/
theorem ekey_title_roundtrip (name : Str) (hn : ∀ c ∈ name, isNameChar c = true) :
    iterName (ekey name) = some (title name) ∧ ekey (title name) = ekey name := by
  have hd : dash name = name := dash_of_no_under name (by
    intro c hc e
    subst e
    have := hn _ hc
    revert this; decide)
  have h1 := iterName_ekey name
  have h2 := ekey_title_dash name
  rw [hd] at h1 h2
  exact ⟨h1, h2⟩

/-- the CGI ambiguity, stated: a name spelled with underscores reads the same environ entry as the one spelled with
hyphens (`X_A` and `X-A` are one header to the view), and iteration lists it with hyphens — for every name -/
theorem ekey_underscore_same_key (name : Str) :
    ekey (undash name) = ekey name ∧ ekey (dash name) = ekey name ∧
    iterName (ekey name) = some (title (dash name)) ∧ ekey (title (dash name)) = ekey name := by
  refine ⟨ekey_congr _ _ ?_, ekey_congr _ _ ?_, iterName_ekey name, ekey_title_dash name⟩
  · simp only [undash_eq, List.map_map]
    congr 1
    apply List.map_congr_left
    intro c _
    simp only [Function.comp, unC]
    split <;> simp_all
  · rw [undash_dash]

/-- **headers_view_exact**: the mapping the view shows is exactly the environ's `HTTP_*` entries plus the CGI keys:
(1) `keys()` lists one name per such entry, in environ order, and nothing else (`len` counts them);
(2) a lookup that succeeds reads such an entry, decoded as Latin-1 when it is bytes, and a lookup fails only with `KeyError`;
(3) for an environ whose keys are distinct (a `dict`) every header entry written the way a WSGI server writes it
    (`canonKey`) is read back under the name listed for it, so
(4) `items()` of an environ all of whose header keys are canonical is the list of those entries. -/
theorem headers_view_exact (e : Env) :
    (keys e = (e.filter fun p => isHeaderKey p.1).map (fun p => nameOf p.1) ∧
      len e = (e.filter fun p => isHeaderKey p.1).length) ∧
    (∀ n s, getitem e n = .ok s ↔ ∃ v, (ekey n, v) ∈ e ∧ e.get? (ekey n) = some v ∧ isHeaderKey (ekey n) = true ∧ s = touni v) ∧
    (∀ n x, getitem e n = .error x → x = .keyError ∧ contains e n = false) ∧
    ((e.map (·.1)).Nodup → ∀ k v, (k, v) ∈ e → canonKey k = true →
      raw e (nameOf k) = some v ∧ getitem e (nameOf k) = .ok (touni v) ∧ contains e (nameOf k) = true) ∧
    ((e.map (·.1)).Nodup → (∀ p ∈ e, isHeaderKey p.1 = true → canonKey p.1 = true) →
      items e = .ok ((e.filter fun p => isHeaderKey p.1).map fun p => (nameOf p.1, touni p.2))) := by
  have hcanon : (e.map (·.1)).Nodup → ∀ k v, (k, v) ∈ e → canonKey k = true → e.get? (ekey (nameOf k)) = some v := by
    intro hn k v hm hc
    rw [ekey_nameOf k hc]
    exact get?_of_mem e k v hn hm
  refine ⟨⟨keys_eq e, by unfold len; rw [keys_eq, List.length_map]⟩, ?_, ?_, ?_, ?_⟩
  · intro n s
    rw [getitem_ok_iff]
    constructor
    · rintro ⟨v, hv, hs⟩
      exact ⟨v, get?_mem e _ v hv, hv, isHeaderKey_ekey n, hs⟩
    · rintro ⟨v, _, hv, _, hs⟩
      exact ⟨v, hv, hs⟩
  · intro n x hx
    refine ⟨getitem_error e n x hx, ?_⟩
    unfold getitem at hx
    unfold contains
    cases hg : e.get? (ekey n) with
    | none => rfl
    | some v => rw [hg] at hx; cases hx
  · intro hn k v hm hc
    have := hcanon hn k v hm hc
    refine ⟨this, ?_, ?_⟩
    · unfold getitem; rw [this]
    · unfold contains; rw [this]; rfl
  · intro hn hall
    unfold items
    rw [keys_eq, List.mapM_map]
    apply mapM_ok
    intro p hp
    have hp' := List.mem_filter.mp hp
    have hc := hall p hp'.1 (by simpa using hp'.2)
    simp only [Function.comp, getitem]
    rw [hcanon hn p.1 p.2 hp'.1 hc]
    rfl

/-- the outcome of a mutator call as the table spells it -/
def outcomeName : Except Err Out → String
  | .ok _ => "ok"
  | .error e => e.name

/-- the probe calls of `harness/tables/helpers.py` on the environ `{HTTP_X_A: '1', CONTENT_TYPE: 't', REQUEST_METHOD: 'GET'}` -/
def probeEnv : Env := [(cs!"HTTP_X_A", .str cs!"1"), (cs!"CONTENT_TYPE", .str cs!"t"), (cs!"REQUEST_METHOD", .str cs!"GET")]
def probeOp : String → Option Op
  | "setitem-new" => some (.setitem cs!"X-B" cs!"v") | "setitem-old" => some (.setitem cs!"X-A" cs!"v")
  | "delitem-old" => some (.delitem cs!"X-A") | "delitem-new" => some (.delitem cs!"X-B")
  | "pop-old" => some (.pop cs!"X-A" none) | "pop-new" => some (.pop cs!"X-B" none)
  | "pop-new-default" => some (.pop cs!"X-B" (some [])) | "popitem" => some .popitem | "clear" => some .clear
  | "update" => some (.update [(cs!"X-B", cs!"v")]) | "update-empty" => some (.update [])
  | "setdefault-old" => some (.setdefault cs!"X-A" cs!"v") | "setdefault-new" => some (.setdefault cs!"X-B" cs!"v")
  | _ => none

/-- **headers_view_readonly**: `__setitem__` and `__delitem__` raise `TypeError`, and no call sequence of the
mutators a `MutableMapping` offers (`h[k] = v`, `del h[k]`, `pop`, `popitem`, `clear`, `update`, `setdefault`)
changes the environ.  A call that does not raise is one that would not have changed a real dict either (`pop` of a
missing name with a default, `setdefault` of a present name, `update` with nothing, `clear` of a view in which nothing
readable is listed).  The live class answered the probe calls exactly as the model does, each leaving the environ
untouched (table tie). -/
theorem headers_view_readonly (e : Env) :
    (∀ k v, setitem e k v = (.error .typeError, e)) ∧ (∀ k, delitem e k = (.error .typeError, e)) ∧
    (∀ ops, (applyOps e ops).2 = e) ∧
    (∀ op out, (applyOp e op).1 = .ok out →
      (∃ k d, op = .pop k (some d) ∧ contains e k = false) ∨ (∃ k d, op = .setdefault k d ∧ contains e k = true) ∨
      op = .update [] ∨ (op = .clear ∧ ∀ k ∈ (keys e).head?, contains e k = false)) ∧
    (∀ r ∈ Gen.hpReadonlyOps, r.2.2 = true ∧ ∃ op, probeOp r.1 = some op ∧ outcomeName (applyOp probeEnv op).1 = r.2.1) := by
  refine ⟨fun _ _ => rfl, fun _ => rfl, applyOps_env e, ?_, by decide +kernel⟩
  intro op out h
  cases op with
  | setitem k v => cases h
  | delitem k => cases h
  | pop k d =>
    simp only [applyOp] at h
    unfold contains
    unfold getitem at h
    cases hg : e.get? (ekey k) with
    | none =>
      rw [hg] at h
      cases d with
      | none => cases h
      | some s => exact Or.inl ⟨k, s, rfl, by rw [hg]; rfl⟩
    | some v => rw [hg] at h; cases h
  | popitem =>
    simp only [applyOp, popitem] at h
    split at h
    · cases h
    · split at h <;> cases h
  | clear =>
    refine Or.inr (Or.inr (Or.inr ⟨rfl, ?_⟩))
    intro k hk
    simp only [applyOp, clear, popitem] at h
    cases hks : keys e with
    | nil => rw [hks] at hk; cases hk
    | cons k0 r =>
      rw [hks] at hk h
      simp only [List.head?_cons, Option.mem_def, Option.some.injEq] at hk
      subst hk
      simp only at h
      unfold contains
      unfold getitem at h
      cases hg : e.get? (ekey k0) with
      | none => rfl
      | some v => rw [hg] at h; cases h
  | update ps =>
    cases ps with
    | nil => exact Or.inr (Or.inr (Or.inl rfl))
    | cons p r => obtain ⟨k, v⟩ := p; cases h
  | setdefault k d =>
    simp only [applyOp] at h
    unfold contains
    unfold getitem at h
    cases hg : e.get? (ekey k) with
    | none => rw [hg] at h; cases h
    | some v => exact Or.inr (Or.inl ⟨k, d, rfl, by rw [hg]; rfl⟩)

/-- the names the view lists are the names under which the cache-layer model (`Model/EnvCache.lean`,
`cache_unobservable`) shows the `headers` observable -/
theorem headers_name_agrees_with_envcache (k : Str) : iterName k = Ombott.EnvCache.headerName k :=
  iterName_eq_envcache k

end Ombott.WsgiHeaders

namespace Ombott.FormsDict
open Py Ombott.Cookies

/-- **table tie** (`CookieDict`): the accessors the class body defines, the attribute names normal lookup finds
(for which `__getattr__` is never asked: they shadow a cookie of the same name), the default `input_encoding` and that
it names the UTF-8 codec, the factories of `Request`, `None` for a missing attribute.  Adding, removing or renaming an
accessor re-opens this. -/
theorem cookiedict_tables_pinned :
    Gen.hpCookieDictOwn = ["__getattr__", "_decoded", "_fix", "decode", "getunicode", "input_encoding"] ∧
    Gen.hpCookieInputEncoding = "utf8" ∧ codecOf Gen.hpCookieInputEncoding.toList = some .utf8 ∧
    Gen.hpFactories = ["FormsDict", "CookieDict", "FormsDict", "CookieDict"] ∧ Gen.hpMissingAttr = ["None", "None"] ∧
    (∀ n ∈ ["_decoded", "_fix", "decode", "getunicode", "input_encoding", "get", "copy", "keys", "items", "values", "pop",
      "update", "clear", "__len__", "__class__", "__dict__"], n.toList ∈ cdAttrs) ∧
    (∀ n ∈ ["sid", "n", "a", "user_id", "session", "token", "getall", "__x__", "__"], n.toList ∉ cdAttrs) := by
  refine ⟨by decide, by decide, by decide +kernel, by decide, by decide, by decide +kernel, by decide +kernel⟩

/-- **cookiedict_total**: on a `CookieDict` with a known `input_encoding` (every instance the framework creates:
`cookiedict_tables_pinned`) item access raises nothing but `KeyError`, attribute access nothing but `AttributeError`
(exactly for dunder names that normal lookup does not find), `get` and `getunicode` with the instance's encoding
never raise — an undecodable value is the default, `None` for attribute access — and `decode` raises nothing but
`UnicodeError` (a key or value that is not Latin-1, or not valid in the target codec), `TypeError` (a decoded copy asked
for another encoding NAME) and, for a codec name that does not exist, `LookupError`. -/
theorem cookiedict_total (c : CD) (henc : (codecOf c.enc).isSome = true) (name : Str) (d : Option Str) :
    (∀ x, cdGetitem c name = .error x → x = .keyError) ∧
    (∃ r, cdGetunicode c name d none = .ok r) ∧
    (∀ x, cdGetattr c name = .error x → x = .attributeError ∧ isDunder name = true ∧ ¬ name ∈ cdAttrs) ∧
    (∀ x, cdDecode c none = .error x → x = .unicodeError) ∧
    (∀ e x, cdDecode c (some e) = .error x → x = .unicodeError ∨ x = .typeError ∨ (codecOf e = none ∧ x = .lookupError)) := by
  have hknown : ∀ x, ¬ (codecOf c.enc = none ∧ x = HErr.lookupError) := by
    intro x h; rw [h.1] at henc; cases henc
  have hgu : ∃ r, cdGetunicode c name d none = .ok r := by
    unfold cdGetunicode
    simp only [Option.getD_none]
    cases hg : cdGetitem c name with
    | error y =>
      have : y = .keyError := by
        unfold cdGetitem at hg; split at hg <;> cases hg; rfl
      subst this; exact ⟨_, rfl⟩
    | ok v =>
      simp only
      cases hf : fix v c.enc with
      | ok s => exact ⟨_, rfl⟩
      | error y =>
        rcases fix_error v c.enc y hf with rfl | h
        · exact ⟨_, rfl⟩
        · exact absurd h (hknown y)
  refine ⟨?_, hgu, ?_, ?_, ?_⟩
  · intro x hx
    unfold cdGetitem at hx; split at hx <;> cases hx; rfl
  · intro x hx
    unfold cdGetattr at hx
    split at hx
    · cases hx
    · rename_i hna
      split at hx
      · rename_i hd
        cases hx
        exact ⟨rfl, hd, fun hm => hna (List.contains_iff_mem.mpr hm)⟩
      · obtain ⟨r, hr⟩ : ∃ r, cdGetunicode c name none none = .ok r := by
          have := cookiedict_getunicode_ok c henc name
          exact this
        rw [hr] at hx; cases hx
  · intro x hx
    unfold cdDecode at hx
    split at hx
    · cases hx
    · simp only [Option.getD_none] at hx
      cases hgo : decodeGo c.enc c.items [] with
      | ok items => rw [hgo] at hx; cases hx
      | error y =>
        rw [hgo] at hx; cases hx
        rcases decodeGo_error _ _ _ _ hgo with h | h
        · exact h
        · exact absurd h (hknown _)
  · intro e x hx
    unfold cdDecode at hx
    split at hx
    · simp only at hx
      split at hx
      · cases hx; exact Or.inr (Or.inl rfl)
      · cases hx
    · simp only [Option.getD_some] at hx
      cases hgo : decodeGo e c.items [] with
      | ok items => rw [hgo] at hx; cases hx
      | error y =>
        rw [hgo] at hx; cases hx
        rcases decodeGo_error _ _ _ _ hgo with h | h
        · exact Or.inl h
        · exact Or.inr (Or.inr h)

/-- **cookie_attr_roundtrip**: an unsigned ASCII cookie set on a response and returned by the client is read back
unchanged through every `CookieDict` accessor — item, `get`, `getunicode` (with any default), attribute access — for
every legal cookie name that is not shadowed by an attribute of the class and is not a dunder name.  (Composes
`setCookie` → `emit` → the client → the `http.cookies` tokeniser of `Props/C15.lean`'s `plain_roundtrip` with `_fix`.)
The value may be empty here (unlike `get_cookie`, the dictionary does show an empty cookie).
Residue, with model witnesses below: a value holding a character in U+0080..U+00FF reads as `None` through
`getunicode` / attribute access (it is sent octal-escaped, so its Latin-1 view is not UTF-8), the mirror image of the
recorded finding `C15:plain-cookie:char>=U+0100` (for which attribute access DOES return the original text). -/
theorem cookie_attr_roundtrip (name v : Str) (hn : LegalName name) (hv : ∀ c ∈ v, c.toNat < 128) (hlen : v.length ≤ 4096)
    (hattr : ¬ name ∈ cdAttrs) (hd : isDunder name = false) (pk : PkTable) (d : Option Str) :
    ∃ jar c, setCookie (concreteLib pk) [] name (.text v) [] = .ok jar ∧
      requestCookies (clientHeader (emit jar)) = .ok c ∧
      cdGetitem c name = .ok v ∧ cdGet c name d = some v ∧ cdGetunicode c name d none = .ok (some v) ∧
      cdGetattr c name = .ok (.value (some v)) := by
  have hv256 : ∀ c ∈ v, c.toNat < 256 := fun c hc => by have := hv c hc; omega
  refine ⟨_, cdOfPairs [(name, v)], setCookie_plain _ name v hn hlen, ?_, ?_⟩
  · rw [wire_single _ _ (wire_chars _ _ hn (quote_chars v hv256))]
    unfold requestCookies
    rw [parseCookies_single name v hn hv256, Cookies.unquote_quote v hv256]
    rfl
  · have hitems : (cdOfPairs [(name, v)]).items = [(name, v)] := rfl
    have hencd : (cdOfPairs [(name, v)]).enc = Gen.hpCookieInputEncoding.toList := rfl
    have hgi : cdGetitem (cdOfPairs [(name, v)]) name = .ok v := by
      unfold cdGetitem; rw [hitems, sget?_single]
    have hgu : cdGetunicode (cdOfPairs [(name, v)]) name d none = .ok (some v) := by
      unfold cdGetunicode
      simp only [Option.getD_none, hgi, hencd]
      rw [fix_ascii v _ hv (by decide +kernel)]
    refine ⟨hgi, ?_, hgu, ?_⟩
    · unfold cdGet; rw [hitems, sget?_single]
    · unfold cdGetattr
      have h1 : cdAttrs.contains name = false := by
        rw [Bool.eq_false_iff]; intro h; exact hattr (List.contains_iff_mem.mp h)
      have hgu' : cdGetunicode (cdOfPairs [(name, v)]) name none none = .ok (some v) := by
        unfold cdGetunicode
        simp only [Option.getD_none, hgi, hencd]
        rw [fix_ascii v _ hv (by decide +kernel)]
      simp only [h1, hd, Bool.false_eq_true, if_false, hgu']
      rfl

end Ombott.FormsDict

namespace Ombott.ReqProps
open Py

/-- **table tie** (`auth`, `remote_route`, `is_xhr`): the environ keys the accessors read, the scheme spellings `auth`
accepts on a valid payload (exactly the spellings of `basic` in any case), the token `is_xhr` compares with, and that
`is_ajax` is `is_xhr` -/
theorem reqprops_tables_pinned :
    Gen.hpAuthKeys = ["HTTP_AUTHORIZATION", "REMOTE_USER"] ∧ Gen.hpRouteKeys = ["HTTP_X_FORWARDED_FOR", "REMOTE_ADDR"] ∧
    Gen.hpXhrKeys = ["HTTP_X_REQUESTED_WITH"] ∧ Gen.hpXhrToken = "xmlhttprequest" ∧ Gen.hpAjaxIsXhr = true ∧
    (∀ p ∈ Gen.hpAuthSchemes, decide (lower p.1.toList = cs!"basic") = p.2) := by
  refine ⟨by decide, by decide, by decide, by decide, by decide, by decide +kernel⟩

/-- **auth_roundtrip**: for every user name without `:` and every password (any text, also empty, also with colons),
`auth` of `Authorization: <scheme><white space>b64(utf8(user:password))` — the scheme `basic` in any letter case,
any non-empty run of white space — is `(user, password)`, whatever `REMOTE_USER` holds. -/
theorem auth_roundtrip (scheme sep user password : Str) (remoteUser : Option Str)
    (hs : lower scheme = cs!"basic") (hsep : sep ≠ []) (hsw : ∀ c ∈ sep, isWsChar c = true) (hu : ':' ∉ user) :
    auth (some (basicHeader scheme sep user password)) remoteUser = .ok (some (user, some password)) := by
  unfold auth parseAuth
  simp only [Option.getD_some]
  rw [parseAuthTry_basic scheme sep user password hs hsep hsw hu]

/-- what `parse_auth` answers, in one expression: the first two white-space separated pieces, the scheme compared
case-insensitively, lenient base64, strict UTF-8, split at the first colon — `None` as soon as one step fails -/
def parseAuthSpec (header : Str) : Option (Str × Str) :=
  match splitWs1 header with
  | [method, data] =>
    if lower method = cs!"basic" then
      (Crypto.b64decodeLenient (utf8Enc data)).bind fun raw => (utf8Dec raw).bind fun text => splitFirst ':' text
    else none
  | _ => none

/-- **auth_malformed_none**: `auth` never raises; the header gives credentials exactly when every step of
`parseAuthSpec` succeeds, and otherwise the answer is `(REMOTE_USER, None)` for a non-empty `REMOTE_USER`, else `None`.
In particular `None` for: no second piece (`''`, `'Basic'`, `'Basic  '`), another scheme, a payload that ends
inside a base64 quad (`binascii.Error`), decoded bytes that are not UTF-8 (`UnicodeDecodeError`), no colon in the
decoded text — each of these is a `ValueError` caught inside `parse_auth`. -/
theorem auth_malformed_none (authorization remoteUser : Option Str) :
    (∀ header, parseAuth header = .ok (parseAuthSpec header)) ∧
    (∀ e : AErr, e.caught = true) ∧
    auth authorization remoteUser = .ok (match parseAuthSpec (authorization.getD []) with
      | some (u, p) => some (u, some p)
      | none => match remoteUser with
        | some (c :: r) => some (c :: r, none)
        | _ => none) := by
  have hp : ∀ header, parseAuth header = .ok (parseAuthSpec header) := by
    intro header
    unfold parseAuth parseAuthTry parseAuthSpec
    cases splitWs1 header with
    | nil => rfl
    | cons method t =>
      cases t with
      | nil => rfl
      | cons data t2 =>
        cases t2 with
        | cons _ _ => rfl
        | nil =>
          simp only
          by_cases hb : lower method = cs!"basic"
          · simp only [hb, if_true]
            cases h1 : Crypto.b64decodeLenient (utf8Enc data) with
            | none => rfl
            | some raw =>
              simp only [Option.bind_some]
              cases h2 : utf8Dec raw with
              | none => rfl
              | some text =>
                simp only [Option.bind_some]
                cases h3 : splitFirst ':' text with
                | none => rfl
                | some up => obtain ⟨u, p⟩ := up; rfl
          · simp only [hb, if_false]
  refine ⟨hp, fun e => by cases e <;> rfl, ?_⟩
  unfold auth
  rw [hp]
  cases parseAuthSpec (authorization.getD []) with
  | none =>
    cases remoteUser with
    | none => rfl
    | some r => cases r <;> rfl
  | some up => obtain ⟨u, p⟩ := up; rfl

/-- **remote_route_split**: `remote_route` of an `X-Forwarded-For` header made of addresses joined by a comma and any
white space (`', '.join(ips)` for `sp = " "`) is the list of those addresses, and `remote_addr` is the first (the
client), whatever `REMOTE_ADDR` holds; for every non-empty list of addresses free of commas and of surrounding white
space whose joined text is not empty.  Without the header (or with an empty one) the route is `[REMOTE_ADDR]`, or
`[]` when that is missing or empty too, and `remote_addr` is `REMOTE_ADDR` / `None`. -/
theorem remote_route_split (sp : Str) (hsp : ∀ c ∈ sp, isWsChar c = true ∧ c ≠ ',') (ips : List Str) (hne : ips ≠ [])
    (hip : ∀ ip ∈ ips, ',' ∉ ip ∧ strip ip = ip) (hj : joinCommaSp sp ips ≠ []) (remote : Option Str) :
    remoteRoute (some (joinCommaSp sp ips)) remote = ips ∧ remoteAddr (some (joinCommaSp sp ips)) remote = ips.head? ∧
    (∀ ra, ra ≠ [] → remoteRoute none (some ra) = [ra] ∧ remoteRoute (some []) (some ra) = [ra] ∧
      remoteAddr none (some ra) = some ra) ∧
    remoteRoute none none = [] ∧ remoteRoute none (some []) = [] ∧ remoteAddr none none = none := by
  have hr : remoteRoute (some (joinCommaSp sp ips)) remote = ips := by
    unfold remoteRoute
    obtain ⟨c, r, hcr⟩ := List.exists_cons_of_ne_nil hj
    rw [hcr]
    simp only
    rw [← hcr]
    have := route_pieces sp hsp ips hne hip [] (by intro c hc; cases hc)
    simpa using this
  refine ⟨hr, by unfold remoteAddr; rw [hr], ?_, rfl, rfl, rfl⟩
  intro ra hra
  obtain ⟨c, r, rfl⟩ := List.exists_cons_of_ne_nil hra
  exact ⟨rfl, rfl, rfl⟩

/-- the `remote_route` the cache-layer model (`Model/EnvCache.lean`) caches is this function of the two environ entries -/
theorem remote_route_agrees_with_envcache (e : Ombott.EnvCache.Env) :
    Ombott.EnvCache.remoteRouteOf e =
      .strs (remoteRoute (e.str? cs!"HTTP_X_FORWARDED_FOR") (e.str? cs!"REMOTE_ADDR")) := by
  unfold Ombott.EnvCache.remoteRouteOf remoteRoute Ombott.EnvCache.truthy
  cases h1 : e.str? cs!"HTTP_X_FORWARDED_FOR" with
  | none =>
    simp only
    cases h2 : e.str? cs!"REMOTE_ADDR" with
    | none => rfl
    | some r => cases r <;> rfl
  | some p =>
    cases p with
    | nil =>
      simp only [List.isEmpty_nil, if_true]
      cases h2 : e.str? cs!"REMOTE_ADDR" with
      | none => rfl
      | some r => cases r <;> rfl
    | cons c r => rfl

/-- **is_xhr_spec**: `is_xhr` is true exactly when `X-Requested-With`, ASCII-lower-cased, is `xmlhttprequest`; a missing
header is false; `is_ajax` is the same function -/
theorem is_xhr_spec (v : Option Str) :
    (isXhr v = true ↔ ∃ s, v = some s ∧ lower s = cs!"xmlhttprequest") ∧ isAjax v = isXhr v := by
  refine ⟨?_, rfl⟩
  have ht : xhrToken = cs!"xmlhttprequest" := by decide +kernel
  unfold isXhr
  rw [ht]
  cases v with
  | none => simp [lower]
  | some s => simp

end Ombott.ReqProps

/-! ### non-vacuity of the helper theorems, and the witnesses of their documented residue -/
namespace Ombott.WsgiHeaders
open Py
section NonVacuity

/-- `ekey_title_roundtrip`: a lower-case name with digits and hyphens meets the hypothesis; its key, and what is listed -/
example : ∀ c ∈ cs!"x-forwarded-4", isNameChar c = true := by decide
example : ekey cs!"x-forwarded-4" = cs!"HTTP_X_FORWARDED_4" ∧ iterName (ekey cs!"x-forwarded-4") = some cs!"X-Forwarded-4" ∧
    ekey cs!"content-TYPE" = cs!"CONTENT_TYPE" ∧ iterName cs!"CONTENT_TYPE" = some cs!"Content-Type" := by decide +kernel
/-- the hypothesis matters for the FORM of the listed name only: with an underscore the same key is read, the listed
name has the hyphen -/
example : ekey cs!"X_A" = ekey cs!"x-a" ∧ iterName (ekey cs!"X_A") = some cs!"X-A" ∧ title cs!"X_A" = cs!"X_A" := by decide +kernel

def exEnv : Env := [(cs!"REQUEST_METHOD", .str cs!"GET"), (cs!"HTTP_X_A", .str cs!"1"), (cs!"CONTENT_TYPE", .str cs!"t"),
  (cs!"HTTP_HOST", .bytes [104, 233]), (cs!"http_x_b", .str cs!"noise"), (cs!"X_A", .str cs!"noise")]

/-- `headers_view_exact` (3), (4): an environ as a server builds it has distinct keys and canonical header keys … -/
example : (exEnv.map (·.1)).Nodup ∧ ∀ p ∈ exEnv, isHeaderKey p.1 = true → canonKey p.1 = true := by decide +kernel
/-- … and this is what the view shows of it (a bytes value decoded as Latin-1, the noise keys invisible) -/
example : items exEnv = .ok [(cs!"X-A", cs!"1"), (cs!"Content-Type", cs!"t"), (cs!"Host", cs!"hé")] ∧ len exEnv = 3 ∧
    contains exEnv cs!"x_a" = true ∧ contains exEnv cs!"Request-Method" = false := by decide +kernel
/-- **residue** (outside every property text; environ keys no WSGI server produces): a lower-case or hyphenated tail
after `HTTP_` is listed but cannot be read back, and `HTTP_CONTENT_TYPE` is listed as a second `Content-Type` that reads
the CGI key's value — `canonKey` is exactly what excludes them -/
example : canonKey cs!"HTTP_x_b" = false ∧ canonKey cs!"HTTP_X-C" = false ∧ canonKey cs!"HTTP_CONTENT_TYPE" = false := by
  decide +kernel
example : keys [(cs!"HTTP_x_b", .str cs!"2")] = [cs!"X-B"] ∧ items [(cs!"HTTP_x_b", .str cs!"2")] = .error .keyError ∧
    keys [(cs!"CONTENT_TYPE", .str cs!"t"), (cs!"HTTP_CONTENT_TYPE", .str cs!"u")] = [cs!"Content-Type", cs!"Content-Type"] ∧
    items [(cs!"CONTENT_TYPE", .str cs!"t"), (cs!"HTTP_CONTENT_TYPE", .str cs!"u")] =
      .ok [(cs!"Content-Type", cs!"t"), (cs!"Content-Type", cs!"t")] := by decide +kernel
/-- `headers_view_readonly`: the calls that do not raise, on a concrete view -/
example : (applyOps exEnv [.setitem cs!"X-New" cs!"v", .pop cs!"X-A" none, .pop cs!"Nope" (some cs!"d"), .clear,
      .setdefault cs!"x-a" cs!"z", .update [], .popitem]).1 =
    [.error .typeError, .error .typeError, .ok (.str cs!"d"), .error .typeError, .ok (.str cs!"1"), .ok .none,
     .error .typeError] := by decide +kernel

end NonVacuity
end Ombott.WsgiHeaders

namespace Ombott.FormsDict
open Py Ombott.Cookies
section NonVacuity

/-- `cookiedict_total`: the hypothesis holds for every dictionary `Request.cookies` creates (default encoding) -/
example : (codecOf (cdOfPairs [(cs!"a", cs!"Ã©")]).enc).isSome = true := by decide +kernel
/-- … a Latin-1 view of UTF-8 is recoded, a value that is not UTF-8 reads as the default, a dunder name raises,
`decode('utf-8')` of a copy decoded as `'utf8'` is a `TypeError` (the NAMES are compared) -/
example : cdGetattr (cdOfPairs [(cs!"a", cs!"Ã©")]) cs!"a" = .ok (.value (some cs!"é")) ∧
    cdGetattr (cdOfPairs [(cs!"a", cs!"é")]) cs!"a" = .ok (.value none) ∧
    cdGetattr (cdOfPairs [(cs!"keys", cs!"v")]) cs!"keys" = .ok (.classAttr cs!"keys") ∧
    cdGetattr (cdOfPairs []) cs!"__x__" = .error .attributeError ∧
    ((cdDecode (cdOfPairs [(cs!"a", cs!"Ã©")]) none).toOption.map fun c => (c.items, cdDecode c (some cs!"utf-8"))) =
      some ([(cs!"a", cs!"é")], .error .typeError) := by decide +kernel
/-- **residue**: `getunicode(encoding='nonsense')` lets the `LookupError` through; attribute access on a DECODED copy
decodes a second time (`cookies.decode().a` is `None` for `é`) -/
example : cdGetunicode (cdOfPairs [(cs!"a", cs!"v")]) cs!"a" none (some cs!"nonsense") = .error .lookupError ∧
    ((cdDecode (cdOfPairs [(cs!"a", cs!"Ã©")]) none).toOption.map fun c => cdGetattr c cs!"a") = some (.ok (.value none)) := by
  decide +kernel

/-- set → emit → client → `Request.cookies` → attribute access, as one expression -/
def attrAfterRoundtrip (name v : Str) : Option (Except HErr (Attr Str)) :=
  (setCookie exLib [] name (.text v) []).toOption.bind fun jar =>
    (requestCookies (clientHeader (emit jar))).toOption.map fun c => cdGetattr c name

/-- `cookie_attr_roundtrip`: hypotheses met by a value with separators and quotes -/
example : LegalName cs!"sid" ∧ (∀ c ∈ cs!"a;b \"q\" =", c.toNat < 128) ∧ ¬ cs!"sid" ∈ cdAttrs ∧ isDunder cs!"sid" = false := by
  decide +kernel
example : attrAfterRoundtrip cs!"sid" cs!"a;b \"q\" =" = some (.ok (.value (some cs!"a;b \"q\" ="))) := by decide +kernel
/-- **witnesses of the residue** next to the recorded finding `C15:plain-cookie:char>=U+0100`: `é` (sent as `"\351"`)
reads as `None` through attribute access although `get_cookie` returns it; `€` (sent as the Latin-1 view of its UTF-8)
reads back as `€` through attribute access although `get_cookie` returns mojibake; mixed, `None` -/
example : attrAfterRoundtrip cs!"n" cs!"é" = some (.ok (.value none)) ∧
    attrAfterRoundtrip cs!"n" cs!"€" = some (.ok (.value (some cs!"€"))) ∧
    attrAfterRoundtrip cs!"n" cs!"é€" = some (.ok (.value none)) := by decide +kernel
/-- a cookie named like a `dict` method is shadowed by the method -/
example : attrAfterRoundtrip cs!"keys" cs!"v" = some (.ok (.classAttr cs!"keys")) := by decide +kernel

end NonVacuity
end Ombott.FormsDict

namespace Ombott.ReqProps
open Py
section NonVacuity

/-- `auth_roundtrip`: hypotheses met by a mixed-case scheme, a tab-and-space separator, an empty user … -/
example : lower cs!"bAsIC" = cs!"basic" ∧ (∀ c ∈ [' ', '\t', '\u00a0'], isWsChar c = true) ∧ ':' ∉ cs!"Aladdin" ∧ ':' ∉ ([] : Str) := by
  decide
/-- … and the header and answer for `Aladdin` / `open:sesame` (a colon in the password), non-ASCII credentials -/
example : basicHeader cs!"Basic" cs!" " cs!"Aladdin" cs!"open:sesame" = cs!"Basic QWxhZGRpbjpvcGVuOnNlc2FtZQ==" ∧
    auth (some cs!"Basic QWxhZGRpbjpvcGVuOnNlc2FtZQ==") none = .ok (some (cs!"Aladdin", some cs!"open:sesame")) ∧
    auth (some (basicHeader cs!"bAsIC" [' ', '\t'] cs!"é" cs!"€")) (some cs!"ruser") = .ok (some (cs!"é", some cs!"€")) := by
  decide +kernel
/-- `auth_malformed_none`: one token; another scheme; `ABC` (no colon); a payload ending inside a quad; bytes that are not
UTF-8 (`/w==` is `0xFF`); padding missing (`dTpw` is fine, `dTp` is not); foreign characters are skipped by the lenient
decoder (`d.T-p w` reads as `dTpw` = `u:p`); and the `REMOTE_USER` fallback -/
example : auth (some cs!"Basic") none = .ok none ∧ auth (some cs!"Digest dTpw") none = .ok none ∧
    auth (some cs!"Basic QUJD") none = .ok none := by decide +kernel
example : auth (some cs!"Basic Q") none = .ok none ∧ auth (some cs!"Basic /w==") none = .ok none ∧
    auth (some cs!"Basic dTp") none = .ok none := by decide +kernel
example : auth (some cs!"Basic d.T-p w") none = .ok (some (cs!"u", some cs!"p")) ∧
    auth (some cs!"Basic QUJD") (some cs!"ruser") = .ok (some (cs!"ruser", none)) := by decide +kernel
example : auth none (some []) = .ok none ∧ auth none none = .ok none := by decide +kernel
/-- `remote_route_split`: hypotheses met by two addresses, one of them IPv6 -/
example : (∀ c ∈ [' '], isWsChar c = true ∧ c ≠ ',') ∧
    (∀ ip ∈ [cs!"1.1.1.1", cs!"2001:db8::1"], ',' ∉ ip ∧ strip ip = ip) ∧ joinCommaSp [' '] [cs!"1.1.1.1", cs!"2001:db8::1"] ≠ [] := by
  decide +kernel
/-- **residue**: empty entries are kept (`'a,,b'`), an entry is not validated as an address -/
example : remoteRoute (some cs!"a,, b ,") (some cs!"9.9.9.9") = [cs!"a", [], cs!"b", []] ∧
    remoteAddr (some cs!" , x") none = some [] := by decide +kernel
/-- `is_xhr_spec` -/
example : isXhr (some cs!"XMLHttpRequest") = true ∧ isXhr (some cs!"XMLHttpRequest ") = false ∧ isXhr none = false := by
  decide +kernel

end NonVacuity
end Ombott.ReqProps
