import OmbottModel.Model.Cookies
namespace Ombott.Cookies
theorem stub : True := trivial
end Ombott.Cookies
