import OmbottModel.Model.Cookies
import OmbottModel.Model.CookiesLib
import OmbottModel.Lemmas.Cookies
import OmbottModel.Lemmas.B64
import OmbottModel.Lemmas.CookieTok
import OmbottModel.Props.EnvCache
/-!
C15 — Cookies round-trip; forged signed cookies are never deserialised.
Property theorems only; helper lemmas live in `Lemmas/Cookies.lean`.  The library parameter
`L : Lib` (hmac, base64, pickle, the `SimpleCookie` header reader) is universally quantified;
the contracts assumed about it are named hypotheses (`B64Contract`, `PickleAt`, `TokAt`),
defined in `Lemmas/Cookies.lean`.  The functions are the ones the driver runs (`lscmp`,
`cookieDecode`, `getCookie`, `setCookie`, `emit`, `roundTrip`).
-/
namespace Ombott.Cookies
open Py

/-- **lscmp_iff_eq**: the constant-time comparison `_lscmp` (`zip`/`sum`/length, as written in
the source) answers true exactly for equal byte strings — for all byte lists. -/
theorem lscmp_iff_eq (a b : Bytes) : lscmp a b = true ↔ a = b := lscmp_iff_eq' a b

/-- **decode_calls_unpickle_only_if_mac_ok**: a byte string `m` is handed to `pickle.loads`
only if the input is `'!' ++ b64(hmac(key, msg)) ++ '?' ++ msg` for the very message part `msg`
it presents, and `m` is the base64 decoding of that `msg`.  No assumption on the library. -/
theorem decode_calls_unpickle_only_if_mac_ok (L : Lib) (data key m : Bytes)
    (hm : m ∈ (cookieDecode L data key).2) :
    ∃ msg, data = 33 :: (L.b64 (L.hmac key msg) ++ 63 :: msg) ∧ L.unb64 msg = some m := by
  rcases cookieDecode_cases L data key with h | ⟨msg, hd, _, h⟩
  · rw [h] at hm; cases hm
  · refine ⟨msg, hd, ?_⟩
    rw [h] at hm
    unfold afterMac at hm
    cases hu : L.unb64 msg with
    | none => rw [hu] at hm; cases hm
    | some raw =>
      rw [hu] at hm
      simp only at hm
      cases hp : L.unpickle raw with
      | none => rw [hp] at hm; simp at hm; rw [hm]
      | some x => rw [hp] at hm; simp at hm; rw [hm]

/-- the input carries a valid MAC of its own message part under `key` -/
def MacOk (L : Lib) (key data : Bytes) : Prop :=
  ∃ msg, data = 33 :: (L.b64 (L.hmac key msg) ++ 63 :: msg)

/-- **tamper_absent** (decoder): every input that is not a MAC forgery — whose signature part is
not the MAC of the message part it presents — decodes to `None` and the unpickler is not called.
This covers every substitution, deletion, truncation, insertion, signature swap: the only way
past is to present `b64(hmac(key, msg'))` for the altered `msg'`. -/
theorem tamper_absent_decode (L : Lib) (data key : Bytes) (h : ¬ MacOk L key data) :
    cookieDecode L data key = (.ok none, []) := by
  rcases cookieDecode_cases L data key with h' | ⟨msg, hd, _, _⟩
  · exact h'
  · exact absurd ⟨msg, hd⟩ h

/-- **tamper_absent** (decoder, computational form): if the input splits at its first `?` into a
signature part and a message part and the signature part is not `'!' + b64(hmac(key, msg))`,
the answer is `None` with no unpickler call; inputs that do not start with `!` or have no `?`
are covered by `tamper_absent_decode` (they are not `MacOk`). -/
theorem tamper_absent_sig_mismatch (L : Lib) (data key : Bytes)
    (h : ∀ sig msg, splitFirst 63 data = some (sig, msg) → sig.drop 1 ≠ L.b64 (L.hmac key msg)) :
    cookieDecode L data key = (.ok none, []) := by
  unfold cookieDecode
  split
  · split
    · rfl
    · rename_i sig msg hsp
      have hne := h sig msg hsp
      have hf : lscmp (sig.drop 1) (L.b64 (L.hmac key msg)) = false := by
        rw [Bool.eq_false_iff]
        intro hc
        exact hne ((lscmp_iff_eq' _ _).mp hc)
      simp only [hf, Bool.false_eq_true, if_false]
  · rfl

/-- **tamper_absent** (request): whatever `Cookie` header arrives, if the value found under the
name is not a valid MAC/message pair for the secret, `get_cookie(name, secret=…)` answers the
default and nothing reaches the unpickler. -/
theorem tamper_absent (L : Lib) (hdr name : Str) (secret : Bytes) (items : List (Str × Str))
    (hload : L.load hdr = .ok items) (hs : secret ≠ [])
    (h : ∀ v, dictGet items name = some v → ¬ MacOk L secret (utf8Enc v)) :
    getCookie L hdr name secret = (.ok none, []) := by
  unfold getCookie
  rw [hload]
  simp only
  cases hg : dictGet items name with
  | none => rfl
  | some v =>
    simp only
    have hse : secret.isEmpty = false := by simpa using hs
    by_cases hv : v.isEmpty = true
    · simp [hse, hv]
    · have hv' : v.isEmpty = false := by simpa using hv
      simp only [hse, hv', Bool.not_false, Bool.and_self, if_true]
      rw [tamper_absent_decode L _ _ (h v hg)]

/-- the loader-call list of `get_cookie` is empty unless the cookie value verifies -/
theorem get_cookie_calls_only_if_mac_ok (L : Lib) (hdr name : Str) (secret m : Bytes)
    (hm : m ∈ (getCookie L hdr name secret).2) :
    ∃ items v, L.load hdr = .ok items ∧ dictGet items name = some v ∧ MacOk L secret (utf8Enc v) := by
  unfold getCookie at hm
  cases hl : L.load hdr with
  | error e => rw [hl] at hm; cases hm
  | ok items =>
    rw [hl] at hm
    simp only at hm
    cases hg : dictGet items name with
    | none => rw [hg] at hm; cases hm
    | some v =>
      refine ⟨items, v, rfl, hg, ?_⟩
      rw [hg] at hm
      simp only at hm
      split at hm
      · rcases cookieDecode_cases L (utf8Enc v) secret with h | ⟨msg, hd, _, _⟩
        · rw [h] at hm; cases hm
        · exact ⟨msg, hd⟩
      · cases hm

/-- **wrong_secret_absent**: a cookie signed with `key`, returned unchanged and read with a secret
whose MAC on that message differs, reads as absent and is not deserialised. -/
theorem wrong_secret_absent (L : Lib) (hb : B64Contract L) (name : Str) (value : CVal) (key secret : Bytes)
    (hn : LegalName name) (hk : key ≠ []) (hs : secret ≠ [])
    (hlen : (cookieEncode L (name, value) key).length ≤ 4096)
    (ht : TokAt L name (latin1Dec (cookieEncode L (name, value) key)))
    (hmac : L.hmac secret (L.b64 (L.pickle (name, value))) ≠ L.hmac key (L.b64 (L.pickle (name, value)))) :
    ∃ jar, setCookie L [] name value key = .ok jar ∧
      getCookie L (clientHeader (emit jar)) name secret = (.ok none, []) := by
  refine ⟨_, setCookie_signed L hb name value key hn hk hlen, ?_⟩
  rw [getCookie_of_signed L hb name value key secret hn hs ht, cookieDecode_other_key L hb _ key secret hmac]

/-- a genuinely signed cookie presented under **another name** (replay of a valid cookie of the
same application) reads as absent: `get_cookie` compares the name embedded in the signed payload.
(The MAC verifies, so the payload the server itself signed is unpickled — once.) -/
theorem replay_under_other_name_absent (L : Lib) (hb : B64Contract L) (hdr name other : Str) (value : CVal)
    (secret : Bytes) (items : List (Str × Str)) (hs : secret ≠ []) (hne : name ≠ other)
    (hp : PickleAt L (name, value)) (hload : L.load hdr = .ok items)
    (hget : dictGet items other = some (latin1Dec (cookieEncode L (name, value) secret))) :
    getCookie L hdr other secret = (.ok none, [L.pickle (name, value)]) := by
  unfold getCookie
  rw [hload]
  simp only [hget]
  have hse : secret.isEmpty = false := by simpa using hs
  have hnv : (latin1Dec (cookieEncode L (name, value) secret)).isEmpty = false := by
    rw [encode_text]; rfl
  simp only [hse, hnv, Bool.not_false, Bool.and_self, if_true]
  rw [utf8Enc_latin1Dec_ascii _ (encode_ascii L hb (name, value) secret),
    cookieDecode_genuine L hb (name, value) hp secret]
  have : (name == other) = false := by simpa using hne
  simp [this]

/-- **signed_roundtrip**: under the library contracts, a signed cookie set on a response and
returned by the client is read back as the very value, and the unpickler is called exactly once,
with the genuine payload. -/
theorem signed_roundtrip (L : Lib) (hb : B64Contract L) (name : Str) (value : CVal) (secret : Bytes)
    (hn : LegalName name) (hs : secret ≠ [])
    (hlen : (cookieEncode L (name, value) secret).length ≤ 4096)
    (hp : PickleAt L (name, value))
    (ht : TokAt L name (latin1Dec (cookieEncode L (name, value) secret))) :
    roundTrip L name value secret = (.ok (some value), [L.pickle (name, value)]) := by
  unfold roundTrip
  rw [setCookie_signed L hb name value secret hn hs hlen]
  simp only
  rw [getCookie_of_signed L hb name value secret secret hn hs ht,
    cookieDecode_genuine L hb (name, value) hp secret]
  simp

/-- **plain_roundtrip**: an unsigned text cookie whose characters are all below U+0100 is read
back unchanged through quote → UTF-8-as-Latin-1 → client → tokenise → unquote.  The hypothesis
`hv` is the recorded finding `C15:plain-cookie:char>=U+0100` (see the witness below); an empty
value reads as absent by the API's own convention and is excluded by `hne`. -/
theorem plain_roundtrip (L : Lib) (name v : Str) (hn : LegalName name)
    (hv : ∀ c ∈ v, c.toNat < 256) (hne : v ≠ []) (hlen : v.length ≤ 4096) (ht : TokAt L name v) :
    roundTrip L name (.text v) [] = (.ok (some (.text v)), []) := by
  unfold roundTrip
  rw [setCookie_plain L name v hn hlen]
  simp only
  rw [wire_single _ _ (wire_chars _ _ hn (quote_chars v hv))]
  unfold getCookie
  unfold TokAt at ht
  rw [ht, unquote_quote v hv]
  have : v.isEmpty = false := by simpa using hne
  simp [dictGet_single, this]

/-! ### the same for the library exactly as the driver instantiates it

For `concreteLib pk` (HMAC-MD5 and base64 of `Py.Crypto`, the `http.cookies` tokeniser
`parseCookies`, `pickle` as a table) the base64 and tokeniser contracts are theorems
(`Lemmas/B64.lean`, `Lemmas/CookieTok.lean`), so they disappear from the statements: what is left
is the pickle round trip on the one object and, for the wrong secret, the MAC inequality. -/

/-- **plain_roundtrip** for the model the driver runs: no library hypothesis at all. -/
theorem plain_roundtrip_concrete (pk : PkTable) (name v : Str) (hn : LegalName name)
    (hv : ∀ c ∈ v, c.toNat < 256) (hne : v ≠ []) (hlen : v.length ≤ 4096) :
    roundTrip (concreteLib pk) name (.text v) [] = (.ok (some (.text v)), []) :=
  plain_roundtrip (concreteLib pk) name v hn hv hne hlen
    (tokContract_parseCookies (concreteLib pk) rfl name v hn hv)

/-- **signed_roundtrip** for the model the driver runs: only `pickle.loads(pickle.dumps(x)) == x`
for the object in question is assumed. -/
theorem signed_roundtrip_concrete (pk : PkTable) (name : Str) (value : CVal) (secret : Bytes)
    (hn : LegalName name) (hs : secret ≠ [])
    (hlen : (cookieEncode (concreteLib pk) (name, value) secret).length ≤ 4096)
    (hp : PickleAt (concreteLib pk) (name, value)) :
    roundTrip (concreteLib pk) name value secret =
      (.ok (some value), [(concreteLib pk).pickle (name, value)]) := by
  have hb := b64Contract_of_crypto (concreteLib pk) rfl rfl
  refine signed_roundtrip (concreteLib pk) hb name value secret hn hs hlen hp ?_
  apply tokContract_parseCookies (concreteLib pk) rfl name _ hn
  intro c hc
  have := (encode_chars (concreteLib pk) hb (name, value) secret c hc).2.1
  omega

/-- **wrong_secret_absent** for the model the driver runs: only the MAC inequality is assumed. -/
theorem wrong_secret_absent_concrete (pk : PkTable) (name : Str) (value : CVal) (key secret : Bytes)
    (hn : LegalName name) (hk : key ≠ []) (hs : secret ≠ [])
    (hlen : (cookieEncode (concreteLib pk) (name, value) key).length ≤ 4096)
    (hmac : Crypto.hmacMd5 secret (Crypto.b64encode ((concreteLib pk).pickle (name, value))) ≠
      Crypto.hmacMd5 key (Crypto.b64encode ((concreteLib pk).pickle (name, value)))) :
    ∃ jar, setCookie (concreteLib pk) [] name value key = .ok jar ∧
      getCookie (concreteLib pk) (clientHeader (emit jar)) name secret = (.ok none, []) := by
  have hb := b64Contract_of_crypto (concreteLib pk) rfl rfl
  refine wrong_secret_absent (concreteLib pk) hb name value key secret hn hk hs hlen ?_ hmac
  apply tokContract_parseCookies (concreteLib pk) rfl name _ hn
  intro c hc
  have := (encode_chars (concreteLib pk) hb (name, value) key c hc).2.1
  omega

/-! ### the response that reaches the server is not always the one the cookie was set on -/

/-- **copy_preserves_cookies**: `response.copy(cls)` (what `redirect()` raises) carries a cookie
over with the same name and the same coded value, for every legal name and every Latin-1 text
-- in particular for values that need quoting and for every signed cookie (`cookieEncode` output
is Latin-1: ASCII).  Hence whatever is emitted and read back from the copy equals what is emitted
and read back from the original (`copy_roundtrip_same`). -/
theorem copy_preserves_cookies (name v : Str) (hn : LegalName name) (hv : ∀ c ∈ v, c.toNat < 256) :
    copyJar [(name, quote v)] = .ok [(name, quote v)] := copyJar_single name v hn hv

/-- all emission paths of the model hand `headerlist` the same one-cookie jar: returned directly,
copied (once or twice), redirected, error page; and a cookie set on a raised response replaces
the jar of the live response -/
theorem emission_paths_same (path : EmitPath) (name v : Str) (hn : LegalName name)
    (hv : ∀ c ∈ v, c.toNat < 256) (hp : path ≠ .raised) :
    emitVia path [(name, quote v)] [] = .ok [(name, quote v)] := by
  have hc := copyJar_single name v hn hv
  cases path with
  | direct => rfl
  | errpage => rfl
  | copy => simp [emitVia, hc, applyJar, Except.map]
  | redirect => simp [emitVia, hc, applyJar, Except.map]
  | copy2 => simp [emitVia, hc, applyJar, bind, Except.bind, pure, Except.pure]
  | raised => exact absurd rfl hp

theorem raised_jar_wins (resp : Jar) (name coded : Str) :
    emitVia .raised resp [(name, coded)] = .ok [(name, coded)] := rfl

/-- a signed cookie set before `redirect()` (or any copy) is read back by the next request exactly
as when the response is returned directly: the round-trip theorems apply to the copied jar -/
theorem copy_roundtrip_same (L : Lib) (path : EmitPath) (name v : Str) (hn : LegalName name)
    (hv : ∀ c ∈ v, c.toNat < 256) (hp : path ≠ .raised) (key : Str) (secret : Bytes) :
    (emitVia path [(name, quote v)] []).map (fun j => getCookie L (clientHeader (emit j)) key secret) =
      .ok (getCookie L (clientHeader (emit [(name, quote v)])) key secret) := by
  rw [emission_paths_same path name v hn hv hp]; rfl

/-! ### one request object read again after its `Cookie` header changed -/

/-- the same handler described without the cache: only the header each request object carries -/
def specReq (L : Lib) : Option Str → Option Str → List ReqOp → List (Except CErr (Option CVal) × List Bytes)
  | _, _, [] => []
  | h0, h1, .get i k s :: ops =>
    getCookie L ((if i == 0 then h0 else h1).getD []) k s :: specReq L h0 h1 ops
  | h0, h1, .set i k v :: ops =>
    if k == cookieKey then (if i == 0 then specReq L (some v) h1 ops else specReq L h0 (some v) ops)
    else specReq L h0 h1 ops
  | h0, h1, .del i k :: ops =>
    if k == cookieKey then (if i == 0 then specReq L none h1 ops else specReq L h0 none ops)
    else specReq L h0 h1 ops
  | h0, _, .copy :: ops => specReq L h0 h0 ops

/-- **reread_after_header_change**: whatever sequence of reads, `request[key] = value`,
`del request[key]` and `request.copy()` a handler performs, every read answers exactly what a
fresh request carrying the *current* `Cookie` header would answer -- the cache of parsed cookies is
never observable.  In particular a forged, truncated or re-signed cookie put into the request
after the genuine one was read is judged on its own (`tamper_absent`), never as the value seen
before. -/
theorem reread_after_header_change (L : Lib) (ops : List ReqOp) (r0 r1 : Req)
    (h0 : Coherent L r0) (h1 : Coherent L r1) :
    runReq L r0 r1 ops = specReq L r0.hdr r1.hdr ops := by
  induction ops generalizing r0 r1 with
  | nil => rfl
  | cons op ops ih =>
    cases op with
    | get i k s =>
      simp only [runReq, specReq]
      split
      · obtain ⟨e1, e2, e3⟩ := req_getCookie L r0 h0 k s
        rw [ih _ _ e3 h1, e1, e2]
      · obtain ⟨e1, e2, e3⟩ := req_getCookie L r1 h1 k s
        rw [ih _ _ h0 e3, e1, e2]
    | set i k v =>
      simp only [runReq, specReq]
      by_cases hk : k = cookieKey
      · subst hk
        simp only [beq_self_eq_true, if_true]
        split
        · rw [ih _ _ (setItem_coherent L r0 _ v h0) h1, setItem_hdr]
        · rw [ih _ _ h0 (setItem_coherent L r1 _ v h1), setItem_hdr]
      · have hk' : (k == cookieKey) = false := by simpa using hk
        simp only [hk', Bool.false_eq_true, if_false]
        split
        · rw [ih _ _ (setItem_coherent L r0 k v h0) h1, setItem_other_hdr r0 k v hk]
        · rw [ih _ _ h0 (setItem_coherent L r1 k v h1), setItem_other_hdr r1 k v hk]
    | del i k =>
      simp only [runReq, specReq]
      by_cases hk : k = cookieKey
      · subst hk
        simp only [beq_self_eq_true, if_true]
        split
        · rw [ih _ _ (delItem_coherent L r0 _ h0) h1, delItem_hdr]
        · rw [ih _ _ h0 (delItem_coherent L r1 _ h1), delItem_hdr]
      · have hk' : (k == cookieKey) = false := by simpa using hk
        simp only [hk', Bool.false_eq_true, if_false]
        split
        · rw [ih _ _ (delItem_coherent L r0 k h0) h1, delItem_other_hdr r0 k hk]
        · rw [ih _ _ h0 (delItem_coherent L r1 k h1), delItem_other_hdr r1 k hk]
    | copy =>
      simp only [runReq, specReq]
      exact ih r0 r0 h0 h0

/-- the instance the red team asked for: read the genuine cookie, replace the header through item
assignment, read again -- the second answer is that of the new header alone -/
theorem reread_second_read (L : Lib) (hdr hdr' k : Str) (s : Bytes) :
    runReq L ⟨some hdr, none⟩ ⟨some hdr, none⟩ [.get 0 k s, .set 0 cookieKey hdr', .get 0 k s] =
      [getCookie L hdr k s, getCookie L hdr' k s] := by
  rw [reread_after_header_change L _ _ _ (coherent_fresh L _) (coherent_fresh L _)]
  simp [specReq]

/-- the `Set-Cookie` value of a Latin-1 cookie consists of printable ASCII only: no CR, LF, NUL or
any other control character (what C14's `wsgi_emitted_clean` assumes about the cookie jar) -/
theorem emit_clean (name v : Str) (hn : LegalName name) (hv : ∀ c ∈ v, c.toNat < 256) :
    ∀ h ∈ emit [(name, quote v)], ∀ c ∈ h, 32 ≤ c.toNat ∧ c.toNat ≤ 127 := by
  intro h hh c hc
  simp only [emit, List.map_cons, List.map_nil, List.mem_singleton] at hh
  subst hh
  have hw := wire_chars name (quote v) hn (quote_chars v hv)
  rw [transcode_ascii _ (fun c hc => (hw c hc).1)] at hc
  exact ⟨(hw c hc).2.2, (hw c hc).1⟩

/-! ### non-vacuity: concrete instances meeting the hypotheses, and the witness of the recorded
finding.  `exLib` is the library exactly as the driver instantiates it (HMAC-MD5, base64 and the
`http.cookies` tokeniser of the model), with a one-point pickle table. -/
section NonVacuity

def exLib : Lib := concreteLib [(("sid".toList, .obj [49]), [128, 5, 75, 1, 46])]
def exKey : Bytes := [107, 101, 121]        -- b'key'
def exOther : Bytes := [111, 116, 104]      -- b'oth'
/-- `cookie_encode(('sid', <obj>), 'key')` = `!Hsf0NE3yohm5B06oF4y7cg==?gAVLAS4=` -/
def exData : Bytes := cookieEncode exLib ("sid".toList, .obj [49]) exKey

/-- the contracts hold for the driver's instance: base64 proved (`Lemmas/B64.lean`), pickle on
the table point and the tokeniser on the emitted header by evaluation -/
example : B64Contract exLib := b64Contract_of_crypto exLib rfl rfl
example : LegalName "sid".toList := by decide
example : PickleAt exLib ("sid".toList, .obj [49]) := by decide +kernel
example : TokContract exLib := tokContract_parseCookies exLib rfl

/-- `decode_calls_unpickle_only_if_mac_ok`: there are inputs on which the unpickler is called -/
example : [128, 5, 75, 1, 46] ∈ (cookieDecode exLib exData exKey).2 := by decide +kernel

/-- `signed_roundtrip` instantiated (all five hypotheses discharged) -/
example : roundTrip exLib "sid".toList (.obj [49]) exKey = (.ok (some (.obj [49])), [[128, 5, 75, 1, 46]]) :=
  signed_roundtrip_concrete _ _ _ _ (by decide) (by decide) (by decide +kernel) (by decide +kernel)

/-- `wrong_secret_absent`: the MACs under `key` and `oth` differ on this message -/
example : exLib.hmac exOther (exLib.b64 (exLib.pickle ("sid".toList, .obj [49]))) ≠
    exLib.hmac exKey (exLib.b64 (exLib.pickle ("sid".toList, .obj [49]))) := by decide +kernel

/-- `tamper_absent_decode` / `tamper_absent_sig_mismatch`: one payload byte flipped (`gAVLAS4=` →
`gAVLAS5=`), and an input that is not even of the signed form -/
example : ∀ sig msg, splitFirst 63 (exData.dropLast.dropLast ++ [53, 61]) = some (sig, msg) →
    sig.drop 1 ≠ exLib.b64 (exLib.hmac exKey msg) := by
  intro sig msg h
  have h' : splitFirst 63 (exData.dropLast.dropLast ++ [53, 61]) =
      some (exData.take 25, [103, 65, 86, 76, 65, 83, 53, 61]) := by decide +kernel
  rw [h'] at h
  simp only [Option.some.injEq, Prod.mk.injEq] at h
  obtain ⟨rfl, rfl⟩ := h
  decide +kernel
example : ¬ MacOk exLib exKey [65, 63, 66] := by rintro ⟨msg, h⟩; cases h

/-- `tamper_absent` (request level): a header whose cookie lost its last character -/
example : getCookie exLib ("sid=\"!Hsf0NE3yohm5B06oF4y7cg==?gAVLAS4\"".toList) "sid".toList exKey = (.ok none, []) := by
  decide +kernel

/-- `replay_under_other_name_absent`: the cookie of `sid` presented as `uid` -/
example : getCookie exLib ("uid=\"!Hsf0NE3yohm5B06oF4y7cg==?gAVLAS4=\"".toList) "uid".toList exKey =
    (.ok none, [[128, 5, 75, 1, 46]]) := by decide +kernel

/-- `copy_preserves_cookies` / `emission_paths_same`: a value that needs quoting, and a signed cookie -/
example : copyJar [("n".toList, quote "a b;c=\"d\"".toList)] = .ok [("n".toList, quote "a b;c=\"d\"".toList)] :=
  copy_preserves_cookies _ _ (by decide) (by decide)
example : emitVia .redirect [("sid".toList, quote (latin1Dec exData))] [] =
    .ok [("sid".toList, "\"!Hsf0NE3yohm5B06oF4y7cg==?gAVLAS4=\"".toList)] := by decide +kernel

/-- `reread_after_header_change`: genuine cookie read, header replaced by a truncated copy, read again -/
example : runReq exLib ⟨some "sid=\"!Hsf0NE3yohm5B06oF4y7cg==?gAVLAS4=\"".toList, none⟩ ⟨none, none⟩
    [.get 0 "sid".toList exKey, .set 0 cookieKey "sid=\"!Hsf0NE3yohm5B06oF4y7cg==?gAVLAS4\"".toList,
     .get 0 "sid".toList exKey, .del 0 cookieKey, .get 0 "sid".toList exKey] =
    [(.ok (some (.obj [49])), [[128, 5, 75, 1, 46]]), (.ok none, []), (.ok none, [])] := by decide +kernel

/-- `plain_roundtrip`: hypotheses met by a value with separators, quotes and Latin-1 text -/
example : LegalName "n".toList ∧ (∀ c ∈ "a;b \"é\\073".toList, c.toNat < 256) ∧ TokAt exLib "n".toList "a;b \"é\\073".toList :=
  ⟨by decide, by decide, tokContract_parseCookies exLib rfl _ _ (by decide) (by decide)⟩
example : roundTrip exLib "n".toList (.text "a;b \"é\\073".toList) [] = (.ok (some (.text "a;b \"é\\073".toList)), []) := by
  decide +kernel

/-- **witness of the recorded finding `C15:plain-cookie:char>=U+0100`**: the excluded point
really fails in the model.  `'€'` is U+20AC, so hypothesis `hv` of `plain_roundtrip` is false
for it, every other hypothesis holds, and the cookie is read back as the three Latin-1 characters
of its UTF-8 encoding; mixed with a Latin-1 character (`'é€'`) the result is not even the
mojibake of the whole. -/
example : ¬ (∀ c ∈ "€".toList, c.toNat < 256) := by decide
example : LegalName "n".toList ∧ "€".toList ≠ [] ∧ "€".toList.length ≤ 4096 := by decide
example : roundTrip exLib "n".toList (.text "€".toList) [] = (.ok (some (.text "â\x82¬".toList)), []) := by
  decide +kernel
example : roundTrip exLib "n".toList (.text "é€".toList) [] = (.ok (some (.text "éâ\x82¬".toList)), []) := by
  decide +kernel

end NonVacuity

end Ombott.Cookies

/-! ### the cache layer of the request object (general theorem in `Props/EnvCache.lean`) -/
namespace Ombott.EnvCache

/-- **the cache is never observable** (general statement; scope and residue in `Props/EnvCache.lean`) -/
theorem c15_cache_unobservable (cfg : Cfg) (L : Lib) (w : World) (ops : List Op)
    (hW : InvW cfg L w) (hs : Safe cfg L w ops) : run cfg L w ops = specRun cfg L w ops :=
  cache_unobservable cfg L w ops hW hs

/-- **`cookies` follow the `Cookie` header** (subsumes `reread_after_header_change`: any number of
requests, copies of copies, assignments and deletions of ANY key): every read of `cookies` is the
parse of `HTTP_COOKIE` as it is at that moment on that request — a forged cookie put into the
request after the genuine one was read is parsed on its own, never answered from the cache -/
theorem c15_cookies_follow_header (cfg : Cfg) (L : Lib) (w : World) (ops : List Op) (hW : FreshW w)
    (hw : ∀ op ∈ ops, opWithin [.cookies] (fun _ => true) op = true) :
    run cfg L w ops = specRun cfg L w ops :=
  cookies_follow_header cfg L w ops hW hw

/-- the dependency cover and the pinned residue, as C15 relies on them -/
theorem c15_dependency_cover :
    (∀ row ∈ Gen.ecProps, ∀ K ∈ row.reads, row.key.toList ∈ todelete K.toList ∨ (row.name, K) ∈ Gen.ecUncovered) ∧
    Gen.ecUncovered.filter (fun p => !ecByDesign.contains p) = pinnedStale :=
  ⟨dependency_cover, uncovered_pinned.1⟩

section NonVacuity
/-- the hypotheses of the theorems above are met by the request and library of `Props/EnvCache.lean` and this
sequence (further instances, out-of-scope sequences and the witnesses of the pinned residue are there) -/
example : FreshW exWorld ∧ InvW {} exLib exWorld := ⟨FreshW.ofB (by decide), (FreshW.ofB (by decide)).inv {} exLib⟩
example : ∀ op ∈ [Op.read 0 .cookies, .copy 0, .setStr 1 cs!"HTTP_COOKIE" cs!"z=9", .read 1 .cookies, .del 0 cs!"HTTP_COOKIE", .read 0 .cookies], opWithin [.cookies] (fun _ => true) op = true := by decide
end NonVacuity

end Ombott.EnvCache
