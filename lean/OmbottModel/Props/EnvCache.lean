import OmbottModel.Lemmas.EnvCacheWithin
/-!
The cache of the request object is never observable (serves C04, C15, C18; restated per property
in `Props/C04.lean`, `Props/C15.lean`, `Props/C18.lean`).

`run` is the request object as it is (`cache_in`, `__setitem__`, `__delitem__`, `_on_env_changed` from
the generated table, `copy`); `specRun` is the cache-free reference (a brand-new request on the
current environ at every read).  Property theorems only; lemmas live in `Lemmas/EnvCache*.lean`.
-/
namespace Ombott.EnvCache
open Py Ombott.Body Ombott.Forms Ombott.BodyAccess

/-! ### the obligations on the generated table -/

/-- **dependency cover.**  For every `cache_in` property of the source (`Gen.ecProps`, probed) and
every environ key its computation was seen to read, the `_on_env_changed` arm of that key (probed)
drops the property's cache entry — or the pair is one of `Gen.ecUncovered`.  Removing an entry from
a `todelete` list, or a property that starts reading a key whose arm does not name it, changes the
generated table and makes a pair appear in `Gen.ecUncovered` that is not pinned below. -/
theorem dependency_cover :
    ∀ row ∈ Gen.ecProps, ∀ K ∈ row.reads,
      row.key.toList ∈ todelete K.toList ∨ (row.name, K) ∈ Gen.ecUncovered := by
  have h := coverOK_true
  simp only [coverOK, List.all_eq_true, Bool.or_eq_true, List.contains_iff_mem] at h
  exact h

/-- the uncovered pairs on which the cache is observable, as found on the tree the proof was made
for (the residue of `cache_unobservable`).  By property:
`url` / `urlparts` (11 keys each), `fullpath` (4), `script_name` (2), `is_json_requested`,
`remote_route` (2), `content_type`, `ctype`, and `json` / `POST` / `forms` / `files` / `params`
against `CONTENT_TYPE` and `CONTENT_LENGTH`. -/
def pinnedStale : List (String × String) :=
  [("params", "CONTENT_LENGTH"), ("params", "CONTENT_TYPE"),
   ("url", ""), ("url", "HTTP_HOST"), ("url", "HTTP_X_FORWARDED_HOST"), ("url", "HTTP_X_FORWARDED_PROTO"),
   ("url", "HTTP_X_SCRIPT_NAME"), ("url", "PATH_INFO"), ("url", "QUERY_STRING"), ("url", "SCRIPT_NAME"),
   ("url", "SERVER_NAME"), ("url", "SERVER_PORT"), ("url", "wsgi.url_scheme"),
   ("urlparts", ""), ("urlparts", "HTTP_HOST"), ("urlparts", "HTTP_X_FORWARDED_HOST"),
   ("urlparts", "HTTP_X_FORWARDED_PROTO"), ("urlparts", "HTTP_X_SCRIPT_NAME"), ("urlparts", "PATH_INFO"),
   ("urlparts", "QUERY_STRING"), ("urlparts", "SCRIPT_NAME"), ("urlparts", "SERVER_NAME"),
   ("urlparts", "SERVER_PORT"), ("urlparts", "wsgi.url_scheme"),
   ("fullpath", ""), ("fullpath", "HTTP_X_SCRIPT_NAME"), ("fullpath", "PATH_INFO"), ("fullpath", "SCRIPT_NAME"),
   ("script_name", "HTTP_X_SCRIPT_NAME"), ("script_name", "SCRIPT_NAME"),
   ("is_json_requested", "HTTP_ACCEPT"),
   ("remote_route", "HTTP_X_FORWARDED_FOR"), ("remote_route", "REMOTE_ADDR"),
   ("content_type", "CONTENT_TYPE"), ("ctype", "CONTENT_TYPE"),
   ("json", "CONTENT_LENGTH"), ("json", "CONTENT_TYPE"),
   ("POST", "CONTENT_LENGTH"), ("POST", "CONTENT_TYPE"),
   ("forms", "CONTENT_LENGTH"), ("forms", "CONTENT_TYPE"),
   ("files", "CONTENT_LENGTH"), ("files", "CONTENT_TYPE")]

/-- **the uncovered pairs are exactly the pinned ones**: what the probe of the live code finds
uncovered is the by-design list (harmless, proved inside `cache_unobservable`) plus `pinnedStale`,
no more and no less.  A new uncovered pair — `body`, `cookies`, `content_length`, `query`, `params`
dropped from a `todelete` list, a new dependency without an arm — breaks this theorem; a repaired
pair breaks it too, so that the residue shrinks with the code. -/
theorem uncovered_pinned : Gen.ecUncovered.filter (fun p => !ecByDesign.contains p) = pinnedStale ∧
    (ecByDesign.all fun p => Gen.ecUncovered.contains p) = true := by
  constructor <;> decide +kernel

/-- the arms of `_on_env_changed` name cache entries and the body state only; an arm that drops the
buffered body drops every property computed from it; an arm that drops `forms` or `files` drops
`POST`; a new `wsgi.input` drops the buffered body and the remembered read error -/
theorem arms_well_formed :
    rowsOK = true ∧ bodyDropOK = true ∧ postGroupOK = true ∧ inputDropsBody = true :=
  ⟨rowsOK_true, bodyDropOK_true, postGroupOK_true, inputDropsBody_true⟩

/-- the model reads what the source reads: the WSGI strings each description is a function of are
in the probed read set of the source property of the same name and cache key (`readsTieOK`), the
source reads nothing else (`readsExactOK`: a new `cache_in` property, or a new key read by an old
one, re-opens this), and the by-design pairs are disjoint from the strings the descriptions read -/
theorem reads_tie : readsTieOK = true ∧ readsExactOK = true ∧ byDesignDisjointOK = true ∧ emptyOK = true :=
  ⟨readsTieOK_true, readsExactOK_true, byDesignDisjointOK_true, emptyOK_true⟩

/-- `request.copy()` is the shallow copy the model takes it for: a new environ dict holding every
plain entry and every cache entry of the original, the cached values being the very objects of the
original; `request[K] = <same value>` fires nothing, `del request[K]` is `request[K] = ''` followed
by the removal (and fires nothing when the key held `''`).  Probed on the live code. -/
theorem copy_and_setitem_as_modelled :
    Gen.ecCopyNewDict = true ∧ Gen.ecCopyPlain = true ∧ Gen.ecCopyCarriesCache = true ∧
    (Gen.ecProps.all fun row => row.key == "ombott.app" || row.key == "ombott.route" || row.key == "route.url_args" ||
        Gen.ecCopyShared.contains row.key) = true ∧
    Gen.ecUnchangedNoop = true ∧ Gen.ecDelViaSet = true ∧ Gen.ecDelEmptyNoop = true ∧
    (Gen.ecProps.all fun row => row.readOnly) = true := by
  decide +kernel

/-! ### the theorem -/

/-- **The cache is never observable.**  Take any request objects (a request and copies of it, with
whatever cache entries a coherent history left: `InvW`), any configuration, any library behaviour
(`SimpleCookie`, `urljoin`, `quote`, `geturl`, `json.loads`, the multipart collector), and any
sequence of operations — reads of any cached property on any of the requests, `request[k] = v`,
a new `wsgi.input`, `del request[k]`, `request.copy()` and operations on the copies — that stays in
scope (`Safe`: no assignment of a key `K` while a property `P` of a pinned stale pair `(P, K)` is
cached; `headers` not read on a copy that carries the original's view; keys outside `ombott.*` /
`route.*`).  Then every read returns exactly what a brand-new request built from the CURRENT
environ (for the body: from the current input stream / buffered body, C04) would return. -/
theorem cache_unobservable (cfg : Cfg) (L : Lib) (w : World) (ops : List Op)
    (hW : InvW cfg L w) (hs : Safe cfg L w ops) :
    run cfg L w ops = specRun cfg L w ops :=
  run_eq_spec cfg L ops w hW hs

/-- … in particular from requests as the server hands them over (no cache entries yet) -/
theorem cache_unobservable_fresh (cfg : Cfg) (L : Lib) (w : World) (ops : List Op)
    (hW : FreshW w) (hs : Safe cfg L w ops) :
    run cfg L w ops = specRun cfg L w ops :=
  run_eq_spec cfg L ops w (hW.inv cfg L) hs

/-- `closedUnder`, decidably -/
def closedUnderB (allowed : List Prop') (keyOK : Key → Bool) : Bool :=
  stalePairs.all fun ak => !keyOK ak.2.toList || Prop'.all.all fun p =>
    !(p.attr == ak.1) || !(allowed.flatMap touch).contains p.key

theorem closedUnder_of_B (allowed : List Prop') (keyOK : Key → Bool) (h : closedUnderB allowed keyOK = true) :
    closedUnder allowed keyOK := by
  intro ak hak hk p hp
  simp only [closedUnderB, List.all_eq_true, Bool.or_eq_true, Bool.not_eq_true', beq_eq_false_iff_ne, ne_eq] at h
  have hpa : p ∈ Prop'.all := by cases p <;> decide
  rcases h ak hak with h1 | h1
  · rw [hk] at h1; cases h1
  · rcases h1 p hpa with h2 | h2
    · exact absurd hp h2
    · intro hm
      have : (allowed.flatMap touch).contains p.key = true := by simpa using hm
      rw [this] at h2; cases h2

/-- the scope, syntactically: a handler that reads only properties of `allowed` (not the header
view) and assigns only keys accepted by `keyOK` is in scope, provided no pinned stale pair joins an
assignable key with something those reads can cache -/
theorem cache_unobservable_within (cfg : Cfg) (L : Lib) (allowed : List Prop') (keyOK : Key → Bool)
    (hc : closedUnderB allowed keyOK = true) (w : World) (ops : List Op) (hW : FreshW w)
    (hw : ∀ op ∈ ops, opWithin allowed keyOK op = true) :
    run cfg L w ops = specRun cfg L w ops :=
  cache_unobservable_fresh cfg L w ops hW
    (safe_of_within cfg L allowed keyOK (closedUnder_of_B allowed keyOK hc) ops w (hW.only _) hw)

/-! ### instances -/

/-- **C04 — `content_length` follows the header.**  Whatever the handler assigns or deletes through
the request object (any keys, `CONTENT_LENGTH` among them, a new `wsgi.input`), on the request or
on copies of it, every read of `content_length` answers `int(CONTENT_LENGTH or -1)` of the header
as it is at that moment (the defect repaired by d7edd9e, for all sequences). -/
theorem content_length_follows_header (cfg : Cfg) (L : Lib) (w : World) (ops : List Op) (hW : FreshW w)
    (hw : ∀ op ∈ ops, opWithin [.contentLength] (fun _ => true) op = true) :
    run cfg L w ops = specRun cfg L w ops :=
  cache_unobservable_within cfg L _ _ (by decide +kernel) w ops hW hw

/-- what the reference answers for `content_length` -/
theorem spec_content_length (cfg : Cfg) (L : Lib) (s : RS) :
    specRead cfg L .contentLength s =
      (match contentLength (s.env.str? cs!"CONTENT_LENGTH") with
       | .ok n => .ok (.int n)
       | .error x => .error (.py x), s) := rfl

/-- **C04 — the body follows the input stream.**  Reads of `body` and `content_length` under any
assignments (a new `wsgi.input`, `CONTENT_LENGTH`, anything else) and copies: every `body` read
presents what the reference presents — the buffered body while there is one, else what the stream
behind the current `wsgi.input` delivers under the framing headers of that moment
(`replaced_stream_exact`, `body_repeatable`). -/
theorem body_follows_input (cfg : Cfg) (L : Lib) (w : World) (ops : List Op) (hW : FreshW w)
    (hw : ∀ op ∈ ops, opWithin [.body, .contentLength] (fun _ => true) op = true) :
    run cfg L w ops = specRun cfg L w ops :=
  cache_unobservable_within cfg L _ _ (by decide +kernel) w ops hW hw

/-- **C15 — `cookies` follow the `Cookie` header** (subsumes `reread_after_header_change`: any
number of requests and copies of copies, any keys).  Every read of `cookies` answers the parse of
`HTTP_COOKIE` as it is at that moment on that request. -/
theorem cookies_follow_header (cfg : Cfg) (L : Lib) (w : World) (ops : List Op) (hW : FreshW w)
    (hw : ∀ op ∈ ops, opWithin [.cookies] (fun _ => true) op = true) :
    run cfg L w ops = specRun cfg L w ops :=
  cache_unobservable_within cfg L _ _ (by decide +kernel) w ops hW hw

/-- what the reference answers for `cookies` -/
theorem spec_cookies (cfg : Cfg) (L : Lib) (s : RS) :
    specRead cfg L .cookies s = ((L.cookies ((s.env.str? cs!"HTTP_COOKIE").getD [])).map Val.pairs, s) := rfl

/-- **C18 — `query` follows `QUERY_STRING`.** -/
theorem query_follows_query_string (cfg : Cfg) (L : Lib) (w : World) (ops : List Op) (hW : FreshW w)
    (hw : ∀ op ∈ ops, opWithin [.query] (fun _ => true) op = true) :
    run cfg L w ops = specRun cfg L w ops :=
  cache_unobservable_within cfg L _ _ (by decide +kernel) w ops hW hw

/-- what the reference answers for `query`: `parse_qsl` of the current `QUERY_STRING` -/
theorem spec_query (cfg : Cfg) (L : Lib) (s : RS) :
    specRead cfg L .query s =
      (match Qs.query ((s.env.str? cs!"QUERY_STRING").getD []) with
       | .ok d => .ok (.dict (ofQsDict d))
       | .error x => .error (.py x), s) := rfl

/-- the keys `params_follow_both` lets the handler assign: all but `CONTENT_TYPE` and
`CONTENT_LENGTH` (pinned stale pairs of the form data) -/
def notFormFraming (k : Key) : Bool := !(k == kCT) && !(k == kCL)

/-- **C18 — `params` follow both the query string and the body.**  Reads of `query`, `forms`,
`POST`, `files`, `json`, `body`, `params` under assignments of `QUERY_STRING`, a new `wsgi.input`
and any other key except `CONTENT_TYPE` / `CONTENT_LENGTH` (pinned residue), on the request and on
copies: every read answers what a brand-new request on the current environ answers — `params` is
the query dictionary of the current `QUERY_STRING` updated with the form fields of the current body. -/
theorem params_follow_both (cfg : Cfg) (L : Lib) (w : World) (ops : List Op) (hW : FreshW w)
    (hw : ∀ op ∈ ops, opWithin [.query, .params, .forms, .post, .files, .json, .body, .contentLength]
      notFormFraming op = true) :
    run cfg L w ops = specRun cfg L w ops :=
  cache_unobservable_within cfg L _ _ (by decide +kernel) w ops hW hw

/-- what the reference answers for `params` when the form data was read successfully as `t` -/
theorem spec_params (cfg : Cfg) (L : Lib) (s s' : RS) (t : FD × FD × FD)
    (h : spPostTriple cfg L s = (.ok t, s')) :
    specRead cfg L .params s = (((queryOf s'.env).bind asDict).map fun q => .dict (mergeDicts q t.2.1), s') := by
  have hq := queryOf_ok s'.env
  obtain ⟨d, hd⟩ := hq
  unfold specRead
  simp only [desc, viaBody]
  unfold spPostTriple at h
  by_cases hn : needPost s.env = true
  · simp only [hn, ↓reduceIte] at h ⊢
    rcases hb : spBody cfg s with ⟨rb, s1⟩
    rw [hb] at h
    cases rb with
    | error x => simp at h
    | ok b =>
      simp only at h ⊢
      cases hab : asBody b with
      | error x => rw [hab] at h; simp at h
      | ok bd =>
        rw [hab] at h
        obtain ⟨sk, ct⟩ := bd
        simp only [Prod.mk.injEq] at h
        obtain ⟨h1, rfl⟩ := h
        simp [h1, Except.bind, paramsFrom]
  · simp only [hn, Bool.false_eq_true, ↓reduceIte, Prod.mk.injEq] at h ⊢
    obtain ⟨h1, rfl⟩ := h
    simp [h1, Except.bind, paramsFrom]

section NonVacuity
/-! concrete instances: a library, a request, sequences inside and outside the scope -/

/-- a library for the examples: no cookies, concatenating `urljoin`, identity `quote` -/
def exLib : Lib where
  cookies := fun h => .ok (if h.isEmpty then [] else [(cs!"c", h)])
  urljoin := fun a b => a ++ b
  urlquote := fun a => a
  geturl := fun f => (f.map fun o => o.getD []).flatten
  jsonLoads := fun _ => .null
  multipart := fun _ _ _ => .noMarkup

/-- one request: `CONTENT_LENGTH: 7`, urlencoded `x=1&y=2`, a query string and a cookie -/
def exWorld : World :=
  { heap := [{ st := ⟨"x=1&y=2".toUTF8.toList, [2, 3]⟩ }],
    envs := [[(cs!"CONTENT_LENGTH", .str cs!"7"), (cs!"CONTENT_TYPE", .str cs!"application/x-www-form-urlencoded"),
              (cs!"QUERY_STRING", .str cs!"a=1"), (cs!"HTTP_COOKIE", .str cs!"k=v"), (kInput, .stream 0)]] }

example : FreshW exWorld := FreshW.ofB (by decide)

/-- `cache_unobservable`: a coherent world and a sequence in scope that reads eleven properties, assigns,
deletes and copies — among them `url` and `forms`, which are in pinned pairs: in scope as long as the keys of
those pairs are not assigned while they are cached -/
example : InvW {} exLib exWorld := (FreshW.ofB (by decide)).inv {} exLib
example : Safe {} exLib exWorld [.read 0 .url, .read 0 .forms, .setStr 0 cs!"HTTP_COOKIE" cs!"z=9", .read 0 .cookies,
    .copy 0, .read 1 .headers, .setInput 1 { st := ⟨"q=7".toUTF8.toList, [1]⟩ }, .read 1 .params, .del 0 cs!"X_CUSTOM",
    .read 0 .remoteRoute, .read 1 .body, .read 0 .isJsonRequested] := by
  refine ⟨by decide +kernel, by decide +kernel, by decide +kernel, by decide +kernel, by decide +kernel,
    by decide +kernel, by decide +kernel, by decide +kernel, by decide +kernel, by decide +kernel, by decide +kernel,
    by decide +kernel, trivial⟩
/-- … and one out of scope: `QUERY_STRING` is assigned while `url` is cached -/
example : ¬ Safe {} exLib exWorld [.read 0 .url, .setStr 0 kQS cs!"b=2"] := by
  intro h
  have := h.2.1
  revert this
  decide +kernel

/-- `content_length_follows_header`: the sequence that showed the defect of d7edd9e, then a copy -/
example : ∀ op ∈ [Op.read 0 .contentLength, .setStr 0 kCL cs!"3", .read 0 .contentLength, .copy 0,
    .del 1 kCL, .read 1 .contentLength, .read 0 .contentLength],
    opWithin [.contentLength] (fun _ => true) op = true := by decide
example : run {} exLib exWorld [.read 0 .contentLength, .setStr 0 kCL cs!"3", .read 0 .contentLength, .copy 0,
    .del 1 kCL, .read 1 .contentLength, .read 0 .contentLength] =
    [.ok (.int 7), .ok (.int 3), .ok (.int (-1)), .ok (.int 3)] := by decide +kernel

/-- `cookies_follow_header`: any `HTTP_*` assignment drops the parse; the copy has its own header -/
example : run {} exLib exWorld [.read 0 .cookies, .copy 0, .setStr 1 cs!"HTTP_COOKIE" cs!"z=9", .read 1 .cookies,
    .read 0 .cookies, .del 0 cs!"HTTP_COOKIE", .read 0 .cookies] =
    [.ok (.pairs [(cs!"c", cs!"k=v")]), .ok (.pairs [(cs!"c", cs!"z=9")]), .ok (.pairs [(cs!"c", cs!"k=v")]),
     .ok (.pairs [])] := by decide +kernel

/-- `params_follow_both`: the query string changes, then the body is replaced -/
example : ∀ op ∈ [Op.read 0 .params, .setStr 0 kQS cs!"b=2", .read 0 .params,
    .setInput 0 { st := ⟨"n=5&m=6".toUTF8.toList, []⟩ }, .read 0 .params],
    opWithin [.query, .params, .forms, .post, .files, .json, .body, .contentLength] notFormFraming op = true := by
  decide
example : run {} exLib exWorld [.read 0 .params, .setStr 0 kQS cs!"b=2", .read 0 .params,
    .setInput 0 { st := ⟨"n=5&m=6".toUTF8.toList, []⟩ }, .read 0 .params] =
    [.ok (.dict [(cs!"a", .one cs!"1"), (cs!"x", .one cs!"1"), (cs!"y", .one cs!"2")]),
     .ok (.dict [(cs!"b", .one cs!"2"), (cs!"x", .one cs!"1"), (cs!"y", .one cs!"2")]),
     .ok (.dict [(cs!"b", .one cs!"2"), (cs!"n", .one cs!"5"), (cs!"m", .one cs!"6")])] := by decide +kernel

/-! **witnesses of the residue**: on pinned stale pairs the cache IS observable in the model (and
on the real code: `harness/envcachelib.py`, `residue_witnesses`) -/

/-- `(content_type, CONTENT_TYPE)`: the old type is answered after the assignment -/
example : run {} exLib exWorld [.read 0 .contentType, .setStr 0 kCT cs!"text/plain", .read 0 .contentType] =
      [.ok (.str cs!"application/x-www-form-urlencoded"), .ok (.str cs!"application/x-www-form-urlencoded")] ∧
    specRun {} exLib exWorld [.read 0 .contentType, .setStr 0 kCT cs!"text/plain", .read 0 .contentType] =
      [.ok (.str cs!"application/x-www-form-urlencoded"), .ok (.str cs!"text/plain")] ∧
    safeOp (step {} exLib exWorld (.read 0 .contentType)).1 (.setStr 0 kCT cs!"text/plain") = false := by
  decide +kernel

/-- `(forms, CONTENT_LENGTH)`: the form keeps both fields although the length now cuts the second off -/
example : run {} exLib exWorld [.read 0 .forms, .setStr 0 kCL cs!"3", .read 0 .forms] =
      [.ok (.dict [(cs!"x", .one cs!"1"), (cs!"y", .one cs!"2")]), .ok (.dict [(cs!"x", .one cs!"1"), (cs!"y", .one cs!"2")])] ∧
    specRun {} exLib exWorld [.read 0 .forms, .setStr 0 kCL cs!"3", .read 0 .forms] =
      [.ok (.dict [(cs!"x", .one cs!"1"), (cs!"y", .one cs!"2")]), .ok (.dict [(cs!"x", .one cs!"1")])] := by
  decide +kernel

/-- `(url, QUERY_STRING)` -/
example : run {} exLib exWorld [.read 0 .url, .setStr 0 kQS cs!"b=2", .read 0 .url] ≠
    specRun {} exLib exWorld [.read 0 .url, .setStr 0 kQS cs!"b=2", .read 0 .url] := by decide +kernel

/-- the header view of a copy: after `copy()` the copy answers with the ORIGINAL's headers -/
example : run {} exLib exWorld [.read 0 .headers, .copy 0, .setStr 1 kCT cs!"text/plain", .read 1 .headers] ≠
    specRun {} exLib exWorld [.read 0 .headers, .copy 0, .setStr 1 kCT cs!"text/plain", .read 1 .headers] := by
  decide +kernel

end NonVacuity

end Ombott.EnvCache
