import OmbottModel.Model.BodyMixin
import OmbottModel.Lemmas.Body
import OmbottModel.Lemmas.Chunked
import OmbottModel.Lemmas.HexSpell
import OmbottModel.Lemmas.BodyAccess
import OmbottModel.Gen.Body
/-!
C05 — Chunked transfer decoding is exact and rejects every truncation.
Property theorems only; helper lemmas live in `Lemmas/Chunked.lean`, `Lemmas/Body.lean`.

`r : Rec` is `wsgi.input` (bytes still to come, read schedule, call record); quantifying over it
quantifies over every read fragmentation.  `buf` is `max_memfile_size`, `max` is
`max_body_size`.  A legal encoding is `encodeChunked chunks lastSpelling lastExt trailer` with
`LegalChunk` chunks (`Lemmas/Chunked.lean`): size spelled in any way `int(x, 16)` reads as the
payload length without CR, LF or `;`, optional extension `;…` free of LF, non-empty payload.
-/
namespace Ombott.Chunked
open Py Ombott.Body

/-- what makes `encodeChunked chunks ls le trailer` a legal encoding all of whose size lines
(CRLF included) fit a buffer of `buf` bytes -/
structure LegalEncoding (buf : Nat) (chunks : List Chunk) (ls le : Bytes) : Prop where
  chunks : ∀ c ∈ chunks, LegalChunk c ∧ c.spelling.length + c.ext.length + 2 ≤ buf
  last : LegalLine ls le
  zero : pyIntHex ls = some 0
  lastFits : ls.length + le.length + 2 ≤ buf

/-- **legal chunkings exist for every payload split and spelling**: any non-empty payload sent
with its length in hex digits of either case with any number of leading zeros (`hexSpell`, the
encoder the driver runs) and an extension that is empty or `;…` without LF is a `LegalChunk`;
the zero spelled the same way is a legal last-chunk line.  So `chunked_decode` below covers all
chunk sizes, hex case, leading zeros and extensions. -/
theorem canonical_chunks_legal (payload : Bytes) (u : Bool) (zeros : Nat) (ext : Bytes) (hp : payload ≠ [])
    (hext : ext = [] ∨ ∃ e, ext = SEM :: e ∧ ∀ b ∈ e, b ≠ LF) :
    LegalChunk { payload := payload, spelling := hexSpell u zeros payload.length, ext := ext } ∧
    LegalLine (hexSpell u zeros 0) ext ∧ pyIntHex (hexSpell u zeros 0) = some 0 :=
  ⟨legalChunk_canonical payload u zeros ext hp hext, legalLine_hexSpell u zeros 0 ext hext,
   pyIntHex_hexSpell u zeros 0⟩

/-- **exact decoding**: for every legal encoding in which each size line, its CRLF included, is at
most `buf` bytes, every read schedule, every trailer, and a payload within the size limit,
`_body_read(chunked=True)` returns exactly the concatenation of the chunk payloads (file-backed
iff longer than the threshold) and leaves the stream right behind the last-chunk line. -/
theorem chunked_decode (buf : Nat) (max : Option Nat) (cl : Int) (chunks : List Chunk)
    (ls le trailer : Bytes) (r : Rec)
    (hleg : LegalEncoding buf chunks ls le)
    (hd : r.st.data = encodeChunked chunks ls le trailer)
    (hmax : overMax max (payloadOf chunks).length = false) :
    ∃ r', bodyRead buf cl true max r = (.ok (bodyOf buf (payloadOf chunks)), r') ∧
      r'.st.data = trailer ∧
      r'.pos + trailer.length = r.pos + (encodeChunked chunks ls le trailer).length := by
  obtain ⟨r', h1, h2, h3⟩ := iterChunked_decode buf max ls le trailer hleg.last hleg.zero hleg.lastFits
    chunks r {} hleg.chunks hd (SinkInv.init buf) (by simpa using hmax)
  exact ⟨r', by simp [bodyRead, h1, bodyOf_eq], h2, h3⟩

/-- the same through `Request.body`: a request whose Transfer-Encoding header mentions `chunked`
(any case, any position) and whose Content-Length header is absent or numeric gets exactly the
concatenated payloads, and the buffered copy is cached -/
theorem request_chunked_exact (cfg : Cfg) (clh te : Option Str) (input : Rec) (cl : Int)
    (chunks : List Chunk) (ls le trailer : Bytes)
    (hte : isChunked te = true) (hcl : contentLength clh = .ok cl)
    (hleg : LegalEncoding cfg.memfile chunks ls le)
    (hd : input.st.data = encodeChunked chunks ls le trailer)
    (hmax : overMax cfg.maxBody (payloadOf chunks).length = false) :
    (({ cfg := cfg, clHeader := clh, teHeader := te, input := input } : Req).body).1 =
      .ok (bodyOf cfg.memfile (payloadOf chunks)) := by
  obtain ⟨r', h1, -, -⟩ := chunked_decode cfg.memfile cfg.maxBody cl chunks ls le trailer input hleg hd hmax
  simp [Req.body, Req.loadBody, hcl, hte, h1]

/-- **totality**: for every byte string, schedule, buffer and limit the chunked reader returns a
body, `BodyParsingError` or `BodySizeError` — no other exception (and it terminates: the model
function is total, its recursion is on the unread data). -/
theorem chunked_total (buf : Nat) (max : Option Nat) (cl : Int) (r : Rec) (e : Err)
    (h : (bodyRead buf cl true max r).1 = .error e) :
    e = .bodyParsingError ∨ e = .bodySizeError := by
  simp only [bodyRead, if_true] at h
  rcases iterChunked_err buf max _ r {} e rfl h with h | h
  · exact Or.inl h
  · exact Or.inr h.1

/-- the same for Content-Length framing: the only error is `BodySizeError` -/
theorem cl_total (buf : Nat) (max : Option Nat) (cl : Int) (r : Rec) (e : Err)
    (h : (bodyRead buf cl false max r).1 = .error e) : e = .bodySizeError := by
  simp only [bodyRead, iterBody, Bool.false_eq_true, if_false] at h
  rcases readParts_err false buf max _ r {} e h with h | ⟨h, -⟩
  · exact h.1
  · cases h

/-- **every truncation is rejected**: if the stream ends anywhere before the LF of the terminating
zero-size line of a legal encoding (inside a size line, inside chunk data, inside or before a
CRLF, at a chunk boundary), the reader raises — `BodyParsingError`, or `BodySizeError` when the
part received already exceeds a configured limit — for every buffer size and read fragmentation;
a partial body is never returned. -/
theorem chunked_prefix_rejected (buf : Nat) (max : Option Nat) (cl : Int) (chunks : List Chunk)
    (ls le trailer : Bytes) (r : Rec) (i : Nat)
    (hleg : ∀ c ∈ chunks, LegalChunk c) (hl : LegalLine ls le)
    (hd : r.st.data = (encodeChunked chunks ls le trailer).take i)
    (hi : i < (encodeChunks chunks).length + ls.length + le.length + 2) :
    ((bodyRead buf cl true max r).1 = .error .bodyParsingError ∨
      (bodyRead buf cl true max r).1 = .error .bodySizeError) ∧
    (max = none → (bodyRead buf cl true max r).1 = .error .bodyParsingError) := by
  obtain ⟨e, he⟩ := iterChunked_prefix buf max ls le trailer hl chunks r {} i hleg hd hi (SinkInv.init buf)
    (by cases max <;> simp [overMax])
  simp only [bodyRead, if_true]
  rw [he]
  rcases iterChunked_err buf max _ r {} e rfl he with h | ⟨h, hm⟩
  · subst h; exact ⟨Or.inl rfl, fun _ => rfl⟩
  · subst h; exact ⟨Or.inr rfl, fun hn => absurd hn hm⟩

/-- **a chunk's data must be followed by CRLF**: after any number of complete legal chunks, a
legal size line and its data followed by any two bytes other than CR LF (or by fewer than two
bytes) is a `BodyParsingError`, whether the two bytes arrive together or one at a time. -/
theorem chunked_missing_crlf (buf : Nat) (max : Option Nat) (cl : Int) (pre : List Chunk) (c : Chunk)
    (x : Bytes) (r : Rec)
    (hpre : ∀ c ∈ pre, LegalChunk c ∧ c.spelling.length + c.ext.length + 2 ≤ buf)
    (hc : LegalChunk c) (hfit : c.spelling.length + c.ext.length + 2 ≤ buf)
    (hd : r.st.data = encodeChunks pre ++ (c.spelling ++ c.ext ++ CRLF ++ (c.payload ++ x)))
    (hx : x.take 2 ≠ CRLF)
    (hmax : overMax max ((payloadOf pre).length + c.payload.length) = false) :
    (bodyRead buf cl true max r).1 = .error .bodyParsingError := by
  obtain ⟨r', he, hd', -⟩ := chunks_skip buf max pre _ r {} hpre hd (SinkInv.init buf)
    (overMax_mono max _ _ (by simp) hmax)
  have hplen : 0 < c.payload.length := List.length_pos_iff.mpr hc.nonempty
  obtain ⟨-, -, s3, -⟩ := line_step buf max c.spelling c.ext (c.payload ++ x) c.payload.length r'
    (Sink.extend buf {} (payloadOf pre)) hc.line hc.size hplen hfit hd' (Sink.extend_inv buf {} _ (SinkInv.init buf))
  simp only [bodyRead, if_true]
  rw [he]
  apply s3
  · simp only [Sink.extend, Nat.zero_add, List.length_append]
    rw [Nat.min_eq_left (by omega)]
    exact hmax
  · simp
  · rw [List.drop_left]; exact hx

/-- **the size-line bound is a rejection, never a wrong body**: a legal size line (of a chunk or
of the last-chunk) that is, CRLF included, longer than the buffer is a `BodyParsingError`. -/
theorem chunked_long_line_rejected (buf : Nat) (max : Option Nat) (cl : Int) (pre : List Chunk)
    (sp ext rest : Bytes) (r : Rec)
    (hpre : ∀ c ∈ pre, LegalChunk c ∧ c.spelling.length + c.ext.length + 2 ≤ buf)
    (hl : LegalLine sp ext)
    (hd : r.st.data = encodeChunks pre ++ (sp ++ ext ++ CRLF ++ rest))
    (hlong : sp.length + ext.length + 2 > buf)
    (hmax : overMax max (payloadOf pre).length = false) :
    (bodyRead buf cl true max r).1 = .error .bodyParsingError := by
  obtain ⟨r', he, hd', -⟩ := chunks_skip buf max pre _ r {} hpre hd (SinkInv.init buf) (by simpa using hmax)
  simp only [bodyRead, if_true]
  rw [he]
  exact iterChunked_scan_err buf max r' _ _ (scanLine_long buf sp ext rest r' hl hd' hlong)

/-- **a rejected body stays rejected**: when an access to `Request.body` raised (parsing or size
error, or a malformed Content-Length header), every later access on the same request raises the
very same error and does not touch the stream again — what is left of a spent stream is never
presented as a body (fix 93df45e). -/
theorem rejected_stays_rejected (q q1 : Req) (e : Err) (h : q.body = (.error e, q1)) :
    q1.body = (.error e, q1) := by
  have hb := h
  unfold Req.body at h
  split at h
  · rename_i e' q' hl
    simp only [Prod.mk.injEq, Except.error.injEq] at h
    obtain ⟨rfl, rfl⟩ := h
    unfold Req.loadBody at hl
    split at hl
    · cases hl
    · rename_i hcache
      split at hl
      · -- an error is already remembered: nothing changes
        simp only [Prod.mk.injEq, Except.error.injEq] at hl
        obtain ⟨-, rfl⟩ := hl
        exact hb
      · rename_i hnoerr
        split at hl
        · simp only [Prod.mk.injEq, Except.error.injEq] at hl
          obtain ⟨-, rfl⟩ := hl
          exact hb
        · rename_i cl hcl
          split at hl
          · rename_i e2 r2 hbr
            have hreq : isRequestError e2 = true := by
              have h1 : (bodyRead q.cfg.memfile cl (isChunked q.teHeader) q.cfg.maxBody q.input).1 = .error e2 := by
                rw [hbr]
              cases hch : isChunked q.teHeader with
              | true =>
                rw [hch] at h1
                rcases chunked_total _ _ _ _ _ h1 with rfl | rfl <;> rfl
              | false =>
                rw [hch] at h1
                rw [cl_total _ _ _ _ _ h1]; rfl
            rw [if_pos hreq] at hl
            simp only [Prod.mk.injEq, Except.error.injEq] at hl
            obtain ⟨rfl, rfl⟩ := hl
            simp [Req.body, Req.loadBody, hcache]
          · cases hl
  · cases h

/-- … over any sequence of later accesses by handler and hooks (`body.read(k)`,
`_get_body_string`, exceptions caught): each of them raises that same error, and the request —
in particular the position of the original stream — does not change any more. -/
theorem rejected_forever (q q1 : Req) (e : Err) (h : q.body = (.error e, q1))
    (ops : List Access) (hops : ∀ a ∈ ops, a.framework = true) (a : Access) (ha : a.framework = true) :
    (q1.run ops).access a = (.error e, q1) := by
  have hb := rejected_stays_rejected q q1 e h
  have hacc : ∀ a : Access, a.framework = true → q1.access a = (.error e, q1) := by
    intro a ha
    cases a with
    | inputRead => cases ha
    | replaceInput r => cases ha
    | setContentLength s => cases ha
    | bodyRead n => simp [Req.access, hb]
    | bodyString => simp [Req.access, Req.getBodyString, hb]
  have hrun : ∀ ops : List Access, (∀ a ∈ ops, a.framework = true) → q1.run ops = q1 := by
    intro ops
    induction ops with
    | nil => intro _; rfl
    | cons b bs ih =>
      intro hfw
      have : q1.run (b :: bs) = (q1.access b).2.run bs := by simp [Req.run]
      rw [this, hacc b (hfw b (by simp))]
      exact ih (fun x hx => hfw x (by simp [hx]))
  rw [hrun ops hops]
  exact hacc a ha

/-- `4xx` -/
def is4xx : Err → Bool
  | .http st => 400 ≤ st && st < 500
  | _ => false

/-- with the `errors_map` of the source (regenerated from `DefaultConfig.errors_map` on every
run) both client errors of the body reader are answered 4xx -/
theorem chunked_400 (e : Err) (h : e = .bodyParsingError ∨ e = .bodySizeError) :
    is4xx (raise_ Ombott.Gen.bodyErrorsMap e "RequestError") = true := by
  rcases h with rfl | rfl <;> decide

/-- hence a chunked request is answered 2xx-or-4xx as far as the body reader is concerned:
whatever the bytes, `Request.body` under the `errors_map` of the source either succeeds or raises
an `HTTPError` with a 4xx status (given a well-formed or absent Content-Length header) -/
theorem chunked_request_4xx (q : Req) (e : Err) (cl : Int) (hmap : q.cfg.errorsMap = Ombott.Gen.bodyErrorsMap)
    (hcl : contentLength q.clHeader = .ok cl) (hc : q.cache = none) (hb : q.bodyError = none)
    (h : (q.body).1 = .error e) : is4xx e = true := by
  unfold Req.body Req.loadBody at h
  rw [hc, hb, hcl] at h
  simp only at h
  rcases hbr : bodyRead q.cfg.memfile cl (isChunked q.teHeader) q.cfg.maxBody q.input with ⟨res, r'⟩
  rw [hbr] at h
  cases res with
  | ok sk => simp at h
  | error e2 =>
    have h1 : (bodyRead q.cfg.memfile cl (isChunked q.teHeader) q.cfg.maxBody q.input).1 = .error e2 := by
      rw [hbr]
    have h2 : e2 = .bodyParsingError ∨ e2 = .bodySizeError := by
      cases hch : isChunked q.teHeader with
      | true => rw [hch] at h1; exact chunked_total _ _ _ _ _ h1
      | false => rw [hch] at h1; exact Or.inr (cl_total _ _ _ _ _ h1)
    have h3 : isRequestError e2 = true := by rcases h2 with rfl | rfl <;> rfl
    simp only [h3, if_true, Except.error.injEq] at h
    subst h
    rw [hmap]
    exact chunked_400 e2 h2

section NonVacuity
/-- a legal two-chunk encoding with upper-case hex, a leading zero, an extension and a trailer,
all size lines within a buffer of 8 -/
example : LegalEncoding 8
    [⟨[104, 105], [50], []⟩, ⟨List.replicate 10 7, [48, 65], [59, 120]⟩] [48] [] :=
  ⟨by
    intro c hc
    simp only [List.mem_cons, List.not_mem_nil, or_false] at hc
    rcases hc with rfl | rfl
    · exact ⟨⟨⟨by decide, Or.inl rfl⟩, by decide, by decide⟩, by decide⟩
    · exact ⟨⟨⟨by decide, Or.inr ⟨[120], rfl, by decide⟩⟩, by decide, by decide⟩, by decide⟩,
   ⟨by decide, Or.inl rfl⟩, by decide, by decide⟩
/-- `request_chunked_exact`: header spellings that select the chunked reader -/
example : isChunked (some "Chunked".toList) = true ∧ isChunked (some "gzip, chunked".toList) = true ∧
    contentLength none = .ok (-1) := ⟨by decide, by decide, rfl⟩
/-- `chunked_prefix_rejected`: a cut right before the final LF of `2\r\nhi\r\n0\r\n` -/
example : (9 : Nat) < (encodeChunks [⟨[104, 105], [50], []⟩]).length + ([48] : Bytes).length + ([] : Bytes).length + 2 := by
  decide
/-- `chunked_missing_crlf`: `CR CR`, `LF`, nothing -/
example : ([13, 13, 48] : Bytes).take 2 ≠ CRLF ∧ ([10] : Bytes).take 2 ≠ CRLF ∧ ([] : Bytes).take 2 ≠ CRLF := by decide
/-- `chunked_long_line_rejected`: the line `00002;ext\r\n` (11 bytes) against a buffer of 8 -/
example : LegalLine [48, 48, 48, 48, 50] [59, 101, 120, 116] ∧
    ([48, 48, 48, 48, 50] : Bytes).length + ([59, 101, 120, 116] : Bytes).length + 2 > 8 :=
  ⟨⟨by decide, Or.inr ⟨[101, 120, 116], rfl, by decide⟩⟩, by decide⟩
end NonVacuity

end Ombott.Chunked
