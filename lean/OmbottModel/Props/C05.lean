import OmbottModel.Model.BodyMixin
import OmbottModel.Gen.Body
/-!
C05 — Chunked transfer decoding is exact and rejects every truncation.
Property theorems only; helper lemmas live in `Lemmas/Chunked.lean`.
-/
namespace Ombott.Chunked
open Py Ombott.Body

/-- with the `errors_map` of the source both client errors of the body reader are answered 4xx -/
theorem chunked_400 (e : Err) (h : e = .bodyParsingError ∨ e = .bodySizeError) :
    ∃ st, raise_ Ombott.Gen.errorsMap e "RequestError" = .http st ∧ 400 ≤ st ∧ st < 500 := by
  rcases h with rfl | rfl
  · exact ⟨400, by decide, by decide, by decide⟩
  · exact ⟨413, by decide, by decide, by decide⟩

end Ombott.Chunked
