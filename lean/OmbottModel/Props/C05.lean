import OmbottModel.Model.BodyMixin
import OmbottModel.Lemmas.Body
import OmbottModel.Lemmas.Chunked
import OmbottModel.Gen.Body
/-!
C05 — Chunked transfer decoding is exact and rejects every truncation.
Property theorems only; helper lemmas live in `Lemmas/Chunked.lean`, `Lemmas/Body.lean`.

`r : Rec` is `wsgi.input` (bytes still to come, read schedule, call record); quantifying over it
quantifies over every read fragmentation.  `buf` is `max_memfile_size`, `max` is
`max_body_size`.  A legal encoding is `encodeChunked chunks lastSpelling lastExt trailer` with
`LegalChunk` chunks (`Lemmas/Chunked.lean`): size spelled in any way `int(x, 16)` reads as the
payload length without CR, LF or `;`, optional extension `;…` free of LF, non-empty payload.
-/
namespace Ombott.Chunked
open Py Ombott.Body

/-- what makes `encodeChunked chunks ls le trailer` a legal encoding all of whose size lines
(CRLF included) fit a buffer of `buf` bytes -/
structure LegalEncoding (buf : Nat) (chunks : List Chunk) (ls le : Bytes) : Prop where
  chunks : ∀ c ∈ chunks, LegalChunk c ∧ c.spelling.length + c.ext.length + 2 ≤ buf
  last : LegalLine ls le
  zero : pyIntHex ls = some 0
  lastFits : ls.length + le.length + 2 ≤ buf

/-- **exact decoding**: for every legal encoding in which each size line, its CRLF included, is at
most `buf` bytes, every read schedule, every trailer, and a payload within the size limit,
`_body_read(chunked=True)` returns exactly the concatenation of the chunk payloads (file-backed
iff longer than the threshold) and leaves the stream right behind the last-chunk line. -/
theorem chunked_decode (buf : Nat) (max : Option Nat) (cl : Int) (chunks : List Chunk)
    (ls le trailer : Bytes) (r : Rec)
    (hleg : LegalEncoding buf chunks ls le)
    (hd : r.st.data = encodeChunked chunks ls le trailer)
    (hmax : overMax max (payloadOf chunks).length = false) :
    ∃ r', bodyRead buf cl true max r = (.ok (bodyOf buf (payloadOf chunks)), r') ∧
      r'.st.data = trailer ∧
      r'.pos + trailer.length = r.pos + (encodeChunked chunks ls le trailer).length := by
  obtain ⟨r', h1, h2, h3⟩ := iterChunked_decode buf max ls le trailer hleg.last hleg.zero hleg.lastFits
    chunks r {} hleg.chunks hd (SinkInv.init buf) (by simpa using hmax)
  exact ⟨r', by simp [bodyRead, h1, bodyOf_eq], h2, h3⟩

/-- **totality**: for every byte string, schedule, buffer and limit the chunked reader returns a
body, `BodyParsingError` or `BodySizeError` — no other exception (and it terminates: the model
function is total, its recursion is on the unread data). -/
theorem chunked_total (buf : Nat) (max : Option Nat) (cl : Int) (r : Rec) (e : Err)
    (h : (bodyRead buf cl true max r).1 = .error e) :
    e = .bodyParsingError ∨ e = .bodySizeError := by
  simp only [bodyRead, if_true] at h
  exact iterChunked_err buf max _ r {} e rfl h

/-- the same for Content-Length framing: the only error is `BodySizeError` -/
theorem cl_total (buf : Nat) (max : Option Nat) (cl : Int) (r : Rec) (e : Err)
    (h : (bodyRead buf cl false max r).1 = .error e) : e = .bodySizeError := by
  simp only [bodyRead, iterBody, Bool.false_eq_true, if_false] at h
  rcases readParts_err false buf max _ r {} e h with h | ⟨h, -⟩
  · exact h
  · cases h

/-- with the `errors_map` of the source both client errors of the body reader are answered 4xx -/
theorem chunked_400 (e : Err) (h : e = .bodyParsingError ∨ e = .bodySizeError) :
    ∃ st, raise_ Ombott.Gen.errorsMap e "RequestError" = .http st ∧ 400 ≤ st ∧ st < 500 := by
  rcases h with rfl | rfl
  · exact ⟨400, by decide, by decide, by decide⟩
  · exact ⟨413, by decide, by decide, by decide⟩

section NonVacuity
/-- a legal two-chunk encoding with upper-case hex, a leading zero, an extension and a trailer,
all size lines within a buffer of 8 -/
example : LegalEncoding 8
    [⟨[104, 105], [50], []⟩, ⟨List.replicate 10 7, [48, 65], [59, 120]⟩] [48] [] :=
  ⟨by
    intro c hc
    simp only [List.mem_cons, List.not_mem_nil, or_false] at hc
    rcases hc with rfl | rfl
    · exact ⟨⟨⟨by decide, Or.inl rfl⟩, by decide, by decide⟩, by decide⟩
    · exact ⟨⟨⟨by decide, Or.inr ⟨[120], rfl, by decide⟩⟩, by decide, by decide⟩, by decide⟩,
   ⟨by decide, Or.inl rfl⟩, by decide, by decide⟩
end NonVacuity

end Ombott.Chunked
