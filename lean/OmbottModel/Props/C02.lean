import OmbottModel.Model.RouterSpec
import OmbottModel.Lemmas.RouterDispatch
import OmbottModel.Props.C01
/-!
C02 — Method dispatch: verb, ANY and HEAD fallbacks, 405 with exact Allow.
Property theorems only; helper lemmas live in `Lemmas/Router*.lean`.

`upper` (Python's `str.upper`) is a parameter of every statement.  All statements about router
states are over `Router.run upper ops` for an arbitrary history `ops` of `add` (new route, more
methods on an existing route, `overwrite=True`, rejected registrations) and `remove_method`
operations, so each of them is the "after any history" form (`histories` puts them together).
-/
namespace Ombott.Router
open Py

def sHEAD : Str := "HEAD".toList
def sGET : Str := "GET".toList
def sANY : Str := "ANY".toList

/-- `Route.__getitem__` answers with the first candidate that is registered -/
theorem getItem_first (r : Route) (cands : List Str) (rm : RouteMethod) :
    r.getItem cands = .ok rm ↔
      ∃ pre m post, cands = pre ++ m :: post ∧ dictGet r.methods m = some rm ∧
        ∀ x ∈ pre, dictGet r.methods x = none := by
  induction cands with
  | nil => simp [Route.getItem]
  | cons c cs ih =>
    unfold Route.getItem
    cases hc : dictGet r.methods c with
    | some rm' =>
      constructor
      · intro h
        cases h
        exact ⟨[], c, cs, rfl, hc, by simp⟩
      · rintro ⟨pre, m, post, heq, hm, hpre⟩
        cases pre with
        | nil =>
          simp only [List.nil_append, List.cons.injEq] at heq
          obtain ⟨rfl, _⟩ := heq
          rw [hc] at hm; cases hm; rfl
        | cons p ps =>
          simp only [List.cons_append, List.cons.injEq] at heq
          obtain ⟨rfl, _⟩ := heq
          have := hpre c (by simp)
          rw [hc] at this; cases this
    | none =>
      simp only []
      rw [ih]
      constructor
      · rintro ⟨pre, m, post, rfl, hm, hpre⟩
        refine ⟨c :: pre, m, post, rfl, hm, ?_⟩
        intro x hx
        rcases List.mem_cons.mp hx with rfl | hx
        · exact hc
        · exact hpre x hx
      · rintro ⟨pre, m, post, heq, hm, hpre⟩
        cases pre with
        | nil =>
          simp only [List.nil_append, List.cons.injEq] at heq
          obtain ⟨rfl, _⟩ := heq
          rw [hc] at hm; cases hm
        | cons p ps =>
          simp only [List.cons_append, List.cons.injEq] at heq
          obtain ⟨rfl, rfl⟩ := heq
          exact ⟨ps, m, post, rfl, hm, fun x hx => hpre x (by simp [hx])⟩

/-- the dispatch decision on a route: the handler registered for the verb, else (for HEAD) the
GET handler, else the ANY handler -/
def dispatchSpec (r : Route) (verb : Str) : Option RouteMethod :=
  match dictGet r.methods verb with
  | some m => some m
  | none =>
    match (if verb = sHEAD then dictGet r.methods sGET else none) with
    | some m => some m
    | none => dictGet r.methods sANY

/-- **Fallback order.**  With the candidate list `Ombott.to_route` really builds (generated
table), a route answers with the handler registered for the verb, else for HEAD with the GET
handler, else with the ANY handler, else `RouteMethodError`. -/
theorem dispatch_order (r : Route) (verb : Str) :
    r.getItem (candidates verb) =
      match dispatchSpec r verb with
      | some m => .ok m
      | none => .error .routeMethodError := by
  rw [candidates_eq]
  unfold dispatchSpec sHEAD sGET sANY
  by_cases h : verb = "HEAD".toList
  · simp only [h, if_true]
    unfold Route.getItem Route.getItem Route.getItem Route.getItem
    cases dictGet r.methods "HEAD".toList <;> cases dictGet r.methods "GET".toList <;>
      cases dictGet r.methods "ANY".toList <;> rfl
  · simp only [h, if_false]
    unfold Route.getItem Route.getItem Route.getItem
    cases dictGet r.methods verb <;> cases dictGet r.methods "ANY".toList <;> rfl

/-- `sorted(route.methods)` is the registered names, each once, in order -/
theorem allow_names (r : Route) (hnd : (r.methods.map (·.1)).Nodup) :
    (sortStrs (r.methods.map (·.1))).Perm (r.methods.map (·.1)) ∧
    (sortStrs (r.methods.map (·.1))).Nodup ∧
    (sortStrs (r.methods.map (·.1))).Pairwise strLe :=
  ⟨sortStrs_perm _, (List.Perm.nodup_iff (sortStrs_perm _)).mpr hnd, sortStrs_sorted _⟩

/-- `stripSlash` does not see the normalisation `request.path` applies -/
theorem stripSlash_request_path (path : Str) :
    stripSlash ('/' :: path.dropWhile (· == '/')) = stripSlash path := by
  unfold stripSlash stripBy
  have : List.dropWhile (· == '/') ('/' :: List.dropWhile (· == '/') path) =
      List.dropWhile (· == '/') path := by
    rw [List.dropWhile_cons_of_pos (by simp)]
    induction path with
    | nil => rfl
    | cons c cs ih =>
      by_cases hc : (c == '/') = true
      · simp only [List.dropWhile_cons, hc, if_true]; exact ih
      · simp only [List.dropWhile_cons, hc, Bool.false_eq_true, if_false]
  rw [this]

/-- **After any history** (`add` on new and existing routes, `overwrite=True`, rejected
registrations, `remove_method`), a request with method `verb` and path `path` is answered as
follows.  If no registered rule matches the path rule-by-rule: 404.  Otherwise, on the route
of the selected rule: the handler of the first registered of `[upper verb, GET if HEAD, ANY]`,
or, if none is registered, 405 whose `Allow` value is the comma-joined `sorted` list of the
route's registered names, which has no duplicates. -/
theorem histories (upper : Str → Str) (ops : List Op) (hok : ∀ op ∈ ops, OpOK op)
    (env : FilterEnv) (hs : NoSel env) (verb path : Str) :
    match specResolve env (Router.run upper ops).rules (stripSlash path) with
    | none => ∃ v h p, (Router.run upper ops).handle upper env verb path = .notFound v h p
    | some (rule, vs) => ∃ route hooks,
        (Router.run upper ops).obj? rule.data = some route ∧ route.syms = rule.pat ∧
        (route.methods.map (·.1)).Nodup ∧
        (Router.run upper ops).handle upper env verb path =
          match dispatchSpec route (upper verb) with
          | some m => .found m.handler m.name
              (makeParamsDict (if m.params.isEmpty then rule.keys else m.params) vs) hooks
          | none => .notAllowed (joinComma (sortStrs (route.methods.map (·.1)))) := by
  have h := resolve_eq_rule_by_rule upper ops hok env hs
    ('/' :: path.dropWhile (· == '/')) (candidates (upper verb))
  have hm := run_methInv upper ops
  unfold Router.handle Router.toRoute
  rw [stripSlash_request_path] at h
  cases hsr : specResolve env (Router.run upper ops).rules (stripSlash path) with
  | none => rw [hsr] at h; exact h
  | some x =>
    obtain ⟨rule, vs⟩ := x
    rw [hsr] at h
    obtain ⟨route, hooks, hobj, hsyms, hres⟩ := h
    refine ⟨route, hooks, hobj, hsyms, (hm _ _ hobj).1, ?_⟩
    rw [hres, dispatch_order]
    cases dispatchSpec route (upper verb) <;> rfl

/-- **405 with exact Allow.**  When the answer is 405, a rule matches the path, none of the
candidates is registered on its route, and `Allow.split(",")` is exactly the sorted,
duplicate-free list of the names registered on that route (for names without a comma; an empty
table gives the empty header value). -/
theorem dispatch_405_allow (upper : Str → Str) (ops : List Op) (hok : ∀ op ∈ ops, OpOK op)
    (env : FilterEnv) (hs : NoSel env) (verb path : Str) (allow : Str)
    (h405 : (Router.run upper ops).handle upper env verb path = .notAllowed allow) :
    ∃ rule vs route, specResolve env (Router.run upper ops).rules (stripSlash path) = some (rule, vs) ∧
      (Router.run upper ops).obj? rule.data = some route ∧
      dispatchSpec route (upper verb) = none ∧
      ∃ names, names.Perm (route.methods.map (·.1)) ∧ names.Nodup ∧ names.Pairwise strLe ∧
        allow = joinComma names ∧
        ((∀ a ∈ names, ',' ∉ a) → splitOn1 ',' allow = if names = [] then [[]] else names) := by
  have h := histories upper ops hok env hs verb path
  cases hsr : specResolve env (Router.run upper ops).rules (stripSlash path) with
  | none =>
    rw [hsr] at h
    obtain ⟨v, hh, p, hnf⟩ := h
    rw [hnf] at h405; cases h405
  | some x =>
    obtain ⟨rule, vs⟩ := x
    rw [hsr] at h
    obtain ⟨route, hooks, hobj, _, hnd, hres⟩ := h
    rw [hres] at h405
    cases hd : dispatchSpec route (upper verb) with
    | some m => rw [hd] at h405; cases h405
    | none =>
      rw [hd] at h405
      simp only [Resolved.notAllowed.injEq] at h405
      obtain ⟨hp, hn, hsorted⟩ := allow_names route hnd
      refine ⟨rule, vs, route, rfl, hobj, hd, _, hp, hn, hsorted, h405.symm, ?_⟩
      intro hcomma
      rw [← h405]
      split
      · rename_i hnil; rw [hnil]; rfl
      · rename_i hne; exact split_joinComma _ hne hcomma

/-- **404 / 405 split.**  404 is answered exactly when no registered rule matches the path, so
405 is never given for a path that matches no route nor 404 for a path that matches one. -/
theorem split_404_405 (upper : Str → Str) (ops : List Op) (hok : ∀ op ∈ ops, OpOK op)
    (env : FilterEnv) (hs : NoSel env) (verb path : Str) :
    ((∃ v h p, (Router.run upper ops).handle upper env verb path = .notFound v h p) ↔
        specResolve env (Router.run upper ops).rules (stripSlash path) = none) ∧
    (∀ allow, (Router.run upper ops).handle upper env verb path = .notAllowed allow →
        (specResolve env (Router.run upper ops).rules (stripSlash path)).isSome = true) := by
  have h := histories upper ops hok env hs verb path
  cases hsr : specResolve env (Router.run upper ops).rules (stripSlash path) with
  | none =>
    rw [hsr] at h
    obtain ⟨v, hh, p, hnf⟩ := h
    exact ⟨⟨fun _ => rfl, fun _ => ⟨v, hh, p, hnf⟩⟩, fun allow ha => by rw [hnf] at ha; cases ha⟩
  | some x =>
    obtain ⟨rule, vs⟩ := x
    rw [hsr] at h
    obtain ⟨route, hooks, _, _, _, hres⟩ := h
    refine ⟨⟨?_, fun hc => by cases hc⟩, fun _ _ => rfl⟩
    rintro ⟨v, hh, p, hnf⟩
    rw [hres] at hnf
    cases hd : dispatchSpec route (upper verb) <;> rw [hd] at hnf <;> cases hnf

/-- **Case-insensitive method names.**  Registration and request both go through `upper`:
spellings with the same upper-case form are the same method, for every `upper`. -/
theorem case_insensitive (upper : Str → Str) :
    (∀ (R : Router) (cenv : CompileEnv) (a a' : AddArgs),
        a'.rule = a.rule → a'.handler = a.handler → a'.name = a.name → a'.overwrite = a.overwrite →
        a'.methods.map upper = a.methods.map upper → R.add upper cenv a' = R.add upper cenv a) ∧
    (∀ (R : Router) (env : FilterEnv) (v v' path : Str),
        upper v' = upper v → R.handle upper env v' path = R.handle upper env v path) := by
  constructor
  · intro R cenv a a' h1 h2 h3 h4 h5
    unfold Router.add
    simp only [h1, h2, h3, h4, h5]
  · intro R env v v' path h
    unfold Router.handle
    rw [h]


/-! ## Non-vacuity (history `nvOps` of `Props/C01.lean`: hypotheses `nvOps_ok`, `nvEnv_noSel`) -/
section NonVacuity

/-- HEAD falls back to GET -/
example : (Router.run asciiUpper nvOps).handle asciiUpper nvEnv "head".toList "/a/b".toList =
    .found 3 "GET".toList [] [] := by decide +kernel

/-- ANY was removed: 405 with the remaining name -/
example : (Router.run asciiUpper nvOps).handle asciiUpper nvEnv "PUT".toList "/a/b".toList =
    .notAllowed "GET".toList := by decide +kernel

/-- two names on one pattern: sorted Allow -/
example : (Router.run asciiUpper nvOps).handle asciiUpper nvEnv "PUT".toList "//a/7/".toList =
    .notAllowed "GET,POST".toList := by decide +kernel

/-- no rule matches: 404, whatever the verb -/
example : (Router.run asciiUpper nvOps).handle asciiUpper nvEnv "GET".toList "/a/c".toList =
    .notFound [] [] "a/".toList := by decide +kernel

/-- the instances above are inside the theorems' hypotheses (`histories`, `split_404_405` take the
same `nvOps_ok`, `nvEnv_noSel`) -/
example := dispatch_405_allow asciiUpper nvOps nvOps_ok nvEnv nvEnv_noSel "PUT".toList "/a/b".toList
  "GET".toList (by decide +kernel)

end NonVacuity

end Ombott.Router
