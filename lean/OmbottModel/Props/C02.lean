import OmbottModel.Model.RouterSpec
import OmbottModel.Lemmas.RouterDispatch
import OmbottModel.Props.C01
import OmbottModel.Lemmas.AppError
import OmbottModel.Lemmas.AppRoute
import OmbottModel.Lemmas.RegApi
/-!
C02 — Method dispatch: verb, ANY and HEAD fallbacks, 405 with exact Allow.
Property theorems only; helper lemmas live in `Lemmas/Router*.lean`.

`upper` (Python's `str.upper`) is a parameter of every statement.  All statements about router
states are over `Router.run upper ops` for an arbitrary history `ops` of `add` (new route, more
methods on an existing route, `overwrite=True`, rejected registrations) and `remove_method`
operations, so each of them is the "after any history" form (`histories` puts them together).
-/
namespace Ombott.Router
open Py

def sHEAD : Str := "HEAD".toList
def sGET : Str := "GET".toList
def sANY : Str := "ANY".toList

/-- `Route.__getitem__` answers with the first candidate that is registered -/
theorem getItem_first (r : Route) (cands : List Str) (rm : RouteMethod) :
    r.getItem cands = .ok rm ↔
      ∃ pre m post, cands = pre ++ m :: post ∧ dictGet r.methods m = some rm ∧
        ∀ x ∈ pre, dictGet r.methods x = none := by
  induction cands with
  | nil => simp [Route.getItem]
  | cons c cs ih =>
    unfold Route.getItem
    cases hc : dictGet r.methods c with
    | some rm' =>
      constructor
      · intro h
        cases h
        exact ⟨[], c, cs, rfl, hc, by simp⟩
      · rintro ⟨pre, m, post, heq, hm, hpre⟩
        cases pre with
        | nil =>
          simp only [List.nil_append, List.cons.injEq] at heq
          obtain ⟨rfl, _⟩ := heq
          rw [hc] at hm; cases hm; rfl
        | cons p ps =>
          simp only [List.cons_append, List.cons.injEq] at heq
          obtain ⟨rfl, _⟩ := heq
          have := hpre c (by simp)
          rw [hc] at this; cases this
    | none =>
      simp only []
      rw [ih]
      constructor
      · rintro ⟨pre, m, post, rfl, hm, hpre⟩
        refine ⟨c :: pre, m, post, rfl, hm, ?_⟩
        intro x hx
        rcases List.mem_cons.mp hx with rfl | hx
        · exact hc
        · exact hpre x hx
      · rintro ⟨pre, m, post, heq, hm, hpre⟩
        cases pre with
        | nil =>
          simp only [List.nil_append, List.cons.injEq] at heq
          obtain ⟨rfl, _⟩ := heq
          rw [hc] at hm; cases hm
        | cons p ps =>
          simp only [List.cons_append, List.cons.injEq] at heq
          obtain ⟨rfl, rfl⟩ := heq
          exact ⟨ps, m, post, rfl, hm, fun x hx => hpre x (by simp [hx])⟩

/-- the dispatch decision on a route: the handler registered for the verb, else (for HEAD) the
GET handler, else the ANY handler -/
def dispatchSpec (r : Route) (verb : Str) : Option RouteMethod :=
  match dictGet r.methods verb with
  | some m => some m
  | none =>
    match (if verb = sHEAD then dictGet r.methods sGET else none) with
    | some m => some m
    | none => dictGet r.methods sANY

/-- **Fallback order.**  With the candidate list `Ombott.to_route` really builds (generated
table), a route answers with the handler registered for the verb, else for HEAD with the GET
handler, else with the ANY handler, else `RouteMethodError`. -/
theorem dispatch_order (r : Route) (verb : Str) :
    r.getItem (candidates verb) =
      match dispatchSpec r verb with
      | some m => .ok m
      | none => .error .routeMethodError := by
  rw [candidates_eq]
  unfold dispatchSpec sHEAD sGET sANY
  by_cases h : verb = "HEAD".toList
  · simp only [h, if_true]
    unfold Route.getItem Route.getItem Route.getItem Route.getItem
    cases dictGet r.methods "HEAD".toList <;> cases dictGet r.methods "GET".toList <;>
      cases dictGet r.methods "ANY".toList <;> rfl
  · simp only [h, if_false]
    unfold Route.getItem Route.getItem Route.getItem
    cases dictGet r.methods verb <;> cases dictGet r.methods "ANY".toList <;> rfl

/-- `sorted(route.methods)` is the registered names, each once, in order -/
theorem allow_names (r : Route) (hnd : (r.methods.map (·.1)).Nodup) :
    (sortStrs (r.methods.map (·.1))).Perm (r.methods.map (·.1)) ∧
    (sortStrs (r.methods.map (·.1))).Nodup ∧
    (sortStrs (r.methods.map (·.1))).Pairwise strLe :=
  ⟨sortStrs_perm _, (List.Perm.nodup_iff (sortStrs_perm _)).mpr hnd, sortStrs_sorted _⟩

/-- `stripSlash` does not see the normalisation `request.path` applies -/
theorem stripSlash_request_path (path : Str) :
    stripSlash ('/' :: path.dropWhile (· == '/')) = stripSlash path := by
  unfold stripSlash stripBy
  have : List.dropWhile (· == '/') ('/' :: List.dropWhile (· == '/') path) =
      List.dropWhile (· == '/') path := by
    rw [List.dropWhile_cons_of_pos (by simp)]
    induction path with
    | nil => rfl
    | cons c cs ih =>
      by_cases hc : (c == '/') = true
      · simp only [List.dropWhile_cons, hc, if_true]; exact ih
      · simp only [List.dropWhile_cons, hc, Bool.false_eq_true, if_false]
  rw [this]

/-- **After any history** (`add` on new and existing routes, `overwrite=True`, rejected
registrations, `remove_method`), a request with method `verb` and path `path` is answered as
follows.  If no registered rule matches the path rule-by-rule: 404.  Otherwise, on the route
of the selected rule: the handler of the first registered of `[upper verb, GET if HEAD, ANY]`,
or, if none is registered, 405 whose `Allow` value is the comma-joined `sorted` list of the
route's registered names, which has no duplicates. -/
theorem histories (upper : Str → Str) (ops : List Op) (hok : ∀ op ∈ ops, OpOK op)
    (env : FilterEnv) (hs : NoSel env) (verb path : Str) :
    match specResolve env (Router.run upper ops).rules (stripSlash path) with
    | none => ∃ v h p, (Router.run upper ops).handle upper env verb path = .notFound v h p
    | some (rule, vs) => ∃ route hooks,
        (Router.run upper ops).obj? rule.data = some route ∧ route.syms = rule.pat ∧
        (route.methods.map (·.1)).Nodup ∧
        (Router.run upper ops).handle upper env verb path =
          match dispatchSpec route (upper verb) with
          | some m => .found m.handler m.name
              (makeParamsDict (if m.params.isEmpty then rule.keys else m.params) vs) hooks
          | none => .notAllowed (joinComma (sortStrs (route.methods.map (·.1)))) := by
  have h := resolve_eq_rule_by_rule upper ops hok env hs
    ('/' :: path.dropWhile (· == '/')) (candidates (upper verb))
  have hm := run_methInv upper ops
  unfold Router.handle Router.toRoute
  rw [stripSlash_request_path] at h
  cases hsr : specResolve env (Router.run upper ops).rules (stripSlash path) with
  | none => rw [hsr] at h; exact h
  | some x =>
    obtain ⟨rule, vs⟩ := x
    rw [hsr] at h
    obtain ⟨route, hooks, hobj, hsyms, hres⟩ := h
    refine ⟨route, hooks, hobj, hsyms, (hm _ _ hobj).1, ?_⟩
    rw [hres, dispatch_order]
    cases dispatchSpec route (upper verb) <;> rfl

/-- **405 with exact Allow.**  When the answer is 405, a rule matches the path, none of the
candidates is registered on its route, and `Allow.split(",")` is exactly the sorted,
duplicate-free list of the names registered on that route (for names without a comma; an empty
table gives the empty header value). -/
theorem dispatch_405_allow (upper : Str → Str) (ops : List Op) (hok : ∀ op ∈ ops, OpOK op)
    (env : FilterEnv) (hs : NoSel env) (verb path : Str) (allow : Str)
    (h405 : (Router.run upper ops).handle upper env verb path = .notAllowed allow) :
    ∃ rule vs route, specResolve env (Router.run upper ops).rules (stripSlash path) = some (rule, vs) ∧
      (Router.run upper ops).obj? rule.data = some route ∧
      dispatchSpec route (upper verb) = none ∧
      ∃ names, names.Perm (route.methods.map (·.1)) ∧ names.Nodup ∧ names.Pairwise strLe ∧
        allow = joinComma names ∧
        ((∀ a ∈ names, ',' ∉ a) → splitOn1 ',' allow = if names = [] then [[]] else names) := by
  have h := histories upper ops hok env hs verb path
  cases hsr : specResolve env (Router.run upper ops).rules (stripSlash path) with
  | none =>
    rw [hsr] at h
    obtain ⟨v, hh, p, hnf⟩ := h
    rw [hnf] at h405; cases h405
  | some x =>
    obtain ⟨rule, vs⟩ := x
    rw [hsr] at h
    obtain ⟨route, hooks, hobj, _, hnd, hres⟩ := h
    rw [hres] at h405
    cases hd : dispatchSpec route (upper verb) with
    | some m => rw [hd] at h405; cases h405
    | none =>
      rw [hd] at h405
      simp only [Resolved.notAllowed.injEq] at h405
      obtain ⟨hp, hn, hsorted⟩ := allow_names route hnd
      refine ⟨rule, vs, route, rfl, hobj, hd, _, hp, hn, hsorted, h405.symm, ?_⟩
      intro hcomma
      rw [← h405]
      split
      · rename_i hnil; rw [hnil]; rfl
      · rename_i hne; exact split_joinComma _ hne hcomma

/-- **404 / 405 split.**  404 is answered exactly when no registered rule matches the path, so
405 is never given for a path that matches no route nor 404 for a path that matches one. -/
theorem split_404_405 (upper : Str → Str) (ops : List Op) (hok : ∀ op ∈ ops, OpOK op)
    (env : FilterEnv) (hs : NoSel env) (verb path : Str) :
    ((∃ v h p, (Router.run upper ops).handle upper env verb path = .notFound v h p) ↔
        specResolve env (Router.run upper ops).rules (stripSlash path) = none) ∧
    (∀ allow, (Router.run upper ops).handle upper env verb path = .notAllowed allow →
        (specResolve env (Router.run upper ops).rules (stripSlash path)).isSome = true) := by
  have h := histories upper ops hok env hs verb path
  cases hsr : specResolve env (Router.run upper ops).rules (stripSlash path) with
  | none =>
    rw [hsr] at h
    obtain ⟨v, hh, p, hnf⟩ := h
    exact ⟨⟨fun _ => rfl, fun _ => ⟨v, hh, p, hnf⟩⟩, fun allow ha => by rw [hnf] at ha; cases ha⟩
  | some x =>
    obtain ⟨rule, vs⟩ := x
    rw [hsr] at h
    obtain ⟨route, hooks, _, _, _, hres⟩ := h
    refine ⟨⟨?_, fun hc => by cases hc⟩, fun _ _ => rfl⟩
    rintro ⟨v, hh, p, hnf⟩
    rw [hres] at hnf
    cases hd : dispatchSpec route (upper verb) <;> rw [hd] at hnf <;> cases hnf

/-- **Case-insensitive method names.**  Registration and request both go through `upper`:
spellings with the same upper-case form are the same method, for every `upper`. -/
theorem case_insensitive (upper : Str → Str) :
    (∀ (R : Router) (cenv : CompileEnv) (a a' : AddArgs),
        a'.rule = a.rule → a'.handler = a.handler → a'.name = a.name → a'.overwrite = a.overwrite →
        a'.methods.map upper = a.methods.map upper → R.add upper cenv a' = R.add upper cenv a) ∧
    (∀ (R : Router) (env : FilterEnv) (v v' path : Str),
        upper v' = upper v → R.handle upper env v' path = R.handle upper env v path) := by
  constructor
  · intro R cenv a a' h1 h2 h3 h4 h5
    unfold Router.add
    simp only [h1, h2, h3, h4, h5]
  · intro R env v v' path h
    unfold Router.handle
    rw [h]


/-! ## the composed application (`Model/App.lean`): 404 / 405 / dispatch through `Ombott.__call__` -/

theorem jsonPage_text_isSome (t : Str) : (Wsgi.jsonPage (.text t)).isSome = true := rfl

/-- **`app_404_405_split`: the 404 / 405 split and the exact `Allow`, end to end through
`App.serve`.**  For every application whose hooks do not fail (they may set headers, cookies,
statuses), every registration history and every request with a decodable path on which
`App.serve` is defined, the response `Ombott.__call__` gives is decided by the plain rule-by-rule
matcher over the registered rules and the method table of the selected route:
* no registered rule matches the path — no handler runs and (without a custom 404 handler) the
  status line handed to `start_response` is the 404 line;
* a rule matches and one of `[upper verb, GET if HEAD, ANY]` is registered on its route — the
  handler event occurs and the call is that method's callback with that rule's kwargs;
* a rule matches and none is registered — no handler runs and (without a custom 405 handler) the
  status line is the 405 line and the header list handed to `start_response` contains `Allow` with
  the comma-joined `sorted` names registered on that route (duplicate-free: `allow_names`), as
  `headerlist` transcodes it.
So 404 is never answered for a path that matches a rule nor 405 for one that matches none, after
the whole way through `_handle`, `_cast`, `apply` and `headerlist`. -/
theorem app_404_405_split (cfg : App.AppConfig) (ops : List Op) (hok : ∀ op ∈ ops, OpOK op)
    (hs : NoSel cfg.fenv) (q : App.Req) (res : Wsgi.Result)
    (hserve : App.serveW cfg (Router.run cfg.upper ops) q = .ok res)
    (path : Str) (hpath : ErrorPage.utf8Decode q.rawPath = some path)
    (hb : cfg.hooks.before.all (fun h => !h.fails) = true)
    (ha : cfg.hooks.after.all (fun h => !h.fails) = true) :
    match specResolve cfg.fenv (Router.run cfg.upper ops).rules (stripSlash path) with
    | none =>
      Wsgi.Event.handler ∉ res.events ∧
      (Wsgi.errHandlerFor cfg.hooks 404 = none →
        res.slots.resp.code = 404 ∧
        ∃ hdrs, Wsgi.Event.startResponse (Wsgi.lineOfCode 404) hdrs false ∈ res.events)
    | some (rule, vs) => ∃ route,
        (Router.run cfg.upper ops).obj? rule.data = some route ∧ (route.methods.map (·.1)).Nodup ∧
        match dispatchSpec route (cfg.upper q.verb) with
        | some m =>
          Wsgi.Event.handler ∈ res.events ∧
          App.callOf (App.resolved cfg (Router.run cfg.upper ops) q) =
            some ⟨m.handler, m.name, makeParamsDict (if m.params.isEmpty then rule.keys else m.params) vs⟩
        | none =>
          Wsgi.Event.handler ∉ res.events ∧
          (Wsgi.errHandlerFor cfg.hooks 405 = none →
            res.slots.resp.code = 405 ∧
            ∃ hdrs, Wsgi.Event.startResponse (Wsgi.lineOfCode 405) hdrs false ∈ res.events ∧
              ("Allow".toList, transcode (joinComma (sortStrs (route.methods.map (·.1))))) ∈ hdrs) := by
  obtain ⟨r, hr, rfl⟩ := App.serveW_ok hserve
  obtain ⟨_, _, _, _, _, hpok, _, _, hjson, hrel⟩ := App.wsgiReq_ok hr
  have hp : r.pathOK = true := by rw [hpok, hpath]; rfl
  have hres : App.resolved cfg (Router.run cfg.upper ops) q =
      some ((Router.run cfg.upper ops).handle cfg.upper cfg.fenv q.verb path) := by
    unfold App.resolved; rw [hpath]; rfl
  rw [hres] at hrel
  have hnot : r.route.isFound = false → Wsgi.Event.handler ∉ (Wsgi.wsgi cfg.hooks Wsgi.Slots.fresh r).events := by
    intro hnf hmem
    have := (App.handler_event_found cfg.hooks Wsgi.Slots.fresh r (List.mem_append_left _ hmem)).2
    rw [hnf] at this; cases this
  have hflow := App.handleFlow_quiet cfg.hooks r hb ha
  have hist := histories cfg.upper ops hok cfg.fenv hs q.verb path
  generalize hrt : r.route = route at hrel
  cases hsr : specResolve cfg.fenv (Router.run cfg.upper ops).rules (stripSlash path) with
  | none =>
    rw [hsr] at hist
    obtain ⟨v, hh, p, hnf⟩ := hist
    rw [hnf] at hrel
    cases hrel
    refine ⟨hnot (by rw [hrt]; rfl), ?_⟩
    intro hno
    rw [hrt, App.notFound_flow] at hflow
    obtain ⟨x, hl, hserved⟩ := App.wsgi_error_page cfg.hooks Wsgi.Slots.fresh r hp _ _ hflow hno
      (by intro p hp; cases hp) (fun _ => jsonPage_text_isSome _)
    exact ⟨hserved.code, hl, by rw [hserved.evs]; simp⟩
  | some x =>
    obtain ⟨rule, vs⟩ := x
    rw [hsr] at hist
    obtain ⟨rt, hooks, hobj, _, hnd, hhandle⟩ := hist
    refine ⟨rt, hobj, hnd, ?_⟩
    cases hd : dispatchSpec rt (cfg.upper q.verb) with
    | some m =>
      rw [hd] at hhandle
      simp only at hhandle ⊢
      rw [hhandle] at hrel hres
      cases hrel
      refine ⟨App.handler_event_of_found cfg.hooks Wsgi.Slots.fresh r hp hb (by rw [hrt]; rfl), ?_⟩
      rw [hres]
      rfl
    | none =>
      rw [hd] at hhandle
      simp only at hhandle ⊢
      rw [hhandle] at hrel
      cases hrel
      refine ⟨hnot (by rw [hrt]; rfl), ?_⟩
      intro hno
      rw [hrt, App.notAllowed_flow] at hflow
      obtain ⟨x, hl, hserved⟩ := App.wsgi_error_page cfg.hooks Wsgi.Slots.fresh r hp _ _ hflow hno
        (by
          intro p hp v hv
          simp only [List.mem_singleton] at hp
          subst hp
          simp only [List.mem_singleton] at hv
          subst hv
          exact fun h => by cases h)
        (fun _ => jsonPage_text_isSome _)
      refine ⟨hserved.code, hl, by rw [hserved.evs]; simp, ?_⟩
      exact hserved.kept "Allow".toList _ (by simp) (by decide) App.allow_kept

/-- an application that adds nothing of its own: no hooks, no error handlers, callbacks that
return text without touching the response object (what the registration API gives by default) -/
def Transparent (cfg : App.AppConfig) : Prop :=
  cfg.hooks.before = [] ∧ cfg.hooks.after = [] ∧ cfg.hooks.errHandlers = [] ∧
  ∀ id kw, (cfg.handlers id kw).effs = [] ∧ ∃ t, (cfg.handlers id kw).res = .returns (.text t)

/-- **`app_404_405_split`, as an equivalence on the status code.**  For a transparent application
the status code `Ombott.__call__` answers with is 404 exactly when no registered rule matches the
path, 405 exactly when a rule matches and none of the candidates is registered on its route (and
then `Allow` is exact), and 200 otherwise. -/
theorem app_404_iff_no_rule (cfg : App.AppConfig) (ht : Transparent cfg) (ops : List Op)
    (hok : ∀ op ∈ ops, OpOK op) (hs : NoSel cfg.fenv) (q : App.Req) (res : Wsgi.Result)
    (hserve : App.serveW cfg (Router.run cfg.upper ops) q = .ok res)
    (path : Str) (hpath : ErrorPage.utf8Decode q.rawPath = some path) :
    (res.slots.resp.code = 404 ↔
      specResolve cfg.fenv (Router.run cfg.upper ops).rules (stripSlash path) = none) ∧
    (res.slots.resp.code = 405 ↔
      ∃ rule vs route, specResolve cfg.fenv (Router.run cfg.upper ops).rules (stripSlash path) = some (rule, vs) ∧
        (Router.run cfg.upper ops).obj? rule.data = some route ∧ dispatchSpec route (cfg.upper q.verb) = none) ∧
    (res.slots.resp.code = 404 ∨ res.slots.resp.code = 405 ∨ res.slots.resp.code = 200) := by
  obtain ⟨hb0, ha0, he0, hprog⟩ := ht
  have hb : cfg.hooks.before.all (fun h => !h.fails) = true := by rw [hb0]; rfl
  have ha : cfg.hooks.after.all (fun h => !h.fails) = true := by rw [ha0]; rfl
  have hno : ∀ c, Wsgi.errHandlerFor cfg.hooks c = none := by
    intro c; unfold Wsgi.errHandlerFor; rw [he0]; rfl
  have hsplit := app_404_405_split cfg ops hok hs q res hserve path hpath hb ha
  cases hsr : specResolve cfg.fenv (Router.run cfg.upper ops).rules (stripSlash path) with
  | none =>
    rw [hsr] at hsplit
    have hc := (hsplit.2 (hno 404)).1
    refine ⟨⟨fun _ => rfl, fun _ => hc⟩, ⟨fun h => ?_, fun ⟨_, _, _, h, _⟩ => by cases h⟩, Or.inl hc⟩
    rw [hc] at h; cases h
  | some x =>
    obtain ⟨rule, vs⟩ := x
    rw [hsr] at hsplit
    obtain ⟨route, hobj, _, hdisp⟩ := hsplit
    cases hd : dispatchSpec route (cfg.upper q.verb) with
    | none =>
      rw [hd] at hdisp
      have hc := (hdisp.2 (hno 405)).1
      refine ⟨⟨fun h => ?_, fun h => by cases h⟩, ⟨fun _ => ⟨rule, vs, route, rfl, hobj, hd⟩, fun _ => hc⟩,
        Or.inr (Or.inl hc)⟩
      rw [hc] at h; cases h
    | some m =>
      rw [hd] at hdisp
      simp only at hdisp
      -- the callback ran and returned text: the fresh response object's status stays
      have hc : res.slots.resp.code = 200 := by
        obtain ⟨r, hr, rfl⟩ := App.serveW_ok hserve
        obtain ⟨_, _, _, _, _, hpok, _, _, _, hrel⟩ := App.wsgiReq_ok hr
        have hp : r.pathOK = true := by rw [hpok, hpath]; rfl
        have hcall := hdisp.2
        -- `callOf` is `some`: the router answered `found`
        generalize hrt : r.route = rt at hrel
        generalize hrs : App.resolved cfg (Router.run cfg.upper ops) q = rs at hrel hcall
        cases hrel with
        | undecodable => cases hcall
        | notFound v p => cases hcall
        | notAllowed a h => cases hcall
        | found h mm kw =>
          obtain ⟨heff, t, hres⟩ := hprog h kw
          have hflow := App.handleFlow_quiet cfg.hooks r hb ha
          rw [hrt] at hflow
          have : (Wsgi.Route.found (cfg.handlers h kw)).flow = .ret (.text t) := by
            simp only [Wsgi.Route.flow, heff, Wsgi.effsFail, List.any_nil, Bool.false_eq_true, if_false, hres]
          rw [this] at hflow
          rw [App.wsgi_of_text cfg.hooks Wsgi.Slots.fresh r hp t hflow,
            App.handle_plain_resp cfg.hooks Wsgi.Slots.fresh r hp hb0 ha0 _ hrt heff]
          exact App.default_status_200
      refine ⟨⟨fun h => ?_, fun h => by cases h⟩, ⟨fun h => ?_, fun ⟨rule', vs', route', h1, h2, h3⟩ => ?_⟩,
        Or.inr (Or.inr hc)⟩
      · rw [hc] at h; cases h
      · rw [hc] at h; cases h
      · simp only [Option.some.injEq, Prod.mk.injEq] at h1
        obtain ⟨rfl, rfl⟩ := h1
        rw [hobj] at h2
        cases h2
        rw [hd] at h3; cases h3

/-! ## Non-vacuity (history `nvOps` of `Props/C01.lean`: hypotheses `nvOps_ok`, `nvEnv_noSel`) -/
section NonVacuity

/-- HEAD falls back to GET -/
example : (Router.run asciiUpper nvOps).handle asciiUpper nvEnv "head".toList "/a/b".toList =
    .found 3 "GET".toList [] [] := by decide +kernel

/-- ANY was removed: 405 with the remaining name -/
example : (Router.run asciiUpper nvOps).handle asciiUpper nvEnv "PUT".toList "/a/b".toList =
    .notAllowed "GET".toList := by decide +kernel

/-- two names on one pattern: sorted Allow -/
example : (Router.run asciiUpper nvOps).handle asciiUpper nvEnv "PUT".toList "//a/7/".toList =
    .notAllowed "GET,POST".toList := by decide +kernel

/-- no rule matches: 404, whatever the verb -/
example : (Router.run asciiUpper nvOps).handle asciiUpper nvEnv "GET".toList "/a/c".toList =
    .notFound [] [] "a/".toList := by decide +kernel

/-- the instances above are inside the theorems' hypotheses (`histories`, `split_404_405` take the
same `nvOps_ok`, `nvEnv_noSel`) -/
example := dispatch_405_allow asciiUpper nvOps nvOps_ok nvEnv nvEnv_noSel "PUT".toList "/a/b".toList
  "GET".toList (by decide +kernel)

/-! ### the composed application (`nvCfg`, `nvReq` of `Props/C01.lean`: one before hook that sets a
header, never fails) -/

def nvPlainCfg : App.AppConfig :=
  { nvCfg with hooks := { before := [], after := [], errHandlers := [] } }

theorem nvPlain_transparent : Transparent nvPlainCfg := ⟨rfl, rfl, rfl, fun _ _ => ⟨rfl, _, rfl⟩⟩

/-- hypotheses of `app_404_405_split` (`nvOps_ok`, `nvEnv_noSel`, non-failing hooks, a decodable
path inside `App.serve`'s domain) and what it says on them: `PUT /a/b` through the hooked
application is the 405 line with `Allow: GET`, `GET /a/c` the 404 line, after the hook's header
was dropped by `apply` -/
example :
    (nvCfg.hooks.before.all (fun h => !h.fails) = true ∧ nvCfg.hooks.after.all (fun h => !h.fails) = true) ∧
    (match App.serveW nvCfg (Router.run nvCfg.upper nvOps) { nvReq with verb := "PUT".toList, rawPath := [47, 97, 47, 98] } with
     | .ok res => res.events.take 2 == [.before 0, .routed] && res.slots.resp.code == 405 &&
         (App.startOf res.events).any (fun x => x.1 == Wsgi.lineOfCode 405 &&
           x.2.1.any (fun h => h.1 == "Allow".toList && h.2 == "GET".toList) &&
           !x.2.1.any (fun h => h.1 == "X-B".toList))
     | .error _ => false) = true ∧
    (match App.serveW nvCfg (Router.run nvCfg.upper nvOps) { nvReq with verb := "GET".toList, rawPath := [47, 97, 47, 99] } with
     | .ok res => res.slots.resp.code == 404
     | .error _ => false) = true := by
  refine ⟨⟨by decide, by decide⟩, by decide +kernel, by decide +kernel⟩

/-- `app_404_iff_no_rule`: the transparent application answers 200 / 405 / 404 on the three kinds of request -/
example :
    ([("post", [47, 97, 47, 49, 50]), ("PUT", [47, 97, 47, 98]), ("GET", [47, 122])].map fun (v, p) =>
      match App.serveW nvPlainCfg (Router.run nvPlainCfg.upper nvOps) { nvReq with verb := v.toList, rawPath := p } with
      | .ok res => res.slots.resp.code
      | .error _ => 0) = [200, 405, 404] := by decide +kernel

/-- why `app_404_iff_no_rule` asks for a transparent application: a callback may answer 404 itself
(`abort(404)`), and then the status is 404 although a rule matches — the equivalence is about what
the ROUTER contributes, which `app_404_405_split` states for every application -/
example :
    (match App.serveW { nvPlainCfg with handlers := fun _ _ => { effs := [], res := .raisesResp (Wsgi.mkError 404 "gone".toList) } }
        (Router.run nvPlainCfg.upper nvOps) { nvReq with verb := "GET".toList, rawPath := [47, 97, 47, 98] } with
     | .ok res => res.slots.resp.code == 404 && res.events.contains .handler
     | .error _ => false) = true := by decide +kernel

end NonVacuity

end Ombott.Router


/-! # ===== the registration surface (`Model/RegApi.lean`, `Lemmas/RegApi.lean`) =====

`Ombott.route` in every call form, the verb shortcuts, `add_route`, the request hooks, `error`, the
partial 404 hook, the module-level aliases and `run()`, stated over `App.step` / `World.step` (what the
driver line `regapi hist` runs) and composed with the dispatch theorems above. -/
namespace Ombott.RegApi
open Py Ombott.Router

/-- **`route_forms_agree`.**  For every application state, rule, method spelling(s) (one `str` or a list), name,
overwrite flag and truthy callback: the direct form `route(rule, method, cb)`, the decorator form
`@route(rule, method)`, the shortcut forms `app.<verb>(rule, callback=cb)` / `@app.<verb>(rule)` and `add_route` leave
exactly the router `RadiRouter.add(rule, methods, cb, name, overwrite=…)` leaves (`methods` = the caller's, or the
method the shortcut pins), change nothing else of the application, and return the callback unchanged (`add_route`:
the route) — or raise what `RadiRouter.add` raises. -/
theorem route_forms_agree (ctx : Ctx) (app : App) (f : Form) (rule : Str) (m m' : Methods) (name : Option Str)
    (ow : Bool) (cb : Callback) (ht : cb.truthy = true) (hm : f.registers m = some m') :
    app.step ctx (f.op rule m name ow cb) =
      ({ app with router := (app.router.add ctx.upper ctx.cenv ⟨rule, m'.asList, cb.id, name, ow⟩).1 },
        f.shows cb (app.router.add ctx.upper ctx.cenv ⟨rule, m'.asList, cb.id, name, ow⟩).2) :=
  step_form ctx app f rule m m' name ow cb ht hm

/-- **`shortcut_table_exact`** (over the table read off the live class): the shortcut attributes are exactly one per
name of `HTTP_METHODS`, in that order; each attribute `a` pins the method `a.upper()`; the attribute is found under its
own name; what the live `app.<a>(rule, callback=cb)` registered on a probe route is that one method; and in the model
the shortcut form registers exactly `[a.upper()]` whatever method the caller had in mind. -/
theorem shortcut_table_exact :
    Gen.raShortcuts.map (·.2) = Gen.raHttpMethods ∧
    (∀ x ∈ Gen.raShortcuts, asciiUpper x.1.toList = x.2.toList ∧ Gen.raShortcuts.find? (·.1 == x.1) = some x) ∧
    Gen.raShortcutProbe = Gen.raShortcuts.map (fun x => (x.1, [x.2])) ∧
    (∀ x ∈ Gen.raShortcuts, ∀ m, (Form.shortcut x.1).registers m = some (.one (asciiUpper x.1.toList)) ∧
      (Form.shortcutDecorator x.1).registers m = some (.one (asciiUpper x.1.toList))) := by
  have key : ∀ x ∈ Gen.raShortcuts, (Gen.raShortcuts.find? (·.1 == x.1)).map (fun y => Methods.one y.2.toList) =
      some (.one (asciiUpper x.1.toList)) := by decide
  refine ⟨by decide, by decide, by decide, ?_⟩
  intro x hx m
  exact ⟨key x hx, key x hx⟩

/-- **`methods_upper_idempotent`.**  `RadiRouter.add` normalises with `[m.upper() for m in methods]`; for an
idempotent `upper` (as `str.upper` is) registering the already upper-cased names is the same call. -/
theorem methods_upper_idempotent (upper : Str → Str) (hid : ∀ s, upper (upper s) = upper s) (R : Router)
    (cenv : CompileEnv) (a : AddArgs) :
    (a.methods.map upper).map upper = a.methods.map upper ∧
    R.add upper cenv { a with methods := a.methods.map upper } = R.add upper cenv a := by
  have h1 : (a.methods.map upper).map upper = a.methods.map upper := by
    rw [List.map_map]; apply List.map_congr_left; intro s _; exact hid s
  refine ⟨h1, ?_⟩
  unfold Router.add
  simp only [h1]

/-- **`registration_then_dispatch`.**  After a registration in ANY form on an application whose router came from a
history `ops`, the router is the one of the history extended by that `RadiRouter.add`; hence (the `histories` theorem)
a request is answered from the rule-by-rule selected route's method table by the first registered of `[upper verb,
GET if HEAD, ANY]`, else 405 with the exact Allow, and a request whose method equals another case-insensitively
gets the same answer. -/
theorem registration_then_dispatch (ctx : Ctx) (ops : List Router.Op) (app : App)
    (happ : app.router = Router.run ctx.upper ops)
    (f : Form) (rule : Str) (m m' : Methods) (name : Option Str) (ow : Bool) (cb : Callback)
    (ht : cb.truthy = true) (hm : f.registers m = some m')
    (hok : ∀ op ∈ ops ++ [Router.Op.add ctx.cenv ⟨rule, m'.asList, cb.id, name, ow⟩], OpOK op)
    (hs : NoSel ctx.env) (verb verb' path : Str) (hv : ctx.upper verb' = ctx.upper verb) :
    (app.step ctx (f.op rule m name ow cb)).1.router =
      Router.run ctx.upper (ops ++ [.add ctx.cenv ⟨rule, m'.asList, cb.id, name, ow⟩]) ∧
    (app.step ctx (f.op rule m name ow cb)).1.router.handle ctx.upper ctx.env verb' path =
      (app.step ctx (f.op rule m name ow cb)).1.router.handle ctx.upper ctx.env verb path ∧
    match specResolve ctx.env (app.step ctx (f.op rule m name ow cb)).1.router.rules (stripSlash path) with
    | none => ∃ v h p, (app.step ctx (f.op rule m name ow cb)).1.router.handle ctx.upper ctx.env verb path = .notFound v h p
    | some (rl, vs) => ∃ route hooks,
        (app.step ctx (f.op rule m name ow cb)).1.router.obj? rl.data = some route ∧ route.syms = rl.pat ∧
        (route.methods.map (·.1)).Nodup ∧
        (app.step ctx (f.op rule m name ow cb)).1.router.handle ctx.upper ctx.env verb path =
          match dispatchSpec route (ctx.upper verb) with
          | some mm => .found mm.handler mm.name
              (makeParamsDict (if mm.params.isEmpty then rl.keys else mm.params) vs) hooks
          | none => .notAllowed (joinComma (sortStrs (route.methods.map (·.1)))) := by
  have hR : (app.step ctx (f.op rule m name ow cb)).1.router =
      Router.run ctx.upper (ops ++ [.add ctx.cenv ⟨rule, m'.asList, cb.id, name, ow⟩]) := by
    rw [step_form ctx app f rule m m' name ow cb ht hm, happ]
    simp only [Router.run, List.foldl_append, List.foldl_cons, List.foldl_nil, Router.step]
  rw [hR]
  exact ⟨rfl, (case_insensitive ctx.upper).2 _ _ _ _ _ hv, histories ctx.upper _ hok ctx.env hs verb path⟩

/-- **`emit_snapshot`.**  An emission calls hooks of the list as it was when the emission started, in that order:
always a prefix of it, and all of it unless a hook raised — whatever the hooks do to the hook lists while they run
(`prog` is arbitrary: adding, removing themselves or others, on this or the other event). -/
theorem emit_snapshot (prog : Nat → HookProg) (app : App) (name : Str) (l : List Nat)
    (hl : dictGet app.hooksGet.2 name = some l) :
    (app.emit prog name).2.called <+: l ∧
    ((app.emit prog name).2.error = none → (app.emit prog name).2.called = l) := by
  unfold App.emit
  simp only [hl]
  refine ⟨emitLoop_called_prefix prog l _, ?_⟩
  intro h
  apply emitLoop_all
  cases hr : (emitLoop prog l app.hooksGet.1).2.2 with
  | false => rfl
  | true => simp [hr] at h

/-- an unknown hook name: `KeyError`, nothing is called -/
theorem emit_unknown (prog : Nat → HookProg) (app : App) (name : Str)
    (hl : dictGet app.hooksGet.2 name = none) :
    (app.emit prog name).2 = ⟨[], some "KeyError"⟩ := by
  unfold App.emit
  simp only [hl]

/-- does `int(code)` give `s` -/
def codeIs (c : CodeArg) (s : Int) : Bool :=
  match c.toInt with
  | .ok n => n == s
  | .error _ => false

theorem error_step (cenv : CompileEnv) (app : App) (code : CodeArg) (h : Nat) (s : Int) :
    (app.error cenv code none h).1.errorHandlerFor s =
      if codeIs code s then some h else app.errorHandlerFor s := by
  unfold App.error codeIs
  cases hc : code.toInt with
  | error e => simp
  | ok c =>
    have hn : (if isPartialCode c then Option.filter (fun x : Str => !x.isEmpty) none else none) = none := by
      split <;> rfl
    simp only [hn, App.errorHandlerFor, dictGet_dictSet']
    by_cases hsc : s = c
    · subst hsc; simp
    · have : (c == s) = false := by simpa using fun h => hsc h.symm
      simp [hsc, this]

/-- **`error_handler_lookup`.**  After every sequence of `error(code)(handler)` registrations (code an `int` or a
`str`; a `str` that `int()` refuses raises and registers nothing) on any application, the handler `_cast` picks for
an `HTTPError` with status `s` is the LAST one registered with `int(code) = s`; if there is none, what the
application had before (for a new application: the default handler). -/
theorem error_handler_lookup (cenv : CompileEnv) (regs : List (CodeArg × Nat)) (app : App) (s : Int) :
    (regs.foldl (fun a r => (a.error cenv r.1 none r.2).1) app).errorHandlerFor s =
      match regs.reverse.find? (fun r => codeIs r.1 s) with
      | some r => some r.2
      | none => app.errorHandlerFor s := by
  induction regs generalizing app with
  | nil => rfl
  | cons r rs ih =>
    simp only [List.foldl_cons, List.reverse_cons, List.find?_append]
    rw [ih]
    cases hf : rs.reverse.find? (fun r => codeIs r.1 s) with
    | some x => rfl
    | none =>
      simp only [Option.none_or, List.find?_cons, List.find?_nil, error_step]
      cases hc : codeIs r.1 s <;> simp

/-- the same through the operations the driver plays, from `Ombott()`: the default handler unless registered -/
theorem error_handler_lookup_run (ctx : Ctx) (regs : List (CodeArg × Nat)) (s : Int) :
    (App.run ctx (regs.map fun r => Op.error r.1 none r.2)).errorHandlerFor s =
      (regs.reverse.find? (fun r => codeIs r.1 s)).map (·.2) := by
  have := error_handler_lookup ctx.cenv regs App.init s
  unfold App.run
  rw [List.foldl_map]
  simp only [App.step]
  rw [this]
  cases regs.reverse.find? (fun r => codeIs r.1 s) <;> rfl

/-- **`partial_404_hook_choice`.**  On a 404 `Ombott.handler` looks at the LAST hook pair collected on the way
(`hooks_collected[-1]`, the innermost hooked prefix) and at nothing else: if that pair has a partial hook it answers,
called with `request.path[:1 + route_pos]` and the values matched so far; otherwise the answer is the plain 404 —
also when an outer pair has a partial hook. -/
theorem partial_404_hook_choice (reqPath : Str) (vals : List Val) (hooks : List (Nat × HookPair)) (p : Str) :
    serveResolved reqPath (.notFound vals hooks p) =
      match hooks.getLast? with
      | some (pos, hp) =>
        (match hp.partialHook with
         | some h => .notFoundHook h (reqPath.take (1 + pos)) vals
         | none => .notFound)
      | none => .notFound := by
  simp only [serveResolved]
  cases hooks.getLast? with
  | none => rfl
  | some x => obtain ⟨pos, hp⟩ := x; cases hp.partialHook <;> rfl

/-- `error(404, rule)(handler)` with a non-empty rule is `RadiRouter.add_hook(rule, handler, PARTIAL)` plus the
`'404-hooks'` entry under the pattern; `error_handlers[404]` is not written -/
theorem error_404_rule_registers (cenv : CompileEnv) (app : App) (rule : Str) (hne : rule ≠ []) (h : Nat) (s : Int) :
    (app.error cenv (.int 404) (some rule) h).1.router = (app.router.addHook cenv rule h true).1 ∧
    (app.error cenv (.int 404) (some rule) h).1.errorHandlerFor s = app.errorHandlerFor s ∧
    (∀ pat, (app.router.addHook cenv rule h true).2 = .ok pat →
      (app.error cenv (.int 404) (some rule) h).1.hooks404 = dictSet app.hooks404 pat h) := by
  have hr : (if isPartialCode 404 then Option.filter (fun x : Str => !x.isEmpty) (some rule) else none) = some rule := by
    have : isPartialCode 404 = true := by decide
    rw [this]
    cases rule with
    | nil => exact absurd rfl hne
    | cons c cs => rfl
  unfold App.error
  simp only [CodeArg.toInt, hr]
  cases hh : app.router.addHook cenv rule h true with
  | mk R out =>
    cases out with
    | error e => exact ⟨rfl, rfl, fun pat hp => by cases hp⟩
    | ok pat => exact ⟨rfl, rfl, fun pat' hp => by cases hp; rfl⟩

/-- **`default_app_aliases`** (over the table taken from the live objects with `__self__` / `is`): every alias of
`Globals` and of the package is bound to `default_app()`; `route`, `on_route`, `error` resolve to application 0; and a
call through an alias is the call on application 0. -/
theorem default_app_aliases :
    (∀ a ∈ Gen.raGlobalAliases, a.2.2.2 = true) ∧
    (∀ h ∈ ["Globals", "ombott"], ∀ n ∈ ["route", "on_route", "error", "request", "response", "app"],
      aliasTarget h n = some World.defaultApp) ∧
    (∀ (ctx : Ctx) (w : World) (h n : String) (op : Op), aliasTarget h n = some World.defaultApp →
      (Target.alias h n).accepts op = true →
      World.step ctx w (.alias h n) op = World.step ctx w (.app World.defaultApp) op) := by
  refine ⟨by decide, by decide, ?_⟩
  intro ctx w h n op ht ha
  have ha' : (aliasMethod h n == some op.methodName) = true := ha
  unfold World.step
  simp only [ha', Target.index, ht, Target.accepts, Bool.not_true, Bool.false_eq_true, if_false]

/-- the decisions of `run()`: a non-callable application is refused before anything else; without an application the
default one is served; the server is quiet if it was or `quiet=True` was passed, and the banner is written exactly
when it is not quiet; a server name is looked up in `server_names` (a `str` outside it is not callable) -/
theorem run_plan_spec (a : RunArgs) :
    (a.appCallable = false → runPlan a = .error "ValueError") ∧
    (∀ p, runPlan a = .ok p → a.appCallable = true ∧ p.isDefaultApp = a.app.isNone ∧
      p.quiet = (a.serverQuiet || a.quiet) ∧ p.banner = !p.quiet ∧
      (∀ s, a.server = .name s → (s, p.server) ∈ Gen.raServerNames)) := by
  constructor
  · intro h; unfold runPlan; simp [h]
  · intro p hp
    unfold runPlan at hp
    cases hc : a.appCallable with
    | false => simp [hc] at hp
    | true =>
      simp only [hc, Bool.not_true, Bool.false_eq_true, if_false] at hp
      cases hsv : a.server with
      | factory id =>
        simp only [hsv] at hp
        cases happ : a.app <;> simp only [happ] at hp <;> cases hp <;>
          exact ⟨rfl, rfl, rfl, rfl, fun s h => by cases h⟩
      | name s =>
        simp only [hsv] at hp
        cases hf : Gen.raServerNames.find? (·.1 == s) with
        | none => simp [hf] at hp
        | some x =>
          obtain ⟨nm, cls⟩ := x
          simp only [hf] at hp
          have hmem := List.mem_of_find?_eq_some hf
          have hnm : nm = s := by simpa using List.find?_some hf
          subst hnm
          cases happ : a.app <;> simp only [happ] at hp <;> cases hp <;>
            exact ⟨rfl, rfl, rfl, rfl, fun s' h => by cases h; exact hmem⟩

section NonVacuityRegApi

def raCtx : Ctx :=
  { upper := asciiUpper, cenv := fun _ => none, env := fun _ _ => none,
    hook := fun h => if h == 10 then ⟨[.removeHook "before_request".toList 10, .addHook "before_request".toList 12], false⟩ else {},
    aborts := fun h => if h == 3 then some 418 else none }

/-- `route_forms_agree` / `registration_then_dispatch`: hypotheses met (truthy callback, a live shortcut) and the five
forms really leave one and the same router; a lower-case request reaches the callback registered as `Post` -/
example : (Form.shortcut "post").registers (.one "x".toList) = some (.one "POST".toList) := by decide

example :
    ([Form.direct, .decorator, .addRoute].map fun f =>
      (((App.init.step raCtx (f.op "/a".toList (.many ["Post".toList]) none false ⟨1, true⟩)).1.router.handle
        asciiUpper raCtx.env "post".toList "/a".toList))) =
    [.found 1 "POST".toList [] [], .found 1 "POST".toList [] [], .found 1 "POST".toList [] []] ∧
    ([Form.shortcut "post", .shortcutDecorator "post"].map fun f =>
      (((App.init.step raCtx (f.op "/a".toList (.one "x".toList) none false ⟨1, true⟩)).1.router.handle
        asciiUpper raCtx.env "pOsT".toList "/a".toList))) =
    [.found 1 "POST".toList [] [], .found 1 "POST".toList [] []] := by decide +kernel

/-- the hypotheses of `registration_then_dispatch` on the empty history -/
example : ∀ op ∈ ([] : List Router.Op) ++ [Router.Op.add raCtx.cenv ⟨"/a".toList, ["Post".toList], 1, none, false⟩], OpOK op := by
  intro op hop
  simp only [List.nil_append, List.mem_singleton] at hop
  subst hop
  exact rule_without_marker_ok _ _ (by decide)

/-- `methods_upper_idempotent`: `asciiUpper` is idempotent on every name of the generated tables and on mixed spellings -/
example : (Gen.raHttpMethods ++ ["get", "pOsT", "any", "x-y_1"]).all
    (fun m => asciiUpper (asciiUpper m.toList) == asciiUpper m.toList) = true := by decide

/-- `emit_snapshot`: hook 10 removes itself and adds hook 12 while running; the emission still calls exactly the
snapshot `[10, 11]`, and the next one starts from `[11, 12]` -/
example :
    let app := App.run raCtx [.addHook "before_request".toList 10, .addHook "before_request".toList 11]
    dictGet app.hooksGet.2 "before_request".toList = some [10, 11] ∧
    (app.emit raCtx.hook "before_request".toList).2 = ⟨[10, 11], none⟩ ∧
    (app.emit raCtx.hook "before_request".toList).1.hookList "before_request".toList = [11, 12] := by decide +kernel

/-- `emit_unknown` -/
example : dictGet App.init.hooksGet.2 "before".toList = none := by decide

/-- `error_handler_lookup`: int and str codes, the last registration wins, a refused code registers nothing -/
example :
    let app := App.run raCtx [.error (.int 404) none 30, .error (.str " +4_04 ".toList) none 31,
      .error (.str "4x4".toList) none 32, .error (.str "500".toList) none 33]
    (app.errorHandlerFor 404, app.errorHandlerFor 500, app.errorHandlerFor 403) = (some 31, some 33, none) := by
  decide +kernel

/-- `partial_404_hook_choice` / `error_404_rule_registers`: the hooked prefix answers a 404 below it -/
example :
    (match ((App.init.error raCtx.cenv (.int 404) (some "/api".toList) 30).1.router.serve asciiUpper raCtx.env
        "GET".toList "/api/zz".toList) with
     | .notFoundHook h arg _ => h == 30 && arg == "/api".toList
     | _ => false) = true := by decide +kernel

/-- `run_plan_spec` -/
example : runPlan { app := none, server := .name "wsgiref", quiet := true } =
    .ok { app := 0, isDefaultApp := true, server := "WSGIRefServer", quiet := true, banner := false } := by decide

end NonVacuityRegApi

end Ombott.RegApi
