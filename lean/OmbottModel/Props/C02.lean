import OmbottModel.Model.Router
/-!
C02 — Method dispatch: verb, ANY and HEAD fallbacks, 405 with exact Allow.
Property theorems only; helper lemmas live in `Lemmas/Router*.lean`.
-/
namespace Ombott.Router
open Py

/-- `Route.__getitem__` answers with the first candidate that is registered -/
theorem getItem_first (r : Route) (cands : List Str) (rm : RouteMethod) :
    r.getItem cands = .ok rm ↔
      ∃ pre m post, cands = pre ++ m :: post ∧ dictGet r.methods m = some rm ∧
        ∀ x ∈ pre, dictGet r.methods x = none := by
  induction cands with
  | nil => simp [Route.getItem]
  | cons c cs ih =>
    unfold Route.getItem
    cases hc : dictGet r.methods c with
    | some rm' =>
      constructor
      · intro h
        cases h
        exact ⟨[], c, cs, rfl, hc, by simp⟩
      · rintro ⟨pre, m, post, heq, hm, hpre⟩
        cases pre with
        | nil =>
          simp only [List.nil_append, List.cons.injEq] at heq
          obtain ⟨rfl, _⟩ := heq
          rw [hc] at hm; cases hm; rfl
        | cons p ps =>
          simp only [List.cons_append, List.cons.injEq] at heq
          obtain ⟨rfl, _⟩ := heq
          have := hpre c (by simp)
          rw [hc] at this; cases this
    | none =>
      simp only []
      rw [ih]
      constructor
      · rintro ⟨pre, m, post, rfl, hm, hpre⟩
        refine ⟨c :: pre, m, post, rfl, hm, ?_⟩
        intro x hx
        rcases List.mem_cons.mp hx with rfl | hx
        · exact hc
        · exact hpre x hx
      · rintro ⟨pre, m, post, heq, hm, hpre⟩
        cases pre with
        | nil =>
          simp only [List.nil_append, List.cons.injEq] at heq
          obtain ⟨rfl, _⟩ := heq
          rw [hc] at hm; cases hm
        | cons p ps =>
          simp only [List.cons_append, List.cons.injEq] at heq
          obtain ⟨rfl, rfl⟩ := heq
          exact ⟨ps, m, post, rfl, hm, fun x hx => hpre x (by simp [hx])⟩

end Ombott.Router
