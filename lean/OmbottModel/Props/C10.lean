import OmbottModel.Model.WsgiConc
import OmbottModel.Lemmas.TsPropsMachine
import OmbottModel.Lemmas.WsgiConcRun
import OmbottModel.Lemmas.ConfigFrame
import OmbottModel.Lemmas.ConfigMixin
/-!
C10 — Application objects in one process are independent of each other.
Property theorems only; helper lemmas live in `Lemmas/TsProps*.lean`, `Lemmas/WsgiConcRun.lean`.

An operation is `(thread, application, atomic step)`.  A sequence of operations is at once an
interleaving of any number of threads (the sequence is the global order, every element carries its
thread), a nesting (the steps of `B.__call__` sit between two steps of a handler of `A`, on the same
thread), `Request.copy()` (`newCopy`, `initHead (.copy n)` …) and the construction of further
applications (`initHead .request` … of a fresh application id).
-/
namespace Ombott.TsProps
open Py

/-- **C10** (every set of applications, every operation sequence incl. copy / construct / nested,
on one thread or on several, from any start heap in which dict references stay inside their
application — `Heap.boot` after import, or anything reached later): what the operations of
application `a` read and are answered is what they are answered when all operations of the other
applications are deleted.  The only hypothesis: no operation writes one of the objects shared by all
applications (the `HTTPError`s of `errors_map`); reads of them are covered. -/
theorem multi_app_noninterference (h0 : Heap) (ho : Own ownA h0) (ops : List Op)
    (hs : ∀ op ∈ ops, op.acc.sharedOk) (a : AppId) :
    readsOf .perInstance a h0 ops =
      (runOps .perInstance h0 (ops.filter (fun op => op.app = a))).2 :=
  readsOf_eq_filtered a ops hs h0 h0 (Agree.refl _) ho ho

/-- process start (`import ombott` done, nothing constructed) is such a heap -/
theorem boot_owned : Own ownA Heap.boot :=
  ⟨fun _ _ _ _ h => by simp [Heap.boot, Heap.empty] at h, fun _ _ _ _ h => by simp [Heap.boot, Heap.empty] at h,
   fun _ _ _ h => by simp [Heap.boot, Heap.empty] at h, fun _ _ _ _ h => by simp [Heap.boot, Heap.empty] at h⟩

/-- **C10 for adaptive programs** (the programs the driver runs: served requests whose handlers may
call other applications, copy their request, construct applications, fail onto a shared mapped
error): for every assignment of programs to threads and every interleaving, the results of the
steps made in application `a`, as logged, are what replaying only those steps from process start
gives — provided the run wrote no shared error object (decidable on the log; the programs of
`Model/WsgiConc.lean` contain no such step). -/
theorem multi_app_noninterference_machine (progs : ThreadId → Prog) (sched : List ThreadId) (a : AppId)
    (hs : ∀ e ∈ (run .perInstance (Machine.start progs) sched).log, e.acc.sharedOk) :
    (((run .perInstance (Machine.start progs) sched).log.filter (fun e => e.app = a)).map (·.res)) =
      (runOps .perInstance Heap.boot
        (((run .perInstance (Machine.start progs) sched).log.map Event.op).filter (fun op => op.app = a))).2 := by
  have hl : LogOk .perInstance Heap.boot (run .perInstance (Machine.start progs) sched) :=
    run_logOk _ _ _ _ (by simp [LogOk, Machine.start, Machine.on, runOps])
  rw [← multi_app_noninterference Heap.boot boot_owned _ _ a, readsOf_log]
  · rw [hl]
  · intro op hop
    simp only [List.mem_map] at hop
    obtain ⟨e, he, rfl⟩ := hop
    exact hs e he

/-- the same for the event-level schedules the driver replays -/
theorem multi_app_noninterference_events (progs : ThreadId → Prog) (evs : List WsgiConc.Ev) (a : AppId)
    (hs : ∀ e ∈ (WsgiConc.runEvents .perInstance (Machine.start progs) evs).1.log, e.acc.sharedOk) :
    (((WsgiConc.runEvents .perInstance (Machine.start progs) evs).1.log.filter (fun e => e.app = a)).map (·.res)) =
      (runOps .perInstance Heap.boot
        (((WsgiConc.runEvents .perInstance (Machine.start progs) evs).1.log.map Event.op).filter
          (fun op => op.app = a))).2 := by
  rw [WsgiConc.runEvents_eq_run] at hs ⊢
  exact multi_app_noninterference_machine progs _ a hs

/-- tie to the source: each instance keeps its store in its own `_ts_props` slot (whether attributes
or `HeaderDict._ts` are thread-local does not matter for this property: what is not thread-local is
a plain slot of its instance, hence of its application), the shared error objects carry no cookies,
exception or traceback, and a probe that made requests fail onto each of them left them unchanged -/
theorem ts_tables_as_modelled :
    Gen.tsRequestStoreName = "_ts_props" ∧ Gen.tsResponseStoreName = "_ts_props" ∧
    (∀ row ∈ Gen.tsErrorsMap, row.2.2.2.2.2 = true) ∧ Gen.tsErrorsMapReadOnly = true := by
  decide

/-- tie to the source: every plain (not thread-local) slot or module object that the probe saw
touched while serving was left unchanged or rewritten with equal content -/
theorem multi_app_shared_objects_read_only :
    ∀ x ∈ Gen.tsSharedTouched, x.2.2 = "read-only" ∨ x.2.2 = "idempotent" := by
  decide

section Witness
/-! ### what the theorem excludes: the decorator before commit 79b4118 (`tsPropsShared`)

Thread 0 constructs application 1, gives its request an environ with `PATH_INFO = /one`, then does
the same for application 2 with `/two`; then a handler of application 1 reads
`request.environ['PATH_INFO']`. -/

def witnessOps : List Op :=
  [⟨0, 1, .initHead .request⟩, ⟨0, 1, .initNone .request "environ"⟩,
   ⟨0, 1, .dNew 0 [("PATH_INFO", .str "/one")]⟩, ⟨0, 1, .fset .request "environ" (.reg 0)⟩,
   ⟨0, 2, .initHead .request⟩, ⟨0, 2, .initNone .request "environ"⟩,
   ⟨0, 2, .dNew 0 [("PATH_INFO", .str "/two")]⟩, ⟨0, 2, .fset .request "environ" (.reg 0)⟩,
   ⟨0, 1, .fget .request "environ" 1⟩, ⟨0, 1, .dOp 1 (.get "PATH_INFO")⟩]

/-- (these operations meet the hypothesis of the theorem: none writes a shared object) -/
example : ∀ op ∈ witnessOps, op.acc.sharedOk := by decide

/-- with the closure cell shared per class, application 1 reads application 2's path -/
example : (readsOf tsPropsShared 1 Heap.empty witnessOps).getLast? = some (.val (.str "/two")) := by
  decide

/-- deleting application 2's operations it reads its own: the pre-fix variant violates the statement -/
example : readsOf tsPropsShared 1 Heap.empty witnessOps ≠
    (runOps tsPropsShared Heap.empty (witnessOps.filter (fun op => op.app = 1))).2 := by
  decide

/-- the current decorator on the same operations -/
example : (readsOf .perInstance 1 Heap.empty witnessOps).getLast? = some (.val (.str "/one")) := by
  decide

/-! the hypothesis on shared objects is needed: if some code of application 2 wrote the shared
`errors_map` entry, application 1 would read the written value -/

def sharedWitness : List Op :=
  [⟨0, 2, .errSet "BodySizeError" "exception" (.val (.str "ValueError('secret of app 2')"))⟩,
   ⟨0, 1, .errGet "BodySizeError" "exception"⟩]

example : readsOf .perInstance 1 Heap.boot sharedWitness ≠
    (runOps .perInstance Heap.boot (sharedWitness.filter (fun op => op.app = 1))).2 := by
  decide

end Witness

section NonVacuity
open WsgiConc

/-- a handler of application 1 that calls application 2 in the middle (nested serve), as the driver
runs it -/
def nestedExample : List Item :=
  [.construct 1, .construct 2,
   .serve (.mk 1 [("PATH_INFO", .str "/a"), ("REQUEST_METHOD", .str "GET")] false [] [] []
     (.handler [.path, .nested (.mk 2 [("PATH_INFO", .str "/b"), ("REQUEST_METHOD", .str "GET")] false [] [] []
        (.handler [.path] (.ret "b"))), .path] (.ret "a")))]

/-- the hypothesis of the machine theorem holds for it: no step of the run writes a shared object -/
example : ∀ e ∈ (runEvents .perInstance (Machine.start fun t => if t = 0 then threadProg nestedExample else .done)
    [.finish 0]).1.log, e.acc.sharedOk := by
  decide +kernel

/-- two applications failing onto the same shared mapped error (`errors_map[BodySizeError]`), one
nested in the other: each gets the 413 page with its own URL -/
def mappedExample : List Item :=
  [.construct 1, .construct 2,
   .serve (.mk 1 [("PATH_INFO", .str "/a"), ("REQUEST_METHOD", .str "POST"), ("#url", .str "http://h/a")] false [] [] []
     (.handler [.nested (.mk 2 [("PATH_INFO", .str "/b"), ("REQUEST_METHOD", .str "POST"), ("#url", .str "http://h/b")]
        true [] [] [] (.handler [] (.failForm "BodySizeError")))] (.failForm "BodySizeError")))]

example :
    (((runEvents .perInstance (Machine.start fun t => if t = 0 then threadProg mappedExample else .done)
      [.finish 0]).1.threads 0).out.map (·.2))
      = ["w:413 Request Entity Too Large\nContent-Length: 74\nContent-Type: text/html; charset=UTF-8\n\n" ++
           "D(413 Request Entity Too Large|http://h/b|Request entity too large|None|~)",
         "w:413 Request Entity Too Large\nContent-Length: 67\nContent-Type: text/html; charset=UTF-8\n\n" ++
           "E(413 Request Entity Too Large|http://h/a|Request entity too large)"] := by
  decide +kernel

/-- the same arrangement with the pre-fix decorator: after the nested call the handler of
application 1 reads application 2's path (the reproduced defect #11, DESIGN.md section 7) -/
example :
    ((((runEvents tsPropsShared (Machine.start fun t => if t = 0 then threadProg nestedExample else .done)
      [.finish 0]).1.threads 0).out.map (·.2)).filter (·.startsWith "r:"))
      = ["r:s/a", "r:s/b", "r:s/b"] := by
  decide +kernel

end NonVacuity

end Ombott.TsProps

/-! ## Extension: the class / configuration machinery every application is built on

`Model/Config.lean` (`_MetaSimpleConfig`, `SimpleConfig`, `NameSpace`, `cached_property`, `proxy`, `MixableMeta`,
`DefaultConfig` / `RequestConfig`, `Ombott.__init__` / `setup` / `_hooks`, `BaseRequest.__new__` / `setup` / `copy`), tied
to the code by the `config` correspondence stream of `harness/configlib.py`.  Helper lemmas: `Lemmas/Config*.lean`.

Reading of C10 used here: the property speaks about SERVING, COPYING and CONSTRUCTING.  Those never write a
configuration object of another application (`setup_rebinds_only_own`, `get_from_new_object`, and serving / copying do not
write configuration at all: `serve_copy_leave_config`).  An application that edits its OWN config is not mentioned by
C10; what the model says about it is stated exactly: rebinding edits stay local (`get_from_fresh`), an in-place
mutation of a shared mutable default VALUE (`Gen.cfgMutableDefaults`) shows in every application
(`shared_default_in_place_visible`) - outside C10, reported as a note of the check. -/
namespace Ombott.Config
open Py

/-- **get_from_total_and_exact**: for every class, source mapping and kw, the NameSpace `get_from` returns has exactly
the keys `cls.keys()` lists (the holder's keys), in that order; each is bound to the source's value if the source has
the key, else kw's, else the class default found along the MRO; nothing else is bound (unknown keys of the source and
of kw are ignored). -/
theorem get_from_total_and_exact (cs : Classes) (h h' : Heap) (c : CClass) (src : Option (AList Val)) (kw : AList Val)
    (o : Nat) (hg : getFrom cs h c src kw = .ok (h', o)) :
    akeys (hget h' o) = classKeys cs c ∧
    (∀ k ∈ classKeys cs c, ∃ d, getattrC cs c k = some d ∧
      aget (hget h' o) k = some ((aget (src.getD []) k).getD ((aget kw k).getD d))) ∧
    (∀ k, k ∉ classKeys cs c → aget (hget h' o) k = none) := by
  unfold getFrom classItems at hg
  cases hi : itemsLoop cs c (classKeys cs c) with
  | error e => simp [hi] at hg
  | ok items =>
    simp only [hi, Except.ok.injEq] at hg
    obtain ⟨k1, k2⟩ := itemsLoop_spec cs c _ items hi
    have hh : hget h' o = pickValues items (src.getD []) kw := by
      have := hget_alloc_new h (pickValues items (src.getD []) kw)
      rw [hg] at this; exact this
    rw [hh]
    refine ⟨by rw [akeys_pickValues, k1], ?_, ?_⟩
    · intro k hk
      have hk2 := k2 k hk
      cases hd : getattrC cs c k with
      | none =>
        have : k ∈ akeys items := by rw [k1]; exact hk
        have hn : aget items k ≠ none := by
          intro hn
          simp only [akeys, List.mem_map] at this
          obtain ⟨p, hp, rfl⟩ := this
          clear hk hk2 hd k1 k2 hi hh hg
          induction items with
          | nil => simp at hp
          | cons q r ih =>
            by_cases hq : q.1 = p.1
            · simp [aget, hq] at hn
            · simp only [aget, hq, if_false] at hn
              rcases List.mem_cons.mp hp with rfl | hp'
              · exact hq rfl
              · exact ih hp' hn
        rw [hk2, hd] at hn; exact absurd rfl hn
      | some d =>
        refine ⟨d, rfl, ?_⟩
        rw [aget_pickValues, hk2, hd]; rfl
    · intro k hk
      apply aget_none_of_not_mem
      rw [akeys_pickValues, k1]; exact hk

/-- **get_from_new_object**: the NameSpace `get_from` returns is a NEW object - its identity is not that of any object
that existed before, and every existing object (every other configuration, every dict) is left exactly as it was. -/
theorem get_from_new_object (cs : Classes) (h h' : Heap) (c : CClass) (src : Option (AList Val)) (kw : AList Val)
    (o : Nat) (hg : getFrom cs h c src kw = .ok (h', o)) :
    o = h.length ∧ h'.length = h.length + 1 ∧ ∀ o' < h.length, hget h' o' = hget h o' :=
  getFrom_new cs h h' c src kw o hg

/-- **get_from_fresh**: for every world, every two applications `a`, `b` whose configuration objects are separate (what
`b` reads - its config, its request's config and the dicts they hold - contains neither NameSpace of `a`), EVERY sequence
of setattr / setitem / setdefault / update operations (with scalars or with new dicts, i.e. rebinding) on the config of
`a` or of its request leaves every configuration read of `b` unchanged.  The only channel left is in-place mutation of
a shared mutable default value (`shared_default_in_place_visible`). -/
theorem get_from_fresh (w : World) (a b : Nat) (x y : App) (ha : w.app a = some x) (hb : w.app b = some y)
    (hsep : ∀ o ∈ readSet w.heap y, o ≠ x.config ∧ o ≠ x.reqConfig ∧ o < w.heap.length)
    (ops : List Op) (hops : ∀ op ∈ ops, isEdit a op = true) :
    appView (exec w ops) b = appView w b :=
  edits_frame a b x y ops hops w ha hb hsep

/-- the separation hypothesis of `get_from_fresh` is what construction gives: after `Ombott(src)` for a new
application `a`, every application `b` that existed before (whose objects exist) is separate from `a`. -/
theorem ombott_init_separates (w w' : World) (a b : Nat) (src : Option (AList Val)) (y : App) (hab : b ≠ a)
    (hi : ombottInit w a src = .ok w') (hb : w.app b = some y)
    (hwf : ∀ o ∈ readSet w.heap y, o < w.heap.length) :
    ∃ x, w'.app a = some x ∧ w'.app b = some y ∧
      ∀ o ∈ readSet w'.heap y, o ≠ x.config ∧ o ≠ x.reqConfig ∧ o < w'.heap.length := by
  unfold ombottInit at hi
  cases hbc : buildConfigs w src with
  | error e => simp [hbc] at hi
  | ok t =>
    obtain ⟨h, c, r⟩ := t
    simp only [hbc, Except.ok.injEq] at hi
    obtain ⟨ec, er, hl, hold⟩ := buildConfigs_spec w src h c r hbc
    have hrs : readSet w'.heap y = readSet w.heap y := by
      have hc := hold _ (hwf y.config (by simp [readSet]))
      have hr := hold _ (hwf y.reqConfig (by simp [readSet]))
      rw [← hi]; simp [readSet, World.setApp, hc, hr]
    refine ⟨{ config := c, reqConfig := r }, by rw [← hi]; exact app_setApp_same _ _ _,
      by rw [← hi, app_setApp_ne _ _ _ _ hab]; exact hb, ?_⟩
    intro o ho
    rw [hrs] at ho
    have := hwf o ho
    have hl' : w'.heap.length = w.heap.length + 2 := by rw [← hi]; simpa [World.setApp] using hl
    exact ⟨by simp only; omega, by simp only; omega, by omega⟩

/-- **shared_default_in_place_visible** (model witness; outside C10): two applications built with the defaults;
application 1 mutates `app1.config.errors_map` IN PLACE - application 2 (and its request) read the entry: the default
value is one object shared by reference. -/
theorem shared_default_in_place_visible :
    let w := exec World.boot [.app 1 .none, .app 2 .none, .dictSet (.appConfig 1) "errors_map" "Teapot" (.int 418)]
    readDictEntry w (.appConfig 2) "errors_map" "Teapot" = some (.int 418) ∧
    readDictEntry w (.reqConfig 2) "errors_map" "Teapot" = some (.int 418) := by
  decide

/-- **shared_default_rebinding_local**: the same edit done by REBINDING (`app1.config.errors_map = {...}`) is not
visible in application 2, nor in application 1's own request (which got its own NameSpace). -/
theorem shared_default_rebinding_local :
    let w := exec World.boot [.app 1 .none, .app 2 .none, .nsSetDict (.appConfig 1) "errors_map" [("Teapot", .int 418)]]
    readDictEntry w (.appConfig 1) "errors_map" "Teapot" = some (.int 418) ∧
    readDictEntry w (.appConfig 2) "errors_map" "Teapot" = none ∧
    readDictEntry w (.reqConfig 2) "errors_map" "Teapot" = none ∧
    readDictEntry w (.reqConfig 1) "errors_map" "Teapot" = none := by
  decide

/-- tie to the source: the defaults that are shared by reference are exactly the generated `cfgMutableDefaults`
(extracted by type from the live classes): in the boot world a class attribute of DefaultConfig / RequestConfig is a
reference iff it is listed; the live probe saw each of them shared, the four config objects of two applications distinct
and `setup` rebinding only its own; `Ombott._hooks` is a `cached_property`. -/
theorem config_tables_as_modelled :
    (∀ c ∈ World.boot.classes, ∀ kv ∈ c.dict,
      (match kv.2 with | .ref _ => true | _ => false) = Gen.cfgMutableDefaults.contains (c.name, kv.1)) ∧
    (∀ r ∈ Gen.cfgSharedByRef, r.2 = true) ∧ Gen.cfgFreshProbe = (true, true) ∧ Gen.cfgHooksIsCached = true ∧
    ((findClass World.boot.classes "DefaultConfig").bind (·.holderAttr)) = some "DefaultConfig" ∧
    ((findClass World.boot.classes "RequestConfig").bind (·.keysAttr)) = none := by
  decide

/-- **setup_rebinds_only_own**: `Ombott.setup(cfg)` binds two NEW NameSpaces to the application's `config` and to its
request's `config` and changes nothing else: every other application, every register, every class and every object
that existed is as before; the application keeps its hooks. -/
theorem setup_rebinds_only_own (w w' : World) (a : Nat) (src : Option (AList Val)) (hs : ombottSetup w a src = .ok w') :
    (∀ b, b ≠ a → w'.app b = w.app b) ∧ w'.classes = w.classes ∧ w'.regs = w.regs ∧
    w'.heap.length = w.heap.length + 2 ∧ (∀ o < w.heap.length, hget w'.heap o = hget w.heap o) ∧
    ∃ x x', w.app a = some x ∧ w'.app a = some x' ∧ x'.hooks = x.hooks ∧
      x'.config = w.heap.length ∧ x'.reqConfig = w.heap.length + 1 := by
  unfold ombottSetup at hs
  cases hx : w.app a with
  | none => simp [hx] at hs
  | some x =>
    simp only [hx] at hs
    cases hbc : buildConfigs w src with
    | error e => simp [hbc] at hs
    | ok t =>
      obtain ⟨h, c, r⟩ := t
      simp only [hbc, Except.ok.injEq] at hs
      obtain ⟨ec, er, hl, hold⟩ := buildConfigs_spec w src h c r hbc
      subst hs
      exact ⟨fun b hb => app_setApp_ne _ _ _ _ hb, rfl, rfl, by simpa [World.setApp] using hl,
        fun o ho => by simpa [World.setApp] using hold o ho,
        x, _, rfl, app_setApp_same _ _ _, rfl, ec, er⟩

/-- serving a request and `Request.copy()` do not write any configuration: every application's view is unchanged
(`copy` only adds the copy's own new NameSpace) -/
theorem serve_copy_leave_config (w : World) (a b : Nat) (reg : Name) (y : App) (hb : w.app b = some y)
    (hwf : ∀ o ∈ readSet w.heap y, o < w.heap.length) :
    appView (step w (.serve a)).1 b = appView w b ∧ appView (step w (.copy a reg)).1 b = appView w b := by
  constructor
  · simp only [step]; split <;> rfl
  · simp only [step]
    cases hx : w.app a with
    | none => simp
    | some x =>
      simp only [Option.isNone_some, Bool.false_eq_true, if_false]
      unfold requestCopy
      cases hrc : findClass w.classes "RequestConfig" with
      | none => simp [hx, liftW]
      | some rc =>
        simp only [hx]
        cases h1 : getFrom w.classes w.heap rc (some (hget w.heap x.reqConfig)) [] with
        | error e => simp [liftW]
        | ok r1 =>
          obtain ⟨h1', o⟩ := r1
          obtain ⟨e1, l1, f1⟩ := getFrom_new _ _ _ _ _ _ _ h1
          simp only [liftW]
          exact (appView_frame w { w with heap := h1', regs := aset w.regs reg o } b y hb hb
            (fun o' ho' => f1 o' (hwf o' ho'))).1

/-- **meta_rejects_unknown_keys**: when the bases carry a (non-empty) key set, `_MetaSimpleConfig.__init__` accepts a
class body exactly when every key that does not start with `_` is one of the holder's keys, and the only error it raises
then is KeyError; a class whose body is refused is not created. -/
theorem meta_rejects_unknown_keys (cs : Classes) (bases keys : List Name) (dct : AList Val)
    (hk : metaGetKeys cs bases = .ok (some keys)) (hne : keys ≠ []) :
    (metaInit cs bases dct = .ok () ↔ ∀ k ∈ akeys dct, isPrivate k = true ∨ k ∈ keys) ∧
    (∀ e, metaInit cs bases dct = .error e → e = .keyError) ∧
    (∀ name cs', defineClass cs name bases dct = .ok cs' → ∀ k ∈ akeys dct, isPrivate k = true ∨ k ∈ keys) := by
  have hi : metaInit cs bases dct = metaCheckKeys keys (akeys dct) := by
    cases keys with
    | nil => exact absurd rfl hne
    | cons k r => simp [metaInit, hk]
  refine ⟨by rw [hi]; exact metaCheckKeys_ok _ _, fun e he => metaCheckKeys_err _ _ e (hi ▸ he), ?_⟩
  intro name cs' hd
  unfold defineClass at hd
  split at hd
  · simp at hd
  · split at hd
    · simp at hd
    · rename_i hm
      rw [hi] at hm
      exact (metaCheckKeys_ok _ _).mp hm

/-- **keys_holder registration facts**: a successful `cls.keys_holder(holder)` was called on a class whose base is
`object`, on a holder that had no registered holder along its MRO; it records as `__keys__` exactly what `holder.keys()`
listed, none of which is an attribute of `cls` (reserved names), sets `__keys_holder__` to the holder, and changes no
other class. -/
theorem keys_holder_registers (cs cs' : Classes) (clsN holderN : Name) (hk : keysHolder cs clsN holderN = .ok cs') :
    ∃ cls holder, findClass cs clsN = some cls ∧ findClass cs holderN = some holder ∧
      cls.bases = [] ∧ getHolderAttr cs holder = none ∧
      (∀ k ∈ classKeys cs holder, hasattrC cs cls k = false) ∧
      cs' = cs.map (fun c => if c.name == holderN then
        { c with keysAttr := some (classKeys cs holder), holderAttr := some holderN } else c) := by
  unfold keysHolder at hk
  cases hc : findClass cs clsN with
  | none => simp [hc] at hk
  | some cls =>
    cases hh : findClass cs holderN with
    | none => simp [hc, hh] at hk
    | some holder =>
      simp only [hc, hh] at hk
      refine ⟨cls, holder, rfl, rfl, ?_⟩
      split at hk
      · simp at hk
      split at hk
      · simp at hk
      rename_i hb
      split at hk
      · simp at hk
      rename_i hho
      split at hk
      · simp at hk
      split at hk
      · simp at hk
      rename_i hany
      simp only [Bool.not_eq_true, List.any_eq_false] at hany
      refine ⟨by simpa using hb, by simpa using hho, fun k hk' => by simpa using hany k hk', ?_⟩
      simpa using hk.symm

/-- **cached_property_once** (one access): the getter runs exactly when the instance has no attribute of that name;
with an attribute present the stored value is returned and nothing changes; after a successful run the value is stored;
an AttributeError raised inside the getter surfaces as PropertyGetterError, every other exception as itself. -/
theorem cached_property_once {α} (slot : Option α) (getter : Except CErr α) :
    (∀ sl v ran, cpGet slot getter = .ok (sl, v, ran) → ran = slot.isNone ∧ sl = some v ∧ (∀ u, slot = some u → v = u)) ∧
    (∀ e, cpGet slot getter = .error e → slot = none ∧
      ((getter = .error .attributeError ∧ e = .propertyGetterError) ∨ (getter = .error e ∧ e ≠ .attributeError))) := by
  cases slot with
  | some u => simp [cpGet]
  | none =>
    cases getter with
    | ok v => simp [cpGet]
    | error e => cases e <;> simp [cpGet]

/-- **cached_property_once** (every sequence of get / del / set on any number of instances): for every instance `i`,
which of its accesses ran the getter, and whether it holds the attribute afterwards, are what they are when all
operations on the other instances are deleted - instances do not share the cache. -/
theorem cached_property_per_instance (i : Nat) (ops : List CpOp) :
    ∀ s s' : CpState, (s.slot i).isSome = (s'.slot i).isSome →
      (cpTrace s ops).filter (fun e => e.1.touches i) = cpTrace s' (ops.filter (·.touches i)) ∧
      ((cpRun s ops).1.slot i).isSome = ((cpRun s' (ops.filter (·.touches i))).1.slot i).isSome := by
  induction ops with
  | nil => intro s s' h; simp [cpTrace, cpRun, h]
  | cons op r ih =>
    intro s s' h
    by_cases ht : op.touches i = true
    · obtain ⟨e1, e2⟩ := cpStep_same s s' op i ht h
      obtain ⟨i1, i2⟩ := ih (cpStep s op).1 (cpStep s' op).1 e2
      simp only [List.filter_cons, ht, if_true, cpTrace_cons, e1, i1]
      exact ⟨trivial, by simpa [cpRun] using i2⟩
    · have ht' : op.touches i = false := by simpa using ht
      have e := cpStep_other s op i ht'
      obtain ⟨i1, i2⟩ := ih (cpStep s op).1 s' (by rw [e]; exact h)
      simp only [List.filter_cons, ht', cpTrace_cons, i1]
      exact ⟨by simp, by simpa [cpRun] using i2⟩

/-- **hooks_per_app** (the C10 consequence of `cached_property_once`): `Ombott._hooks` is a `cached_property` whose
getter builds a new dict, so the first access of application `a` yields an object that is not the identity of ANY
existing object - in particular not the hook dict of any other application - and every later access yields that same
object; no other application's slot is touched. -/
theorem hooks_per_app (w w' : World) (a o : Nat) (h : hooksOf w a = .ok (w', o)) :
    ∃ x, w.app a = some x ∧
      ((x.hooks = some o ∧ w' = w) ∨
       (x.hooks = none ∧ o = w.heap.length ∧ (∀ b, b ≠ a → w'.app b = w.app b) ∧
        w'.app a = some { x with hooks := some o } ∧ ∀ o' < w.heap.length, hget w'.heap o' = hget w.heap o')) := by
  unfold hooksOf at h
  cases hx : w.app a with
  | none => simp [hx] at h
  | some x =>
    refine ⟨x, rfl, ?_⟩
    simp only [hx] at h
    cases hh : x.hooks with
    | some o' =>
      simp [hh, cpGet, alloc] at h
      exact Or.inl ⟨by rw [h.2], h.1.symm⟩
    | none =>
      simp [hh, cpGet, alloc] at h
      obtain ⟨rfl, rfl⟩ := h
      refine Or.inr ⟨rfl, rfl, fun b hb => app_setApp_ne _ _ _ _ hb, app_setApp_same _ _ _, fun o' ho' => ?_⟩
      simp [World.setApp, hget, List.getElem?_append_left ho']

/-- **proxy_forwards**: after `proxy(prop, attrs)` every injected name forwards to the attribute OF THE SAME NAME (the
default-argument trick: not to the last name of the loop) of whatever object `prop` holds AT CALL TIME; names that were
not injected keep the class's own definition. -/
theorem proxy_forwards (d : AList PAttr) (prop : Name) (attrs : List Name) (targets : Targets) (inst : AList Name)
    (a : Name) (x : String) :
    (a ∈ attrs → proxyCall (proxyInject d prop attrs) targets inst a x =
      proxyCall [(a, .forward prop a)] targets inst a x) ∧
    (a ∉ attrs → proxyCall (proxyInject d prop attrs) targets inst a x = proxyCall d targets inst a x) := by
  constructor
  · intro ha; simp [proxyCall, aget_proxyInject, ha, aget]
  · intro ha; simp [proxyCall, aget_proxyInject, ha]

/-- what forwarding means, spelled out: the call reaches method `a` of the object `prop` holds now -/
theorem proxy_forward_reaches (prop a t : Name) (targets : Targets) (inst : AList Name) (meths : List Name) (x : String)
    (hp : aget inst prop = some t) (ht : aget targets t = some meths) (hm : meths.contains a = true) :
    proxyCall [(a, .forward prop a)] targets inst a x = .ok (.target t a x) := by
  have hm' : a ∈ meths := by simpa using hm
  simp [proxyCall, aget, hp, ht, hm']

/-- **mixin_attrs_exact**: for EVERY list of mixins, the class dict `MixableMeta._mixin` produces binds a name to the
class's own definition when it has one, otherwise to the definition of the FIRST mixin (in base order) in which the
name is eligible (not one of that mixin's slots, not `on_new` / `on_init`, not a dunder name), otherwise not at all;
and `__mixins_special__` holds the mixins' `on_new` / `on_init` in mixin order. -/
theorem mixin_attrs_exact (cs : MClasses) (dct : MDct) (mixins : List MClass) :
    (∀ k, aget (mixin cs dct mixins).attrs k = (aget dct.attrs k).orElse fun _ => firstMixin cs mixins k) ∧
    (mixin cs dct mixins).special = some (specialsOf cs "on_new" mixins, specialsOf cs "on_init" mixins) := by
  unfold mixin
  refine ⟨fun k => ?_, ?_⟩
  · simpa using foldMixins_attrs cs mixins k
      { attrs := dct.attrs, slots := dct.slots.getD [], onNew := [], onInit := [] }
  · obtain ⟨a, b⟩ := foldMixins_specials cs mixins
      { attrs := dct.attrs, slots := dct.slots.getD [], onNew := [], onInit := [] }
    simp [a, b]

/-- the wrappers `MixableMeta.__init__` installs call what they wrapped FIRST and then every collected special in order
(`on_new` after the class's own `__new__`, `on_init` after its own `__init__`) -/
theorem specials_called_in_order (cs : MClasses) (c : MClass) (inner : Callable) (ns is : List String)
    (hs : specialOf cs c = some (ns, is)) :
    (∀ t, runNew cs c inner = .ok t → runNew cs c (.wrapper inner) = .ok (t ++ ns.map ("on_new:" ++ ·))) ∧
    (∀ t, runInit cs c inner = .ok t → runInit cs c (.wrapper inner) = .ok (t ++ is.map ("on_init:" ++ ·))) := by
  constructor <;> intro t ht <;> simp [runNew, runInit, ht, hs]

section NonVacuity

/-- `get_from_total_and_exact` / `get_from_new_object`: `DefaultConfig.get_from({'debug': True, 'zz': 1}, catchall=0)`
in the boot world succeeds -/
example : ((findClass World.boot.classes "DefaultConfig").bind fun c =>
    (getFrom World.boot.classes World.boot.heap c (some [("debug", .bool true), ("zz", .int 1)]) [("catchall", .int 0)]).toOption).isSome
      = true := by
  decide

/-- `get_from_fresh` / `ombott_init_separates` / `serve_copy_leave_config`: two applications constructed in the boot
world are separate in both directions, and the edits are edits -/
example :
    let w := exec World.boot [.app 1 .none, .app 2 (.lit [("debug", .bool true)])]
    let x : App := { config := 3, reqConfig := 4 }
    let y : App := { config := 5, reqConfig := 6 }
    w.app 1 = some x ∧ w.app 2 = some y ∧
      (∀ o ∈ readSet w.heap y, o ≠ x.config ∧ o ≠ x.reqConfig ∧ o < w.heap.length) ∧
      (∀ o ∈ readSet w.heap x, o ≠ y.config ∧ o ≠ y.reqConfig ∧ o < w.heap.length) ∧
      (∀ op ∈ [Op.nsSet (.appConfig 1) "debug" (.int 1), .nsSetDict (.reqConfig 1) "errors_map" [], .nsUpdate (.appConfig 1) []],
        isEdit 1 op = true) := by
  decide

/-- `setup_rebinds_only_own`: `app1.setup({'debug': True})` succeeds in a world with two applications -/
example : (ombottSetup (exec World.boot [.app 1 .none, .app 2 .none]) 1 (some [("debug", .bool true)])).toOption.isSome = true := by
  decide

/-- `meta_rejects_unknown_keys`: the bases `(DefaultConfig,)` carry a non-empty key set; a body with `zzz` is refused
with KeyError, a body with `debug` and `_private` is accepted -/
example : (match metaGetKeys World.boot.classes ["DefaultConfig"] with | .ok (some keys) => !keys.isEmpty | _ => false) = true ∧
    errOf (metaInit World.boot.classes ["DefaultConfig"] [("zzz", .int 1)]) = some .keyError ∧
    (metaInit World.boot.classes ["DefaultConfig"] [("debug", .bool true), ("_private", .int 1)]).toOption = some () := by
  decide

/-- `keys_holder_registers`: registering a new holder succeeds; registering `DefaultConfig` again is RuntimeError, through
a subclass AssertionError, a reserved key KeyError -/
example :
    let cs := (defineClass World.boot.classes "H" ["SimpleConfig"] [("a", .int 1)]).toOption.getD []
    (keysHolder cs "SimpleConfig" "H").toOption.isSome = true ∧
    errOf (keysHolder cs "SimpleConfig" "DefaultConfig") = some .runtimeError ∧
    errOf (keysHolder cs "DefaultConfig" "H") = some .assertionError ∧
    errOf (keysHolder ((defineClass cs "R" ["SimpleConfig"] [("mro", .int 1)]).toOption.getD []) "SimpleConfig" "R")
      = some .keyError := by
  decide

/-- `hooks_per_app`: two applications, each adds a hook: the lists are separate -/
example :
    let w := exec World.boot [.app 1 .none, .app 2 .none, .addHook 1 "before_request" "f", .addHook 2 "after_request" "g"]
    (hooksListing w 1).toOption.map (·.2) = some [("before_request", .list ["f"]), ("after_request", .list [])] ∧
    (hooksListing w 2).toOption.map (·.2) = some [("before_request", .list []), ("after_request", .list ["g"])] := by
  decide

/-- `proxy_forwards` on the generated `HeaderDict` proxy list: every injected name reaches the same-named method of the
current `dict`; without the default-argument trick all would reach the last one -/
example : ∀ a ∈ Gen.cfgHeaderDictProxied,
    (proxyCall (proxyInject [] "dict" Gen.cfgHeaderDictProxied) [("D", Gen.cfgHeaderDictProxied)] [("dict", "D")] a "1").toOption =
      some (.target "D" a "1") := by
  decide

/-- `cached_property_once` / `cached_property_per_instance`: a sequence on two instances; the getter ran three times -/
example : (cpTrace {} [.get 1 .ok, .get 2 .ok, .get 1 .ok, .del 1, .get 1 .ok, .set 2 (.int 9), .get 2 .ok]).map (·.2) =
    [true, true, false, false, true, false, false] := by
  decide

/-- `mixin_attrs_exact` / `specials_called_in_order`: two mixins, the first with a slot; own `y` wins over `M2.y`, `M1.x`
over `M2.x`, the slot `s` and the dunder name are not copied, the specials are collected in order and called -/
example :
    let m1 : MClass := { name := "M1", bases := [], mro := ["M1"], slots := some ["s"],
                         attrs := [("x", "M1.x"), ("s", "M1.s"), ("on_init", "M1.on_init")] }
    let m2 : MClass := { name := "M2", bases := [], mro := ["M2"],
                         attrs := [("x", "M2.x"), ("y", "M2.y"), ("on_init", "M2.on_init"), ("__d__", "M2.__d__")] }
    let r := mixin [m1, m2] { attrs := [("y", "A.y")] } [m1, m2]
    r.attrs = [("y", "A.y"), ("x", "M1.x")] ∧ r.special = some ([], ["M1.on_init", "M2.on_init"]) ∧ r.slots = some ["s"] := by
  decide

end NonVacuity

end Ombott.Config
