import OmbottModel.Model.WsgiConc
import OmbottModel.Lemmas.TsPropsMachine
import OmbottModel.Lemmas.WsgiConcRun
/-!
C10 — Application objects in one process are independent of each other.
Property theorems only; helper lemmas live in `Lemmas/TsProps*.lean`, `Lemmas/WsgiConcRun.lean`.

An operation is `(thread, application, atomic step)`.  A sequence of operations is at once an
interleaving of any number of threads (the sequence is the global order, every element carries its
thread), a nesting (the steps of `B.__call__` sit between two steps of a handler of `A`, on the same
thread), `Request.copy()` (`newCopy`, `initHead (.copy n)` …) and the construction of further
applications (`initHead .request` … of a fresh application id).
-/
namespace Ombott.TsProps
open Py

/-- **C10** (every set of applications, every operation sequence incl. copy / construct / nested,
on one thread or on several, from any start heap in which dict references stay inside their
application — `Heap.boot` after import, or anything reached later): what the operations of
application `a` read and are answered is what they are answered when all operations of the other
applications are deleted.  The only hypothesis: no operation writes one of the objects shared by all
applications (the `HTTPError`s of `errors_map`); reads of them are covered. -/
theorem multi_app_noninterference (h0 : Heap) (ho : Own ownA h0) (ops : List Op)
    (hs : ∀ op ∈ ops, op.acc.sharedOk) (a : AppId) :
    readsOf .perInstance a h0 ops =
      (runOps .perInstance h0 (ops.filter (fun op => op.app = a))).2 :=
  readsOf_eq_filtered a ops hs h0 h0 (Agree.refl _) ho ho

/-- process start (`import ombott` done, nothing constructed) is such a heap -/
theorem boot_owned : Own ownA Heap.boot :=
  ⟨fun _ _ _ _ h => by simp [Heap.boot, Heap.empty] at h, fun _ _ _ _ h => by simp [Heap.boot, Heap.empty] at h,
   fun _ _ _ h => by simp [Heap.boot, Heap.empty] at h, fun _ _ _ _ h => by simp [Heap.boot, Heap.empty] at h⟩

/-- **C10 for adaptive programs** (the programs the driver runs: served requests whose handlers may
call other applications, copy their request, construct applications, fail onto a shared mapped
error): for every assignment of programs to threads and every interleaving, the results of the
steps made in application `a`, as logged, are what replaying only those steps from process start
gives — provided the run wrote no shared error object (decidable on the log; the programs of
`Model/WsgiConc.lean` contain no such step). -/
theorem multi_app_noninterference_machine (progs : ThreadId → Prog) (sched : List ThreadId) (a : AppId)
    (hs : ∀ e ∈ (run .perInstance (Machine.start progs) sched).log, e.acc.sharedOk) :
    (((run .perInstance (Machine.start progs) sched).log.filter (fun e => e.app = a)).map (·.res)) =
      (runOps .perInstance Heap.boot
        (((run .perInstance (Machine.start progs) sched).log.map Event.op).filter (fun op => op.app = a))).2 := by
  have hl : LogOk .perInstance Heap.boot (run .perInstance (Machine.start progs) sched) :=
    run_logOk _ _ _ _ (by simp [LogOk, Machine.start, Machine.on, runOps])
  rw [← multi_app_noninterference Heap.boot boot_owned _ _ a, readsOf_log]
  · rw [hl]
  · intro op hop
    simp only [List.mem_map] at hop
    obtain ⟨e, he, rfl⟩ := hop
    exact hs e he

/-- the same for the event-level schedules the driver replays -/
theorem multi_app_noninterference_events (progs : ThreadId → Prog) (evs : List WsgiConc.Ev) (a : AppId)
    (hs : ∀ e ∈ (WsgiConc.runEvents .perInstance (Machine.start progs) evs).1.log, e.acc.sharedOk) :
    (((WsgiConc.runEvents .perInstance (Machine.start progs) evs).1.log.filter (fun e => e.app = a)).map (·.res)) =
      (runOps .perInstance Heap.boot
        (((WsgiConc.runEvents .perInstance (Machine.start progs) evs).1.log.map Event.op).filter
          (fun op => op.app = a))).2 := by
  rw [WsgiConc.runEvents_eq_run] at hs ⊢
  exact multi_app_noninterference_machine progs _ a hs

/-- tie to the source: each instance keeps its store in its own `_ts_props` slot (whether attributes
or `HeaderDict._ts` are thread-local does not matter for this property: what is not thread-local is
a plain slot of its instance, hence of its application), the shared error objects carry no cookies,
exception or traceback, and a probe that made requests fail onto each of them left them unchanged -/
theorem ts_tables_as_modelled :
    Gen.tsRequestStoreName = "_ts_props" ∧ Gen.tsResponseStoreName = "_ts_props" ∧
    (∀ row ∈ Gen.tsErrorsMap, row.2.2.2.2.2 = true) ∧ Gen.tsErrorsMapReadOnly = true := by
  decide

/-- tie to the source: every plain (not thread-local) slot or module object that the probe saw
touched while serving was left unchanged or rewritten with equal content -/
theorem multi_app_shared_objects_read_only :
    ∀ x ∈ Gen.tsSharedTouched, x.2.2 = "read-only" ∨ x.2.2 = "idempotent" := by
  decide

section Witness
/-! ### what the theorem excludes: the decorator before commit 79b4118 (`tsPropsShared`)

Thread 0 constructs application 1, gives its request an environ with `PATH_INFO = /one`, then does
the same for application 2 with `/two`; then a handler of application 1 reads
`request.environ['PATH_INFO']`. -/

def witnessOps : List Op :=
  [⟨0, 1, .initHead .request⟩, ⟨0, 1, .initNone .request "environ"⟩,
   ⟨0, 1, .dNew 0 [("PATH_INFO", .str "/one")]⟩, ⟨0, 1, .fset .request "environ" (.reg 0)⟩,
   ⟨0, 2, .initHead .request⟩, ⟨0, 2, .initNone .request "environ"⟩,
   ⟨0, 2, .dNew 0 [("PATH_INFO", .str "/two")]⟩, ⟨0, 2, .fset .request "environ" (.reg 0)⟩,
   ⟨0, 1, .fget .request "environ" 1⟩, ⟨0, 1, .dOp 1 (.get "PATH_INFO")⟩]

/-- (these operations meet the hypothesis of the theorem: none writes a shared object) -/
example : ∀ op ∈ witnessOps, op.acc.sharedOk := by decide

/-- with the closure cell shared per class, application 1 reads application 2's path -/
example : (readsOf tsPropsShared 1 Heap.empty witnessOps).getLast? = some (.val (.str "/two")) := by
  decide

/-- deleting application 2's operations it reads its own: the pre-fix variant violates the statement -/
example : readsOf tsPropsShared 1 Heap.empty witnessOps ≠
    (runOps tsPropsShared Heap.empty (witnessOps.filter (fun op => op.app = 1))).2 := by
  decide

/-- the current decorator on the same operations -/
example : (readsOf .perInstance 1 Heap.empty witnessOps).getLast? = some (.val (.str "/one")) := by
  decide

/-! the hypothesis on shared objects is needed: if some code of application 2 wrote the shared
`errors_map` entry, application 1 would read the written value -/

def sharedWitness : List Op :=
  [⟨0, 2, .errSet "BodySizeError" "exception" (.val (.str "ValueError('secret of app 2')"))⟩,
   ⟨0, 1, .errGet "BodySizeError" "exception"⟩]

example : readsOf .perInstance 1 Heap.boot sharedWitness ≠
    (runOps .perInstance Heap.boot (sharedWitness.filter (fun op => op.app = 1))).2 := by
  decide

end Witness

section NonVacuity
open WsgiConc

/-- a handler of application 1 that calls application 2 in the middle (nested serve), as the driver
runs it -/
def nestedExample : List Item :=
  [.construct 1, .construct 2,
   .serve (.mk 1 [("PATH_INFO", .str "/a"), ("REQUEST_METHOD", .str "GET")] false [] [] []
     (.handler [.path, .nested (.mk 2 [("PATH_INFO", .str "/b"), ("REQUEST_METHOD", .str "GET")] false [] [] []
        (.handler [.path] (.ret "b"))), .path] (.ret "a")))]

/-- the hypothesis of the machine theorem holds for it: no step of the run writes a shared object -/
example : ∀ e ∈ (runEvents .perInstance (Machine.start fun t => if t = 0 then threadProg nestedExample else .done)
    [.finish 0]).1.log, e.acc.sharedOk := by
  decide +kernel

/-- two applications failing onto the same shared mapped error (`errors_map[BodySizeError]`), one
nested in the other: each gets the 413 page with its own URL -/
def mappedExample : List Item :=
  [.construct 1, .construct 2,
   .serve (.mk 1 [("PATH_INFO", .str "/a"), ("REQUEST_METHOD", .str "POST"), ("#url", .str "http://h/a")] false [] [] []
     (.handler [.nested (.mk 2 [("PATH_INFO", .str "/b"), ("REQUEST_METHOD", .str "POST"), ("#url", .str "http://h/b")]
        true [] [] [] (.handler [] (.failForm "BodySizeError")))] (.failForm "BodySizeError")))]

example :
    (((runEvents .perInstance (Machine.start fun t => if t = 0 then threadProg mappedExample else .done)
      [.finish 0]).1.threads 0).out.map (·.2))
      = ["w:413 Request Entity Too Large\nContent-Length: 74\nContent-Type: text/html; charset=UTF-8\n\n" ++
           "D(413 Request Entity Too Large|http://h/b|Request entity too large|None|~)",
         "w:413 Request Entity Too Large\nContent-Length: 67\nContent-Type: text/html; charset=UTF-8\n\n" ++
           "E(413 Request Entity Too Large|http://h/a|Request entity too large)"] := by
  decide +kernel

/-- the same arrangement with the pre-fix decorator: after the nested call the handler of
application 1 reads application 2's path (the reproduced defect #11, DESIGN.md section 7) -/
example :
    ((((runEvents tsPropsShared (Machine.start fun t => if t = 0 then threadProg nestedExample else .done)
      [.finish 0]).1.threads 0).out.map (·.2)).filter (·.startsWith "r:"))
      = ["r:s/a", "r:s/b", "r:s/b"] := by
  decide +kernel

end NonVacuity

end Ombott.TsProps
