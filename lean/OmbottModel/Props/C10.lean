import OmbottModel.Model.WsgiConc
import OmbottModel.Lemmas.TsPropsMachine
import OmbottModel.Lemmas.WsgiConcRun
/-!
C10 — Application objects in one process are independent of each other.
Property theorems only; helper lemmas live in `Lemmas/TsProps*.lean`, `Lemmas/WsgiConcRun.lean`.

An operation is `(thread, application, atomic step)`.  A sequence of operations is at once an
interleaving of any number of threads (the sequence is the global order, every element carries its
thread), a nesting (the steps of `B.__call__` sit between two steps of a handler of `A`, on the same
thread), `Request.copy()` (`newCopy`, `initHead (.copy n)` …) and the construction of further
applications (`initHead .request` … of a fresh application id).
-/
namespace Ombott.TsProps
open Py

/-- **C10** (every set of applications, every operation sequence incl. copy / construct / nested,
on one thread or on several): what the operations of application `a` read and are answered is what
they are answered when all operations of the other applications are deleted. -/
theorem multi_app_noninterference (ops : List Op) (a : AppId) :
    readsOf .perInstance a Heap.empty ops =
      (runOps .perInstance Heap.empty (ops.filter (fun op => op.app = a))).2 :=
  readsOf_eq_filtered a ops Heap.empty Heap.empty (Agree.refl _) (Own.empty _) (Own.empty _)

/-- **C10 for adaptive programs** (the programs the driver runs: served requests whose handlers may
call other applications, copy their request, construct applications): for every assignment of
programs to threads and every interleaving, the results of the steps made in application `a`, as
logged, are what replaying only those steps from process start gives. -/
theorem multi_app_noninterference_machine (progs : ThreadId → Prog) (sched : List ThreadId) (a : AppId) :
    (((run .perInstance (Machine.start progs) sched).log.filter (fun e => e.app = a)).map (·.res)) =
      (runOps .perInstance Heap.empty
        (((run .perInstance (Machine.start progs) sched).log.map Event.op).filter (fun op => op.app = a))).2 := by
  have hl : LogOk .perInstance Heap.empty (run .perInstance (Machine.start progs) sched) :=
    run_logOk _ _ _ _ (by simp [LogOk, Machine.start, Machine.on, runOps])
  rw [← multi_app_noninterference, readsOf_log]
  rw [hl]

/-- the same for the event-level schedules the driver replays -/
theorem multi_app_noninterference_events (progs : ThreadId → Prog) (evs : List WsgiConc.Ev) (a : AppId) :
    (((WsgiConc.runEvents .perInstance (Machine.start progs) evs).1.log.filter (fun e => e.app = a)).map (·.res)) =
      (runOps .perInstance Heap.empty
        (((WsgiConc.runEvents .perInstance (Machine.start progs) evs).1.log.map Event.op).filter
          (fun op => op.app = a))).2 := by
  rw [WsgiConc.runEvents_eq_run]
  exact multi_app_noninterference_machine progs _ a

/-- tie to the source: the generated table still says that the stores and `HeaderDict._ts` are
`threading.local` objects and that the decorated attribute lists are the ones the model's
`Request.__init__` / `Response.__init__` assign -/
theorem ts_tables_as_modelled :
    Gen.requestTsProps = ["environ", "_env_get"] ∧
    Gen.responseTsProps = ["_status_line", "_status_code", "_headers", "_cookies", "body"] ∧
    Gen.headerDictTsThreadLocal = true ∧ Gen.storesAreThreadLocal = true ∧
    Gen.requestStoreName = "_ts_props" ∧ Gen.responseStoreName = "_ts_props" := by
  decide

/-- tie to the source: every plain (not thread-local) slot or module object that the probe saw
touched while serving was left unchanged or rewritten with equal content -/
theorem multi_app_shared_objects_read_only :
    ∀ x ∈ Gen.sharedTouched, x.2.2 = "read-only" ∨ x.2.2 = "idempotent" := by
  decide

section Witness
/-! ### what the theorem excludes: the decorator before commit 79b4118 (`tsPropsShared`)

Thread 0 constructs application 1, gives its request an environ with `PATH_INFO = /one`, then does
the same for application 2 with `/two`; then a handler of application 1 reads
`request.environ['PATH_INFO']`. -/

def witnessOps : List Op :=
  [⟨0, 1, .initHead .request⟩, ⟨0, 1, .initNone .request "environ"⟩,
   ⟨0, 1, .dNew 0 [("PATH_INFO", .str "/one")]⟩, ⟨0, 1, .fset .request "environ" (.reg 0)⟩,
   ⟨0, 2, .initHead .request⟩, ⟨0, 2, .initNone .request "environ"⟩,
   ⟨0, 2, .dNew 0 [("PATH_INFO", .str "/two")]⟩, ⟨0, 2, .fset .request "environ" (.reg 0)⟩,
   ⟨0, 1, .fget .request "environ" 1⟩, ⟨0, 1, .dOp 1 (.get "PATH_INFO")⟩]

/-- with the closure cell shared per class, application 1 reads application 2's path -/
example : (readsOf tsPropsShared 1 Heap.empty witnessOps).getLast? = some (.val (.str "/two")) := by
  decide

/-- deleting application 2's operations it reads its own: the pre-fix variant violates the statement -/
example : readsOf tsPropsShared 1 Heap.empty witnessOps ≠
    (runOps tsPropsShared Heap.empty (witnessOps.filter (fun op => op.app = 1))).2 := by
  decide

/-- the current decorator on the same operations -/
example : (readsOf .perInstance 1 Heap.empty witnessOps).getLast? = some (.val (.str "/one")) := by
  decide

end Witness

section NonVacuity
open WsgiConc

/-- a handler of application 1 that calls application 2 in the middle (nested serve), as the driver
runs it -/
def nestedExample : List Item :=
  [.construct 1, .construct 2,
   .serve (.mk 1 [("PATH_INFO", .str "/a"), ("REQUEST_METHOD", .str "GET")]
     (.handler [.path, .nested (.mk 2 [("PATH_INFO", .str "/b"), ("REQUEST_METHOD", .str "GET")]
        (.handler [.path] (.ret "b"))), .path] (.ret "a")))]

/-- the run is not trivial: application 1's handler reads `/a` before and after the nested call -/
example :
    ((((runEvents .perInstance (Machine.start fun t => if t = 0 then threadProg nestedExample else .done)
      [.finish 0]).1.threads 0).out.map (·.2)).filter (·.startsWith "r:"))
      = ["r:s/a", "r:s/b", "r:s/a"] := by
  decide +kernel

/-- the same arrangement with the pre-fix decorator: after the nested call the handler of
application 1 reads application 2's path (the reproduced defect #11, DESIGN.md section 7) -/
example :
    ((((runEvents tsPropsShared (Machine.start fun t => if t = 0 then threadProg nestedExample else .done)
      [.finish 0]).1.threads 0).out.map (·.2)).filter (·.startsWith "r:"))
      = ["r:s/a", "r:s/b", "r:s/b"] := by
  decide +kernel

end NonVacuity

end Ombott.TsProps
