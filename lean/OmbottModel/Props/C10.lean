import OmbottModel.Model.WsgiConc
import OmbottModel.Lemmas.TsProps
/-!
C10 — Application objects in one process are independent of each other.
Property theorems only; helper lemmas live in `Lemmas/TsProps.lean`.
-/
namespace Ombott.TsProps
open Py

/-- tie to the source: every attribute the serving code and the handlers touch on `app.request`
is in the generated thread-local list of `Request`, and likewise for `app.response` -/
theorem served_attrs_thread_local :
    (∀ k ∈ ["environ", "_env_get"], k ∈ propsOf .request) ∧
    (∀ k ∈ ["_status_line", "_status_code", "_headers", "_cookies", "body"], k ∈ propsOf .response) ∧
    Gen.headerDictTsThreadLocal = true ∧ Gen.storesAreThreadLocal = true := by
  decide

end Ombott.TsProps
