import OmbottModel.Model.ErrorPageSpec
import OmbottModel.Lemmas.ErrorPageServe
import OmbottModel.Lemmas.ErrorPageShown
import OmbottModel.Lemmas.AppErrorPage
/-!
C20 — Framework error pages never reflect request data unescaped.
Property theorems only; helper lemmas live in `Lemmas/ErrorPage*.lean`, the notions used in the
statements (`Inert`, `Tokenized`, `entities`, `urlCell`, `frameworkPages`) in
`Model/ErrorPageSpec.lean`.

Reading guide: "request-controlled text cannot inject markup" is stated as a decomposition
  page = pre ++ cell(request text) ++ post
where `pre`/`post` are chosen *before* the request text is (so they cannot depend on it) and
the cell is `Inert`: it contains none of `< > " '`, and every `&` in it starts a character
reference.  All theorems are for every `str.isprintable` (`pr`).
-/
namespace Ombott.ErrorPage
open Py

/-! ### obligations on the generated tables (re-checked whenever the source changes them) -/

/-- the generated replacement tables of both escapers cover all five special characters and
map them to character references only -/
theorem escape_tables_ok :
    PairsOK Gen.pageEscapePairs = true ∧ PairsOK Gen.helperEscapePairs = true := by
  constructor <;> decide +kernel

/-- the generated `error.html` lines format without any `str.format` construct outside the
model, and their replacement fields are `e.status`, `e.body`, `exception`, `traceback` plus
exactly one `{url}`: the template's only request-derived hole -/
theorem template_ok : templateOK Gen.errorTemplateLines = true := by decide +kernel

/-- the model's `str.format` reader finds in the template exactly the fields Python's
`string.Formatter.parse` reports (generated from the live module) -/
theorem template_fields_agree :
    templateFieldNames Gen.errorTemplateLines = some Gen.errorTemplateFields := by decide +kernel

/-- every replacement of both tables is a character reference an HTML parser decodes back to
the replaced character -/
theorem escape_tables_decode :
    PairsDecode Gen.pageEscapePairs = true ∧ PairsDecode Gen.helperEscapePairs = true := by
  constructor <;> decide +kernel

/-- no byte that `urlquote` passes through unquoted is a special character -/
theorem quote_table_ok : QuoteTableOK = true := by decide +kernel

/-- every `errors_map` entry answers with a status that carries a body and a Content-Type -/
theorem errors_map_ok : errorsMapOK = true := by decide +kernel

/-! ### the escapers and repr -/

/-- `escape_no_markup`: for every string `s`, the output of `html.escape` (as `render` uses it)
and of `html_escape` (as the last-resort page uses it) contains none of `< > " '`, and every
`&` in it starts one of the character references -/
theorem escape_no_markup (s : Str) : Inert (pageEscape s) ∧ Inert (helperEscape s) :=
  ⟨(escapeWith_tokenized _ escape_tables_ok.1 s).inert, (escapeWith_tokenized _ escape_tables_ok.2 s).inert⟩

/-- escaping loses nothing and adds nothing: a strict HTML parser reads the escaped text as
pure character data (no tag starts, every `&` is a reference) and the data is `s` itself -/
theorem escape_reads_back (s : Str) :
    htmlText (pageEscape s) = some s ∧ htmlText (helperEscape s) = some s :=
  ⟨htmlText_escapeWith _ escape_tables_ok.1 escape_tables_decode.1 s,
   htmlText_escapeWith _ escape_tables_ok.2 escape_tables_decode.2 s⟩

/-- path text enters `Request.url` only percent-quoted: `urlquote` outputs no special
character at all, whatever the path -/
theorem urlquote_no_special (s : Str) : ∀ c ∈ urlquote s, c ∉ special :=
  urlquote_safe quote_table_ok s

/-- `Request.url` can fail only where the library's `urljoin` does (an authority part it
rejects); everything else of the URL assembly is total.  So the only request-made way to the
last-resort page through the URL is the library's `ValueError`. -/
theorem request_url_error_only_from_urljoin (env : UrlEnv) (pathInfo : Str) (e : Err)
    (h : requestUrl env pathInfo = .error e) : env.joinLib = .error e := by
  unfold requestUrl at h
  simp only at h
  split at h
  · rename_i e' hf
    cases h
    unfold fullpathOf urljoinPath at hf
    simp only at hf
    repeat' split at hf
    all_goals first
      | exact hf
      | cases hf
  · cases h

/-- `repr_preserves`, general half: whatever the string and the quote `repr` picks, a `<`, `>`
or `&` in `repr(s)` is a character of `s` itself: `repr` introduces none -/
theorem repr_introduces_none (pr : Char → Bool) (s : Str) (x : Char) (hx : x ∈ pyRepr pr s)
    (hm : x = '<' ∨ x = '>' ∨ x = '&') : x ∈ s := by
  unfold pyRepr at hx
  simp only [List.mem_cons, List.mem_append, List.mem_flatMap, List.not_mem_nil, or_false] at hx
  have hq : ∀ y, y = reprQuote s → ¬ (y = '<' ∨ y = '>' ∨ y = '&') := by
    intro y hy
    subst hy
    unfold reprQuote
    split <;> decide
  rcases hx with (h | ⟨c, hc, hxc⟩) | h
  · exact absurd hm (hq x h)
  · rcases reprChar_mem pr _ c x hxc with rfl | hns
    · exact hc
    · exfalso
      apply hns
      rcases hm with rfl | rfl | rfl <;> decide
  · exact absurd hm (hq x h)

/-- `repr_preserves`, as the page uses it: `repr` of escaped text is that text between single
quotes with backslash escapes, and what is between the quotes is still inert (entities survive
unchanged, no special character appears) -/
theorem repr_preserves (pr : Char → Bool) (s : Str) :
    pyRepr pr (pageEscape s) = '\'' :: urlCell pr s ++ ['\''] ∧ Inert (urlCell pr s) :=
  ⟨pyRepr_of_tokenized pr (escapeWith_tokenized _ escape_tables_ok.1 s),
   (urlCell_tokenized pr escape_tables_ok.1 s).inert⟩

/-! ### the rendered page -/

/-- `page_url_inert`: with debug off, the page `render` produces for an error object is
`pre ++ cell ++ post` where `pre` and `post` are fixed before the URL is chosen (template text
and the status line / body text of the error object) and the cell is the inert `urlCell`: every
occurrence of URL text lies inside the image of `escape` (then `repr`).  Never an exception. -/
theorem page_url_inert (pr : Char → Bool) (e : ErrResp) :
    ∃ pre post : Str, ∀ url : Str,
      render pr Gen.errorTemplateLines e url false = .ok (pre ++ urlCell pr url ++ post) ∧
      Inert (urlCell pr url) :=
  ⟨pagePre Gen.errorTemplateLines (e.status, strOpt e.body), pagePost Gen.errorTemplateLines (e.status, strOpt e.body),
   fun url => ⟨render_nodebug pr _ template_ok escape_tables_ok.1 e url,
               (urlCell_tokenized pr escape_tables_ok.1 url).inert⟩⟩

/-- what the URL cell means to a browser: a strict HTML data reader sees no tag start in it and
reads it as the URL itself, with `repr`'s backslash escapes on the non-special characters -/
theorem page_url_shows_url (pr : Char → Bool) (url : Str) :
    htmlText (urlCell pr url) = some (shownUrl pr url) :=
  htmlData_urlCell pr escape_tables_ok.1 escape_tables_decode.1 url

/-- `critical_page_inert`: the last-resort page (debug off) is two constants around the escaped
`PATH_INFO`, whatever bytes the path consists of -/
theorem critical_page_inert (rawPath : Bytes) (dbg : Str × Str) :
    criticalPage rawPath false dbg = criticalPrefix ++ helperEscape (shownPath rawPath) ++ criticalSuffix ∧
    Inert (helperEscape (shownPath rawPath)) :=
  ⟨rfl, (escape_no_markup _).2⟩

/-- the debug variant of the last-resort page also escapes its two further holes (`repr(_e)`
and the traceback), so it is constants around three inert cells -/
theorem critical_page_debug_inert :
    ∃ c0 c1 c2 c3 : Str, ∀ (rawPath : Bytes) (dbg : Str × Str),
      criticalPage rawPath true dbg =
        c0 ++ helperEscape (shownPath rawPath) ++ c1 ++ helperEscape dbg.1 ++ c2 ++ helperEscape dbg.2 ++ c3 ∧
      Inert (helperEscape (shownPath rawPath)) ∧ Inert (helperEscape dbg.1) ∧ Inert (helperEscape dbg.2) :=
  ⟨criticalPrefix, criticalSuffix ++ "<h2>Error:</h2>\n<pre>\n".toList, "\n</pre>\n<h2>Traceback:</h2>\n<pre>\n".toList,
   "\n</pre>\n".toList, fun rp d =>
    ⟨by simp only [criticalPage, if_true, List.append_assoc], (escape_no_markup _).2, (escape_no_markup _).2,
      (escape_no_markup _).2⟩⟩

/-! ### JSON -/

/-- `json_error_valid`: what `json.dumps` writes for the error dict is valid JSON that reads
back to the same three values, for every body / exception / traceback text (any characters:
quotes, backslashes, control characters, astral code points) -/
theorem json_error_valid (body exc tb : Option Str) :
    jsonParse (dumpsObj [("body".toList, body), ("exception".toList, exc), ("traceback".toList, tb)]) =
      some [("body".toList, body), ("exception".toList, exc), ("traceback".toList, tb)] :=
  jsonParse_dumpsObj _

/-- the same for any dict of strings / `None` -/
theorem json_dumps_roundtrip (kvs : List (Str × Option Str)) : jsonParse (dumpsObj kvs) = some kvs :=
  jsonParse_dumpsObj kvs

/-! ### the WSGI response -/

/-- End to end, debug off: whatever the request (path bytes, query string, Host, forwarded
host/scheme, Accept, HEAD or not), whichever framework-generated error arises, and whether or
not an application error handler crashes, the response is one of
* body-less (HEAD);
* `application/json` whose body reads back as the three-key error dict;
* `text/html`: one of the closed list of framework pages (`frameworkPages`, chosen without
  looking at request text) around the inert cell of `Request.url` (so Host, forwarded host and
  scheme, path and query string reach the page through `escape` only);
* the last-resort page: two constants around the escaped path. -/
theorem served_error_inert (pr : Char → Bool) (req : Req) (oc : Outcome) (hoc : oc.framework = true)
    (handlerFails : Bool) (dbg : Str × Str) (r : Resp)
    (hr : r = serve pr Gen.errorTemplateLines false req oc handlerFails dbg) :
    r.body = [] ∨
    (r.ctype = jsonType ∧ ∃ b x t, jsonParse r.body =
        some [("body".toList, b), ("exception".toList, some x), ("traceback".toList, t)]) ∨
    (r.ctype = htmlType ∧ ∃ sb ∈ frameworkPages, ∃ url, requestUrl req.env (shownPath req.rawPath) = .ok url ∧
        r.body = pagePre Gen.errorTemplateLines sb ++ urlCell pr url ++ pagePost Gen.errorTemplateLines sb ∧
        Inert (urlCell pr url)) ∨
    (r.ctype = htmlType ∧
        r.body = criticalPrefix ++ helperEscape (shownPath req.rawPath) ++ criticalSuffix ∧
        Inert (helperEscape (shownPath req.rawPath))) := by
  obtain ⟨e, he, hsb, hcode⟩ := handleErr_framework pr req.rawPath oc hoc errors_map_ok
  have hcrit : ∀ r', r' = criticalResp req.rawPath false dbg req.isHead →
      r'.body = [] ∨
      (r'.ctype = htmlType ∧
        r'.body = criticalPrefix ++ helperEscape (shownPath req.rawPath) ++ criticalSuffix ∧
        Inert (helperEscape (shownPath req.rawPath))) := by
    intro r' hr'
    subst hr'
    cases req.isHead with
    | true => exact Or.inl rfl
    | false => exact Or.inr ⟨rfl, rfl, (escape_no_markup _).2⟩
  have hct : ∀ ct, ctypeOf e.code ct = ct := by
    intro ct
    simp only [plainCode, Bool.and_eq_true, bne_iff_ne, ne_eq] at hcode
    simp [ctypeOf, hcode.1.2, hcode.2]
  have hbl : bodyless e.code req.isHead = req.isHead := by
    simp only [plainCode, Bool.and_eq_true, Bool.not_eq_true', bodyless, Bool.or_false] at hcode
    simp only [bodyless]
    rw [hcode.1.1]
    simp
  unfold serve at hr
  simp only [he] at hr
  cases handlerFails with
  | true =>
    simp only [if_true] at hr
    rcases hcrit r hr with h | h
    · exact Or.inl h
    · exact Or.inr (Or.inr (Or.inr h))
  | false =>
    simp only [Bool.false_eq_true, if_false] at hr
    unfold defaultErrorHandler at hr
    cases hj : isJsonRequested req.accept with
    | true =>
      simp only [hj, if_true, hct, hbl] at hr
      cases hh : req.isHead with
      | true => left; rw [hr, hh]; rfl
      | false =>
        right; left
        rw [hr, hh]
        refine ⟨rfl, e.body, strOpt e.exception, e.traceback, ?_⟩
        simp only [Bool.false_eq_true, if_false]
        exact json_error_valid _ _ _
    | false =>
      simp only [hj, Bool.false_eq_true, if_false] at hr
      cases hu : requestUrl req.env (shownPath req.rawPath) with
      | error err =>
        simp only [hu] at hr
        rcases hcrit r hr with h | h
        · exact Or.inl h
        · exact Or.inr (Or.inr (Or.inr h))
      | ok url =>
        simp only [hu, render_nodebug pr _ template_ok escape_tables_ok.1 e url, Except.map, hct, hbl] at hr
        cases hh : req.isHead with
        | true => left; rw [hr, hh]; rfl
        | false =>
          right; right; left
          rw [hr, hh]
          refine ⟨rfl, (e.status, strOpt e.body), hsb, url, rfl, ?_,
            (urlCell_tokenized pr escape_tables_ok.1 url).inert⟩
          simp only [Bool.false_eq_true, if_false]

/-! ### the composed application (`Model/App.lean`): the error pages `Ombott.__call__` really sends -/

/-- the four shapes of `served_error_inert`, as a predicate on a response of this model -/
def InertResponse (pr : Char → Bool) (req : Req) (r : Resp) : Prop :=
  r.body = [] ∨
  (r.ctype = jsonType ∧ ∃ b x t, jsonParse r.body =
      some [("body".toList, b), ("exception".toList, some x), ("traceback".toList, t)]) ∨
  (r.ctype = htmlType ∧ ∃ sb ∈ frameworkPages, ∃ url, requestUrl req.env (shownPath req.rawPath) = .ok url ∧
      r.body = pagePre Gen.errorTemplateLines sb ++ urlCell pr url ++ pagePost Gen.errorTemplateLines sb ∧
      Inert (urlCell pr url)) ∨
  (r.ctype = htmlType ∧
      r.body = criticalPrefix ++ helperEscape (shownPath req.rawPath) ++ criticalSuffix ∧
      Inert (helperEscape (shownPath req.rawPath)))

/-- **`app_error_pages_inert`: the 404 / 405 (and 400) responses `App.serve` produces are the pages
of `served_error_inert`.**  For every application whose hooks do not fail and which installs no
handler of its own for these statuses, every router state and every request environ on which
`App.serve` is defined: when routing itself ends the request (`App.routedOutcome`: the router
answers "no route" or "method not allowed", or `PATH_INFO` is not UTF-8), the one `start_response`
call of `Ombott.__call__` carries the status line and the `Content-Type` of the response `ep` that
`Model/ErrorPage` describes for this environ, the body bytes sent are the UTF-8 encoding of
`ep.body` — through the REAL `_handle`, `apply`, `_cast` loop, `default_error_handler` and
`headerlist` of `Model/Wsgi` (`wsgi_handle_agrees_with_errorpage_handle`) — and `ep` is one of the
inert shapes: request text (path, query string, Host, forwarded host / scheme) reaches the page
through `escape` only, a JSON body reads back. -/
theorem app_error_pages_inert (cfg : App.AppConfig) (R : Router.Router) (q : App.Req) (res : Wsgi.Result)
    (hs : App.serveW cfg R q = .ok res) (oc : Outcome)
    (hoc : App.routedOutcome (App.resolved cfg R q) = some oc)
    (hb : cfg.hooks.before.all (fun h => !h.fails) = true) (ha : cfg.hooks.after.all (fun h => !h.fails) = true)
    (hno : Wsgi.errHandlerFor cfg.hooks 400 = none ∧ Wsgi.errHandlerFor cfg.hooks 404 = none ∧
      Wsgi.errHandlerFor cfg.hooks 405 = none) (dbg : Str × Str) :
    let ep := serve cfg.pr Gen.errorTemplateLines false (App.errorPageReq q) oc false dbg
    (∃ hl, Wsgi.Event.startResponse ep.status hl false ∈ res.events ∧ ("Content-Type".toList, ep.ctype) ∈ hl) ∧
    App.bodyBytes res.body = Py.utf8 ep.body ∧
    InertResponse cfg.pr (App.errorPageReq q) ep := by
  intro ep
  have hfw : oc.framework = true := by
    generalize App.resolved cfg R q = rs at hoc
    cases rs with
    | none => simp only [App.routedOutcome, Option.some.injEq] at hoc; subst hoc; rfl
    | some x =>
      cases x <;> simp only [App.routedOutcome, Option.some.injEq, reduceCtorEq] at hoc <;> subst hoc <;> rfl
  obtain ⟨h1, h2⟩ := App.serve_routing_error_page cfg R q res hs oc hoc hb ha hno dbg
  exact ⟨h1, h2, served_error_inert cfg.pr (App.errorPageReq q) oc hfw false dbg ep rfl⟩

/-- **… and the 500 of a crash.**  When a handler, a statement of it or a hook raises (the program
alone decides: `handleFlow = .exc`), no custom 500 handler is installed and HTML is asked for, the
response of `App.serve` is the page `Model/ErrorPage` describes for a crash — whatever the
exception's class, message and traceback are: with debug off none of them reaches the page. -/
theorem app_crash_page_inert (cfg : App.AppConfig) (R : Router.Router) (q : App.Req) (res : Wsgi.Result)
    (hs : App.serveW cfg R q = .ok res) (path : Str) (hpath : utf8Decode q.rawPath = some path)
    (hcrash : ∀ r, App.wsgiReq cfg R q = .ok r → Wsgi.handleFlow cfg.hooks r = .exc)
    (hno : Wsgi.errHandlerFor cfg.hooks 500 = none) (hj : isJsonRequested q.accept = false)
    (cls msg tb : Str) (dbg : Str × Str) :
    let ep := serve cfg.pr Gen.errorTemplateLines false (App.errorPageReq q) (.raises cls msg tb) false dbg
    (∃ hl, Wsgi.Event.startResponse ep.status hl false ∈ res.events ∧ ("Content-Type".toList, ep.ctype) ∈ hl) ∧
    App.bodyBytes res.body = Py.utf8 ep.body ∧
    InertResponse cfg.pr (App.errorPageReq q) ep := by
  intro ep
  obtain ⟨h1, h2⟩ := App.serve_crash_page cfg R q res hs path hpath hcrash hno hj cls msg tb dbg
  exact ⟨h1, h2, served_error_inert cfg.pr (App.errorPageReq q) _ rfl false dbg ep rfl⟩

/-! ### non-vacuity: concrete instances meeting the hypotheses, and the notions have teeth -/
section NonVacuity

/-- `repr_introduces_none`: a string with all three characters and both quotes -/
example : '<' ∈ pyRepr (fun _ => true) "a<>&'\"".toList ∧ '&' ∈ pyRepr (fun _ => false) "a<>&'\"".toList := by
  decide

/-- `Inert` is not trivially true: a bare `<`, a quote, or an `&` that starts no entity fail it -/
example : ¬ Inert "<b>".toList := fun h => (h.1 '<' (by decide)).1 rfl
example : ¬ Inert "x'".toList := fun h => (h.1 '\'' (by decide)).2.2.2 rfl
example : ¬ Inert "a&b".toList := fun h => by
  obtain ⟨ent, he, hp⟩ := h.2 ['a'] ['b'] rfl
  revert ent
  decide

/-- a request whose Host and query string carry markup, quotes, an ampersand and format syntax -/
def demoReq : Req :=
  { rawPath := [47, 110, 120], accept := none, isHead := false,
    env := { fwdProto := none, urlScheme := some "http".toList, fwdHost := none,
             host := some "h<b>'\"&".toList, serverName := none, serverPort := none,
             query := some "q=<i>{url}{0}".toList, scriptName := none, joinLib := .error .valueError } }

/-- `served_error_inert`, HTML case: the hypotheses are met by `demoReq` with a 404, the page is
not empty and shows the request text only in escaped form -/
example : Outcome.framework .notFound = true ∧
    (serve (fun _ => true) Gen.errorTemplateLines false demoReq .notFound false ([], [])).ctype = htmlType ∧
    (findSub "'http://h&lt;b&gt;&#x27;&quot;&amp;/nx?q=&lt;i&gt;{url}{0}'".toList
      (serve (fun _ => true) Gen.errorTemplateLines false demoReq .notFound false ([], [])).body).isSome = true := by
  decide +kernel

/-- `request_url_error_only_from_urljoin`: a path whose text after the slash is `http://[`
makes the model ask the library, whose `ValueError` becomes the error of `Request.url` -/
example : (match requestUrl { demoReq.env with joinLib := .error .valueError } "/http://[".toList with
    | .error e => e == .valueError
    | .ok _ => false) = true := by
  decide +kernel

/-- JSON case: same request with `Accept: application/json`, a crashing handler -/
example :
    (serve (fun _ => true) Gen.errorTemplateLines false { demoReq with accept := some "application/json".toList }
      (.raises "ValueError".toList "x\"<".toList "tb\n".toList) false ([], [])).body =
    "{\"body\": \"Internal Server Error\", \"exception\": \"ValueError('x\\\"<')\", \"traceback\": \"tb\\n\"}".toList := by
  decide +kernel

/-- last-resort case: an application error handler that raises -/
example :
    (serve (fun _ => true) Gen.errorTemplateLines false { demoReq with rawPath := [47, 60, 98, 62, 39] }
      .notFound true ([], [])).body =
    "<h1>Critical error while processing request: /&lt;b&gt;&#039;</h1>".toList := by
  decide +kernel

/-- the hypothesis `oc.framework` is needed: text passed to `abort()` by user code is placed in
the page as it is (outside the property: not a framework-generated error) -/
example : (findSub "<pre><script></pre>".toList
    (serve (fun _ => true) Gen.errorTemplateLines false demoReq (.abort 500 (some "<script>".toList)) false
      ([], [])).body).isSome = true := by
  decide +kernel

/-- with debug on the exception text is shown unescaped (why the property says "debug off") -/
example : (findSub "<pre>ValueError('<b>')</pre>".toList
    (serve (fun _ => true) Gen.errorTemplateLines true demoReq
      (.raises "ValueError".toList "<b>".toList "tb".toList) false ([], [])).body).isSome = true := by
  decide +kernel

/-! #### the composed application -/

/-- a before hook that sets a header and a cookie; every callback raises -/
def demoCfg : App.AppConfig :=
  { hooks := { before := [{ effs := [.setHeader "X-B".toList "1".toList, .setCookie "k".toList "v".toList], res := .ok }],
               after := [], errHandlers := [] },
    handlers := fun _ _ => { effs := [], res := .raises },
    upper := Router.asciiUpper, fenv := fun _ _ => none, pr := fun _ => true }

def demoRouter : Router.Router :=
  Router.Router.run Router.asciiUpper
    [.add (fun _ => none) { rule := "/nx".toList, methods := ["POST".toList], handler := 0 }]

def demoAppReq (verb : String) (path : List UInt8) : App.Req :=
  { id := 1, verb := verb.toList, rawPath := path, env := demoReq.env, accept := none, fileWrapper := false }

/-- hypotheses of `app_error_pages_inert` on three requests with markup in Host and query string:
`GET /zz` (no route), `GET /nx` (405), an undecodable path (400) — `App.serve` is defined, routing
ends the request, the hook does not fail, no custom handlers; and the page really sent shows the
request text escaped only -/
example :
    (demoCfg.hooks.before.all (fun h => !h.fails) = true ∧ demoCfg.hooks.after.all (fun h => !h.fails) = true ∧
     Wsgi.errHandlerFor demoCfg.hooks 400 = none ∧ Wsgi.errHandlerFor demoCfg.hooks 404 = none ∧
     Wsgi.errHandlerFor demoCfg.hooks 405 = none) ∧
    ([("GET", [47, 122, 122]), ("GET", [47, 110, 120]), ("GET", [47, 255])].map fun (v, p) =>
      (App.routedOutcome (App.resolved demoCfg demoRouter (demoAppReq v p))).isSome &&
      (match App.serveW demoCfg demoRouter (demoAppReq v p) with
       | .ok res =>
         (findSub (Py.utf8 "'http://h&lt;b&gt;&#x27;&quot;&amp;/".toList) (App.bodyBytes res.body)).isSome &&
         (findSub (Py.utf8 "?q=&lt;i&gt;{url}{0}'".toList) (App.bodyBytes res.body)).isSome &&
         !(findSub (Py.utf8 "<b>".toList) (App.bodyBytes res.body)).isSome
       | .error _ => false)) = [true, true, true] := by
  refine ⟨⟨by decide, by decide, by decide, by decide, by decide⟩, by decide +kernel⟩

/-- hypotheses of `app_crash_page_inert`: `POST /nx` reaches the callback, which raises -/
example :
    (match App.wsgiReq demoCfg demoRouter (demoAppReq "POST" [47, 110, 120]) with
     | .ok r => (match Wsgi.handleFlow demoCfg.hooks r with | .exc => true | _ => false)
     | .error _ => false) = true ∧
    Wsgi.errHandlerFor demoCfg.hooks 500 = none ∧ isJsonRequested (demoAppReq "POST" [47, 110, 120]).accept = false ∧
    (match App.serveW demoCfg demoRouter (demoAppReq "POST" [47, 110, 120]) with
     | .ok res => res.slots.resp.code == 500 &&
         (findSub (Py.utf8 "<pre>Internal Server Error</pre>".toList) (App.bodyBytes res.body)).isSome
     | .error _ => false) = true := by
  refine ⟨by decide +kernel, by decide, by decide, by decide +kernel⟩

end NonVacuity

end Ombott.ErrorPage
