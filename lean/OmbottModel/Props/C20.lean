import OmbottModel.Model.ErrorPageSpec
import OmbottModel.Lemmas.ErrorPageEscape
/-!
C20 — Framework error pages never reflect request data unescaped.
Property theorems only; helper lemmas live in `Lemmas/ErrorPage*.lean`.
-/
namespace Ombott.ErrorPage
open Py

/-- the generated replacement tables of both escapers cover all five special characters and
map them to character references only (re-checked whenever the tables change) -/
theorem escape_tables_ok :
    PairsOK Gen.pageEscapePairs = true ∧ PairsOK Gen.helperEscapePairs = true := by
  constructor <;> decide +kernel

/-- `escape_no_markup`: for every string `s`, the output of `html.escape` (as `render` uses it)
and of `html_escape` (as the last-resort page uses it) contains none of `< > " '`, and every
`&` in it starts one of the character references -/
theorem escape_no_markup (s : Str) : Inert (pageEscape s) ∧ Inert (helperEscape s) :=
  ⟨(escapeWith_tokenized _ escape_tables_ok.1 s).inert, (escapeWith_tokenized _ escape_tables_ok.2 s).inert⟩

end Ombott.ErrorPage
