import OmbottModel.Model.RouterSpec
import OmbottModel.Lemmas.RouterGet
import OmbottModel.Lemmas.RouterPrio
import OmbottModel.Lemmas.RouterIns
/-!
C01 — Route resolution equals the plain rule-by-rule semantics.
Property theorems only; helper lemmas live in `Lemmas/Router*.lean`.
-/
namespace Ombott.Router
open Py

/-- **Lookup = plain rule-by-rule matching.**  In every well-formed tree, for every filter
environment without `rex` selectors and every path, `RadiDict.get` selects exactly the rule the
plain matcher selects among the rules the tree holds (the matching rule that has literal text
where every other matching rule has a wildcard at the first difference), with the values the
filters produced, and misses iff no rule matches. -/
theorem get_eq_spec (env : FilterEnv) (hs : NoSel env) (t : Node) (h : WFN t) (path : Str) :
    (treeGet env t path).core =
      (specResolve env (denote t) path).map fun x => (x.1.data, x.1.keys, x.2) := by
  unfold treeGet denote
  rw [getN_core env hs t h, firstMatch_eq_specResolve env _ _ (denN_sorted env t h path)]
  cases firstMatch env (denN t) path <;> simp [coreOf]

/-- the empty tree of a new `RadiDict` is well formed and holds no rule -/
theorem root_wf : WFN Node.root ∧ denote Node.root = [] := by
  unfold Node.root WFN WFL WFT denote
  simp [denN, denL, denT, ownRule]

/-- **Insertion keeps the tree well formed**: `RadiDict.add` on a well-formed tree gives a
well-formed tree (or raises, and then there is no new tree: the caller keeps the old one). -/
theorem insert_wf (t t' : Node) (pat : List Sym) (d : Nat) (names : List Str) (ow : Bool)
    (h : WFN t) (hi : treeAdd t pat d names ow = .ok t') : WFN t' :=
  (insN_spec _ t h pat t' hi).1

/-- **Insertion adds exactly the rule**: after `RadiDict.add(pattern, data, params)` the tree
holds the rule `(pattern, data, params)`, every rule it held before under another pattern, and
nothing else (the rule previously stored under the same pattern is replaced). -/
theorem insert_denote (t t' : Node) (pat : List Sym) (d : Nat) (names : List Str) (ow : Bool)
    (h : WFN t) (hi : treeAdd t pat d names ow = .ok t') :
    ∀ e, e ∈ denote t' ↔ e = ⟨pat, d, names⟩ ∨ (e ∈ denote t ∧ e.pat ≠ pat) := by
  intro e
  have := (insN_spec _ t h pat t' hi).2.2.2 e
  simpa [newRule, denote] using this

/-- "not found" is answered exactly when the tree lookup finds no route -/
theorem resolve_notFound_iff_miss (env : FilterEnv) (R : Router) (path : Str) (ms : List Str) :
    (∃ v h p, R.resolve env path ms = .notFound v h p) ↔
      (treeGet env R.tree (stripSlash path)).isHit = false := by
  unfold Router.resolve
  cases hg : treeGet env R.tree (stripSlash path) with
  | miss v h p => simp [Res.isHit]
  | hit id k v h =>
    simp only [Res.isHit]
    cases ho : R.obj? id with
    | none => simp
    | some r => cases hgi : r.getItem ms <;> simp [hgi]

end Ombott.Router
