import OmbottModel.Model.Router
/-!
C01 — Route resolution equals the plain rule-by-rule semantics.
Property theorems only; helper lemmas live in `Lemmas/Router*.lean`.
-/
namespace Ombott.Router
open Py

/-- "not found" is answered exactly when the tree lookup finds no route -/
theorem resolve_notFound_iff_miss (env : FilterEnv) (R : Router) (path : Str) (ms : List Str) :
    (∃ v h p, R.resolve env path ms = .notFound v h p) ↔
      (treeGet env R.tree (stripSlash path)).isHit = false := by
  unfold Router.resolve
  cases hg : treeGet env R.tree (stripSlash path) with
  | miss v h p => simp [Res.isHit]
  | hit id k v h =>
    simp only [Res.isHit]
    cases ho : R.obj? id with
    | none => simp
    | some r => cases hgi : r.getItem ms <;> simp [hgi]

end Ombott.Router
