import OmbottModel.Model.RouterSpec
import OmbottModel.Lemmas.RouterGet
import OmbottModel.Lemmas.RouterPrio
/-!
C01 — Route resolution equals the plain rule-by-rule semantics.
Property theorems only; helper lemmas live in `Lemmas/Router*.lean`.
-/
namespace Ombott.Router
open Py

/-- **Lookup = plain rule-by-rule matching.**  In every well-formed tree, for every filter
environment without `rex` selectors and every path, `RadiDict.get` selects exactly the rule the
plain matcher selects among the rules the tree holds (the matching rule that has literal text
where every other matching rule has a wildcard at the first difference), with the values the
filters produced, and misses iff no rule matches. -/
theorem get_eq_spec (env : FilterEnv) (hs : NoSel env) (t : Node) (h : WFN t) (path : Str) :
    (treeGet env t path).core =
      (specResolve env (denote t) path).map fun x => (x.1.data, x.1.keys, x.2) := by
  unfold treeGet denote
  rw [getN_core env hs t h, firstMatch_eq_specResolve env _ _ (denN_sorted env t h path)]
  cases firstMatch env (denN t) path <;> simp [coreOf]

/-- "not found" is answered exactly when the tree lookup finds no route -/
theorem resolve_notFound_iff_miss (env : FilterEnv) (R : Router) (path : Str) (ms : List Str) :
    (∃ v h p, R.resolve env path ms = .notFound v h p) ↔
      (treeGet env R.tree (stripSlash path)).isHit = false := by
  unfold Router.resolve
  cases hg : treeGet env R.tree (stripSlash path) with
  | miss v h p => simp [Res.isHit]
  | hit id k v h =>
    simp only [Res.isHit]
    cases ho : R.obj? id with
    | none => simp
    | some r => cases hgi : r.getItem ms <;> simp [hgi]

end Ombott.Router
